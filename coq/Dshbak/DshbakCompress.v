(* C19, the heart: the header printed by dshbak -c (Perl's compress/comp), read by the model of
   the C host-list parser (C01), expands to exactly the hosts it was made from. *)
From Coq Require Import Permutation.
From PV Require Import Base.DecimalFacts Hostlist.HLDefs Hostlist.HLSpec Hostlist.HLFacts Hostlist.HLParseFacts
  Dshbak.Dshbak Dshbak.DshbakBase.
Local Open Scope N_scope.

(* ====================================================================== *)
(* 1. Names: prefix / number / suffix                                      *)
(* ====================================================================== *)

Lemma split_num_spec s : let '(p, n) := split_num s in s = p ++ n /\ forallb is_digit n = true.
Proof. unfold split_num. split.
  - rewrite <- rev_app_distr, take_drop_while, rev_involutive. reflexivity.
  - apply forallb_rev. apply take_while_forallb. Qed.

Lemma split_sfx_spec s : let '(h, t) := split_sfx s in
  s = h ++ t /\ (h <> [] -> snd (split_num h) <> []).
Proof. unfold split_sfx. split.
  - rewrite <- rev_app_distr, take_drop_while, rev_involutive. reflexivity.
  - intro Hne. unfold split_num. cbn [snd]. rewrite rev_involutive.
    destruct (drop_while not_digit (rev s)) as [|c r] eqn:E; [exfalso; apply Hne; reflexivity|].
    assert (Hc : not_digit c = false).
    { clear Hne. revert E. induction (rev s) as [|x l IH]; cbn [drop_while]; [discriminate|].
      destruct (not_digit x) eqn:F; auto. intro E. inversion E; subst. auto. }
    unfold not_digit in Hc. apply negb_false_iff in Hc. cbn [take_while]. rewrite Hc.
    intro F. apply (f_equal (@length N)) in F. rewrite rev_length in F. cbn in F. lia. Qed.

Lemma ndigits_value_le ds : ds <> [] -> forallb is_digit ds = true -> (ndigits (value ds) <= length ds)%nat.
Proof. intros H1 H2. pose proof (fmt_length (length ds) (value ds)) as E. rewrite fmt_value in E by auto. lia. Qed.

Lemma zpw_nz d r : d <> 48 -> zeropadwidth (d :: r) = 1%nat.
Proof. intro H. unfold zeropadwidth. destruct d as [|p]; [reflexivity|].
  do 6 (destruct p as [p|p|]; try reflexivity; try (exfalso; apply H; reflexivity)). Qed.

Lemma zpw_fmt w v : zeropadwidth (fmt w v) = if (ndigits v <? w)%nat then w else 1%nat.
Proof. unfold fmt. destruct (ndigits v <? w)%nat eqn:E.
  - apply Nat.ltb_lt in E. destruct (w - ndigits v)%nat as [|k] eqn:K; [lia|]. cbn [repeat app].
    destruct (repeat 48 k ++ digits v) as [|c r] eqn:R.
    + apply app_eq_nil in R as [_ R]. apply (f_equal (@length N)) in R. rewrite digits_length in R.
      pose proof (ndigits_pos v). cbn in R. lia.
    + cbn [zeropadwidth]. rewrite <- R. cbn [length]. rewrite app_length, repeat_length, digits_length. lia.
  - apply Nat.ltb_ge in E. replace (w - ndigits v)%nat with 0%nat by lia. cbn [repeat app].
    destruct (N.eq_dec v 0) as [->|Hv]; [reflexivity|].
    destruct (digits_head_nonzero v) as (d & r & Ed & Hd); [lia|]. rewrite Ed. apply zpw_nz; auto. Qed.

(* the step that makes a merge sound: m is printed with width w, n is the next number and sits in a
   zero-pad class the script accepts after m; then n is the next number printed with width w *)
Lemma merge_ok w vm n :
  n <> [] -> forallb is_digit n = true -> value n = vm + 1 ->
  (zeropadwidth n = zeropadwidth (fmt w vm) \/ (zeropadwidth n = 1%nat /\ length n = zeropadwidth (fmt w vm))) ->
  n = fmt w (vm + 1).
Proof. intros Hne Hd Hv Hz.
  rewrite <- (fmt_value n Hne Hd) at 1. rewrite Hv. apply fmt_width_eq.
  assert (Zn : zeropadwidth n = zeropadwidth (fmt (length n) (vm + 1))) by (rewrite <- Hv, fmt_value; auto).
  rewrite Zn in Hz. rewrite !zpw_fmt in Hz.
  pose proof (ndigits_value_le n Hne Hd) as HL. rewrite Hv in HL.
  pose proof (ndigits_mono vm (vm + 1) ltac:(lia)) as Hm.
  pose proof (ndigits_pos vm). pose proof (ndigits_pos (vm + 1)).
  destruct (ndigits (vm + 1) <? length n)%nat eqn:E1, (ndigits vm <? w)%nat eqn:E2;
    try apply Nat.ltb_lt in E1; try apply Nat.ltb_lt in E2; try apply Nat.ltb_ge in E1; try apply Nat.ltb_ge in E2; lia. Qed.

(* ====================================================================== *)
(* 2. comp: the ranges it keeps, with their members as ghost state         *)
(* ====================================================================== *)

(* what comp stores for a range whose members (digit strings, in order) are M *)
Definition erase (M : list bytes) : rge :=
  mkrge (hd [] M) (match M with _ :: _ :: _ => Some (last M []) | _ => None end).

(* the members are the consecutive numbers from the first one, all printed with its width *)
Definition chain_ok (M : list bytes) : Prop :=
  hd [] M <> [] /\ forallb is_digit (hd [] M) = true /\
  M = map (fmt (length (hd [] M))) (count_up (length M) (value (hd [] M))) /\
  Forall (fun m => value m < NUM_LIMIT) M.

Definition ghost := al (list (list bytes)).
Definition emap (g : ghost) : al (list rge) := map (fun pr => (fst pr, map erase (snd pr))) g.
Definition names (g : ghost) : list bytes := flat_map (fun pr => map (app (fst pr)) (concat (snd pr))) g.

Record Inv (st : cstate) (g : ghost) (done : list bytes) : Prop := {
  I_s : cs_s st = emap g;
  I_nd : NoDup (map fst g);
  I_ch : forall p Ms, al_get p g = Some Ms -> Ms <> [] /\ Forall chain_ok Ms;
  I_pm : Permutation (names g) done;
  I_ix : forall p zp k ix, ilookup (p, zp, k) (cs_i st) = Some ix ->
         exists Ms M j m, al_get p g = Some Ms /\ nth_error Ms ix = Some M /\ nth_error M j = Some m /\
                          Z.of_N (value m) = k /\ zeropadwidth m = zp }.

Lemma al_get_emap p g : al_get p (emap g) = option_map (map erase) (al_get p g).
Proof. induction g as [|[k v] r IH]; cbn [emap map al_get fst snd option_map]; auto.
  destruct (beq p k); auto. Qed.

Lemma al_upd_emap p f f' (g : ghost) :
  f (option_map (map erase) (al_get p g)) = map erase (f' (al_get p g)) ->
  al_upd p f (emap g) = emap (al_upd p f' g).
Proof. induction g as [|[k v] r IH]; cbn [emap map al_get al_upd fst snd option_map]; intro H.
  - rewrite H. reflexivity.
  - destruct (beq p k); cbn [map fst snd option_map] in *.
    + rewrite H. reflexivity.
    + f_equal. apply IH. exact H. Qed.

Lemma emap_keys g : map fst (emap g) = map fst g.
Proof. unfold emap. rewrite map_map. reflexivity. Qed.

Lemma names_upd p f (g : ghost) x :
  Permutation (map (app p) (concat (f (al_get p g)))) (x :: map (app p) (concat (default [] (al_get p g)))) ->
  Permutation (names (al_upd p f g)) (x :: names g).
Proof. induction g as [|[k v] r IH]; cbn [names flat_map al_get al_upd fst snd default]; intro H.
  - rewrite app_nil_r. exact H.
  - destruct (beq p k) eqn:E; cbn [flat_map fst snd].
    + apply beq_eq in E. subst k. cbn [default] in H.
      exact (Permutation_app_tail _ H).
    + eapply perm_trans; [apply Permutation_app_head; apply IH; exact H|].
      symmetry. apply Permutation_middle. Qed.

Lemma ikey_eqb_eq a b : ikey_eqb a b = true <-> a = b.
Proof. destruct a as [[p z] k], b as [[p' z'] k']. unfold ikey_eqb.
  rewrite !andb_true_iff, beq_eq, Nat.eqb_eq, Z.eqb_eq. split.
  - intros [[-> ->] ->]. reflexivity.
  - intro E. inversion E. auto. Qed.

Fixpoint set_nth {A} (i : nat) (x : A) (l : list A) : list A :=
  match l, i with
  | [], _ => []
  | _ :: r, O => x :: r
  | y :: r, S j => y :: set_nth j x r
  end.

Lemma set_nth_length {A} i (x : A) l : length (set_nth i x l) = length l.
Proof. revert i; induction l as [|y l IH]; intros [|i]; cbn [set_nth length]; auto. Qed.

Lemma set_nth_same {A} i (x : A) l y : nth_error l i = Some y -> nth_error (set_nth i x l) i = Some x.
Proof. revert i; induction l as [|z l IH]; intros [|i]; cbn [set_nth nth_error]; try discriminate; auto. Qed.

Lemma set_nth_other {A} i j (x : A) l : i <> j -> nth_error (set_nth i x l) j = nth_error l j.
Proof. revert i j; induction l as [|z l IH]; intros [|i] [|j] H; cbn [set_nth nth_error]; auto; congruence. Qed.

Lemma set_nth_concat {A} i (M : list A) n Ms :
  nth_error Ms i = Some M -> Permutation (concat (set_nth i (M ++ [n]) Ms)) (n :: concat Ms).
Proof. revert i; induction Ms as [|y Ms IH]; intros [|i]; cbn [set_nth nth_error concat]; try discriminate.
  - intro E. inversion E; subst. rewrite <- app_assoc. cbn [app]. symmetry. apply Permutation_middle.
  - intro E. eapply perm_trans; [apply Permutation_app_head; apply IH; exact E|].
    symmetry. apply Permutation_middle. Qed.

Lemma set_nth_Forall {A} (P : A -> Prop) i x l : Forall P l -> P x -> Forall P (set_nth i x l).
Proof. revert i; induction l as [|y l IH]; intros [|i] H Hx; cbn [set_nth]; auto; inversion H; subst; constructor; auto. Qed.

Lemma erase_snoc M n : M <> [] -> erase (M ++ [n]) = mkrge (hd [] M) (Some n).
Proof. destruct M as [|a M]; [congruence|]. intros _. unfold erase. cbn [app hd].
  destruct M as [|b M]; cbn [app]; [reflexivity|]. f_equal. f_equal.
  change (a :: b :: M ++ [n]) with ((a :: b :: M) ++ [n]). apply last_last. Qed.

Lemma set_end_erase n ix Ms M :
  nth_error Ms ix = Some M -> M <> [] -> set_end n ix (map erase Ms) = map erase (set_nth ix (M ++ [n]) Ms).
Proof. revert ix; induction Ms as [|y Ms IH]; intros [|i]; cbn [nth_error map set_end set_nth]; try discriminate.
  - intros E Hne. inversion E; subst. rewrite erase_snoc by auto. reflexivity.
  - intros E Hne. f_equal. apply IH; auto. Qed.

Lemma count_up_nth k : forall v j x, nth_error (count_up k v) j = Some x -> x = v + N.of_nat j /\ (j < k)%nat.
Proof. induction k as [|k IH]; intros v [|j] x; cbn [count_up nth_error]; try discriminate.
  - intro E. inversion E. split; lia.
  - intro E. apply IH in E. split; lia. Qed.

Lemma count_up_nth_lt k : forall v j, (j < k)%nat -> nth_error (count_up k v) j = Some (v + N.of_nat j).
Proof. induction k as [|k IH]; intros v [|j] H; cbn [count_up nth_error]; try lia.
  - f_equal. lia.
  - rewrite IH by lia. f_equal. lia. Qed.

Lemma chain_nth M j m : chain_ok M -> nth_error M j = Some m ->
  m = fmt (length (hd [] M)) (value (hd [] M) + N.of_nat j) /\ (j < length M)%nat.
Proof. intros (H1 & H2 & H3 & H4) E. rewrite H3 in E at 1. rewrite nth_error_map in E.
  destruct (nth_error (count_up (length M) (value (hd [] M))) j) as [x|] eqn:F; [|discriminate].
  apply count_up_nth in F as [-> F]. inversion E. auto. Qed.

Lemma chain_nth_lt M j : chain_ok M -> (j < length M)%nat ->
  nth_error M j = Some (fmt (length (hd [] M)) (value (hd [] M) + N.of_nat j)).
Proof. intros (H1 & H2 & H3 & H4) E. rewrite H3 at 1. rewrite nth_error_map, count_up_nth_lt by auto. reflexivity. Qed.

Lemma chain_single n : n <> [] -> forallb is_digit n = true -> value n < NUM_LIMIT -> chain_ok [n].
Proof. intros H1 H2 H3. unfold chain_ok. cbn [hd length count_up map]. repeat split; auto.
  rewrite fmt_value; auto. Qed.

Lemma chain_snoc M n : chain_ok M -> n = fmt (length (hd [] M)) (value (hd [] M) + N.of_nat (length M)) ->
  value n < NUM_LIMIT -> chain_ok (M ++ [n]).
Proof. intros (H1 & H2 & H3 & H4) En Hn.
  assert (Hne : M <> []) by (intro E; subst; apply H1; reflexivity).
  assert (Hh : hd [] (M ++ [n]) = hd [] M) by (destruct M; [congruence|reflexivity]).
  unfold chain_ok. rewrite Hh. repeat split; auto.
  - rewrite app_length. cbn [length]. rewrite count_up_app, map_app. cbn [count_up map]. rewrite <- H3, <- En. reflexivity.
  - apply Forall_app. split; auto. Qed.

Lemma names_In (g : ghost) p Ms M m : al_get p g = Some Ms -> In M Ms -> In m M -> In (p ++ m) (names g).
Proof. intros A B C. unfold names. apply in_flat_map. exists (p, Ms). split; [apply al_get_In; auto|].
  cbn [fst snd]. apply in_map. apply in_concat. eauto. Qed.

Lemma chain_nonempty M : chain_ok M -> M <> [].
Proof. intros (H & _) E. subst. apply H. reflexivity. Qed.

(* one round of comp's loop keeps the invariant, provided the host is new *)
Lemma inv_step st g done host p n :
  Inv st g done -> ~ In host done -> split_num host = (p, n) -> n <> [] -> value n < NUM_LIMIT ->
  exists g', Inv (comp_step st host) g' (host :: done).
Proof.
  intros HI Hnew Hs Hne Hlim. destruct HI as [Is Ind Ich Ipm Iix].
  pose proof (split_num_spec host) as Hsp. rewrite Hs in Hsp. destruct Hsp as [Eh Hd].
  unfold comp_step. rewrite Hs.
  set (zp := zeropadwidth n). set (v := Z.of_N (value n)).
  destruct (match ilookup (p, zp, (v - 1)%Z) (cs_i st) with
            | Some x => Some x
            | None => if Nat.eqb zp 1 then ilookup (p, length n, (v - 1)%Z) (cs_i st) else None
            end) as [ix|] eqn:Eidx.
  - (* $n-1 is on record *)
    assert (Hw : exists Ms M j m, al_get p g = Some Ms /\ nth_error Ms ix = Some M /\ nth_error M j = Some m /\
                 Z.of_N (value m) = (v - 1)%Z /\
                 (zeropadwidth n = zeropadwidth m \/ (zeropadwidth n = 1%nat /\ length n = zeropadwidth m))).
    { destruct (ilookup (p, zp, (v - 1)%Z) (cs_i st)) as [x|] eqn:E1.
      - inversion Eidx; subst x. destruct (Iix _ _ _ _ E1) as (Ms & M & j & m & A & B & C & D & E).
        exists Ms, M, j, m. repeat split; auto.
      - destruct (Nat.eqb zp 1) eqn:E2; [|discriminate]. apply Nat.eqb_eq in E2.
        destruct (Iix _ _ _ _ Eidx) as (Ms & M & j & m & A & B & C & D & E).
        exists Ms, M, j, m. repeat split; auto. }
    destruct Hw as (Ms & M & j & m & A & B & C & D & E).
    destruct (Ich p Ms A) as [HMs HF].
    assert (HM : chain_ok M) by (rewrite Forall_forall in HF; apply HF; eapply nth_error_In; eauto).
    destruct (chain_nth M j m HM C) as [Em Hj].
    set (w := length (hd [] M)) in *. set (v0 := value (hd [] M)) in *.
    assert (Hvn : value n = (v0 + N.of_nat j) + 1). { subst m. rewrite value_fmt in D. subst v. lia. }
    assert (En : n = fmt w (v0 + N.of_nat j + 1)).
    { apply merge_ok; auto. rewrite <- Em. exact E. }
    destruct (Nat.eq_dec (S j) (length M)) as [Hlast|Hnl].
    + (* the record is the end of its range: the range grows by n *)
      exists (al_upd p (fun o => set_nth ix (M ++ [n]) (default [] o)) g).
      assert (HM' : chain_ok (M ++ [n])).
      { apply chain_snoc; auto. fold w v0. rewrite En. f_equal. lia. }
      constructor; cbn [cs_s cs_i].
      * rewrite Is. apply al_upd_emap. rewrite A. cbn [option_map default].
        apply set_end_erase; auto. apply chain_nonempty; auto.
      * apply al_upd_NoDup; auto.
      * intros p' Ms' G. destruct (list_eq_dec N.eq_dec p' p) as [->|Np].
        -- rewrite al_get_upd_same in G. inversion G; subst Ms'. rewrite A. cbn [default]. split.
           ++ intro F. apply (f_equal (@length _)) in F. rewrite set_nth_length in F.
              destruct Ms; [contradiction|discriminate].
           ++ apply set_nth_Forall; auto.
        -- rewrite al_get_upd_other in G by auto. apply (Ich _ _ G).
      * eapply perm_trans; [apply names_upd with (x := host)|apply perm_skip; exact Ipm].
        rewrite A. cbn [default]. rewrite Eh.
        change ((p ++ n) :: map (app p) (concat Ms)) with (map (app p) (n :: concat Ms)).
        apply Permutation_map. apply set_nth_concat; auto.
      * intros p0 zp0 k0 ix0. cbn [ilookup]. destruct (ikey_eqb (p0, zp0, k0) (p, zp, v)) eqn:K.
        -- apply ikey_eqb_eq in K. inversion K; subst p0 zp0 k0. intro E0. inversion E0; subst ix0.
           exists (set_nth ix (M ++ [n]) Ms), (M ++ [n]), (length M), n. repeat split.
           ++ rewrite al_get_upd_same, A. reflexivity.
           ++ eapply set_nth_same; eauto.
           ++ rewrite nth_error_app2, Nat.sub_diag by lia. reflexivity.
        -- intro E0. destruct (Iix _ _ _ _ E0) as (Ms0 & M0 & j0 & m0 & A0 & B0 & C0 & D0 & E0').
           destruct (list_eq_dec N.eq_dec p0 p) as [->|Np].
           ++ rewrite A in A0. inversion A0; subst Ms0.
              destruct (Nat.eq_dec ix0 ix) as [->|Nix].
              ** rewrite B in B0. inversion B0; subst M0.
                 exists (set_nth ix (M ++ [n]) Ms), (M ++ [n]), j0, m0. repeat split; auto.
                 --- rewrite al_get_upd_same, A. reflexivity.
                 --- eapply set_nth_same; eauto.
                 --- rewrite nth_error_app1; auto. apply nth_error_Some. congruence.
              ** exists (set_nth ix (M ++ [n]) Ms), M0, j0, m0. repeat split; auto.
                 --- rewrite al_get_upd_same, A. reflexivity.
                 --- rewrite set_nth_other; auto.
           ++ exists Ms0, M0, j0, m0. repeat split; auto. rewrite al_get_upd_other; auto.
    + (* the record is inside a range: then n is the member after it, and host is not new *)
      exfalso. assert (Hj' : (S j < length M)%nat) by lia.
      pose proof (chain_nth_lt M (S j) HM Hj') as F. fold w v0 in F.
      replace (v0 + N.of_nat (S j)) with (v0 + N.of_nat j + 1) in F by lia. rewrite <- En in F.
      apply Hnew. eapply Permutation_in; [exact Ipm|]. rewrite Eh.
      eapply names_In; eauto; eapply nth_error_In; eauto.
  - (* a new range *)
    exists (al_upd p (fun o => default [] o ++ [[n]]) g).
    assert (Hc : chain_ok [n]) by (apply chain_single; auto).
    constructor; cbn [cs_s cs_i].
    * rewrite Is. apply al_upd_emap. destruct (al_get p g); cbn [option_map default]; rewrite ?map_app; reflexivity.
    * apply al_upd_NoDup; auto.
    * intros p' Ms' G. destruct (list_eq_dec N.eq_dec p' p) as [->|Np].
      -- rewrite al_get_upd_same in G. inversion G; subst Ms'. split.
         ++ intro F. apply app_eq_nil in F as [_ F]. discriminate.
         ++ apply Forall_app. split; [|constructor; auto].
            destruct (al_get p g) as [Ms|] eqn:A; cbn [default]; [apply (Ich p Ms A)|constructor].
      -- rewrite al_get_upd_other in G by auto. apply (Ich _ _ G).
    * eapply perm_trans; [apply names_upd with (x := host)|apply perm_skip; exact Ipm].
      rewrite concat_app, map_app. cbn [concat app map]. rewrite Eh. symmetry. apply Permutation_cons_append.
    * intros p0 zp0 k0 ix0. cbn [ilookup]. destruct (ikey_eqb (p0, zp0, k0) (p, zp, v)) eqn:K.
      -- apply ikey_eqb_eq in K. inversion K; subst p0 zp0 k0. intro E0. inversion E0; subst ix0.
         rewrite Is, al_get_emap.
         exists (default [] (al_get p g) ++ [[n]]), [n], 0%nat, n. repeat split.
         ++ rewrite al_get_upd_same. reflexivity.
         ++ destruct (al_get p g) as [Ms|]; cbn [option_map default]; rewrite ?map_length.
            ** rewrite nth_error_app2, Nat.sub_diag by lia. reflexivity.
            ** reflexivity.
      -- intro E0. destruct (Iix _ _ _ _ E0) as (Ms0 & M0 & j0 & m0 & A0 & B0 & C0 & D0 & E0').
         destruct (list_eq_dec N.eq_dec p0 p) as [->|Np].
         ++ exists (Ms0 ++ [[n]]), M0, j0, m0. repeat split; auto.
            ** rewrite al_get_upd_same, A0. reflexivity.
            ** rewrite nth_error_app1; auto. apply nth_error_Some. congruence.
         ++ exists Ms0, M0, j0, m0. repeat split; auto. rewrite al_get_upd_other; auto.
Qed.

Lemma inv_init : Inv (mkcs [] []) [] [].
Proof. constructor; cbn; auto; try constructor; try discriminate. Qed.

Lemma inv_fold : forall hs st g done,
  Inv st g done -> NoDup hs -> (forall h, In h hs -> ~ In h done) ->
  (forall h, In h hs -> snd (split_num h) <> [] /\ value (snd (split_num h)) < NUM_LIMIT) ->
  exists g', Inv (fold_left comp_step hs st) g' (rev hs ++ done).
Proof. induction hs as [|a hs IH]; intros st g done HI Hn Hd Hok; cbn [fold_left rev app].
  - exists g. exact HI.
  - inversion Hn; subst. destruct (split_num a) as [p n] eqn:Es.
    destruct (Hok a (or_introl eq_refl)) as [O1 O2]. rewrite Es in O1, O2. cbn [snd] in O1, O2.
    destruct (inv_step st g done a p n HI (Hd a (or_introl eq_refl)) Es O1 O2) as (g1 & Hg1).
    destruct (IH _ g1 (a :: done) Hg1 H2) as (g2 & H2').
    + intros h Hh [F|F]; [subst; contradiction|]. apply (Hd h (or_intror Hh) F).
    + intros h Hh. apply Hok. right; auto.
    + exists g2. rewrite <- app_assoc. exact H2'. Qed.

(* what comp returns: per prefix the texts of its ranges; g says which numbers each range stands for *)
Definition tmap (g : ghost) : al (list bytes) :=
  map (fun pr => (fst pr, map (fun M => rge_text (erase M)) (snd pr))) g.

Theorem comp_spec heads :
  NoDup heads ->
  (forall h, In h heads -> snd (split_num h) <> [] /\ value (snd (split_num h)) < NUM_LIMIT) ->
  exists g, comp heads = tmap g /\ NoDup (map fst g) /\
            (forall p Ms, al_get p g = Some Ms -> Ms <> [] /\ Forall chain_ok Ms) /\
            Permutation (names g) heads.
Proof. intros Hn Hok. unfold comp.
  assert (Hp := sortn_perm heads).
  destruct (inv_fold (sortn heads) (mkcs [] []) [] [] inv_init) as (g & [Is Ind Ich Ipm Iix]).
  - eapply Permutation_NoDup; [symmetry; exact Hp|auto].
  - intros h _ [].
  - intros h Hh. apply Hok. eapply Permutation_in; eauto.
  - exists g. split; [|split; [exact Ind|split; [exact Ich|]]].
    + rewrite Is. unfold emap, tmap. rewrite map_map. apply map_ext. intros [p Ms]. cbn [fst snd].
      rewrite map_map. reflexivity.
    + rewrite ?app_nil_r in Ipm. eapply perm_trans; [exact Ipm|].
      eapply perm_trans; [symmetry; apply Permutation_rev|exact Hp]. Qed.

(* ====================================================================== *)
(* 3. From ranges to the syntax trees of C01                               *)
(* ====================================================================== *)

Definition rt_of (M : list bytes) : rtxt :=
  mkrt (value (hd [] M)) (length (hd [] M))
       (match M with _ :: _ :: _ => Some (value (last M []), length (last M [])) | _ => None end).

Definition word_of (p : bytes) (Ms : list (list bytes)) (t : bytes) : word :=
  match Ms with
  | [[m]] => WPlain (p ++ m ++ t)
  | _ => WBr p (map rt_of Ms) t
  end.

Lemma word_of_two p M M2 Ms' t : word_of p (M :: M2 :: Ms') t = WBr p (map rt_of (M :: M2 :: Ms')) t.
Proof. destruct M as [|a [|b r]]; reflexivity. Qed.

Lemma last_nth_error {A} (l : list A) d : l <> [] -> nth_error l (length l - 1) = Some (last l d).
Proof. induction l as [|a l IH]; [congruence|]. intros _. destruct l as [|b l]; [reflexivity|].
  replace (length (a :: b :: l) - 1)%nat with (S (length (b :: l) - 1)) by (cbn [length]; lia).
  cbn [nth_error]. rewrite IH by discriminate. reflexivity. Qed.

Lemma chain_member M m : chain_ok M -> In m M ->
  m <> [] /\ forallb is_digit m = true /\ value m < NUM_LIMIT.
Proof. intros HM Hin. destruct (In_nth_error _ _ Hin) as (j & Hj).
  destruct (chain_nth M j m HM Hj) as [-> _]. destruct HM as (_ & _ & _ & H4). repeat split.
  - apply fmt_nonempty.
  - apply fmt_all_digit.
  - rewrite Forall_forall in H4. apply nth_error_In in Hj. auto. Qed.

Lemma chain_last M : chain_ok M ->
  last M [] = fmt (length (hd [] M)) (value (hd [] M) + N.of_nat (length M - 1)) /\ In (last M []) M.
Proof. intro HM. pose proof (chain_nonempty M HM) as Hne.
  pose proof (last_nth_error M [] Hne) as E. split.
  - apply (chain_nth M _ _ HM E).
  - eapply nth_error_In; eauto. Qed.

Lemma chain_hd M : chain_ok M -> hd [] M = fmt (length (hd [] M)) (value (hd [] M)).
Proof. intros (H1 & H2 & _). rewrite fmt_value; auto. Qed.

Lemma rt_text_of M : chain_ok M -> rt_text (rt_of M) = rge_text (erase M).
Proof. intro HM. unfold rt_text, rt_of, rge_text, erase. cbn [t_w t_lo t_hi r_start r_end].
  rewrite <- (chain_hd M HM).
  destruct M as [|a [|b r]]; cbn [hd]; [reflexivity|apply app_nil_r|].
  destruct (chain_last _ HM) as [_ Hin]. destruct (chain_member _ _ HM Hin) as (Z1 & Z2 & _).
  rewrite (fmt_value _ Z1 Z2). reflexivity. Qed.

Lemma rt_nums_of M : chain_ok M -> rt_nums (rt_of M) = M.
Proof. intro HM. pose proof HM as (H1 & H2 & H3 & H4). unfold rt_nums. rewrite count_up'_eq.
  assert (E : N.to_nat (rt_hi (rt_of M) + 1 - t_lo (rt_of M)) = length M).
  { unfold rt_hi, rt_of. cbn [t_hi t_lo]. destruct M as [|a [|b r]]; cbn [hd length] in *.
    - exfalso. apply H1. reflexivity.
    - lia.
    - destruct (chain_last _ HM) as [-> _]. rewrite value_fmt. cbn [hd length]. lia. }
  rewrite E. cbn [t_w t_lo rt_of]. symmetry. exact H3. Qed.

Lemma rt_wf_of M : chain_ok M -> (N.of_nat (length M) <= MAX_RANGE) -> rt_wf (rt_of M).
Proof. intros HM Hlen. pose proof HM as (H1 & H2 & H3 & H4).
  destruct (chain_last _ HM) as [El Hin]. destruct (chain_member _ _ HM Hin) as (Z1 & Z2 & Z3).
  assert (Hh : value (hd [] M) < NUM_LIMIT).
  { destruct M as [|a r]; [exfalso; apply H1; reflexivity|]. inversion H4; auto. }
  unfold rt_wf, rt_hi, rt_of. cbn [t_lo t_w t_hi].
  destruct M as [|a [|b r]]; cbn [hd] in *.
  - exfalso. apply H1. reflexivity.
  - cbn [length] in Hlen. repeat split; auto; try lia. apply ndigits_value_le; auto.
  - rewrite El in *. rewrite value_fmt in *. cbn [length] in *. repeat split; try lia.
    + apply ndigits_value_le; auto.
    + rewrite <- (value_fmt (length a) (value a + N.of_nat (S (S (length r)) - 1))) at 1.
      apply ndigits_value_le; auto. Qed.

Lemma digits_no_dash m : forallb is_digit m = true -> mem 45 m = false.
Proof. intro H. destruct (mem 45 m) eqn:E; auto. apply mem_In in E. apply (forallb_In _ _ _ H) in E. discriminate. Qed.

Lemma inner_word_render p Ms t : Ms <> [] -> Forall chain_ok Ms ->
  inner_word p (map (fun M => rge_text (erase M)) Ms) ++ t = render_word (word_of p Ms t).
Proof. intros Hne HF.
  assert (Hbr : (p ++ 91 :: join 44 (map (fun M => rge_text (erase M)) Ms) ++ [93]) ++ t
                = render_word (WBr p (map rt_of Ms) t)).
  { cbn [render_word]. unfold rs_text. rewrite map_map. rewrite <- app_assoc. cbn [app]. rewrite <- app_assoc. cbn [app].
    replace (map (fun x => rt_text (rt_of x)) Ms) with (map (fun M => rge_text (erase M)) Ms); [reflexivity|].
    apply map_ext_in. intros M HM. rewrite Forall_forall in HF. symmetry. apply rt_text_of; auto. }
  unfold inner_word. rewrite map_length.
  destruct Ms as [|M [|M2 Ms']]; [congruence| |].
  - cbn [length map hd Nat.ltb Nat.leb orb]. inversion HF; subst. pose proof H1 as (C1 & C2 & C3 & C4).
    destruct M as [|a [|b r]].
    + exfalso. apply C1. reflexivity.
    + cbn [hd] in *. unfold erase, rge_text. cbn [hd r_start r_end]. rewrite digits_no_dash by auto.
      cbn [join word_of render_word]. rewrite <- app_assoc. reflexivity.
    + assert (Hm : mem 45 (rge_text (erase (a :: b :: r))) = true).
      { unfold erase, rge_text. cbn [r_end r_start]. apply mem_In. rewrite in_app_iff. right; left; auto. }
      rewrite Hm. exact Hbr.
  - cbn [length]. change (1 <? S (S (length Ms')))%nat with true.
    cbn [orb]. rewrite word_of_two. exact Hbr. Qed.

Lemma rs_nums_of Ms : Forall chain_ok Ms -> rs_nums (map rt_of Ms) = concat Ms.
Proof. induction 1 as [|M Ms HM HF IH]; cbn [map rs_nums flat_map concat]; auto.
  rewrite rt_nums_of by auto. f_equal. exact IH. Qed.

Lemma word_of_cases p Ms t :
  (exists m, Ms = [[m]] /\ word_of p Ms t = WPlain (p ++ m ++ t)) \/ word_of p Ms t = WBr p (map rt_of Ms) t.
Proof. destruct Ms as [|[|a [|b r]] [|M2 Ms']]; auto. left. exists a. auto. Qed.

Lemma word_of_denote p Ms t : Forall chain_ok Ms ->
  denote_word (word_of p Ms t) = map (fun m => p ++ m ++ t) (concat Ms).
Proof. intro HF. destruct (word_of_cases p Ms t) as [(m & -> & ->)| ->]; [reflexivity|].
  cbn [denote_word]. rewrite rs_nums_of by auto. reflexivity. Qed.

Definition name_fits (name : bytes) : Prop :=
  name <> [] /\ plain_text name = true /\
  (length name < N.to_nat SUFFIX_HOST_SIZE - 1)%nat /\ (length name < N.to_nat CUR_TOK_SIZE - 1)%nat.

Lemma word_of_wf p Ms t :
  Ms <> [] -> Forall chain_ok Ms ->
  (N.of_nat (length Ms) <= MAX_RANGES) -> Forall (fun M => N.of_nat (length M) <= MAX_RANGE) Ms ->
  Forall name_fits (map (fun m => p ++ m ++ t) (concat Ms)) ->
  word_wf (word_of p Ms t).
Proof. intros Hne HF HL1 HL2 Hfit.
  assert (Hpt : plain_text p = true /\ plain_text t = true).
  { destruct Ms as [|M Ms']; [congruence|]. inversion HF; subst.
    pose proof (chain_nonempty M H1). destruct M as [|m M']; [congruence|].
    cbn [concat app map] in Hfit. inversion Hfit; subst. destruct H4 as (_ & Hp & _).
    rewrite !plain_text_app in Hp. apply andb_true_iff in Hp as [Hp1 Hp2]. apply andb_true_iff in Hp2 as [_ Hp2]. auto. }
  destruct Hpt as [Hp Ht].
  destruct (word_of_cases p Ms t) as [(m & E & ->)| ->].
  - subst Ms. cbn [concat app map] in Hfit. inversion Hfit; subst. destruct H1 as (A & B & C & D).
    cbn [word_wf]. repeat split; auto.
  - cbn [word_wf]. repeat split; auto.
    + intro E. apply map_eq_nil in E. contradiction.
    + rewrite map_length. lia.
    + rewrite Forall_map. rewrite Forall_forall in *. intros M HM. apply rt_wf_of; auto.
    + cbn [denote_word]. rewrite rs_nums_of by auto. eapply Forall_impl; [|exact Hfit].
      intros n (A & B & C & D). auto. Qed.

(* ====================================================================== *)
(* 4. compress_inner                                                       *)
(* ====================================================================== *)

Definition gwords (g : ghost) (t : bytes) : list word :=
  map (fun p => word_of p (default [] (al_get p g)) t) (sort_str (map fst g)).

Lemma al_get_tmap p g : al_get p (tmap g) = option_map (map (fun M => rge_text (erase M))) (al_get p g).
Proof. induction g as [|[k v] r IH]; cbn [tmap map al_get fst snd option_map]; auto.
  destruct (beq p k); auto. Qed.

Lemma compress_inner_render heads t g :
  comp heads = tmap g ->
  (forall p Ms, al_get p g = Some Ms -> Ms <> [] /\ Forall chain_ok Ms) ->
  map (fun w => w ++ t) (compress_inner heads) = map render_word (gwords g t).
Proof. intros Hc Hch. unfold compress_inner, gwords. rewrite Hc. rewrite !map_map.
  assert (Ek : map fst (tmap g) = map fst g) by (unfold tmap; rewrite map_map; reflexivity).
  rewrite Ek. apply map_ext_in. intros p Hp.
  eapply Permutation_in in Hp; [|apply sort_str_perm].
  destruct (al_get p g) as [Ms|] eqn:A; [|apply al_get_None in A; contradiction].
  rewrite al_get_tmap, A. cbn [option_map default]. destruct (Hch p Ms A) as [H1 H2].
  apply inner_word_render; auto. Qed.

Lemma flat_map_perm_pointwise {A B} (f g : A -> list B) l :
  (forall x, In x l -> Permutation (f x) (g x)) -> Permutation (flat_map f l) (flat_map g l).
Proof. induction l as [|a l IH]; intro H; cbn [flat_map]; [constructor|].
  apply Permutation_app; [apply H; left; auto|apply IH; intros; apply H; right; auto]. Qed.

Lemma gwords_denote g t :
  NoDup (map fst g) ->
  (forall p Ms, al_get p g = Some Ms -> Ms <> [] /\ Forall chain_ok Ms) ->
  Permutation (flat_map denote_word (gwords g t)) (map (fun h => h ++ t) (names g)).
Proof. intros Hn Hch. unfold gwords. rewrite flat_map_map'.
  eapply perm_trans; [apply Permutation_flat_map; apply sort_str_perm|].
  rewrite (flat_map_ext' _ (fun p => (fun p Ms => map (fun m => p ++ m ++ t) (concat Ms)) p (default [] (al_get p g)))).
  2:{ intros p Hp. destruct (al_get p g) as [Ms|] eqn:A; [|apply al_get_None in A; contradiction].
      cbn [default]. apply word_of_denote. apply (Hch p Ms A). }
  pose proof (flat_map_keys (fun p Ms => map (fun m => p ++ m ++ t) (concat Ms)) [] g Hn) as K.
  cbv beta in K |- *.
  match type of K with _ = ?R => match goal with |- Permutation ?L _ => replace L with R by (symmetry; exact K) end end.
  clear K.
  unfold names. rewrite map_flat_map.
  erewrite flat_map_ext'; [reflexivity|]. intros [p Ms] _. cbn [fst snd]. rewrite map_map.
  apply map_ext. intro m. rewrite app_assoc. reflexivity. Qed.

Lemma flat_map_length_ge {A B} (f : A -> list B) l x : In x l -> (length (f x) <= length (flat_map f l))%nat.
Proof. induction l as [|a l IH]; [intros []|]. intros [->|H]; cbn [flat_map]; rewrite app_length; [lia|]. specialize (IH H). lia. Qed.

Lemma concat_length_ge {A} (Ms : list (list A)) M : In M Ms -> (length M <= length (concat Ms))%nat.
Proof. induction Ms as [|a l IH]; [intros []|]. intros [->|H]; cbn [concat]; rewrite app_length; [lia|]. specialize (IH H). lia. Qed.

Lemma concat_length_count {A} (Ms : list (list A)) : Forall (fun M => M <> []) Ms -> (length Ms <= length (concat Ms))%nat.
Proof. induction 1 as [|M Ms HM HF IH]; cbn [concat length]; [lia|]. rewrite app_length.
  destruct M; [congruence|]. cbn [length]. lia. Qed.

Lemma ghost_sizes (g : ghost) p Ms :
  al_get p g = Some Ms -> Forall chain_ok Ms ->
  (length Ms <= length (names g))%nat /\ Forall (fun M => (length M <= length (names g))%nat) Ms.
Proof. intros A HF. apply al_get_In in A.
  assert (L : (length (concat Ms) <= length (names g))%nat).
  { pose proof (flat_map_length_ge (fun pr : bytes * list (list bytes) => map (app (fst pr)) (concat (snd pr))) g (p, Ms) A) as L.
    cbn [fst snd] in L. rewrite map_length in L. exact L. }
  split.
  - assert (length Ms <= length (concat Ms))%nat; [|lia]. apply concat_length_count.
    eapply Forall_impl; [|exact HF]. intros M HM. apply chain_nonempty; auto.
  - apply Forall_forall. intros M HM. pose proof (concat_length_ge Ms M HM). lia. Qed.

(* ====================================================================== *)
(* 5. compress: suffix groups, bare names, assembly                        *)
(* ====================================================================== *)

Definition head_ok (hd : bytes) : Prop :=
  (hd <> [] -> snd (split_num hd) <> []) /\ value (snd (split_num hd)) < NUM_LIMIT.

Definition hostsof (h : al (list bytes)) : list bytes :=
  flat_map (fun pr => map (fun hd => hd ++ fst pr) (snd pr)) h.

Lemma hostsof_push t hd h : Permutation (hostsof (al_push t hd h)) ((hd ++ t) :: hostsof h).
Proof. unfold al_push. induction h as [|[k v] r IH]; cbn [hostsof flat_map al_upd fst snd default map app].
  - reflexivity.
  - destruct (beq t k) eqn:E; cbn [flat_map fst snd].
    + apply beq_eq in E. subst k. rewrite map_app. cbn [map]. rewrite <- app_assoc. cbn [app].
      symmetry. apply Permutation_middle.
    + eapply perm_trans; [apply Permutation_app_head; exact IH|]. symmetry. apply Permutation_middle. Qed.

Definition sfx_step (h : al (list bytes)) (x : bytes) : al (list bytes) :=
  let '(hd, t) := split_sfx x in al_push t hd h.

Lemma sfx_fold xs : forall h,
  NoDup (map fst h) -> (forall t heads, al_get t h = Some heads -> Forall head_ok heads) ->
  (forall x, In x xs -> head_ok (fst (split_sfx x))) ->
  NoDup (map fst (fold_left sfx_step xs h)) /\
  (forall t heads, al_get t (fold_left sfx_step xs h) = Some heads -> Forall head_ok heads) /\
  Permutation (hostsof (fold_left sfx_step xs h)) (xs ++ hostsof h).
Proof. induction xs as [|x xs IH]; intros h Hn Hh Hx; cbn [fold_left app].
  - repeat split; auto.
  - pose proof (split_sfx_spec x) as S. pose proof (Hx x (or_introl eq_refl)) as Hx0.
    unfold sfx_step at 2 4 6. destruct (split_sfx x) as [hd t] eqn:E. destruct S as [Ex _]. cbn [fst] in Hx0.
    destruct (IH (al_push t hd h)) as (I1 & I2 & I3).
    + apply al_upd_NoDup; auto.
    + intros t' heads G. unfold al_push in G. destruct (list_eq_dec N.eq_dec t' t) as [->|Nt].
      * rewrite al_get_upd_same in G. inversion G; subst heads. apply Forall_app. split; [|constructor; auto].
        destruct (al_get t h) as [v|] eqn:A; cbn [default]; [apply (Hh t v A)|constructor].
      * rewrite al_get_upd_other in G by auto. apply (Hh t' heads G).
    + intros y Hy. apply Hx. right; auto.
    + repeat split; auto. eapply perm_trans; [exact I3|].
      eapply perm_trans; [apply Permutation_app_head; apply hostsof_push|].
      rewrite <- Ex. symmetry. apply Permutation_middle. Qed.

Lemma suffix_table_fold hosts : suffix_table hosts = fold_left sfx_step (sortn hosts) [].
Proof. reflexivity. Qed.

Lemma filter_short {A} (p : A -> bool) l : (length (filter p l) < length l)%nat -> exists x, In x l /\ p x = false.
Proof. induction l as [|a l IH]; cbn [filter length]; [lia|]. destruct (p a) eqn:E; cbn [length]; intro H.
  - destruct IH as (x & Hx & Px); [lia|]. exists x. split; [right|]; auto.
  - exists a. split; [left|]; auto. Qed.

Lemma filter_len_le {A} (p : A -> bool) l : (length (filter p l) <= length l)%nat.
Proof. induction l as [|a l IH]; cbn [filter length]; [lia|]. destruct (p a); cbn [length]; lia. Qed.

Lemma nonempty_true b : nonempty b = true <-> b <> [].
Proof. destruct b; cbn; split; intro H; congruence. Qed.

Lemma filter_nonempty_perm heads : NoDup heads ->
  Permutation heads ((if (length (filter nonempty heads) <? length heads)%nat then [[]] else []) ++ filter nonempty heads).
Proof. induction heads as [|x r IH]; intro Hn; [reflexivity|]. inversion Hn; subst. cbn [filter length].
  destruct x as [|c x']; cbn [nonempty].
  - rewrite (filter_all nonempty r).
    + replace (length r <? S (length r))%nat with true by (symmetry; apply Nat.ltb_lt; lia). reflexivity.
    + intros y Hy. apply nonempty_true. intro; subst; contradiction.
  - cbn [length]. change (S (length (filter nonempty r)) <? S (length r))%nat with (length (filter nonempty r) <? length r)%nat.
    eapply perm_trans; [apply perm_skip; apply IH; auto|]. apply Permutation_middle. Qed.

Lemma group_spec t heads :
  NoDup heads -> Forall head_ok heads -> Forall name_fits (map (fun h => h ++ t) heads) ->
  N.of_nat (length heads) <= MAX_RANGES -> N.of_nat (length heads) <= MAX_RANGE ->
  exists ws, group_words t heads = map render_word ws /\ Forall word_wf ws /\
             Permutation (flat_map denote_word ws) (map (fun h => h ++ t) heads).
Proof. intros Hn Hok Hfit HL1 HL2. set (heads' := filter nonempty heads).
  assert (Hsub : forall h, In h heads' -> In h heads /\ h <> []).
  { intros h Hh. apply filter_In in Hh as [A B]. split; auto. apply nonempty_true; auto. }
  assert (Hlen : (length heads' <= length heads)%nat) by apply filter_len_le.
  destruct (comp_spec heads') as (g & Hc & Hnd & Hch & Hpm).
  { apply NoDup_filter; auto. }
  { intros h Hh. destruct (Hsub h Hh) as [A B]. rewrite Forall_forall in Hok. destruct (Hok h A) as [C D]. auto. }
  set (b := (length heads' <? length heads)%nat).
  exists ((if b then [WPlain t] else []) ++ gwords g t).
  assert (Hnames : forall x, In x (names g) -> In x heads).
  { intros x Hx. apply Hsub. eapply Permutation_in; eauto. }
  assert (Hnl : (length (names g) <= length heads)%nat).
  { rewrite (Permutation_length Hpm). exact Hlen. }
  split; [|split].
  - unfold group_words. fold heads'. fold b. rewrite map_app. f_equal.
    + destruct b; reflexivity.
    + apply compress_inner_render; auto.
  - apply Forall_app. split.
    + destruct b eqn:Eb; [|constructor]. constructor; [|constructor]. subst b. apply Nat.ltb_lt in Eb.
      destruct (filter_short nonempty heads Eb) as (x & Hx & Px).
      assert (x = []) by (destruct x; [auto|discriminate]). subst x.
      rewrite Forall_forall in Hfit. destruct (Hfit ([] ++ t)) as (A & B & C & D).
      { apply (in_map (fun h => h ++ t)) in Hx. exact Hx. }
      cbn [app] in *. cbn [word_wf]. auto.
    + unfold gwords. rewrite Forall_map. apply Forall_forall. intros p Hp.
      eapply Permutation_in in Hp; [|apply sort_str_perm].
      destruct (al_get p g) as [Ms|] eqn:A; [|apply al_get_None in A; contradiction]. cbn [default].
      destruct (Hch p Ms A) as [H1 H2]. destruct (ghost_sizes g p Ms A H2) as [S1 S2].
      apply word_of_wf; auto.
      * lia.
      * eapply Forall_impl; [|exact S2]. cbn. intros; lia.
      * apply Forall_forall. intros name Hname. apply in_map_iff in Hname as (m & <- & Hm).
        apply in_concat in Hm as (M & HM & Hm).
        rewrite Forall_forall in Hfit. rewrite app_assoc. apply Hfit. apply (in_map (fun h => h ++ t)).
        apply Hnames. eapply names_In; eauto.
  - rewrite flat_map_app.
    eapply perm_trans; [apply Permutation_app_head; apply gwords_denote; auto|].
    eapply perm_trans; [|apply Permutation_map; symmetry; apply filter_nonempty_perm; auto].
    fold heads'. fold b. rewrite map_app. apply Permutation_app.
    + destruct b; reflexivity.
    + apply Permutation_map. exact Hpm. Qed.

(* words with the commas dshbak prints between them *)
Fixpoint with_seps (ws : list word) : expr :=
  match ws with
  | [] => []
  | [w] => [(w, [])]
  | w :: r => (w, [44]) :: with_seps r
  end.

Lemma render_with_seps ws : render (with_seps ws) = join 44 (map render_word ws).
Proof. induction ws as [|w [|w2 r] IH]; [reflexivity| |].
  - cbn. rewrite !app_nil_r. reflexivity.
  - change (with_seps (w :: w2 :: r)) with ((w, [44]) :: with_seps (w2 :: r)).
    rewrite render_cons, IH. reflexivity. Qed.

Lemma denote_with_seps ws : denote (with_seps ws) = flat_map denote_word ws.
Proof. induction ws as [|w [|w2 r] IH]; [reflexivity|reflexivity|].
  change (with_seps (w :: w2 :: r)) with ((w, [44]) :: with_seps (w2 :: r)).
  unfold denote in *. cbn [flat_map fst]. rewrite IH. reflexivity. Qed.

Lemma wf_with_seps ws : Forall word_wf ws -> expr_wf (with_seps ws).
Proof. induction ws as [|w r IH]; intro H; [exact I|]. inversion H; subst. specialize (IH H3).
  destruct r as [|w2 [|w3 r'']].
  - cbn. auto.
  - cbn [with_seps expr_wf] in *. repeat split; try tauto. discriminate.
  - change (with_seps (w :: w2 :: w3 :: r'')) with ((w, [44]) :: (w2, [44]) :: with_seps (w3 :: r'')).
    change (with_seps (w2 :: w3 :: r'')) with ((w2, [44]) :: with_seps (w3 :: r'')) in IH.
    cbn [expr_wf] in *. repeat split; try tauto. discriminate. Qed.

Lemma NoDup_app_l {A} (a b : list A) : NoDup (a ++ b) -> NoDup a.
Proof. induction a as [|x a IH]; cbn [app]; intro H; [constructor|]. inversion H; subst. constructor; auto.
  intro F. apply H2. apply in_or_app; auto. Qed.
Lemma NoDup_app_r {A} (a b : list A) : NoDup (a ++ b) -> NoDup b.
Proof. induction a as [|x a IH]; cbn [app]; intro H; auto. inversion H; auto. Qed.

Lemma forall_exists_Forall2 {A B} (R : A -> B -> Prop) l :
  (forall x, In x l -> exists y, R x y) -> exists ys, Forall2 R l ys.
Proof. induction l as [|a l IH]; intro H.
  - exists []. constructor.
  - destruct (H a (or_introl eq_refl)) as (y & Hy). destruct IH as (ys & Hys); [intros; apply H; right; auto|].
    exists (y :: ys). constructor; auto. Qed.

(* THE domain of C19_header_expansion *)
Definition host_ok (h : bytes) : Prop :=
  name_fits h /\ value (snd (split_num (fst (split_sfx h)))) < NUM_LIMIT.
Definition D19 (hosts : list bytes) : Prop :=
  NoDup hosts /\ Forall host_ok hosts /\
  N.of_nat (length hosts) <= MAX_RANGES /\ N.of_nat (length hosts) <= MAX_RANGE.

Theorem compress_words oS hosts : D19 hosts ->
  exists ws, compress oS hosts = map render_word ws /\ Forall word_wf ws /\
             Permutation (flat_map denote_word ws) hosts.
Proof. intros (Hn & Hok & HL1 & HL2).
  set (tbl := suffix_table hosts).
  assert (Hp := sortn_perm hosts).
  destruct (sfx_fold (sortn hosts) []) as (T1 & T2 & T3); [constructor|intros ? ? G; discriminate| |].
  { intros x Hx. eapply Permutation_in in Hx; [|exact Hp]. rewrite Forall_forall in Hok.
    destruct (Hok x Hx) as [_ B]. pose proof (split_sfx_spec x) as S. revert B S.
    destruct (split_sfx x) as [hd t]. cbn [fst]. unfold head_ok. tauto. }
  rewrite <- suffix_table_fold in T1, T2, T3. fold tbl in T1, T2, T3. cbn [hostsof flat_map] in T3. rewrite app_nil_r in T3.
  assert (T4 : Permutation (hostsof tbl) hosts) by (eapply perm_trans; eauto).
  assert (Hnd : NoDup (hostsof tbl)) by (eapply Permutation_NoDup; [symmetry; exact T4|auto]).
  (* every suffix group meets group_spec *)
  assert (HG : forall pr, In pr tbl -> exists ws, group_words (fst pr) (snd pr) = map render_word ws /\ Forall word_wf ws /\
                          Permutation (flat_map denote_word ws) (map (fun h => h ++ fst pr) (snd pr))).
  { intros [t heads] Hin. cbn [fst snd].
    assert (Hsubl : forall x, In x (map (fun h => h ++ t) heads) -> In x hosts).
    { intros x Hx. eapply Permutation_in; [exact T4|]. unfold hostsof. apply in_flat_map. exists (t, heads). auto. }
    assert (Hlen : (length heads <= length hosts)%nat).
    { rewrite <- (Permutation_length T4).
      pose proof (flat_map_length_ge (fun pr : bytes * list bytes => map (fun hd => hd ++ fst pr) (snd pr)) tbl (t, heads) Hin) as L.
      cbn [fst snd] in L. rewrite map_length in L. exact L. }
    apply group_spec.
    - (* heads distinct: the hosts are *)
      assert (NoDup (map (fun h => h ++ t) heads)).
      { clear - Hnd Hin. unfold hostsof in Hnd. induction tbl as [|a l IH]; [contradiction|].
        cbn [flat_map] in Hnd. destruct Hin as [->|Hin].
        - cbn [fst snd] in Hnd. apply NoDup_app_l in Hnd. exact Hnd.
        - apply IH; auto. apply NoDup_app_r in Hnd. exact Hnd. }
      eapply NoDup_map_inv; eauto.
    - apply (T2 t heads). apply al_get_NoDup; auto.
    - apply Forall_forall. intros x Hx. rewrite Forall_forall in Hok. apply (Hok x (Hsubl x Hx)).
    - lia.
    - lia. }
  destruct (forall_exists_Forall2 _ tbl HG) as (WS & HWS).
  (* look-ups in the table of rendered groups and in the table of word groups agree *)
  set (G := compress_groups hosts).
  assert (HL : forall t, In t (map fst tbl) ->
               exists heads ws, al_get t tbl = Some heads /\ al_get t G = Some (map render_word ws) /\
                                Forall word_wf ws /\ Permutation (flat_map denote_word ws) (map (fun h => h ++ t) heads)).
  { subst G. unfold compress_groups. fold tbl. clear - HWS. induction HWS as [|[k heads] ws tbl' WS' (R1 & R2 & R3) HF IH]; intros t Ht; [contradiction|].
    cbn [map fst snd al_get] in *. destruct (beq t k) eqn:E.
    - apply beq_eq in E. subst k. exists heads, ws. rewrite R1. auto.
    - destruct Ht as [Ht|Ht]; [apply beq_neq in E; congruence|]. apply IH; auto. }
  assert (EkG : map fst G = map fst tbl) by (subst G; unfold compress_groups; rewrite map_map; reflexivity).
  set (ord := pick_order oS (map fst G)).
  assert (Hord : Permutation ord (map fst tbl)) by (subst ord; rewrite EkG; apply pick_order_perm; auto).
  (* choose the words of every group *)
  assert (HW : forall t, In t ord -> exists ws, default [] (al_get t G) = map render_word ws /\ Forall word_wf ws /\
                 Permutation (flat_map denote_word ws) (map (fun h => h ++ t) (default [] (al_get t tbl)))).
  { intros t Ht. eapply Permutation_in in Ht; [|exact Hord]. destruct (HL t Ht) as (heads & ws & A & B & C & D).
    exists ws. rewrite A, B. auto. }
  destruct (forall_exists_Forall2 _ ord HW) as (WL & HWL).
  exists (concat WL). split; [|split].
  - unfold compress. fold G. fold ord. clear - HWL. induction HWL as [|t ws ord' WL' (R1 & _) HF IH]; [reflexivity|].
    cbn [flat_map concat]. rewrite map_app, R1, IH. reflexivity.
  - apply Forall_concat. clear - HWL. induction HWL as [|t ws ord' WL' (_ & R2 & _) HF IH]; constructor; auto.
  - eapply perm_trans; [|exact T4].
    assert (Permutation (flat_map denote_word (concat WL)) (flat_map (fun t => map (fun h => h ++ t) (default [] (al_get t tbl))) ord)).
    { clear - HWL. induction HWL as [|t ws ord' WL' (_ & _ & R3) HF IH]; [constructor|].
      cbn [concat flat_map]. rewrite flat_map_app. apply Permutation_app; auto. }
    eapply perm_trans; [exact H|].
    eapply perm_trans; [apply Permutation_flat_map; exact Hord|].
    pose proof (flat_map_keys (fun t heads => map (fun h => h ++ t) heads) [] tbl T1) as K. cbv beta in K.
    unfold hostsof.
    match type of K with ?L = _ => match goal with |- Permutation ?L' _ => replace L' with L by reflexivity end end.
    rewrite K. reflexivity. Qed.

(* C19_header_expansion: the Perl compressor composed with the model of the C parser is the identity
   on host sets *)
Theorem header_expansion oS hosts : D19 hosts ->
  exists l, targets (join 44 (compress oS hosts)) = Ok l /\ Permutation l hosts.
Proof. intro HD. destruct (compress_words oS hosts HD) as (ws & E & Hwf & Hp).
  exists (denote (with_seps ws)). split.
  - rewrite E, <- render_with_seps. apply C01_expansion. apply wf_with_seps; auto.
  - rewrite denote_with_seps. exact Hp. Qed.
