(* C19: the statements of the property, assembled from DshbakRegroup / DshbakCoalesce /
   DshbakCompress in the form Props/Properties_C19.v quotes. *)
From Coq Require Import Permutation Sorted.
From PV Require Import Base.DecimalFacts Hostlist.HLDefs Hostlist.HLSpec Hostlist.HLParseFacts
  Dshbak.Dshbak Dshbak.DshbakSpec Dshbak.DshbakBase Dshbak.DshbakRegroup Dshbak.DshbakCoalesce Dshbak.DshbakCompress.
Local Open Scope N_scope.

(* the table never holds a label twice, whatever the input *)
Lemma table_NoDup s : NoDup (map fst (table s)).
Proof. unfold table, process_lines. generalize (read_lines s). intro ls.
  assert (H : forall (h : al (list bytes)), NoDup (map fst h) ->
              NoDup (map fst (fold_left (fun h l => match split_line (terminate l) with
                                                    | Some (t, d) => al_push t d h | None => h end) ls h))).
  { induction ls as [|l ls IH]; intros h Hn; cbn [fold_left]; auto. apply IH.
    destruct (split_line (terminate l)) as [[t d]|]; auto. apply al_upd_NoDup; auto. }
  apply H. constructor. Qed.

Section Regroup.
  Variables (items : list item) (last : option lline).
  Hypothesis Hitems : Forall item_ok items.
  Hypothesis Hlast : match last with Some l => lline_ok l | None => True end.
  Let s := stream items last.
  Let all := all_items items last.

  Lemma key_iff t : In t (map fst (table s)) <-> lines_of t all <> [].
  Proof. destruct (table_spec items last Hitems Hlast) as [Hn Hg]. fold s all in Hn, Hg. split.
    - intros H E. apply al_get_of_key in H as (v & Hv). rewrite Hg, E in Hv. discriminate.
    - intro H. destruct (al_get t (table s)) eqn:G; [eapply al_get_key; eauto|].
      rewrite Hg in G. destruct (lines_of t all); [congruence|discriminate]. Qed.

  Lemma get_lines t ls : al_get t (table s) = Some ls -> ls = lines_of t all.
  Proof. destruct (table_spec items last Hitems Hlast) as [Hn Hg]. fold s all in Hn, Hg.
    rewrite Hg. destruct (lines_of t all); [discriminate|]. intro E. inversion E. reflexivity. Qed.

  (* no option: one block per label that occurs, headed by the label, holding exactly its lines *)
  Theorem regroup_normal oL :
    let bs := blocks_normal oL s in
    NoDup (concat (map b_tags bs)) /\
    (forall t, In t (concat (map b_tags bs)) <-> lines_of t all <> []) /\
    (forall b, In b bs -> exists t, b_tags b = [t] /\ b_head b = [t] /\ b_body b = lines_of t all).
  Proof. intro bs. destruct (normal_spec oL s (table_NoDup s)) as [P1 P2]. fold bs in P1, P2. repeat split.
    - eapply Permutation_NoDup; [symmetry; exact P1|apply table_NoDup].
    - intro H. apply key_iff. eapply Permutation_in; eauto.
    - intro H. apply key_iff in H. eapply Permutation_in; [symmetry; exact P1|auto].
    - intros b Hb. destruct (P2 b Hb) as (t & A & B & C). exists t. repeat split; auto. apply get_lines; auto. Qed.

  (* -d DIR: one file per label that occurs, named by the label, holding exactly its lines *)
  Theorem regroup_files oL :
    let fl := files oL s in
    NoDup (map fst fl) /\
    (forall t, In t (map fst fl) <-> lines_of t all <> []) /\
    (forall t c, In (t, c) fl -> c = concat (lines_of t all)).
  Proof. intro fl. destruct (files_spec oL s (table_NoDup s)) as [P1 P2]. fold fl in P1, P2. repeat split.
    - eapply Permutation_NoDup; [symmetry; exact P1|apply table_NoDup].
    - intro H. apply key_iff. eapply Permutation_in; eauto.
    - intro H. apply key_iff in H. eapply Permutation_in; [symmetry; exact P1|auto].
    - intros t c H. destruct (P2 t c H) as (ls & A & ->). f_equal. apply get_lines; auto. Qed.

  (* -c: every label that occurs under exactly one header; the block holds exactly its lines *)
  Theorem regroup_coalesce oL oS :
    let bs := blocks_coalesce oL oS s in
    NoDup (concat (map b_tags bs)) /\
    (forall t, In t (concat (map b_tags bs)) <-> lines_of t all <> []) /\
    (forall b t, In b bs -> In t (b_tags b) -> b_body b = lines_of t all).
  Proof. intro bs. destruct (coalesce_spec oL oS s (table_NoDup s)) as (P1 & P2 & P3 & P4). fold bs in P1, P2, P3, P4. repeat split.
    - eapply Permutation_NoDup; [symmetry; exact P1|apply table_NoDup].
    - intro H. apply key_iff. eapply Permutation_in; eauto.
    - intro H. apply key_iff in H. eapply Permutation_in; [symmetry; exact P1|auto].
    - intros b t Hb Ht. apply get_lines. apply P2; auto. Qed.
End Regroup.

(* -c on ANY input: labels are merged iff their line lists are identical; every label of the table is
   under exactly one header; no output is printed twice *)
Theorem coalesce_any oL oS s :
  let bs := blocks_coalesce oL oS s in
  Permutation (concat (map b_tags bs)) (map fst (table s)) /\
  (forall b k, In b bs -> In k (b_tags b) -> al_get k (table s) = Some (b_body b)) /\
  NoDup (map b_body bs) /\
  (forall a b, In a (map fst (table s)) -> In b (map fst (table s)) ->
     ((exists blk, In blk bs /\ In a (b_tags blk) /\ In b (b_tags blk)) <-> al_get a (table s) = al_get b (table s))).
Proof. intro bs. destruct (coalesce_spec oL oS s (table_NoDup s)) as (P1 & P2 & P3 & P4). fold bs in P1, P2, P3, P4.
  repeat split; auto.
  - intros (blk & H1 & H2 & H3). apply (proj1 (coalesce_merged_iff oL oS s a b (table_NoDup s) H H0)). eauto.
  - intro E. apply (proj2 (coalesce_merged_iff oL oS s a b (table_NoDup s) H H0)). exact E. Qed.

(* ---- the header theorem with the limits spelled out ---- *)
Lemma name_char_plain h : forallb name_char h = true -> plain_text h = true.
Proof. intro H. unfold plain_text. eapply forallb_impl; [|exact H]. intros c Hc. exact Hc. Qed.

Lemma host_set_ok_D19 hosts : host_set_ok hosts -> D19 hosts.
Proof. intros (Hn & Hf & Hl). unfold D19. split; [exact Hn|split; [|split]].
  - eapply Forall_impl; [|exact Hf]. intros h (A & B & C & D). unfold host_ok, name_fits.
    split; [split; [exact A|split; [apply name_char_plain; exact B|split]]|].
    + change (N.to_nat SUFFIX_HOST_SIZE - 1)%nat with 4095%nat. lia.
    + change (N.to_nat CUR_TOK_SIZE - 1)%nat with 1023%nat. lia.
    + pose proof (split_sfx_spec h) as S. destruct (split_sfx h) as [hd t]. destruct S as [E1 _]. cbn [fst].
      pose proof (split_num_spec hd) as S2. destruct (split_num hd) as [p n]. destruct S2 as [E2 Hd]. cbn [snd].
      apply (D p n t); auto. rewrite E1, E2, <- app_assoc. reflexivity.
  - change MAX_RANGES with 10240. lia.
  - change MAX_RANGE with 16384. lia. Qed.

Theorem header_expansion_lit oS hosts : host_set_ok hosts ->
  exists l, targets (join 44 (compress oS hosts)) = Ok l /\ Permutation l hosts.
Proof. intro H. apply header_expansion. apply host_set_ok_D19; auto. Qed.

(* the same for the headers dshbak -c actually prints *)
Theorem header_of_block oL oS s b : In b (blocks_coalesce oL oS s) -> host_set_ok (b_tags b) ->
  exists l, targets (join 44 (b_head b)) = Ok l /\ Permutation l (b_tags b).
Proof. intros Hb Hok. destruct (coalesce_spec oL oS s (table_NoDup s)) as (_ & _ & P3 & _).
  rewrite (P3 b Hb). apply header_expansion_lit; auto. Qed.

(* names of at most 15 bytes have no digit run worth 10^15 *)
Lemma short_digit_runs h : (length h <= 15)%nat -> digit_runs_small h.
Proof. intros Hl a n b E Hd. pose proof (value_lt_pow n Hd) as V.
  assert (length n <= 15)%nat by (apply (f_equal (@length N)) in E; rewrite !app_length in E; lia).
  eapply N.lt_le_trans; [exact V|]. change 1000000000000000 with (10 ^ 15).
  apply N.pow_le_mono_r; lia. Qed.

(* ---- non-vacuity examples (proved here so that the property file stays quick to check) ---- *)
Definition ex_h (n : bytes) : bytes := [102;111;111] ++ n ++ [45;105;98].
Definition ex_hosts : list bytes := [ex_h [48;49]; ex_h [55]; ex_h [48;51]; ex_h [48;50]].

Lemma ex_name_ok h : h <> [] -> forallb name_char h = true -> (length h <=? 15)%nat = true -> host_name_ok h.
Proof. intros A B C. apply Nat.leb_le in C. repeat split; auto; [lia|apply short_digit_runs; auto]. Qed.

Lemma ex_header :
  host_set_ok ex_hosts /\
  compress [] ex_hosts = [[102;111;111;91;48;49;45;48;51;44;55;93;45;105;98]] /\
  targets (join 44 (compress [] ex_hosts)) = Ok [ex_h [48;49]; ex_h [48;50]; ex_h [48;51]; ex_h [55]].
Proof. split; [|split; vm_compute; reflexivity]. split; [|split].
  - unfold ex_hosts, ex_h. repeat constructor; cbn [In app]; intuition discriminate.
  - unfold ex_hosts. repeat constructor; apply ex_name_ok; try discriminate; reflexivity.
  - vm_compute. discriminate. Qed.

Lemma ex_twins :
  let h n := 110 :: n in
  compress [] (sort_str [h [57]; h [48;57]; h [49;48]; h [48;49;48]]) =
    [[110;91;48;57;44;57;45;49;48;44;48;49;48;93]] /\
  targets [110;91;48;57;44;57;45;49;48;44;48;49;48;93] = Ok [h [48;57]; h [57]; h [49;48]; h [48;49;48]].
Proof. split; vm_compute; reflexivity. Qed.

Definition ex_items : list item :=
  [Lab (mkll [] [97;49] [] true [120;58;121]); Lab (mkll [32] [98;50] [32] true []); Junk [122];
   Lab (mkll [] [97;49] [] false [119])].
Definition ex_last : lline := mkll [] [98;50] [] true [118].
Lemma ex_regroup :
  Forall item_ok ex_items /\ lline_ok ex_last /\
  lines_of [97;49] (all_items ex_items (Some ex_last)) = [[120;58;121;10]; [119;10]] /\
  lines_of [98;50] (all_items ex_items (Some ex_last)) = [[10]; [118;10]] /\
  map b_body (blocks_normal [] (stream ex_items (Some ex_last))) = [[[120;58;121;10]; [119;10]]; [[10]; [118;10]]].
Proof. repeat split; try (vm_compute; reflexivity);
  repeat constructor; cbn; try discriminate; try tauto; intuition discriminate. Qed.
