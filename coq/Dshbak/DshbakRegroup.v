(* C19, first half: the label/body split and the per-label line lists (process_lines) meet S. *)
From Coq Require Import Permutation.
From PV Require Import Base.DecimalFacts Hostlist.HLParseFacts Dshbak.Dshbak Dshbak.DshbakSpec Dshbak.DshbakBase.
Local Open Scope N_scope.

(* ---- reading lines ---- *)
Lemma read_lines_line a rest : ~ In 10 a -> read_lines (a ++ 10 :: rest) = (a ++ [10]) :: read_lines rest.
Proof. induction a as [|c a IH]; cbn [app read_lines]; intro H.
  - reflexivity.
  - destruct (c =? 10) eqn:E; [apply N.eqb_eq in E; subst; exfalso; apply H; left; auto|].
    rewrite IH by (intro F; apply H; right; auto). reflexivity. Qed.

Lemma read_lines_tail a : a <> [] -> ~ In 10 a -> read_lines a = [a].
Proof. induction a as [|c a IH]; intros Hne H; [congruence|]. cbn [read_lines].
  destruct (c =? 10) eqn:E; [apply N.eqb_eq in E; subst; exfalso; apply H; left; auto|].
  destruct a as [|d a]; [reflexivity|].
  rewrite IH; [reflexivity|discriminate|intro F; apply H; right; auto]. Qed.

Lemma ends_nl_snoc a : ends_nl (a ++ [10]) = true.
Proof. unfold ends_nl. rewrite rev_app_distr. reflexivity. Qed.
Lemma ends_nl_no a : ~ In 10 a -> ends_nl a = false.
Proof. unfold ends_nl. intro H. destruct (rev a) as [|c r] eqn:E; auto.
  assert (In c a) by (apply in_rev; rewrite E; left; auto).
  destruct (N.eq_dec c 10) as [->|Hc]; [contradiction|].
  destruct c as [|p]; auto. do 4 (destruct p as [p|p|]; auto). exfalso. apply Hc. reflexivity. Qed.
Lemma terminate_snoc a : terminate (a ++ [10]) = a ++ [10].
Proof. unfold terminate. rewrite ends_nl_snoc. reflexivity. Qed.
Lemma terminate_no a : ~ In 10 a -> terminate a = a ++ [10].
Proof. intro H. unfold terminate. rewrite ends_nl_no; auto. Qed.

Lemma blank_space c : blank c = true -> is_space c = true /\ c <> 10.
Proof. unfold blank. rewrite andb_true_iff, negb_true_iff, N.eqb_neq. auto. Qed.
Lemma tagc_spec c : tagc c = true -> is_space c = false /\ c <> 58.
Proof. unfold tagc. rewrite andb_true_iff, !negb_true_iff, N.eqb_neq. auto. Qed.

Lemma label_text_no_nl l : lline_ok l -> ~ In 10 (label_text l).
Proof. intros (H1 & H2 & H3 & H4 & H5 & H6). unfold label_text.
  rewrite !in_app_iff. intros [F|[F|[F|F]]].
  - apply (forallb_In _ _ _ H1) in F. apply blank_space in F. tauto.
  - apply (forallb_In _ _ _ H4) in F. apply tagc_spec in F. destruct F as [F _]. discriminate.
  - apply (forallb_In _ _ _ H2) in F. apply blank_space in F. tauto.
  - destruct F as [F|F]; [discriminate|]. rewrite in_app_iff in F. destruct F as [F|F]; [|auto].
    destruct (l_sp l); [destruct F as [F|[]]; discriminate|destruct F]. Qed.
Lemma label_text_nonempty l : lline_ok l -> label_text l <> [].
Proof. intros (H1 & H2 & H3 & _) E. unfold label_text in E.
  apply app_eq_nil in E as [_ E]. apply app_eq_nil in E as [E _]. contradiction. Qed.

Lemma render_item_shape it : item_ok it -> exists a, render_item it = a ++ [10] /\ ~ In 10 a.
Proof. destruct it as [l|t]; cbn [item_ok render_item]; intro H.
  - exists (label_text l). split; auto. apply label_text_no_nl; auto.
  - exists t. tauto. Qed.

Lemma read_lines_stream items last :
  Forall item_ok items -> match last with Some l => lline_ok l | None => True end ->
  map terminate (read_lines (stream items last)) = map render_item (all_items items last).
Proof. intros Hi Hl. unfold stream, all_items. induction Hi as [|it items Hit Hi IH]; cbn [map concat app].
  - destruct last as [l|]; cbn [map]; [|reflexivity].
    rewrite read_lines_tail by (try apply label_text_nonempty; try apply label_text_no_nl; auto).
    cbn [map render_item]. rewrite terminate_no by (apply label_text_no_nl; auto). reflexivity.
  - destruct (render_item_shape it Hit) as (a & E & Ha). rewrite E, <- !app_assoc. cbn [app].
    rewrite read_lines_line by auto. cbn [map]. rewrite terminate_snoc. f_equal. exact IH. Qed.

(* ---- the label/body split ---- *)
Lemma scan_tag_none s : ~ In 58 s -> scan_tag s = None.
Proof. induction s as [|c r IH]; cbn [scan_tag]; intro H; auto.
  destruct (c =? 58) eqn:E; [apply N.eqb_eq in E; subst; exfalso; apply H; left; auto|].
  destruct (is_space c) eqn:S.
  - destruct (drop_while is_space (c :: r)) as [|d r'] eqn:D; auto.
    destruct (N.eq_dec d 58) as [->|Hd].
    + exfalso. apply H. rewrite <- (take_drop_while is_space (c :: r)), D, in_app_iff. right; left; auto.
    + destruct d as [|p]; auto. do 6 (destruct p as [p|p|]; auto). exfalso; apply Hd; reflexivity.
  - rewrite IH; auto. intro F; apply H; right; auto. Qed.

Lemma scan_tag_tag t mid rest :
  forallb tagc t = true -> forallb blank mid = true ->
  scan_tag (t ++ mid ++ 58 :: rest) = Some (t, rest).
Proof. intros Ht Hm. induction t as [|c t IH]; cbn [app].
  - destruct mid as [|b m]; cbn [app scan_tag].
    + reflexivity.
    + cbn [forallb] in Hm. apply andb_true_iff in Hm as [Hb Hm]. apply blank_space in Hb as [Hb Hb'].
      destruct (b =? 58) eqn:E; [apply N.eqb_eq in E; subst; discriminate|]. rewrite Hb.
      change (b :: m ++ 58 :: rest) with ((b :: m) ++ 58 :: rest).
      rewrite drop_while_app_stop; [reflexivity| |reflexivity].
      cbn [forallb]. rewrite Hb. cbn [andb]. eapply forallb_impl; [|exact Hm].
      intros x Hx. apply blank_space in Hx. tauto.
  - cbn [forallb] in Ht. apply andb_true_iff in Ht as [Hc Ht]. apply tagc_spec in Hc as [Hc Hc'].
    cbn [scan_tag]. apply N.eqb_neq in Hc'. rewrite Hc', Hc, (IH Ht). reflexivity. Qed.

Definition body_part (d : bytes) : option bytes :=
  match split_at 10 d with
  | (x, Some []) => Some (x ++ [10])
  | (x, Some [10]) => Some (x ++ [10])
  | _ => None
  end.
Lemma data_part_sp x : data_part (32 :: x) = body_part x.
Proof. reflexivity. Qed.
Lemma data_part_nosp d : hd 0 d <> 32 -> data_part d = body_part d.
Proof. destruct d as [|c d]; [reflexivity|]. cbn [hd]. intro H. unfold data_part.
  destruct c as [|p]; [reflexivity|].
  do 6 (destruct p as [p|p|]; try reflexivity; try (exfalso; apply H; reflexivity)). Qed.

Lemma data_part_body (sp : bool) body :
  ~ In 10 body -> (sp = false -> hd 0 body <> 32) ->
  data_part ((if sp then [32] else []) ++ body ++ [10]) = Some (body ++ [10]).
Proof. intros Hb Hs.
  assert (B : body_part (body ++ [10]) = Some (body ++ [10])).
  { unfold body_part. rewrite split_at_app by auto. reflexivity. }
  destruct sp; cbn [app].
  - rewrite data_part_sp. exact B.
  - rewrite data_part_nosp; [exact B|]. specialize (Hs eq_refl).
    destruct body; cbn [app hd] in *; [discriminate|auto]. Qed.

(* C19_split: a labelled line is cut exactly at its label *)
Theorem split_line_label l : lline_ok l -> split_line (label_text l ++ [10]) = Some (l_tag l, l_body l ++ [10]).
Proof. intros (H1 & H2 & H3 & H4 & H5 & H6). unfold split_line, label_text.
  destruct (l_tag l) as [|c t] eqn:Et; [congruence|].
  cbn [forallb] in H4. apply andb_true_iff in H4 as [Hc Ht]. apply tagc_spec in Hc as [Hc Hc'].
  rewrite <- !app_assoc. cbn [app]. rewrite drop_while_app_stop; auto.
  2:{ eapply forallb_impl; [|exact H1]. intros x Hx. apply blank_space in Hx. tauto. }
  rewrite <- !app_assoc.
  rewrite scan_tag_tag by auto.
  rewrite data_part_body by auto. reflexivity. Qed.

Theorem split_line_junk t : ~ In 58 t -> split_line (t ++ [10]) = None.
Proof. intro H. unfold split_line.
  destruct (drop_while is_space (t ++ [10])) as [|c r] eqn:D; auto.
  rewrite scan_tag_none; auto.
  intro F. assert (In 58 (t ++ [10])).
  { rewrite <- (take_drop_while is_space (t ++ [10])), D, in_app_iff. right; right; auto. }
  rewrite in_app_iff in H0. destruct H0 as [|[|[]]]; [auto|discriminate]. Qed.

(* ---- process_lines ---- *)
Definition merge_lines (o : option (list bytes)) (l : list bytes) : option (list bytes) :=
  match o, l with
  | None, [] => None
  | _, _ => Some (default [] o ++ l)
  end.

Definition step (h : al (list bytes)) (l : bytes) : al (list bytes) :=
  match split_line l with Some (t, d) => al_push t d h | None => h end.

Lemma step_item it h : item_ok it ->
  step h (render_item it) = match it with Lab l => al_push (l_tag l) (l_body l ++ [10]) h | Junk _ => h end.
Proof. destruct it as [l|t]; cbn [item_ok render_item]; intro H; unfold step.
  - rewrite split_line_label; auto.
  - rewrite split_line_junk; tauto. Qed.

Lemma fold_items items : forall h, Forall item_ok items ->
  (forall t, al_get t (fold_left step (map render_item items) h) = merge_lines (al_get t h) (lines_of t items)) /\
  (NoDup (map fst h) -> NoDup (map fst (fold_left step (map render_item items) h))).
Proof. induction items as [|it items IH]; intros h Hi; cbn [map fold_left lines_of flat_map].
  - split; auto. intro t. unfold merge_lines. destruct (al_get t h); cbn [default]; auto. rewrite app_nil_r; auto.
  - inversion Hi; subst. rewrite step_item by auto. destruct (IH (match it with Lab l => al_push (l_tag l) (l_body l ++ [10]) h | Junk _ => h end) H2) as [IH1 IH2].
    split.
    + intro t. rewrite IH1. fold (lines_of t items). destruct it as [l|j]; cbn [app]; auto.
      unfold al_push. destruct (beq (l_tag l) t) eqn:E.
      * apply beq_eq in E. subst t. rewrite al_get_upd_same. unfold merge_lines.
        destruct (al_get (l_tag l) h); cbn [default app]; rewrite <- ?app_assoc; reflexivity.
      * apply beq_neq in E. rewrite al_get_upd_other by congruence. reflexivity.
    + intro Hn. apply IH2. destruct it; auto. apply al_upd_NoDup; auto. Qed.

Lemma process_lines_fold ls : process_lines ls = fold_left step (map terminate ls) [].
Proof. unfold process_lines. generalize (@nil (bytes * list bytes)).
  induction ls as [|l ls IH]; intro h; cbn [fold_left map]; auto. Qed.

(* the table dshbak builds holds, for every label, exactly its lines in input order *)
Theorem table_spec items last :
  Forall item_ok items -> match last with Some l => lline_ok l | None => True end ->
  let T := table (stream items last) in
  NoDup (map fst T) /\
  forall t, al_get t T = match lines_of t (all_items items last) with [] => None | ls => Some ls end.
Proof. intros Hi Hl T. subst T. unfold table. rewrite process_lines_fold, read_lines_stream by auto.
  assert (Ha : Forall item_ok (all_items items last)).
  { unfold all_items. apply Forall_app. split; auto. destruct last; auto. }
  destruct (fold_items (all_items items last) [] Ha) as [H1 H2]. split.
  - apply H2. constructor.
  - intro t. rewrite H1. cbn [al_get merge_lines default app].
    destruct (lines_of t (all_items items last)); reflexivity. Qed.
