(* S-side of C19: what a labelled stream is and what the report has to contain.
   Written independently of the script's code. *)
From PV Require Export Base.Decimal.
Local Open Scope N_scope.

(* one line of pdsh output as dshbak accepts it: optional blanks, the label, optional blanks, a colon,
   one blank (may be absent when the text does not begin with one), the text *)
Record lline := mkll { l_lead : bytes; l_tag : bytes; l_mid : bytes; l_sp : bool; l_body : bytes }.
(* input lines: labelled ones and lines without any colon (ignored by dshbak) *)
Inductive item := Lab (l : lline) | Junk (t : bytes).

Definition blank (c : N) : bool := is_space c && negb (c =? 10).
Definition tagc (c : N) : bool := negb (is_space c) && negb (c =? 58).

Definition lline_ok (l : lline) : Prop :=
  forallb blank (l_lead l) = true /\ forallb blank (l_mid l) = true /\
  l_tag l <> [] /\ forallb tagc (l_tag l) = true /\ ~ In 10 (l_body l) /\
  (l_sp l = false -> hd 0 (l_body l) <> 32).
Definition item_ok (it : item) : Prop :=
  match it with Lab l => lline_ok l | Junk t => ~ In 58 t /\ ~ In 10 t end.

Definition label_text (l : lline) : bytes :=
  l_lead l ++ l_tag l ++ l_mid l ++ 58 :: (if l_sp l then [32] else []) ++ l_body l.
Definition render_item (it : item) : bytes :=
  match it with Lab l => label_text l ++ [10] | Junk t => t ++ [10] end.

(* the byte stream: the lines, each with its newline, then possibly one more labelled line
   WITHOUT newline (the unterminated tail of the last host's output) *)
Definition stream (items : list item) (last : option lline) : bytes :=
  concat (map render_item items) ++ match last with Some l => label_text l | None => [] end.
Definition all_items (items : list item) (last : option lline) : list item :=
  items ++ match last with Some l => [Lab l] | None => [] end.

(* THE specification of regrouping: the lines of one label, in input order, each with its newline *)
Definition lines_of (t : bytes) (items : list item) : list bytes :=
  flat_map (fun it => match it with
                      | Lab l => if beq (l_tag l) t then [l_body l ++ [10]] else []
                      | Junk _ => []
                      end) items.

(* ---- the domain of the header theorem, in terms of names only ----
   a host name as pdsh accepts it in a host expression: not empty, free of blanks, commas and
   brackets, shorter than the parser's 1023-byte word buffer, no run of digits in it worth 10^15
   or more; at most 10240 names (the parser's limit on ranges between one pair of brackets) *)
Definition name_char (c : N) : bool :=
  negb ((c =? 9) || (c =? 44) || (c =? 32)) && negb (c =? 91) && negb (c =? 93).
Definition digit_runs_small (h : bytes) : Prop :=
  forall a n b, h = a ++ n ++ b -> forallb is_digit n = true -> value n < 1000000000000000.
Definition host_name_ok (h : bytes) : Prop :=
  h <> [] /\ forallb name_char h = true /\ (length h < 1023)%nat /\ digit_runs_small h.
Definition host_set_ok (hosts : list bytes) : Prop :=
  NoDup hosts /\ Forall host_name_ok hosts /\ N.of_nat (length hosts) <= 10240.
