(* C19, second part: the three output functions deliver the table; -c merges exactly the labels
   with identical line lists, every label under one header, every output once. *)
From Coq Require Import Permutation.
From PV Require Import Base.DecimalFacts Hostlist.HLParseFacts Dshbak.Dshbak Dshbak.DshbakBase.
Local Open Scope N_scope.

Lemma al_get_of_key {V} k (h : al V) : In k (map fst h) -> exists v, al_get k h = Some v.
Proof. intro H. destruct (al_get k h) eqn:E; eauto. apply al_get_None in E. contradiction. Qed.

Lemma memb_keys {V} k (h : al V) : memb k (map fst h) = true <-> exists v, al_get k h = Some v.
Proof. rewrite memb_In. split; [apply al_get_of_key|]. intros (v & H). eapply al_get_key; eauto. Qed.

Lemma cmp_list_eq a b : cmp_list a b = true <-> a = b.
Proof. revert b; induction a as [|x a IH]; intros [|y b]; cbn [cmp_list]; split; intro H; try discriminate; auto.
  - apply andb_true_iff in H as [H1 H2]. apply beq_eq in H1. apply IH in H2. congruence.
  - inversion H; subst. rewrite beq_refl. apply IH. reflexivity. Qed.

Lemma NoDup_app_intro {A} (a b : list A) :
  NoDup a -> NoDup b -> (forall x, In x a -> ~ In x b) -> NoDup (a ++ b).
Proof. induction a as [|x a IH]; cbn [app]; intros Ha Hb Hd; auto.
  inversion Ha; subst. constructor.
  - rewrite in_app_iff. intros [F|F]; [contradiction|]. apply (Hd x); [left|]; auto.
  - apply IH; auto. intros y Hy. apply Hd. right; auto. Qed.

Lemma NoDup_map_eq {A B} (f : A -> B) l x y : NoDup (map f l) -> In x l -> In y l -> f x = f y -> x = y.
Proof. induction l as [|a l IH]; cbn [map]; intros Hn Hx Hy E; [contradiction|].
  inversion Hn; subst. destruct Hx as [->|Hx], Hy as [->|Hy]; auto.
  - exfalso. apply H1. rewrite E. apply in_map; auto.
  - exfalso. apply H1. rewrite <- E. apply in_map; auto. Qed.

(* ---- deleting keys ---- *)
Lemma al_del_get {V} k k' (h : al V) : NoDup (map fst h) ->
  al_get k' (al_del k h) = if beq k' k then None else al_get k' h.
Proof. induction h as [|[k0 v0] r IH]; cbn [al_del al_get map fst]; intro Hn.
  - destruct (beq k' k); reflexivity.
  - inversion Hn; subst. destruct (beq k k0) eqn:E.
    + apply beq_eq in E. subst k0. destruct (beq k' k) eqn:F; auto.
      apply beq_eq in F. subst k'. apply al_get_None. auto.
    + cbn [al_get]. destruct (beq k' k0) eqn:F.
      * apply beq_eq in F. subst k0. rewrite beq_sym, E. reflexivity.
      * auto. Qed.

Lemma al_del_keys_incl {V} k (h : al V) x : In x (map fst (al_del k h)) -> In x (map fst h).
Proof. induction h as [|[k0 v0] r IH]; cbn [al_del map fst]; auto.
  destruct (beq k k0); cbn [map fst]; intros H; [right; auto|]. destruct H as [H|H]; [left|right]; auto. Qed.

Lemma al_del_NoDup {V} k (h : al V) : NoDup (map fst h) -> NoDup (map fst (al_del k h)).
Proof. induction h as [|[k0 v0] r IH]; cbn [al_del map fst]; intro Hn; auto.
  inversion Hn; subst. destruct (beq k k0); cbn [map fst]; auto.
  constructor; auto. intro F. apply H1. eapply al_del_keys_incl; eauto. Qed.

Lemma al_del_many {V} ks : forall (h : al V), NoDup (map fst h) ->
  NoDup (map fst (fold_left (fun h k => al_del k h) ks h)) /\
  forall k', al_get k' (fold_left (fun h k => al_del k h) ks h) = if memb k' ks then None else al_get k' h.
Proof. induction ks as [|k ks IH]; intros h Hn; cbn [fold_left memb existsb].
  - split; auto.
  - destruct (IH (al_del k h) (al_del_NoDup k h Hn)) as [I1 I2]. split; auto.
    intro k'. rewrite I2. fold (memb k' ks). rewrite al_del_get by auto.
    destruct (beq k' k), (memb k' ks); reflexivity. Qed.

(* ---- the normal report and the per-host files ---- *)
Theorem normal_spec oL s : NoDup (map fst (table s)) ->
  Permutation (concat (map b_tags (blocks_normal oL s))) (map fst (table s)) /\
  forall b, In b (blocks_normal oL s) ->
    exists t, b_tags b = [t] /\ b_head b = [t] /\ al_get t (table s) = Some (b_body b).
Proof. intro Hn. unfold blocks_normal. set (T := table s) in *. split.
  - rewrite map_map. cbn [b_tags].
    rewrite <- (flat_map_concat_map (fun t => [t])).
    assert (E : forall l : list bytes, flat_map (fun t => [t]) l = l) by (induction l; cbn; congruence).
    rewrite E. apply order_perm; auto.
  - intros b Hb. apply in_map_iff in Hb as (t & <- & Ht). exists t. cbn. repeat split; auto.
    eapply Permutation_in in Ht; [|apply order_perm; auto].
    destruct (al_get_of_key _ _ Ht) as (v & ->). reflexivity. Qed.

Theorem files_spec oL s : NoDup (map fst (table s)) ->
  Permutation (map fst (files oL s)) (map fst (table s)) /\
  forall t c, In (t, c) (files oL s) -> exists ls, al_get t (table s) = Some ls /\ c = concat ls.
Proof. intro Hn. unfold files. set (T := table s) in *. split.
  - rewrite map_map. cbn [fst]. rewrite map_id. apply order_perm; auto.
  - intros t c H. apply in_map_iff in H as (t' & E & Ht). inversion E; subst.
    eapply Permutation_in in Ht; [|apply order_perm; auto].
    destruct (al_get_of_key _ _ Ht) as (v & ->). eauto. Qed.

(* ---- -c ---- *)
Section Coalesce.
  Variable oS : list bytes -> list bytes.

  Lemma ident_spec tag ls (t : al (list bytes)) : NoDup (map fst t) ->
    let ident := map fst (filter (fun kv => negb (beq (fst kv) tag) && cmp_list ls (snd kv)) t) in
    NoDup ident /\ forall k, In k ident <-> k <> tag /\ al_get k t = Some ls.
  Proof. intros Hn ident. subst ident. split.
    - induction t as [|[k v] r IH]; cbn [filter map fst]; [constructor|].
      inversion Hn; subst. cbn [fst snd]. destruct (negb (beq k tag) && cmp_list ls v); cbn [map fst]; auto.
      constructor; auto. intro F. apply H1. apply in_map_iff in F as (kv & E & F).
      apply filter_In in F as [F _]. rewrite <- E. apply in_map; auto.
    - intro k. rewrite in_map_iff. split.
      + intros ([k' v] & E & F). cbn [fst] in E. subst k'. apply filter_In in F as [F G]. cbn [fst snd] in G.
        apply andb_true_iff in G as [G1 G2]. apply negb_true_iff, beq_neq in G1. apply cmp_list_eq in G2. subst v.
        split; auto. apply al_get_NoDup; auto.
      + intros [H1 H2]. exists (k, ls). split; auto. apply filter_In. split; [apply al_get_In; auto|].
        cbn [fst snd]. apply beq_neq in H1. rewrite H1. cbn. apply cmp_list_eq. reflexivity. Qed.

  Lemma coalesce_inv : forall ord (t : al (list bytes)),
    NoDup ord -> NoDup (map fst t) ->
    (forall k l k' l', al_get k t = Some l -> ~ In k ord -> In k' ord -> al_get k' t = Some l' -> l <> l') ->
    let bs := coalesce oS ord t in
    Permutation (concat (map b_tags bs)) (filter (fun k => memb k (map fst t)) ord) /\
    (forall b, In b bs -> forall k, In k (b_tags b) -> al_get k t = Some (b_body b)) /\
    (forall b, In b bs -> exists k, In k ord /\ al_get k t = Some (b_body b)) /\
    (forall b, In b bs -> b_head b = compress (oS (b_tags b)) (b_tags b)) /\
    NoDup (map b_body bs).
  Proof. induction ord as [|tag rest IH]; intros t Hord Hn HH; cbn [coalesce filter].
    - cbn. repeat split; try contradiction; constructor.
    - inversion Hord as [|? ? Htag Hrest]; subst.
      destruct (al_get tag t) as [ls|] eqn:Eg.
      + (* a new block *)
        assert (Em : memb tag (map fst t) = true) by (apply memb_keys; eauto). rewrite Em.
        set (ident := map fst (filter (fun kv => negb (beq (fst kv) tag) && cmp_list ls (snd kv)) t)).
        destruct (ident_spec tag ls t Hn) as [Hid1 Hid2]. fold ident in Hid1, Hid2.
        set (t' := fold_left (fun h k => al_del k h) ident t).
        destruct (al_del_many ident t Hn) as [Hn' Hg']. fold t' in Hn', Hg'.
        assert (Hsub : forall k, In k ident -> In k rest).
        { intros k Hk. apply Hid2 in Hk as [Hk1 Hk2].
          destruct (in_dec (list_eq_dec N.eq_dec) k (tag :: rest)) as [[F|F]|F]; [congruence|auto|].
          exfalso. apply (HH k ls tag ls Hk2 F (or_introl eq_refl) Eg). reflexivity. }
        assert (HH' : forall k l k' l', al_get k t' = Some l -> ~ In k rest -> In k' rest -> al_get k' t' = Some l' -> l <> l').
        { intros k l k' l' G1 Nk Ik G2. rewrite Hg' in G1, G2.
          destruct (memb k ident) eqn:M1; [discriminate|]. destruct (memb k' ident) eqn:M2; [discriminate|].
          apply memb_false in M1, M2.
          destruct (list_eq_dec N.eq_dec k tag) as [->|Nt].
          - rewrite Eg in G1. inversion G1; subst l. intro E. subst l'. apply M2. apply Hid2. split; auto.
            intro E. subst k'. contradiction.
          - apply (HH k l k' l' G1); auto. intros [F|F]; [congruence|contradiction]. right; auto. }
        destruct (IH t' Hrest Hn' HH') as (P1 & P2 & P3 & P4 & P5). cbn zeta in P1, P2, P3, P4, P5.
        cbn [map b_tags concat b_body In]. repeat split.
        * (* every label once *)
          eapply perm_trans; [apply Permutation_app; [apply sort_str_perm|exact P1]|].
          rewrite <- app_assoc. eapply perm_trans; [apply Permutation_app_comm|]. rewrite <- app_assoc. cbn [app].
          constructor.
          apply NoDup_Permutation.
          -- apply NoDup_app_intro; [apply NoDup_filter; auto|auto|].
             intros x Hx Hi. apply filter_In in Hx as [_ Hx]. apply memb_keys in Hx as (v & Hx).
             rewrite Hg' in Hx. rewrite (proj2 (memb_In x ident) Hi) in Hx. discriminate.
          -- apply NoDup_filter; auto.
          -- intro x. rewrite in_app_iff, !filter_In. split.
             ++ intros [[Hx1 Hx2]|Hx].
                ** split; auto. apply memb_keys in Hx2 as (v & Hx2). rewrite Hg' in Hx2.
                   destruct (memb x ident); [discriminate|]. apply memb_keys. eauto.
                ** split; [apply Hsub; auto|]. apply Hid2 in Hx as [_ Hx]. apply memb_keys. eauto.
             ++ intros [Hx1 Hx2]. destruct (memb x ident) eqn:M.
                ** right. apply memb_In; auto.
                ** left. split; auto. apply memb_keys in Hx2 as (v & Hx2). apply memb_keys. exists v.
                   rewrite Hg', M. auto.
        * intros b [<-|Hb] k Hk; cbn [b_tags b_body] in *.
          -- eapply Permutation_in in Hk; [|apply sort_str_perm]. rewrite in_app_iff in Hk.
             destruct Hk as [Hk|[<-|[]]]; auto. apply Hid2 in Hk. tauto.
          -- specialize (P2 b Hb k Hk). rewrite Hg' in P2. destruct (memb k ident); [discriminate|auto].
        * intros b [<-|Hb]; cbn [b_body].
          -- exists tag. split; [left|]; auto.
          -- destruct (P3 b Hb) as (k & Hk1 & Hk2). exists k. split; [right; auto|].
             rewrite Hg' in Hk2. destruct (memb k ident); [discriminate|auto].
        * intros b [<-|Hb]; cbn [b_head b_tags]; auto.
        * constructor; auto. intro F. apply in_map_iff in F as (b & Eb & Hb).
          destruct (P3 b Hb) as (k & Hk1 & Hk2). rewrite Eb, Hg' in Hk2.
          destruct (memb k ident) eqn:M; [discriminate|]. apply memb_false in M. apply M. apply Hid2.
          split; auto. intro E. subst k. contradiction.
      + (* the label went into an earlier block *)
        assert (Em : memb tag (map fst t) = false).
        { destruct (memb tag (map fst t)) eqn:M; auto. apply memb_keys in M as (v & M). congruence. }
        rewrite Em.
        assert (HH' : forall k l k' l', al_get k t = Some l -> ~ In k rest -> In k' rest -> al_get k' t = Some l' -> l <> l').
        { intros k l k' l' G1 Nk Ik G2. apply (HH k l k' l' G1); auto; [|right; auto].
          intros [F|F]; [|contradiction]. subst k. congruence. }
        destruct (IH t Hrest Hn HH') as (P1 & P2 & P3 & P4 & P5). repeat split; auto.
        intros b Hb. destruct (P3 b Hb) as (k & Hk1 & Hk2). exists k. split; [right|]; auto. Qed.
End Coalesce.

Theorem coalesce_spec oL oS s : NoDup (map fst (table s)) ->
  let bs := blocks_coalesce oL oS s in
  Permutation (concat (map b_tags bs)) (map fst (table s)) /\
  (forall b, In b bs -> forall k, In k (b_tags b) -> al_get k (table s) = Some (b_body b)) /\
  (forall b, In b bs -> b_head b = compress (oS (b_tags b)) (b_tags b)) /\
  NoDup (map b_body bs).
Proof. intros Hn bs. subst bs. unfold blocks_coalesce. set (T := table s) in *.
  assert (Hp := order_perm oL T Hn).
  assert (Ho : NoDup (order oL T)) by (eapply Permutation_NoDup; [symmetry; exact Hp|auto]).
  destruct (coalesce_inv oS (order oL T) T Ho Hn) as (P1 & P2 & P3 & P4 & P5).
  { intros k l k' l' G1 Nk. exfalso. apply Nk. eapply Permutation_in; [symmetry; exact Hp|]. eapply al_get_key; eauto. }
  repeat split; auto.
  eapply perm_trans; [exact P1|]. rewrite filter_all; auto.
  intros x Hx. apply memb_In. eapply Permutation_in; eauto. Qed.

(* two labels stand under the same header iff their outputs are identical *)
Theorem coalesce_merged_iff oL oS s a b : NoDup (map fst (table s)) ->
  In a (map fst (table s)) -> In b (map fst (table s)) ->
  ((exists blk, In blk (blocks_coalesce oL oS s) /\ In a (b_tags blk) /\ In b (b_tags blk))
   <-> al_get a (table s) = al_get b (table s)).
Proof. intros Hn Ha Hb. destruct (coalesce_spec oL oS s Hn) as (P1 & P2 & _ & P5). split.
  - intros (blk & H1 & H2 & H3). rewrite (P2 blk H1 a H2), (P2 blk H1 b H3). reflexivity.
  - intro E.
    assert (Ia : In a (concat (map b_tags (blocks_coalesce oL oS s)))) by (eapply Permutation_in; [symmetry; exact P1|auto]).
    assert (Ib : In b (concat (map b_tags (blocks_coalesce oL oS s)))) by (eapply Permutation_in; [symmetry; exact P1|auto]).
    apply in_concat in Ia as (ta & Ia1 & Ia2). apply in_concat in Ib as (tb & Ib1 & Ib2).
    apply in_map_iff in Ia1 as (ba & <- & Ia1). apply in_map_iff in Ib1 as (bb & <- & Ib1).
    assert (ba = bb).
    { eapply NoDup_map_eq; eauto. pose proof (P2 ba Ia1 a Ia2). pose proof (P2 bb Ib1 b Ib2). congruence. }
    subst bb. exists ba. auto. Qed.
