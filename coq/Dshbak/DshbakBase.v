(* Generic facts used by the dshbak proofs: association lists, the key-order oracle, the two
   insertion sorts (only that they permute), permutations of flat_maps. *)
From Coq Require Import Permutation.
From Coq Require Import Sorted.
From PV Require Import Base.DecimalFacts Hostlist.HLParseFacts Dshbak.Dshbak.
Local Open Scope N_scope.

Lemma beq_sym a b : beq a b = beq b a.
Proof. destruct (beq a b) eqn:E, (beq b a) eqn:F; auto.
  - apply beq_eq in E. subst. rewrite beq_refl in F. discriminate.
  - apply beq_eq in F. subst. rewrite beq_refl in E. discriminate. Qed.

Lemma memb_In k l : memb k l = true <-> In k l.
Proof. unfold memb. rewrite existsb_exists. split.
  - intros (x & Hx & E). apply beq_eq in E. subst; auto.
  - intro H. exists k. split; auto. apply beq_refl. Qed.
Lemma memb_false k l : memb k l = false <-> ~ In k l.
Proof. rewrite <- memb_In. destruct (memb k l); split; intro H; auto; try discriminate.
  exfalso; apply H; auto. Qed.

(* a local NoDup-append fact (name chosen not to clash with the library) *)
Lemma NoDup_snoc {A} (l : list A) x : NoDup l -> ~ In x l -> NoDup (l ++ [x]).
Proof. induction l as [|y l IH]; cbn [app]; intros Hn Hx.
  - constructor; [auto|constructor].
  - inversion Hn; subst. constructor.
    + rewrite in_app_iff. intros [F|[F|[]]]; [auto|]. subst. apply Hx. left; auto.
    + apply IH; auto. intro F. apply Hx. right; auto. Qed.

(* ---- association lists ---- *)
Section ALFacts.
  Context {V : Type}.
  Implicit Types h : al V.

  Lemma al_get_In k h v : al_get k h = Some v -> In (k, v) h.
  Proof. induction h as [|[k' v'] r IH]; cbn [al_get]; [discriminate|].
    destruct (beq k k') eqn:E; intro H.
    - apply beq_eq in E. inversion H; subst. left; auto.
    - right; auto. Qed.

  Lemma al_get_key k h v : al_get k h = Some v -> In k (map fst h).
  Proof. intro H. apply al_get_In in H. apply (in_map fst) in H. exact H. Qed.

  Lemma al_get_None k h : al_get k h = None <-> ~ In k (map fst h).
  Proof. induction h as [|[k' v'] r IH]; cbn [al_get map fst]; [tauto|].
    destruct (beq k k') eqn:E.
    - apply beq_eq in E. subst. split; [discriminate|]. intro H. exfalso. apply H. left; auto.
    - apply beq_neq in E. rewrite IH. split; intro H.
      + intros [F|F]; [congruence|auto].
      + intro F. apply H. right; auto. Qed.

  Lemma al_get_NoDup k v h : NoDup (map fst h) -> In (k, v) h -> al_get k h = Some v.
  Proof. induction h as [|[k' v'] r IH]; cbn [al_get map fst]; intros Hn Hin; [contradiction|].
    inversion Hn; subst. destruct Hin as [E|Hin].
    - inversion E; subst. rewrite beq_refl. reflexivity.
    - destruct (beq k k') eqn:E.
      + apply beq_eq in E. subst. exfalso. apply H1. apply (in_map fst) in Hin. exact Hin.
      + auto. Qed.

  Lemma al_upd_keys k f h :
    map fst (al_upd k f h) = if memb k (map fst h) then map fst h else map fst h ++ [k].
  Proof. induction h as [|[k' v'] r IH]; cbn [al_upd map fst memb existsb]; auto.
    destruct (beq k k') eqn:E; cbn [map fst orb]; auto.
    rewrite IH. unfold memb. destruct (existsb (beq k) (map fst r)); reflexivity. Qed.

  Lemma al_upd_NoDup k f h : NoDup (map fst h) -> NoDup (map fst (al_upd k f h)).
  Proof. intro H. rewrite al_upd_keys. destruct (memb k (map fst h)) eqn:E; auto.
    apply memb_false in E. apply NoDup_snoc; auto. Qed.

  Lemma al_get_upd_same k f h : al_get k (al_upd k f h) = Some (f (al_get k h)).
  Proof. induction h as [|[k' v'] r IH]; cbn [al_upd al_get].
    - rewrite beq_refl. reflexivity.
    - destruct (beq k k') eqn:E; cbn [al_get]; rewrite E; auto. Qed.

  Lemma al_get_upd_other k k2 f h : k2 <> k -> al_get k2 (al_upd k f h) = al_get k2 h.
  Proof. intro Hne. induction h as [|[k' v'] r IH]; cbn [al_upd al_get].
    - apply beq_neq in Hne. rewrite Hne. reflexivity.
    - destruct (beq k k') eqn:E; cbn [al_get].
      + apply beq_eq in E. subst. apply beq_neq in Hne. rewrite Hne. reflexivity.
      + rewrite IH. reflexivity. Qed.
End ALFacts.


Lemma filter_all {A} (p : A -> bool) l : (forall x, In x l -> p x = true) -> filter p l = l.
Proof. induction l as [|x l IH]; cbn [filter]; intro H; auto.
  rewrite H by (left; auto). f_equal. apply IH. intros; apply H; right; auto. Qed.

(* ---- the key-order oracle ---- *)
Lemma remove_key_In k x l : In x (remove_key k l) <-> In x l /\ x <> k.
Proof. unfold remove_key. rewrite filter_In. split; intros [H1 H2]; split; auto.
  - intro E. subst. rewrite beq_refl in H2. discriminate.
  - destruct (beq k x) eqn:E; auto. apply beq_eq in E. congruence. Qed.

Lemma remove_key_NoDup k l : NoDup l -> NoDup (remove_key k l).
Proof. apply NoDup_filter. Qed.

Lemma remove_key_perm k l : NoDup l -> In k l -> Permutation (k :: remove_key k l) l.
Proof. induction l as [|y l IH]; intros Hn Hin; [contradiction|].
  inversion Hn; subst. unfold remove_key. cbn [filter].
  destruct (beq k y) eqn:E; cbn [negb].
  - apply beq_eq in E. subst. constructor.
    replace (filter (fun x => negb (beq y x)) l) with l; auto.
    symmetry. apply filter_all. intros x Hx.
    destruct (beq y x) eqn:F; auto. apply beq_eq in F. subst. contradiction.
  - apply beq_neq in E. destruct Hin as [F|Hin]; [congruence|].
    eapply perm_trans; [apply perm_swap|]. constructor. apply IH; auto. Qed.

Lemma pick_order_perm o : forall keys, NoDup keys -> Permutation (pick_order o keys) keys.
Proof. induction o as [|k o IH]; intros keys Hn; cbn [pick_order]; [reflexivity|].
  destruct (memb k keys) eqn:E; [|apply IH; auto].
  apply memb_In in E. eapply perm_trans; [|apply (remove_key_perm k); auto].
  constructor. apply IH. apply remove_key_NoDup; auto. Qed.

(* every order of the keys is produced by some oracle: the order itself *)
Lemma pick_order_id p : forall keys, NoDup p -> Permutation p keys -> pick_order p keys = p.
Proof. induction p as [|k p IH]; intros keys Hn Hp; cbn [pick_order].
  - apply Permutation_nil in Hp. auto.
  - inversion Hn; subst.
    assert (Hk : In k keys) by (eapply Permutation_in; [exact Hp|left; auto]).
    assert (Hnk : NoDup keys) by (eapply Permutation_NoDup; eauto).
    rewrite (proj2 (memb_In k keys) Hk). f_equal. apply IH; auto.
    apply Permutation_cons_inv with (a := k).
    eapply perm_trans; [exact Hp|]. symmetry. apply remove_key_perm; auto. Qed.

(* ---- the sorts permute ---- *)
Lemma insert_n_perm x l : Permutation (insert_n x l) (x :: l).
Proof. induction l as [|y l IH]; cbn [insert_n]; [reflexivity|].
  destruct (numkey x <=? numkey y); [reflexivity|].
  eapply perm_trans; [apply perm_skip; exact IH|apply perm_swap]. Qed.
Lemma sortn_perm l : Permutation (sortn l) l.
Proof. induction l as [|x l IH]; cbn [sortn fold_right]; [reflexivity|].
  eapply perm_trans; [apply insert_n_perm|]. constructor. exact IH. Qed.
Lemma insert_s_perm x l : Permutation (insert_s x l) (x :: l).
Proof. induction l as [|y l IH]; cbn [insert_s]; [reflexivity|].
  destruct (ble x y); [reflexivity|].
  eapply perm_trans; [apply perm_skip; exact IH|apply perm_swap]. Qed.
Lemma sort_str_perm l : Permutation (sort_str l) l.
Proof. induction l as [|x l IH]; cbn [sort_str fold_right]; [reflexivity|].
  eapply perm_trans; [apply insert_s_perm|]. constructor. exact IH. Qed.

Lemma order_perm oL (t : al (list bytes)) : NoDup (map fst t) -> Permutation (order oL t) (map fst t).
Proof. intro H. unfold order. eapply perm_trans; [apply sortn_perm|]. apply pick_order_perm; auto. Qed.

(* sortn really sorts (not needed for the property; it is what makes the observed block order
   checkable: the report comes in non-decreasing order of the trailing number) *)
Lemma insert_n_sorted x l :
  StronglySorted (fun a b => numkey a <= numkey b) l ->
  StronglySorted (fun a b => numkey a <= numkey b) (insert_n x l).
Proof. induction l as [|y l IH]; cbn [insert_n]; intro H.
  - constructor; [constructor|constructor].
  - inversion H; subst. destruct (numkey x <=? numkey y) eqn:E.
    + apply N.leb_le in E. constructor; auto. constructor; auto.
      eapply Forall_impl; [|exact H3]. cbn. intros; lia.
    + apply N.leb_gt in E. constructor; auto.
      assert (Hp := insert_n_perm x l).
      apply Forall_forall. intros z Hz. eapply Permutation_in in Hz; [|exact Hp].
      destruct Hz as [->|Hz]; [lia|]. rewrite Forall_forall in H3. auto. Qed.
Lemma sortn_sorted l : StronglySorted (fun a b => numkey a <= numkey b) (sortn l).
Proof. induction l as [|x l IH]; cbn [sortn fold_right]; [constructor|].
  apply insert_n_sorted. exact IH. Qed.

(* ---- flat_map over an association list versus over its keys ---- *)
Lemma flat_map_keys {V B} (f : bytes -> V -> list B) (d : V) (h : al V) :
  NoDup (map fst h) ->
  flat_map (fun k => f k (default d (al_get k h))) (map fst h) = flat_map (fun kv => f (fst kv) (snd kv)) h.
Proof. induction h as [|[k v] r IH]; cbn [map fst flat_map]; intro Hn; auto.
  inversion Hn; subst. cbn [al_get]. rewrite beq_refl. cbn [default snd fst]. f_equal.
  rewrite <- IH by auto. apply flat_map_ext'. intros x Hx.
  cbn [al_get]. destruct (beq x k) eqn:E; auto. apply beq_eq in E. subst. contradiction. Qed.
