(* Extraction of the timed dsh transition system (C07, C20).  ExtrOcamlBasic only. *)
From Coq Require Import ExtrOcamlBasic.
From PV Require Import Dsh.Sys.
Extraction Language OCaml.
Set Extraction KeepSingleton.
Extraction "sys_model.ml" Sys.step Sys.init Sys.next_target Sys.inflight Sys.mkcfg Sys.calm Sys.hang_due Sys.blockedb.
