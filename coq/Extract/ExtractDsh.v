(* Extraction of the dsh output-path model.  ExtrOcamlBasic only. *)
From Coq Require Import ExtrOcamlBasic.
From PV Require Import Dsh.Output.
Extraction Language OCaml.
Set Extraction KeepSingleton.
Extraction "dsh_model.ml" run_stream extract_rc label.
