(* Extraction of the dsh output-path model.  ExtrOcamlBasic only. *)
From Coq Require Import ExtrOcamlBasic.
From PV Require Import Dsh.Output Dsh.Dispatch Dsh.Exit Dsh.Domain.
Extraction Language OCaml.
Set Extraction KeepSingleton.
Extraction "dsh_model.ml" run_stream extract_rc label Dispatch.step Dispatch.init Dispatch.inflight Exit.run_exit Domain.domain_in_label.
