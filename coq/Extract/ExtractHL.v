(* Extraction of the hostlist model for the correspondence runner.
   ExtrOcamlBasic only: bool, option, unit, list, prod, sumbool map to OCaml's own
   types; N / positive / nat / Z stay the extracted inductives.  No Extract Constant. *)
From Coq Require Import ExtrOcamlBasic.
From PV Require Import Hostlist.HLDefs Hostlist.HLPrint Hostlist.HLEdit Hostlist.HLRangedFit Hostlist.HLRangedRoundtrip.
Extraction Language OCaml.
Set Extraction KeepSingleton.
Extraction "hl_model.ml" targets targets1 create expand iter_all shift_all push hl_empty
  ranged_string deranged_string cstring ranged_text gtexts printableb
  st_empty step st_names st_count.
