(* Extraction of the cbuf model.  ExtrOcamlBasic only. *)
From Coq Require Import ExtrOcamlBasic.
From PV Require Import Cbuf.CbufDefs.
Extraction Language OCaml.
Set Extraction KeepSingleton.
Extraction "cbuf_model.ml" create write write_from_fd read peek drop read_line peek_line drop_line
  write_line opt_set flush lines_used abs.
