(* Extraction of the argument-pipeline models.  ExtrOcamlBasic only. *)
From Coq Require Import ExtrOcamlBasic.
From PV Require Import Args.Settings.
Extraction Language OCaml.
Set Extraction KeepSingleton.
Extraction "args_model.ml" effective string_to_int atoi.
