(* Extraction of the argument-pipeline models.  ExtrOcamlBasic only. *)
From Coq Require Import ExtrOcamlBasic.
From PV Require Import Args.Settings Args.WcollFile Args.Assemble Hostlist.HLDefs.
Extraction Language OCaml.
Set Extraction KeepSingleton.
Extraction "args_model.ml" effective string_to_int Settings.atoi read_wcoll read_stream Assemble.assemble Assemble.list_split HLDefs.push HLDefs.hl_empty HLDefs.iter_all HLDefs.reexpand.
