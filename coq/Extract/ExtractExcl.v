(* Extraction of the C02 model (Args/Exclude.v) for the correspondence runner ocaml/excl_runner.ml.
   ExtrOcamlBasic only; the regex oracle (compiles, matches) becomes two function arguments. *)
From Coq Require Import ExtrOcamlBasic.
From PV Require Import Args.Exclude.
Extraction Language OCaml.
Set Extraction KeepSingleton.
Extraction "excl_model.ml" run domain_check fixed original classify list_split.
