(* Extraction of the module-loader model (C17).  ExtrOcamlBasic only. *)
From Coq Require Import ExtrOcamlBasic.
From PV Require Import Mod.ModPerm Mod.ModLoad.
Extraction Language OCaml.
Set Extraction KeepSingleton.
Extraction "mod_model.ml" load load_orig r_dispatch module_dir Bytes.mem.
