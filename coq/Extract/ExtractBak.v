(* Extraction of the dshbak model (and the C parser's model it is composed with) for the
   correspondence runner.  ExtrOcamlBasic only; no Extract Constant / Extract Inductive. *)
From Coq Require Import ExtrOcamlBasic.
From PV Require Import Hostlist.HLDefs Dshbak.Dshbak.
Extraction Language OCaml.
Set Extraction KeepSingleton.
Extraction "bak_model.ml" dshbak_normal dshbak_files dshbak_coalesce dshbak_coalesce_groups
  compress_checked compress split_line read_lines targets join.
