(* Extraction of the pcp models (receiver: PcpSink).  ExtrOcamlBasic only. *)
From Coq Require Import ExtrOcamlBasic.
From PV Require Import Pcp.FsModel Pcp.PcpSink Pcp.PcpClient.
Extraction Language OCaml.
Set Extraction KeepSingleton.
Extraction "pcp_model.ml" sink touched replies lookup expand_dirs client copy exchange seen_replies run_copy.
