(* Extraction of the C09 models (transport/user/rank assignment, argument substitution, rsh request).
   ExtrOcamlBasic only. *)
From Coq Require Import ExtrOcamlBasic.
From PV Require Import Args.Subst Args.Rcmd.
Extraction Language OCaml.
Set Extraction KeepSingleton.
Extraction "rcmd_model.ml" format_arg exec_args build_cmd xrcmd_writes classify assign default_type.
