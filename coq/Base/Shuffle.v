(* Interleavings of several sequences (C06: the global output stream is an interleaving of
   the workers' call lists). *)
From Coq Require Import List.
Import ListNotations.

Fixpoint replace_nth {A} (l : list A) (i : nat) (x : A) : list A :=
  match l, i with [], _ => [] | _ :: t, O => x :: t | h :: t, S j => h :: replace_nth t j x end.

(* g is an interleaving of the sequences hs: repeatedly take the head of one of them *)
Inductive interleaving {A : Type} : list (list A) -> list A -> Prop :=
| il_done : forall hs, Forall (fun h => h = []) hs -> interleaving hs []
| il_take : forall hs i x h g, nth_error hs i = Some (x :: h) ->
    interleaving (replace_nth hs i h) g -> interleaving hs (x :: g).

Inductive subsequence {A : Type} : list A -> list A -> Prop :=
| ss_nil : forall g, subsequence [] g
| ss_skip : forall h x g, subsequence h g -> subsequence h (x :: g)
| ss_take : forall h x g, subsequence h g -> subsequence (x :: h) (x :: g).
