From PV Require Export Base.Decimal.
Local Open Scope N_scope.

Lemma digits_f_length f n : length (digits_f f n) = ndig_f f n.
Proof. revert n; induction f as [|f IH]; intros n; cbn [digits_f ndig_f]; auto.
  destruct (n <? 10); auto. rewrite app_length, IH. cbn [length]. lia. Qed.
Lemma digits_length n : length (digits n) = ndigits n.
Proof. apply digits_f_length. Qed.

Lemma ndig_f_enough f g n : n < 2 ^ N.of_nat f -> n < 2 ^ N.of_nat g -> ndig_f f n = ndig_f g n.
Proof.
  revert g n. induction f as [|f IH]; intros g n Hf Hg.
  - cbn in Hf. assert (n = 0) by lia. subst. destruct g; cbn [ndig_f]; auto.
  - destruct g as [|g].
    + cbn in Hg. assert (n = 0) by lia. subst. reflexivity.
    + cbn [ndig_f]. destruct (n <? 10) eqn:E; auto. f_equal. apply N.ltb_ge in E.
      rewrite Nat2N.inj_succ, N.pow_succ_r' in Hf, Hg.
      apply IH; apply N.div_lt_upper_bound; lia.
Qed.

Lemma digits_f_enough f g n : n < 2 ^ N.of_nat f -> n < 2 ^ N.of_nat g -> digits_f f n = digits_f g n.
Proof.
  revert g n. induction f as [|f IH]; intros g n Hf Hg.
  - cbn in Hf. assert (n = 0) by lia. subst. destruct g; cbn [digits_f]; auto.
  - destruct g as [|g].
    + cbn in Hg. assert (n = 0) by lia. subst. reflexivity.
    + cbn [digits_f]. destruct (n <? 10) eqn:E; auto. f_equal. apply N.ltb_ge in E.
      rewrite Nat2N.inj_succ, N.pow_succ_r' in Hf, Hg.
      apply IH; apply N.div_lt_upper_bound; lia.
Qed.

Lemma size_bound n : n < 2 ^ N.of_nat (N.to_nat (N.size n)).
Proof. rewrite N2Nat.id. destruct n as [|p]; [reflexivity|]. apply N.size_gt. Qed.

Lemma ndigits_step n : 10 <= n -> ndigits n = S (ndigits (n / 10)).
Proof.
  intros H. unfold ndigits.
  destruct (N.to_nat (N.size n)) as [|f] eqn:Ef.
  - pose proof (size_bound n) as B. rewrite Ef in B. cbn in B. lia.
  - cbn [ndig_f]. assert ((n <? 10) = false) as -> by (apply N.ltb_ge; lia). f_equal.
    apply ndig_f_enough.
    + pose proof (size_bound n) as B. rewrite Ef, Nat2N.inj_succ, N.pow_succ_r' in B.
      apply N.div_lt_upper_bound; lia.
    + apply size_bound.
Qed.
Lemma ndigits_small n : n < 10 -> ndigits n = 1%nat.
Proof. intros H. unfold ndigits. destruct (N.to_nat (N.size n)); cbn [ndig_f]; auto.
  assert ((n <? 10) = true) as -> by (apply N.ltb_lt; lia). reflexivity. Qed.

Lemma digits_step n : 10 <= n -> digits n = digits (n / 10) ++ [48 + n mod 10].
Proof.
  intros H. unfold digits.
  destruct (N.to_nat (N.size n)) as [|f] eqn:Ef.
  - pose proof (size_bound n) as B. rewrite Ef in B. cbn in B. lia.
  - cbn [digits_f]. assert ((n <? 10) = false) as -> by (apply N.ltb_ge; lia). f_equal.
    apply digits_f_enough.
    + pose proof (size_bound n) as B. rewrite Ef, Nat2N.inj_succ, N.pow_succ_r' in B.
      apply N.div_lt_upper_bound; lia.
    + apply size_bound.
Qed.
Lemma digits_small n : n < 10 -> digits n = [48 + n].
Proof. intros H. unfold digits. destruct (N.to_nat (N.size n)); cbn [digits_f].
  - rewrite N.mod_small by lia. reflexivity.
  - assert ((n <? 10) = true) as -> by (apply N.ltb_lt; lia). reflexivity. Qed.

Lemma ndigits_pos n : (1 <= ndigits n)%nat.
Proof. destruct (N.lt_ge_cases n 10) as [H|H].
  - rewrite ndigits_small; auto.
  - rewrite ndigits_step; auto. lia. Qed.

Lemma ndigits_mono : forall n m, n <= m -> (ndigits n <= ndigits m)%nat.
Proof.
  intros n. induction n as [n IH] using (well_founded_induction N.lt_wf_0). intros m H.
  destruct (N.lt_ge_cases n 10) as [Hn|Hn].
  - rewrite (ndigits_small n Hn). apply ndigits_pos.
  - rewrite (ndigits_step n Hn), (ndigits_step m) by lia. apply le_n_S. apply IH.
    + apply N.div_lt; lia.
    + apply N.div_le_mono; lia.
Qed.

(* strong induction principle following the digit recursion *)
Lemma dec_ind (P : N -> Prop) :
  (forall n, n < 10 -> P n) -> (forall n, 10 <= n -> P (n / 10) -> P n) -> forall n, P n.
Proof.
  intros Hs Hl n. induction n as [n IH] using (well_founded_induction N.lt_wf_0).
  destruct (N.lt_ge_cases n 10) as [H|H]; auto.
  apply Hl; auto. apply IH. apply N.div_lt; lia.
Qed.

Lemma is_digit_iff b : is_digit b = true <-> 48 <= b <= 57.
Proof. unfold is_digit. rewrite andb_true_iff, !N.leb_le. tauto. Qed.

Lemma digits_all_digit n : forallb is_digit (digits n) = true.
Proof.
  induction n as [n H|n H IH] using dec_ind.
  - rewrite digits_small by auto. cbn [forallb].
    rewrite andb_true_r. apply is_digit_iff. lia.
  - rewrite digits_step by auto. rewrite forallb_app, IH. cbn [forallb].
    rewrite andb_true_r. assert (n mod 10 < 10) by (apply N.mod_lt; lia). apply is_digit_iff. lia.
Qed.

Lemma value_app a b : value (a ++ b) = fold_left dval b (value a).
Proof. unfold value. apply fold_left_app. Qed.

Lemma value_digits n : value (digits n) = n.
Proof.
  induction n as [n H|n H IH] using dec_ind.
  - rewrite digits_small by auto. unfold value, dval; cbn [fold_left]. lia.
  - rewrite digits_step by auto. rewrite value_app, IH. cbn [fold_left]. unfold dval.
    pose proof (N.div_mod n 10). lia.
Qed.

Lemma fold_dval_zeros k acc : acc = 0 -> fold_left dval (repeat 48 k) acc = 0.
Proof. intros ->. induction k as [|k IH]; cbn [repeat fold_left]; auto. Qed.

Lemma value_zeros_app k ds : value (repeat 48 k ++ ds) = value ds.
Proof. rewrite value_app. unfold value. f_equal. apply fold_dval_zeros; auto. Qed.

Lemma value_fmt w n : value (fmt w n) = n.
Proof. unfold fmt. rewrite value_zeros_app. apply value_digits. Qed.

Lemma fmt_length w n : length (fmt w n) = Nat.max w (ndigits n).
Proof. unfold fmt. rewrite app_length, repeat_length, digits_length. lia. Qed.

Lemma fmt_all_digit w n : forallb is_digit (fmt w n) = true.
Proof. unfold fmt. rewrite forallb_app, digits_all_digit, andb_true_r.
  induction (w - ndigits n)%nat; cbn; auto. Qed.

Lemma fmt_inj w a w' b : fmt w a = fmt w' b -> a = b.
Proof. intro H. apply (f_equal value) in H. now rewrite !value_fmt in H. Qed.

Lemma fmt_nonempty w n : fmt w n <> [].
Proof. intro H. apply (f_equal (@length N)) in H. rewrite fmt_length in H.
  pose proof (ndigits_pos n). cbn in H. lia. Qed.

(* a zero-padding-independent reading of "same width": two widths print x alike
   iff they pad it alike *)
Lemma fmt_width_eq w w' x : (w - ndigits x = w' - ndigits x)%nat -> fmt w x = fmt w' x.
Proof. unfold fmt. intros ->. reflexivity. Qed.

Lemma digits_head_nonzero n : 0 < n -> exists d r, digits n = d :: r /\ d <> 48.
Proof.
  induction n as [n H|n H IH] using dec_ind; intro Hp.
  - rewrite digits_small by auto. exists (48 + n), []. split; auto. lia.
  - rewrite digits_step by auto. destruct IH as (d & r & E & Hd).
    + apply N.div_str_pos. lia.
    + rewrite E. exists d, (r ++ [48 + n mod 10]). split; auto.
Qed.

(* printing with the typed width of the lower bound re-creates the typed text *)
Lemma ndigits_le_pow n k : n < 10 ^ N.of_nat k -> (0 < k)%nat -> (ndigits n <= k)%nat.
Proof.
  revert n. induction k as [|k IH]; intros n H Hk; [lia|].
  destruct (N.lt_ge_cases n 10) as [Hn|Hn].
  - rewrite ndigits_small by auto. lia.
  - rewrite ndigits_step by auto. apply le_n_S.
    destruct k as [|k'].
    + cbn in H. lia.
    + apply IH; [|lia]. rewrite Nat2N.inj_succ, N.pow_succ_r' in H.
      apply N.div_lt_upper_bound; lia.
Qed.

Lemma value_lt_pow ds : forallb is_digit ds = true -> value ds < 10 ^ N.of_nat (length ds).
Proof.
  induction ds as [|d ds IH] using rev_ind; intro H.
  - cbn. lia.
  - rewrite forallb_app in H. apply andb_true_iff in H as [H1 H2]. cbn [forallb] in H2.
    rewrite andb_true_r in H2. apply is_digit_iff in H2 as [Ha Hb].
    rewrite value_app. cbn [fold_left]. unfold dval. rewrite app_length. cbn [length].
    rewrite Nat.add_1_r, Nat2N.inj_succ, N.pow_succ_r'. specialize (IH H1). lia.
Qed.

(* any non-empty digit string is what printf prints for its value with its length as width *)
Lemma fmt_value ds : ds <> [] -> forallb is_digit ds = true -> fmt (length ds) (value ds) = ds.
Proof.
  induction ds as [|d ds IH] using rev_ind; intros Hne H; [congruence|].
  rewrite forallb_app in H. apply andb_true_iff in H as [H1 H2]. cbn [forallb] in H2.
  rewrite andb_true_r in H2. apply is_digit_iff in H2 as [Ha Hb].
  rewrite value_app. cbn [fold_left]. unfold dval. rewrite app_length. cbn [length].
  set (v := value ds) in *.
  destruct (Nat.eq_dec (length ds) 0) as [El|El].
  - apply length_zero_iff_nil in El. subst ds.
    subst v. cbn [value fold_left length Nat.add]. unfold value; cbn [fold_left].
    unfold fmt. rewrite ndigits_small by lia. rewrite digits_small by lia.
    cbn [length Nat.add Nat.sub repeat app]. f_equal. lia.
  - assert (Hne' : ds <> []) by (intro; subst; apply El; reflexivity).
    specialize (IH Hne' H1).
    assert (Hv : v < 10 ^ N.of_nat (length ds)) by (apply value_lt_pow; auto).
    assert (Hl : (0 < length ds)%nat) by lia.
    pose proof (ndigits_le_pow v _ Hv Hl) as Hnd.
    unfold fmt in *.
    destruct (N.eq_dec v 0) as [Hz|Hz].
    + (* all zeros so far *)
      rewrite Hz in *. replace (10 * 0 + (d - 48)) with (d - 48) by lia.
      rewrite ndigits_small in * by lia. rewrite digits_small in * by lia.
      replace (length ds + 1 - 1)%nat with (S (length ds - 1)) by lia.
      rewrite <- IH at 2. cbn [repeat]. replace (48 + 0) with 48 by lia.
      replace (48 + (d - 48)) with d by lia.
      f_equal. apply (repeat_cons (length ds - 1) 48).
    + rewrite (ndigits_step (10 * v + (d - 48))) by lia.
      rewrite (digits_step (10 * v + (d - 48))) by lia.
      replace ((10 * v + (d - 48)) / 10) with v.
      2:{ lia. }
      replace ((10 * v + (d - 48)) mod 10) with (d - 48).
      2:{ lia. }
      replace (48 + (d - 48)) with d by lia.
      replace (length ds + 1 - S (ndigits v))%nat with (length ds - ndigits v)%nat by lia.
      rewrite app_assoc. f_equal. exact IH.
Qed.
