(* Decimal printing (printf "%0*lu") and parsing (the digit loop of strtoul)
   over N, with the round-trip and monotonicity lemmas the hostlist model needs. *)
From PV Require Export Base.Bytes.
Local Open Scope N_scope.

(* number of decimal digits, on fuel; fuel = bit size is always enough *)
Fixpoint ndig_f (fuel : nat) (n : N) : nat :=
  match fuel with
  | O => 1%nat
  | S f => if n <? 10 then 1%nat else S (ndig_f f (n / 10))
  end.
Definition ndigits (n : N) : nat := ndig_f (N.to_nat (N.size n)) n.

Fixpoint digits_f (fuel : nat) (n : N) : bytes :=
  match fuel with
  | O => [48 + n mod 10]
  | S f => if n <? 10 then [48 + n] else digits_f f (n / 10) ++ [48 + n mod 10]
  end.
Definition digits (n : N) : bytes := digits_f (N.to_nat (N.size n)) n.

(* printf("%0*lu", w, n) *)
Definition fmt (w : nat) (n : N) : bytes := repeat 48 (w - ndigits n)%nat ++ digits n.

(* value of a digit string (no overflow: N) *)
Definition dval (acc : N) (d : N) : N := 10 * acc + (d - 48).
Definition value (ds : bytes) : N := fold_left dval ds 0.
