(* Facts about interleavings (C06): every component of an interleaving appears in the
   result as a subsequence, i.e. in its own order and with nothing of it lost. *)
From Coq Require Import List.
Import ListNotations.
From PV Require Import Base.Shuffle.

Lemma nth_error_replace_same {A} (l : list A) : forall i x y,
  nth_error l i = Some y -> nth_error (replace_nth l i x) i = Some x.
Proof.
  induction l as [|h t IH]; intros [|i] x y; cbn; try discriminate; auto.
  apply IH.
Qed.

Lemma nth_error_replace_other {A} (l : list A) : forall i j x,
  i <> j -> nth_error (replace_nth l i x) j = nth_error l j.
Proof.
  induction l as [|h t IH]; intros [|i] [|j] x H; cbn; auto; try congruence.
Qed.

Lemma interleaving_keeps_order : forall (A : Type) (hs : list (list A)) (g : list A),
  interleaving hs g -> forall i h, nth_error hs i = Some h -> subsequence h g.
Proof.
  intros A hs g H. induction H as [hs F|hs i0 x h0 g E H IH]; intros i h Hi.
  - rewrite Forall_forall in F. apply nth_error_In in Hi. apply F in Hi. subst. constructor.
  - destruct (PeanoNat.Nat.eq_dec i0 i) as [->|Hne].
    + rewrite E in Hi. injection Hi as <-. apply ss_take. apply (IH i).
      eapply nth_error_replace_same; eauto.
    + apply ss_skip. apply (IH i). rewrite nth_error_replace_other; auto.
Qed.
