(* Byte strings as lists of N (each < 256 where it matters).
   Character classes are linear arithmetic, so [lia] handles them. *)
From Coq Require Export List NArith ZArith Bool Lia Arith ZifyBool ZifyN ZifyNat.
Export ListNotations.
Ltac Zify.zify_post_hook ::= Z.div_mod_to_equations.
Local Open Scope N_scope.

Definition byte := N.
Definition bytes := list N.

Definition c_tab : N := 9.
Definition c_nl : N := 10.
Definition c_sp : N := 32.
Definition c_hash : N := 35.
Definition c_pct : N := 37.
Definition c_plus : N := 43.
Definition c_comma : N := 44.
Definition c_dash : N := 45.
Definition c_dot : N := 46.
Definition c_slash : N := 47.
Definition c_0 : N := 48.
Definition c_9 : N := 57.
Definition c_colon : N := 58.
Definition c_at : N := 64.
Definition c_lbr : N := 91.
Definition c_rbr : N := 93.
Definition c_caret : N := 94.

Definition is_digit (b : N) : bool := (48 <=? b) && (b <=? 57).
(* C isspace in the "C" locale: \t \n \v \f \r and blank *)
Definition is_space (b : N) : bool := ((9 <=? b) && (b <=? 13)) || (b =? 32).

Fixpoint beq (a b : bytes) : bool :=
  match a, b with
  | [], [] => true
  | x :: a', y :: b' => (x =? y) && beq a' b'
  | _, _ => false
  end.

Lemma beq_eq a b : beq a b = true <-> a = b.
Proof.
  revert b; induction a as [|x a IH]; intros [|y b]; cbn [beq]; split; intro H;
    try discriminate; try reflexivity.
  - apply andb_true_iff in H as [H1 H2]. apply N.eqb_eq in H1. apply IH in H2. congruence.
  - inversion H; subst. rewrite N.eqb_refl. cbn. apply IH. reflexivity.
Qed.

Lemma beq_refl a : beq a a = true.
Proof. apply beq_eq. reflexivity. Qed.

Lemma beq_neq a b : beq a b = false <-> a <> b.
Proof.
  split; intro H.
  - intro E. apply beq_eq in E. congruence.
  - destruct (beq a b) eqn:E; auto. apply beq_eq in E. contradiction.
Qed.

Definition mem (x : N) (l : bytes) : bool := existsb (N.eqb x) l.

Lemma mem_In x l : mem x l = true <-> In x l.
Proof.
  unfold mem. rewrite existsb_exists. split.
  - intros (y & Hy & E). apply N.eqb_eq in E. subst; auto.
  - intro H. exists x. split; auto. apply N.eqb_refl.
Qed.

(* position of the first occurrence of c (C strchr), None when absent *)
Fixpoint index_of (c : N) (s : bytes) : option nat :=
  match s with
  | [] => None
  | x :: r => if x =? c then Some O
              else match index_of c r with Some k => Some (S k) | None => None end
  end.

(* split at the first occurrence of c: (before, Some after) or (all, None) *)
Fixpoint split_at (c : N) (s : bytes) : bytes * option bytes :=
  match s with
  | [] => ([], None)
  | x :: r => if x =? c then ([], Some r)
              else let '(a, b) := split_at c r in (x :: a, b)
  end.

Lemma split_at_none c s : ~ In c s -> split_at c s = (s, None).
Proof.
  induction s as [|x r IH]; cbn [split_at]; intro H; auto.
  destruct (x =? c) eqn:E.
  - apply N.eqb_eq in E. subst. exfalso. apply H. left; auto.
  - rewrite IH; auto. intro; apply H; right; auto.
Qed.

Lemma split_at_app c a b : ~ In c a -> split_at c (a ++ c :: b) = (a, Some b).
Proof.
  induction a as [|x r IH]; cbn [split_at app]; intro H.
  - rewrite N.eqb_refl. reflexivity.
  - destruct (x =? c) eqn:E.
    + apply N.eqb_eq in E. subst. exfalso. apply H. left; auto.
    + rewrite IH; auto. intro; apply H; right; auto.
Qed.

(* split on every occurrence of c; always at least one piece (C's strchr loop) *)
Fixpoint split_all (c : N) (s : bytes) : list bytes :=
  match s with
  | [] => [[]]
  | x :: r => if x =? c then [] :: split_all c r
              else match split_all c r with
                   | p :: ps => (x :: p) :: ps
                   | [] => [[x]]
                   end
  end.

Fixpoint join (c : N) (l : list bytes) : bytes :=
  match l with
  | [] => []
  | [a] => a
  | a :: r => a ++ c :: join c r
  end.

Lemma split_all_nonempty c s : split_all c s <> [].
Proof. induction s as [|x r IH]; cbn [split_all]; [discriminate|].
  destruct (x =? c); [discriminate|]. destruct (split_all c r); discriminate. Qed.

Lemma split_all_plain c a : ~ In c a -> split_all c a = [a].
Proof.
  induction a as [|x r IH]; cbn [split_all]; intro H; auto.
  destruct (x =? c) eqn:E.
  - apply N.eqb_eq in E; subst. exfalso; apply H; left; auto.
  - rewrite IH; auto. intro; apply H; right; auto.
Qed.

Lemma split_all_app c a s : ~ In c a -> split_all c (a ++ c :: s) = a :: split_all c s.
Proof.
  induction a as [|x r IH]; cbn [split_all app]; intro H.
  - rewrite N.eqb_refl. reflexivity.
  - destruct (x =? c) eqn:E.
    + apply N.eqb_eq in E; subst. exfalso; apply H; left; auto.
    + rewrite IH; auto. intro; apply H; right; auto.
Qed.

Lemma split_all_join c l : l <> [] -> (forall a, In a l -> ~ In c a) -> split_all c (join c l) = l.
Proof.
  induction l as [|a r IH]; intros Hne H; [congruence|].
  destruct r as [|b r'].
  - cbn [join]. apply split_all_plain. apply H. left; auto.
  - change (join c (a :: b :: r')) with (a ++ c :: join c (b :: r')).
    rewrite split_all_app by (apply H; left; auto). f_equal.
    apply IH; [discriminate|]. intros x Hx. apply H. right; auto.
Qed.

Definition all_bytes (p : N -> bool) (s : bytes) : bool := forallb p s.

Fixpoint take_while (p : N -> bool) (s : bytes) : bytes :=
  match s with [] => [] | x :: r => if p x then x :: take_while p r else [] end.
Fixpoint drop_while (p : N -> bool) (s : bytes) : bytes :=
  match s with [] => [] | x :: r => if p x then drop_while p r else s end.

Lemma take_drop_while p s : take_while p s ++ drop_while p s = s.
Proof. induction s as [|x r IH]; cbn; auto. destruct (p x); cbn; congruence. Qed.

Lemma take_while_app_stop p a x r :
  forallb p a = true -> p x = false -> take_while p (a ++ x :: r) = a.
Proof. induction a as [|y a IH]; cbn; intros Ha Hx; [now rewrite Hx|].
  apply andb_true_iff in Ha as [Hy Ha]. rewrite Hy. f_equal. auto. Qed.
Lemma drop_while_app_stop p a x r :
  forallb p a = true -> p x = false -> drop_while p (a ++ x :: r) = x :: r.
Proof. induction a as [|y a IH]; cbn; intros Ha Hx; [now rewrite Hx|].
  apply andb_true_iff in Ha as [Hy Ha]. rewrite Hy. auto. Qed.
Lemma take_while_all p a : forallb p a = true -> take_while p a = a.
Proof. induction a as [|y a IH]; cbn; intros Ha; auto.
  apply andb_true_iff in Ha as [Hy Ha]. rewrite Hy. f_equal; auto. Qed.
Lemma drop_while_all p a : forallb p a = true -> drop_while p a = [].
Proof. induction a as [|y a IH]; cbn; intros Ha; auto.
  apply andb_true_iff in Ha as [Hy Ha]. rewrite Hy. auto. Qed.

(* last-n elements *)
Definition lastn {A} (n : nat) (l : list A) : list A := skipn (length l - n) l.

Fixpoint is_prefix (p s : bytes) : bool :=
  match p, s with
  | [], _ => true
  | x :: p', y :: s' => (x =? y) && is_prefix p' s'
  | _ :: _, [] => false
  end.

Lemma is_prefix_app p s : is_prefix p (p ++ s) = true.
Proof. induction p; cbn; auto. rewrite N.eqb_refl; auto. Qed.

Lemma is_prefix_spec p s : is_prefix p s = true <-> exists r, s = p ++ r.
Proof.
  revert s; induction p as [|x p IH]; intros s; cbn [is_prefix].
  - split; [intros _; exists s; reflexivity | reflexivity].
  - destruct s as [|y s]; [split; [discriminate|intros (r & H); discriminate]|].
    rewrite andb_true_iff, N.eqb_eq, IH. split.
    + intros (-> & r & ->). exists r; auto.
    + intros (r & H). inversion H; subst. split; eauto.
Qed.
