(* C16 proofs: the editing model (HLEdit.v) refines the plain-list specification (HLEditSpec.v).
   abs = expand for the range array, cursor = names before the iterator's range + depth + 1. *)
From Coq Require Import ZifyBool ZifyNat ZifyN.
From PV Require Import Base.DecimalFacts Hostlist.HLFacts Hostlist.HLSpec Hostlist.HLParseFacts Hostlist.HLLimits.
From PV Require Export Hostlist.HLEditSpec.
Local Open Scope nat_scope.

(* ====================================================================== *)
(* 0. plain lists                                                          *)
(* ====================================================================== *)

Lemma remove_nth_spec {A} p (l : list A) : remove_nth p l = firstn p l ++ skipn (S p) l.
Proof. revert p; induction l as [|a l IH]; intros p.
  - destruct p; reflexivity.
  - destruct p; cbn [remove_nth firstn skipn app]; [reflexivity|]. f_equal. apply IH. Qed.

Lemma remove_nth_app_l {A} p (a b : list A) : p < length a -> remove_nth p (a ++ b) = remove_nth p a ++ b.
Proof. revert p; induction a as [|x a IH]; intros p H; cbn [length] in H; [lia|].
  destruct p; cbn [remove_nth app]; auto. f_equal. apply IH. lia. Qed.

Lemma remove_nth_app_r {A} p (a b : list A) : remove_nth (length a + p) (a ++ b) = a ++ remove_nth p b.
Proof. induction a as [|x a IH]; cbn [length app Nat.add remove_nth]; auto. f_equal; auto. Qed.

Lemma remove_nth_length {A} p (l : list A) : p < length l -> length (remove_nth p l) = length l - 1.
Proof. revert p; induction l as [|a l IH]; intros p H; cbn [length] in *; [lia|].
  destruct p; cbn [remove_nth length]; [lia|]. rewrite IH by lia. lia. Qed.

Lemma remove_nth_last {A} (l : list A) x : remove_nth (length l) (l ++ [x]) = l.
Proof. rewrite <- (Nat.add_0_r (length l)), remove_nth_app_r. cbn. apply app_nil_r. Qed.

Lemma nth_error_app_l' {A} (a b : list A) k : k < length a -> nth_error (a ++ b) k = nth_error a k.
Proof. intros; apply nth_error_app1; auto. Qed.
Lemma nth_error_app_r' {A} (a b : list A) k : nth_error (a ++ b) (length a + k) = nth_error b k.
Proof. rewrite nth_error_app2 by lia. f_equal. lia. Qed.

Lemma nth_error_split' {A} (l : list A) k x : nth_error l k = Some x ->
  exists l1 l2, l = l1 ++ x :: l2 /\ length l1 = k.
Proof. intros H. apply nth_error_split in H. exact H. Qed.

Lemma nth_last_split {A} (l : list A) x : nth_error l (length l - 1) = Some x -> exists a, l = a ++ [x].
Proof. intros H. destruct (nth_error_split' _ _ _ H) as (a & b & Ea & Hla). exists a.
  assert (Hlen : length l = length a + 1 + length b) by (rewrite Ea, app_length; cbn [length]; lia).
  destruct b; [exact Ea|cbn [length] in Hlen; lia]. Qed.

Lemma expand_cons r l : expand (r :: l) = range_hosts r ++ expand l.
Proof. reflexivity. Qed.
Lemma expand_app a b : expand (a ++ b) = expand a ++ expand b.
Proof. unfold expand. apply flat_map_app. Qed.

(* ====================================================================== *)
(* 1. ranges: length, names, what removing one host does                    *)
(* ====================================================================== *)

Definition cnt (r : hr) : nat := length (range_hosts r).

Lemma INT_MAX_val : INT_MAX = 2147483647%Z. Proof. reflexivity. Qed.

Lemma to_int_small z : (-2147483648 <= z <= 2147483647)%Z -> to_int z = z.
Proof. intros H. unfold to_int. lia. Qed.

Lemma to_ulong_small z : (0 <= z)%Z -> (z < Z.of_N ULONG)%Z -> to_ulong z = Z.to_N z.
Proof. intros H1 H2. unfold to_ulong. rewrite Z.mod_small by lia. reflexivity. Qed.

Lemma ok2_ok r : hr_ok2 r -> hr_ok r. Proof. intros [H _]; exact H. Qed.

Lemma cnt_count r : hr_ok r -> hr_count r = N.of_nat (cnt r).
Proof. intros H. symmetry. apply range_hosts_length; auto. Qed.

Lemma cnt_pos r : hr_ok r -> 1 <= cnt r.
Proof. intros H. unfold cnt, range_hosts, hr_ok in *. destruct (single r); cbn [length]; [lia|].
  rewrite map_length, count_up_length. lia. Qed.

Lemma cnt_single r : hr_ok r -> single r = true -> cnt r = 1.
Proof. intros _ H. unfold cnt, range_hosts. rewrite H. reflexivity. Qed.

Lemma cnt_range r : hr_ok r -> single r = false -> N.of_nat (cnt r) = (hi r + 1 - lo r)%N.
Proof. intros H Hs. unfold cnt, range_hosts, hr_ok in *. rewrite Hs in *.
  rewrite map_length, count_up_length. lia. Qed.

Lemma NUM_LIMIT_val : NUM_LIMIT = 1000000000000000%N. Proof. reflexivity. Qed.
Lemma ULONG_val : ULONG = 18446744073709551616%N. Proof. reflexivity. Qed.

Lemma count_int_cnt r : hr_ok r -> (Z.of_nat (cnt r) <= INT_MAX)%Z -> count_int r = Z.of_nat (cnt r).
Proof. intros H Hb. unfold count_int. rewrite (cnt_count r H). rewrite INT_MAX_val in Hb.
  rewrite to_int_small; lia. Qed.

Lemma count_up_nth k from j : j < k -> nth_error (count_up k from) j = Some (from + N.of_nat j)%N.
Proof. revert from j; induction k as [|k IH]; intros from j H; [lia|].
  destruct j; cbn [count_up nth_error]; [f_equal; lia|]. rewrite IH by lia. f_equal. lia. Qed.

(* the name at offset d of a range, as hostlist_next / hostlist_nth print it *)
Lemma range_nth r d : hr_ok r -> d < cnt r -> nth_error (range_hosts r) d = Some (host_at r (N.of_nat d)).
Proof.
  intros H Hd. rewrite (range_hosts_host_at r H). rewrite (cnt_count r H), Nat2N.id.
  rewrite nth_error_map. rewrite count_up_nth by exact Hd. reflexivity.
Qed.

Lemma expand_nth l1 r l2 d : d < cnt r ->
  nth_error (expand (l1 ++ r :: l2)) (length (expand l1) + d) = nth_error (range_hosts r) d.
Proof. intros H. rewrite expand_app, expand_cons, nth_error_app_r', nth_error_app_l' by exact H. reflexivity. Qed.

(* names of a numbered range as a function of its bounds *)
Definition nnames (p : bytes) (w : nat) (a : N) (k : nat) : list bytes :=
  map (fun n => p ++ fmt w n) (count_up k a).

Lemma range_hosts_nnames r : single r = false ->
  range_hosts r = nnames (pfx r) (wid r) (lo r) (N.to_nat (hi r + 1 - lo r)).
Proof. intros H. unfold range_hosts, nnames. rewrite H. reflexivity. Qed.

Lemma nnames_app p w a k1 k2 : nnames p w a (k1 + k2) = nnames p w a k1 ++ nnames p w (a + N.of_nat k1)%N k2.
Proof. unfold nnames. rewrite count_up_app, map_app. reflexivity. Qed.
Lemma nnames_length p w a k : length (nnames p w a k) = k.
Proof. unfold nnames. rewrite map_length, count_up_length. reflexivity. Qed.

Lemma nnames_remove p w a k j : j < k ->
  remove_nth j (nnames p w a k) = nnames p w a j ++ nnames p w (a + N.of_nat j + 1)%N (k - j - 1).
Proof.
  intros H. replace k with (j + (1 + (k - j - 1))) at 1 by lia.
  rewrite nnames_app, nnames_app.
  rewrite <- (nnames_length p w a j) at 1. rewrite <- (Nat.add_0_r (length (nnames p w a j))), remove_nth_app_r.
  cbn [nnames count_up map app remove_nth]. reflexivity.
Qed.

(* ---------- hostrange_delete_host: the three shapes of removing offset `off' ---------- *)
Definition del_num (r : hr) (off : nat) : N := wrap (lo r + to_ulong (Z.of_nat off)).

Lemma del_num_range r off : hr_ok2 r -> single r = false -> off < cnt r -> del_num r off = (lo r + N.of_nat off)%N.
Proof.
  intros [Hok Hlim] Hs Hoff. pose proof (cnt_range r Hok Hs) as Hc. unfold hr_ok in Hok. rewrite Hs in Hok.
  unfold del_num. rewrite NUM_LIMIT_val in Hlim. rewrite to_ulong_small by (rewrite ?ULONG_val; lia).
  unfold wrap. rewrite N.mod_small by (rewrite ULONG_val; lia). lia.
Qed.

Lemma set_lo_hosts r a : single r = false ->
  range_hosts (set_lo r a) = nnames (pfx r) (wid r) a (N.to_nat (hi r + 1 - a)).
Proof. intros H. unfold range_hosts, set_lo, nnames. cbn [single pfx wid lo hi]. rewrite H. reflexivity. Qed.
Lemma set_hi_hosts r b : single r = false ->
  range_hosts (set_hi r b) = nnames (pfx r) (wid r) (lo r) (N.to_nat (b + 1 - lo r)).
Proof. intros H. unfold range_hosts, set_hi, nnames. cbn [single pfx wid lo hi]. rewrite H. reflexivity. Qed.

Lemma delete_host_shapes r off : hr_ok2 r -> off < cnt r ->
  (cnt r = 1 /\ off = 0 /\ exists r', hostrange_delete_host r (del_num r off) = (r', None) /\ hostrange_empty r' = true) \/
  (2 <= cnt r /\ (off = 0 \/ off = cnt r - 1) /\ exists r', hostrange_delete_host r (del_num r off) = (r', None) /\
     hostrange_empty r' = false /\ hr_ok2 r' /\ range_hosts r' = remove_nth off (range_hosts r)) \/
  (0 < off /\ off < cnt r - 1 /\ exists ra rb, hostrange_delete_host r (del_num r off) = (ra, Some rb) /\
     hostrange_copy rb = rb /\ hr_ok2 ra /\ hr_ok2 rb /\ cnt ra = off /\
     range_hosts ra ++ range_hosts rb = remove_nth off (range_hosts r)).
Proof.
  intros Hr Hoff. destruct (single r) eqn:Hs.
  - (* a single host *)
    left. pose proof (cnt_single r (ok2_ok r Hr) Hs) as Hc. destruct Hr as [Hok Hlim]. unfold hr_ok in Hok. rewrite Hs in Hok.
    destruct Hok as [Hlo Hhi]. split; [exact Hc|]. split; [lia|].
    assert (off = 0) as -> by lia. unfold del_num, hostrange_delete_host. rewrite Hlo. cbn.
    eexists. split; [reflexivity|]. unfold hostrange_empty, set_lo. cbn [hi lo]. rewrite Hhi. reflexivity.
  - pose proof (del_num_range r off Hr Hs Hoff) as Hn. rewrite Hn.
    pose proof (cnt_range r (ok2_ok r Hr) Hs) as Hc. destruct Hr as [Hok Hlim]. unfold hr_ok in Hok. rewrite Hs in Hok.
    destruct Hok as [Hlh Hhi]. rewrite NUM_LIMIT_val in Hlim. pose proof ULONG_val as HU.
    unfold hostrange_delete_host.
    destruct (N.eqb_spec (lo r + N.of_nat off) (lo r)) as [E1|E1].
    + (* first host *)
      assert (off = 0) as -> by lia. unfold wrap. rewrite N.mod_small by lia.
      destruct (Nat.eq_dec (cnt r) 1) as [C1|C1].
      * left. split; [exact C1|]. split; [reflexivity|]. eexists. split; [reflexivity|].
        unfold hostrange_empty, set_lo. cbn [hi lo]. assert ((hi r <? lo r + 1)%N = true) as -> by lia. reflexivity.
      * right; left. split; [lia|]. split; [left; reflexivity|]. eexists. split; [reflexivity|].
        split; [unfold hostrange_empty, set_lo; cbn [hi lo]; lia|].
        split; [split; [unfold hr_ok, set_lo; cbn [single lo hi]; rewrite Hs; lia|unfold set_lo; cbn [hi]; rewrite NUM_LIMIT_val; lia]|].
        rewrite set_lo_hosts by exact Hs. rewrite (range_hosts_nnames r Hs).
        rewrite nnames_remove by lia. cbn [nnames count_up map app]. f_equal; lia.
    + destruct (N.eqb_spec (lo r + N.of_nat off) (hi r)) as [E2|E2].
      * (* last host of at least two *)
        right; left. split; [lia|]. split; [right; lia|]. eexists. split; [reflexivity|].
        assert (Hu : usub (hi r) 1 = (hi r - 1)%N) by (apply usub_le; lia).
        rewrite Hu.
        split; [unfold hostrange_empty, set_hi; cbn [hi lo]; lia|].
        split; [split; [unfold hr_ok, set_hi; cbn [single lo hi]; rewrite Hs; lia|unfold set_hi; cbn [hi]; rewrite NUM_LIMIT_val; lia]|].
        rewrite set_hi_hosts by exact Hs. rewrite (range_hosts_nnames r Hs).
        rewrite nnames_remove by lia.
        replace (N.to_nat (hi r + 1 - lo r) - off - 1) with 0 by lia. cbn [nnames count_up map]. rewrite app_nil_r. f_equal. lia.
      * (* split *)
        right; right. split; [lia|]. split; [lia|].
        assert (Hu : usub (lo r + N.of_nat off) 1 = (lo r + N.of_nat off - 1)%N) by (apply usub_le; lia).
        unfold wrap. rewrite N.mod_small by lia. rewrite Hu.
        assert (Hcopy : hostrange_copy r = r) by (unfold hostrange_copy; rewrite Hs; reflexivity).
        rewrite Hcopy. eexists _, _. split; [reflexivity|].
        split; [unfold hostrange_copy, set_lo; cbn [single]; rewrite Hs; reflexivity|].
        split; [split; [unfold hr_ok, set_hi; cbn [single lo hi]; rewrite Hs; lia|unfold set_hi; cbn [hi]; rewrite NUM_LIMIT_val; lia]|].
        split; [split; [unfold hr_ok, set_lo; cbn [single lo hi]; rewrite Hs; lia|unfold set_lo; cbn [hi]; rewrite NUM_LIMIT_val; lia]|].
        split; [unfold cnt; rewrite set_hi_hosts by exact Hs; rewrite nnames_length; lia|].
        rewrite set_hi_hosts, set_lo_hosts by exact Hs. rewrite (range_hosts_nnames r Hs).
        rewrite nnames_remove by lia. f_equal; f_equal; lia.
Qed.

(* ====================================================================== *)
(* 2. cursors                                                              *)
(* ====================================================================== *)

(* names in front of range k *)
Definition pre (l : list hr) (k : nat) : nat := length (expand (firstn k l)).
Definition cursor (l : list hr) (it : iter) : nat :=
  pre l (Z.to_nat (it_idx it)) + Z.to_nat (it_depth it + 1).

Definition iter_wf (l : list hr) (it : iter) : Prop :=
  (0 <= it_idx it)%Z /\ (-1 <= it_depth it)%Z /\
  match nth_error l (Z.to_nat (it_idx it)) with
  | Some r => (it_depth it < Z.of_nat (cnt r))%Z
  | None => l = [] /\ it_idx it = 0%Z /\ it_depth it = (-1)%Z /\ it_hr it = false
  end.

(* the iterator of the model and the iterator of the plain list agree *)
Definition iter_rel (l : list hr) (it : iter) (si : siter) : Prop :=
  si_pos si = cursor l it /\ (si_cur si = true -> (0 <= it_depth it)%Z /\ it_hr it = true).
Definition iter_ok (l : list hr) (it : iter) (si : siter) : Prop := iter_wf l it /\ iter_rel l it si.

Lemma pre_0 l : pre l 0 = 0. Proof. reflexivity. Qed.
Lemma pre_app1 a b k : k <= length a -> pre (a ++ b) k = pre a k.
Proof. intros H. unfold pre. rewrite firstn_app. replace (k - length a) with 0 by lia. cbn [firstn]. rewrite app_nil_r. reflexivity. Qed.
Lemma pre_app2 a b k : pre (a ++ b) (length a + k) = length (expand a) + pre b k.
Proof. unfold pre. rewrite firstn_app. replace (length a + k - length a) with k by lia.
  rewrite firstn_all2 by lia. rewrite expand_app, app_length. reflexivity. Qed.
Lemma pre_cons r l k : pre (r :: l) (S k) = cnt r + pre l k.
Proof. unfold pre. cbn [firstn]. rewrite expand_cons, app_length. reflexivity. Qed.
Lemma pre_all l : pre l (length l) = length (expand l).
Proof. unfold pre. rewrite firstn_all. reflexivity. Qed.
Lemma pre_le l k : pre l k <= length (expand l).
Proof. unfold pre. rewrite <- (firstn_skipn k l) at 2. rewrite expand_app, app_length. lia. Qed.
Lemma pre_nth l k r : nth_error l k = Some r -> pre l k + cnt r <= length (expand l).
Proof. intros H. apply nth_error_split' in H as (l1 & l2 & -> & <-).
  rewrite <- (Nat.add_0_r (length l1)), pre_app2, pre_0, expand_app, expand_cons, !app_length. unfold cnt. lia. Qed.

Lemma load_true l k : (0 <= k)%Z -> Z.to_nat k < length l -> load l k = true.
Proof. intros H1 H2. unfold load, zlen. lia. Qed.

(* where an iterator stands relative to range i = length l1 of l1 ++ r :: l2 *)
Lemma iter_place l1 r l2 it : iter_wf (l1 ++ r :: l2) it ->
  (Z.to_nat (it_idx it) < length l1 /\ exists r0, nth_error l1 (Z.to_nat (it_idx it)) = Some r0 /\ (it_depth it < Z.of_nat (cnt r0))%Z) \/
  (Z.to_nat (it_idx it) = length l1 /\ (it_depth it < Z.of_nat (cnt r))%Z) \/
  (exists j rj, Z.to_nat (it_idx it) = length l1 + 1 + j /\ nth_error l2 j = Some rj /\ (it_depth it < Z.of_nat (cnt rj))%Z).
Proof.
  intros (H0 & H1 & H2). set (k := Z.to_nat (it_idx it)) in *.
  destruct (lt_eq_lt_dec k (length l1)) as [[Hk|Hk]|Hk].
  - left. split; [exact Hk|]. rewrite nth_error_app_l' in H2 by exact Hk.
    destruct (nth_error l1 k) as [r0|] eqn:E; [eauto|]. apply nth_error_None in E. lia.
  - right; left. split; [exact Hk|]. rewrite Hk, <- (Nat.add_0_r (length l1)), nth_error_app_r' in H2. exact H2.
  - right; right. exists (k - length l1 - 1). replace k with (length l1 + S (k - length l1 - 1)) in H2 by lia.
    rewrite nth_error_app_r' in H2. cbn [nth_error] in H2.
    destruct (nth_error l2 (k - length l1 - 1)) as [rj|] eqn:E.
    + exists rj. split; [lia|]. split; [reflexivity|exact H2].
    + destruct H2 as [H2 _]. destruct l1; discriminate.
Qed.

Ltac brk := repeat match goal with
  | |- context [if ?b then _ else _] => let E := fresh "E" in destruct b eqn:E
  end.

Ltac fin Hcur := let Hc1 := fresh "Hc" in let Hc2 := fresh "Hc" in
  intros Hc1; try (apply andb_true_iff in Hc1 as [Hc1 Hc2]); specialize (Hcur Hc1);
  first [lia | split; [lia|reflexivity] | split; [lia|tauto] | tauto].

(* ---------- M4: the whole range i leaves the array ---------- *)
Definition enddepth (l' : list hr) (n : nat) : Z :=
  match n with
  | O => (-1)%Z
  | S p => match nth_error l' p with
           | Some r => to_int (Z.of_N (hr_count r) - 1)
           | None => (-1)%Z
           end
  end.
Definition rebase_deleted (l' : list hr) (n : nat) (it : iter) : iter :=
  shift_iterator l' (Z.of_nat n) 0 1
    (if (it_idx it =? Z.of_nat n)%Z then mkit (it_idx it) (enddepth l' n) (it_hr it) else it).

Lemma delete_range_eq s n :
  delete_range s n = mkst (firstn n (st_ranges s) ++ skipn (S n) (st_ranges s)) (st_nhosts s)
                          (map_iters (rebase_deleted (firstn n (st_ranges s) ++ skipn (S n) (st_ranges s)) n) (st_iters s)).
Proof. unfold delete_range, rebase_deleted, enddepth. destruct n; reflexivity. Qed.

Ltac rbd := unfold rebase_deleted;
  match goal with |- context [(it_idx ?it =? ?n)%Z] => let Ei := fresh "Ei" in destruct (it_idx it =? n)%Z eqn:Ei end;
  unfold shift_iterator; brk; cbn [it_idx it_depth it_hr] in *; try lia; reflexivity.

Lemma rebase_M4 l1 r l2 it si :
  Forall hr_ok (l1 ++ r :: l2) -> (Z.of_nat (length (expand (l1 ++ r :: l2))) <= INT_MAX)%Z ->
  cnt r = 1 -> iter_ok (l1 ++ r :: l2) it si ->
  iter_ok (l1 ++ l2) (rebase_deleted (l1 ++ l2) (length l1) it) (si_removed (length (expand l1)) si).
Proof.
  intros Hok Hb Hc [Hwf [Hpos Hcur]].
  assert (Hok1 : Forall hr_ok l1) by (apply Forall_app in Hok; tauto).
  pose proof Hwf as (H0 & H1 & _).
  rewrite expand_app, expand_cons, !app_length in Hb. fold (cnt r) in Hb.
  destruct (iter_place _ _ _ _ Hwf) as [(Hk & r0 & Er0 & Hd)|[(Hk & Hd)|(j & rj & Hk & Erj & Hd)]].
  - (* in front: untouched *)
    assert (E : rebase_deleted (l1 ++ l2) (length l1) it = it).
    { rbd. }
    rewrite E.
    assert (Hcu : cursor (l1 ++ l2) it = cursor (l1 ++ r :: l2) it).
    { unfold cursor. rewrite !pre_app1 by lia. reflexivity. }
    assert (Hle : cursor (l1 ++ r :: l2) it <= length (expand l1)).
    { unfold cursor. rewrite pre_app1 by lia. pose proof (pre_nth _ _ _ Er0). lia. }
    split.
    + split; [exact H0|]. split; [exact H1|]. rewrite nth_error_app_l', Er0 by exact Hk. exact Hd.
    + unfold si_removed. rewrite Hpos. brk; try lia. split; [rewrite Hcu; exact Hpos|exact Hcur].
  - (* inside the deleted range *)
    assert (Hcu : cursor (l1 ++ r :: l2) it = length (expand l1) + Z.to_nat (it_depth it + 1)).
    { unfold cursor. rewrite Hk, <- (Nat.add_0_r (length l1)), pre_app2, pre_0. lia. }
    destruct l1 as [|x l1'] eqn:El1.
    + (* first range: reset *)
      assert (E : rebase_deleted ([] ++ l2) (length (@nil hr)) it = it_reset ([] ++ l2)).
      { cbn [length] in *. rbd. }
      rewrite E. cbn [app length expand flat_map] in *. split.
      * unfold iter_wf, it_reset. cbn [it_idx it_depth it_hr Z.to_nat]. split; [lia|]. split; [lia|].
        destruct l2 as [|y l2']; cbn [nth_error]; [unfold load, zlen; cbn; tauto|]. lia.
      * unfold si_removed, iter_rel, cursor, it_reset. cbn [it_idx it_depth it_hr Z.to_nat]. rewrite pre_0.
        brk; cbn [si_pos si_cur]; (split; [lia|fin Hcur]).
    + (* goes to the end of the previous range *)
      rewrite <- El1 in *. assert (Hl1 : 1 <= length l1) by (rewrite El1; cbn; lia).
      destruct (nth_error l1 (length l1 - 1)) as [rp|] eqn:Erp; [|apply nth_error_None in Erp; lia].
      assert (Hrp : hr_ok rp). { rewrite Forall_forall in Hok1. apply Hok1. eapply nth_error_In; eauto. }
      pose proof (pre_nth _ _ _ Erp) as Hpn.
      assert (Hed : enddepth (l1 ++ l2) (length l1) = (Z.of_nat (cnt rp) - 1)%Z).
      { unfold enddepth. destruct (length l1) as [|n1] eqn:En1; [lia|].
        replace (S n1 - 1) with n1 in Erp by lia. rewrite nth_error_app_l' by lia. rewrite Erp.
        rewrite (cnt_count rp Hrp). rewrite INT_MAX_val in Hb. rewrite to_int_small; lia. }
      assert (E : rebase_deleted (l1 ++ l2) (length l1) it =
                  mkit (it_idx it - 1) (Z.of_nat (cnt rp) - 1) (load (l1 ++ l2) (it_idx it - 1))).
      { rewrite <- Hed. rbd. }
      rewrite E. pose proof (cnt_pos rp Hrp).
      assert (Hpre : pre (l1 ++ l2) (length l1 - 1) + cnt rp = length (expand l1)).
      { rewrite pre_app1 by lia. destruct (nth_last_split _ _ Erp) as (a & Ea). rewrite Ea.
        rewrite app_length. cbn [length]. replace (length a + 1 - 1) with (length a) by lia.
        rewrite pre_app1 by lia. rewrite pre_all, expand_app, app_length. cbn [expand flat_map]. rewrite app_nil_r. reflexivity. }
      split.
      * unfold iter_wf. cbn [it_idx it_depth it_hr]. split; [lia|]. split; [lia|].
        replace (Z.to_nat (it_idx it - 1)) with (length l1 - 1) by lia.
        rewrite nth_error_app_l', Erp by lia. lia.
      * unfold si_removed, iter_rel, cursor. cbn [it_idx it_depth it_hr].
        replace (Z.to_nat (it_idx it - 1)) with (length l1 - 1) by lia.
        rewrite load_true by (rewrite ?app_length; lia).
        brk; cbn [si_pos si_cur]; (split; [lia|fin Hcur]).
  - (* behind: one slot down *)
    assert (Hrj : hr_ok rj). { rewrite Forall_forall in Hok. apply Hok. apply in_or_app. right. right. eapply nth_error_In; eauto. }
    assert (E : rebase_deleted (l1 ++ l2) (length l1) it = mkit (it_idx it - 1) (it_depth it) (load (l1 ++ l2) (it_idx it - 1))).
    { rbd. }
    rewrite E.
    assert (Hcu : cursor (l1 ++ r :: l2) it = length (expand l1) + 1 + pre l2 j + Z.to_nat (it_depth it + 1)).
    { unfold cursor. rewrite Hk. replace (length l1 + 1 + j) with (length l1 + S j) by lia.
      rewrite pre_app2, pre_cons. lia. }
    assert (Hidx : Z.to_nat (it_idx it - 1) = length l1 + j) by lia.
    split.
    + unfold iter_wf. cbn [it_idx it_depth it_hr]. split; [lia|]. split; [lia|].
      rewrite Hidx, nth_error_app_r', Erj. exact Hd.
    + unfold si_removed, iter_rel, cursor. cbn [it_idx it_depth it_hr]. rewrite Hidx, pre_app2.
      assert (Hlt : length l1 + j < length (l1 ++ l2)).
      { rewrite app_length. apply nth_error_Some_lt in Erj || (assert (j < length l2) by (apply nth_error_Some; congruence)); lia. }
      rewrite load_true by lia.
      brk; cbn [si_pos si_cur]; (split; [lia|fin Hcur]).
Qed.

(* ---------- M1 / M2: range i loses the host at offset off and stays ---------- *)
Lemma rebase_inplace l1 r r' l2 off it si :
  Forall hr_ok (l1 ++ r :: l2) -> off < cnt r -> cnt r' = cnt r - 1 -> 2 <= cnt r ->
  iter_ok (l1 ++ r :: l2) it si ->
  iter_ok (l1 ++ r' :: l2) (shift_iterator (l1 ++ r' :: l2) (Z.of_nat (length l1)) (Z.of_nat off) 0 it)
          (si_removed (length (expand l1) + off) si).
Proof.
  intros Hok Hoff Hc' Hc2 [Hwf [Hpos Hcur]].
  pose proof Hwf as (H0 & H1 & _).
  destruct (iter_place _ _ _ _ Hwf) as [(Hk & r0 & Er0 & Hd)|[(Hk & Hd)|(j & rj & Hk & Erj & Hd)]].
  - assert (E : shift_iterator (l1 ++ r' :: l2) (Z.of_nat (length l1)) (Z.of_nat off) 0 it = it).
    { unfold shift_iterator. brk; cbn [it_idx it_depth it_hr] in *; try lia; reflexivity. }
    rewrite E. pose proof (pre_nth _ _ _ Er0).
    split.
    + split; [exact H0|]. split; [exact H1|]. rewrite nth_error_app_l', Er0 by exact Hk. exact Hd.
    + unfold si_removed, iter_rel, cursor in *. rewrite pre_app1 in * by lia.
      brk; cbn [si_pos si_cur]; (split; [lia|fin Hcur]).
  - assert (Hpre : forall x, pre (l1 ++ x :: l2) (Z.to_nat (it_idx it)) = length (expand l1)).
    { intros x. rewrite Hk, <- (Nat.add_0_r (length l1)), pre_app2, pre_0. lia. }
    assert (Hnth : nth_error (l1 ++ r' :: l2) (Z.to_nat (it_idx it)) = Some r').
    { rewrite Hk, <- (Nat.add_0_r (length l1)), nth_error_app_r'. reflexivity. }
    unfold shift_iterator. brk; cbn [it_idx it_depth it_hr] in *; try lia.
    + (* at or past the removed host: one step back *)
      split.
      * unfold iter_wf. cbn [it_idx it_depth it_hr]. rewrite Hnth. lia.
      * unfold si_removed, iter_rel, cursor in *. cbn [it_idx it_depth it_hr]. rewrite Hpre in *.
        brk; cbn [si_pos si_cur]; (split; [lia|fin Hcur]).
    + split.
      * unfold iter_wf. rewrite Hnth. lia.
      * unfold si_removed, iter_rel, cursor in *. rewrite Hpre in *.
        brk; cbn [si_pos si_cur]; (split; [lia|fin Hcur]).
  - assert (E : shift_iterator (l1 ++ r' :: l2) (Z.of_nat (length l1)) (Z.of_nat off) 0 it = it).
    { unfold shift_iterator. brk; cbn [it_idx it_depth it_hr] in *; try lia; reflexivity. }
    rewrite E.
    assert (Hpre : forall x, pre (l1 ++ x :: l2) (Z.to_nat (it_idx it)) = length (expand l1) + cnt x + pre l2 j).
    { intros x. rewrite Hk. replace (length l1 + 1 + j) with (length l1 + S j) by lia. rewrite pre_app2, pre_cons. lia. }
    split.
    + unfold iter_wf. rewrite Hk. replace (length l1 + 1 + j) with (length l1 + S j) by lia.
      rewrite nth_error_app_r'. cbn [nth_error]. rewrite Erj. lia.
    + unfold si_removed, iter_rel, cursor in *. rewrite Hpre in *.
      brk; cbn [si_pos si_cur]; (split; [lia|fin Hcur]).
Qed.

(* ---------- M3: range i is split at offset off ---------- *)
Definition rebase_split (l' : list hr) (n : nat) (off : Z) (it : iter) : iter :=
  split_iterator l' (Z.of_nat n) off
    (if (Z.of_nat (S n) <=? it_idx it)%Z then mkit (it_idx it + 1) (it_depth it) (load l' (it_idx it + 1)) else it).

Lemma rebase_M3 l1 r ra rb l2 off it si :
  Forall hr_ok (l1 ++ r :: l2) -> 0 < off -> off < cnt r - 1 -> cnt ra = off -> cnt rb = cnt r - off - 1 ->
  iter_ok (l1 ++ r :: l2) it si ->
  iter_ok (l1 ++ ra :: rb :: l2) (rebase_split (l1 ++ ra :: rb :: l2) (length l1) (Z.of_nat off) it)
          (si_removed (length (expand l1) + off) si).
Proof.
  intros Hok Hoff0 Hoff Hca Hcb [Hwf [Hpos Hcur]].
  pose proof Hwf as (H0 & H1 & _).
  destruct (iter_place _ _ _ _ Hwf) as [(Hk & r0 & Er0 & Hd)|[(Hk & Hd)|(j & rj & Hk & Erj & Hd)]].
  - assert (E : rebase_split (l1 ++ ra :: rb :: l2) (length l1) (Z.of_nat off) it = it).
    { unfold rebase_split. destruct (Z.of_nat (S (length l1)) <=? it_idx it)%Z eqn:Ei; [lia|].
      unfold split_iterator. brk; cbn [it_idx it_depth it_hr] in *; try lia; reflexivity. }
    rewrite E. pose proof (pre_nth _ _ _ Er0).
    split.
    + split; [exact H0|]. split; [exact H1|]. rewrite nth_error_app_l', Er0 by exact Hk. exact Hd.
    + unfold si_removed, iter_rel, cursor in *. rewrite pre_app1 in * by lia.
      brk; cbn [si_pos si_cur]; (split; [lia|fin Hcur]).
  - assert (Hpre : pre (l1 ++ r :: l2) (Z.to_nat (it_idx it)) = length (expand l1)).
    { rewrite Hk, <- (Nat.add_0_r (length l1)), pre_app2, pre_0. lia. }
    unfold rebase_split. destruct (Z.of_nat (S (length l1)) <=? it_idx it)%Z eqn:Ei; [lia|].
    unfold split_iterator. brk; cbn [it_idx it_depth it_hr] in *; try lia.
    + (* had reached the removed host: continues in the upper half *)
      assert (Hidx : Z.to_nat (it_idx it + 1) = length l1 + 1) by lia.
      split.
      * unfold iter_wf. cbn [it_idx it_depth it_hr]. rewrite Hidx, nth_error_app_r'. cbn [nth_error]. lia.
      * unfold si_removed, iter_rel, cursor in *. cbn [it_idx it_depth it_hr]. rewrite Hpre in *. rewrite Hidx, pre_app2, pre_cons, pre_0.
        rewrite load_true by (rewrite ?app_length; cbn [length]; lia).
        brk; cbn [si_pos si_cur]; (split; [lia|fin Hcur]).
    + split.
      * unfold iter_wf. rewrite Hk, <- (Nat.add_0_r (length l1)), nth_error_app_r'. cbn [nth_error]. lia.
      * unfold si_removed, iter_rel, cursor in *. rewrite Hpre in *.
        rewrite Hk, <- (Nat.add_0_r (length l1)), pre_app2, pre_0.
        brk; cbn [si_pos si_cur]; (split; [lia|fin Hcur]).
  - assert (Hj : j < length l2) by (apply nth_error_Some; congruence).
    assert (E : rebase_split (l1 ++ ra :: rb :: l2) (length l1) (Z.of_nat off) it =
                mkit (it_idx it + 1) (it_depth it) (load (l1 ++ ra :: rb :: l2) (it_idx it + 1))).
    { unfold rebase_split. destruct (Z.of_nat (S (length l1)) <=? it_idx it)%Z eqn:Ei; [|lia].
      unfold split_iterator. brk; cbn [it_idx it_depth it_hr] in *; try lia; reflexivity. }
    rewrite E.
    assert (Hpre : pre (l1 ++ r :: l2) (Z.to_nat (it_idx it)) = length (expand l1) + cnt r + pre l2 j).
    { rewrite Hk. replace (length l1 + 1 + j) with (length l1 + S j) by lia. rewrite pre_app2, pre_cons. lia. }
    assert (Hidx : Z.to_nat (it_idx it + 1) = length l1 + S (S j)) by lia.
    split.
    + unfold iter_wf. cbn [it_idx it_depth it_hr]. rewrite Hidx, nth_error_app_r'. cbn [nth_error]. rewrite Erj. lia.
    + unfold si_removed, iter_rel, cursor in *. cbn [it_idx it_depth it_hr]. rewrite Hpre in *. rewrite Hidx, pre_app2, !pre_cons.
      rewrite load_true by (rewrite ?app_length; cbn [length]; lia).
      brk; cbn [si_pos si_cur]; (split; [lia|fin Hcur]).
Qed.

(* ====================================================================== *)
(* 3. removing one host from the state: the master lemma                    *)
(* ====================================================================== *)

Definition opt_ok (l : list hr) (a : option iter) (b : option siter) : Prop :=
  match a, b with
  | None, None => True
  | Some it, Some si => iter_ok l it si
  | _, _ => False
  end.
Definition iters_ok (l : list hr) (its : list (option iter)) (sits : list (option siter)) : Prop :=
  Forall2 (opt_ok l) its sits.

Lemma iters_ok_map l l' f g its sits :
  (forall it si, iter_ok l it si -> iter_ok l' (f it) (g si)) ->
  iters_ok l its sits -> iters_ok l' (map_iters f its) (map (option_map g) sits).
Proof.
  intros H. induction 1 as [|a b its sits Hab _ IH]; cbn [map_iters map]; constructor; auto.
  destruct a, b; cbn in *; auto.
Qed.

Lemma map_iters_comp f g its : map_iters g (map_iters f its) = map_iters (fun it => g (f it)) its.
Proof. unfold map_iters. rewrite map_map. apply map_ext. intros [x|]; reflexivity. Qed.

Lemma firstn_len_app {A} (a b : list A) : firstn (length a) (a ++ b) = a.
Proof. rewrite firstn_app, Nat.sub_diag, firstn_all. cbn [firstn]. apply app_nil_r. Qed.
Lemma skipn_len_app {A} (a b : list A) : skipn (length a) (a ++ b) = b.
Proof. rewrite skipn_app, Nat.sub_diag, skipn_all. reflexivity. Qed.
Lemma skipn_S_len_app {A} (a b : list A) x : skipn (S (length a)) (a ++ x :: b) = b.
Proof. replace (S (length a)) with (length (a ++ [x])) by (rewrite app_length; cbn [length]; lia).
  replace (a ++ x :: b) with ((a ++ [x]) ++ b) by (rewrite <- app_assoc; reflexivity). apply skipn_len_app. Qed.
Lemma firstn_S_len_app {A} (a b : list A) x : firstn (S (length a)) (a ++ x :: b) = a ++ [x].
Proof. replace (S (length a)) with (length (a ++ [x])) by (rewrite app_length; cbn [length]; lia).
  replace (a ++ x :: b) with ((a ++ [x]) ++ b) by (rewrite <- app_assoc; reflexivity). apply firstn_len_app. Qed.
Lemma replace_nth_app l1 r l2 x : replace_nth (l1 ++ r :: l2) (length l1) x = l1 ++ x :: l2.
Proof. unfold replace_nth. rewrite firstn_len_app, skipn_len_app. reflexivity. Qed.

Lemma Forall_mid {A} (P : A -> Prop) l1 x l2 : Forall P (l1 ++ x :: l2) <-> Forall P l1 /\ P x /\ Forall P l2.
Proof. rewrite Forall_app. split; [intros [H1 H2]; inversion H2; auto|intros (H1 & H2 & H3); auto]. Qed.

Lemma ok2_all_ok l : Forall hr_ok2 l -> Forall hr_ok l.
Proof. apply Forall_impl. intros r [H _]; exact H. Qed.

Definition st_inv (s : hstate) : Prop :=
  Forall hr_ok2 (st_ranges s) /\ st_nhosts s = Z.of_nat (length (expand (st_ranges s))) /\ (st_nhosts s <= INT_MAX)%Z.

Lemma delete_in_range_ok l1 r l2 nh its sits off sd :
  Forall hr_ok2 (l1 ++ r :: l2) -> (Z.of_nat (length (expand (l1 ++ r :: l2))) <= INT_MAX)%Z ->
  off < cnt r -> iters_ok (l1 ++ r :: l2) its sits ->
  let s' := delete_in_range (mkst (l1 ++ r :: l2) nh its) (length l1) r (Z.of_nat off) sd in
  Forall hr_ok2 (st_ranges s') /\
  expand (st_ranges s') = remove_nth (length (expand l1) + off) (expand (l1 ++ r :: l2)) /\
  st_nhosts s' = nh /\
  iters_ok (st_ranges s') (st_iters s') (map (option_map (si_removed (length (expand l1) + off))) sits).
Proof.
  intros Hok2 Hb Hoff Hits.
  pose proof (ok2_all_ok _ Hok2) as Hok.
  apply Forall_mid in Hok2 as (Hok1 & Hr & Hokl2).
  assert (Hexp : forall mid, expand l1 ++ mid ++ expand l2 = remove_nth (length (expand l1) + off) (expand (l1 ++ r :: l2)) <->
                             mid = remove_nth off (range_hosts r)).
  { intros mid. rewrite expand_app, expand_cons, remove_nth_app_r, remove_nth_app_l by exact Hoff.
    split; [intros H; apply app_inv_head in H; apply app_inv_tail in H; exact H|intros ->; reflexivity]. }
  (* the deleted-range outcome, shared by singles and one-host ranges *)
  assert (HM4 : cnt r = 1 -> off = 0 -> forall x,
            let s' := delete_range (mkst (l1 ++ x :: l2) nh its) (length l1) in
            Forall hr_ok2 (st_ranges s') /\
            expand (st_ranges s') = remove_nth (length (expand l1) + off) (expand (l1 ++ r :: l2)) /\
            st_nhosts s' = nh /\
            iters_ok (st_ranges s') (st_iters s') (map (option_map (si_removed (length (expand l1) + off))) sits)).
  { intros Hc1 -> x. rewrite delete_range_eq. cbn [st_ranges st_nhosts st_iters].
    rewrite firstn_len_app, skipn_S_len_app. cbn zeta. cbn [st_ranges st_nhosts st_iters].
    split; [apply Forall_app; auto|]. split.
    - rewrite expand_app. rewrite <- (app_nil_l (expand l2)). apply Hexp.
      unfold cnt in Hc1. destruct (range_hosts r) as [|h [|h2 t]]; cbn [length] in Hc1; try lia. reflexivity.
    - split; [reflexivity|]. rewrite Nat.add_0_r. apply (iters_ok_map (l1 ++ r :: l2)); auto.
      intros it si Hi. apply (rebase_M4 l1 r l2); auto. }
  unfold delete_in_range. cbn [st_ranges st_nhosts st_iters].
  destruct (sd && single r) eqn:Esd.
  - apply andb_true_iff in Esd as [_ Hs]. pose proof (cnt_single r (ok2_ok _ Hr) Hs) as Hc1.
    apply (HM4 Hc1 ltac:(lia) r).
  - fold (del_num r off).
    destruct (delete_host_shapes r off Hr Hoff) as [(Hc1 & Hoff0 & r' & -> & He)|[(Hc2 & Ho & r' & -> & He & Hr' & Hh)|(Ho1 & Ho2 & ra & rb & -> & Hcp & Hra & Hrb & Hca & Hh)]].
    + unfold set_ranges. cbn [st_ranges st_nhosts st_iters]. rewrite replace_nth_app, He. apply (HM4 Hc1 Hoff0 r').
    + unfold set_ranges, set_iters. cbn [st_ranges st_nhosts st_iters]. rewrite replace_nth_app, He.
      cbn [st_ranges st_nhosts st_iters].
      split; [apply Forall_mid; auto|]. split; [rewrite expand_app, expand_cons; apply Hexp; exact Hh|]. split; [reflexivity|].
      apply (iters_ok_map (l1 ++ r :: l2)); auto. intros it si Hi.
      apply (rebase_inplace l1 r r' l2); auto. unfold cnt at 1. rewrite Hh, remove_nth_length by exact Hoff. reflexivity.
    + unfold set_ranges, set_iters, insert_range. cbn [st_ranges st_nhosts st_iters]. rewrite replace_nth_app.
      assert ((length (l1 ++ ra :: l2) <? S (length l1)) = false) as -> by (rewrite app_length; cbn [length]; lia).
      cbn [st_ranges st_nhosts st_iters]. rewrite firstn_S_len_app, skipn_S_len_app, Hcp, <- app_assoc. cbn [app].
      split; [apply Forall_mid; split; [auto|split; [auto|constructor; auto]]|].
      split; [rewrite expand_app, !expand_cons, (app_assoc (range_hosts ra)); apply Hexp; exact Hh|]. split; [reflexivity|].
      rewrite map_iters_comp. apply (iters_ok_map (l1 ++ r :: l2)); auto. intros it si Hi.
      apply (rebase_M3 l1 r ra rb l2 off it si); auto.
      apply (f_equal (@length bytes)) in Hh. rewrite app_length, remove_nth_length in Hh by exact Hoff. unfold cnt in *. lia.
Qed.

(* ====================================================================== *)
(* 4. the refinement relation and the operations one by one                 *)
(* ====================================================================== *)

Definition R (m : hstate) (s : sstate) : Prop :=
  st_inv m /\ ss_names s = expand (st_ranges m) /\ iters_ok (st_ranges m) (st_iters m) (ss_iters s).

Lemma R_empty : R st_empty ss_empty.
Proof. split; [split; [constructor|split; [reflexivity|rewrite INT_MAX_val; cbn; lia]]|]. split; [reflexivity|constructor]. Qed.

(* ---------- removing the host at offset off of range i ---------- *)
Lemma remove_step m s l1 r l2 off sd :
  R m s -> st_ranges m = l1 ++ r :: l2 -> off < cnt r ->
  R (dec_nhosts (delete_in_range m (length l1) r (Z.of_nat off) sd)) (s_remove_at s (length (expand l1) + off)).
Proof.
  intros ((Hok & Hnh & Hmax) & Hnames & Hits) Hl Hoff. destruct m as [l nh its]. cbn [st_ranges st_nhosts st_iters] in *. subst l.
  destruct (delete_in_range_ok l1 r l2 nh its (ss_iters s) off sd Hok ltac:(lia) Hoff Hits) as (H1 & H2 & H3 & H4).
  assert (Hp : length (expand l1) + off < length (expand (l1 ++ r :: l2))).
  { rewrite expand_app, expand_cons, !app_length. fold (cnt r). lia. }
  unfold dec_nhosts, s_remove_at, R, st_inv. cbn [st_ranges st_nhosts st_iters ss_names ss_iters].
  rewrite Hnames, H3, H2. rewrite remove_nth_length by exact Hp.
  split; [split; [exact H1|split; lia]|]. split; [reflexivity|]. exact H4.
Qed.

Ltac eqtriple := match goal with |- Some (?a, ?b, ?c) = Some (?a', ?b', ?c') =>
  replace a' with a by lia; replace c' with c by lia; reflexivity end.

(* ---------- locating position n ---------- *)
Lemma locate_spec l : Forall hr_ok l -> forall i0 n count,
  (0 <= count)%Z -> (count + Z.of_nat (length (expand l)) <= INT_MAX)%Z -> (count <= n)%Z ->
  ((n - count < Z.of_nat (length (expand l)))%Z ->
     exists l1 r l2, l = l1 ++ r :: l2 /\
       locate l i0 n count = Some (i0 + length l1, r, (count + Z.of_nat (length (expand l1)))%Z) /\
       (Z.of_nat (length (expand l1)) <= n - count < Z.of_nat (length (expand l1) + cnt r))%Z) /\
  ((Z.of_nat (length (expand l)) <= n - count)%Z -> locate l i0 n count = None).
Proof.
  induction 1 as [|r l Hr Hl IH]; intros i0 n count Hc Hb Hn.
  - cbn [expand flat_map length locate]. split; [lia|reflexivity].
  - rewrite expand_cons, app_length in *. fold (cnt r) in *. cbn [locate].
    rewrite (count_int_cnt r Hr) by lia.
    destruct (n <=? Z.of_nat (cnt r) - 1 + count)%Z eqn:E.
    + split; [|lia]. intros _. exists [], r, l. cbn [app length expand flat_map]. split; [reflexivity|].
      split; [eqtriple|lia].
    + destruct (IH (S i0) n (count + Z.of_nat (cnt r))%Z ltac:(lia) ltac:(lia) ltac:(lia)) as [IH1 IH2].
      split.
      * intros Hlt. destruct (IH1 ltac:(lia)) as (l1 & r1 & l2 & -> & Hloc & Hrange).
        exists (r :: l1), r1, l2. split; [reflexivity|]. rewrite Hloc. cbn [length]. rewrite expand_cons, app_length. fold (cnt r).
        split; [eqtriple|lia].
      * intros Hge. apply IH2. lia.
Qed.

(* ---------- names ---------- *)
Lemma shift_name_ok r n : hr_ok2 r -> (n <= hi r)%N -> shift_name r n = pfx r ++ fmt (wid r) n.
Proof.
  intros [Hok Hlim] Hn. unfold shift_name. apply firstn_all2. rewrite app_length, fmt_length.
  assert (Hnd : (ndigits n <= 15)%nat). { apply ndigits_le_pow; [|lia]. rewrite <- NUM_LIMIT_pow. lia. }
  lia.
Qed.

Lemma usub_cnt r : hr_ok r -> Z.of_N (usub (hi r) (lo r)) = (Z.of_nat (cnt r) - 1)%Z.
Proof.
  intros H. destruct (single r) eqn:Hs.
  - rewrite (cnt_single r H Hs). unfold hr_ok in H. rewrite Hs in H. destruct H as [-> ->]. reflexivity.
  - pose proof (cnt_range r H Hs). unfold hr_ok in H. rewrite Hs in H. pose proof ULONG_pos. rewrite usub_le by lia. lia.
Qed.

Lemma host_at_first r : hr_ok2 r -> host_at r 0 = if single r then pfx r else pfx r ++ fmt (wid r) (lo r).
Proof. intros [Hok Hlim]. unfold host_at. destruct (single r) eqn:Hs; [reflexivity|].
  unfold hr_ok in Hok. rewrite Hs in Hok. rewrite NUM_LIMIT_val in Hlim. unfold wrap. rewrite N.add_0_r, N.mod_small by (rewrite ULONG_val; lia). reflexivity. Qed.

Lemma host_at_last r : hr_ok2 r -> host_at r (N.of_nat (cnt r - 1)) = if single r then pfx r else pfx r ++ fmt (wid r) (hi r).
Proof. intros [Hok Hlim]. unfold host_at. destruct (single r) eqn:Hs; [reflexivity|].
  pose proof (cnt_range r Hok Hs). unfold hr_ok in Hok. rewrite Hs in Hok. rewrite NUM_LIMIT_val in Hlim.
  unfold wrap. rewrite N.mod_small by (rewrite ULONG_val; lia). do 2 f_equal. lia. Qed.

Lemma R_len m s : R m s -> st_nhosts m = Z.of_nat (length (ss_names s)) /\ (Z.of_nat (length (ss_names s)) <= INT_MAX)%Z.
Proof. intros ((_ & Hnh & Hmax) & Hn & _). rewrite Hn. lia. Qed.

(* ---------- hostlist_count ---------- *)
Theorem count_refines m s : R m s -> st_count m = Z.of_nat (length (ss_names s)).
Proof. intros H. apply R_len in H. unfold st_count. tauto. Qed.

(* ---------- hostlist_nth ---------- *)
Theorem nth_refines m s n : R m s -> (0 <= n)%Z -> st_nth m n = ROk (nth_error (ss_names s) (Z.to_nat n)).
Proof.
  intros ((Hok & Hnh & Hmax) & Hnames & _) Hn. unfold st_nth. rewrite Hnames.
  destruct (locate_spec _ (ok2_all_ok _ Hok) 0 n 0%Z ltac:(lia) ltac:(lia) ltac:(lia)) as [H1 H2].
  destruct (Z_lt_le_dec (n - 0) (Z.of_nat (length (expand (st_ranges m))))) as [Hlt|Hge].
  - destruct (H1 Hlt) as (l1 & r & l2 & Hl & -> & Hrange). rewrite Hl.
    assert (Hr : hr_ok r). { apply ok2_all_ok in Hok. rewrite Hl in Hok. apply Forall_mid in Hok. tauto. }
    replace (Z.to_nat n) with (length (expand l1) + (Z.to_nat n - length (expand l1))) by lia.
    rewrite expand_nth, range_nth by (auto; lia). do 3 f_equal.
    rewrite to_ulong_small by (rewrite ?ULONG_val, ?INT_MAX_val in *; lia). lia.
  - rewrite (H2 Hge). f_equal. symmetry. apply nth_error_None. lia.
Qed.

(* ---------- hostlist_delete_nth ---------- *)
Theorem delete_nth_refines m s n : R m s -> (0 <= n < Z.of_nat (length (ss_names s)))%Z ->
  exists m', st_delete_nth m n = ROk (m', 1%Z) /\ R m' (s_remove_at s (Z.to_nat n)).
Proof.
  intros HR Hn. pose proof HR as ((Hok & Hnh & Hmax) & Hnames & _). rewrite Hnames in Hn.
  unfold st_delete_nth. assert ((n <? 0)%Z || (st_nhosts m <? n)%Z = false) as -> by lia.
  destruct (locate_spec _ (ok2_all_ok _ Hok) 0 n 0%Z ltac:(lia) ltac:(lia) ltac:(lia)) as [H1 _].
  destruct (H1 ltac:(lia)) as (l1 & r & l2 & Hl & -> & Hrange).
  eexists. split; [reflexivity|]. cbn [Nat.add].
  replace (n - (0 + Z.of_nat (length (expand l1))))%Z with (Z.of_nat (Z.to_nat n - length (expand l1))) by lia.
  replace (Z.to_nat n) with (length (expand l1) + (Z.to_nat n - length (expand l1))) at 2 by lia.
  apply (remove_step m s l1 r l2); auto. lia.
Qed.

(* ---------- looking up an iterator ---------- *)
Lemma iters_ok_get l its sits h si : iters_ok l its sits -> nth_error sits h = Some (Some si) ->
  exists it, nth_error its h = Some (Some it) /\ iter_ok l it si.
Proof.
  intros H. revert h. induction H as [|a b its sits Hab _ IH]; intros [|h] E; cbn [nth_error] in *; try discriminate.
  - injection E as ->. destruct a; cbn in Hab; [eauto|contradiction].
  - apply IH; auto.
Qed.

Lemma iters_ok_set l its sits h a b : iters_ok l its sits -> opt_ok l a b ->
  iters_ok l (set_nth its h a) (set_nth sits h b).
Proof.
  unfold iters_ok. intros H Hab. revert h. induction H as [|x y its sits Hxy Hrest IH]; intros [|h]; cbn [set_nth]; try constructor; auto.
Qed.

Lemma iters_ok_length l its sits : iters_ok l its sits -> length its = length sits.
Proof. induction 1; cbn [length]; auto. Qed.

Lemma get_iter_ok m s h si : R m s -> s_get s h = Some si ->
  exists it, get_iter m h = ROk it /\ iter_ok (st_ranges m) it si.
Proof.
  intros (_ & _ & Hits) Hg. unfold s_get in Hg.
  destruct (nth_error (ss_iters s) h) as [[si'|]|] eqn:E; try discriminate. injection Hg as ->.
  destruct (iters_ok_get _ _ _ _ _ Hits E) as (it & Eit & Hok). exists it. unfold get_iter. rewrite Eit. auto.
Qed.

(* ---------- hostlist_remove ---------- *)
Theorem remove_refines m s h si : R m s -> s_get s h = Some si -> si_cur si = true ->
  exists m', st_remove m h = ROk (m', 1%Z) /\ R m' (s_remove_at s (si_pos si - 1)).
Proof.
  intros HR Hg Hcur. destruct (get_iter_ok _ _ _ _ HR Hg) as (it & Eit & Hwf & Hpos & Hc).
  destruct (Hc Hcur) as [Hd Hhr]. unfold st_remove. rewrite Eit. cbn [rbind]. rewrite Hhr. cbn [negb].
  destruct Hwf as (H0 & H1 & Hn).
  destruct (nth_error (st_ranges m) (Z.to_nat (it_idx it))) as [r|] eqn:Er.
  2:{ destruct Hn as (_ & _ & _ & Hf). congruence. }
  unfold nth_z. assert ((it_idx it <? 0)%Z = false) as -> by lia. rewrite Er.
  destruct (nth_error_split' _ _ _ Er) as (l1 & l2 & Hl & Hlen).
  eexists. split; [reflexivity|].
  assert (Hp : si_pos si - 1 = length (expand l1) + Z.to_nat (it_depth it)).
  { rewrite Hpos. unfold cursor. rewrite Hl, <- Hlen, <- (Nat.add_0_r (length l1)), pre_app2, pre_0. lia. }
  rewrite Hp, <- Hlen. replace (it_depth it) with (Z.of_nat (Z.to_nat (it_depth it))) at 1 by lia.
  apply (remove_step m s l1 r l2); auto. lia.
Qed.

(* ---------- hostlist_next ---------- *)
Lemma advance_eq l it r : nth_error l (Z.to_nat (it_idx it)) = Some r -> (0 <= it_idx it)%Z -> hr_ok r ->
  iterator_advance l it =
    if ((it_depth it + 1 <? 0)%Z || (Z.of_nat (cnt r) - 1 <? it_depth it + 1)%Z)
    then if (Z.of_nat (length l) - 1 <? it_idx it + 1)%Z
         then ROk (mkit (it_idx it) (it_depth it) true, false)
         else ROk (mkit (it_idx it + 1) 0 (load l (it_idx it + 1)), true)
    else ROk (mkit (it_idx it) (it_depth it + 1) true, true).
Proof.
  intros Er H0 Hr. unfold iterator_advance, zlen.
  assert (Hidx : (Z.of_nat (length l) - 1 <? it_idx it)%Z = false).
  { apply Z.ltb_ge. assert (Z.to_nat (it_idx it) < length l) by (apply nth_error_Some; congruence). lia. }
  rewrite Hidx. unfold nth_z. assert ((it_idx it <? 0)%Z = false) as -> by lia. rewrite Er.
  rewrite (usub_cnt r Hr). reflexivity.
Qed.

Lemma advance_ok l it si : Forall hr_ok l -> (Z.of_nat (length (expand l)) <= INT_MAX)%Z -> iter_ok l it si ->
  match nth_error (expand l) (si_pos si) with
  | Some x => exists it' r, iterator_advance l it = ROk (it', true) /\ nth_z l (it_idx it') = Some r /\
                            host_at r (to_ulong (it_depth it')) = x /\ iter_ok l it' (mksi (S (si_pos si)) true)
  | None => exists it', iterator_advance l it = ROk (it', false) /\ iter_ok l it' (mksi (si_pos si) false)
  end.
Proof.
  intros Hok Hb [Hwf [Hpos Hcur]]. pose proof Hwf as (H0 & H1 & Hn).
  destruct (nth_error l (Z.to_nat (it_idx it))) as [r|] eqn:Er.
  2:{ destruct Hn as (-> & Hi & Hd & Hh). cbn [length expand flat_map].
      assert (nth_error (@nil bytes) (si_pos si) = None) as -> by (destruct (si_pos si); reflexivity).
      unfold iterator_advance, zlen. rewrite Hi. cbn. exists it. split; [reflexivity|].
      split; [split; [lia|split; [lia|rewrite Hi; cbn; tauto]]|].
      split; [exact Hpos|discriminate]. }
  destruct (nth_error_split' _ _ _ Er) as (l1 & l2 & Hl & Hlen).
  assert (Hr : hr_ok r). { rewrite Hl in Hok. apply Forall_mid in Hok. tauto. }
  rewrite (advance_eq l it r Er H0 Hr).
  assert (Hcu : si_pos si = length (expand l1) + Z.to_nat (it_depth it + 1)).
  { rewrite Hpos. unfold cursor. rewrite Hl, <- Hlen, <- (Nat.add_0_r (length l1)), pre_app2, pre_0. lia. }
  assert (Hexp : expand l = expand l1 ++ range_hosts r ++ expand l2) by (rewrite Hl, expand_app, expand_cons; reflexivity).
  destruct ((it_depth it + 1 <? 0)%Z || (Z.of_nat (cnt r) - 1 <? it_depth it + 1)%Z) eqn:Eend.
  - (* the range is exhausted *)
    assert (Hd : it_depth it = (Z.of_nat (cnt r) - 1)%Z) by lia.
    assert (Hcu' : si_pos si = length (expand l1) + cnt r) by lia.
    destruct l2 as [|r2 l2'].
    + (* and it was the last one *)
      assert ((Z.of_nat (length l) - 1 <? it_idx it + 1)%Z = true) as -> by (rewrite Hl, app_length; cbn [length]; lia).
      assert (nth_error (expand l) (si_pos si) = None) as ->.
      { apply nth_error_None. rewrite Hexp, !app_length. cbn [expand flat_map length]. fold (cnt r). lia. }
      eexists. split; [reflexivity|]. split.
      * split; [exact H0|]. split; [exact H1|]. cbn [it_idx it_depth]. rewrite Er. exact Hn.
      * split; [exact Hpos|discriminate].
    + assert (Hr2 : hr_ok r2). { rewrite Hl in Hok. apply Forall_mid in Hok as (_ & _ & Hok). inversion Hok; auto. }
      pose proof (cnt_pos r2 Hr2) as Hc2.
      assert ((Z.of_nat (length l) - 1 <? it_idx it + 1)%Z = false) as -> by (rewrite Hl, app_length; cbn [length]; lia).
      assert (Hnx : nth_error l (Z.to_nat (it_idx it + 1)) = Some r2).
      { replace (Z.to_nat (it_idx it + 1)) with (length l1 + 1) by lia. rewrite Hl, nth_error_app_r'. reflexivity. }
      assert (nth_error (expand l) (si_pos si) = Some (host_at r2 0)) as ->.
      { rewrite Hcu', Hexp, app_assoc.
        replace (length (expand l1) + cnt r) with (length (expand l1 ++ range_hosts r) + 0) by (rewrite app_length; unfold cnt; lia).
        rewrite nth_error_app_r'. rewrite expand_cons, nth_error_app_l' by (fold (cnt r2); lia).
        apply (range_nth r2 0); auto. }
      eexists _, r2. split; [reflexivity|]. cbn [it_idx it_depth].
      split; [unfold nth_z; assert ((it_idx it + 1 <? 0)%Z = false) as -> by lia; exact Hnx|].
      split; [reflexivity|]. split.
      * unfold iter_wf. cbn [it_idx it_depth it_hr]. rewrite Hnx. lia.
      * split; [|intros _; cbn [it_depth it_hr]; split; [lia|apply load_true; [lia|apply nth_error_Some; congruence]]].
        cbn [si_pos]. unfold cursor. cbn [it_idx it_depth].
        replace (Z.to_nat (it_idx it + 1)) with (length l1 + 1) by lia. rewrite Hl, pre_app2, pre_cons, pre_0. lia.
  - (* next host of the same range *)
    assert (Hd : (it_depth it + 1 < Z.of_nat (cnt r))%Z) by lia.
    assert (nth_error (expand l) (si_pos si) = Some (host_at r (N.of_nat (Z.to_nat (it_depth it + 1))))) as ->.
    { rewrite Hcu, Hl, expand_nth by lia. apply range_nth; auto. lia. }
    eexists _, r. split; [reflexivity|]. cbn [it_idx it_depth].
    split; [unfold nth_z; assert ((it_idx it <? 0)%Z = false) as -> by lia; exact Er|].
    split; [f_equal; rewrite to_ulong_small by (rewrite ?ULONG_val, ?INT_MAX_val in *; pose proof (pre_nth _ _ _ Er); lia); lia|].
    split.
    + unfold iter_wf. cbn [it_idx it_depth it_hr]. rewrite Er. lia.
    + split; [|intros _; cbn [it_depth it_hr]; split; [lia|reflexivity]].
      cbn [si_pos]. rewrite Hpos. unfold cursor. cbn [it_idx it_depth]. lia.
Qed.

Lemma R_put m s h it si : R m s -> iter_ok (st_ranges m) it si ->
  R (put_iter m h (Some it)) (s_put s h (Some si)).
Proof.
  intros (Hinv & Hn & Hits) Hok. split; [exact Hinv|]. split; [exact Hn|].
  unfold put_iter, set_iters, s_put. cbn [st_ranges st_iters ss_iters]. apply iters_ok_set; auto.
Qed.

Theorem next_refines m s h si : R m s -> s_get s h = Some si ->
  match nth_error (ss_names s) (si_pos si) with
  | Some x => exists m', st_next m h = ROk (m', Some x) /\ R m' (s_put s h (Some (mksi (S (si_pos si)) true)))
  | None => exists m', st_next m h = ROk (m', None) /\ R m' (s_put s h (Some (mksi (si_pos si) false)))
  end.
Proof.
  intros HR Hg. destruct (get_iter_ok _ _ _ _ HR Hg) as (it & Eit & Hok).
  pose proof HR as ((Hok2 & Hnh & Hmax) & Hnames & _).
  pose proof (advance_ok _ _ _ (ok2_all_ok _ Hok2) ltac:(lia) Hok) as Ha. rewrite Hnames.
  unfold st_next. rewrite Eit. cbn [rbind].
  destruct (nth_error (expand (st_ranges m)) (si_pos si)) as [x|].
  - destruct Ha as (it' & r & -> & Hr & Hx & Hok'). cbn [rbind]. rewrite Hr, Hx.
    eexists. split; [reflexivity|]. apply R_put; auto.
  - destruct Ha as (it' & -> & Hok'). cbn [rbind]. eexists. split; [reflexivity|]. apply R_put; auto.
Qed.

(* ---------- iterator create / reset / destroy ---------- *)
Lemma reset_ok l : iter_ok l (it_reset l) (mksi 0 false).
Proof.
  unfold it_reset. split.
  - unfold iter_wf. cbn [it_idx it_depth it_hr Z.to_nat]. split; [lia|]. split; [lia|].
    destruct l as [|r l]; cbn [nth_error]; [unfold load, zlen; cbn; tauto|lia].
  - split; [reflexivity|discriminate].
Qed.

Theorem iter_new_refines m s : R m s ->
  R (fst (st_iter_new m)) (mkss (ss_names s) (ss_iters s ++ [Some (mksi 0 false)])) /\
  snd (st_iter_new m) = length (ss_iters s).
Proof.
  intros (Hinv & Hn & Hits). unfold st_iter_new, set_iters. cbn [fst snd]. split.
  - split; [exact Hinv|]. split; [exact Hn|]. cbn [st_ranges st_iters ss_iters].
    apply Forall2_app; [exact Hits|]. constructor; [apply reset_ok|constructor].
  - apply (iters_ok_length _ _ _ Hits).
Qed.

Theorem iter_reset_refines m s h si : R m s -> s_get s h = Some si ->
  exists m', st_iter_reset m h = ROk m' /\ R m' (s_put s h (Some (mksi 0 false))).
Proof.
  intros HR Hg. destruct (get_iter_ok _ _ _ _ HR Hg) as (it & Eit & _).
  unfold st_iter_reset. rewrite Eit. cbn [rbind]. eexists. split; [reflexivity|]. apply R_put; auto. apply reset_ok.
Qed.

Theorem iter_destroy_refines m s h si : R m s -> s_get s h = Some si ->
  exists m', st_iter_destroy m h = ROk m' /\ R m' (s_put s h None).
Proof.
  intros HR Hg. destruct (get_iter_ok _ _ _ _ HR Hg) as (it & Eit & _). destruct HR as (Hinv & Hn & Hits).
  unfold st_iter_destroy. rewrite Eit. cbn [rbind]. eexists. split; [reflexivity|].
  split; [exact Hinv|]. split; [exact Hn|]. unfold put_iter, set_iters, s_put. cbn [st_ranges st_iters ss_iters].
  apply iters_ok_set; auto. exact I.
Qed.

(* ---------- hostlist_shift ---------- *)
Lemma lo_small r : hr_ok2 r -> (lo r < 1000000000000000)%N /\ (hi r < 1000000000000000)%N.
Proof. intros [Hok Hlim]. rewrite NUM_LIMIT_val in Hlim. unfold hr_ok in Hok. destruct (single r); lia. Qed.

Lemma shift_eq r rest nh its : hr_ok2 r -> (0 < nh)%Z ->
  st_shift (mkst (r :: rest) nh its) =
  ROk (dec_nhosts (delete_in_range (mkst (r :: rest) nh its) 0 r 0 false), Some (host_at r 0)).
Proof.
  intros Hr Hnh. pose proof (lo_small r Hr) as [Hlo Hhi]. pose proof (cnt_pos r (ok2_ok r Hr)) as Hc.
  pose proof (cnt_count r (ok2_ok r Hr)) as Hcc.
  unfold st_shift. cbn [st_nhosts st_ranges]. assert ((0 <? nh)%Z = true) as -> by lia.
  assert (Hsh : hostrange_shift r = (Some (host_at r 0), set_lo r (wrap (lo r + 1)))).
  { unfold hostrange_shift. rewrite (host_at_first r Hr). destruct (single r); [reflexivity|].
    assert ((0 <? hr_count r)%N = true) as -> by lia. rewrite shift_name_ok by (auto; destruct Hr as [Hok _]; unfold hr_ok in Hok; destruct (single r); lia).
    reflexivity. }
  rewrite Hsh. unfold delete_in_range. cbn [andb].
  assert (Hnum : wrap (lo r + to_ulong 0) = lo r).
  { change (to_ulong 0) with 0%N. unfold wrap. rewrite N.add_0_r, N.mod_small by (rewrite ULONG_val; lia). reflexivity. }
  rewrite Hnum. unfold hostrange_delete_host. rewrite N.eqb_refl.
  unfold set_ranges, set_iters, dec_nhosts, replace_nth. cbn [st_ranges st_nhosts st_iters firstn skipn app].
  destruct (hostrange_empty (set_lo r (wrap (lo r + 1)))); [|reflexivity].
  unfold delete_range. reflexivity.
Qed.

Lemma expand_nil_inv l : Forall hr_ok l -> expand l = [] -> l = [].
Proof. intros H E. destruct l as [|r l]; [reflexivity|]. inversion H as [|? ? Hr _]; subst.
  pose proof (cnt_pos r Hr). rewrite expand_cons in E. apply (f_equal (@length bytes)) in E. rewrite app_length in E. unfold cnt in *. cbn in E. lia. Qed.

Theorem shift_refines m s : R m s ->
  match ss_names s with
  | [] => st_shift m = ROk (m, None)
  | x :: _ => exists m', st_shift m = ROk (m', Some x) /\ R m' (s_remove_at s 0)
  end.
Proof.
  intros HR. pose proof HR as ((Hok & Hnh & Hmax) & Hnames & Hits). destruct m as [l nh its]. cbn [st_ranges st_nhosts st_iters] in *.
  destruct (ss_names s) as [|x names] eqn:En.
  - symmetry in Hnames. apply expand_nil_inv in Hnames; [|apply ok2_all_ok; auto]. subst l.
    unfold st_shift. cbn [st_nhosts]. cbn in Hnh. subst nh. reflexivity.
  - destruct l as [|r rest]; [discriminate|]. inversion Hok as [|? ? Hr Hrest]; subst.
    rewrite shift_eq by (auto; rewrite <- Hnames; cbn [length]; lia). eexists. split.
    + f_equal. f_equal. f_equal. rewrite expand_cons in Hnames.
      pose proof (range_nth r 0 (ok2_ok r Hr) (cnt_pos r (ok2_ok r Hr))) as Hn0.
      change (N.of_nat 0) with 0%N in Hn0.
      destruct (range_hosts r) as [|y t]; [discriminate|]. cbn [nth_error app] in *. congruence.
    + apply (remove_step (mkst (r :: rest) (Z.of_nat (length (expand (r :: rest)))) its) s [] r rest 0 false); auto.
      apply cnt_pos, ok2_ok; auto.
Qed.

(* ---------- hostlist_pop ---------- *)
Lemma delete_in_range_none s i r off r' :
  hostrange_delete_host r (wrap (lo r + to_ulong off)) = (r', None) ->
  delete_in_range s i r off false =
  let s1 := set_ranges s (replace_nth (st_ranges s) i r') in
  if hostrange_empty r' then delete_range s1 i
  else set_iters s1 (map_iters (shift_iterator (st_ranges s1) (Z.of_nat i) off 0) (st_iters s1)).
Proof. intros H. unfold delete_in_range. cbn [andb]. rewrite H. reflexivity. Qed.

Lemma pop_eq l1 r nh its : hr_ok2 r -> (0 < nh)%Z -> (Z.of_nat (cnt r) <= INT_MAX)%Z ->
  st_pop (mkst (l1 ++ [r]) nh its) =
  ROk (dec_nhosts (delete_in_range (mkst (l1 ++ [r]) nh its) (length l1) r (Z.of_nat (cnt r - 1)) false),
       Some (host_at r (N.of_nat (cnt r - 1)))).
Proof.
  intros Hr Hnh Hmax. pose proof (lo_small r Hr) as [Hlo Hhi]. pose proof (cnt_pos r (ok2_ok r Hr)) as Hc.
  pose proof (cnt_count r (ok2_ok r Hr)) as Hcc. pose proof ULONG_val as HU.
  assert (Hrr : (lo r <= hi r)%N) by (destruct Hr as [Hok _]; unfold hr_ok in Hok; destruct (single r); lia).
  (* what hostrange_pop does *)
  assert (Hpop : hostrange_pop r = (Some (host_at r (N.of_nat (cnt r - 1))),
                                    if single r then set_lo r (wrap (lo r + 1)) else set_hi r (usub (hi r) 1))).
  { unfold hostrange_pop. rewrite (host_at_last r Hr). destruct (single r); [reflexivity|].
    assert ((0 <? hr_count r)%N = true) as -> by lia. rewrite shift_name_ok by (auto; lia). reflexivity. }
  (* what hostrange_delete_host does at the last offset *)
  assert (Hdel : exists r'', hostrange_delete_host r (wrap (lo r + to_ulong (Z.of_nat (cnt r - 1)))) = (r'', None) /\
            (r'' = (if single r then set_lo r (wrap (lo r + 1)) else set_hi r (usub (hi r) 1)) \/
             (hostrange_empty r'' = true /\ hostrange_empty (if single r then set_lo r (wrap (lo r + 1)) else set_hi r (usub (hi r) 1)) = true))).
  { fold (del_num r (cnt r - 1)). destruct (single r) eqn:Hs.
    - pose proof (cnt_single r (ok2_ok r Hr) Hs) as Hc1. destruct Hr as [Hok _]. unfold hr_ok in Hok. rewrite Hs in Hok. destruct Hok as [Hl0 Hh0].
      unfold del_num. rewrite Hc1. cbn [Nat.sub]. change (to_ulong (Z.of_nat 0)) with 0%N.
      unfold hostrange_delete_host. rewrite Hl0. change (wrap (0 + 0) =? 0)%N with true. cbn iota.
      eexists. split; [reflexivity|]. left. reflexivity.
    - pose proof (cnt_range r (ok2_ok r Hr) Hs) as Hcr.
      rewrite (del_num_range r (cnt r - 1) Hr Hs) by lia.
      replace (lo r + N.of_nat (cnt r - 1))%N with (hi r) by lia.
      unfold hostrange_delete_host. rewrite N.eqb_refl.
      destruct (N.eqb_spec (hi r) (lo r)) as [E|E].
      + eexists. split; [reflexivity|]. right. split.
        * unfold hostrange_empty, set_lo, wrap. cbn [hi lo]. rewrite N.mod_small by lia. assert ((hi r <? lo r + 1)%N = true) as -> by lia. reflexivity.
        * unfold hostrange_empty, set_hi. cbn [hi lo]. destruct (N.eq_dec (hi r) 0) as [Z0|Z0].
          -- rewrite Z0. change (usub 0 1) with (ULONG - 1)%N. rewrite N.eqb_refl. apply orb_true_r.
          -- rewrite usub_le by lia. assert ((hi r - 1 <? lo r)%N = true) as -> by lia. reflexivity.
      + eexists. split; [reflexivity|]. left. reflexivity. }
  destruct Hdel as (r'' & Hd & Hcase).
  rewrite (delete_in_range_none _ _ _ _ _ Hd).
  unfold st_pop. cbn [st_nhosts st_ranges]. assert ((0 <? nh)%Z = true) as -> by lia.
  rewrite app_length. cbn [length]. rewrite Nat.add_1_r.
  rewrite <- (Nat.add_0_r (length l1)) at 1. rewrite nth_error_app_r'. cbn [nth_error].
  rewrite Hpop. cbv beta iota zeta.
  unfold set_ranges, set_iters, dec_nhosts. cbn [st_ranges st_nhosts st_iters]. rewrite !replace_nth_app.
  set (rp := if single r then set_lo r (wrap (lo r + 1)) else set_hi r (usub (hi r) 1)) in *.
  destruct Hcase as [->|[He1 He2]].
  - destruct (hostrange_empty rp) eqn:Ee.
    + unfold delete_range. reflexivity.
    + cbn [st_ranges st_nhosts st_iters]. do 4 f_equal.
      (* count of the shrunk range = offset of the host popped *)
      destruct (single r) eqn:Hs.
      * exfalso. unfold rp, hostrange_empty, set_lo, wrap in Ee. cbn [hi lo] in Ee.
        destruct Hr as [Hok _]. unfold hr_ok in Hok. rewrite Hs in Hok. destruct Hok as [Hl0 Hh0]. rewrite Hl0, Hh0 in Ee. discriminate.
      * pose proof (cnt_range r (ok2_ok r Hr) Hs) as Hcr.
        unfold rp, hostrange_empty, set_hi in Ee. cbn [hi lo] in Ee.
        assert (Hh1 : (1 <= hi r)%N). { destruct (N.eq_dec (hi r) 0) as [Z0|Z0]; [|lia]. rewrite Z0 in Ee. change (usub 0 1) with (ULONG - 1)%N in Ee. rewrite N.eqb_refl, orb_true_r in Ee. discriminate. }
        rewrite usub_le in Ee by lia.
        unfold rp, count_int, hr_count, set_hi. cbn [single lo hi]. rewrite Hs.
        rewrite usub_le by lia. unfold wrap. rewrite usub_le by lia. rewrite N.mod_small by lia.
        rewrite INT_MAX_val in Hmax. rewrite to_int_small by lia. f_equal. lia.
  - rewrite He1, He2. rewrite !delete_range_eq. cbn [st_ranges st_nhosts st_iters]. rewrite !firstn_len_app, !skipn_S_len_app. reflexivity.
Qed.

Theorem pop_refines m s : R m s ->
  match ss_names s with
  | [] => st_pop m = ROk (m, None)
  | _ => exists m', st_pop m = ROk (m', nth_error (ss_names s) (length (ss_names s) - 1)) /\
                    R m' (s_remove_at s (length (ss_names s) - 1))
  end.
Proof.
  intros HR. pose proof HR as ((Hok & Hnh & Hmax) & Hnames & Hits). destruct m as [l nh its]. cbn [st_ranges st_nhosts st_iters] in *.
  destruct (ss_names s) as [|x names] eqn:En.
  - symmetry in Hnames. apply expand_nil_inv in Hnames; [|apply ok2_all_ok; auto]. subst l.
    unfold st_pop. cbn [st_nhosts]. cbn in Hnh. subst nh. reflexivity.
  - assert (Hne : ss_names s <> []) by (rewrite En; discriminate).
    rewrite <- En in *. clear x names En.
    destruct (exists_last (l := l)) as (l1 & r & ->); [intros ->; apply Hne; rewrite Hnames; reflexivity|].
    apply Forall_mid in Hok as Hok'. destruct Hok' as (Hok1 & Hr & _).
    assert (Hlen : length (ss_names s) = length (expand l1) + cnt r).
    { rewrite Hnames, expand_app, app_length. cbn [expand flat_map]. rewrite app_nil_r. reflexivity. }
    pose proof (cnt_pos r (ok2_ok r Hr)) as Hc. rewrite <- Hnames in Hnh.
    rewrite pop_eq by (auto; lia). eexists. split.
    + f_equal. f_equal. rewrite Hlen, Hnames. replace (length (expand l1) + cnt r - 1) with (length (expand l1) + (cnt r - 1)) by lia.
      rewrite expand_nth by lia. symmetry. apply range_nth; [apply ok2_ok; auto|lia].
    + rewrite Hlen. replace (length (expand l1) + cnt r - 1) with (length (expand l1) + (cnt r - 1)) by lia.
      apply (remove_step (mkst (l1 ++ [r]) nh its) s l1 r [] (cnt r - 1) false); auto. lia.
Qed.

(* ---------- hostlist_push: the array grows at its tail only ---------- *)
Definition grow (l l' : list hr) : Prop :=
  (forall k, k < length l -> pre l' k = pre l k) /\
  (forall k r, nth_error l k = Some r -> exists r', nth_error l' k = Some r' /\ cnt r <= cnt r').

Lemma grow_refl l : grow l l.
Proof. split; [reflexivity|]. intros k r H. exists r. auto. Qed.

Lemma grow_trans a b c : grow a b -> grow b c -> grow a c.
Proof.
  intros [H1 H2] [H3 H4]. split.
  - intros k Hk. rewrite <- H1 by exact Hk. apply H3.
    destruct (nth_error a k) as [r|] eqn:E; [|apply nth_error_None in E; lia].
    destruct (H2 _ _ E) as (r' & E' & _). apply nth_error_Some. congruence.
  - intros k r E. destruct (H2 _ _ E) as (r' & E' & Hc). destruct (H4 _ _ E') as (r'' & E'' & Hc'). exists r''. split; [auto|lia].
Qed.

Lemma push_range_shape l r : push_range l r = l ++ [r] \/ exists l0 t t', l = l0 ++ [t] /\ push_range l r = l0 ++ [t'].
Proof.
  induction l as [|x l IH]; [left; reflexivity|].
  destruct l as [|y l'].
  - cbn [push_range]. destruct (prefix_cmp0 x r && (hi x =? usub (lo r) 1)%N); [|left; reflexivity].
    destruct (width_equiv (lo x) (wid x) (lo r) (wid r)) as [[wt wr]|]; [|left; reflexivity].
    right. exists [], x. eexists. split; reflexivity.
  - change (push_range (x :: y :: l') r) with (x :: push_range (y :: l') r).
    destruct IH as [->|(l0 & t & t' & -> & ->)]; [left; reflexivity|].
    right. exists (x :: l0), t, t'. split; reflexivity.
Qed.

Lemma grow_push_range l r : Forall hr_ok l -> hr_ok r -> grow l (push_range l r).
Proof.
  intros Hl Hr. destruct (push_range_shape l r) as [->|(l0 & t & t' & -> & E)].
  - split.
    + intros k Hk. apply pre_app1. lia.
    + intros k x H. exists x. split; [|lia]. rewrite nth_error_app_l'; [exact H|]. apply nth_error_Some. congruence.
  - pose proof (push_range_expand _ _ Hl Hr) as He. rewrite E in *.
    rewrite !expand_app in He. cbn [expand flat_map] in He. rewrite !app_nil_r, <- app_assoc in He. apply app_inv_head in He.
    split.
    + intros k Hk. rewrite app_length in Hk. cbn [length] in Hk. rewrite !pre_app1 by lia. reflexivity.
    + intros k x H. destruct (lt_dec k (length l0)) as [Hk|Hk].
      * rewrite nth_error_app_l' in H |- * by exact Hk. exists x. auto.
      * assert (k = length l0 + 0) as ->.
        { assert (k < length (l0 ++ [t])) by (apply nth_error_Some; congruence). rewrite app_length in *. cbn [length] in *. lia. }
        rewrite nth_error_app_r' in H |- *. cbn [nth_error] in *. injection H as <-. exists t'. split; [reflexivity|].
        unfold cnt. rewrite He, app_length. lia.
Qed.

Lemma grow_push_list rs : Forall hr_ok rs -> forall h, Forall hr_ok (ranges h) ->
  grow (ranges h) (ranges (fold_left hl_push_range rs h)).
Proof.
  induction 1 as [|r rs Hr Hrs IH]; intros h Hh; cbn [fold_left]; [apply grow_refl|].
  eapply grow_trans; [|apply IH; unfold hl_push_range; cbn [ranges]; apply push_range_ok; auto].
  unfold hl_push_range. cbn [ranges]. apply grow_push_range; auto.
Qed.

Lemma iter_ok_grow l l' it si : grow l l' -> iter_ok l it si -> iter_ok l' it si.
Proof.
  intros [G1 G2] [(H0 & H1 & Hn) [Hpos Hcur]].
  destruct (nth_error l (Z.to_nat (it_idx it))) as [r|] eqn:E.
  - destruct (G2 _ _ E) as (r' & E' & Hc). split.
    + split; [exact H0|]. split; [exact H1|]. rewrite E'. lia.
    + split; [|exact Hcur]. rewrite Hpos. unfold cursor. rewrite G1; [reflexivity|]. apply nth_error_Some. congruence.
  - destruct Hn as (-> & Hi & Hd & Hh). split.
    + split; [exact H0|]. split; [exact H1|]. rewrite Hi. cbn [Z.to_nat].
      destruct l' as [|r' l'']; cbn [nth_error]; [tauto|lia].
    + split; [|exact Hcur]. rewrite Hpos. unfold cursor. rewrite Hi. reflexivity.
Qed.

Lemma iters_ok_impl l l' its sits :
  (forall it si, iter_ok l it si -> iter_ok l' it si) -> iters_ok l its sits -> iters_ok l' its sits.
Proof. intros H. unfold iters_ok. induction 1 as [|a b its sits Hab _ IH]; constructor; auto.
  destruct a, b; cbn in *; auto. Qed.

Lemma fold_push_inv rs : Forall hr_ok rs -> forall h, hl_inv h -> hl_inv (fold_left hl_push_range rs h).
Proof. induction 1 as [|r rs Hr _ IH]; intros h Hh; cbn [fold_left]; auto. apply IH. apply hl_push_range_inv; auto. Qed.

(* pushing an expression whose ranges are well formed appends its expansion *)
Theorem push_refines m s e t : R m s -> create e = Ok t -> Forall hr_ok2 (ranges t) ->
  (Z.of_nat (length (ss_names s) + length (expand (ranges t))) <= INT_MAX)%Z ->
  exists m', st_push m e = ROk (m', Z.of_nat (length (expand (ranges t)))) /\
             R m' (mkss (ss_names s ++ expand (ranges t)) (ss_iters s)).
Proof.
  intros ((Hok & Hnh & Hmax) & Hnames & Hits) Hc Ht Hb. unfold st_push. rewrite Hc.
  set (h := push_list (hl_of_st m) t).
  assert (Hext : extends (hl_of_st m) h (expand (ranges t))).
  { apply push_list_ext; auto. }
  destruct Hext as [Hok' Hexp]. cbn [hl_of_st ranges] in Hexp.
  assert (Hinv : hl_inv h).
  { apply fold_push_inv; [apply ok2_all_ok; auto|]. split; [apply ok2_all_ok; exact Hok|]. cbn [hl_of_st ranges nhosts]. lia. }
  destruct Hinv as (_ & Hlen & Hpos).
  destruct (create_size_bound _ _ Hc) as (_ & _ & Hlt).
  assert (Hpt : hl_inv t). { unfold create in Hc. apply (create_loop_inv _ _ _ _ Hc hl_empty_inv). }
  destruct Hpt as (_ & _ & Hpt).
  assert (Hn' : nhosts h = Z.of_nat (length (expand (ranges h)))) by lia.
  rewrite Hexp, app_length, <- Hnames in Hn'.
  assert ((INT_MAX <? nhosts h)%Z = false) as -> by lia.
  eexists. split; [f_equal; f_equal; lia|].
  split; [split; [exact Hok'|cbn [st_nhosts st_ranges]; rewrite Hexp, app_length, <- Hnames; lia]|].
  cbn [st_ranges st_iters ss_names ss_iters]. split; [rewrite Hexp, Hnames; reflexivity|].
  apply (iters_ok_impl (st_ranges m)); [|exact Hits]. intros it si Hab.
  eapply iter_ok_grow; [|exact Hab]. apply (grow_push_list (ranges t) (ok2_all_ok _ Ht) (hl_of_st m)). apply ok2_all_ok; exact Hok.
Qed.

Theorem push_refines_err m e er : create e = Err er -> st_push m e = ROk (m, 0%Z).
Proof. intros H. unfold st_push. rewrite H. reflexivity. Qed.
