(* S-side of C16: the same operations on a plain ordered list of names.
   Written independently of hostlist.c: no ranges, no widths, no depth.  An iterator is the
   number of names it has already returned (its cursor) and a flag saying whether the name it
   returned last is still in the list (only then may it be removed through the iterator).
   Whenever a name in front of a cursor leaves the list the cursor moves down by one.

   The meaning of a host expression is taken from property C01: `create` followed by `expand`
   (C01_expansion proves this to be the mathematical expansion of the text); C16 is about what
   happens to the list afterwards. *)
From PV Require Export Hostlist.HLEdit.
Local Open Scope nat_scope.

(* ---- plain list operations ---- *)
Fixpoint first_index (x : bytes) (l : list bytes) : option nat :=
  match l with
  | [] => None
  | y :: t => if beq x y then Some 0 else option_map S (first_index x t)
  end.

Fixpoint remove_nth {A} (p : nat) (l : list A) : list A :=
  match l, p with
  | [], _ => []
  | _ :: t, O => t
  | a :: t, S p' => a :: remove_nth p' t
  end.

(* ---- iterators ---- *)
Record siter := mksi { si_pos : nat; si_cur : bool }.
Record sstate := mkss { ss_names : list bytes; ss_iters : list (option siter) }.
Definition ss_empty : sstate := mkss [] [].

(* the name at position p leaves the list *)
Definition si_removed (p : nat) (it : siter) : siter :=
  if p <? si_pos it then mksi (si_pos it - 1) (si_cur it && negb (p =? si_pos it - 1)) else it.
Definition s_remove_at (s : sstate) (p : nat) : sstate :=
  mkss (remove_nth p (ss_names s)) (map (option_map (si_removed p)) (ss_iters s)).

Definition s_delete_host (s : sstate) (name : bytes) : sstate * Z :=
  match first_index name (ss_names s) with
  | Some p => (s_remove_at s p, 1%Z)
  | None => (s, 0%Z)
  end.

(* hostlist_delete: the names of the expression, last first; every occurrence of each is removed *)
Fixpoint s_delete_every (fuel : nat) (s : sstate) (name : bytes) (n : Z) : sstate * Z :=
  match fuel with
  | O => (s, n)
  | S f =>
    match first_index name (ss_names s) with
    | Some p => s_delete_every f (s_remove_at s p) name (n + 1)%Z
    | None => (s, n)
    end
  end.
Fixpoint s_delete_names (s : sstate) (names : list bytes) (n : Z) : sstate * Z :=
  match names with
  | [] => (s, n)
  | x :: rest => let '(s', n') := s_delete_every (length (ss_names s)) s x n in s_delete_names s' rest n'
  end.

Definition expansion (expr : bytes) : option (list bytes) :=
  match create expr with
  | Ok h => Some (expand (ranges h))
  | Err _ => None
  | Fault _ => None
  end.

Definition s_get (s : sstate) (h : nat) : option siter :=
  match nth_error (ss_iters s) h with Some (Some it) => Some it | _ => None end.
Definition s_put (s : sstate) (h : nat) (it : option siter) : sstate :=
  mkss (ss_names s) (set_nth (ss_iters s) h it).

(* one operation; None = the call is outside its contract (position outside the list, removal
   through an iterator that has no current name, dead iterator, uniq: see HLEditFacts) *)
Definition sstep (s : sstate) (o : op) : option (sstate * obs) :=
  let l := ss_names s in
  match o with
  | OPush e =>
    match expansion e with
    | Some names => Some (mkss (l ++ names) (ss_iters s), VInt (Z.of_nat (length names)))
    | None => Some (s, VInt 0)
    end
  | OShift =>
    match l with
    | [] => Some (s, VName None)
    | x :: _ => Some (s_remove_at s 0, VName (Some x))
    end
  | OPop =>
    match l with
    | [] => Some (s, VName None)
    | _ => Some (s_remove_at s (length l - 1), VName (nth_error l (length l - 1)))
    end
  | OCount => Some (s, VInt (Z.of_nat (length l)))
  | ONth n => if (n <? 0)%Z then None else Some (s, VName (nth_error l (Z.to_nat n)))
  | OFind name =>
    Some (s, VInt (match first_index name l with Some p => Z.of_nat p | None => -1 end))
  | ODeleteHost name => let '(s', k) := s_delete_host s name in Some (s', VInt k)
  | ODeleteNth n =>
    if (n <? 0)%Z || (Z.of_nat (length l) <=? n)%Z then None
    else Some (s_remove_at s (Z.to_nat n), VInt 1)
  | ODelete e =>
    match expansion e with
    | Some names => let '(s', k) := s_delete_names s (rev names) 0 in Some (s', VInt k)
    | None => Some (s, VInt 0)
    end
  | OUniq _ => None
  | OIterNew => Some (mkss l (ss_iters s ++ [Some (mksi 0 false)]), VInt (Z.of_nat (length (ss_iters s))))
  | OIterNext h =>
    match s_get s h with
    | None => None
    | Some it =>
      match nth_error l (si_pos it) with
      | Some x => Some (s_put s h (Some (mksi (S (si_pos it)) true)), VName (Some x))
      | None => Some (s_put s h (Some (mksi (si_pos it) false)), VName None)
      end
    end
  | OIterRemove h =>
    match s_get s h with
    | Some it => if si_cur it && (0 <? si_pos it) then Some (s_remove_at s (si_pos it - 1), VInt 1) else None
    | None => None
    end
  | OIterReset h =>
    match s_get s h with Some _ => Some (s_put s h (Some (mksi 0 false)), VUnit) | None => None end
  | OIterDestroy h =>
    match s_get s h with Some _ => Some (s_put s h None, VUnit) | None => None end
  end.

Fixpoint srun (s : sstate) (ops : list op) : option (sstate * list obs) :=
  match ops with
  | [] => Some (s, [])
  | o :: rest =>
    match sstep s o with
    | None => None
    | Some (s', v) =>
      match srun s' rest with
      | None => None
      | Some (s'', vs) => Some (s'', v :: vs)
      end
    end
  end.

(* ---- what removing duplicates must achieve ---- *)
Definition uniq_spec (before after : list bytes) : Prop :=
  NoDup after /\ (forall x, In x after <-> In x before).

(* the names an iterator has not returned yet *)
Definition remaining (s : sstate) (it : siter) : list bytes := skipn (si_pos it) (ss_names s).
