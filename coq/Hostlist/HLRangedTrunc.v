(* The compressed (bracketed) printer when the text does NOT fit: truncation is reported and the buffer holds exactly the first
   n-1 bytes of [ranged_text l], terminated.  With HLRangedFit.ranged_fit this characterises hostlist_ranged_string for
   every list and every buffer size. *)
From PV Require Import Hostlist.HLPrint Hostlist.HLPrintFacts Hostlist.HLFacts Base.DecimalFacts Hostlist.HLRangedFit.
Local Open Scope N_scope.

(* ---------- "the call was cut short at the end N of the region": all but the last byte of the region agree with the text ---------- *)
Definition truncs (buf : buffer) (p : nat) (W : bytes) (N : nat) (b : buffer) : Prop :=
  length b = length buf /\ firstn (N - 1) b = firstn (N - 1) (firstn p buf ++ W).

Lemma firstn_app_cut {A} k (a x y : list A) : (k <= length a)%nat -> firstn k (a ++ x) = firstn k (a ++ y).
Proof. intro H. rewrite !firstn_app_le by exact H. reflexivity. Qed.

Lemma truncs_extend buf p W X N b : truncs buf p W N b -> (p <= length buf)%nat -> (N - 1 <= p + length W)%nat ->
  truncs buf p (W ++ X) N b.
Proof.
  intros [L F] Hp Hn. split; [exact L|]. rewrite F. rewrite app_assoc.
  rewrite <- (app_nil_r (firstn p buf ++ W)) at 1. apply firstn_app_cut.
  rewrite app_length, firstn_length. lia.
Qed.

Lemma truncs_same buf p W N : (N - 1 <= p)%nat -> (p <= length buf)%nat -> truncs buf p W N buf.
Proof.
  intros Hn Hp. split; [reflexivity|].
  rewrite firstn_app_le by (rewrite firstn_length; lia). symmetry. apply firstn_firstn_le. exact Hn.
Qed.

Lemma lays_to_truncs buf p W N b : lays buf p W b -> (N - 1 <= p + length W)%nat -> truncs buf p W N b.
Proof.
  intros [L F] Hn. split; [exact L|]. rewrite <- F. symmetry. apply firstn_firstn_le. exact Hn.
Qed.

Lemma lays_truncs buf p W1 W2 N b1 b2 : lays buf p W1 b1 -> truncs b1 (p + length W1) W2 N b2 ->
  truncs buf p (W1 ++ W2) N b2.
Proof.
  intros [L1 F1] [L2 F2]. split; [congruence|]. rewrite F2, F1, app_assoc. reflexivity.
Qed.

(* whatever happens at or after position N-1 of the region keeps the verdict *)
Lemma truncs_trans buf p W N b1 b2 p2 W2 : truncs buf p W N b1 -> truncs b1 p2 W2 N b2 -> (N - 1 <= p2)%nat -> (N - 1 <= length buf)%nat ->
  truncs buf p W N b2.
Proof.
  intros [L1 F1] [L2 F2] Hn Hp. split; [congruence|]. rewrite F2.
  rewrite firstn_app_le by (rewrite firstn_length; lia). rewrite firstn_firstn_le by exact Hn. exact F1.
Qed.

Lemma truncs_past buf len W n : length buf = n -> (n - 1 <= len)%nat -> truncs buf len W n buf.
Proof.
  intros L H. split; [reflexivity|].
  rewrite firstn_app_le by (rewrite firstn_length; lia). symmetry. apply firstn_firstn_le. exact H.
Qed.

Lemma truncs_store buf p W N b b' pos data : truncs buf p W N b -> store b pos data = Ok b' -> (N - 1 <= pos)%nat ->
  truncs buf p W N b'.
Proof.
  intros [L F] Es Hp. split; [rewrite (store_length _ _ _ _ Es); exact L|].
  rewrite (store_firstn_lo _ _ _ _ (N - 1)%nat Es Hp). exact F.
Qed.

Lemma snprintf_trunc buf off m t N : (off + m = N)%nat -> (N <= length buf)%nat -> (1 <= m)%nat -> (m <= length t)%nat ->
  exists b, snprintf_at buf off m t = Ok b /\ truncs buf off t N b.
Proof.
  intros HN Hb Hm Ht. destruct (snprintf_ex buf off m t) as (b & E & Lb & _ & Hmid & _); [lia|].
  exists b. split; [exact E|]. split; [exact Lb|].
  replace (N - 1)%nat with (off + (m - 1))%nat by lia. rewrite (Hmid (m - 1)%nat) by lia.
  rewrite (firstn_app_ge off); [reflexivity|]. rewrite firstn_length. lia.
Qed.

Lemma numstr_trunc buf off m r N : (off + m = N)%nat -> (N <= length buf)%nat -> (m <= length (numtext r))%nat ->
  exists b k, numstr buf off m r = Ok (b, k) /\ (m <= k)%nat /\ truncs buf off (numtext r) N b.
Proof.
  intros HN Hb Hm. unfold numstr, numtext in *. destruct (single r).
  - cbn [length] in Hm. exists buf, O. split; [reflexivity|]. split; [lia|]. apply truncs_same; lia.
  - destruct m as [|m'].
    + exists buf, O. split; [reflexivity|]. split; [lia|]. apply truncs_same; lia.
    + set (t1 := fmt (wid r) (lo r)) in *. rewrite app_length in Hm.
      destruct (Nat.le_gt_cases (S m') (length t1)) as [H1|H1].
      * destruct (snprintf_trunc buf off (S m') t1 N HN Hb) as (b1 & E1 & T1); [lia|exact H1|].
        rewrite E1. cbn [bind].
        assert (Hl : (length t1 <? S m')%nat = false) by (apply Nat.ltb_ge; lia). rewrite Hl. cbn [andb].
        exists b1, (length t1). split; [reflexivity|]. split; [lia|]. apply truncs_extend; [exact T1|lia|lia].
      * destruct (snprintf_lays buf off (S m') t1) as (b1 & E1 & Y1); [lia|lia|].
        rewrite E1. cbn [bind].
        assert (Hl : (length t1 <? S m')%nat = true) by (apply Nat.ltb_lt; lia). rewrite Hl. cbn [andb].
        destruct (lo r <? hi r) eqn:Elh; [|cbn [length] in Hm; lia].
        set (t2 := 45 :: fmt (wid r) (hi r)) in *.
        destruct (snprintf_trunc b1 (off + length t1) (S m' - length t1) t2 N) as (b2 & E2 & T2).
        { lia. } { destruct Y1 as [L1 _]. lia. } { lia. } { lia. }
        rewrite E2. cbn [bind]. exists b2, (length t1 + length t2)%nat. split; [reflexivity|]. split; [lia|].
        eapply lays_truncs; eassumption.
Qed.

Lemma gbl_loop_trunc l bn : forall s fuel i buf off n len N,
  skipn i l = s -> s <> [] -> (length s <= fuel)%nat ->
  (off + n = N)%nat -> (N <= length buf)%nat -> (len <= n)%nat -> (n <= len + length (fst (body bn s)))%nat ->
  exists b k i', gbl_loop fuel l buf off n bn len i = Ok (b, k, i') /\ (n <= k)%nat /\
                 truncs buf (off + len) (fst (body bn s)) N b.
Proof.
  induction s as [|r rest IH]; intros fuel i buf off n len N Hs Hne Hf HN Hb Hlen Hcut; [congruence|].
  destruct fuel as [|f]; [cbn [length] in Hf; lia|].
  destruct (skipn_cons_nth _ _ _ _ Hs) as (Hn & Hs' & Hi).
  cbn [gbl_loop]. rewrite Hn.
  set (sep := if bn then [44] else []).
  assert (Lsep : (length sep <= 1)%nat) by (unfold sep; destruct bn; cbn [length]; lia).
  assert (Hbody : fst (body bn (r :: rest)) = (numtext r ++ sep) ++
            match rest with r' :: _ => if within_range r' r then fst (body bn rest) else [] | [] => [] end).
  { rewrite body_cons. fold sep. destruct rest as [|r' rest']; [cbn [fst]; rewrite app_nil_r; reflexivity|].
    destruct (within_range r' r); cbn [fst]; [reflexivity|rewrite app_nil_r; reflexivity]. }
  rewrite Hbody in *. rewrite !app_length in Hcut.
  destruct (Nat.lt_ge_cases (len + length (numtext r)) n) as [Hfit|Hnofit].
  - destruct (numstr_fit buf (off + len) (n - len) r) as (b1 & E1 & Y1); [lia|lia|].
    rewrite E1. cbn [bind].
    assert (Hle : (n <=? len + length (numtext r))%nat = false) by (apply Nat.leb_gt; lia). rewrite Hle.
    assert (Hsep : exists b2, (if bn then bind (store b1 (off + (len + length (numtext r))) [44]) (fun b => Ok (b, S (len + length (numtext r))))
                               else Ok (b1, (len + length (numtext r))%nat))
                              = Ok (b2, (len + length (numtext r ++ sep))%nat) /\ lays buf (off + len) (numtext r ++ sep) b2).
    { unfold sep. destruct bn.
      - destruct (store_lays b1 (off + (len + length (numtext r))) [44]) as (b2 & E2 & Y2).
        { destruct Y1 as [L1 _]. rewrite L1. cbn [length]. lia. }
        rewrite E2. cbn [bind]. exists b2. rewrite app_length. cbn [length]. split; [f_equal; f_equal; lia|].
        eapply lays_app; [exact Y1|]. replace (off + len + length (numtext r))%nat with (off + (len + length (numtext r)))%nat by lia. exact Y2.
      - exists b1. rewrite app_nil_r. split; [reflexivity|exact Y1]. }
    destruct Hsep as (b2 & E2 & Y2). rewrite E2. cbn [bind].
    assert (L2 : length b2 = length buf) by (destruct Y2; assumption).
    assert (Lns : length (numtext r ++ sep) = (length (numtext r) + length sep)%nat) by apply app_length.
    assert (Stop : (n <= len + length (numtext r ++ sep))%nat -> truncs buf (off + len) ((numtext r ++ sep) ++ []) N b2).
    { intros Hj. rewrite app_nil_r. apply lays_to_truncs; [exact Y2|lia]. }
    destruct rest as [|r' rest'].
    + destruct (skipn_nil_nth _ _ Hs') as (Hn' & _). rewrite Hn'. cbn [length] in Hcut. exists b2, (len + length (numtext r ++ sep))%nat, (S i). split; [reflexivity|]. split; [lia|apply Stop; lia].
    + destruct (skipn_cons_nth _ _ _ _ Hs') as (Hn' & _ & _). rewrite Hn'.
      destruct (within_range r' r) eqn:Ew.
      * destruct (IH f (S i) b2 off n (len + length (numtext r ++ sep))%nat N Hs') as (b3 & k & i' & E3 & K3 & T3).
        { discriminate. } { cbn [length] in *. lia. } { exact HN. } { lia. } { lia. } { lia. }
        rewrite E3. exists b3, k, i'. split; [reflexivity|]. split; [exact K3|].
        eapply lays_truncs; [exact Y2|].
        replace (off + len + length (numtext r ++ sep))%nat with (off + (len + length (numtext r ++ sep)))%nat by lia. exact T3.
      * cbn [length] in Hcut. exists b2, (len + length (numtext r ++ sep))%nat, (S i). split; [reflexivity|]. split; [lia|apply Stop; lia].
  - destruct (numstr_trunc buf (off + len) (n - len) r N) as (b1 & k & E1 & K1 & T1); [lia|exact Hb|lia|].
    rewrite E1. cbn [bind].
    assert (Hle : (n <=? len + k)%nat = true) by (apply Nat.leb_le; lia). rewrite Hle.
    exists b1, (len + k)%nat, i. split; [reflexivity|]. split; [lia|].
    rewrite <- !app_assoc. apply truncs_extend; [exact T1|lia|lia].
Qed.

Lemma snprintf_trunc0 buf off m t N : (off + m = N)%nat -> (N <= length buf)%nat -> (m <= length t)%nat ->
  exists b, snprintf_at buf off m t = Ok b /\ truncs buf off t N b.
Proof.
  intros HN Hb Hm. destruct m as [|m'].
  - exists buf. split; [reflexivity|]. apply truncs_same; lia.
  - apply snprintf_trunc; try assumption. lia.
Qed.

Lemma gbl_trunc l i s buf off n N :
  skipn i l = s -> s <> [] -> (off + n = N)%nat -> (N <= length buf)%nat -> (n <= length (fst (gtext s)))%nat ->
  exists b k i', get_bracketed_list l buf off n i = Ok (b, k, i') /\ (n <= k)%nat /\ truncs buf off (fst (gtext s)) N b.
Proof.
  intros Hs Hne HN Hb Hcut.
  pose proof (bracket_needed_brk l i s Hs Hne) as Hbn.
  destruct s as [|r rest] eqn:Es; [congruence|]. rewrite <- Es in *.
  destruct (skipn_cons_nth i l r rest) as (Hn & _ & Hi); [congruence|].
  unfold get_bracketed_list. rewrite Hn, Hbn.
  assert (Eg : gtext s = (pfx r ++ (if brk s then [91] ++ removelast (fst (body (brk s) s)) ++ [93] else fst (body (brk s) s)), snd (body (brk s) s))).
  { rewrite Es. reflexivity. }
  rewrite Eg in *. cbn [fst snd] in *. clear Eg.
  set (bd := body (brk s) s) in *.
  assert (Hlen : length (pfx r ++ (if brk s then [91] ++ removelast (fst bd) ++ [93] else fst bd))
                 = (length (pfx r) + (if brk s then 1 else 0) + length (fst bd))%nat).
  { rewrite app_length. destruct (brk s) eqn:Eb.
    - destruct (body_true_last s) as (t & Et); [rewrite Es; discriminate|]. unfold bd. rewrite Et.
      rewrite removelast_last, !app_length. cbn [length]. lia.
    - lia. }
  rewrite Hlen in Hcut.
  assert (Hs_len : (length s <= S (length l))%nat) by (rewrite <- Hs, skipn_length; lia).
  destruct (Nat.le_gt_cases n (length (pfx r))) as [Hp|Hp].
  - (* the prefix alone fills the region *)
    destruct (snprintf_trunc0 buf off n (pfx r) N HN Hb Hp) as (b0 & E0 & T0). rewrite E0. cbn [bind].
    destruct (n <? length (pfx r))%nat eqn:E1.
    + exists b0, n, i. split; [reflexivity|]. split; [lia|]. apply truncs_extend; [exact T0|lia|lia].
    + apply Nat.ltb_ge in E1. assert (En : n = length (pfx r)) by lia.
      assert (H1 : (length (pfx r) <? n)%nat = false) by (apply Nat.ltb_ge; lia). rewrite H1, andb_false_r. cbn [bind].
      assert (L0 : length b0 = length buf) by (destruct T0; assumption).
      destruct (gbl_loop_trunc l (brk s) s (S (length l)) i b0 off n (length (pfx r)) N Hs Hne Hs_len HN) as (b2 & k & i' & E2 & K2 & T2); [lia|lia|lia|].
      fold bd in T2. rewrite E2. cbn [bind].
      assert (Hk : (k <? n)%nat = false) by (apply Nat.ltb_ge; lia). rewrite Hk, andb_false_r. cbn [andb].
      assert (Hk2 : (n <=? k)%nat = true) by (apply Nat.leb_le; lia). rewrite Hk2.
      assert (T02 : truncs buf off (pfx r) N b2).
      { eapply truncs_trans; [exact T0|exact T2|lia|lia]. }
      destruct (0 <? n)%nat eqn:E3.
      * apply Nat.ltb_lt in E3.
        destruct (store_ex b2 (off + n - 1) [0]) as (b3 & Es3 & _).
        { destruct T02 as [L _]. rewrite L. cbn [length]. lia. }
        rewrite Es3. cbn [bind]. exists b3, k, i'. split; [reflexivity|]. split; [exact K2|].
        apply truncs_extend; [|lia|lia]. eapply truncs_store; [exact T02|exact Es3|lia].
      * exists b2, k, i'. split; [reflexivity|]. split; [exact K2|]. apply truncs_extend; [exact T02|lia|lia].
  - destruct (snprintf_lays buf off n (pfx r)) as (b0 & E0 & Y0); [lia|lia|]. rewrite E0. cbn [bind].
    assert (H0 : (n <? length (pfx r))%nat = false) by (apply Nat.ltb_ge; lia). rewrite H0.
    assert (H1 : (length (pfx r) <? n)%nat = true) by (apply Nat.ltb_lt; lia). rewrite H1, andb_true_r.
    set (open := if brk s then [91] else []).
    assert (Hopen : exists b1, (if brk s then bind (store b0 (off + length (pfx r)) [91]) (fun b => Ok (b, S (length (pfx r)))) else Ok (b0, length (pfx r)))
                               = Ok (b1, length (pfx r ++ open)) /\ lays buf off (pfx r ++ open) b1).
    { unfold open. destruct (brk s).
      - destruct (store_lays b0 (off + length (pfx r)) [91]) as (b1 & E1 & Y1).
        { destruct Y0 as [L0 _]. rewrite L0. cbn [length]. lia. }
        rewrite E1. cbn [bind]. exists b1. rewrite app_length. cbn [length]. split; [f_equal; f_equal; lia|].
        eapply lays_app; eassumption.
      - exists b0. rewrite app_nil_r. split; [reflexivity|exact Y0]. }
    destruct Hopen as (b1 & E1 & Y1). rewrite E1. cbn [bind].
    assert (Lo : length (pfx r ++ open) = (length (pfx r) + (if brk s then 1 else 0))%nat).
    { rewrite app_length. unfold open. destruct (brk s); cbn [length]; lia. }
    assert (L1 : length b1 = length buf) by (destruct Y1; assumption).
    destruct (gbl_loop_trunc l (brk s) s (S (length l)) i b1 off n (length (pfx r ++ open)) N Hs Hne Hs_len HN) as (b2 & k & i' & E2 & K2 & T2).
    { lia. } { destruct (brk s); lia. } { fold bd. lia. }
    fold bd in T2. rewrite E2. cbn [bind].
    assert (Hk : (k <? n)%nat = false) by (apply Nat.ltb_ge; lia). rewrite Hk, andb_false_r. cbn [andb].
    assert (Hk2 : (n <=? k)%nat = true) by (apply Nat.leb_le; lia). rewrite Hk2.
    assert (Hn0 : (0 <? n)%nat = true) by (apply Nat.ltb_lt; lia). rewrite Hn0.
    assert (T12 : truncs buf off ((pfx r ++ open) ++ fst bd) N b2) by (eapply lays_truncs; eassumption).
    destruct (store_ex b2 (off + n - 1) [0]) as (b3 & Es3 & _).
    { destruct T12 as [L _]. rewrite L. cbn [length]. lia. }
    rewrite Es3. cbn [bind]. exists b3, k, i'. split; [reflexivity|]. split; [exact K2|].
    assert (T3 : truncs buf off ((pfx r ++ open) ++ fst bd) N b3) by (eapply truncs_store; [exact T12|exact Es3|lia]).
    unfold open in *. destruct (brk s) eqn:Eb.
    + destruct (body_true_last s) as (t & Et); [rewrite Es; discriminate|].
      assert (Ebd : fst bd = t ++ [44]) by (unfold bd; exact Et).
      rewrite Ebd in *. rewrite removelast_last. destruct T3 as [L3 F3]. split; [exact L3|]. rewrite F3.
      rewrite app_length in Hcut. cbn [length] in Hcut.
      replace (firstn off buf ++ (pfx r ++ [91]) ++ t ++ [44]) with ((firstn off buf ++ (pfx r ++ [91]) ++ t) ++ [44]) by (rewrite <- !app_assoc; reflexivity).
      replace (firstn off buf ++ pfx r ++ [91] ++ t ++ [93]) with ((firstn off buf ++ (pfx r ++ [91]) ++ t) ++ [93]) by (rewrite <- !app_assoc; reflexivity).
      apply firstn_app_cut. rewrite !app_length, firstn_length. cbn [length]. lia.
    + rewrite app_nil_r in T3. exact T3.
Qed.

Lemma more_ranges' {A} i (l s : list A) : skipn i l = s -> (i <? length l)%nat = negb (is_nil s).
Proof.
  intros Hs. pose proof (skipn_length i l) as E. rewrite Hs in E.
  destruct s; cbn [is_nil negb length] in *; [apply Nat.ltb_ge|apply Nat.ltb_lt]; lia.
Qed.

Lemma ranged_loop_trunc l n : (1 <= n)%nat -> forall fuel i s buf len,
  skipn i l = s -> length buf = n -> (n <= len + length (rtext fuel s len))%nat ->
  exists b k, ranged_loop fuel l buf n len i = Ok (b, k) /\ (n <= k)%nat /\ truncs buf len (rtext fuel s len) n b.
Proof.
  intros Hn1. induction fuel as [|f IH]; intros i s buf len Hs Hb Hcut.
  - cbn [ranged_loop rtext length] in *. exists buf, len. split; [reflexivity|]. split; [lia|]. apply truncs_past; [exact Hb|lia].
  - cbn [ranged_loop]. rewrite (more_ranges' i l s Hs).
    destruct s as [|r rest] eqn:Es.
    + cbn [is_nil negb andb rtext length] in *. exists buf, len. split; [reflexivity|]. split; [lia|]. apply truncs_past; [exact Hb|lia].
    + rewrite <- Es in *. assert (Hne : s <> []) by (rewrite Es; discriminate).
      assert (Ert : rtext (S f) s len =
                    if (0 <? len + length (fst (gtext s)))%nat && negb (is_nil (snd (gtext s)))
                    then fst (gtext s) ++ 44 :: rtext f (snd (gtext s)) (S (len + length (fst (gtext s))))
                    else fst (gtext s) ++ rtext f (snd (gtext s)) (len + length (fst (gtext s)))).
      { rewrite Es. reflexivity. }
      rewrite Ert in *. clear Ert.
      set (g := gtext s) in *.
      assert (Hnn : negb (is_nil s) = true) by (rewrite Es; reflexivity). rewrite Hnn. cbn [andb].
      destruct (len <? n)%nat eqn:Elt.
      2:{ apply Nat.ltb_ge in Elt. exists buf, len. split; [reflexivity|]. split; [exact Elt|]. apply truncs_past; [exact Hb|lia]. }
      apply Nat.ltb_lt in Elt.
      destruct (Nat.lt_ge_cases (len + length (fst g)) n) as [Hg|Hg].
      * destruct (gbl_fit l i s buf len (n - len) Hs Hne) as (b1 & i' & E1 & Y1 & S1 & I1); [lia|fold g; lia|].
        fold g in E1, Y1, S1. rewrite E1. cbn [bind].
        assert (L1 : length b1 = n) by (destruct Y1 as [L _]; lia).
        rewrite (more_ranges' i' l (snd g) S1).
        assert (Hlt1 : (len + length (fst g) <? n)%nat = true) by (apply Nat.ltb_lt; lia). rewrite Hlt1, andb_true_r.
        destruct ((0 <? len + length (fst g))%nat && negb (is_nil (snd g))) eqn:Ec.
        -- rewrite app_length in Hcut. cbn [length] in Hcut.
           destruct (store_lays b1 (len + length (fst g)) [44]) as (b2 & E2 & Y2); [cbn [length]; lia|].
           rewrite E2. cbn [bind].
           destruct (IH i' (snd g) b2 (S (len + length (fst g))) S1) as (b3 & k & E3 & K3 & T3); [destruct Y2 as [L _]; lia|lia|].
           rewrite E3. exists b3, k. split; [reflexivity|]. split; [exact K3|].
           eapply lays_truncs; [exact Y1|].
           change (44 :: rtext f (snd g) (S (len + length (fst g)))) with ([44] ++ rtext f (snd g) (S (len + length (fst g)))).
           eapply lays_truncs; [exact Y2|]. cbn [length]. replace (len + length (fst g) + 1)%nat with (S (len + length (fst g))) by lia. exact T3.
        -- rewrite app_length in Hcut.
           destruct (IH i' (snd g) b1 (len + length (fst g))%nat S1) as (b3 & k & E3 & K3 & T3); [exact L1|lia|].
           rewrite E3. exists b3, k. split; [reflexivity|]. split; [exact K3|].
           eapply lays_truncs; [exact Y1|exact T3].
      * destruct (gbl_trunc l i s buf len (n - len) n Hs Hne) as (b1 & k & i' & E1 & K1 & T1); [lia|lia|fold g; lia|].
        fold g in T1. rewrite E1. cbn [bind].
        assert (L1 : length b1 = n) by (destruct T1 as [L _]; lia).
        assert (Hlt1 : (len + k <? n)%nat = false) by (apply Nat.ltb_ge; lia). rewrite Hlt1, andb_false_r. cbn [andb].
        destruct (IH i' (skipn i' l) b1 (len + k)%nat eq_refl L1) as (b3 & k3 & E3 & K3 & T3); [lia|].
        rewrite E3. exists b3, k3. split; [reflexivity|]. split; [exact K3|].
        assert (Tg : truncs buf len (fst g) n b3) by (eapply truncs_trans; [exact T1|exact T3|lia|lia]).
        destruct ((0 <? len + length (fst g))%nat && negb (is_nil (snd g))); apply truncs_extend; try exact Tg; lia.
Qed.

Theorem ranged_truncation l buf : ~ In 0 (ranged_text l) -> buf <> [] -> (length buf <= length (ranged_text l))%nat ->
  exists b, ranged_string l buf = Ok (b, None) /\ cstring b = Some (firstn (length buf - 1) (ranged_text l)).
Proof.
  intros Hnul Hne Hcut. assert (Hn1 : (1 <= length buf)%nat) by (destruct buf; [congruence|cbn [length]; lia]).
  unfold ranged_string.
  destruct (ranged_loop_trunc l (length buf) Hn1 (S (length l)) 0 l buf 0) as (b1 & k & E1 & K1 & T1); [reflexivity|reflexivity|exact Hcut|].
  fold (ranged_text l) in T1. rewrite E1. cbn [bind].
  assert (Hle : (length buf <=? k)%nat = true) by (apply Nat.leb_le; lia). rewrite Hle.
  assert (H0 : (0 <? length buf)%nat = true) by (apply Nat.ltb_lt; lia). rewrite H0.
  destruct T1 as [L1 F1].
  destruct (store_lays b1 (length buf - 1) [0]) as (b & E & Y); [rewrite L1; cbn [length]; lia|].
  rewrite E. cbn [bind]. exists b. split; [reflexivity|].
  apply cstring_firstn.
  - intro H. apply Hnul. eapply In_firstn; exact H.
  - rewrite firstn_length. replace (Nat.min (length buf - 1) (length (ranged_text l))) with (length buf - 1)%nat by lia.
    destruct Y as [_ F]. cbn [length] in F. rewrite F. f_equal. rewrite F1. cbn [firstn app]. reflexivity.
Qed.
