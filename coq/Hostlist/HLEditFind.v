(* C16 proofs, part 2: hostlist_find, hostlist_delete_host, hostlist_delete refine the plain list.
   find_sound and the lemmas about hostrange_hn_within come from the C02 development
   (Args/ExcludeHLFacts.v); completeness is re-stated here for a domain on the NAME looked up
   (D02n: its trailing digits, read as a number, do not exceed MAX_HOST_SUFFIX), which needs no
   assumption on the list. *)
From Coq Require Import ZifyBool ZifyNat ZifyN.
From PV Require Import Base.DecimalFacts Hostlist.HLFacts Hostlist.HLSpec Hostlist.HLParseFacts Hostlist.HLLimits.
From PV Require Import Args.ExcludeHLFacts.
From PV Require Export Hostlist.HLEditFacts.
Local Open Scope nat_scope.

Definition D02n (name : bytes) : Prop := (value (snd (split_suffix name)) <= MAX_HOST_SUFFIX)%N.

(* every range that holds the name reports it *)
Lemma hn_within_complete_n r name :
  hr_ok r -> (hr_count r <= I31)%N -> D02n name -> In name (range_hosts r) ->
  exists off w, hn_within (length name) r (hostname_create name) = (off, w) /\ (0 <= off)%Z.
Proof.
  intros Hok Hc HD Hin. destruct (single r) eqn:Es.
  - unfold range_hosts in Hin. rewrite Es in Hin. destruct Hin as [<-|[]].
    exists 0%Z, (wid r). split; [|lia].
    destruct (length (pfx r)); cbn [hn_within]; rewrite Es; destruct (hostname_create_wf (pfx r)) as [_ ->];
      rewrite beq_refl; reflexivity.
  - rewrite ExcludeHLFacts.range_hosts_nnames in Hin by auto. apply ExcludeHLFacts.nnames_In in Hin as (n & Hn & ->).
    pose proof Hok as Hok'. unfold hr_ok in Hok'. rewrite Es in Hok'. destruct Hok' as [Hlh Hhi].
    rewrite hr_count_ok in Hc by auto. rewrite Es in Hc.
    assert (Hn' : (lo r <= n <= hi r)%N) by lia.
    set (F := fmt (wid r) n). set (P0 := fst (split_suffix (pfx r))). set (D := digit_tail (pfx r)).
    assert (HP : pfx r = P0 ++ D) by (symmetry; apply split_suffix_app).
    assert (HDd : forallb is_digit D = true) by apply split_suffix_digits.
    assert (Hv : (value (D ++ F) <= MAX_HOST_SUFFIX)%N).
    { unfold D02n in HD. fold F in HD. rewrite split_suffix_app_digits in HD by apply fmt_all_digit. exact HD. }
    assert (Ecr : hostname_create (pfx r ++ F) = mkhn (pfx r ++ F) (P0 ++ []) (value (D ++ F)) (Some (D ++ F))).
    { unfold hostname_create. rewrite split_suffix_app_digits by apply fmt_all_digit. cbn [fst].
      fold P0. fold D. fold F. unfold hostname_with_suffix.
      assert (Esk : skipn (length P0) (pfx r ++ F) = D ++ F) by (rewrite HP, <- app_assoc; apply skipn_app_len).
      assert (Efn : firstn (length P0) (pfx r ++ F) = P0 ++ []).
      { rewrite HP, <- app_assoc, firstn_app, Nat.sub_diag, firstn_all. cbn [firstn]. reflexivity. }
      rewrite Esk, Efn.
      destruct (D ++ F) as [|c s'] eqn:Es'; [destruct D; cbn [app] in Es'; [exfalso; revert Es'; apply fmt_nonempty|congruence]|].
      assert (Hds : forallb is_digit (c :: s') = true).
      { rewrite <- Es', forallb_app, HDd. unfold F. rewrite fmt_all_digit. reflexivity. }
      assert (Hcne : c :: s' <> []) by (intro Hx; discriminate Hx).
      rewrite (strtoul_digits _ Hcne Hds).
      pose proof MAX_HOST_SUFFIX_small.
      assert ((ULONG <=? value (c :: s'))%N = false) as -> by lia.
      assert ((value (c :: s') <=? MAX_HOST_SUFFIX)%N = true) as -> by lia.
      reflexivity. }
    rewrite Ecr. apply (hn_within_peel r n P0 F D [] (length (pfx r ++ F))); auto.
    + rewrite app_length, HP, app_length. lia.
Qed.

Lemma find_loop_complete_n name : D02n name -> forall l count l' ret,
  Forall hr_ok l -> (0 <= count)%Z -> (count + Z.of_nat (length (expand l)) <= 2147483647)%Z ->
  find_loop l (hostname_create name) count = (l', ret) -> In name (expand l) ->
  exists k, ret = (count + Z.of_nat k)%Z /\ nth_error (expand l) k = Some name /\ ~ In name (firstn k (expand l)).
Proof.
  intros HD. destruct (hostname_create_wf name) as [Hwf Hnm].
  induction l as [|r rest IH]; intros count l' ret Hok Hc Hb H Hin; [destruct Hin|].
  cbn [find_loop] in H. inversion Hok as [|? ? Hr Hrest]; subst.
  rewrite expand_cons in *. rewrite app_length in Hb.
  pose proof (range_len_count r Hr) as Hcnt. rewrite Hnm in H.
  destruct (hn_within (length name) r (hostname_create name)) as [off w] eqn:Ew.
  pose proof Ew as Ew2. apply hn_within_sound in Ew2 as [Hw Hoff]; auto; [|unfold I31; lia].
  rewrite Hnm in Hoff.
  destruct (0 <=? off)%Z eqn:Eo.
  - injection H as <- <-. exists (Z.to_nat off). specialize (Hoff ltac:(lia)).
    assert (Hlt : (Z.to_nat off < length (range_hosts r))%nat) by (apply nth_error_Some; congruence).
    split; [lia|]. split; [rewrite nth_error_app_l'; auto|].
    rewrite firstn_app. replace (Z.to_nat off - length (range_hosts r))%nat with 0%nat by lia.
    cbn [firstn]. rewrite app_nil_r. apply NoDup_firstn_nth; auto using range_hosts_NoDup.
  - assert (Hnot : ~ In name (range_hosts r)).
    { intros Hir. destruct (hn_within_complete_n r name Hr) as (off' & w' & E' & Hpos); auto; [unfold I31; lia|].
      rewrite Ew in E'. injection E' as -> ->. lia. }
    apply in_app_or in Hin as [Hin|Hin]; [contradiction|].
    rewrite ExcludeHLFacts.to_int_small in H by lia.
    destruct (find_loop rest (hostname_create name) (count + Z.of_N (hr_count r))) as [rest' ret'] eqn:Er.
    injection H as <- <-. apply IH in Er as (k & -> & Hk & Hfirst); auto; try lia.
    exists (length (range_hosts r) + k)%nat. split; [lia|]. split; [rewrite nth_error_app_r'; exact Hk|].
    rewrite firstn_app. replace (length (range_hosts r) + k - length (range_hosts r))%nat with k by lia.
    rewrite firstn_all2 by lia. intros Hx. apply in_app_or in Hx as [Hx|Hx]; contradiction.
Qed.

(* ---------- first_index on the plain list ---------- *)
Lemma first_index_spec x l :
  match first_index x l with
  | Some k => nth_error l k = Some x /\ ~ In x (firstn k l)
  | None => ~ In x l
  end.
Proof.
  induction l as [|y l IH]; cbn [first_index]; [tauto|].
  destruct (beq x y) eqn:E.
  - apply beq_eq in E. subst. cbn. tauto.
  - apply beq_neq in E. destruct (first_index x l) as [k|]; cbn [option_map nth_error firstn In].
    + destruct IH as [H1 H2]. split; [exact H1|]. intros [H|H]; [congruence|contradiction].
    + intros [H|H]; [congruence|contradiction].
Qed.

Lemma first_unique {A} (l : list A) x j k :
  nth_error l j = Some x -> ~ In x (firstn j l) -> nth_error l k = Some x -> ~ In x (firstn k l) -> j = k.
Proof.
  intros Hj Hnj Hk Hnk. destruct (lt_eq_lt_dec j k) as [[H|H]|H]; [|exact H|].
  - exfalso. apply Hnk. rewrite <- (nth_error_firstn_lt l k j H) in Hj. eapply nth_error_In; eauto.
  - exfalso. apply Hnj. rewrite <- (nth_error_firstn_lt l j k H) in Hk. eapply nth_error_In; eauto.
Qed.

(* transfer of the relation to an array that differs in width fields only *)
Lemma req_cnt r r' : req r r' -> cnt r' = cnt r.
Proof. intros H. unfold cnt. rewrite (req_range_hosts _ _ H). reflexivity. Qed.

Lemma leq_firstn l l' k : Forall2 req l l' -> Forall2 req (firstn k l) (firstn k l').
Proof. intros H. revert k. induction H; intros [|k]; cbn [firstn]; constructor; auto. Qed.

Lemma leq_pre l l' k : Forall2 req l l' -> pre l' k = pre l k.
Proof. intros H. unfold pre. rewrite (leq_expand _ _ (leq_firstn _ _ k H)). reflexivity. Qed.

Lemma leq_nth l l' k : Forall2 req l l' ->
  match nth_error l k, nth_error l' k with
  | Some r, Some r' => req r r'
  | None, None => True
  | _, _ => False
  end.
Proof. intros H. revert k. induction H as [|x y l l' Hxy _ IH]; intros [|k]; cbn [nth_error]; auto. apply IH. Qed.

Lemma iter_ok_leq l l' it si : Forall2 req l l' -> iter_ok l it si -> iter_ok l' it si.
Proof.
  intros Hl [(H0 & H1 & Hn) [Hpos Hcur]]. pose proof (leq_nth _ _ (Z.to_nat (it_idx it)) Hl) as Hk.
  split.
  - split; [exact H0|]. split; [exact H1|].
    destruct (nth_error l (Z.to_nat (it_idx it))) as [r|], (nth_error l' (Z.to_nat (it_idx it))) as [r'|]; try contradiction.
    + rewrite (req_cnt _ _ Hk). exact Hn.
    + destruct Hn as (-> & Hrest). inversion Hl. subst. tauto.
  - split; [|exact Hcur]. rewrite Hpos. unfold cursor. rewrite (leq_pre _ _ _ Hl). reflexivity.
Qed.

Lemma R_leq m s l' : R m s -> Forall2 req (st_ranges m) l' -> R (set_ranges m l') s.
Proof.
  intros ((Hok & Hnh & Hmax) & Hn & Hits) Hl. unfold set_ranges, R, st_inv. cbn [st_ranges st_nhosts st_iters].
  rewrite (leq_expand _ _ Hl). split; [split; [|auto]|split; [exact Hn|]].
  - eapply leq_Forall; [apply ok2_req_closed|exact Hl|exact Hok].
  - eapply iters_ok_impl; [|exact Hits]. intros it si. apply iter_ok_leq; auto.
Qed.

(* ---------- hostlist_find ---------- *)
Theorem find_refines m s name : R m s -> D02n name ->
  exists m', st_find m name = (m', match first_index name (ss_names s) with Some k => Z.of_nat k | None => (-1)%Z end) /\ R m' s.
Proof.
  intros HR HD. pose proof HR as ((Hok & Hnh & Hmax) & Hnames & Hits).
  unfold st_find. destruct (find (st_ranges m) name) as [l' ret] eqn:Ef.
  rewrite INT_MAX_val in Hmax.
  destruct (find_sound _ _ _ _ (ok2_all_ok _ Hok) ltac:(lia) Ef) as [Hl Hret].
  exists (set_ranges m l'). split; [|apply R_leq; auto]. f_equal.
  pose proof (first_index_spec name (ss_names s)) as Hfi. rewrite Hnames in *.
  destruct (first_index name (expand (st_ranges m))) as [k|].
  - destruct Hfi as [Hk Hnk]. unfold find in Ef.
    destruct (find_loop_complete_n name HD _ 0%Z _ _ (ok2_all_ok _ Hok) ltac:(lia) ltac:(lia) Ef) as (k' & -> & Hk' & Hnk').
    { eapply nth_error_In; eauto. }
    rewrite (first_unique _ _ _ _ Hk Hnk Hk' Hnk'). lia.
  - destruct Hret as [->|(k & -> & Hk)]; [reflexivity|]. exfalso. apply Hfi. eapply nth_error_In; eauto.
Qed.

Theorem find_sound_refines m s name m' ret : R m s -> st_find m name = (m', ret) ->
  R m' s /\ (ret = (-1)%Z \/ exists k, ret = Z.of_nat k /\ nth_error (ss_names s) k = Some name).
Proof.
  intros HR H. pose proof HR as ((Hok & Hnh & Hmax) & Hnames & Hits). unfold st_find in H.
  destruct (find (st_ranges m) name) as [l' r] eqn:Ef. injection H as <- <-.
  rewrite INT_MAX_val in Hmax.
  destruct (find_sound _ _ _ _ (ok2_all_ok _ Hok) ltac:(lia) Ef) as [Hl Hret].
  split; [apply R_leq; auto|]. rewrite Hnames. exact Hret.
Qed.

(* ---------- hostlist_delete_host ---------- *)
Theorem delete_host_refines m s name : R m s -> D02n name ->
  exists m', st_delete_host m name = ROk (m', snd (s_delete_host s name)) /\ R m' (fst (s_delete_host s name)).
Proof.
  intros HR HD. destruct (find_refines m s name HR HD) as (m1 & Ef & HR1).
  unfold st_delete_host, s_delete_host. rewrite Ef.
  pose proof (first_index_spec name (ss_names s)) as Hfi.
  destruct (first_index name (ss_names s)) as [k|].
  - destruct Hfi as [Hk _]. assert (Hlt : k < length (ss_names s)) by (apply nth_error_Some; congruence).
    assert ((0 <=? Z.of_nat k)%Z = true) as -> by lia.
    destruct (delete_nth_refines m1 s (Z.of_nat k) HR1 ltac:(lia)) as (m2 & -> & HR2). cbn [rbind fst snd].
    eexists. split; [reflexivity|]. rewrite Nat2Z.id in HR2. exact HR2.
  - cbn [fst snd]. eexists. split; [reflexivity|exact HR1].
Qed.
