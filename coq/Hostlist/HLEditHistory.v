(* C16 proofs, part 3: hostlist_delete, one step of any operation, whole histories, and what an
   iterator still has to return. *)
From Coq Require Import ZifyBool ZifyNat ZifyN.
From PV Require Import Base.DecimalFacts Hostlist.HLFacts Hostlist.HLSpec Hostlist.HLParseFacts Hostlist.HLLimits.
From PV Require Export Hostlist.HLEditFind.
Local Open Scope nat_scope.

(* ---------- hostlist_delete ---------- *)
Lemma s_delete_every_none fs s name n : first_index name (ss_names s) = None -> s_delete_every fs s name n = (s, n).
Proof. intros H. destruct fs; cbn [s_delete_every]; [reflexivity|]. rewrite H. reflexivity. Qed.

Lemma s_remove_at_length s p : p < length (ss_names s) -> length (ss_names (s_remove_at s p)) = length (ss_names s) - 1.
Proof. intros H. unfold s_remove_at. cbn [ss_names]. apply remove_nth_length; auto. Qed.

Lemma delete_every_refines name : D02n name -> forall fm m s n fs, R m s ->
  length (ss_names s) < fm -> length (ss_names s) <= fs ->
  exists m', delete_every fm m name n = ROk (m', snd (s_delete_every fs s name n)) /\
             R m' (fst (s_delete_every fs s name n)).
Proof.
  intros HD. induction fm as [|fm IH]; intros m s n fs HR Hfm Hfs; [lia|].
  cbn [delete_every]. destruct (delete_host_refines m s name HR HD) as (m1 & -> & HR1). cbn [rbind].
  unfold s_delete_host in *. pose proof (first_index_spec name (ss_names s)) as Hfi.
  destruct (first_index name (ss_names s)) as [p|] eqn:Ep; cbn [fst snd] in *.
  - destruct Hfi as [Hp _]. assert (Hlt : p < length (ss_names s)) by (apply nth_error_Some; congruence).
    destruct fs as [|fs]; [lia|]. cbn [s_delete_every]. rewrite Ep. change (1 =? 0)%Z with false. cbn iota.
    apply IH; auto; rewrite s_remove_at_length by exact Hlt; lia.
  - rewrite s_delete_every_none by exact Ep. cbn [fst snd]. change (0 =? 0)%Z with true. cbn iota. eauto.
Qed.

Lemma delete_loop_refines : forall fuel names_t m s tmp n, R m s -> R tmp (mkss names_t []) ->
  Forall D02n names_t -> length names_t < fuel ->
  exists m', delete_loop fuel m tmp n = ROk (m', snd (s_delete_names s (rev names_t) n)) /\
             R m' (fst (s_delete_names s (rev names_t) n)).
Proof.
  induction fuel as [|fuel IH]; intros names_t m s tmp n HR HT HD Hf; [lia|].
  cbn [delete_loop]. pose proof (pop_refines tmp _ HT) as Hpop. cbn [ss_names] in Hpop.
  destruct names_t as [|y ys] eqn:En.
  - rewrite Hpop. cbn [rbind rev s_delete_names fst snd]. eauto.
  - rewrite <- En in *. assert (Hne : names_t <> []) by (rewrite En; discriminate). clear y ys En.
    destruct (exists_last Hne) as (ns & x & ->).
    destruct Hpop as (tmp' & -> & HT'). cbn [rbind].
    rewrite app_length in *. cbn [length] in *. replace (length ns + 1 - 1) with (length ns) in * by lia.
    assert (Hnth : nth_error (ns ++ [x]) (length ns) = Some x) by (rewrite <- (Nat.add_0_r (length ns)), nth_error_app_r'; reflexivity).
    rewrite Hnth.
    assert (Hrm : s_remove_at (mkss (ns ++ [x]) []) (length ns) = mkss ns []).
    { unfold s_remove_at. cbn [ss_names ss_iters map]. rewrite remove_nth_last. reflexivity. }
    rewrite Hrm in HT'. apply Forall_app in HD as [HDns HDx]. inversion HDx as [|? ? Hx _]; subst.
    rewrite rev_app_distr. cbn [rev app s_delete_names].
    pose proof (R_len m s HR) as [Hnh _].
    destruct (delete_every_refines x Hx (S (Z.to_nat (st_nhosts m))) m s n (length (ss_names s)) HR ltac:(lia) ltac:(lia)) as (m1 & -> & HR1).
    cbn [rbind]. destruct (s_delete_every (length (ss_names s)) s x n) as [s1 n1]. cbn [fst snd] in *.
    apply IH; auto. lia.
Qed.

Definition expr_ok (e : bytes) : Prop := forall t, create e = Ok t -> Forall hr_ok2 (ranges t).

Lemma create_R e t : create e = Ok t -> Forall hr_ok2 (ranges t) -> (Z.of_nat (length (expand (ranges t))) <= INT_MAX)%Z ->
  R (st_of_hl t) (mkss (expand (ranges t)) []) /\ nhosts t = Z.of_nat (length (expand (ranges t))).
Proof.
  intros Hc Hok Hb. assert (Hinv : hl_inv t). { unfold create in Hc. apply (create_loop_inv _ _ _ _ Hc hl_empty_inv). }
  destruct Hinv as (_ & Hlen & Hpos). assert (Hn : nhosts t = Z.of_nat (length (expand (ranges t)))) by lia.
  split; [|exact Hn]. split; [split; [exact Hok|cbn [st_of_hl st_nhosts st_ranges]; lia]|]. split; [reflexivity|constructor].
Qed.

Theorem delete_refines m s e names : R m s -> expr_ok e -> expansion e = Some names ->
  Forall D02n names -> (Z.of_nat (length names) <= INT_MAX)%Z ->
  exists m', st_delete m e = ROk (m', snd (s_delete_names s (rev names) 0)) /\ R m' (fst (s_delete_names s (rev names) 0)).
Proof.
  intros HR He Hx HD Hb. unfold expansion in Hx. unfold st_delete.
  destruct (create e) as [t|er|f] eqn:Hc; try discriminate. injection Hx as <-.
  destruct (create_R e t Hc (He t Hc) Hb) as [HT Hn].
  apply delete_loop_refines; auto. lia.
Qed.

(* ====================================================================== *)
(* one step, whole histories                                                *)
(* ====================================================================== *)

(* what the theorems ask of the arguments beyond the contracts visible in the plain list:
   host expressions with numbers below 10^15 (C01's D01) and lists that fit an int;
   names looked up by find / delete within D02 *)
Definition op_domain (s : sstate) (o : op) : Prop :=
  match o with
  | OPush e => expr_ok e /\
               forall names, expansion e = Some names -> (Z.of_nat (length (ss_names s) + length names) <= INT_MAX)%Z
  | OFind name | ODeleteHost name => D02n name
  | ODelete e => expr_ok e /\
                 forall names, expansion e = Some names -> Forall D02n names /\ (Z.of_nat (length names) <= INT_MAX)%Z
  | _ => True
  end.

Lemma expansion_create e : match create e with
                           | Ok t => expansion e = Some (expand (ranges t))
                           | Err _ => expansion e = None
                           | Fault _ => expansion e = None
                           end.
Proof. unfold expansion. destruct (create e); reflexivity. Qed.

Theorem step_refines m s o s' v : R m s -> op_domain s o -> sstep s o = Some (s', v) ->
  exists m', step m o = ROk (m', v) /\ R m' s'.
Proof.
  intros HR HD Hs. destruct o; cbn [sstep step op_domain] in *.
  - (* push *)
    destruct HD as [He Hb]. pose proof (expansion_create expr) as Hx.
    destruct (create expr) as [t|er|f] eqn:Hc.
    + rewrite Hx in Hs. injection Hs as <- <-.
      destruct (push_refines m s expr t HR Hc (He t Hc) (Hb _ Hx)) as (m' & -> & HR'). cbn [rbind]. eauto.
    + rewrite Hx in Hs. injection Hs as <- <-. rewrite (push_refines_err m expr er Hc). cbn [rbind]. eauto.
    + exfalso. exact (create_no_fault _ _ Hc).
  - (* shift *)
    pose proof (shift_refines m s HR) as H. destruct (ss_names s) as [|x names].
    + injection Hs as <- <-. rewrite H. cbn [rbind]. eauto.
    + injection Hs as <- <-. destruct H as (m' & -> & HR'). cbn [rbind]. eauto.
  - (* pop *)
    pose proof (pop_refines m s HR) as H. destruct (ss_names s) as [|x names] eqn:En.
    + injection Hs as <- <-. rewrite H. cbn [rbind]. eauto.
    + rewrite <- En in *. injection Hs as <- <-. destruct H as (m' & -> & HR'). cbn [rbind]. eauto.
  - (* count *)
    injection Hs as <- <-. rewrite (count_refines m s HR). eauto.
  - (* nth *)
    destruct (n <? 0)%Z eqn:En; [discriminate|]. injection Hs as <- <-.
    rewrite (nth_refines m s n HR) by lia. cbn [rbind]. eauto.
  - (* find *)
    injection Hs as <- <-. destruct (find_refines m s name HR HD) as (m' & -> & HR'). eauto.
  - (* delete_host *)
    destruct (delete_host_refines m s name HR HD) as (m' & -> & HR'). cbn [rbind].
    destruct (s_delete_host s name) as [s1 k]. injection Hs as <- <-. eauto.
  - (* delete_nth *)
    destruct ((n <? 0)%Z || (Z.of_nat (length (ss_names s)) <=? n)%Z) eqn:En; [discriminate|]. injection Hs as <- <-.
    destruct (delete_nth_refines m s n HR ltac:(lia)) as (m' & -> & HR'). cbn [rbind]. eauto.
  - (* delete *)
    destruct HD as [He Hb]. pose proof (expansion_create expr) as Hx.
    destruct (create expr) as [t|er|f] eqn:Hc.
    + rewrite Hx in Hs. destruct (Hb _ Hx) as [HDn Hlen].
      destruct (delete_refines m s expr _ HR He Hx HDn Hlen) as (m' & -> & HR'). cbn [rbind].
      destruct (s_delete_names s (rev (expand (ranges t))) 0) as [s1 k]. injection Hs as <- <-. eauto.
    + rewrite Hx in Hs. injection Hs as <- <-. unfold st_delete. rewrite Hc. cbn [rbind]. eauto.
    + exfalso. exact (create_no_fault _ _ Hc).
  - discriminate.
  - (* iter_new *)
    injection Hs as <- <-. destruct (iter_new_refines m s HR) as [HR' Hh].
    destruct (st_iter_new m) as [m' h]. cbn [fst snd] in *. subst h. eauto.
  - (* iter_next *)
    destruct (s_get s h) as [si|] eqn:Eg; [|discriminate].
    pose proof (next_refines m s h si HR Eg) as H.
    destruct (nth_error (ss_names s) (si_pos si)) as [x|]; injection Hs as <- <-;
      destruct H as (m' & -> & HR'); cbn [rbind]; eauto.
  - (* iter_remove *)
    destruct (s_get s h) as [si|] eqn:Eg; [|discriminate].
    destruct (si_cur si && (0 <? si_pos si)) eqn:Ec; [|discriminate]. injection Hs as <- <-.
    apply andb_true_iff in Ec as [Ec _].
    destruct (remove_refines m s h si HR Eg Ec) as (m' & -> & HR'). cbn [rbind]. eauto.
  - (* iter_reset *)
    destruct (s_get s h) as [si|] eqn:Eg; [|discriminate]. injection Hs as <- <-.
    destruct (iter_reset_refines m s h si HR Eg) as (m' & -> & HR'). cbn [rbind]. eauto.
  - (* iter_destroy *)
    destruct (s_get s h) as [si|] eqn:Eg; [|discriminate]. injection Hs as <- <-.
    destruct (iter_destroy_refines m s h si HR Eg) as (m' & -> & HR'). cbn [rbind]. eauto.
Qed.

Fixpoint hist_domain (s : sstate) (ops : list op) : Prop :=
  match ops with
  | [] => True
  | o :: rest => op_domain s o /\ match sstep s o with Some (s', _) => hist_domain s' rest | None => True end
  end.

Theorem history_refines : forall ops m s s' vs, R m s -> hist_domain s ops -> srun s ops = Some (s', vs) ->
  exists m', run m ops = ROk (m', vs) /\ R m' s'.
Proof.
  induction ops as [|o ops IH]; intros m s s' vs HR HD Hs; cbn [srun run hist_domain] in *.
  - injection Hs as <- <-. eauto.
  - destruct HD as [Ho Hrest]. destruct (sstep s o) as [[s1 v]|] eqn:Est; [|discriminate].
    destruct (srun s1 ops) as [[s2 vs']|] eqn:Er; [|discriminate]. injection Hs as <- <-.
    destruct (step_refines m s o s1 v HR Ho Est) as (m1 & -> & HR1). cbn [rbind].
    destruct (IH m1 s1 s2 vs' HR1 Hrest Er) as (m2 & -> & HR2). cbn [rbind]. eauto.
Qed.

(* the whole list as a fresh iterator sees it *)
Theorem names_refines m s : R m s -> st_names m = ss_names s.
Proof. intros ((Hok & _) & Hn & _). unfold st_names. rewrite Hn. apply iter_all_expand. apply ok2_all_ok; auto. Qed.

Corollary history_from_empty ops s' vs : hist_domain ss_empty ops -> srun ss_empty ops = Some (s', vs) ->
  exists m', run st_empty ops = ROk (m', vs) /\ st_names m' = ss_names s' /\ st_count m' = Z.of_nat (length (ss_names s')).
Proof.
  intros HD Hs. destruct (history_refines ops _ _ _ _ R_empty HD Hs) as (m' & Hr & HR').
  exists m'. split; [exact Hr|]. split; [apply names_refines; auto|apply count_refines; auto].
Qed.

(* ====================================================================== *)
(* iterating to the end                                                     *)
(* ====================================================================== *)

(* call hostlist_next on iterator h until it returns NULL *)
Fixpoint drain (fuel : nat) (m : hstate) (h : nat) : res (hstate * list bytes) :=
  match fuel with
  | O => RFault EFFuel
  | S f =>
    rbind (st_next m h) (fun '(m', x) =>
      match x with
      | None => ROk (m', [])
      | Some name => rbind (drain f m' h) (fun '(m'', rest) => ROk (m'', name :: rest))
      end)
  end.

Lemma s_get_put s h it : h < length (ss_iters s) -> s_get (s_put s h (Some it)) h = Some it.
Proof.
  unfold s_get, s_put. cbn [ss_iters]. generalize (ss_iters s). intros l. revert h.
  induction l as [|a l IH]; intros h Hh; cbn [length] in Hh; [lia|]. destruct h; cbn [set_nth nth_error]; [reflexivity|]. apply IH. lia.
Qed.
Lemma s_get_lt s h it : s_get s h = Some it -> h < length (ss_iters s).
Proof. unfold s_get. intros H. apply nth_error_Some. destruct (nth_error (ss_iters s) h); congruence. Qed.

Lemma set_nth_twice {A} (l : list A) h a b : set_nth (set_nth l h a) h b = set_nth l h b.
Proof. revert h. induction l as [|x l IHl]; intros [|h]; cbn [set_nth]; auto. f_equal. apply IHl. Qed.

(* from any state related to a plain list, an iterator still returns exactly the names behind
   its cursor, in order, and then NULL *)
Theorem drain_remaining : forall k m s h si, R m s -> s_get s h = Some si ->
  length (ss_names s) - si_pos si <= k ->
  exists m', drain (S k) m h = ROk (m', skipn (si_pos si) (ss_names s)) /\
             R m' (s_put s h (Some (mksi (Nat.max (si_pos si) (length (ss_names s))) false))).
Proof.
  induction k as [|k IH]; intros m s h si HR Hg Hk; cbn [drain]; pose proof (next_refines m s h si HR Hg) as Hn;
    destruct (nth_error (ss_names s) (si_pos si)) as [x|] eqn:Ex.
  - assert (si_pos si < length (ss_names s)) by (apply nth_error_Some; congruence). lia.
  - destruct Hn as (m' & -> & HR'). cbn [rbind]. apply nth_error_None in Ex.
    rewrite skipn_all2 by exact Ex. replace (Nat.max (si_pos si) (length (ss_names s))) with (si_pos si) by lia. eauto.
  - destruct Hn as (m' & -> & HR'). cbn [rbind].
    assert (Hlt : si_pos si < length (ss_names s)) by (apply nth_error_Some; congruence).
    pose proof (s_get_put s h (mksi (S (si_pos si)) true) (s_get_lt _ _ _ Hg)) as Hg'.
    destruct (IH m' _ h _ HR' Hg' ltac:(cbn [ss_names s_put si_pos]; lia)) as (m'' & Hd & HR'').
    cbn [ss_names s_put si_pos] in *. cbn [drain] in Hd. rewrite Hd. cbn [rbind].
    eexists. split.
    + f_equal. f_equal. symmetry. rewrite (skipn_nth_error _ _ _ Ex). reflexivity.
    + replace (Nat.max (si_pos si) (length (ss_names s))) with (Nat.max (S (si_pos si)) (length (ss_names s))) by lia.
      unfold s_put in *. cbn [ss_names ss_iters] in *.
      replace (set_nth (ss_iters s) h (Some (mksi (Nat.max (S (si_pos si)) (length (ss_names s))) false)))
        with (set_nth (set_nth (ss_iters s) h (Some (mksi (S (si_pos si)) true))) h (Some (mksi (Nat.max (S (si_pos si)) (length (ss_names s))) false))); [exact HR''|].
      apply set_nth_twice.
  - destruct Hn as (m' & -> & HR'). cbn [rbind]. apply nth_error_None in Ex.
    rewrite skipn_all2 by exact Ex. replace (Nat.max (si_pos si) (length (ss_names s))) with (si_pos si) by lia. eauto.
Qed.

(* ====================================================================== *)
(* witnesses                                                                *)
(* ====================================================================== *)

(* f[33554433-33554434] holds f33554433, hostlist_find does not find it *)
Theorem find_complete_refuted : exists l name,
  Forall hr_ok2 l /\ In name (expand l) /\ snd (find l name) = (-1)%Z.
Proof.
  exists [mkhr [102%N] 33554433 33554434 8 false], [102; 51; 51; 53; 53; 52; 52; 51; 51]%N.
  split; [repeat constructor; vm_compute; intuition discriminate|]. split; [vm_compute; auto|vm_compute; reflexivity].
Qed.

(* foo[5-10],foo[06-10] *)
Definition uniq_witness : hstate :=
  mkst [mkhr [102; 111; 111]%N 5 10 1 false; mkhr [102; 111; 111]%N 6 10 2 false] 11 [].

Theorem uniq_refuted : exists m sorted m', st_inv m /\ sorted_by_cmp sorted = true /\ st_uniq m sorted = ROk m' /\
  exists i j x, i <> j /\ nth_error (st_names m') i = Some x /\ nth_error (st_names m') j = Some x.
Proof.
  exists uniq_witness, (st_ranges uniq_witness). eexists.
  split; [split; [repeat constructor; vm_compute; intuition discriminate|split; [reflexivity|vm_compute; discriminate]]|].
  split; [vm_compute; reflexivity|]. split; [vm_compute; reflexivity|].
  exists 5, 10, [102; 111; 111; 49; 48]%N. split; [lia|]. split; vm_compute; reflexivity.
Qed.

(* a history inside every domain: a[1-5],b7 / two iterators / delete under them / remove / pop / push *)
Definition demo_ops : list op :=
  [OPush [97; 91; 49; 45; 53; 93; 44; 98; 55]%N; OIterNew; OIterNext 0; OIterNext 0; OIterNext 0; OIterNew; OIterNext 1;
   ODeleteHost [97; 51]%N; OIterNext 0; OIterNext 1; OFind [98; 55]%N; OIterRemove 0; ODeleteNth 0; OPop;
   OPush [97; 48; 54]%N; OIterNext 1; OIterNext 1; OShift; OCount; ODelete [97; 91; 48; 54; 45; 48; 55; 93]%N; OIterNext 0].
Definition demo_names : list bytes := [[97; 53]]%N.

Lemma expr_ok_by_create e t : create e = Ok t -> Forall hr_ok2 (ranges t) -> expr_ok e.
Proof. intros H Hok t' H'. rewrite H in H'. injection H' as <-. exact Hok. Qed.

Lemma hist_domain_cons s o rest s' v :
  op_domain s o -> sstep s o = Some (s', v) -> hist_domain s' rest -> hist_domain s (o :: rest).
Proof. intros H1 H2 H3. cbn [hist_domain]. rewrite H2. auto. Qed.

Ltac dom_expr := eapply expr_ok_by_create; [vm_compute; reflexivity|repeat constructor; vm_compute; intuition discriminate].
Ltac dom_op :=
  match goal with
  | |- op_domain _ (OPush _) => split; [dom_expr|let n := fresh in let H := fresh in intros n H; vm_compute in H; injection H as <-; vm_compute; discriminate]
  | |- op_domain _ (ODelete _) => split; [dom_expr|let n := fresh in let H := fresh in intros n H; vm_compute in H; injection H as <-;
                                    split; [repeat constructor; vm_compute; discriminate|vm_compute; discriminate]]
  | |- op_domain _ (OFind _) => vm_compute; discriminate
  | |- op_domain _ (ODeleteHost _) => vm_compute; discriminate
  | |- op_domain _ _ => exact I
  end.

Lemma demo_ok : exists s' vs,
  hist_domain ss_empty demo_ops /\ srun ss_empty demo_ops = Some (s', vs) /\ ss_names s' = demo_names.
Proof.
  eexists _, _. split; [|split; [vm_compute; reflexivity|reflexivity]].
  unfold demo_ops. repeat (eapply hist_domain_cons; [dom_op|vm_compute; reflexivity|]). exact I.
Qed.
