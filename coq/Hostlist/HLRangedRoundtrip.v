(* The compressed text reads back: for a printable list, pdsh's target-list pass over [ranged_text l] yields exactly
   [expand l].  Obtained from C01's parser theorem (HLParseFacts.C01_expansion: targets (render e) = Ok (denote e)) by
   exhibiting the syntax tree whose text is [ranged_text l] and whose meaning is [expand l]. *)
From PV Require Import Hostlist.HLSpec Hostlist.HLDefs Hostlist.HLFacts Hostlist.HLParseFacts Hostlist.HLPrint Hostlist.HLPrintFacts
  Hostlist.HLRangedFit Base.DecimalFacts.
Local Open Scope N_scope.

(* ---------- the ranges one bracket group is made of ---------- *)
Fixpoint members (s : list hr) : list hr :=
  match s with
  | [] => []
  | r :: rest => r :: match rest with r' :: _ => if within_range r' r then members rest else [] | [] => [] end
  end.

Lemma members_cons r rest : members (r :: rest) =
  r :: match rest with r' :: _ => if within_range r' r then members rest else [] | [] => [] end.
Proof. reflexivity. Qed.

Lemma body_members bn : forall s, fst (body bn s) = flat_map (fun r => numtext r ++ (if bn then [44] else [])) (members s) /\
                                   s = members s ++ snd (body bn s).
Proof.
  induction s as [|r rest IH]; [split; reflexivity|]. rewrite body_cons, members_cons.
  destruct rest as [|r' rest']; [cbn [fst snd flat_map app]; rewrite !app_nil_r; split; reflexivity|].
  destruct (within_range r' r).
  - destruct IH as [I1 I2]. cbn [fst snd flat_map]. rewrite I1. split; [reflexivity|]. cbn [app]. f_equal. exact I2.
  - cbn [fst snd flat_map app]. rewrite app_nil_r. split; reflexivity.
Qed.

Lemma within_sym a b : within_range a b = within_range b a.
Proof.
  unfold within_range. destruct (beq (pfx a) (pfx b)) eqn:E.
  - apply beq_eq in E. rewrite E, beq_refl. destruct (single a), (single b); reflexivity.
  - apply beq_neq in E. assert (E' : beq (pfx b) (pfx a) = false) by (apply beq_neq; congruence). rewrite E'. reflexivity.
Qed.

Lemma within_facts a b : within_range a b = true -> pfx a = pfx b /\ single a = false /\ single b = false.
Proof.
  unfold within_range. intro H. apply andb_true_iff in H as [H H3]. apply andb_true_iff in H as [H1 H2].
  apply beq_eq in H1. destruct (single a), (single b); try discriminate. auto.
Qed.

(* in a bracketed group every range is a proper range with the group's prefix *)
Lemma members_uniform : forall s r rest, s = r :: rest -> brk s = true -> hr_ok r ->
  Forall (fun x => pfx x = pfx r /\ single x = false) (members s).
Proof.
  assert (G : forall s r rest, s = r :: rest -> single r = false -> Forall (fun x => pfx x = pfx r /\ single x = false) (members s)).
  { induction s as [|a s' IH]; intros r rest E Hs; [discriminate|]. inversion E; subst a s'. rewrite members_cons.
    constructor; [auto|]. destruct rest as [|r' rest']; [constructor|].
    destruct (within_range r' r) eqn:Ew; [|constructor].
    destruct (within_facts _ _ Ew) as (Hp & Hs' & _).
    eapply Forall_impl; [|apply (IH r' rest' eq_refl Hs')]. cbn beta. intros x [X1 X2]. split; [congruence|exact X2]. }
  intros s r rest E Hb Hok. apply (G s r rest E). subst s. cbn [brk] in Hb.
  apply orb_true_iff in Hb as [Hb|Hb].
  - destruct (single r) eqn:Es; [|reflexivity]. unfold hr_count in Hb. rewrite Es in Hb. discriminate.
  - destruct rest as [|r' rest']; [discriminate|]. apply within_facts in Hb. tauto.
Qed.

(* outside brackets: the group is that one host *)
Lemma members_single : forall s r rest, s = r :: rest -> brk s = false -> members s = [r].
Proof.
  intros s r rest E Hb. subst s. rewrite members_cons. cbn [brk] in Hb. apply orb_false_iff in Hb as [_ Hb].
  destruct rest as [|r' rest']; [reflexivity|]. rewrite within_sym, Hb. reflexivity.
Qed.

(* ---------- a range as typed ---------- *)
Definition to_rt (r : hr) : rtxt :=
  mkrt (lo r) (Nat.max (wid r) (ndigits (lo r))) (if lo r <? hi r then Some (hi r, Nat.max (wid r) (ndigits (hi r))) else None).

Lemma fmt_max w n : fmt (Nat.max w (ndigits n)) n = fmt w n.
Proof. apply fmt_width_eq. lia. Qed.

Lemma rt_text_to_rt r : single r = false -> rt_text (to_rt r) = numtext r.
Proof.
  intro Hs. unfold rt_text, to_rt, numtext. rewrite Hs. cbn [t_lo t_w t_hi].
  rewrite fmt_max. destruct (lo r <? hi r); [rewrite fmt_max|]; reflexivity.
Qed.

Lemma rt_hi_to_rt r : lo r <= hi r -> rt_hi (to_rt r) = hi r.
Proof.
  intro H. unfold rt_hi, to_rt. cbn [t_hi t_lo]. destruct (lo r <? hi r) eqn:E; [reflexivity|].
  apply N.ltb_ge in E. lia.
Qed.

Lemma rt_nums_to_rt r : hr_ok r -> single r = false ->
  map (fun n => pfx r ++ n ++ []) (rt_nums (to_rt r)) = range_hosts r.
Proof.
  intros Hok Hs. unfold hr_ok in Hok. rewrite Hs in Hok. destruct Hok as [H1 H2].
  unfold rt_nums, range_hosts. rewrite Hs, (rt_hi_to_rt r H1), count_up'_eq. cbn [to_rt t_lo t_w].
  rewrite map_map. apply map_ext_in. intros n Hn. rewrite app_nil_r. f_equal.
  apply count_up_In in Hn. apply fmt_width_eq. pose proof (ndigits_mono (lo r) n (proj1 Hn)). lia.
Qed.

(* ---------- one group as a word of the grammar ---------- *)
Definition gword (s : list hr) : word :=
  match s with
  | [] => WPlain []
  | r :: _ => if brk s then WBr (pfx r) (map to_rt (members s)) [] else WPlain (pfx r ++ numtext r)
  end.

Lemma members_nonempty s : s <> [] -> members s <> [].
Proof. destruct s; [congruence|]. rewrite members_cons. discriminate. Qed.

Lemma cat_flat_map (l : list hr) : flat_map (fun r => numtext r ++ [44]) l = cat (map numtext l).
Proof. unfold cat. rewrite flat_map_concat_map, flat_map_concat_map, map_map. reflexivity. Qed.

Lemma gword_render s : s <> [] -> Forall hr_ok s -> render_word (gword s) = fst (gtext s).
Proof.
  intros Hne Hok. destruct s as [|r rest] eqn:Es; [congruence|]. rewrite <- Es in *.
  assert (Eg : fst (gtext s) = pfx r ++ (if brk s then [91] ++ removelast (fst (body (brk s) s)) ++ [93] else fst (body (brk s) s))).
  { rewrite Es. reflexivity. }
  assert (Ew : gword s = if brk s then WBr (pfx r) (map to_rt (members s)) [] else WPlain (pfx r ++ numtext r)).
  { rewrite Es. reflexivity. }
  rewrite Eg, Ew. clear Eg Ew. destruct (brk s) eqn:Eb.
  - destruct (body_members true s) as [B1 _]. rewrite B1, cat_flat_map.
    assert (Hr : hr_ok r) by (rewrite Es in Hok; inversion Hok; assumption).
    pose proof (members_uniform s r rest Es Eb Hr) as U.
    rewrite <- join_cat by (intro E; apply map_eq_nil in E; revert E; apply members_nonempty; exact Hne).
    rewrite removelast_last. cbn [render_word]. unfold rs_text. rewrite map_map.
    assert (Em : map (fun x => rt_text (to_rt x)) (members s) = map numtext (members s)).
    { apply map_ext_in. intros x Hx. rewrite Forall_forall in U. apply rt_text_to_rt. apply (U x Hx). }
    rewrite Em. cbn [app]. reflexivity.
  - destruct (body_members false s) as [B1 _]. rewrite B1, (members_single s r rest Es Eb).
    cbn [flat_map render_word]. rewrite !app_nil_r. reflexivity.
Qed.

Lemma expand_app a b : expand (a ++ b) = expand a ++ expand b.
Proof. unfold expand. apply flat_map_app. Qed.

Lemma gword_denote s : s <> [] -> Forall hr_ok s -> denote_word (gword s) = expand (members s).
Proof.
  intros Hne Hok. destruct s as [|r rest] eqn:Es; [congruence|]. rewrite <- Es in *.
  assert (Ew : gword s = if brk s then WBr (pfx r) (map to_rt (members s)) [] else WPlain (pfx r ++ numtext r)).
  { rewrite Es. reflexivity. }
  rewrite Ew. clear Ew.
  assert (Hr : hr_ok r) by (rewrite Es in Hok; inversion Hok; assumption).
  assert (Hm : Forall hr_ok (members s)).
  { destruct (body_members true s) as [_ B2]. rewrite B2 in Hok. apply Forall_app in Hok. tauto. }
  destruct (brk s) eqn:Eb.
  - pose proof (members_uniform s r rest Es Eb Hr) as U. cbn [denote_word]. unfold rs_nums, expand.
    induction (members s) as [|x m IH]; [reflexivity|].
    inversion U as [|? ? [Ux1 Ux2] U']; subst. inversion Hm as [|? ? Hx Hm']; subst.
    cbn [map flat_map]. rewrite map_app. rewrite <- (rt_nums_to_rt x Hx Ux2), Ux1. f_equal. apply IH; assumption.
  - rewrite (members_single s r rest Es Eb). cbn [denote_word expand flat_map]. rewrite app_nil_r.
    unfold range_hosts, numtext. destruct (single r) eqn:Esr; [rewrite app_nil_r; reflexivity|].
    rewrite Es in Eb. cbn [brk] in Eb. apply orb_false_iff in Eb as [Eb _]. apply N.ltb_ge in Eb.
    rewrite (hr_count_ok r Hr), Esr in Eb. unfold hr_ok in Hr. rewrite Esr in Hr. destruct Hr as [H1 H2].
    assert (Ehl : hi r = lo r) by lia. rewrite Ehl.
    replace (N.to_nat (lo r + 1 - lo r)) with 1%nat by lia. cbn [count_up map].
    assert (El : (lo r <? lo r) = false) by (apply N.ltb_ge; lia). rewrite El, app_nil_r. reflexivity.
Qed.

(* ---------- printable lists ---------- *)
Definition short (n : bytes) : Prop :=
  (length n < N.to_nat SUFFIX_HOST_SIZE - 1)%nat /\ (length n < N.to_nat CUR_TOK_SIZE - 1)%nat.
(* what every list built by the parser (and edited afterwards) satisfies: numbers below the parser's own limit, prefixes over
   the name alphabet, a plain name not empty, at most MAX_RANGE hosts a range *)
Definition rprint (r : hr) : Prop :=
  hr_ok2 r /\ plain_text (pfx r) = true /\ named r /\
  (single r = false -> hi r - lo r < MAX_RANGE).
(* no bracket group - a maximal run of ranges with one prefix, wherever in the list it starts - has more ranges than the parser
   takes between one pair of brackets *)
Definition groups_small (s : list hr) : Prop := forall k, (length (members (skipn k s)) <= N.to_nat MAX_RANGES)%nat.
Definition printable (s : list hr) : Prop :=
  Forall rprint s /\ Forall short (expand s) /\ groups_small s.

Lemma members_length_le : forall s, (length (members s) <= length s)%nat.
Proof.
  induction s as [|r rest IH]; [cbn; lia|]. rewrite members_cons. cbn [length].
  destruct rest as [|r' rest']; [cbn [length]; lia|]. destruct (within_range r' r); [lia|cbn [length]; lia].
Qed.

(* in particular: any list of at most MAX_RANGES ranges *)
Lemma groups_small_of_length s : (length s <= N.to_nat MAX_RANGES)%nat -> groups_small s.
Proof.
  intros H k. pose proof (members_length_le (skipn k s)) as L. rewrite skipn_length in L. lia.
Qed.

Lemma skipn_skipn' {A} : forall j k (l : list A), skipn k (skipn j l) = skipn (j + k) l.
Proof.
  induction j as [|j IH]; intros k l; [reflexivity|]. destruct l as [|a l']; [rewrite !skipn_nil; reflexivity|].
  cbn [skipn plus]. apply IH.
Qed.

Lemma printable_split s : s = members s ++ snd (gtext s) -> printable s ->
  Forall rprint (members s) /\ Forall short (expand (members s)) /\ (length (members s) <= N.to_nat MAX_RANGES)%nat /\
  printable (snd (gtext s)).
Proof.
  intros E (P1 & P2 & P3). rewrite E in P1, P2. apply Forall_app in P1 as [P1a P1b].
  rewrite expand_app in P2. apply Forall_app in P2 as [P2a P2b].
  split; [exact P1a|]. split; [exact P2a|]. split; [exact (P3 O)|].
  split; [exact P1b|]. split; [exact P2b|].
  assert (Er : snd (gtext s) = skipn (length (members s)) s).
  { transitivity (skipn (length (members s)) (members s ++ snd (gtext s))).
    - rewrite skipn_app, skipn_all, Nat.sub_diag. reflexivity.
    - f_equal. symmetry. exact E. }
  intro k. rewrite Er, skipn_skipn'. apply P3.
Qed.

Lemma gtext_split s : s = members s ++ snd (gtext s).
Proof.
  destruct s as [|r rest] eqn:Es; [reflexivity|]. rewrite <- Es.
  assert (E : snd (gtext s) = snd (body (brk s) s)) by (rewrite Es; reflexivity). rewrite E.
  apply body_members.
Qed.

Lemma rprint_ok s : Forall rprint s -> Forall hr_ok s.
Proof. apply Forall_impl. intros r (H & _). exact (proj1 H). Qed.

Lemma plain_fmt w n : plain_text (fmt w n) = true.
Proof. unfold plain_text. eapply forallb_impl; [exact digit_plain|apply fmt_all_digit]. Qed.

Lemma gword_wf s : s <> [] -> printable s -> word_wf (gword s).
Proof.
  intros Hne Hp. destruct (printable_split s (gtext_split s) Hp) as (M1 & M2 & M3 & _).
  pose proof (rprint_ok s (proj1 Hp)) as Hok.
  pose proof (gword_denote s Hne Hok) as Hd.
  destruct s as [|r rest] eqn:Es; [congruence|]. rewrite <- Es in *.
  assert (Ew : gword s = if brk s then WBr (pfx r) (map to_rt (members s)) [] else WPlain (pfx r ++ numtext r)).
  { rewrite Es. reflexivity. }
  rewrite Ew in *. clear Ew.
  assert (Hr : rprint r) by (destruct Hp as (P1 & _); rewrite Es in P1; inversion P1; assumption).
  destruct Hr as ((Hrok & Hlim) & Hpl & Hnm & Hw).
  destruct (brk s) eqn:Eb.
  - cbn [word_wf]. split; [exact Hpl|]. split; [reflexivity|]. split.
    + split; [intro E; apply map_eq_nil in E; revert E; apply members_nonempty; exact Hne|].
      split; [rewrite map_length; exact M3|].
      pose proof (members_uniform s r rest Es Eb Hrok) as U.
      apply Forall_map. apply Forall_forall. intros x Hx. rewrite Forall_forall in M1, U.
      destruct (M1 x Hx) as ((Xok & Xlim) & _ & _ & Xw). destruct (U x Hx) as [_ Exs].
      unfold rt_wf. cbn [to_rt t_lo t_w t_hi].
      pose proof (Xw Exs) as W2. unfold hr_ok in Xok. rewrite Exs in Xok. destruct Xok as [X1 X2].
      rewrite (rt_hi_to_rt x X1). repeat split; try assumption; try lia.
      destruct (lo x <? hi x); [lia|exact I].
    + rewrite Hd. exact M2.
  - cbn [word_wf]. rewrite (members_single s r rest Es Eb) in Hd, M2. cbn [denote_word] in Hd.
    assert (En : range_hosts r = [pfx r ++ numtext r]) by (unfold expand in Hd; cbn [flat_map] in Hd; rewrite app_nil_r in Hd; symmetry; exact Hd).
    split.
    + destruct (single r) eqn:Esr.
      * intro E. apply app_eq_nil in E as [E _]. exact (Hnm Esr E).
      * intro E. apply app_eq_nil in E as [_ E]. exact (numtext_nonempty r Esr E).
    + split.
      * unfold plain_text in *. rewrite forallb_app, Hpl. cbn [andb]. unfold numtext. destruct (single r); [reflexivity|].
        rewrite forallb_app. fold (plain_text (fmt (wid r) (lo r))). rewrite plain_fmt. cbn [andb].
        destruct (lo r <? hi r) eqn:El; [|reflexivity].
        (* a lone range outside brackets has one host *)
        exfalso. rewrite Es in Eb. cbn [brk] in Eb. apply orb_false_iff in Eb as [Eb _]. apply N.ltb_ge in Eb.
        rewrite (hr_count_ok r Hrok) in Eb. apply N.ltb_lt in El.
        destruct (single r) eqn:Esr; [unfold hr_ok in Hrok; rewrite Esr in Hrok; lia|].
        unfold hr_ok in Hrok. rewrite Esr in Hrok. lia.
      * unfold expand in M2. cbn [flat_map] in M2. rewrite app_nil_r, En in M2. inversion M2 as [|? ? [S1 S2] _]; subst. exact S2.
Qed.

(* ---------- the whole list as an expression ---------- *)
Fixpoint gwords (fuel : nat) (s : list hr) : list word :=
  match fuel with
  | O => []
  | S f => match s with [] => [] | _ :: _ => gword s :: gwords f (snd (gtext s)) end
  end.

Fixpoint with_commas (ws : list word) : expr :=
  match ws with
  | [] => []
  | [w] => [(w, [])]
  | w :: rest => (w, [44]) :: with_commas rest
  end.

Lemma render_with_commas ws : render (with_commas ws) = join 44 (map render_word ws).
Proof.
  induction ws as [|w rest IH]; [reflexivity|]. destruct rest as [|w2 rest'].
  - cbn [with_commas render fold_right fst snd map join]. rewrite !app_nil_r. reflexivity.
  - change (with_commas (w :: w2 :: rest')) with ((w, [44]) :: with_commas (w2 :: rest')).
    rewrite render_cons, IH. reflexivity.
Qed.

Lemma denote_with_commas ws : denote (with_commas ws) = flat_map denote_word ws.
Proof.
  induction ws as [|w rest IH]; [reflexivity|]. destruct rest as [|w2 rest'].
  - reflexivity.
  - change (with_commas (w :: w2 :: rest')) with ((w, [44]) :: with_commas (w2 :: rest')).
    unfold denote in *. cbn [flat_map fst]. rewrite IH. reflexivity.
Qed.

Lemma wf_with_commas ws : Forall word_wf ws -> expr_wf (with_commas ws).
Proof.
  induction ws as [|w rest IH]; intro H; [exact I|]. inversion H as [|? ? Hw Hrest]; subst.
  destruct rest as [|w2 rest'].
  - cbn [with_commas expr_wf]. split; [exact Hw|reflexivity].
  - change (with_commas (w :: w2 :: rest')) with ((w, [44]) :: with_commas (w2 :: rest')).
    specialize (IH Hrest). destruct (with_commas (w2 :: rest')) as [|p e'] eqn:E.
    + destruct rest'; discriminate E.
    + cbn [expr_wf]. split; [exact Hw|]. split; [split; [discriminate|reflexivity]|exact IH].
Qed.

Lemma gwords_spec : forall fuel s, (length s <= fuel)%nat -> printable s ->
  map render_word (gwords fuel s) = gtexts fuel s /\ flat_map denote_word (gwords fuel s) = expand s /\
  Forall word_wf (gwords fuel s).
Proof.
  induction fuel as [|f IH]; intros s Hf Hp.
  - destruct s; [repeat split; constructor|cbn [length] in Hf; lia].
  - destruct s as [|r rest] eqn:Es; [repeat split; constructor|]. rewrite <- Es in *.
    assert (Hne : s <> []) by (rewrite Es; discriminate).
    assert (E1 : gwords (S f) s = gword s :: gwords f (snd (gtext s))) by (rewrite Es; reflexivity).
    assert (E2 : gtexts (S f) s = fst (gtext s) :: gtexts f (snd (gtext s))) by (rewrite Es; reflexivity).
    rewrite E1, E2. clear E1 E2.
    pose proof (rprint_ok s (proj1 Hp)) as Hok.
    destruct (printable_split s (gtext_split s) Hp) as (_ & _ & _ & Hp').
    pose proof (gtext_rest_shorter s Hne) as Hs.
    destruct (IH (snd (gtext s))) as (I1 & I2 & I3); [lia|exact Hp'|].
    split; [|split].
    + cbn [map]. rewrite (gword_render s Hne Hok), I1. reflexivity.
    + cbn [flat_map]. rewrite (gword_denote s Hne Hok), I2. rewrite <- expand_app, <- gtext_split. reflexivity.
    + constructor; [apply gword_wf; assumption|exact I3].
Qed.

Lemma printable_named l : printable l -> Forall named l.
Proof. intros (P & _). eapply Forall_impl; [|exact P]. intros r (_ & _ & H & _). exact H. Qed.

Theorem ranged_roundtrip l : printable l -> targets (ranged_text l) = Ok (expand l).
Proof.
  intro Hp. rewrite (ranged_text_groups l (printable_named l Hp)).
  destruct (gwords_spec (S (length l)) l) as (G1 & G2 & G3); [lia|exact Hp|].
  rewrite <- G1, <- render_with_commas.
  rewrite (C01_expansion _ (wf_with_commas _ G3)). rewrite denote_with_commas, G2. reflexivity.
Qed.

(* ---------- the expanded form reads back as well: its text is the names joined by commas (HLPrintFacts.deranged_fit) ---------- *)
Lemma range_hosts_plain r : rprint r -> Forall (fun n => n <> [] /\ plain_text n = true) (range_hosts r).
Proof.
  intros ((Hok & _) & Hpl & Hnm & _). unfold range_hosts. destruct (single r) eqn:Es.
  - constructor; [|constructor]. split; [exact (Hnm Es)|exact Hpl].
  - apply Forall_map. apply Forall_forall. intros n _. split.
    + intro E. apply app_eq_nil in E as [_ E]. revert E. apply fmt_nonempty.
    + unfold plain_text in *. rewrite forallb_app, Hpl. apply plain_fmt.
Qed.

Lemma expand_plain l : Forall rprint l -> Forall (fun n => n <> [] /\ plain_text n = true) (expand l).
Proof.
  induction l as [|r rest IH]; intro H; [constructor|]. inversion H; subst. rewrite expand_cons.
  apply Forall_app. split; [apply range_hosts_plain; assumption|apply IH; assumption].
Qed.

Theorem deranged_roundtrip l : printable l -> targets (join 44 (expand l)) = Ok (expand l).
Proof.
  intros (P1 & P2 & _). pose proof (expand_plain l P1) as Hpl.
  set (names := expand l) in *.
  assert (R : render (with_commas (map WPlain names)) = join 44 names).
  { rewrite render_with_commas, map_map. cbn [render_word]. rewrite map_id. reflexivity. }
  assert (D : denote (with_commas (map WPlain names)) = names).
  { rewrite denote_with_commas. clear. induction names as [|n r IH]; [reflexivity|]. cbn [map flat_map denote_word app]. rewrite IH. reflexivity. }
  assert (W : Forall word_wf (map WPlain names)).
  { apply Forall_map. apply Forall_forall. intros n Hn. rewrite Forall_forall in Hpl, P2.
    destruct (Hpl n Hn) as [N1 N2]. destruct (P2 n Hn) as [_ S2]. cbn [word_wf]. repeat split; assumption. }
  rewrite <- R. rewrite (C01_expansion _ (wf_with_commas _ W)). rewrite D. reflexivity.
Qed.

(* ---------- [printable] is decidable: the correspondence run reports how many of its lists the theorems above speak about ---------- *)
Definition hr_ok2b (r : hr) : bool :=
  (if single r then (lo r =? 0) && (hi r =? 0) else (lo r <=? hi r) && (hi r <? ULONG - 1)) && (hi r <? NUM_LIMIT).
Definition rprintb (r : hr) : bool :=
  hr_ok2b r && plain_text (pfx r) && (negb (single r) || negb (is_nil (pfx r))) && (single r || (hi r - lo r <? MAX_RANGE)).
Definition shortb (n : bytes) : bool :=
  (N.of_nat (length n) <? SUFFIX_HOST_SIZE - 1) && (N.of_nat (length n) <? CUR_TOK_SIZE - 1).
Definition printableb (l : list hr) : bool :=
  forallb rprintb l && forallb shortb (expand l) &&
  forallb (fun k => N.of_nat (length (members (skipn k l))) <=? MAX_RANGES) (seq 0 (S (length l))).

Lemma rprintb_sound r : rprintb r = true -> rprint r.
Proof.
  unfold rprintb, hr_ok2b, rprint, hr_ok2, hr_ok, named. intro H.
  apply andb_true_iff in H as [H H4]. apply andb_true_iff in H as [H H3]. apply andb_true_iff in H as [H H2].
  apply andb_true_iff in H as [H1 H1'].
  destruct (single r) eqn:Es.
  - apply andb_true_iff in H1 as [A B]. apply N.eqb_eq in A. apply N.eqb_eq in B. apply N.ltb_lt in H1'.
    repeat split; try assumption; try discriminate.
    intros _ E. rewrite E in H3. discriminate H3.
  - apply andb_true_iff in H1 as [A B]. apply N.leb_le in A. apply N.ltb_lt in B. apply N.ltb_lt in H1'.
    cbn [orb] in H4. apply N.ltb_lt in H4. repeat split; try assumption; try discriminate. intros _. exact H4.
Qed.

Lemma shortb_sound n : shortb n = true -> short n.
Proof.
  unfold shortb, short, SUFFIX_HOST_SIZE, CUR_TOK_SIZE. intro H. apply andb_true_iff in H as [A B].
  apply N.ltb_lt in A. apply N.ltb_lt in B. lia.
Qed.

Theorem printableb_sound l : printableb l = true -> printable l.
Proof.
  unfold printableb, printable. intro H. apply andb_true_iff in H as [H C]. apply andb_true_iff in H as [A B].
  split; [|split].
  - apply Forall_forall. intros r Hr. apply rprintb_sound. rewrite forallb_forall in A. apply A. exact Hr.
  - apply Forall_forall. intros n Hn. apply shortb_sound. rewrite forallb_forall in B. apply B. exact Hn.
  - intro k. destruct (Nat.le_gt_cases k (length l)) as [Hk|Hk].
    + rewrite forallb_forall in C. specialize (C k). rewrite in_seq in C. apply N.leb_le in C; [|lia].
      unfold MAX_RANGES in *. lia.
    + rewrite skipn_all2 by lia. cbn [members length]. lia.
Qed.
