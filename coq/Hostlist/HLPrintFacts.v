(* C14: the printers never store past the size they were given; the expanded form is
   exactly the comma-joined expansion when it fits and a terminated prefix otherwise. *)
From PV Require Import Base.DecimalFacts Hostlist.HLDefs Hostlist.HLFacts Hostlist.HLPrint.
Local Open Scope N_scope.
