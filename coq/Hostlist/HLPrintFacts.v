(* C14: the printers never store past the size they were given; the expanded form is
   exactly the comma-joined expansion when it fits and a terminated prefix otherwise. *)
From PV Require Import Base.DecimalFacts Hostlist.HLDefs Hostlist.HLFacts Hostlist.HLPrint.
Local Open Scope N_scope.

(* ================= list helpers ================= *)
Lemma firstn_app_le {A} k (a x : list A) : (k <= length a)%nat -> firstn k (a ++ x) = firstn k a.
Proof. intro H. rewrite firstn_app. replace (k - length a)%nat with O by lia. cbn [firstn]. apply app_nil_r. Qed.

Lemma firstn_app_ge {A} n k (a x : list A) : length a = n -> firstn (n + k) (a ++ x) = a ++ firstn k x.
Proof. intros <-. apply firstn_app_2. Qed.

Lemma firstn_firstn_le {A} i j (l : list A) : (i <= j)%nat -> firstn i (firstn j l) = firstn i l.
Proof. intro H. rewrite firstn_firstn. f_equal. lia. Qed.

Lemma firstn_len_le {A} k (l : list A) : (k <= length l)%nat -> length (firstn k l) = k.
Proof. apply firstn_length_le. Qed.

(* ================= the buffer ================= *)
Lemma overwrite_spec data : forall buf, (length data <= length buf)%nat ->
  overwrite data buf = data ++ skipn (length data) buf.
Proof.
  induction data as [|d ds IH]; intros [|b bs] H; cbn [overwrite length skipn app] in *; try reflexivity; try lia.
  f_equal. apply IH. lia.
Qed.

Lemma write_at_spec : forall off buf data, (off + length data <= length buf)%nat ->
  write_at buf off data = firstn off buf ++ data ++ skipn (off + length data) buf.
Proof.
  induction off as [|o IH]; intros buf data H.
  - destruct buf; cbn [write_at firstn app Nat.add]; apply overwrite_spec; exact H.
  - destruct buf as [|b r]; cbn [length] in H; [lia|].
    cbn [write_at firstn app Nat.add skipn]. f_equal. apply IH. lia.
Qed.

Lemma store_inv buf off data b : store buf off data = Ok b ->
  (off + length data <= length buf)%nat /\
  b = firstn off buf ++ data ++ skipn (off + length data) buf.
Proof.
  unfold store. destruct (off + length data <=? length buf)%nat eqn:E; [|discriminate].
  apply Nat.leb_le in E. intro H. inversion H. split; [exact E|]. apply write_at_spec. exact E.
Qed.

Lemma store_ok buf off data : (off + length data <= length buf)%nat ->
  store buf off data = Ok (write_at buf off data).
Proof. intro H. unfold store. apply Nat.leb_le in H. rewrite H. reflexivity. Qed.

Lemma store_length buf off data b : store buf off data = Ok b -> length b = length buf.
Proof.
  intro H. apply store_inv in H as [H ->].
  rewrite !app_length, firstn_length, skipn_length. lia.
Qed.

Lemma store_firstn_lo buf off data b k : store buf off data = Ok b -> (k <= off)%nat ->
  firstn k b = firstn k buf.
Proof.
  intros H Hk. apply store_inv in H as [H ->].
  rewrite firstn_app_le by (rewrite firstn_length; lia). apply firstn_firstn_le. exact Hk.
Qed.

Lemma store_firstn_mid buf off data b k : store buf off data = Ok b -> (k <= length data)%nat ->
  firstn (off + k) b = firstn off buf ++ firstn k data.
Proof.
  intros H Hk. apply store_inv in H as [H ->].
  rewrite (firstn_app_ge off) by (rewrite firstn_length; lia). f_equal.
  apply firstn_app_le. exact Hk.
Qed.

Lemma store_firstn_all buf off data b : store buf off data = Ok b ->
  firstn (off + length data) b = firstn off buf ++ data.
Proof. intro H. rewrite (store_firstn_mid _ _ _ _ _ H) by lia. rewrite firstn_all. reflexivity. Qed.

Lemma store_In buf off data b x : store buf off data = Ok b -> In x data -> In x b.
Proof.
  intros H Hx. apply store_inv in H as [H ->]. apply in_or_app. right. apply in_or_app. left. exact Hx.
Qed.

(* ---- cstring ---- *)
Lemma cstring_In b : In 0 b -> exists t, cstring b = Some t.
Proof.
  induction b as [|a r IH]; intro H; [destruct H|].
  destruct a as [|p].
  - exists []. reflexivity.
  - destruct H as [H|H]; [discriminate|]. destruct (IH H) as [t Ht].
    exists (N.pos p :: t). cbn [cstring]. rewrite Ht. reflexivity.
Qed.

Lemma cstring_app t rest : ~ In 0 t -> cstring (t ++ 0 :: rest) = Some t.
Proof.
  induction t as [|a t IH]; intro H; [reflexivity|].
  cbn [app]. destruct a as [|p]; [exfalso; apply H; left; reflexivity|].
  cbn [cstring]. rewrite IH; [reflexivity|]. intro Hin. apply H. right. exact Hin.
Qed.

Lemma cstring_firstn b t : ~ In 0 t -> firstn (length t + 1) b = t ++ [0] -> cstring b = Some t.
Proof.
  intros Ht H. rewrite <- (firstn_skipn (length t + 1) b), H, <- app_assoc. cbn [app].
  apply cstring_app. exact Ht.
Qed.

(* ================= Hoare-style reasoning over [outcome] ================= *)
Definition good {A} (P : A -> Prop) (o : outcome A) : Prop :=
  match o with Ok a => P a | _ => False end.

Lemma good_bind {A B} (P : A -> Prop) (Q : B -> Prop) x (f : A -> outcome B) :
  good P x -> (forall a, P a -> good Q (f a)) -> good Q (bind x f).
Proof. destruct x; cbn [good bind]; auto; tauto. Qed.

Lemma good_weaken {A} (P Q : A -> Prop) o : good P o -> (forall a, P a -> Q a) -> good Q o.
Proof. destruct o; cbn [good]; auto. Qed.

Lemma store_good L buf off data : length buf = L -> (off + length data <= L)%nat ->
  good (fun b => length b = L) (store buf off data).
Proof.
  intros HL H. rewrite store_ok by lia. cbn [good].
  erewrite store_length; [exact HL|]. apply store_ok. lia.
Qed.

Lemma snprintf_good L buf off m text : length buf = L -> (off + m <= L)%nat ->
  good (fun b => length b = L) (snprintf_at buf off m text).
Proof.
  intros HL H. destruct m as [|m']; cbn [snprintf_at good]; [exact HL|].
  apply store_good; [exact HL|]. rewrite app_length, firstn_length. cbn [length]. lia.
Qed.

(* ================= ranged form: no store past n ================= *)
Lemma numstr_good L buf off m r : length buf = L -> (off + m <= L)%nat ->
  good (fun p => length (fst p) = L) (numstr buf off m r).
Proof.
  intros HL H. unfold numstr. destruct (single r); [exact HL|].
  destruct m as [|m']; [exact HL|].
  eapply good_bind; [apply snprintf_good; eassumption|].
  intros buf1 H1. cbv beta.
  destruct ((length (fmt (wid r) (lo r)) <? S m')%nat && (lo r <? hi r)) eqn:E; [|exact H1].
  apply andb_true_iff in E as [E _]. apply Nat.ltb_lt in E.
  eapply good_bind; [apply snprintf_good; [exact H1|lia]|].
  intros buf2 H2. exact H2.
Qed.

Lemma gbl_loop_good L fuel : forall l buf off n bn len i,
  length buf = L -> (off + n <= L)%nat -> (len <= n)%nat ->
  good (fun p => length (fst (fst p)) = L) (gbl_loop fuel l buf off n bn len i).
Proof.
  induction fuel as [|f IH]; intros l buf off n bn len i HL Hn Hlen; cbn [gbl_loop]; [exact HL|].
  destruct (nth_error l i) as [r|]; [|exact HL].
  eapply good_bind; [apply (numstr_good L); [exact HL|lia]|].
  intros [buf1 k] H1. cbn [fst] in H1.
  destruct (n <=? len + k)%nat eqn:E; [exact H1|]. apply Nat.leb_gt in E.
  eapply (good_bind (fun p => length (fst p) = L /\ (snd p <= n)%nat)).
  - destruct bn.
    + eapply good_bind; [apply (store_good L); [exact H1|cbn [length]; lia]|].
      intros b Hb. cbn [good fst snd]. split; [exact Hb|lia].
    + cbn [good fst snd]. split; [exact H1|lia].
  - intros [buf2 len2] [H2 Hl2]. cbn [fst snd] in H2, Hl2.
    destruct (nth_error l (S i)) as [r'|]; [|exact H2].
    destruct (within_range r' r); [|exact H2].
    apply IH; assumption.
Qed.

Lemma gbl_good L l buf off n start : length buf = L -> (off + n <= L)%nat ->
  good (fun p => length (fst (fst p)) = L) (get_bracketed_list l buf off n start).
Proof.
  intros HL Hn. unfold get_bracketed_list.
  destruct (nth_error l start) as [r|]; [|exact HL].
  eapply good_bind; [apply (snprintf_good L); eassumption|].
  intros buf0 H0. cbv beta.
  destruct (n <? length (pfx r))%nat eqn:E0; [exact H0|]. apply Nat.ltb_ge in E0.
  eapply (good_bind (fun p => length (fst p) = L /\ (snd p <= n)%nat)).
  - destruct (bracket_needed l start && (length (pfx r) <? n)%nat) eqn:E1.
    + apply andb_true_iff in E1 as [_ E1]. apply Nat.ltb_lt in E1.
      eapply good_bind; [apply (store_good L); [exact H0|cbn [length]; lia]|].
      intros b Hb. cbn [good fst snd]. split; [exact Hb|lia].
    + cbn [good fst snd]. split; [exact H0|lia].
  - intros [buf1 len1] [H1 Hl1]. cbn [fst snd] in H1, Hl1.
    eapply good_bind; [apply (gbl_loop_good L); eassumption|].
    intros [[buf2 len] i] H2. cbn [fst] in H2.
    destruct (bracket_needed l start && (len <? n)%nat && (0 <? len)%nat) eqn:E2.
    + apply andb_true_iff in E2 as [E2 E3]. apply andb_true_iff in E2 as [_ E2].
      apply Nat.ltb_lt in E2. apply Nat.ltb_lt in E3.
      eapply good_bind; [apply (store_good L); [exact H2|cbn [length]; lia]|].
      intros b3 H3.
      eapply good_bind; [apply (store_good L); [exact H3|cbn [length]; lia]|].
      intros b4 H4. exact H4.
    + destruct (n <=? len)%nat eqn:E3.
      * destruct (0 <? n)%nat eqn:E4; [|exact H2]. apply Nat.ltb_lt in E4.
        eapply good_bind; [apply (store_good L); [exact H2|cbn [length]; lia]|].
        intros b Hb. exact Hb.
      * apply Nat.leb_gt in E3.
        eapply good_bind; [apply (store_good L); [exact H2|cbn [length]; lia]|].
        intros b Hb. exact Hb.
Qed.

Lemma ranged_loop_good fuel : forall l buf n len i, length buf = n ->
  good (fun p => length (fst p) = n) (ranged_loop fuel l buf n len i).
Proof.
  induction fuel as [|f IH]; intros l buf n len i HL; cbn [ranged_loop]; [exact HL|].
  destruct ((i <? length l)%nat && (len <? n)%nat) eqn:E; [|exact HL].
  apply andb_true_iff in E as [_ E]. apply Nat.ltb_lt in E.
  eapply good_bind; [apply (gbl_good n); [exact HL|lia]|].
  intros [[buf1 k] i'] H1. cbn [fst] in H1.
  destruct ((0 <? len + k)%nat && (len + k <? n)%nat && (i' <? length l)%nat) eqn:E1.
  - apply andb_true_iff in E1 as [E1 _]. apply andb_true_iff in E1 as [_ E1]. apply Nat.ltb_lt in E1.
    eapply good_bind; [apply (store_good n); [exact H1|cbn [length]; lia]|].
    intros b Hb. apply IH. exact Hb.
  - apply IH. exact H1.
Qed.

Lemma ranged_string_good l buf :
  good (fun p => length (fst p) = length buf /\ (buf <> [] -> In 0 (fst p))) (ranged_string l buf).
Proof.
  unfold ranged_string.
  eapply good_bind; [apply ranged_loop_good; reflexivity|].
  intros [buf1 len] H1. cbn [fst] in H1.
  destruct (length buf <=? len)%nat eqn:E.
  - destruct (0 <? length buf)%nat eqn:E0.
    + apply Nat.ltb_lt in E0.
      destruct (store buf1 (length buf - 1) [0]) as [b| |] eqn:Es.
      * cbn [bind good fst]. split; [rewrite (store_length _ _ _ _ Es); exact H1|].
        intros _. eapply store_In; [exact Es|left; reflexivity].
      * pose proof (store_good (length buf) buf1 (length buf - 1) [0] H1) as G.
        rewrite Es in G. apply G. cbn [length]. lia.
      * pose proof (store_good (length buf) buf1 (length buf - 1) [0] H1) as G.
        rewrite Es in G. apply G. cbn [length]. lia.
    + apply Nat.ltb_ge in E0. cbn [good fst]. split; [exact H1|].
      intro Hne. destruct buf; [congruence|cbn [length] in E0; lia].
  - apply Nat.leb_gt in E.
    destruct (store buf1 len [0]) as [b| |] eqn:Es.
    + cbn [bind good fst]. split; [rewrite (store_length _ _ _ _ Es); exact H1|].
      intros _. eapply store_In; [exact Es|left; reflexivity].
    + pose proof (store_good (length buf) buf1 len [0] H1) as G.
      rewrite Es in G. apply G. cbn [length]. lia.
    + pose proof (store_good (length buf) buf1 len [0] H1) as G.
      rewrite Es in G. apply G. cbn [length]. lia.
Qed.

Theorem ranged_no_fault : forall l buf, Forall hr_ok l ->
  match ranged_string l buf with Fault _ => False | _ => True end.
Proof.
  intros l buf _. pose proof (ranged_string_good l buf) as G.
  destruct (ranged_string l buf); cbn [good] in G; auto.
Qed.

Theorem ranged_terminated : forall l buf b r, Forall hr_ok l -> buf <> [] ->
  ranged_string l buf = Ok (b, r) -> length b = length buf /\ exists t, cstring b = Some t.
Proof.
  intros l buf b r _ Hne H. pose proof (ranged_string_good l buf) as G.
  rewrite H in G. cbn [good fst] in G. destruct G as [G1 G2]. split; [exact G1|].
  apply cstring_In. apply G2. exact Hne.
Qed.

(* ================= expanded form: exact characterisation ================= *)
Lemma store_ex buf off data : (off + length data <= length buf)%nat ->
  exists b, store buf off data = Ok b /\ length b = length buf.
Proof.
  intro H. exists (write_at buf off data). pose proof (store_ok buf off data H) as E.
  split; [exact E|]. eapply store_length; exact E.
Qed.

Lemma snprintf_ex buf off m text : (off + m <= length buf)%nat ->
  exists b, snprintf_at buf off m text = Ok b /\ length b = length buf /\
    (forall k, (k <= off)%nat -> firstn k b = firstn k buf) /\
    (forall k, (k < m)%nat -> (k <= length text)%nat ->
               firstn (off + k) b = firstn off buf ++ firstn k text) /\
    (m = O -> b = buf).
Proof.
  intro H. destruct m as [|m']; cbn [snprintf_at].
  - exists buf. repeat split; auto. intros; lia.
  - destruct (store_ex buf off (firstn m' text ++ [0])) as (b & Es & Lb).
    { rewrite app_length, firstn_length. cbn [length]. lia. }
    exists b. split; [exact Es|]. split; [exact Lb|]. split; [|split].
    + intros k Hk. eapply store_firstn_lo; eauto.
    + intros k Hk1 Hk2. rewrite (store_firstn_mid _ _ _ _ k Es).
      * f_equal. rewrite firstn_app_le by (rewrite firstn_length; lia). apply firstn_firstn_le. lia.
      * rewrite app_length, firstn_length. cbn [length]. lia.
    + discriminate.
Qed.

(* every name followed by a comma: what the C loops actually lay down *)
Definition cat (l : list bytes) : bytes := flat_map (fun t => t ++ [44]) l.

Lemma cat_app a b : cat (a ++ b) = cat a ++ cat b.
Proof. apply flat_map_app. Qed.

Lemma join_cat l : l <> [] -> join 44 l ++ [44] = cat l.
Proof.
  induction l as [|a r IH]; intro H; [congruence|].
  destruct r as [|b r'].
  - cbn [join cat flat_map]. rewrite app_nil_r. reflexivity.
  - change (join 44 (a :: b :: r')) with (a ++ 44 :: join 44 (b :: r')).
    change (cat (a :: b :: r')) with ((a ++ [44]) ++ cat (b :: r')).
    rewrite <- IH by discriminate. rewrite <- !app_assoc. reflexivity.
Qed.

Lemma range_hosts_nonempty r : hr_ok r -> range_hosts r <> [].
Proof.
  unfold hr_ok, range_hosts. destruct (single r); [discriminate|]. intros [H1 H2].
  destruct (N.to_nat (hi r + 1 - lo r)) eqn:E; [lia|]. cbn [count_up map]. discriminate.
Qed.

Lemma expand_cons r l : expand (r :: l) = range_hosts r ++ expand l.
Proof. reflexivity. Qed.

Lemma to_string_loop_spec r : forall nums buf off n len,
  (off + n <= length buf)%nat -> (len <= n)%nat -> (0 < n)%nat -> (nums <> [] \/ (0 < len)%nat) ->
  exists b ret, to_string_loop nums r buf off n len = Ok (b, ret) /\ length b = length buf /\
    (forall W, W = cat (map (fun x => pfx r ++ fmt (wid r) x) nums) ->
     ((len + length W <= n)%nat -> ret = Some (len + length W - 1)%nat /\
        firstn (off + len + length W - 1) b
        = firstn (off + len + length W - 1) (firstn (off + len) buf ++ W)) /\
     ((n < len + length W)%nat -> ret = None /\
        firstn (off + n - 1) b = firstn (off + n - 1) (firstn (off + len) buf ++ W))).
Proof.
  induction nums as [|x rest IH]; intros buf off n len Hb Hl Hn Hne.
  - destruct Hne as [Hne|Hne]; [congruence|]. cbn [to_string_loop].
    destruct (store_ex buf (off + len - 1) [0]) as (b & Es & Lb); [cbn [length]; lia|].
    rewrite Es. cbn [bind]. exists b, (Some (len - 1)%nat).
    split; [reflexivity|]. split; [exact Lb|]. intros W ->. cbn [map cat flat_map length]. split.
    + intros _. split; [f_equal; lia|]. rewrite app_nil_r.
      replace (off + len + 0 - 1)%nat with (off + len - 1)%nat by lia.
      rewrite (store_firstn_lo _ _ _ _ (off + len - 1)%nat Es) by lia.
      symmetry. apply firstn_firstn_le. lia.
    + intro; lia.
  - cbn [to_string_loop]. set (t := pfx r ++ fmt (wid r) x).
    destruct (snprintf_ex buf (off + len) (n - len) t) as (buf1 & E1 & L1 & Hlo & Hmid & Hz); [lia|].
    rewrite E1. cbn [bind].
    destruct (n - len <=? length t)%nat eqn:E.
    + apply Nat.leb_le in E.
      destruct (store_ex buf1 (off + n - 1) [0]) as (b & Es & Lb); [cbn [length]; lia|].
      rewrite Es. cbn [bind]. exists b, None. split; [reflexivity|]. split; [lia|].
      intros W ->. cbn [map cat flat_map]. fold t. fold (cat (map (fun x => pfx r ++ fmt (wid r) x) rest)).
      set (W' := cat (map (fun x => pfx r ++ fmt (wid r) x) rest)).
      split; [rewrite !app_length; cbn [length]; lia|].
      intros _. split; [reflexivity|].
      rewrite (store_firstn_lo _ _ _ _ (off + n - 1)%nat Es) by lia.
      destruct (n - len)%nat as [|m'] eqn:Em.
      * rewrite (Hz eq_refl).
        rewrite firstn_app_le by (rewrite firstn_length; lia).
        symmetry. apply firstn_firstn_le. lia.
      * replace (off + n - 1)%nat with ((off + len) + m')%nat by lia.
        rewrite Hmid by lia.
        rewrite (firstn_app_ge (off + len)) by (rewrite firstn_length; lia). f_equal.
        rewrite <- app_assoc. symmetry. apply firstn_app_le. lia.
    + apply Nat.leb_gt in E.
      destruct (store_ex buf1 (off + (len + length t)) [44]) as (b2 & Es & L2); [cbn [length]; lia|].
      rewrite Es. cbn [bind].
      destruct (IH b2 off n (S (len + length t))) as (b & ret & E3 & L3 & Hspec); try lia.
      exists b, ret. split; [exact E3|]. split; [lia|].
      intros W ->. cbn [map cat flat_map]. fold t. fold (cat (map (fun x => pfx r ++ fmt (wid r) x) rest)).
      set (W' := cat (map (fun x => pfx r ++ fmt (wid r) x) rest)).
      specialize (Hspec W' eq_refl).
      assert (HP : firstn (off + S (len + length t)) b2 = firstn (off + len) buf ++ t ++ [44]).
      { replace (off + S (len + length t))%nat with ((off + (len + length t)) + length [44%N])%nat
          by (cbn [length]; lia).
        rewrite (store_firstn_all _ _ _ _ Es).
        replace (off + (len + length t))%nat with ((off + len) + length t)%nat by lia.
        rewrite Hmid by lia. rewrite firstn_all, <- app_assoc. reflexivity. }
      rewrite HP in Hspec.
      replace ((firstn (off + len) buf ++ t ++ [44]) ++ W')
        with (firstn (off + len) buf ++ (t ++ [44]) ++ W') in Hspec
        by (rewrite <- !app_assoc; reflexivity).
      assert (HL : (len + length ((t ++ [44%N]) ++ W') = S (len + length t) + length W')%nat).
      { rewrite !app_length. cbn [length]. lia. }
      destruct Hspec as [Ha Hc]. split.
      * intro H. destruct Ha as [Ha1 Ha2]; [lia|]. split; [rewrite Ha1; f_equal; lia|].
        replace (off + len + length ((t ++ [44%N]) ++ W') - 1)%nat
          with (off + S (len + length t) + length W' - 1)%nat by lia.
        exact Ha2.
      * intro H. apply Hc. lia.
Qed.

Lemma to_string_spec r buf off m : hr_ok r -> (off + m <= length buf)%nat ->
  exists b ret, to_string r buf off m = Ok (b, ret) /\ length b = length buf /\
   (forall J, J = join 44 (range_hosts r) ->
    ((length J < m)%nat -> ret = Some (length J) /\
        firstn (off + length J) b = firstn off buf ++ J) /\
    ((m <= length J)%nat -> match ret with None => True | Some k => (m <= k)%nat end /\
        firstn (off + m - 1) b = firstn (off + m - 1) (firstn off buf ++ J))).
Proof.
  intros Hr Hb. unfold to_string. destruct m as [|m'].
  - exists buf, (Some O). split; [reflexivity|]. split; [reflexivity|]. intros J _. split; [lia|].
    intros _. split; [lia|]. rewrite firstn_app_le by (rewrite firstn_length; lia).
    symmetry. apply firstn_firstn_le. lia.
  - destruct (single r) eqn:Sr.
    + destruct (snprintf_ex buf off (S m') (pfx r) Hb) as (b & Es & Lb & Hlo & Hmid & _).
      rewrite Es. cbn [bind]. exists b, (Some (length (pfx r))).
      split; [reflexivity|]. split; [exact Lb|].
      intros J ->. unfold range_hosts. rewrite Sr. cbn [join]. split.
      * intros HJ. split; [reflexivity|]. rewrite Hmid by lia. rewrite firstn_all. reflexivity.
      * intros HJ. split; [exact HJ|]. replace (off + S m' - 1)%nat with (off + m')%nat by lia.
        rewrite Hmid by lia. rewrite (firstn_app_ge off) by (rewrite firstn_length; lia). reflexivity.
    + pose proof (range_hosts_nonempty r Hr) as Hne.
      unfold range_hosts in *. rewrite Sr in *.
      set (nums := count_up (N.to_nat (hi r + 1 - lo r)) (lo r)) in *.
      destruct (to_string_loop_spec r nums buf off (S m') O) as (b & ret & E & Lb & Hspec); try lia.
      { left. intro Hn. apply Hne. rewrite Hn. reflexivity. }
      exists b, ret. split; [exact E|]. split; [exact Lb|]. intros J ->.
      specialize (Hspec _ eq_refl). rewrite <- join_cat in Hspec by exact Hne.
      set (J := join 44 (map (fun n => pfx r ++ fmt (wid r) n) nums)) in *.
      rewrite Nat.add_0_r in Hspec. rewrite app_length in Hspec. cbn [length Nat.add] in Hspec.
      destruct Hspec as [Ha Hc]. split.
      * intro HJ. destruct Ha as [Ha1 Ha2]; [lia|]. split; [rewrite Ha1; f_equal; lia|].
        replace (off + (length J + 1) - 1)%nat with (off + length J)%nat in Ha2 by lia.
        rewrite Ha2. rewrite (firstn_app_ge off) by (rewrite firstn_length; lia). f_equal.
        rewrite firstn_app_le by lia. apply firstn_all.
      * intro HJ. destruct Hc as [Hc1 Hc2]; [lia|]. rewrite Hc1. split; [exact I|].
        rewrite Hc2. rewrite app_assoc. apply firstn_app_le.
        rewrite app_length, firstn_length. lia.
Qed.

Lemma deranged_loop_spec : forall l buf n len,
  Forall hr_ok l -> length buf = n -> (len <= n)%nat ->
  exists b len' tr, deranged_loop l buf n len = Ok (b, len', tr) /\ length b = n /\
   (forall F, F = firstn len buf ++ cat (expand l) ->
     ((length F <= n)%nat -> len' = length F /\ tr = false /\ firstn (length F) b = F) /\
     ((n < length F)%nat -> len' = n /\ tr = true /\ firstn (n - 1) b = firstn (n - 1) F)).
Proof.
  induction l as [|r rest IH]; intros buf n len Hok Hn Hlen.
  - cbn [deranged_loop]. exists buf, len, false. split; [reflexivity|]. split; [exact Hn|].
    intros F ->. cbn [expand flat_map cat]. rewrite app_nil_r, firstn_length. split.
    + intros _. split; [lia|]. split; [reflexivity|]. rewrite Nat.min_l by lia. reflexivity.
    + intro H. lia.
  - pose proof (Forall_inv Hok) as Hr. pose proof (Forall_inv_tail Hok) as Hrest. cbn [deranged_loop].
    destruct (to_string_spec r buf len (n - len)) as (b1 & ret & E & L1 & Hspec); [assumption|lia|].
    rewrite E. cbn [bind]. specialize (Hspec _ eq_refl) as [Ha Hc].
    set (J := join 44 (range_hosts r)) in *.
    assert (HF : cat (expand (r :: rest)) = J ++ [44] ++ cat (expand rest)).
    { rewrite expand_cons, cat_app, <- join_cat by (apply range_hosts_nonempty; exact Hr).
      rewrite <- app_assoc. reflexivity. }
    destruct (Nat.ltb_spec (length J) (n - len)) as [HJ|HJ].
    + destruct (Ha HJ) as [-> Hf].
      destruct (n - len <=? length J)%nat eqn:E2; [apply Nat.leb_le in E2; lia|].
      destruct (store_ex b1 (len + length J) [44]) as (b2 & Es & L2); [cbn [length]; lia|].
      rewrite Es. cbn [bind].
      destruct (IH b2 n (S (len + length J))) as (b & len' & tr & E3 & L3 & Hspec3); [assumption|lia|lia|].
      exists b, len', tr. split; [exact E3|]. split; [exact L3|]. intros F ->.
      assert (HP : firstn (S (len + length J)) b2 = firstn len buf ++ J ++ [44]).
      { replace (S (len + length J)) with ((len + length J) + length [44%N])%nat by (cbn [length]; lia).
        rewrite (store_firstn_all _ _ _ _ Es), Hf, <- app_assoc. reflexivity. }
      specialize (Hspec3 _ eq_refl). rewrite HP in Hspec3. rewrite HF.
      replace (firstn len buf ++ J ++ [44] ++ cat (expand rest))
        with ((firstn len buf ++ J ++ [44]) ++ cat (expand rest)) by (rewrite <- !app_assoc; reflexivity).
      exact Hspec3.
    + destruct (Hc HJ) as [Hret Hf].
      destruct ret as [k|];
        [destruct (n - len <=? k)%nat eqn:E2; [|apply Nat.leb_gt in E2; lia]|];
        (exists b1, n, true; split; [reflexivity|]; split; [lia|]; intros F ->; rewrite HF; split;
         [ intro HH; rewrite !app_length, firstn_length in HH; cbn [length] in HH; lia
         | intros _; split; [reflexivity|]; split; [reflexivity|];
           replace (len + (n - len) - 1)%nat with (n - 1)%nat in Hf by lia; rewrite Hf;
           rewrite (app_assoc (firstn len buf) J); symmetry; apply firstn_app_le;
           rewrite app_length, firstn_length; lia ]).
Qed.

Lemma deranged_string_spec l buf : Forall hr_ok l -> buf <> [] ->
  exists b ret, deranged_string l buf = Ok (b, ret) /\ length b = length buf /\
   (forall T, T = join 44 (expand l) ->
    ((length T < length buf)%nat -> ret = Some (length T) /\ firstn (length T + 1) b = T ++ [0]) /\
    ((length buf <= length T)%nat -> ret = None /\
        firstn (length buf - 1 + 1) b = firstn (length buf - 1) T ++ [0])).
Proof.
  intros Hok Hne. unfold deranged_string.
  assert (Hn : (0 < length buf)%nat) by (destruct buf; [congruence|cbn [length]; lia]).
  set (n := length buf) in *.
  destruct (deranged_loop_spec l buf n O Hok eq_refl) as (b1 & len' & tr & E & L1 & Hspec); [lia|].
  rewrite E. cbn [bind]. specialize (Hspec _ eq_refl). cbn [firstn app] in Hspec.
  destruct Hspec as [Ha Hc].
  assert (Hpos : match len' with O => O | S k => k end = (len' - 1)%nat) by (destruct len'; lia).
  rewrite Hpos. clear Hpos.
  assert (Hlen' : (len' <= n)%nat).
  { destruct (le_lt_dec (length (cat (expand l))) n) as [H|H]; [apply Ha in H|apply Hc in H]; lia. }
  destruct (store_ex b1 (len' - 1) [0]) as (b & Es & Lb); [cbn [length]; lia|].
  rewrite Es. cbn [bind].
  exists b, (if tr || (len' - 1 =? n)%nat then None else Some (len' - 1)%nat).
  split; [destruct (tr || (len' - 1 =? n)%nat); reflexivity|]. split; [lia|].
  intros T ->. destruct (expand l) as [|a x] eqn:Ex.
  - cbn [join cat flat_map length] in *. split; [|lia].
    intros _. destruct Ha as (-> & -> & _); [lia|]. cbn [Nat.sub orb] in *.
    destruct (Nat.eqb_spec 0 n) as [H0|_]; [lia|]. split; [reflexivity|].
    change (0 + 1)%nat with (0 + length [0%N])%nat.
    rewrite (store_firstn_all _ _ _ _ Es). reflexivity.
  - assert (HF : cat (a :: x) = join 44 (a :: x) ++ [44]) by (symmetry; apply join_cat; discriminate).
    rewrite HF in *. set (T := join 44 (a :: x)) in *.
    rewrite app_length in Ha, Hc. cbn [length] in Ha, Hc. split.
    + intro HT. destruct Ha as (-> & -> & Hf); [lia|]. cbn [orb].
      replace (length T + 1 - 1)%nat with (length T) in * by lia.
      destruct (Nat.eqb_spec (length T) n) as [H0|_]; [lia|]. split; [reflexivity|].
      change (length T + 1)%nat with (length T + length [0%N])%nat.
      rewrite (store_firstn_all _ _ _ _ Es). f_equal.
      rewrite <- (firstn_firstn_le (length T) (length T + 1)) by lia. rewrite Hf.
      rewrite firstn_app_le by lia. apply firstn_all.
    + intro HT. destruct Hc as (-> & -> & Hf); [lia|]. cbn [orb]. split; [reflexivity|].
      change (n - 1 + 1)%nat with (n - 1 + length [0%N])%nat.
      rewrite (store_firstn_all _ _ _ _ Es). f_equal.
      rewrite Hf. apply firstn_app_le. lia.
Qed.

Lemma no_nul_join names : Forall (fun name => ~ In 0 name) names -> ~ In 0 (join 44 names).
Proof.
  induction 1 as [|a r Ha Hr IH]; [auto|]. destruct r as [|b r']; [exact Ha|].
  change (join 44 (a :: b :: r')) with (a ++ 44 :: join 44 (b :: r')).
  intro Hin. apply in_app_or in Hin as [Hin|[Hin|Hin]]; [auto|discriminate|auto].
Qed.

Lemma In_firstn {A} (x : A) k l : In x (firstn k l) -> In x l.
Proof. intro H. rewrite <- (firstn_skipn k l). apply in_or_app. left. exact H. Qed.

Theorem deranged_no_fault : forall l buf, Forall hr_ok l -> buf <> [] ->
  match deranged_string l buf with Fault _ => False | _ => True end.
Proof.
  intros l buf Hok Hne. destruct (deranged_string_spec l buf Hok Hne) as (b & ret & E & _).
  rewrite E. exact I.
Qed.

Theorem deranged_fit : forall l buf, Forall hr_ok l ->
  Forall (fun name => ~ In 0 name) (expand l) -> buf <> [] ->
  (length (join 44 (expand l)) < length buf)%nat ->
  exists b, deranged_string l buf = Ok (b, Some (length (join 44 (expand l)))) /\
            cstring b = Some (join 44 (expand l)).
Proof.
  intros l buf Hok Hnul Hne Hlen.
  destruct (deranged_string_spec l buf Hok Hne) as (b & ret & E & Lb & Hspec).
  destruct (Hspec _ eq_refl) as [Ha _]. destruct (Ha Hlen) as [-> Hf].
  exists b. split; [exact E|]. apply cstring_firstn; [apply no_nul_join; exact Hnul|exact Hf].
Qed.

Theorem deranged_truncation : forall l buf, Forall hr_ok l ->
  Forall (fun name => ~ In 0 name) (expand l) -> buf <> [] ->
  (length buf <= length (join 44 (expand l)))%nat ->
  exists b t, deranged_string l buf = Ok (b, None) /\ cstring b = Some t /\
              is_prefix t (join 44 (expand l)) = true /\ (length t < length buf)%nat.
Proof.
  intros l buf Hok Hnul Hne Hlen.
  assert (Hn : (0 < length buf)%nat) by (destruct buf; [congruence|cbn [length]; lia]).
  destruct (deranged_string_spec l buf Hok Hne) as (b & ret & E & Lb & Hspec).
  destruct (Hspec _ eq_refl) as [_ Hc]. destruct (Hc Hlen) as [-> Hf].
  set (T := join 44 (expand l)) in *.
  assert (Lt : length (firstn (length buf - 1) T) = (length buf - 1)%nat) by (apply firstn_length_le; lia).
  exists b, (firstn (length buf - 1) T). split; [exact E|]. split; [|split].
  - apply cstring_firstn.
    + intro Hin. apply In_firstn in Hin. revert Hin. apply no_nul_join. exact Hnul.
    + rewrite Lt. exact Hf.
  - apply is_prefix_spec. exists (skipn (length buf - 1) T). symmetry. apply firstn_skipn.
  - rewrite Lt. lia.
Qed.
