(* C15: limits and clean failure of the host-expression parser model.
   Every lemma here is about EVERY byte string (no well-formedness assumption). *)
From PV Require Import Base.DecimalFacts Hostlist.HLDefs Hostlist.HLSpec Hostlist.HLFacts Hostlist.HLParseFacts.
Local Open Scope N_scope.

(* ====================================================================== *)
(* 0. constants                                                            *)
(* ====================================================================== *)

Lemma MAX_RANGE_small : MAX_RANGE < ULONG - 1. Proof. reflexivity. Qed.
Lemma MAX_RANGE_pos : 0 < MAX_RANGE. Proof. reflexivity. Qed.
Lemma MAX_RANGE_val : MAX_RANGE = 16384. Proof. reflexivity. Qed.
Lemma MAX_HOST_SUFFIX_small : MAX_HOST_SUFFIX < ULONG - 1. Proof. reflexivity. Qed.

(* ====================================================================== *)
(* 1. strtoul never returns more than ULONG_MAX                            *)
(* ====================================================================== *)

Lemma strtoul_range s v rest o : strtoul s = Some (v, rest, o) -> v < ULONG.
Proof.
  unfold strtoul. cbv zeta.
  match goal with |- context [match ?p with pair _ _ => _ end] => destruct p as [neg s2] end.
  destruct (take_while is_digit s2) as [|d ds]; [discriminate|].
  set (val := value (d :: ds)).
  match goal with |- Some (?x, _, _) = _ -> _ => set (res := x) end.
  intros H. assert (Hv : res = v) by congruence. subst v. subst res. clear H.
  pose proof ULONG_pos as HU.
  destruct (ULONG <=? val) eqn:E; destruct neg; cbn [negb andb].
  - lia.
  - lia.
  - unfold wrap. apply N.mod_lt. lia.
  - lia.
Qed.

(* ====================================================================== *)
(* 2. _parse_single_range                                                  *)
(* ====================================================================== *)

(* the three final checks of _parse_single_range *)
Definition psr_tail (lo_ hi_ : N) (w : nat) : outcome rng :=
  if hi_ <? lo_ then Err EINVAL
  else if MAX_RANGE <=? hi_ - lo_ then Err ERANGE
  else if hi_ =? ULONG - 1 then Err EINVAL
  else Ok (mkrng lo_ hi_ w).

Definition range_ok (r : rng) : Prop :=
  r_lo r <= r_hi r /\ r_hi r - r_lo r < MAX_RANGE /\ r_hi r < ULONG - 1.

Lemma psr_tail_ok lo_ hi_ w r : hi_ < ULONG -> psr_tail lo_ hi_ w = Ok r -> range_ok r.
Proof.
  unfold psr_tail, range_ok. intros Hh H.
  destruct (hi_ <? lo_) eqn:E1; [discriminate|].
  destruct (MAX_RANGE <=? hi_ - lo_) eqn:E2; [discriminate|].
  destruct (hi_ =? ULONG - 1) eqn:E3; [discriminate|].
  injection H as <-. cbn [r_lo r_hi]. lia.
Qed.

Lemma psr_tail_no_fault lo_ hi_ w f : psr_tail lo_ hi_ w <> Fault f.
Proof.
  unfold psr_tail.
  destruct (hi_ <? lo_); [discriminate|].
  destruct (MAX_RANGE <=? hi_ - lo_); [discriminate|].
  destruct (hi_ =? ULONG - 1); discriminate.
Qed.

(* whatever the text: refused as invalid, or two numbers strtoul produced go through the checks *)
Lemma psr_shape s :
  parse_single_range s = Err EINVAL \/
  exists lo_ hi_ w, lo_ < ULONG /\ hi_ < ULONG /\ parse_single_range s = psr_tail lo_ hi_ w.
Proof.
  unfold parse_single_range. destruct (split_at 45 s) as [a pb].
  destruct pb as [[|c p']|].
  - (* "a-" *)
    destruct (strtoul a) as [[[lo_ rest_lo] over_lo]|] eqn:Ea; [|left; reflexivity].
    apply strtoul_range in Ea.
    destruct rest_lo; [|left; reflexivity].
    right. exists lo_, lo_, (length a). auto.
  - rewrite match_N_45. destruct (c =? 45) eqn:Ec; [left; reflexivity|].
    destruct (strtoul a) as [[[lo_ rest_lo] over_lo]|] eqn:Ea; [|left; reflexivity].
    apply strtoul_range in Ea.
    destruct (strtoul (c :: p')) as [[[h rest] over]|] eqn:Eb; [|left; reflexivity].
    apply strtoul_range in Eb.
    destruct rest; [|left; reflexivity].
    right. exists lo_, h, (length a). auto.
  - destruct (strtoul a) as [[[lo_ rest_lo] over_lo]|] eqn:Ea; [|left; reflexivity].
    apply strtoul_range in Ea.
    destruct rest_lo; [|left; reflexivity].
    right. exists lo_, lo_, (length a). auto.
Qed.

Theorem parse_single_range_sound : forall s r, parse_single_range s = Ok r ->
  r_lo r <= r_hi r /\ r_hi r - r_lo r < MAX_RANGE /\ r_hi r < ULONG - 1.
Proof.
  intros s r H. destruct (psr_shape s) as [E|(lo_ & hi_ & w & Hl & Hh & E)]; rewrite E in H.
  - discriminate.
  - exact (psr_tail_ok _ _ _ _ Hh H).
Qed.

Lemma parse_single_range_no_fault s f : parse_single_range s <> Fault f.
Proof.
  destruct (psr_shape s) as [E|(lo_ & hi_ & w & Hl & Hh & E)]; rewrite E.
  - discriminate.
  - apply psr_tail_no_fault.
Qed.

(* saturating conversion done by strtoul on a digit string *)
Definition sat (v : N) : N := if ULONG <=? v then ULONG - 1 else v.

Lemma digits_no_dash a : forallb is_digit a = true -> ~ In 45 a.
Proof. intros H. eapply forallb_not_In; [exact H|reflexivity]. Qed.

Lemma psr_digits a b :
  a <> [] -> b <> [] -> forallb is_digit a = true -> forallb is_digit b = true ->
  parse_single_range (a ++ 45 :: b) = psr_tail (sat (value a)) (sat (value b)) (length a).
Proof.
  intros Ha Hb Da Db. unfold parse_single_range.
  rewrite split_at_app by (apply digits_no_dash; auto).
  destruct b as [|d b']; [congruence|].
  assert (Hd : is_digit d = true).
  { cbn [forallb] in Db. apply andb_true_iff in Db; tauto. }
  assert (E45 : (d =? 45) = false) by (unfold is_digit in Hd; lia).
  cbv beta iota. rewrite match_N_45, E45.
  rewrite (strtoul_digits a Ha Da), (strtoul_digits (d :: b') Hb Db).
  cbv beta iota. reflexivity.
Qed.

Theorem parse_too_many : forall a b, a <> [] -> b <> [] ->
  forallb is_digit a = true -> forallb is_digit b = true ->
  value a <= value b -> MAX_RANGE <= value b - value a ->
  (exists e, parse_single_range (a ++ 45 :: b) = Err e) /\
  (value a + MAX_RANGE < ULONG -> parse_single_range (a ++ 45 :: b) = Err ERANGE).
Proof.
  intros a b Ha Hb Da Db Hle Hbig. rewrite psr_digits by auto.
  pose proof MAX_RANGE_small as HM. pose proof MAX_RANGE_pos as HP. unfold psr_tail, sat.
  destruct (ULONG <=? value a) eqn:Ea; destruct (ULONG <=? value b) eqn:Eb.
  - split; [|intro; lia].
    assert ((ULONG - 1 <? ULONG - 1) = false) as -> by lia.
    assert ((MAX_RANGE <=? ULONG - 1 - (ULONG - 1)) = false) as -> by lia.
    rewrite N.eqb_refl. eauto.
  - lia.
  - destruct (ULONG - 1 <? value a) eqn:E1; [lia|].
    destruct (MAX_RANGE <=? ULONG - 1 - value a) eqn:E2.
    + split; eauto.
    + rewrite N.eqb_refl. split; [eauto|intro; lia].
  - assert ((value b <? value a) = false) as -> by lia.
    assert ((MAX_RANGE <=? value b - value a) = true) as -> by lia.
    split; eauto.
Qed.

Theorem parse_reversed : forall a b, a <> [] -> b <> [] ->
  forallb is_digit a = true -> forallb is_digit b = true ->
  value b < value a -> parse_single_range (a ++ 45 :: b) = Err EINVAL.
Proof.
  intros a b Ha Hb Da Db Hlt. rewrite psr_digits by auto.
  pose proof MAX_RANGE_small as HM. pose proof MAX_RANGE_pos as HP. unfold psr_tail, sat.
  destruct (ULONG <=? value a) eqn:Ea; destruct (ULONG <=? value b) eqn:Eb.
  - assert ((ULONG - 1 <? ULONG - 1) = false) as -> by lia.
    assert ((MAX_RANGE <=? ULONG - 1 - (ULONG - 1)) = false) as -> by lia.
    rewrite N.eqb_refl. reflexivity.
  - destruct (value b <? ULONG - 1) eqn:E1; [reflexivity|].
    assert (value b = ULONG - 1) as -> by lia.
    assert ((MAX_RANGE <=? ULONG - 1 - (ULONG - 1)) = false) as -> by lia.
    rewrite N.eqb_refl. reflexivity.
  - lia.
  - assert ((value b <? value a) = true) as -> by lia. reflexivity.
Qed.

Theorem parse_non_numeric : forall s,
  (forall ds r, strtoul (fst (split_at 45 s)) <> Some (ds, r, false) /\
                strtoul (fst (split_at 45 s)) <> Some (ds, r, true)) ->
  parse_single_range s = Err EINVAL.
Proof.
  intros s H. unfold parse_single_range. destruct (split_at 45 s) as [a pb]. cbn [fst] in H.
  assert (Ea : strtoul a = None).
  { destruct (strtoul a) as [[[v r] o]|]; [|reflexivity]. exfalso.
    destruct (H v r) as [H1 H2]. destruct o; [apply H2|apply H1]; reflexivity. }
  destruct pb as [[|c p']|].
  - rewrite Ea. reflexivity.
  - rewrite match_N_45. destruct (c =? 45); [reflexivity|]. rewrite Ea. reflexivity.
  - rewrite Ea. reflexivity.
Qed.

(* ====================================================================== *)
(* 3. unbalanced brackets, error propagation, no out-of-contract state     *)
(* ====================================================================== *)

Theorem create_tok_unbalanced_open : forall h tok p after,
  split_at 91 tok = (p, Some after) -> ~ In 93 after -> create_tok h tok = Err EINVAL.
Proof.
  intros h tok p after E1 Hn. unfold create_tok. rewrite E1.
  rewrite (split_at_none 93 after Hn). reflexivity.
Qed.

Theorem create_tok_unbalanced_close : forall h tok,
  ~ In 91 tok -> In 93 tok -> create_tok h tok = Err EINVAL.
Proof.
  intros h tok Hn Hi. unfold create_tok. rewrite (split_at_none 91 tok Hn).
  apply mem_In in Hi. rewrite Hi. reflexivity.
Qed.

Theorem create_loop_error : forall fuel h s tok rest e,
  next_tok s = Some (tok, rest) -> create_tok h tok = Err e -> create_loop (S fuel) h s = Err e.
Proof.
  intros fuel h s tok rest e Hn Hc. cbn [create_loop]. rewrite Hn, Hc. reflexivity.
Qed.

Lemma parse_ranges_no_fault pieces : forall room f, parse_ranges pieces room <> Fault f.
Proof.
  induction pieces as [|p ps IH]; intros room f; cbn [parse_ranges]; [discriminate|].
  destruct room as [|room']; [discriminate|].
  destruct (parse_single_range p) as [r|e|w] eqn:Ep; cbn [bind]; [|discriminate|].
  - destruct (parse_ranges ps room') as [rs|e|w] eqn:Eps; cbn [bind]; try discriminate.
    exfalso. exact (IH room' w Eps).
  - exfalso. exact (parse_single_range_no_fault p w Ep).
Qed.

Lemma create_tok_no_fault h tok f : create_tok h tok <> Fault f.
Proof.
  unfold create_tok. destruct (split_at 91 tok) as [p [after|]].
  - destruct (split_at 93 after) as [rl [q|]]; [|discriminate].
    unfold parse_range_list.
    destruct (parse_ranges (split_all 44 rl) (N.to_nat MAX_RANGES)) as [rs|e|w] eqn:E; cbn [bind].
    + destruct q; discriminate.
    + discriminate.
    + exfalso. exact (parse_ranges_no_fault _ _ _ E).
  - destruct (mem 93 tok); discriminate.
Qed.

Lemma create_loop_no_fault fuel : forall h s f, create_loop fuel h s <> Fault f.
Proof.
  induction fuel as [|fuel IH]; intros h s f; cbn [create_loop]; [discriminate|].
  destruct (next_tok s) as [[tok rest]|]; [|discriminate].
  destruct (create_tok h tok) as [h'|e|w] eqn:E; cbn [bind].
  - apply IH.
  - discriminate.
  - exfalso. exact (create_tok_no_fault _ _ _ E).
Qed.

Theorem create_no_fault : forall s f, create s <> Fault f.
Proof. intros s f. apply create_loop_no_fault. Qed.

(* ====================================================================== *)
(* 4. size bound                                                           *)
(* ====================================================================== *)

(* 4.1 lengths of the text pieces *)
Lemma split_at_length c s a b : split_at c s = (a, Some b) -> length s = (length a + 1 + length b)%nat.
Proof.
  revert a b. induction s as [|x r IH]; intros a b H; cbn [split_at] in H; [discriminate|].
  destruct (x =? c).
  - inversion H; subst. cbn [length]. lia.
  - destruct (split_at c r) as [a' b'] eqn:E. inversion H; subst.
    cbn [length]. rewrite (IH a' b eq_refl). lia.
Qed.

Lemma split_all_length c s : (length (split_all c s) <= length s + 1)%nat.
Proof.
  induction s as [|x r IH]; cbn [split_all length]; [lia|].
  destruct (x =? c); cbn [length]; [lia|].
  destruct (split_all c r) as [|p ps]; cbn [length] in *; lia.
Qed.

Lemma drop_while_length p s : (length (drop_while p s) <= length s)%nat.
Proof. induction s as [|x r IH]; cbn [drop_while length]; [lia|]. destruct (p x); cbn [length]; lia. Qed.

Lemma drop_while_head p s x r : drop_while p s = x :: r -> p x = false.
Proof.
  induction s as [|y s IH]; cbn [drop_while]; [discriminate|].
  destruct (p y) eqn:E; auto. intros H. injection H as -> _. exact E.
Qed.

Lemma scan_tok_length s : forall level t r, scan_tok level s = (t, r) -> (length t + length r = length s)%nat.
Proof.
  induction s as [|c s IH]; intros level t r H; cbn [scan_tok] in H.
  - injection H as <- <-. reflexivity.
  - destruct ((level =? 0)%Z && is_sep c).
    + injection H as <- <-. reflexivity.
    + match type of H with context [scan_tok ?l s] => destruct (scan_tok l s) as [t' r'] eqn:E end.
      injection H as <- <-. apply IH in E. cbn [length]. lia.
Qed.

Lemma next_tok_spec s tok rest : next_tok s = Some (tok, rest) ->
  tok <> [] /\ (length tok + length rest <= length s)%nat.
Proof.
  unfold next_tok. pose proof (drop_while_length is_sep s) as Hl.
  destruct (drop_while is_sep s) as [|c s1] eqn:Ed; [discriminate|].
  apply drop_while_head in Ed. cbn [scan_tok]. rewrite Ed, andb_false_r.
  match goal with |- context [scan_tok ?l s1] => destruct (scan_tok l s1) as [t r] eqn:E end.
  intros H. injection H as <- <-. apply scan_tok_length in E.
  pose proof (drop_while_length is_sep r). cbn [length] in *. split; [discriminate|lia].
Qed.

(* 4.2 accepted ranges *)
Lemma parse_ranges_ok pieces : forall room rs, parse_ranges pieces room = Ok rs ->
  length rs = length pieces /\ Forall range_ok rs.
Proof.
  induction pieces as [|p ps IH]; intros room rs H; cbn [parse_ranges] in H.
  - injection H as <-. split; [reflexivity|constructor].
  - destruct room as [|room']; [discriminate|].
    destruct (parse_single_range p) as [r|e|w] eqn:Ep; cbn [bind] in H; try discriminate.
    destruct (parse_ranges ps room') as [rs'|e|w] eqn:Eps; cbn [bind] in H; try discriminate.
    injection H as <-. destruct (IH _ _ Eps) as [Hlen Hok]. split.
    + cbn [length]. congruence.
    + constructor; auto. exact (parse_single_range_sound p r Ep).
Qed.

(* 4.3 the invariant of a list under construction *)
Definition hl_inv (h : hl) : Prop :=
  Forall hr_ok (ranges h) /\
  N.of_nat (length (expand (ranges h))) = Z.to_N (nhosts h) /\ (0 <= nhosts h)%Z.

Lemma hl_empty_inv : hl_inv hl_empty.
Proof. split; [constructor|]. split; [reflexivity|]. cbn [hl_empty nhosts]. lia. Qed.

Lemma range_hosts_length r : hr_ok r -> N.of_nat (length (range_hosts r)) = hr_count r.
Proof.
  intros H. rewrite (hr_count_ok r H). unfold range_hosts, hr_ok in *.
  destruct (single r); [reflexivity|].
  rewrite map_length, count_up_length. lia.
Qed.

Lemma hl_push_range_inv h r : hl_inv h -> hr_ok r -> hl_inv (hl_push_range h r).
Proof.
  intros (Hok & Hlen & Hpos) Hr. unfold hl_inv, hl_push_range. cbn [ranges nhosts].
  split; [apply push_range_ok; auto|].
  rewrite push_range_expand by auto. rewrite app_length.
  pose proof (range_hosts_length r Hr). lia.
Qed.

(* folding a step that keeps the invariant and adds at most B hosts *)
Lemma fold_inv {A} (step : hl -> A -> hl) (P : A -> Prop) (B : Z) :
  (forall h x, hl_inv h -> P x -> hl_inv (step h x) /\ (nhosts (step h x) <= nhosts h + B)%Z) ->
  forall xs h, hl_inv h -> Forall P xs ->
  hl_inv (fold_left step xs h) /\ (nhosts (fold_left step xs h) <= nhosts h + B * Z.of_nat (length xs))%Z.
Proof.
  intros Hstep xs. induction xs as [|x xs IH]; intros h Hh HP; cbn [fold_left length].
  - split; auto. lia.
  - inversion HP as [|? ? Hx Hxs]; subst.
    destruct (Hstep h x Hh Hx) as [Hi Hb].
    destruct (IH (step h x) Hi Hxs) as [Hi' Hb']. split; auto.
    rewrite Nat2Z.inj_succ, Z.mul_succ_r. lia.
Qed.

Definition ZMAX : Z := Z.of_N MAX_RANGE.
Lemma ZMAX_val : ZMAX = 16384%Z. Proof. reflexivity. Qed.

Lemma push_range_list_inv h p rs : hl_inv h -> Forall range_ok rs ->
  hl_inv (push_range_list h p rs) /\
  (nhosts (push_range_list h p rs) <= nhosts h + ZMAX * Z.of_nat (length rs))%Z.
Proof.
  intros Hh Hrs. unfold push_range_list.
  apply (fold_inv (fun h r => hl_push_range h (mkhr p (r_lo r) (r_hi r) (r_w r) false)) range_ok ZMAX); auto.
  intros h0 r Hh0 (H1 & H2 & H3).
  assert (Hok : hr_ok (mkhr p (r_lo r) (r_hi r) (r_w r) false)).
  { unfold hr_ok. cbn [single lo hi]. lia. }
  split; [apply hl_push_range_inv; auto|].
  unfold hl_push_range. cbn [nhosts]. rewrite (hr_count_ok _ Hok). cbn [single lo hi].
  unfold ZMAX. lia.
Qed.

Lemma push_range_list_with_suffix_inv h p sfx rs : hl_inv h -> Forall range_ok rs ->
  hl_inv (push_range_list_with_suffix h p sfx rs) /\
  (nhosts (push_range_list_with_suffix h p sfx rs) <= nhosts h + ZMAX * Z.of_nat (length rs))%Z.
Proof.
  intros Hh Hrs. unfold push_range_list_with_suffix.
  apply (fold_inv
           (fun h r => fold_left (fun h n => hl_push_range h (mkhr (suffix_host p sfx (r_w r) n) 0 0 0 true))
                                 (count_up (N.to_nat (r_hi r + 1 - r_lo r)) (r_lo r)) h)
           range_ok ZMAX); auto.
  intros h0 r Hh0 (H1 & H2 & H3).
  destruct (fold_inv (fun h n => hl_push_range h (mkhr (suffix_host p sfx (r_w r) n) 0 0 0 true))
                     (fun _ => True) 1%Z) with
      (xs := count_up (N.to_nat (r_hi r + 1 - r_lo r)) (r_lo r)) (h := h0) as [Hi Hb]; auto.
  - intros h1 n Hh1 _.
    assert (Hok : hr_ok (mkhr (suffix_host p sfx (r_w r) n) 0 0 0 true)) by (split; reflexivity).
    split; [apply hl_push_range_inv; auto|].
    unfold hl_push_range. cbn [nhosts]. rewrite (hr_count_ok _ Hok). cbn [single]. lia.
  - apply Forall_forall; auto.
  - split; auto. rewrite count_up_length in Hb. unfold ZMAX. lia.
Qed.

(* 4.4 a plain word: exactly one more host *)
Lemma hostname_with_suffix_num name k sfx :
  hn_sfx (hostname_with_suffix name k) = Some sfx -> hn_num (hostname_with_suffix name k) <= MAX_HOST_SUFFIX.
Proof.
  unfold hostname_with_suffix.
  destruct (skipn k name) as [|c s']; [discriminate|].
  destruct (strtoul (c :: s')) as [[[num rest] o]|]; [|discriminate].
  destruct rest; [|discriminate].
  destruct (num <=? MAX_HOST_SUFFIX) eqn:E; [|discriminate].
  intros _. cbn [hn_num]. lia.
Qed.

Lemma push_host_inv h name : hl_inv h ->
  hl_inv (push_host h name) /\ (nhosts (push_host h name) = nhosts h + 1)%Z.
Proof.
  intros Hh. unfold push_host.
  destruct (hn_sfx (hostname_create name)) as [sfx|] eqn:E.
  - apply hostname_with_suffix_num in E. fold (hostname_create name) in E.
    set (hn := hostname_create name) in *.
    assert (Hok : hr_ok (mkhr (hn_pfx hn) (hn_num hn) (hn_num hn) (length sfx) false)).
    { unfold hr_ok. cbn [single lo hi]. pose proof MAX_HOST_SUFFIX_small. lia. }
    split; [apply hl_push_range_inv; auto|].
    unfold hl_push_range. cbn [nhosts]. rewrite (hr_count_ok _ Hok). cbn [single lo hi]. lia.
  - assert (Hok : hr_ok (mkhr name 0 0 0 true)) by (split; reflexivity).
    split; [apply hl_push_range_inv; auto|].
    unfold hl_push_range. cbn [nhosts]. rewrite (hr_count_ok _ Hok). cbn [single]. lia.
Qed.

(* 4.5 one word *)
Lemma Ok_inj {A} (a b : A) : Ok a = Ok b -> a = b.
Proof. intros H. injection H as H. exact H. Qed.

Lemma create_tok_inv h tok h' : tok <> [] -> create_tok h tok = Ok h' -> hl_inv h ->
  hl_inv h' /\ (nhosts h' <= nhosts h + ZMAX * Z.of_nat (length tok))%Z.
Proof.
  intros Hne H Hh. unfold create_tok in H.
  destruct (split_at 91 tok) as [p [after|]] eqn:E1.
  - destruct (split_at 93 after) as [rl [q|]] eqn:E2; [|discriminate].
    apply split_at_length in E1, E2.
    unfold parse_range_list in H.
    destruct (parse_ranges (split_all 44 rl) (N.to_nat MAX_RANGES)) as [rs|e|w] eqn:E3;
      cbn [bind] in H; try discriminate.
    apply parse_ranges_ok in E3 as [Hlen Hrs].
    pose proof (split_all_length 44 rl) as Hsl.
    assert (Hb : (Z.of_nat (length rs) <= Z.of_nat (length tok))%Z) by lia.
    assert (HZ : (0 <= ZMAX)%Z) by (unfold ZMAX; lia).
    assert (Hm : (ZMAX * Z.of_nat (length rs) <= ZMAX * Z.of_nat (length tok))%Z)
      by (apply Z.mul_le_mono_nonneg_l; auto).
    destruct q as [|c q'].
    + injection H as <-. destruct (push_range_list_inv h p rs Hh Hrs) as [Hi Hn]. split; auto. lia.
    + injection H as <-.
      destruct (push_range_list_with_suffix_inv h p (c :: q') rs Hh Hrs) as [Hi Hn]. split; auto. lia.
  - destruct (mem 93 tok); [discriminate|]. apply Ok_inj in H. subst h'.
    destruct (push_host_inv h (firstn (N.to_nat CUR_TOK_SIZE - 1) tok) Hh) as [Hi Hn]. split; auto.
    destruct tok as [|c t]; [congruence|]. cbn [length]. rewrite ZMAX_val. lia.
Qed.

(* 4.6 the whole expression *)
Lemma create_loop_inv fuel : forall h s h', create_loop fuel h s = Ok h' -> hl_inv h ->
  hl_inv h' /\ (nhosts h' <= nhosts h + ZMAX * Z.of_nat (length s))%Z.
Proof.
  assert (HZ : (0 <= ZMAX)%Z) by (unfold ZMAX; lia).
  induction fuel as [|fuel IH]; intros h s h' H Hh; cbn [create_loop] in H.
  - injection H as <-. split; auto. nia.
  - destruct (next_tok s) as [[tok rest]|] eqn:En.
    2:{ injection H as <-. split; auto. nia. }
    apply next_tok_spec in En as [Hne Hlen].
    destruct (create_tok h tok) as [h1|e|w] eqn:Et; cbn [bind] in H; try discriminate.
    destruct (create_tok_inv h tok h1 Hne Et Hh) as [Hi1 Hb1].
    destruct (IH h1 rest h' H Hi1) as [Hi' Hb']. split; auto.
    assert (Hm : (ZMAX * (Z.of_nat (length tok) + Z.of_nat (length rest)) <= ZMAX * Z.of_nat (length s))%Z)
      by (apply Z.mul_le_mono_nonneg_l; lia).
    lia.
Qed.

Theorem create_size_bound : forall s h, create s = Ok h ->
  Forall hr_ok (ranges h) /\ (nhosts h <= Z.of_N (MAX_RANGE * N.of_nat (length s)))%Z /\
  N.of_nat (length (expand (ranges h))) = Z.to_N (nhosts h).
Proof.
  intros s h H. unfold create in H.
  destruct (create_loop_inv _ _ _ _ H hl_empty_inv) as [(Hok & Hlen & Hpos) Hb].
  split; auto. split; auto.
  cbn [hl_empty nhosts] in Hb. unfold ZMAX in Hb.
  rewrite N2Z.inj_mul, nat_N_Z. lia.
Qed.
