(* C15: limits and clean failure of the host-expression parser model.
   Statements marked TODO are to be proved (no Admitted may remain). *)
From PV Require Import Base.DecimalFacts Hostlist.HLDefs Hostlist.HLSpec Hostlist.HLFacts Hostlist.HLParseFacts.
Local Open Scope N_scope.
