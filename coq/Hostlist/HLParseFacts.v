(* Parser round trip: the model's two-pass target computation applied to the
   rendering of a well-formed syntax tree yields exactly its denotation. *)
From PV Require Import Base.DecimalFacts Hostlist.HLDefs Hostlist.HLSpec Hostlist.HLFacts.
Local Open Scope N_scope.

(* to be proved: see Props/Properties_C01.v *)
