(* Parser round trip: the model's two-pass target computation applied to the
   rendering of a well-formed syntax tree yields exactly its denotation. *)
From PV Require Import Base.DecimalFacts Hostlist.HLDefs Hostlist.HLSpec Hostlist.HLFacts.
Local Open Scope N_scope.

(* ====================================================================== *)
(* 0. Small generic facts                                                  *)
(* ====================================================================== *)

Lemma is_sep_sepc c : is_sep c = is_sepc c.
Proof. reflexivity. Qed.

Lemma count_up'_eq k from : count_up' k from = count_up k from.
Proof. revert from; induction k as [|k IH]; intros from; cbn [count_up' count_up]; auto.
  Qed.

Lemma forallb_In {A} (p : A -> bool) l x : forallb p l = true -> In x l -> p x = true.
Proof. intros H Hx. rewrite forallb_forall in H. auto. Qed.

Lemma forallb_rev {A} (p : A -> bool) l : forallb p l = true -> forallb p (rev l) = true.
Proof. intros H. apply forallb_forall. intros x Hx. apply in_rev in Hx.
  eapply forallb_In; eauto. Qed.

Lemma forallb_impl {A} (p q : A -> bool) l :
  (forall x, p x = true -> q x = true) -> forallb p l = true -> forallb q l = true.
Proof. intros Hpq H. apply forallb_forall. intros x Hx. apply Hpq. eapply forallb_In; eauto. Qed.

Lemma forallb_not_In (p : N -> bool) l c : forallb p l = true -> p c = false -> ~ In c l.
Proof. intros H Hc Hin. rewrite (forallb_In p l c H Hin) in Hc. discriminate. Qed.

Lemma take_while_forallb p s : forallb p (take_while p s) = true.
Proof. induction s as [|x r IH]; cbn [take_while forallb]; auto.
  destruct (p x) eqn:E; cbn [forallb]; auto. rewrite E; auto. Qed.

Lemma skipn_app_length {A} (a b : list A) : skipn (length a) (a ++ b) = b.
Proof. induction a; cbn [length skipn app]; auto. Qed.
Lemma firstn_app_length {A} (a b : list A) : firstn (length a) (a ++ b) = a.
Proof. induction a; cbn [length firstn app]; auto. f_equal; auto. Qed.

Lemma map_flat_map {A B C} (f : B -> C) (g : A -> list B) l :
  map f (flat_map g l) = flat_map (fun x => map f (g x)) l.
Proof. induction l as [|a l IH]; cbn [flat_map map]; auto. rewrite map_app, IH. reflexivity. Qed.

Lemma flat_map_map' {A B C} (f : A -> B) (g : B -> list C) l :
  flat_map g (map f l) = flat_map (fun x => g (f x)) l.
Proof. induction l as [|a l IH]; cbn [flat_map map]; auto. rewrite IH. reflexivity. Qed.

Lemma flat_map_ext' {A B} (f g : A -> list B) l :
  (forall x, In x l -> f x = g x) -> flat_map f l = flat_map g l.
Proof. induction l as [|a l IH]; intros H; cbn [flat_map]; auto.
  rewrite H by (left; auto). rewrite IH; auto. intros; apply H; right; auto. Qed.

(* pattern matches on byte literals, once and for all *)
Lemma match_N_43_45 {A} (c : N) (x y z : A) :
  match c with 43 => x | 45 => y | _ => z end = if c =? 43 then x else if c =? 45 then y else z.
Proof. destruct c as [|p]; [reflexivity|].
  do 7 (try (destruct p as [p|p|]; try reflexivity)). Qed.
Lemma match_N_45 {A} (c : N) (x y : A) :
  match c with 45 => x | _ => y end = if c =? 45 then x else y.
Proof. destruct c as [|p]; [reflexivity|].
  do 7 (try (destruct p as [p|p|]; try reflexivity)). Qed.

(* ====================================================================== *)
(* 1. Character classes                                                    *)
(* ====================================================================== *)

Lemma plain_char_spec c : plain_char c = true -> is_sep c = false /\ c <> 91 /\ c <> 93.
Proof. unfold plain_char, is_sep, is_sepc. intros H. lia. Qed.

Lemma digit_plain c : is_digit c = true -> plain_char c = true.
Proof. unfold plain_char, is_sepc, is_digit. lia. Qed.

Lemma digits_plain_text ds : forallb is_digit ds = true -> plain_text ds = true.
Proof. apply forallb_impl. exact digit_plain. Qed.

Lemma plain_text_app a b : plain_text (a ++ b) = plain_text a && plain_text b.
Proof. apply forallb_app. Qed.

(* characters that occur between brackets *)
Definition rchar (c : N) : bool := is_digit c || (c =? 45) || (c =? 44).
Definition nobr (c : N) : bool := negb (c =? 91) && negb (c =? 93).

Lemma rchar_nobr c : rchar c = true -> nobr c = true.
Proof. unfold rchar, nobr, is_digit. lia. Qed.
Lemma digit_rchar c : is_digit c = true -> rchar c = true.
Proof. unfold rchar. intros ->. reflexivity. Qed.

Lemma fmt_rchar w n : forallb rchar (fmt w n) = true.
Proof. eapply forallb_impl; [exact digit_rchar|apply fmt_all_digit]. Qed.

Lemma rt_text_rchar r : forallb rchar (rt_text r) = true.
Proof. unfold rt_text. rewrite forallb_app, fmt_rchar. destruct (t_hi r) as [[h wh]|]; auto.
  cbn [forallb andb]. rewrite fmt_rchar. reflexivity. Qed.

Lemma forallb_join p c l : p c = true -> Forall (fun a => forallb p a = true) l -> forallb p (join c l) = true.
Proof. intros Hc H. induction H as [|a l Ha Hl IH]; auto.
  destruct l as [|b l'].
  - cbn [join]. auto.
  - change (join c (a :: b :: l')) with (a ++ c :: join c (b :: l')).
    rewrite forallb_app, Ha. cbn [forallb andb]. rewrite Hc, IH. reflexivity. Qed.

Lemma rs_text_rchar rs : forallb rchar (rs_text rs) = true.
Proof. unfold rs_text. apply forallb_join; [reflexivity|].
  apply Forall_forall. intros a Ha. apply in_map_iff in Ha as (r & <- & _). apply rt_text_rchar. Qed.

Lemma rs_text_nobr rs : forallb nobr (rs_text rs) = true.
Proof. eapply forallb_impl; [exact rchar_nobr|apply rs_text_rchar]. Qed.

(* ====================================================================== *)
(* 2. Tokenizer                                                            *)
(* ====================================================================== *)

(* the rest of the input makes scan_tok stop at level 0 *)
Definition stops (rest : bytes) : Prop :=
  match rest with [] => True | c :: _ => is_sep c = true end.

Lemma scan_tok_stop rest : stops rest -> scan_tok 0 rest = ([], rest).
Proof. destruct rest as [|c r]; cbn [stops scan_tok]; auto. intros ->. reflexivity. Qed.

Lemma scan_tok_plain t rest :
  plain_text t = true ->
  scan_tok 0 (t ++ rest) = (t ++ fst (scan_tok 0 rest), snd (scan_tok 0 rest)).
Proof.
  induction t as [|c t IH]; intros H.
  - cbn [app]. destruct (scan_tok 0 rest); reflexivity.
  - cbn [plain_text forallb] in H. apply andb_true_iff in H as [Hc Ht].
    apply plain_char_spec in Hc as (Hs & H1 & H2).
    cbn [app scan_tok]. rewrite Hs. cbn [Z.eqb andb].
    apply N.eqb_neq in H1, H2. rewrite H1, H2. rewrite (IH Ht). reflexivity.
Qed.

Lemma scan_tok_inner body rest :
  forallb nobr body = true ->
  scan_tok 1 (body ++ 93 :: rest) = (body ++ 93 :: fst (scan_tok 0 rest), snd (scan_tok 0 rest)).
Proof.
  induction body as [|c t IH]; intros H.
  - cbn [app scan_tok Z.eqb andb N.eqb Pos.eqb]. change (1 - 1)%Z with 0%Z.
    destruct (scan_tok 0 rest); reflexivity.
  - cbn [forallb] in H. apply andb_true_iff in H as [Hc Ht]. unfold nobr in Hc.
    cbn [app scan_tok Z.eqb andb].
    assert (H1 : (c =? 91) = false) by lia. assert (H2 : (c =? 93) = false) by lia.
    rewrite H1, H2, (IH Ht). reflexivity.
Qed.

Lemma scan_tok_bracket body rest :
  forallb nobr body = true ->
  scan_tok 0 (91 :: body ++ 93 :: rest)
  = (91 :: body ++ 93 :: fst (scan_tok 0 rest), snd (scan_tok 0 rest)).
Proof.
  intros H. cbn [scan_tok]. change (is_sep 91) with false. cbn [Z.eqb andb N.eqb Pos.eqb].
  change (0 + 1)%Z with 1%Z. rewrite (scan_tok_inner _ _ H). reflexivity.
Qed.

(* a token: scanned as a whole, and not starting with a separator *)
Definition tok_ok (t : bytes) : Prop :=
  (forall rest, stops rest -> scan_tok 0 (t ++ rest) = (t, rest)) /\
  match t with [] => False | c :: _ => is_sep c = false end.

Lemma tok_ok_plain t : t <> [] -> plain_text t = true -> tok_ok t.
Proof.
  intros Hne H. split.
  - intros rest Hr. rewrite scan_tok_plain, scan_tok_stop by auto. cbn [fst snd]. rewrite app_nil_r. reflexivity.
  - destruct t as [|c t]; [congruence|]. cbn [plain_text forallb] in H.
    apply andb_true_iff in H as [Hc _]. apply plain_char_spec in Hc. tauto.
Qed.

Lemma head_nosep_app p c q :
  plain_text p = true -> is_sep c = false ->
  match p ++ c :: q with [] => False | x :: _ => is_sep x = false end.
Proof. destruct p as [|x p]; cbn [app]; auto. cbn [plain_text forallb]. intros H _.
  apply andb_true_iff in H as [Hc _]. apply plain_char_spec in Hc. tauto. Qed.

Lemma tok_ok_br p body q :
  plain_text p = true -> forallb nobr body = true -> plain_text q = true ->
  tok_ok (p ++ 91 :: body ++ 93 :: q).
Proof.
  intros Hp Hb Hq. split.
  - intros rest Hr. rewrite <- app_assoc. cbn [app]. rewrite <- app_assoc. cbn [app].
    rewrite scan_tok_plain by auto. rewrite scan_tok_bracket by auto.
    rewrite scan_tok_plain by auto. rewrite scan_tok_stop by auto. cbn [fst snd].
    rewrite app_nil_r. reflexivity.
  - apply head_nosep_app; auto.
Qed.

Lemma tok_ok_br2 p body mid body2 q :
  plain_text p = true -> forallb nobr body = true -> plain_text mid = true ->
  forallb nobr body2 = true -> plain_text q = true ->
  tok_ok (p ++ 91 :: body ++ 93 :: mid ++ 91 :: body2 ++ 93 :: q).
Proof.
  intros Hp Hb Hm Hb2 Hq. split.
  - intros rest Hr.
    repeat (rewrite <- app_assoc; cbn [app]).
    rewrite scan_tok_plain by auto. rewrite scan_tok_bracket by auto.
    rewrite scan_tok_plain by auto. rewrite scan_tok_bracket by auto.
    rewrite scan_tok_plain by auto. rewrite scan_tok_stop by auto. cbn [fst snd].
    rewrite app_nil_r. reflexivity.
  - apply head_nosep_app; auto.
Qed.

(* the rest of the input after the separators: empty or starting a new token *)
Definition clean (acc : bytes) : Prop :=
  match acc with [] => True | c :: _ => is_sep c = false end.

Lemma drop_sep_clean s acc :
  forallb is_sep s = true -> clean acc -> drop_while is_sep (s ++ acc) = acc.
Proof.
  intros Hs Hc. destruct acc as [|x r].
  - rewrite app_nil_r. apply drop_while_all; auto.
  - apply drop_while_app_stop; auto.
Qed.

Lemma next_tok_tok t s acc :
  tok_ok t -> forallb is_sep s = true -> (s <> [] \/ acc = []) -> clean acc ->
  next_tok (t ++ s ++ acc) = Some (t, acc).
Proof.
  intros [Hscan Hhd] Hs Hsa Hc. unfold next_tok.
  destruct t as [|c t]; [contradiction|]. cbn [app drop_while]. rewrite Hhd.
  change (c :: t ++ s ++ acc) with ((c :: t) ++ s ++ acc).
  rewrite Hscan.
  - rewrite drop_sep_clean by auto. reflexivity.
  - destruct s as [|x s'].
    + destruct Hsa as [Hsa|Hsa]; [congruence|]. subst acc. exact I.
    + cbn [app stops]. cbn [forallb] in Hs. apply andb_true_iff in Hs. tauto.
Qed.

Lemma next_tok_nil : next_tok [] = None.
Proof. reflexivity. Qed.

Lemma create_loop_nil fuel h : create_loop fuel h [] = Ok h.
Proof. destruct fuel; reflexivity. Qed.

(* ====================================================================== *)
(* 3. strtoul, _parse_single_range, _parse_range_list                      *)
(* ====================================================================== *)

Lemma digit_not_space d : is_digit d = true -> is_space d = false.
Proof. unfold is_digit, is_space. lia. Qed.

Lemma strtoul_digits ds :
  ds <> [] -> forallb is_digit ds = true ->
  strtoul ds = Some (if ULONG <=? value ds then ULONG - 1 else value ds, [], ULONG <=? value ds).
Proof.
  intros Hne Hd. unfold strtoul.
  destruct ds as [|d ds']; [congruence|].
  assert (Hdd : is_digit d = true) by (cbn [forallb] in Hd; apply andb_true_iff in Hd; tauto).
  cbn [drop_while]. rewrite (digit_not_space d Hdd).
  rewrite match_N_43_45.
  assert (E1 : (d =? 43) = false) by (unfold is_digit in Hdd; lia).
  assert (E2 : (d =? 45) = false) by (unfold is_digit in Hdd; lia).
  rewrite E1, E2.
  rewrite take_while_all, drop_while_all by auto.
  cbn [andb]. reflexivity.
Qed.
Definition rng_of (r : rtxt) : rng := mkrng (t_lo r) (rt_hi r) (t_w r).

Lemma fmt_no_dash w n : ~ In 45 (fmt w n).
Proof. eapply forallb_not_In; [apply fmt_all_digit|reflexivity]. Qed.
Lemma fmt_no_comma w n : ~ In 44 (fmt w n).
Proof. eapply forallb_not_In; [apply fmt_all_digit|reflexivity]. Qed.

Lemma strtoul_fmt w n : n < ULONG -> strtoul (fmt w n) = Some (n, [], false).
Proof. intros H. rewrite strtoul_digits by (apply fmt_nonempty || apply fmt_all_digit).
  rewrite value_fmt. assert ((ULONG <=? n) = false) as -> by lia. reflexivity. Qed.

Lemma NUM_LIMIT_ULONG : NUM_LIMIT < ULONG - 1. Proof. reflexivity. Qed.

Lemma parse_single_range_rt r : rt_wf r -> parse_single_range (rt_text r) = Ok (rng_of r).
Proof.
  intros (Hw & Hle & Hrange & Hlim & Hhi).
  pose proof NUM_LIMIT_ULONG as HL.
  unfold parse_single_range, rt_text, rng_of, rt_hi in *.
  destruct (t_hi r) as [[h wh]|].
  - rewrite split_at_app by apply fmt_no_dash.
    destruct (fmt wh h) as [|d ds] eqn:E; [exfalso; eapply fmt_nonempty; eauto|].
    assert (Hd : is_digit d = true).
    { pose proof (fmt_all_digit wh h) as Hd. rewrite E in Hd. cbn [forallb] in Hd. apply andb_true_iff in Hd; tauto. }
    cbv beta iota.
    rewrite match_N_45.
    assert (E45 : (d =? 45) = false) by (unfold is_digit in Hd; lia). rewrite E45.
    rewrite <- E. rewrite !strtoul_fmt by lia.
    cbv beta iota.
    assert ((h <? t_lo r) = false) as -> by lia.
    assert ((MAX_RANGE <=? h - t_lo r) = false) as -> by lia.
    assert ((h =? ULONG - 1) = false) as -> by lia. rewrite fmt_length. f_equal. f_equal. lia.
  - rewrite app_nil_r. rewrite split_at_none by apply fmt_no_dash.
    cbv beta iota. rewrite strtoul_fmt by lia. cbv beta iota.
    assert ((t_lo r <? t_lo r) = false) as -> by lia.
    assert ((MAX_RANGE <=? t_lo r - t_lo r) = false) as -> by lia.
    assert ((t_lo r =? ULONG - 1) = false) as -> by lia. rewrite fmt_length. f_equal. f_equal. lia.
Qed.

Lemma parse_ranges_rt rs : forall room,
  Forall rt_wf rs -> (length rs <= room)%nat ->
  parse_ranges (map rt_text rs) room = Ok (map rng_of rs).
Proof.
  induction rs as [|r rs IH]; intros room Hwf Hlen; [reflexivity|].
  inversion Hwf as [|? ? Hr Hrs]; subst.
  destruct room as [|room]; [cbn [length] in Hlen; lia|].
  cbn [map parse_ranges]. rewrite parse_single_range_rt by auto. cbn [bind].
  rewrite IH by (auto; cbn [length] in Hlen; lia). reflexivity.
Qed.

Lemma rt_text_no_comma r : ~ In 44 (rt_text r).
Proof. unfold rt_text. intros H. apply in_app_or in H as [H|H].
  - revert H. apply fmt_no_comma.
  - destruct (t_hi r) as [[h wh]|]; [|contradiction]. destruct H as [H|H]; [discriminate|].
    revert H. apply fmt_no_comma. Qed.

Lemma parse_range_list_rs rs : rs_wf rs -> parse_range_list (rs_text rs) = Ok (map rng_of rs).
Proof.
  intros (Hne & Hlen & Hwf). unfold parse_range_list, rs_text.
  rewrite split_all_join.
  - apply parse_ranges_rt; auto.
  - destruct rs; [congruence|discriminate].
  - intros a Ha. apply in_map_iff in Ha as (r & <- & _). apply rt_text_no_comma.
Qed.

(* ====================================================================== *)
(* 4. Lists of ranges: invariant and "extends by these names"              *)
(* ====================================================================== *)

Definition hr_ok2 (r : hr) : Prop := hr_ok r /\ hi r < NUM_LIMIT.
Definition hl_ok (h : hl) : Prop := Forall hr_ok2 (ranges h).
Definition extends (h h' : hl) (names : list bytes) : Prop :=
  hl_ok h' /\ expand (ranges h') = expand (ranges h) ++ names.

Lemma hr_ok2_ok l : Forall hr_ok2 l -> Forall hr_ok l.
Proof. apply Forall_impl. intros r [H _]; exact H. Qed.

Lemma push_range_hi_bound B l r :
  Forall (fun x => hi x < B) l -> hi r < B -> Forall (fun x => hi x < B) (push_range l r).
Proof.
  intros Hl Hr. induction l as [|t l IH]; [repeat constructor; auto|].
  inversion Hl as [|? ? Ht Hl']; subst. destruct l as [|u l'].
  - cbn [push_range].
    destruct (prefix_cmp0 t r && (hi t =? usub (lo r) 1)); [|repeat constructor; auto].
    destruct (width_equiv (lo t) (wid t) (lo r) (wid r)) as [[wt wr]|]; repeat constructor; auto.
  - change (push_range (t :: u :: l') r) with (t :: push_range (u :: l') r).
    constructor; auto.
Qed.

Lemma push_range_ok2 l r : Forall hr_ok2 l -> hr_ok2 r -> Forall hr_ok2 (push_range l r).
Proof.
  intros Hl [Hr1 Hr2].
  assert (H1 : Forall hr_ok (push_range l r)) by (apply push_range_ok; auto using hr_ok2_ok).
  assert (H2 : Forall (fun x => hi x < NUM_LIMIT) (push_range l r)).
  { apply push_range_hi_bound; auto. revert Hl. apply Forall_impl. intros x [_ H]; exact H. }
  rewrite Forall_forall in *. intros x Hx. split; auto.
Qed.

Lemma hl_empty_ok : hl_ok hl_empty.
Proof. constructor. Qed.

Lemma extends_refl h : hl_ok h -> extends h h [].
Proof. intros H. split; auto. rewrite app_nil_r. reflexivity. Qed.

Lemma extends_trans h h' h'' a b : extends h h' a -> extends h' h'' b -> extends h h'' (a ++ b).
Proof. intros [_ E1] [H2 E2]. split; auto. rewrite E2, E1, app_assoc. reflexivity. Qed.

Lemma extends_ok h h' a : extends h h' a -> hl_ok h'.
Proof. intros [H _]; exact H. Qed.

Lemma hl_push_range_ext h r : hl_ok h -> hr_ok2 r -> extends h (hl_push_range h r) (range_hosts r).
Proof.
  intros Hh Hr. split.
  - unfold hl_ok, hl_push_range. cbn [ranges]. apply push_range_ok2; auto.
  - unfold hl_push_range. cbn [ranges]. apply push_range_expand; [apply hr_ok2_ok; auto|apply Hr].
Qed.

(* folding pushes: each step extends by g x *)
Lemma fold_extends {A} (step : hl -> A -> hl) (g : A -> list bytes) (P : A -> Prop) :
  (forall h x, hl_ok h -> P x -> extends h (step h x) (g x)) ->
  forall xs h, hl_ok h -> Forall P xs -> extends h (fold_left step xs h) (flat_map g xs).
Proof.
  intros Hstep xs. induction xs as [|x xs IH]; intros h Hh HP; cbn [fold_left flat_map].
  - apply extends_refl; auto.
  - inversion HP as [|? ? Hx Hxs]; subst.
    eapply extends_trans; [apply Hstep; auto|]. apply IH; auto.
    eapply extends_ok. apply Hstep; auto.
Qed.

Lemma single_ok2 name : hr_ok2 (mkhr name 0 0 0 true).
Proof. split; [split; reflexivity|reflexivity]. Qed.

Lemma range_hosts_single name : range_hosts (mkhr name 0 0 0 true) = [name].
Proof. reflexivity. Qed.

Definition rng_ok (r : rng) : Prop := r_lo r <= r_hi r /\ r_hi r < NUM_LIMIT.
Definition rng_nums (r : rng) : list N := count_up (N.to_nat (r_hi r + 1 - r_lo r)) (r_lo r).

Lemma push_range_list_ext h p rs :
  hl_ok h -> Forall rng_ok rs ->
  extends h (push_range_list h p rs)
            (flat_map (fun r => map (fun n => p ++ fmt (r_w r) n) (rng_nums r)) rs).
Proof.
  intros Hh Hrs. unfold push_range_list.
  apply (fold_extends (fun h r => hl_push_range h (mkhr p (r_lo r) (r_hi r) (r_w r) false))
                      (fun r => map (fun n => p ++ fmt (r_w r) n) (rng_nums r)) rng_ok); auto.
  intros h0 r Hh0 [Hr1 Hr2].
  apply (hl_push_range_ext h0 (mkhr p (r_lo r) (r_hi r) (r_w r) false)); auto.
  pose proof NUM_LIMIT_ULONG. split; [|exact Hr2]. unfold hr_ok. cbn [single lo hi]. lia.
Qed.

Lemma push_range_list_with_suffix_ext h p sfx rs :
  hl_ok h ->
  extends h (push_range_list_with_suffix h p sfx rs)
            (flat_map (fun r => map (fun n => suffix_host p sfx (r_w r) n) (rng_nums r)) rs).
Proof.
  intros Hh. unfold push_range_list_with_suffix.
  apply (fold_extends
           (fun h r => fold_left (fun h n => hl_push_range h (mkhr (suffix_host p sfx (r_w r) n) 0 0 0 true))
                                 (count_up (N.to_nat (r_hi r + 1 - r_lo r)) (r_lo r)) h)
           (fun r => map (fun n => suffix_host p sfx (r_w r) n) (rng_nums r)) (fun _ => True)); auto.
  - intros h0 r Hh0 _.
    replace (map (fun n => suffix_host p sfx (r_w r) n) (rng_nums r))
      with (flat_map (fun n => [suffix_host p sfx (r_w r) n]) (rng_nums r)).
    2:{ induction (rng_nums r) as [|x xs IHx]; cbn [flat_map map app]; congruence. }
    apply (fold_extends (fun h n => hl_push_range h (mkhr (suffix_host p sfx (r_w r) n) 0 0 0 true))
                        (fun n => [suffix_host p sfx (r_w r) n]) (fun _ => True)); auto.
    + intros h1 n Hh1 _. rewrite <- range_hosts_single. apply hl_push_range_ext; auto. apply single_ok2.
    + apply Forall_forall; auto.
  - apply Forall_forall; auto.
Qed.

(* ====================================================================== *)
(* 5. hostname_create / push_host: any name is pushed as itself            *)
(* ====================================================================== *)

Lemma split_suffix_spec name :
  let '(pre, ds) := split_suffix name in name = pre ++ ds /\ forallb is_digit ds = true.
Proof.
  unfold split_suffix. split.
  - rewrite <- rev_app_distr, take_drop_while, rev_involutive. reflexivity.
  - apply forallb_rev. apply take_while_forallb.
Qed.

Lemma MAX_HOST_SUFFIX_lt : MAX_HOST_SUFFIX < NUM_LIMIT. Proof. reflexivity. Qed.

Lemma push_host_ext h name : hl_ok h -> extends h (push_host h name) [name].
Proof.
  intros Hh. unfold push_host, hostname_create.
  pose proof (split_suffix_spec name) as Hs. destruct (split_suffix name) as [pre ds].
  destruct Hs as [Hn Hd]. cbn [fst]. unfold hostname_with_suffix.
  subst name. rewrite skipn_app_length.
  destruct ds as [|d ds'] eqn:Eds.
  - cbn [hn_sfx]. rewrite <- range_hosts_single. apply hl_push_range_ext; auto. apply single_ok2.
  - rewrite <- Eds in *. assert (Hne : ds <> []) by (rewrite Eds; discriminate).
    rewrite strtoul_digits by auto.
    destruct (ULONG <=? value ds) eqn:Eov.
    + (* saturated: certainly larger than MAX_HOST_SUFFIX *)
      assert ((ULONG - 1 <=? MAX_HOST_SUFFIX) = false) as ->.
      { pose proof MAX_HOST_SUFFIX_lt. pose proof NUM_LIMIT_ULONG. lia. }
      cbn [hn_sfx]. rewrite <- range_hosts_single. apply hl_push_range_ext; auto. apply single_ok2.
    + destruct (value ds <=? MAX_HOST_SUFFIX) eqn:Emax.
      * cbn [hn_sfx hn_pfx hn_num]. rewrite firstn_app_length.
        assert (E : range_hosts (mkhr pre (value ds) (value ds) (length ds) false) = [pre ++ ds]).
        { unfold range_hosts. cbn [single pfx lo hi wid].
          replace (N.to_nat (value ds + 1 - value ds)) with 1%nat by lia.
          cbn [count_up map]. rewrite fmt_value by auto. reflexivity. }
        assert (Hok : hr_ok2 (mkhr pre (value ds) (value ds) (length ds) false)).
        { pose proof MAX_HOST_SUFFIX_lt. pose proof NUM_LIMIT_ULONG.
          split; [unfold hr_ok|]; cbn [single lo hi]; lia. }
        pose proof (hl_push_range_ext h _ Hh Hok) as X. rewrite E in X. exact X.
      * cbn [hn_sfx]. rewrite <- range_hosts_single. apply hl_push_range_ext; auto. apply single_ok2.
Qed.

(* ====================================================================== *)
(* 6. _hostlist_create_bracketed on one token                              *)
(* ====================================================================== *)

Lemma plain_no_lbr t : plain_text t = true -> ~ In 91 t.
Proof. intros H. eapply forallb_not_In; [exact H|reflexivity]. Qed.
Lemma plain_no_rbr t : plain_text t = true -> ~ In 93 t.
Proof. intros H. eapply forallb_not_In; [exact H|reflexivity]. Qed.
Lemma nobr_no_rbr t : forallb nobr t = true -> ~ In 93 t.
Proof. intros H. eapply forallb_not_In; [exact H|reflexivity]. Qed.

Lemma create_tok_plain h name :
  plain_text name = true -> (length name < N.to_nat CUR_TOK_SIZE - 1)%nat ->
  create_tok h name = Ok (push_host h name).
Proof.
  intros Hp Hl. unfold create_tok. rewrite split_at_none by (apply plain_no_lbr; auto).
  destruct (mem 93 name) eqn:E.
  - apply mem_In in E. exfalso. revert E. apply plain_no_rbr; auto.
  - rewrite firstn_all2 by lia. reflexivity.
Qed.

Lemma create_tok_br h p rs q :
  plain_text p = true -> rs_wf rs ->
  create_tok h (p ++ 91 :: rs_text rs ++ 93 :: q)
  = Ok (match q with
        | [] => push_range_list h p (map rng_of rs)
        | _ => push_range_list_with_suffix h p q (map rng_of rs)
        end).
Proof.
  intros Hp Hrs. unfold create_tok.
  rewrite split_at_app by (apply plain_no_lbr; auto).
  rewrite split_at_app by (apply nobr_no_rbr, rs_text_nobr).
  rewrite parse_range_list_rs by auto. cbn [bind]. destruct q; reflexivity.
Qed.

Lemma rng_of_ok rs : Forall rt_wf rs -> Forall rng_ok (map rng_of rs).
Proof. intros H. apply Forall_map. revert H. apply Forall_impl.
  intros r (H1 & H2 & H3 & H4 & H5). split; cbn [rng_of r_lo r_hi]; auto. Qed.

Lemma rng_nums_of r : map (fmt (r_w (rng_of r))) (rng_nums (rng_of r)) = rt_nums r.
Proof. unfold rt_nums, rng_nums, rng_of. cbn [r_lo r_hi r_w]. reflexivity. Qed.

(* the names a bracketed token stands for, for any text q after the bracket *)
Lemma create_tok_br_ext h p rs q :
  hl_ok h -> plain_text p = true -> rs_wf rs ->
  Forall (fun n => (length (p ++ n ++ q) < N.to_nat SUFFIX_HOST_SIZE - 1)%nat) (rs_nums rs) ->
  exists h', create_tok h (p ++ 91 :: rs_text rs ++ 93 :: q) = Ok h' /\
             extends h h' (map (fun n => p ++ n ++ q) (rs_nums rs)).
Proof.
  intros Hh Hp Hrs Hlen. rewrite create_tok_br by auto.
  eexists; split; [reflexivity|].
  destruct Hrs as (_ & _ & Hwf).
  unfold rs_nums. rewrite map_flat_map.
  destruct q as [|c q'].
  - replace (flat_map (fun x => map (fun n => p ++ n ++ []) (rt_nums x)) rs)
      with (flat_map (fun r => map (fun n => p ++ fmt (r_w r) n) (rng_nums r)) (map rng_of rs)).
    + apply push_range_list_ext; auto. apply rng_of_ok; auto.
    + rewrite flat_map_map'. apply flat_map_ext'. intros r _.
      rewrite <- rng_nums_of, map_map. apply map_ext. intros n. rewrite app_nil_r. reflexivity.
  - set (q := c :: q') in *.
    replace (flat_map (fun x => map (fun n => p ++ n ++ q) (rt_nums x)) rs)
      with (flat_map (fun r => map (fun n => suffix_host p q (r_w r) n) (rng_nums r)) (map rng_of rs)).
    + apply push_range_list_with_suffix_ext; auto.
    + rewrite flat_map_map'. apply flat_map_ext'. intros r Hr.
      rewrite <- rng_nums_of, map_map. apply map_ext_in. intros n Hn.
      unfold suffix_host. apply firstn_all2.
      unfold rs_nums in Hlen. rewrite Forall_forall in Hlen.
      assert (Hin : In (fmt (r_w (rng_of r)) n) (flat_map rt_nums rs)).
      { apply in_flat_map. exists r. split; auto. rewrite <- rng_nums_of. apply in_map; auto. }
      specialize (Hlen _ Hin). lia.
Qed.

(* ====================================================================== *)
(* 7. hostlist_shift enumerates the expansion                              *)
(* ====================================================================== *)

Lemma NUM_LIMIT_pow : NUM_LIMIT = 10 ^ N.of_nat 15. Proof. reflexivity. Qed.

Lemma shift_range_hosts r : hr_ok2 r -> shift_range r = range_hosts r.
Proof.
  intros [Hok Hlim]. unfold shift_range, range_hosts, hr_ok in *.
  destruct (single r); [reflexivity|]. destruct Hok as [H1 H2].
  assert ((hi r =? ULONG - 1) = false) as -> by lia.
  apply map_ext_in. intros n Hn. apply count_up_In in Hn.
  unfold shift_name. apply firstn_all2. rewrite app_length, fmt_length.
  assert (Hnd : (ndigits n <= 15)%nat).
  { apply ndigits_le_pow; [|lia]. rewrite <- NUM_LIMIT_pow. lia. }
  lia.
Qed.

Lemma shift_all_expand l : Forall hr_ok2 l -> shift_all l = expand l.
Proof. intros H. unfold shift_all, expand. apply flat_map_ext'. intros r Hr.
  apply shift_range_hosts. rewrite Forall_forall in H; auto. Qed.

(* ====================================================================== *)
(* 8. Second pass: pushing the names of the first pass again               *)
(* ====================================================================== *)

(* create on a string that is exactly one token *)
Lemma create_one_tok t : tok_ok t -> create t = bind (create_tok hl_empty t) (fun h => Ok h).
Proof.
  intros Ht. unfold create. cbn [create_loop].
  replace (next_tok t) with (Some (t, @nil N)).
  2:{ symmetry. rewrite <- (app_nil_r t) at 1. change (@nil N) with (@nil N ++ @nil N) at 1.
      apply next_tok_tok; auto. exact I. }
  destruct (create_tok hl_empty t); cbn [bind]; auto. apply create_loop_nil.
Qed.

(* pushing name n appends the names out *)
Definition name_ok (n : bytes) (out : list bytes) : Prop :=
  exists h2, create n = Ok h2 /\ hl_ok h2 /\ expand (ranges h2) = out.

Lemma push_list_ext h l : hl_ok h -> Forall hr_ok2 l -> extends h (fold_left hl_push_range l h) (expand l).
Proof. intros Hh Hl. unfold expand.
  apply (fold_extends hl_push_range range_hosts hr_ok2); auto.
  intros; apply hl_push_range_ext; auto. Qed.

Lemma push_ext h n out : hl_ok h -> name_ok n out -> extends h (fst (push h n)) out.
Proof. intros Hh (h2 & Hc & Hok & He). unfold push. rewrite Hc. cbn [fst]. unfold push_list.
  rewrite <- He. apply push_list_ext; auto. Qed.

Lemma reexpand_ext names outs : Forall2 name_ok names outs ->
  forall h, hl_ok h -> extends h (fold_left (fun h n => fst (push h n)) names h) (concat outs).
Proof.
  induction 1 as [|n out names outs Hn Hrest IH]; intros h Hh; cbn [fold_left concat].
  - apply extends_refl; auto.
  - eapply extends_trans; [apply push_ext; eauto|]. apply IH. eapply extends_ok. apply push_ext; eauto.
Qed.

Lemma name_ok_plain n :
  n <> [] -> plain_text n = true -> (length n < N.to_nat CUR_TOK_SIZE - 1)%nat -> name_ok n [n].
Proof.
  intros Hne Hp Hl. unfold name_ok.
  rewrite create_one_tok by (apply tok_ok_plain; auto).
  rewrite create_tok_plain by auto. cbn [bind].
  destruct (push_host_ext hl_empty n hl_empty_ok) as [H1 H2].
  eexists; split; [reflexivity|]. split; auto.
Qed.

Lemma name_ok_br p rs q :
  plain_text p = true -> rs_wf rs -> plain_text q = true ->
  Forall (fun n => (length (p ++ n ++ q) < N.to_nat SUFFIX_HOST_SIZE - 1)%nat) (rs_nums rs) ->
  name_ok (p ++ 91 :: rs_text rs ++ 93 :: q) (map (fun n => p ++ n ++ q) (rs_nums rs)).
Proof.
  intros Hp Hrs Hq Hlen. unfold name_ok.
  rewrite create_one_tok by (apply tok_ok_br; auto using rs_text_nobr).
  destruct (create_tok_br_ext hl_empty p rs q hl_empty_ok Hp Hrs Hlen) as (h' & Hc & Hok & He).
  rewrite Hc. cbn [bind]. eexists; split; [reflexivity|]. split; auto.
Qed.

(* ====================================================================== *)
(* 9. Words                                                                *)
(* ====================================================================== *)

(* names after the first pass *)
Definition pass1 (w : word) : list bytes :=
  match w with
  | WPlain name => [name]
  | WBr p rs sfx => map (fun n => p ++ n ++ sfx) (rs_nums rs)
  | WBr2 p rs mid rs2 sfx => map (fun n => first_pass_name p n mid rs2 sfx) (rs_nums rs)
  end.

Lemma rs_nums_In n rs : In n (rs_nums rs) -> n <> [] /\ forallb is_digit n = true.
Proof.
  unfold rs_nums, rt_nums. intros H. apply in_flat_map in H as (r & _ & H).
  apply in_map_iff in H as (x & <- & _). split; [apply fmt_nonempty|apply fmt_all_digit].
Qed.

Lemma render_word_tok w : word_wf w -> tok_ok (render_word w).
Proof.
  destruct w as [name|p rs sfx|p rs mid rs2 sfx]; cbn [word_wf render_word].
  - intros (Hne & Hp & _). apply tok_ok_plain; auto.
  - intros (Hp & Hs & _). apply tok_ok_br; auto using rs_text_nobr.
  - intros (Hp & Hm & Hs & _). apply tok_ok_br2; auto using rs_text_nobr.
Qed.

Lemma word_pass1 h w : hl_ok h -> word_wf w ->
  exists h', create_tok h (render_word w) = Ok h' /\ extends h h' (pass1 w).
Proof.
  intros Hh. destruct w as [name|p rs sfx|p rs mid rs2 sfx]; cbn [word_wf render_word pass1].
  - intros (Hne & Hp & Hl). rewrite create_tok_plain by auto.
    eexists; split; [reflexivity|]. apply push_host_ext; auto.
  - intros (Hp & Hs & Hrs & Hlen). apply create_tok_br_ext; auto.
    cbn [denote_word] in Hlen. rewrite Forall_map in Hlen. revert Hlen. apply Forall_impl.
    intros n [H _]; exact H.
  - intros (Hp & Hm & Hs & Hrs & Hrs2 & Hlen1 & _).
    apply (create_tok_br_ext h p rs (mid ++ 91 :: rs_text rs2 ++ 93 :: sfx)); auto.
Qed.

Lemma Forall2_map_in {A B C} (R : B -> C -> Prop) (f : A -> B) (g : A -> C) l :
  (forall x, In x l -> R (f x) (g x)) -> Forall2 R (map f l) (map g l).
Proof. induction l as [|a l IH]; intros H; cbn [map]; constructor.
  - apply H; left; auto. - apply IH. intros; apply H; right; auto. Qed.

Lemma concat_singletons {A} (l : list A) : concat (map (fun x => [x]) l) = l.
Proof. induction l; cbn [map concat app]; congruence. Qed.

Lemma word_pass2 w : word_wf w ->
  exists outs, Forall2 name_ok (pass1 w) outs /\ concat outs = denote_word w.
Proof.
  destruct w as [name|p rs sfx|p rs mid rs2 sfx]; cbn [word_wf pass1 denote_word].
  - intros (Hne & Hp & Hl). exists [[name]]. split; [|reflexivity].
    constructor; [|constructor]. apply name_ok_plain; auto.
  - intros (Hp & Hs & Hrs & Hlen).
    exists (map (fun x => [x]) (map (fun n => p ++ n ++ sfx) (rs_nums rs))).
    split; [|apply concat_singletons].
    rewrite map_map. apply Forall2_map_in. intros n Hn.
    rewrite Forall_map, Forall_forall in Hlen. destruct (Hlen n Hn) as [_ Hl].
    apply rs_nums_In in Hn as [Hne Hd].
    apply name_ok_plain; auto.
    + destruct p; [destruct n; [congruence|discriminate]|discriminate].
    + rewrite !plain_text_app, Hp, Hs, (digits_plain_text n Hd). reflexivity.
  - intros (Hp & Hm & Hs & Hrs & Hrs2 & Hlen1 & Hlen2).
    exists (map (fun n => map (fun m => p ++ n ++ mid ++ m ++ sfx) (rs_nums rs2)) (rs_nums rs)).
    split; [|symmetry; apply flat_map_concat_map].
    apply Forall2_map_in. intros n Hn.
    unfold first_pass_name.
    replace (p ++ n ++ mid ++ 91 :: rs_text rs2 ++ 93 :: sfx)
      with ((p ++ n ++ mid) ++ 91 :: rs_text rs2 ++ 93 :: sfx) by (rewrite <- !app_assoc; reflexivity).
    replace (map (fun m => p ++ n ++ mid ++ m ++ sfx) (rs_nums rs2))
      with (map (fun m => (p ++ n ++ mid) ++ m ++ sfx) (rs_nums rs2))
      by (apply map_ext; intros m; rewrite <- !app_assoc; reflexivity).
    pose proof (rs_nums_In _ _ Hn) as [Hne Hd].
    apply name_ok_br; auto.
    + rewrite !plain_text_app, Hp, Hm, (digits_plain_text n Hd). reflexivity.
    + rewrite Forall_forall in Hlen2. apply Forall_forall. intros m Hm2.
      rewrite <- !app_assoc. apply Hlen2. apply in_flat_map. exists n. split; auto.
      apply in_map_iff. exists m. split; auto.
Qed.

(* ====================================================================== *)
(* 10. Expressions                                                         *)
(* ====================================================================== *)

Lemma render_cons w s e : render ((w, s) :: e) = render_word w ++ s ++ render e.
Proof. reflexivity. Qed.

Lemma expr_wf_cons w s e :
  expr_wf ((w, s) :: e) ->
  word_wf w /\ forallb is_sep s = true /\ (s <> [] \/ e = []) /\ expr_wf e.
Proof.
  destruct e as [|ws e'].
  - cbn [expr_wf]. intros [Hw Hs]. repeat split; auto.
  - change (expr_wf ((w, s) :: ws :: e')) with (word_wf w /\ sep_wf s /\ expr_wf (ws :: e')).
    intros (Hw & [Hne Hs] & He). repeat split; auto.
Qed.

Lemma render_clean e : expr_wf e -> clean (render e).
Proof.
  destruct e as [|[w s] e']; [intros; exact I|]. intros H. apply expr_wf_cons in H as (Hw & _).
  rewrite render_cons. apply render_word_tok in Hw as [_ Hhd].
  destruct (render_word w); [contradiction|]. exact Hhd.
Qed.

Lemma render_length e : expr_wf e -> (length e <= length (render e))%nat.
Proof.
  induction e as [|[w s] e' IH]; intros H; [cbn; lia|].
  apply expr_wf_cons in H as (Hw & _ & _ & He). rewrite render_cons, !app_length. cbn [length].
  specialize (IH He). apply render_word_tok in Hw as [_ Hhd].
  destruct (render_word w); [contradiction|]. cbn [length]. lia.
Qed.

Definition pass1s (e : expr) : list bytes := flat_map (fun ws => pass1 (fst ws)) e.

Lemma create_loop_render e : forall fuel h,
  expr_wf e -> hl_ok h -> (length e <= fuel)%nat ->
  exists h', create_loop fuel h (render e) = Ok h' /\ extends h h' (pass1s e).
Proof.
  induction e as [|[w s] e' IH]; intros fuel h He Hh Hf.
  - exists h. split; [apply create_loop_nil|apply extends_refl; auto].
  - apply expr_wf_cons in He as (Hw & Hs & Hse & He').
    destruct fuel as [|fuel]; [cbn [length] in Hf; lia|].
    cbn [create_loop]. rewrite render_cons.
    rewrite next_tok_tok; auto using render_word_tok, render_clean.
    2:{ destruct Hse as [Hse|Hse]; [left; auto|right; subst; reflexivity]. }
    destruct (word_pass1 h w Hh Hw) as (h1 & Hc & Hx). rewrite Hc. cbn [bind].
    destruct (IH fuel h1 He' (extends_ok _ _ _ Hx)) as (h2 & Hc2 & Hx2); [cbn [length] in Hf; lia|].
    exists h2. split; auto. unfold pass1s. cbn [flat_map fst]. eapply extends_trans; eauto.
Qed.

Lemma expr_pass2 e : expr_wf e ->
  exists outs, Forall2 name_ok (pass1s e) outs /\ concat outs = denote e.
Proof.
  induction e as [|[w s] e' IH]; intros He.
  - exists []. split; [constructor|reflexivity].
  - apply expr_wf_cons in He as (Hw & _ & _ & He').
    destruct (word_pass2 w Hw) as (o1 & H1 & E1). destruct (IH He') as (o2 & H2 & E2).
    exists (o1 ++ o2). unfold pass1s, denote. cbn [flat_map fst]. split.
    + apply Forall2_app; auto.
    + rewrite concat_app, E1. f_equal. exact E2.
Qed.

(* ====================================================================== *)
(* 11. C01                                                                 *)
(* ====================================================================== *)

Theorem C01_expansion : forall e : expr, expr_wf e -> targets (render e) = Ok (denote e).
Proof.
  intros e He. unfold targets, create.
  destruct (create_loop_render e (S (length (render e))) hl_empty He hl_empty_ok) as (h1 & Hc & Hok1 & Hx1).
  { pose proof (render_length e He). lia. }
  rewrite Hc. cbn [bind]. f_equal.
  change (expand (ranges hl_empty)) with (@nil bytes) in Hx1. cbn [app] in Hx1.
  rewrite shift_all_expand by exact Hok1. rewrite Hx1.
  destruct (expr_pass2 e He) as (outs & Hn & Eo).
  destruct (reexpand_ext _ _ Hn hl_empty hl_empty_ok) as [Hok2 Hx2].
  change (expand (ranges hl_empty)) with (@nil bytes) in Hx2. cbn [app] in Hx2.
  unfold reexpand. rewrite iter_all_expand by (apply hr_ok2_ok; exact Hok2).
  rewrite Hx2. exact Eo.
Qed.

Print Assumptions C01_expansion.

(* the hypothesis is satisfiable by an expression using every kind of word:
   "foo, foo[1-3,08-11] foo[1-3]-[005]" *)
Example C01_expansion_nonvacuous :
  let foo := [102;111;111] in
  let r1 := mkrt 1 1 (Some (3, 1%nat)) in let r2 := mkrt 8 2 (Some (11, 2%nat)) in let r3 := mkrt 5 3 None in
  let e := [(WPlain foo, [44;32]); (WBr foo [r1;r2] [], [32]); (WBr2 foo [r1] [45] [r3] [], [])] in
  expr_wf e /\ length (denote e) = 11%nat.
Proof.
  cbv zeta. split; [|reflexivity].
  Ltac wf_dec :=
    repeat match goal with
    | |- _ /\ _ => split
    | |- Forall _ _ => cbv [denote_word rs_nums rt_nums flat_map map]; constructor
    | |- sep_wf _ => unfold sep_wf
    | |- rs_wf _ => unfold rs_wf
    | |- rt_wf _ => unfold rt_wf; cbn [t_lo t_w t_hi rt_hi]
    | |- True => exact I
    | |- _ <> [] => discriminate
    | |- @eq bool _ _ => vm_compute; reflexivity
    | |- (_ < _)%nat => apply Nat.ltb_lt; vm_compute; reflexivity
    | |- (_ <= _)%nat => apply Nat.leb_le; vm_compute; reflexivity
    | |- (_ < _)%N => apply N.ltb_lt; vm_compute; reflexivity
    | |- (_ <= _)%N => apply N.leb_le; vm_compute; reflexivity
    end.
  cbn [expr_wf word_wf]. wf_dec.
Qed.
