(* The compressed (bracketed) printer, functional part: when the text fits, hostlist_ranged_string lays down exactly the
   text [ranged_text l] - a pure function of the list, independent of the buffer's size and previous contents -, reports
   its length and terminates it.  (Safety for every size is HLPrintFacts.ranged_no_fault / ranged_terminated.) *)
From PV Require Import Hostlist.HLPrint Hostlist.HLPrintFacts Hostlist.HLFacts Base.DecimalFacts.
Local Open Scope N_scope.

(* ---------- "the call lays text t down at off and leaves everything before it alone" ---------- *)
Definition lays (buf : buffer) (off : nat) (t : bytes) (b : buffer) : Prop :=
  length b = length buf /\ firstn (off + length t) b = firstn off buf ++ t.

Lemma lays_nil buf off : lays buf off [] buf.
Proof. split; [reflexivity|]. cbn [length]. rewrite Nat.add_0_r, app_nil_r. reflexivity. Qed.

Lemma lays_app buf off t1 t2 b1 b2 :
  lays buf off t1 b1 -> lays b1 (off + length t1) t2 b2 -> lays buf off (t1 ++ t2) b2.
Proof.
  intros [L1 F1] [L2 F2]. split; [congruence|].
  rewrite app_length, Nat.add_assoc, F2, F1, app_assoc. reflexivity.
Qed.

Lemma store_lays buf off data : (off + length data <= length buf)%nat ->
  exists b, store buf off data = Ok b /\ lays buf off data b.
Proof.
  intro H. destruct (store_ex buf off data H) as (b & Es & Lb). exists b. split; [exact Es|].
  split; [exact Lb|]. eapply store_firstn_all. exact Es.
Qed.

Lemma snprintf_lays buf off m t : (off + m <= length buf)%nat -> (length t < m)%nat ->
  exists b, snprintf_at buf off m t = Ok b /\ lays buf off t b.
Proof.
  intros H Hm. destruct (snprintf_ex buf off m t H) as (b & E & Lb & _ & Hmid & _).
  exists b. split; [exact E|]. split; [exact Lb|].
  rewrite (Hmid (length t)) by lia. rewrite firstn_all. reflexivity.
Qed.

(* a later store beyond the text keeps it *)
Lemma lays_then_store buf off t b b' pos data :
  lays buf off t b -> store b pos data = Ok b' -> (off + length t <= pos)%nat -> lays buf off t b'.
Proof.
  intros [L F] Es Hp. split; [rewrite (store_length _ _ _ _ Es); exact L|].
  rewrite (store_firstn_lo _ _ _ _ (off + length t)%nat Es Hp). exact F.
Qed.

(* ---------- hostrange_numstr ---------- *)
Definition numtext (r : hr) : bytes :=
  if single r then [] else fmt (wid r) (lo r) ++ (if lo r <? hi r then 45 :: fmt (wid r) (hi r) else []).

Lemma numstr_fit buf off m r : (off + m <= length buf)%nat -> (length (numtext r) < m)%nat ->
  exists b, numstr buf off m r = Ok (b, length (numtext r)) /\ lays buf off (numtext r) b.
Proof.
  intros H Hm. unfold numstr, numtext in *. destruct (single r).
  - exists buf. split; [reflexivity|apply lays_nil].
  - destruct m as [|m']; [lia|]. set (t1 := fmt (wid r) (lo r)) in *.
    rewrite app_length in Hm.
    destruct (snprintf_lays buf off (S m') t1 H) as (b1 & E1 & Y1); [lia|].
    rewrite E1. cbn [bind].
    assert (Hl : (length t1 <? S m')%nat = true) by (apply Nat.ltb_lt; lia). rewrite Hl. cbn [andb].
    destruct (lo r <? hi r) eqn:Elh.
    + set (t2 := 45 :: fmt (wid r) (hi r)) in *.
      destruct (snprintf_lays b1 (off + length t1) (S m' - length t1) t2) as (b2 & E2 & Y2).
      { destruct Y1 as [L1 _]. rewrite L1. lia. }
      { lia. }
      rewrite E2. cbn [bind]. exists b2. rewrite app_length. split; [reflexivity|].
      eapply lays_app; eassumption.
    + exists b1. rewrite app_nil_r. split; [reflexivity|exact Y1].
Qed.

(* ---------- the do-while of _get_bracketed_list, as a function of the remaining ranges ---------- *)
Fixpoint body (bn : bool) (s : list hr) : bytes * list hr :=
  match s with
  | [] => ([], [])
  | r :: rest =>
    let t := numtext r ++ (if bn then [44] else []) in
    match rest with
    | r' :: _ => if within_range r' r then (let p := body bn rest in (t ++ fst p, snd p)) else (t, rest)
    | [] => (t, [])
    end
  end.

Lemma body_cons bn r rest : body bn (r :: rest) =
  match rest with
  | r' :: _ => if within_range r' r then ((numtext r ++ (if bn then [44] else [])) ++ fst (body bn rest), snd (body bn rest))
               else (numtext r ++ (if bn then [44] else []), rest)
  | [] => (numtext r ++ (if bn then [44] else []), [])
  end.
Proof. reflexivity. Qed.

Lemma skipn_cons_nth {A} : forall i (l : list A) x rest, skipn i l = x :: rest ->
  nth_error l i = Some x /\ skipn (S i) l = rest /\ (i < length l)%nat.
Proof.
  induction i as [|i IH]; intros l x rest H; destruct l as [|a l']; cbn [skipn] in H; try discriminate.
  - inversion H; subst. cbn [nth_error skipn length]. repeat split. lia.
  - destruct (IH l' x rest H) as (A1 & A2 & A3). cbn [nth_error length]. repeat split; [exact A1|exact A2|lia].
Qed.

Lemma skipn_nil_nth {A} i (l : list A) : skipn i l = [] -> nth_error l i = None /\ (length l <= i)%nat.
Proof.
  intro H. assert (L : (length l <= i)%nat).
  { pose proof (skipn_length i l) as E. rewrite H in E. cbn [length] in E. lia. }
  split; [apply nth_error_None; exact L|exact L].
Qed.

Lemma body_suffix bn : forall s, (length (snd (body bn s)) < length s)%nat \/ s = [].
Proof.
  induction s as [|r rest IH]; [right; reflexivity|left]. cbn [body].
  destruct rest as [|r' rest']; [cbn [snd length]; lia|].
  destruct (within_range r' r); cbn [snd length].
  - destruct IH as [IH|IH]; [cbn [length] in IH; lia|discriminate].
  - lia.
Qed.

(* where the loop stops: the index whose suffix is what [body] leaves *)
Lemma gbl_loop_fit l bn : forall s fuel i buf off n len,
  skipn i l = s -> s <> [] -> (length s <= fuel)%nat ->
  (off + n <= length buf)%nat -> (len + length (fst (body bn s)) < n)%nat ->
  exists b i', gbl_loop fuel l buf off n bn len i = Ok (b, (len + length (fst (body bn s)))%nat, i') /\
               lays buf (off + len) (fst (body bn s)) b /\
               skipn i' l = snd (body bn s) /\ (i < i' <= length l)%nat.
Proof.
  induction s as [|r rest IH]; intros fuel i buf off n len Hs Hne Hf Hb Hfit; [congruence|].
  destruct fuel as [|f]; [cbn [length] in Hf; lia|].
  destruct (skipn_cons_nth _ _ _ _ Hs) as (Hn & Hs' & Hi).
  cbn [gbl_loop]. rewrite Hn.
  set (sep := if bn then [44] else []).
  assert (Hbody : fst (body bn (r :: rest)) = (numtext r ++ sep) ++
            match rest with r' :: _ => if within_range r' r then fst (body bn rest) else [] | [] => [] end).
  { cbn [body]. fold sep. destruct rest as [|r' rest']; [cbn [fst]; rewrite app_nil_r; reflexivity|].
    destruct (within_range r' r); cbn [fst]; [reflexivity|rewrite app_nil_r; reflexivity]. }
  rewrite Hbody in *. rewrite !app_length in Hfit.
  destruct (numstr_fit buf (off + len) (n - len) r) as (b1 & E1 & Y1); [lia|lia|].
  rewrite E1. cbn [bind].
  assert (Hle : (n <=? len + length (numtext r))%nat = false) by (apply Nat.leb_gt; lia). rewrite Hle.
  (* the separator *)
  assert (Hsep : exists b2, (if bn then bind (store b1 (off + (len + length (numtext r))) [44]) (fun b => Ok (b, S (len + length (numtext r))))
                             else Ok (b1, (len + length (numtext r))%nat))
                            = Ok (b2, (len + length (numtext r ++ sep))%nat) /\ lays buf (off + len) (numtext r ++ sep) b2).
  { unfold sep. destruct bn.
    - destruct (store_lays b1 (off + (len + length (numtext r))) [44]) as (b2 & E2 & Y2).
      { destruct Y1 as [L1 _]. rewrite L1. cbn [length]. lia. }
      rewrite E2. cbn [bind]. exists b2. rewrite app_length. cbn [length]. split; [f_equal; f_equal; lia|].
      eapply lays_app; [exact Y1|]. replace (off + len + length (numtext r))%nat with (off + (len + length (numtext r)))%nat by lia. exact Y2.
    - exists b1. rewrite app_nil_r. split; [reflexivity|exact Y1]. }
  destruct Hsep as (b2 & E2 & Y2). rewrite E2. cbn [bind].
  assert (L2 : length b2 = length buf) by (destruct Y2; assumption).
  destruct rest as [|r' rest'].
  - (* last range of the list *)
    destruct (skipn_nil_nth _ _ Hs') as (Hn' & Hl'). rewrite Hn'.
    exists b2, (S i). rewrite app_nil_r. rewrite body_cons. cbn [snd]. split; [reflexivity|]. split; [exact Y2|]. split; [exact Hs'|lia].
  - destruct (skipn_cons_nth _ _ _ _ Hs') as (Hn' & _ & Hi'). rewrite Hn'.
    rewrite (body_cons bn r (r' :: rest')). cbv beta iota. fold sep. destruct (within_range r' r) eqn:Ew; cbn [snd].
    + destruct (IH f (S i) b2 off n (len + length (numtext r ++ sep))%nat Hs') as (b3 & i' & E3 & Y3 & S3 & I3).
      { discriminate. } { cbn [length] in *. lia. } { lia. } { rewrite app_length. lia. }
      rewrite E3. exists b3, i'. split; [rewrite (app_length (numtext r ++ sep)), Nat.add_assoc; reflexivity|].
      split; [|split; [exact S3|lia]].
      eapply lays_app; [exact Y2|]. replace (off + len + length (numtext r ++ sep))%nat with (off + (len + length (numtext r ++ sep)))%nat by lia. exact Y3.
    + exists b2, (S i). rewrite app_nil_r. split; [reflexivity|]. split; [exact Y2|]. split; [exact Hs'|lia].
Qed.

(* ---------- one bracket group ---------- *)
Definition brk (s : list hr) : bool :=
  match s with
  | [] => false
  | r :: rest => (1 <? hr_count r) || match rest with r' :: _ => within_range r r' | [] => false end
  end.
Definition gtext (s : list hr) : bytes * list hr :=
  match s with
  | [] => ([], [])
  | r :: _ =>
    let bd := body (brk s) s in
    (pfx r ++ (if brk s then [91] ++ removelast (fst bd) ++ [93] else fst bd), snd bd)
  end.

Lemma body_true_last : forall s, s <> [] -> exists t, fst (body true s) = t ++ [44].
Proof.
  induction s as [|r rest IH]; intro H; [congruence|]. cbn [body].
  destruct rest as [|r' rest']; [exists (numtext r); reflexivity|].
  destruct (within_range r' r); cbn [fst]; [|exists (numtext r); reflexivity].
  destruct IH as (t & Et); [discriminate|]. rewrite Et. exists ((numtext r ++ [44]) ++ t). rewrite app_assoc. reflexivity.
Qed.

Lemma bracket_needed_brk l i s : skipn i l = s -> s <> [] -> bracket_needed l i = brk s.
Proof.
  intros Hs Hne. destruct s as [|r rest]; [congruence|].
  destruct (skipn_cons_nth _ _ _ _ Hs) as (Hn & Hs' & _). unfold bracket_needed, brk. rewrite Hn. f_equal.
  destruct rest as [|r' rest'].
  - destruct (skipn_nil_nth _ _ Hs') as (Hn' & _). rewrite Hn'. reflexivity.
  - destruct (skipn_cons_nth _ _ _ _ Hs') as (Hn' & _). rewrite Hn'. reflexivity.
Qed.

Lemma gbl_fit l i s buf off n :
  skipn i l = s -> s <> [] -> (off + n <= length buf)%nat -> (length (fst (gtext s)) < n)%nat ->
  exists b i', get_bracketed_list l buf off n i = Ok (b, length (fst (gtext s)), i') /\
               lays buf off (fst (gtext s)) b /\ skipn i' l = snd (gtext s) /\ (i < i' <= length l)%nat.
Proof.
  intros Hs Hne Hb Hfit.
  pose proof (bracket_needed_brk l i s Hs Hne) as Hbn.
  destruct s as [|r rest] eqn:Es; [congruence|]. rewrite <- Es in *.
  destruct (skipn_cons_nth i l r rest) as (Hn & _ & Hi); [congruence|].
  unfold get_bracketed_list. rewrite Hn, Hbn.
  assert (Eg : gtext s = (pfx r ++ (if brk s then [91] ++ removelast (fst (body (brk s) s)) ++ [93] else fst (body (brk s) s)), snd (body (brk s) s))).
  { rewrite Es. reflexivity. }
  rewrite Eg in *. cbn [fst snd] in *. clear Eg.
  set (bd := body (brk s) s) in *.
  assert (Hlen : length (pfx r ++ (if brk s then [91] ++ removelast (fst bd) ++ [93] else fst bd))
                 = (length (pfx r) + (if brk s then 1 else 0) + length (fst bd))%nat).
  { rewrite app_length. destruct (brk s) eqn:Eb.
    - destruct (body_true_last s) as (t & Et); [rewrite Es; discriminate|]. unfold bd. rewrite Et.
      rewrite removelast_last, !app_length. cbn [length]. lia.
    - lia. }
  rewrite Hlen in *.
  destruct (snprintf_lays buf off n (pfx r) Hb) as (b0 & E0 & Y0); [lia|]. rewrite E0. cbn [bind].
  assert (H0 : (n <? length (pfx r))%nat = false) by (apply Nat.ltb_ge; lia). rewrite H0.
  assert (H1 : (length (pfx r) <? n)%nat = true) by (apply Nat.ltb_lt; lia). rewrite H1, andb_true_r.
  set (open := if brk s then [91] else []).
  assert (Hopen : exists b1, (if brk s then bind (store b0 (off + length (pfx r)) [91]) (fun b => Ok (b, S (length (pfx r)))) else Ok (b0, length (pfx r)))
                             = Ok (b1, length (pfx r ++ open)) /\ lays buf off (pfx r ++ open) b1).
  { unfold open. destruct (brk s).
    - destruct (store_lays b0 (off + length (pfx r)) [91]) as (b1 & E1 & Y1).
      { destruct Y0 as [L0 _]. rewrite L0. cbn [length]. lia. }
      rewrite E1. cbn [bind]. exists b1. rewrite app_length. cbn [length]. split; [f_equal; f_equal; lia|].
      eapply lays_app; eassumption.
    - exists b0. rewrite app_nil_r. split; [reflexivity|exact Y0]. }
  destruct Hopen as (b1 & E1 & Y1). rewrite E1. cbn [bind].
  assert (Lo : length (pfx r ++ open) = (length (pfx r) + (if brk s then 1 else 0))%nat).
  { rewrite app_length. unfold open. destruct (brk s); cbn [length]; lia. }
  destruct (gbl_loop_fit l (brk s) s (S (length l)) i b1 off n (length (pfx r ++ open)) Hs Hne) as (b2 & i' & E2 & Y2 & S2 & I2).
  { rewrite <- Hs, skipn_length. lia. }
  { destruct Y1 as [L1 _]. rewrite L1. exact Hb. }
  { fold bd. lia. }
  fold bd in E2, Y2, S2. rewrite E2. cbn [bind].
  set (len := (length (pfx r ++ open) + length (fst bd))%nat) in *.
  assert (Y12 : lays buf off ((pfx r ++ open) ++ fst bd) b2).
  { eapply lays_app; [exact Y1|exact Y2]. }
  assert (L2 : length b2 = length buf) by (destruct Y12; assumption).
  assert (Hlt : (len <? n)%nat = true) by (apply Nat.ltb_lt; unfold len; lia). rewrite Hlt, andb_true_r.
  destruct (brk s) eqn:Eb.
  - (* close the bracket over the last comma *)
    destruct (body_true_last s) as (t & Et); [rewrite Es; discriminate|].
    assert (Ebd : fst bd = t ++ [44]) by (unfold bd; exact Et).
    assert (Hpos : (0 <? len)%nat = true) by (apply Nat.ltb_lt; unfold len; rewrite Ebd, !app_length; cbn [length]; lia).
    rewrite Hpos. cbn [andb].
    destruct (store_lays b2 (off + len - 1) [93]) as (b3 & E3 & Y3); [cbn [length]; lia|].
    rewrite E3. cbn [bind].
    destruct (store_lays b3 (off + len) [0]) as (b4 & E4 & Y4).
    { destruct Y3 as [L3 _]. rewrite L3. cbn [length]. lia. }
    rewrite E4. cbn [bind]. exists b4, i'. split; [f_equal; f_equal; f_equal; unfold len; lia|].
    split; [|split; [exact S2|exact I2]].
    rewrite Ebd, removelast_last. unfold open in *.
    eapply (lays_then_store buf off _ b3 b4 (off + len)%nat [0]); [|exact E4|].
    + (* text up to the comma, then the bracket *)
      replace (pfx r ++ [91] ++ t ++ [93]) with (((pfx r ++ [91]) ++ t) ++ [93]) by (rewrite <- !app_assoc; reflexivity).
      eapply lays_app; [|].
      * destruct Y12 as [_ F12]. split; [exact L2|].
        rewrite Ebd in F12. rewrite app_assoc in F12.
        assert (firstn (off + length ((pfx r ++ [91]) ++ t)) b2 = firstn (off + length ((pfx r ++ [91]) ++ t)) (firstn (off + length (((pfx r ++ [91]) ++ t) ++ [44])) b2)) as ->.
        { symmetry. apply firstn_firstn_le. rewrite (app_length _ [44]). lia. }
        rewrite F12. rewrite app_assoc. rewrite firstn_app_le.
        2:{ rewrite !app_length, firstn_length. cbn [length]. lia. }
        rewrite firstn_all2; [reflexivity|]. rewrite !app_length, firstn_length. cbn [length]. lia.
      * replace (off + length ((pfx r ++ [91%N]) ++ t))%nat with (off + len - 1)%nat.
        2:{ unfold len. rewrite Ebd, !app_length. cbn [length]. lia. }
        exact Y3.
    + unfold len. rewrite Ebd, !app_length. cbn [length]. lia.
  - cbn [andb].
    assert (H3 : (n <=? len)%nat = false) by (apply Nat.leb_gt; unfold len; lia). rewrite H3.
    destruct (store_lays b2 (off + len) [0]) as (b3 & E3 & Y3); [cbn [length]; lia|].
    rewrite E3. cbn [bind]. exists b3, i'. split; [f_equal; f_equal; f_equal; unfold len; lia|].
    split; [|split; [exact S2|exact I2]].
    unfold open in *. rewrite app_nil_r in *.
    eapply (lays_then_store buf off _ b2 b3 (off + len)%nat [0]); [exact Y12|exact E3|].
    unfold len. rewrite !app_length. cbn [length]. lia.
Qed.

(* ---------- the loop of hostlist_ranged_string ---------- *)
Definition is_nil {A} (l : list A) : bool := match l with [] => true | _ => false end.

Fixpoint rtext (fuel : nat) (s : list hr) (len : nat) : bytes :=
  match fuel with
  | O => []
  | S f =>
    match s with
    | [] => []
    | _ :: _ =>
      let g := gtext s in
      let len1 := (len + length (fst g))%nat in
      if (0 <? len1)%nat && negb (is_nil (snd g)) then fst g ++ 44 :: rtext f (snd g) (S len1)
      else fst g ++ rtext f (snd g) len1
    end
  end.

Lemma more_ranges {A} i (l s : list A) : skipn i l = s -> (i <= length l)%nat -> (i <? length l)%nat = negb (is_nil s).
Proof.
  intros Hs Hi. pose proof (skipn_length i l) as E. rewrite Hs in E.
  destruct s; cbn [is_nil negb length] in *; [apply Nat.ltb_ge|apply Nat.ltb_lt]; lia.
Qed.

Lemma ranged_loop_fit l n : forall fuel i s buf len,
  skipn i l = s -> (i <= length l)%nat -> length buf = n -> (len + length (rtext fuel s len) < n)%nat ->
  exists b, ranged_loop fuel l buf n len i = Ok (b, (len + length (rtext fuel s len))%nat) /\
            lays buf len (rtext fuel s len) b.
Proof.
  induction fuel as [|f IH]; intros i s buf len Hs Hi Hb Hfit.
  - cbn [ranged_loop rtext length]. exists buf. rewrite Nat.add_0_r. split; [reflexivity|apply lays_nil].
  - cbn [ranged_loop]. rewrite (more_ranges i l s Hs Hi).
    destruct s as [|r rest] eqn:Es.
    + cbn [is_nil negb andb rtext length]. exists buf. rewrite Nat.add_0_r. split; [reflexivity|apply lays_nil].
    + rewrite <- Es in *. assert (Hne : s <> []) by (rewrite Es; discriminate).
      assert (Ert : rtext (S f) s len =
                    if (0 <? len + length (fst (gtext s)))%nat && negb (is_nil (snd (gtext s)))
                    then fst (gtext s) ++ 44 :: rtext f (snd (gtext s)) (S (len + length (fst (gtext s))))
                    else fst (gtext s) ++ rtext f (snd (gtext s)) (len + length (fst (gtext s)))).
      { rewrite Es. reflexivity. }
      rewrite Ert in *. clear Ert.
      set (g := gtext s) in *.
      assert (Hg : (len + length (fst g) < n)%nat).
      { destruct ((0 <? len + length (fst g))%nat && negb (is_nil (snd g))); rewrite app_length in Hfit; lia. }
      assert (Hnn : negb (is_nil s) = true) by (rewrite Es; reflexivity). rewrite Hnn.
      assert (Hlt : (len <? n)%nat = true) by (apply Nat.ltb_lt; lia). rewrite Hlt. cbn [andb].
      destruct (gbl_fit l i s buf len (n - len) Hs Hne) as (b1 & i' & E1 & Y1 & S1 & I1); [lia|fold g; lia|].
      fold g in E1, Y1, S1. rewrite E1. cbn [bind].
      assert (L1 : length b1 = n) by (destruct Y1 as [L _]; lia).
      rewrite (more_ranges i' l (snd g) S1) by lia.
      assert (Hlt1 : (len + length (fst g) <? n)%nat = true) by (apply Nat.ltb_lt; lia). rewrite Hlt1, andb_true_r.
      destruct ((0 <? len + length (fst g))%nat && negb (is_nil (snd g))) eqn:Ec.
      * rewrite app_length in Hfit. cbn [length] in Hfit.
        destruct (store_lays b1 (len + length (fst g)) [44]) as (b2 & E2 & Y2); [cbn [length]; lia|].
        rewrite E2. cbn [bind].
        destruct (IH i' (snd g) b2 (S (len + length (fst g))) S1) as (b3 & E3 & Y3); [lia|destruct Y2 as [L _]; lia|lia|].
        rewrite E3. exists b3. split; [rewrite app_length; cbn [length]; f_equal; f_equal; lia|].
        eapply lays_app; [exact Y1|].
        change (44 :: rtext f (snd g) (S (len + length (fst g)))) with ([44] ++ rtext f (snd g) (S (len + length (fst g)))).
        eapply lays_app; [exact Y2|]. cbn [length]. replace (len + length (fst g) + 1)%nat with (S (len + length (fst g))) by lia. exact Y3.
      * rewrite app_length in Hfit.
        destruct (IH i' (snd g) b1 (len + length (fst g))%nat S1) as (b3 & E3 & Y3); [lia|exact L1|lia|].
        rewrite E3. exists b3. split; [rewrite app_length; f_equal; f_equal; lia|].
        eapply lays_app; [exact Y1|exact Y3].
Qed.

(* ---------- hostlist_ranged_string ---------- *)
Definition ranged_text (l : list hr) : bytes := rtext (S (length l)) l 0.

Theorem ranged_fit l buf : ~ In 0 (ranged_text l) -> (length (ranged_text l) < length buf)%nat ->
  exists b, ranged_string l buf = Ok (b, Some (length (ranged_text l))) /\ cstring b = Some (ranged_text l).
Proof.
  intros Hnul Hfit. unfold ranged_string.
  destruct (ranged_loop_fit l (length buf) (S (length l)) 0 l buf 0) as (b1 & E1 & Y1); [reflexivity|lia|reflexivity|exact Hfit|].
  fold (ranged_text l) in E1, Y1. rewrite E1. cbn [bind plus].
  assert (Hle : (length buf <=? length (ranged_text l))%nat = false) by (apply Nat.leb_gt; lia). rewrite Hle.
  destruct (store_lays b1 (length (ranged_text l)) [0]) as (b & E & Y).
  { destruct Y1 as [L _]. rewrite L. cbn [length]. lia. }
  rewrite E. cbn [bind]. exists b. split; [reflexivity|].
  apply cstring_firstn; [exact Hnul|].
  destruct Y as [_ F]. cbn [length] in F. rewrite F. f_equal.
  destruct Y1 as [_ F1]. cbn [plus firstn app] in F1. exact F1.
Qed.

(* what fits is the same text whatever the size and the previous contents of the buffer *)
Corollary ranged_fit_independent l buf1 buf2 b1 b2 r1 r2 : ~ In 0 (ranged_text l) ->
  (length (ranged_text l) < length buf1)%nat -> (length (ranged_text l) < length buf2)%nat ->
  ranged_string l buf1 = Ok (b1, r1) -> ranged_string l buf2 = Ok (b2, r2) ->
  r1 = r2 /\ cstring b1 = cstring b2.
Proof.
  intros Hn H1 H2 E1 E2.
  destruct (ranged_fit l buf1 Hn H1) as (c1 & F1 & C1). destruct (ranged_fit l buf2 Hn H2) as (c2 & F2 & C2).
  rewrite E1 in F1. rewrite E2 in F2. inversion F1; inversion F2; subst. split; [reflexivity|congruence].
Qed.

(* ---------- closed form: the bracket groups joined by commas ---------- *)
Fixpoint gtexts (fuel : nat) (s : list hr) : list bytes :=
  match fuel with
  | O => []
  | S f => match s with [] => [] | _ :: _ => fst (gtext s) :: gtexts f (snd (gtext s)) end
  end.

(* every name has at least one byte: a range always prints digits, a plain name must have a non-empty text *)
Definition named (r : hr) : Prop := single r = true -> pfx r <> [].

Lemma body_rest_Forall (P : hr -> Prop) bn : forall s, Forall P s -> Forall P (snd (body bn s)).
Proof.
  induction s as [|r rest IH]; intro H; [constructor|]. rewrite body_cons.
  inversion H as [|? ? Hr Hrest]; subst. destruct rest as [|r' rest']; [constructor|].
  destruct (within_range r' r); cbn [snd]; [apply IH; exact Hrest|exact Hrest].
Qed.

Lemma gtext_rest_Forall (P : hr -> Prop) s : Forall P s -> Forall P (snd (gtext s)).
Proof. destruct s as [|r rest]; intro H; [constructor|]. cbn [gtext snd]. apply body_rest_Forall. exact H. Qed.

Lemma gtext_rest_shorter s : s <> [] -> (length (snd (gtext s)) < length s)%nat.
Proof.
  destruct s as [|r rest]; intro H; [congruence|]. cbn [gtext snd].
  destruct (body_suffix (brk (r :: rest)) (r :: rest)) as [L|L]; [exact L|discriminate].
Qed.

Lemma numtext_nonempty r : single r = false -> numtext r <> [].
Proof.
  intro H. unfold numtext. rewrite H. intro E. apply app_eq_nil in E as [E _]. revert E. apply fmt_nonempty.
Qed.

Lemma gtext_nonempty s : s <> [] -> Forall named s -> fst (gtext s) <> [].
Proof.
  destruct s as [|r rest]; intros Hne HF; [congruence|]. cbn [gtext fst].
  destruct (brk (r :: rest)) eqn:Eb.
  - intro E. apply app_eq_nil in E as [_ E]. discriminate E.
  - rewrite body_cons. inversion HF as [|? ? Hr _]; subst.
    assert (Hp : pfx r ++ numtext r <> []).
    { destruct (single r) eqn:Es.
      - intro E. apply app_eq_nil in E as [E _]. exact (Hr Es E).
      - intro E. apply app_eq_nil in E as [_ E]. exact (numtext_nonempty r Es E). }
    intro E. apply Hp. apply app_eq_nil in E as [E1 E2]. rewrite E1. cbn [app].
    destruct rest as [|r' rest']; [|destruct (within_range r' r)]; cbn [fst] in E2;
      repeat (apply app_eq_nil in E2 as [E2 _]); exact E2.
Qed.

Lemma rtext_join : forall fuel s len, (length s <= fuel)%nat -> Forall named s ->
  rtext fuel s len = join 44 (gtexts fuel s).
Proof.
  induction fuel as [|f IH]; intros s len Hf HF; [reflexivity|].
  destruct s as [|r rest] eqn:Es; [reflexivity|]. rewrite <- Es in *.
  assert (Hne : s <> []) by (rewrite Es; discriminate).
  assert (E1 : rtext (S f) s len =
               if (0 <? len + length (fst (gtext s)))%nat && negb (is_nil (snd (gtext s)))
               then fst (gtext s) ++ 44 :: rtext f (snd (gtext s)) (S (len + length (fst (gtext s))))
               else fst (gtext s) ++ rtext f (snd (gtext s)) (len + length (fst (gtext s)))) by (rewrite Es; reflexivity).
  assert (E2 : gtexts (S f) s = fst (gtext s) :: gtexts f (snd (gtext s))) by (rewrite Es; reflexivity).
  rewrite E1, E2. clear E1 E2.
  pose proof (gtext_nonempty s Hne HF) as Hg. pose proof (gtext_rest_shorter s Hne) as Hs.
  pose proof (gtext_rest_Forall named s HF) as HF'.
  assert (Hpos : (0 <? len + length (fst (gtext s)))%nat = true).
  { apply Nat.ltb_lt. destruct (fst (gtext s)); [congruence|cbn [length]; lia]. }
  rewrite Hpos. cbn [andb].
  rewrite !(IH (snd (gtext s))) by (lia || exact HF').
  destruct (snd (gtext s)) as [|r2 rest2] eqn:E.
  - cbn [is_nil negb]. destruct f; cbn [gtexts join]; rewrite app_nil_r; reflexivity.
  - cbn [is_nil negb]. destruct f as [|f']; [cbn [length] in Hs; lia|].
    cbn [gtexts]. reflexivity.
Qed.

Theorem ranged_text_groups l : Forall named l -> ranged_text l = join 44 (gtexts (S (length l)) l).
Proof. intro H. apply rtext_join; [lia|exact H]. Qed.
