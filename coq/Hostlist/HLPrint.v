(* Model of the printers of hostlist.c over an explicit caller buffer:
   hostlist_ranged_string / _get_bracketed_list / hostrange_numstr and
   hostlist_deranged_string / hostrange_to_string.
   The buffer is a list of n bytes; every store is bounds-checked and a store at an
   index >= n is Fault FWritePast (the C would write past the size it was given). *)
From PV Require Export Hostlist.HLDefs.
Local Open Scope N_scope.

Definition buffer := bytes.

Fixpoint overwrite (data buf : bytes) : bytes :=
  match data, buf with
  | [], _ => buf
  | _, [] => []
  | d :: ds, _ :: bs => d :: overwrite ds bs
  end.
Fixpoint write_at (buf : bytes) (off : nat) (data : bytes) : bytes :=
  match off, buf with
  | O, _ => overwrite data buf
  | S o, b :: r => b :: write_at r o data
  | S o, [] => []
  end.

(* checked store of a block *)
Definition store (buf : buffer) (off : nat) (data : bytes) : outcome buffer :=
  if (off + length data <=? length buf)%nat then Ok (write_at buf off data) else Fault FWritePast.

(* snprintf(buf+off, m, "%s", text): writes min(|text|, m-1) bytes and a NUL when m > 0; returns |text| *)
Definition snprintf_at (buf : buffer) (off m : nat) (text : bytes) : outcome buffer :=
  match m with
  | O => Ok buf
  | S m' => store buf off (firstn m' text ++ [0])
  end.

(* the C string found in the buffer: bytes up to the first NUL; None if unterminated *)
Fixpoint cstring (buf : bytes) : option bytes :=
  match buf with
  | [] => None
  | 0 :: _ => Some []
  | b :: r => match cstring r with Some s => Some (b :: s) | None => None end
  end.

(* ---- hostrange_numstr(hr, m, buf+off): returns new buffer and the returned length ---- *)
Definition numstr (buf : buffer) (off m : nat) (r : hr) : outcome (buffer * nat) :=
  if single r then Ok (buf, O)
  else match m with
  | O => Ok (buf, O)
  | _ =>
    let t1 := fmt (wid r) (lo r) in
    bind (snprintf_at buf off m t1) (fun buf1 =>
      let len := length t1 in
      if (len <? m)%nat && (lo r <? hi r) then
        let t2 := 45 :: fmt (wid r) (hi r) in
        bind (snprintf_at buf1 (off + len) (m - len) t2) (fun buf2 => Ok (buf2, (len + length t2)%nat))
      else Ok (buf1, len))
  end.

Definition within_range (a b : hr) : bool :=
  beq (pfx a) (pfx b) && negb (single a) && negb (single b).
Definition bracket_needed (l : list hr) (i : nat) : bool :=
  match nth_error l i with
  | None => false
  | Some h1 => (1 <? hr_count h1) ||
               match nth_error l (S i) with Some h2 => within_range h1 h2 | None => false end
  end.

(* the do-while of _get_bracketed_list; returns (buf, len, i) *)
Fixpoint gbl_loop (fuel : nat) (l : list hr) (buf : buffer) (off n : nat) (bn : bool) (len i : nat)
  : outcome (buffer * nat * nat) :=
  match fuel with
  | O => Ok (buf, len, i)
  | S f =>
    match nth_error l i with
    | None => Ok (buf, len, i)
    | Some r =>
      let m := (n - len)%nat in
      bind (numstr buf (off + len) m r) (fun '(buf1, k) =>
        let len1 := (len + k)%nat in
        if (n <=? len1)%nat then Ok (buf1, len1, i)
        else
          bind (if bn then bind (store buf1 (off + len1) [44]) (fun b => Ok (b, S len1)) else Ok (buf1, len1))
            (fun '(buf2, len2) =>
              match nth_error l (S i) with
              | Some r' => if within_range r' r then gbl_loop f l buf2 off n bn len2 (S i)
                           else Ok (buf2, len2, S i)
              | None => Ok (buf2, len2, S i)
              end))
    end
  end.

(* _get_bracketed_list(hl, &start, n, buf+off): returns (buf, returned length, new start) *)
Definition get_bracketed_list (l : list hr) (buf : buffer) (off n : nat) (start : nat)
  : outcome (buffer * nat * nat) :=
  match nth_error l start with
  | None => Ok (buf, O, start)
  | Some r =>
    let bn := bracket_needed l start in
    bind (snprintf_at buf off n (pfx r)) (fun buf0 =>
      let len0 := length (pfx r) in
      if (n <? len0)%nat then Ok (buf0, n, start)
      else
        bind (if bn && (len0 <? n)%nat then bind (store buf0 (off + len0) [91]) (fun b => Ok (b, S len0))
              else Ok (buf0, len0))
          (fun '(buf1, len1) =>
            bind (gbl_loop (S (length l)) l buf1 off n bn len1 start) (fun '(buf2, len, i) =>
              if bn && (len <? n)%nat && (0 <? len)%nat then
                bind (store buf2 (off + len - 1) [93]) (fun b3 =>
                bind (store b3 (off + len) [0]) (fun b4 => Ok (b4, len, i)))
              else if (n <=? len)%nat then
                (if (0 <? n)%nat then bind (store buf2 (off + n - 1) [0]) (fun b => Ok (b, len, i)) else Ok (buf2, len, i))
              else bind (store buf2 (off + len) [0]) (fun b => Ok (b, len, i)))))
  end.

Fixpoint ranged_loop (fuel : nat) (l : list hr) (buf : buffer) (n len i : nat) : outcome (buffer * nat) :=
  match fuel with
  | O => Ok (buf, len)
  | S f =>
    if (i <? length l)%nat && (len <? n)%nat then
      bind (get_bracketed_list l buf len (n - len) i) (fun '(buf1, k, i') =>
        let len1 := (len + k)%nat in
        if (0 <? len1)%nat && (len1 <? n)%nat && (i' <? length l)%nat then
          bind (store buf1 len1 [44]) (fun b => ranged_loop f l b n (S len1) i')
        else ranged_loop f l buf1 n len1 i')
    else Ok (buf, len)
  end.

(* hostlist_ranged_string(hl, n, buf): Some len / None = -1 (truncated) *)
Definition ranged_string (l : list hr) (buf : buffer) : outcome (buffer * option nat) :=
  let n := length buf in
  bind (ranged_loop (S (length l)) l buf n O O) (fun '(buf1, len) =>
    if (n <=? len)%nat then
      (if (0 <? n)%nat then bind (store buf1 (n - 1) [0]) (fun b => Ok (b, None)) else Ok (buf1, None))
    else bind (store buf1 len [0]) (fun b => Ok (b, Some len))).

(* ---- hostrange_to_string(hr, m, buf+off, ","): Some len / None = -1 ---- *)
Fixpoint to_string_loop (nums : list N) (r : hr) (buf : buffer) (off n len : nat) : outcome (buffer * option nat) :=
  match nums with
  | [] => (* back up over final separator *)
    bind (store buf (off + len - 1) [0]) (fun b => Ok (b, Some (len - 1)%nat))
  | x :: rest =>
    let m := (n - len)%nat in
    let t := pfx r ++ fmt (wid r) x in
    bind (snprintf_at buf (off + len) m t) (fun buf1 =>
      if (m <=? length t)%nat then
        bind (store buf1 (off + n - 1) [0]) (fun b => Ok (b, None))
      else
        let len1 := (len + length t)%nat in
        bind (store buf1 (off + len1) [44]) (fun b => to_string_loop rest r b off n (S len1)))
  end.

Definition to_string (r : hr) (buf : buffer) (off n : nat) : outcome (buffer * option nat) :=
  match n with
  | O => Ok (buf, Some O)
  | _ =>
    if single r then bind (snprintf_at buf off n (pfx r)) (fun b => Ok (b, Some (length (pfx r))))
    else to_string_loop (count_up (N.to_nat (hi r + 1 - lo r)) (lo r)) r buf off n O
  end.

(* hostlist_deranged_string (after the fix: ret >= m is truncation) *)
Fixpoint deranged_loop (l : list hr) (buf : buffer) (n len : nat) : outcome (buffer * nat * bool) :=
  match l with
  | [] => Ok (buf, len, false)
  | r :: rest =>
    let m := (n - len)%nat in
    bind (to_string r buf len m) (fun '(buf1, ret) =>
      match ret with
      | None => Ok (buf1, n, true)
      | Some k =>
        if (m <=? k)%nat then Ok (buf1, n, true)
        else bind (store buf1 (len + k) [44]) (fun b => deranged_loop rest b n (S (len + k)))
      end)
  end.

Definition deranged_string (l : list hr) (buf : buffer) : outcome (buffer * option nat) :=
  let n := length buf in
  bind (deranged_loop l buf n O) (fun '(buf1, len, tr) =>
    let pos := match len with O => O | S k => k end in
    bind (store buf1 pos [0]) (fun b =>
      if tr || (pos =? n)%nat then Ok (b, None) else Ok (b, Some pos))).
