(* Executable model of src/common/hostlist.c (non-reckless, bracketed parser).
   M-side: what the C does, function by function, on byte strings without NUL.
   No proofs here: this file must keep running when a proof breaks. *)
From PV Require Export Base.Decimal Generated.Params.
Local Open Scope N_scope.

Inductive err := EINVAL | ERANGE.
Inductive fault := FUnterminatedTok | FWritePast | FNullDeref | FUseAfterFree | FLoopForever.

Inductive outcome (A : Type) : Type :=
| Ok (a : A) | Err (e : err) | Fault (f : fault).
Arguments Ok {A} a. Arguments Err {A} e. Arguments Fault {A} f.

Definition bind {A B} (x : outcome A) (f : A -> outcome B) : outcome B :=
  match x with Ok a => f a | Err e => Err e | Fault w => Fault w end.

Definition ULONG : N := 18446744073709551616. (* 2^64 *)
Definition wrap (x : N) : N := x mod ULONG.
(* unsigned long subtraction a - b *)
Definition usub (a b : N) : N := (a + ULONG - b mod ULONG) mod ULONG.

(* ---- hostrange ---- *)
Record hr := mkhr { pfx : bytes; lo : N; hi : N; wid : nat; single : bool }.

Definition hr_count (r : hr) : N := if single r then 1 else wrap (usub (hi r) (lo r) + 1).

(* S-side meaning of a well-formed record: the names it stands for *)
Fixpoint count_up (k : nat) (from : N) : list N :=
  match k with O => [] | S k' => from :: count_up k' (from + 1) end.
Definition range_hosts (r : hr) : list bytes :=
  if single r then [pfx r]
  else map (fun n => pfx r ++ fmt (wid r) n) (count_up (N.to_nat (hi r + 1 - lo r)) (lo r)).
Definition expand (l : list hr) : list bytes := flat_map range_hosts l.

(* ---- _next_tok with sep = "\t, " ---- *)
Definition is_sep (c : N) : bool := (c =? 9) || (c =? 44) || (c =? 32).

Fixpoint scan_tok (level : Z) (s : bytes) : bytes * bytes :=
  match s with
  | [] => ([], [])
  | c :: r =>
    if (level =? 0)%Z && is_sep c then ([], s)
    else let level' := if c =? 91 then (level + 1)%Z else if c =? 93 then (level - 1)%Z else level in
         let '(t, rest) := scan_tok level' r in (c :: t, rest)
  end.

Definition next_tok (s : bytes) : option (bytes * bytes) :=
  match drop_while is_sep s with
  | [] => None
  | s1 => let '(t, r) := scan_tok 0 s1 in Some (t, drop_while is_sep r)
  end.

(* ---- strtoul(s, &end, 10): Some (value, rest) or None when no digits were consumed ---- *)
Definition strtoul (s : bytes) : option (N * bytes * bool (* ERANGE *)) :=
  let s1 := drop_while is_space s in
  let '(neg, s2) := match s1 with
                    | 43 :: r => (false, r)
                    | 45 :: r => (true, r)
                    | _ => (false, s1)
                    end in
  match take_while is_digit s2 with
  | [] => None
  | ds => let v := value ds in
          let over := ULONG <=? v in
          let v' := if over then ULONG - 1 else v in
          Some ((if neg && negb over then wrap (ULONG - v') else v'), drop_while is_digit s2, over)
  end.

(* ---- _zero_padded, _width_equiv (returns the adjusted widths, as the C mutates both) ---- *)
Definition zero_padded (n : N) (w : nat) : nat := (w - ndigits n)%nat.

Definition width_equiv (n : N) (wn : nat) (m : N) (wm : nat) : option (nat * nat) :=
  let npad := zero_padded n wn in let nmpad := zero_padded n wm in
  let mpad := zero_padded m wm in let mnpad := zero_padded m wn in
  if negb (Nat.eqb npad nmpad) && negb (Nat.eqb mpad mnpad) then None
  else if negb (Nat.eqb npad nmpad)
       then (if Nat.eqb mpad mnpad then Some (wn, wn) else None)
       else Some (wm, wm).

(* ---- hostname_create: split a name into prefix and numeric suffix ---- *)
Definition split_suffix (name : bytes) : bytes * bytes :=
  let r := rev name in
  (rev (drop_while is_digit r), rev (take_while is_digit r)).

(* hostname_create_with_suffix (name, idx) where the suffix starts at position k = idx+1 *)
Record hname := mkhn { hn_name : bytes; hn_pfx : bytes; hn_num : N; hn_sfx : option bytes }.
Definition hostname_with_suffix (name : bytes) (k : nat) : hname :=
  let sfx := skipn k name in
  match sfx with
  | [] => mkhn name name 0 None
  | _ => match strtoul sfx with
         | Some (num, [], _) =>
           if num <=? MAX_HOST_SUFFIX then mkhn name (firstn k name) num (Some sfx)
           else mkhn name name num None
         | Some (num, _, _) => mkhn name name num None
         | None => mkhn name name 0 None
         end
  end.
Definition hostname_create (name : bytes) : hname :=
  hostname_with_suffix name (length (fst (split_suffix name))).

(* ---- hostlist_push_range: tail coalescing ---- *)
Definition prefix_cmp0 (a b : hr) : bool := beq (pfx a) (pfx b) && Bool.eqb (single a) (single b).

Fixpoint push_range (l : list hr) (r : hr) : list hr :=
  match l with
  | [] => [r]
  | [t] =>
    if prefix_cmp0 t r && (hi t =? usub (lo r) 1) then
      match width_equiv (lo t) (wid t) (lo r) (wid r) with
      | Some (wt, _) => [mkhr (pfx t) (lo t) (hi r) wt (single t)]
      | None => [t; r]
      end
    else [t; r]
  | x :: rest => x :: push_range rest r
  end.

Record hl := mkhl { ranges : list hr; nhosts : Z }.
Definition hl_empty : hl := mkhl [] 0.
Definition hl_push_range (h : hl) (r : hr) : hl :=
  mkhl (push_range (ranges h) r) (nhosts h + Z.of_N (hr_count r)).

Definition push_host (h : hl) (name : bytes) : hl :=
  let hn := hostname_create name in
  match hn_sfx hn with
  | Some sfx => hl_push_range h (mkhr (hn_pfx hn) (hn_num hn) (hn_num hn) (length sfx) false)
  | None => hl_push_range h (mkhr name 0 0 0 true)
  end.

(* ---- _parse_single_range / _parse_range_list ---- *)
Record rng := mkrng { r_lo : N; r_hi : N; r_w : nat }.

Definition parse_single_range (s : bytes) : outcome rng :=
  let '(a, pb) := split_at 45 s in
  match pb with
  | Some (45 :: _) => Err EINVAL
  | _ =>
    match strtoul a with
    | None => Err EINVAL
    | Some (lo_, rest_lo, over_lo) =>
      let hi_res :=
        match pb with
        | Some (c :: p') =>
          match strtoul (c :: p') with
          | None => None
          | Some (h, rest, over) => if match rest with [] => true | _ => false end then Some (h, over) else None
          end
        | _ => if match rest_lo with [] => true | _ => false end then Some (lo_, false) else None
        end in
      match hi_res with
      | None => Err EINVAL
      | Some (hi_, over_hi) =>
        if hi_ <? lo_ then Err EINVAL
        else if MAX_RANGE <=? hi_ - lo_ then Err ERANGE
        else if hi_ =? ULONG - 1 then Err EINVAL (* saturated or literal ULONG_MAX: reserved *)
        else Ok (mkrng lo_ hi_ (length a))
      end
    end
  end.

Fixpoint parse_ranges (pieces : list bytes) (room : nat) : outcome (list rng) :=
  match pieces with
  | [] => Ok []
  | p :: ps =>
    match room with
    | O => Err EINVAL
    | S room' =>
      bind (parse_single_range p) (fun r => bind (parse_ranges ps room') (fun rs => Ok (r :: rs)))
    end
  end.
Definition parse_range_list (s : bytes) : outcome (list rng) :=
  parse_ranges (split_all 44 s) (N.to_nat MAX_RANGES).

(* ---- _push_range_list, _push_range_list_with_suffix ---- *)
Definition push_range_list (h : hl) (p : bytes) (rs : list rng) : hl :=
  fold_left (fun h r => hl_push_range h (mkhr p (r_lo r) (r_hi r) (r_w r) false)) rs h.

Definition suffix_host (p sfx : bytes) (w : nat) (n : N) : bytes :=
  firstn (N.to_nat SUFFIX_HOST_SIZE - 1) (p ++ fmt w n ++ sfx).

Definition push_range_list_with_suffix (h : hl) (p sfx : bytes) (rs : list rng) : hl :=
  fold_left (fun h r =>
    fold_left (fun h n => hl_push_range h (mkhr (suffix_host p sfx (r_w r) n) 0 0 0 true))
              (count_up (N.to_nat (r_hi r + 1 - r_lo r)) (r_lo r)) h) rs h.

(* ---- _hostlist_create_bracketed ---- *)
Definition create_tok (h : hl) (tok : bytes) : outcome hl :=
  match split_at 91 tok with
  | (p, Some after) =>
    match split_at 93 after with
    | (rl, Some q) =>
      bind (parse_range_list rl) (fun rs =>
        match q with
        | [] => Ok (push_range_list h p rs)
        | _ => Ok (push_range_list_with_suffix h p q rs)
        end)
    | (_, None) => Err EINVAL
    end
  | (_, None) =>
    if mem 93 tok then Err EINVAL
    else Ok (push_host h (firstn (N.to_nat CUR_TOK_SIZE - 1) tok))
  end.

Fixpoint create_loop (fuel : nat) (h : hl) (s : bytes) : outcome hl :=
  match fuel with
  | O => Ok h
  | S f =>
    match next_tok s with
    | None => Ok h
    | Some (tok, rest) => bind (create_tok h tok) (fun h' => create_loop f h' rest)
    end
  end.
Definition create (s : bytes) : outcome hl := create_loop (S (length s)) hl_empty s.

(* hostlist_push_list / hostlist_push (returns the list and the C's return value) *)
Definition push_list (h1 : hl) (h2 : hl) : hl := fold_left hl_push_range (ranges h2) h1.
Definition push (h : hl) (s : bytes) : hl * Z :=
  match create s with
  | Ok n => (push_list h n, nhosts n)
  | _ => (h, 0%Z)
  end.

(* ---- iteration over a static list: hostlist_iterator_create; hostlist_next ... ----
   name printed by hostlist_next (after the width fix: buffer sized by width) *)
Definition host_at (r : hr) (d : N) : bytes :=
  if single r then pfx r else pfx r ++ fmt (wid r) (wrap (lo r + d)).

(* state (idx, depth) of an iterator whose cached range is ranges[idx] *)
Definition iter_next (l : list hr) (idx : nat) (depth : Z) : option (bytes * nat * Z) :=
  match nth_error l idx with
  | None => None
  | Some r =>
    let d1 := (depth + 1)%Z in
    if (Z.of_N (usub (hi r) (lo r)) <? d1)%Z then
      match nth_error l (S idx) with
      | None => None
      | Some r' => Some (host_at r' 0, S idx, 0%Z)
      end
    else Some (host_at r (Z.to_N d1), idx, d1)
  end.

Fixpoint iter_run (fuel : nat) (l : list hr) (idx : nat) (depth : Z) : list bytes :=
  match fuel with
  | O => []
  | S f => match iter_next l idx depth with
           | None => []
           | Some (name, idx', depth') => name :: iter_run f l idx' depth'
           end
  end.
Definition total_count (l : list hr) : N := fold_left (fun a r => a + hr_count r) l 0.
Definition iter_all (l : list hr) : list bytes := iter_run (S (N.to_nat (total_count l))) l 0 (-1)%Z.

(* ---- names produced by repeated hostlist_shift (hostrange_shift prints into a buffer of
   strlen(prefix)+width+16 bytes; hostrange_empty also treats hi = ULONG_MAX as empty) ---- *)
Definition shift_name (r : hr) (n : N) : bytes :=
  firstn (length (pfx r) + wid r + 15) (pfx r ++ fmt (wid r) n).
Definition shift_range (r : hr) : list bytes :=
  if single r then [pfx r]
  else if hi r =? ULONG - 1 then [shift_name r (lo r)]
  else map (shift_name r) (count_up (N.to_nat (hi r + 1 - lo r)) (lo r)).
Definition shift_all (l : list hr) : list bytes := flat_map shift_range l.

(* ---- opt.c wcoll_expand: shift every name and push it again (second bracket pass) ---- *)
Definition reexpand (names : list bytes) : hl := fold_left (fun h n => fst (push h n)) names hl_empty.
Definition targets (s : bytes) : outcome (list bytes) :=
  bind (create s) (fun h => Ok (iter_all (ranges (reexpand (shift_all (ranges h)))))).
Definition targets1 (s : bytes) : outcome (list bytes) :=
  bind (create s) (fun h => Ok (iter_all (ranges h))).
