(* Executable model of the EDITING half of src/common/hostlist.c:
     hostlist_shift, hostlist_pop, hostlist_nth, hostlist_count, hostlist_find
     (hostrange_hn_within), hostlist_delete_host, hostlist_delete_nth, hostlist_delete,
     hostlist_uniq (hostrange_cmp, hostrange_join, _attempt_range_join), hostlist_push with
     live iterators, and the iterators themselves (hostlist_iterator_create/reset/destroy,
     hostlist_next via _iterator_advance, hostlist_remove, hostlist_insert_range,
     hostlist_delete_range, hostlist_shift_iterators).

   The iterator bookkeeping modelled here is the code WITH the repairs fixes/C16-iter-*.diff
   and fixes/C16-pop-iterators.diff applied (see notes/C16.md):
     - _iterator_advance reloads the cached range pointer and never runs past the last range;
     - hostlist_delete_range sends iterators of the deleted range to the end of the previous one;
     - hostlist_delete_nth and hostlist_remove re-base every iterator of the edited range
       (hostlist_shift_iterators (.., n = 0) for lo++/hi--, hostlist_split_iterators for a split);
     - hostlist_pop goes through hostlist_delete_range / hostlist_shift_iterators;
     - hostlist_nth sizes its buffer by the name (fixes/C16-nth-long-name.diff).
   Everything else is the code as it is, warts included (find adjusts the width field of the
   range it inspects; int / unsigned long conversions).

   State = range array + cached host count + the live iterators.  A C `int` is a Z here, an
   `unsigned long` an N below 2^64.  Definitions only: this file must keep running when a proof
   breaks. *)
From PV Require Export Hostlist.HLDefs.
Local Open Scope N_scope.

(* ---- outcomes: a value, or an explicit fault of the C program ---- *)
Inductive efault :=
| EFNull        (* NULL range pointer dereferenced (i->hr, hl->hr[k]) *)
| EFAssert      (* an assert() of hostlist.c is violated: the call is outside the contract *)
| EFWritePast   (* store past the end of a fixed buffer *)
| EFDeadIter    (* iterator handle used after hostlist_iterator_destroy *)
| EFIntOverflow (* the `int' host count would pass INT_MAX *)
| EFOracle      (* the qsort result handed in is not a rearrangement of the range array *)
| EFFuel.       (* a loop of the C did not end within the bound the model gives it (never reached, see HLEditFacts) *)
Inductive res (A : Type) : Type := ROk (a : A) | RFault (f : efault).
Arguments ROk {A} a. Arguments RFault {A} f.
Definition rbind {A B} (x : res A) (f : A -> res B) : res B :=
  match x with ROk a => f a | RFault e => RFault e end.

(* ---- C integer conversions ---- *)
Definition INT_MAX : Z := 2147483647.
(* value of an out-of-range conversion to `int' on the platforms pdsh builds on *)
Definition to_int (z : Z) : Z := ((z + 2147483648) mod 4294967296 - 2147483648)%Z.
(* conversion of an `int' to `unsigned long' *)
Definition to_ulong (z : Z) : N := Z.to_N (z mod Z.of_N ULONG)%Z.
(* (int) hostrange_count(hr) *)
Definition count_int (r : hr) : Z := to_int (Z.of_N (hr_count r)).

(* ---- iterators ---- *)
(* it_hr = true: the cached pointer i->hr is hl->hr[i->idx] and not NULL;
   it_hr = false: i->hr is NULL.  (Every statement of the C that moves a range to another slot
   also reloads the cache of the iterators it moves, so no third state is reachable.) *)
Record iter := mkit { it_idx : Z; it_depth : Z; it_hr : bool }.
Record hstate := mkst { st_ranges : list hr; st_nhosts : Z; st_iters : list (option iter) }.

Definition st_empty : hstate := mkst [] 0 [].
Definition st_of_hl (h : hl) : hstate := mkst (ranges h) (nhosts h) [].
Definition hl_of_st (s : hstate) : hl := mkhl (st_ranges s) (st_nhosts s).

Definition zlen {A} (l : list A) : Z := Z.of_nat (length l).
(* hl->hr[k] != NULL: slots at and above nranges hold NULL *)
Definition load (l : list hr) (k : Z) : bool := (0 <=? k)%Z && (k <? zlen l)%Z.
Definition nth_z (l : list hr) (k : Z) : option hr :=
  if (k <? 0)%Z then None else nth_error l (Z.to_nat k).
Definition map_iters (f : iter -> iter) (its : list (option iter)) : list (option iter) :=
  map (option_map f) its.

(* hostlist_iterator_reset *)
Definition it_reset (l : list hr) : iter := mkit 0 (-1) (load l 0).

(* hostlist_shift_iterators(hl, idx, depth, n), the array being l already *)
Definition shift_iterator (l : list hr) (idx depth n : Z) (it : iter) : iter :=
  if (n =? 0)%Z then
    if (it_idx it =? idx)%Z && (depth <=? it_depth it)%Z
    then mkit (it_idx it) (if (-1 <? it_depth it)%Z then it_depth it - 1 else -1)%Z (it_hr it)
    else it
  else if (idx <=? it_idx it)%Z then
    let k := (it_idx it - n)%Z in
    if (0 <=? k)%Z then mkit k (it_depth it) (load l k) else it_reset l
  else it.

(* ---- hostrange helpers ---- *)
Definition hostrange_empty (r : hr) : bool := (hi r <? lo r) || (hi r =? ULONG - 1).
Definition set_lo (r : hr) (x : N) : hr := mkhr (pfx r) x (hi r) (wid r) (single r).
Definition set_hi (r : hr) (x : N) : hr := mkhr (pfx r) (lo r) x (wid r) (single r).
Definition set_wid (r : hr) (w : nat) : hr := mkhr (pfx r) (lo r) (hi r) w (single r).
(* hostrange_copy: a single host is re-created from its prefix alone *)
Definition hostrange_copy (r : hr) : hr := if single r then mkhr (pfx r) 0 0 0 true else r.

(* hostrange_delete_host(hr, n): the adjusted range and the upper half when the range is split *)
Definition hostrange_delete_host (r : hr) (n : N) : hr * option hr :=
  if n =? lo r then (set_lo r (wrap (lo r + 1)), None)
  else if n =? hi r then (set_hi r (usub (hi r) 1), None)
  else (set_hi r (usub n 1), Some (set_lo (hostrange_copy r) (wrap (n + 1)))).

Definition replace_nth (l : list hr) (i : nat) (r : hr) : list hr :=
  firstn i l ++ match skipn i l with [] => [] | _ :: t => r :: t end.

(* hostlist_delete_range(hl, n): the range leaves the array; an iterator inside it continues
   after the last host of the previous range (or is reset when there is none); iterators above
   move down one slot. *)
Definition delete_range (s : hstate) (n : nat) : hstate :=
  let l' := firstn n (st_ranges s) ++ skipn (S n) (st_ranges s) in
  let zn := Z.of_nat n in
  let enddepth := match n with
                  | O => (-1)%Z
                  | S p => match nth_error l' p with
                           | Some r => to_int (Z.of_N (hr_count r) - 1)
                           | None => (-1)%Z
                           end
                  end in
  let f it := shift_iterator l' zn 0 1
                (if (it_idx it =? zn)%Z then mkit (it_idx it) enddepth (it_hr it) else it) in
  mkst l' (st_nhosts s) (map_iters f (st_iters s)).

(* hostlist_insert_range(hl, hr, n) for n <= nranges *)
Definition insert_range (s : hstate) (r : hr) (n : nat) : hstate :=
  if (length (st_ranges s) <? n)%nat then s
  else
    let l' := firstn n (st_ranges s) ++ hostrange_copy r :: skipn n (st_ranges s) in
    let f it := if (Z.of_nat n <=? it_idx it)%Z
                then mkit (it_idx it + 1) (it_depth it) (load l' (it_idx it + 1)) else it in
    mkst l' (st_nhosts s) (map_iters f (st_iters s)).

(* hostlist_split_iterators(hl, idx, depth): the host at `depth' of range idx was removed by
   splitting the range; iterators that had reached it continue in the new range idx + 1 *)
Definition split_iterator (l : list hr) (idx depth : Z) (it : iter) : iter :=
  if (it_idx it =? idx)%Z && (depth <=? it_depth it)%Z
  then mkit (it_idx it + 1) (it_depth it - (depth + 1)) (load l (it_idx it + 1))
  else it.

Definition set_ranges (s : hstate) (l : list hr) : hstate := mkst l (st_nhosts s) (st_iters s).
Definition set_iters (s : hstate) (its : list (option iter)) : hstate := mkst (st_ranges s) (st_nhosts s) its.
Definition dec_nhosts (s : hstate) : hstate := mkst (st_ranges s) (st_nhosts s - 1) (st_iters s).

(* remove the host at offset `off' (an int) of range i: the common tail of hostlist_delete_nth
   and hostlist_remove.  `singles_direct' is delete_nth's shortcut for single hosts. *)
Definition delete_in_range (s : hstate) (i : nat) (r : hr) (off : Z) (singles_direct : bool) : hstate :=
  if singles_direct && single r then delete_range s i
  else
    let num := wrap (lo r + to_ulong off) in
    match hostrange_delete_host r num with
    | (r', Some new) =>
      let s1 := insert_range (set_ranges s (replace_nth (st_ranges s) i r')) new (S i) in
      set_iters s1 (map_iters (split_iterator (st_ranges s1) (Z.of_nat i) off) (st_iters s1))
    | (r', None) =>
      let s1 := set_ranges s (replace_nth (st_ranges s) i r') in
      if hostrange_empty r' then delete_range s1 i
      else set_iters s1 (map_iters (shift_iterator (st_ranges s1) (Z.of_nat i) off 0) (st_iters s1))
    end.

(* ---- hostlist_count ---- *)
Definition st_count (s : hstate) : Z := st_nhosts s.

(* ---- hostlist_push (iterators are not touched) ---- *)
Definition st_push (s : hstate) (expr : bytes) : res (hstate * Z) :=
  match create expr with
  | Ok n =>
    let h := push_list (hl_of_st s) n in
    if (INT_MAX <? nhosts h)%Z then RFault EFIntOverflow
    else ROk (mkst (ranges h) (nhosts h) (st_iters s), nhosts n)
  | Err _ => ROk (s, 0%Z)
  | Fault _ => RFault EFWritePast
  end.

(* ---- hostrange_shift / hostrange_pop: the name and the shrunk range ---- *)
Definition hostrange_shift (r : hr) : option bytes * hr :=
  if single r then (Some (pfx r), set_lo r (wrap (lo r + 1)))
  else if 0 <? hr_count r then (Some (shift_name r (lo r)), set_lo r (wrap (lo r + 1)))
  else (None, r).
Definition hostrange_pop (r : hr) : option bytes * hr :=
  if single r then (Some (pfx r), set_lo r (wrap (lo r + 1)))
  else if 0 <? hr_count r then (Some (shift_name r (hi r)), set_hi r (usub (hi r) 1))
  else (None, r).

(* ---- hostlist_shift ---- *)
Definition st_shift (s : hstate) : res (hstate * option bytes) :=
  if (0 <? st_nhosts s)%Z then
    match st_ranges s with
    | [] => RFault EFNull
    | r :: rest =>
      let '(name, r') := hostrange_shift r in
      let s1 := dec_nhosts (set_ranges s (r' :: rest)) in
      if hostrange_empty r' then ROk (delete_range s1 0, name)
      else ROk (set_iters s1 (map_iters (shift_iterator (st_ranges s1) 0 0 0) (st_iters s1)), name)
    end
  else ROk (s, None).

(* ---- hostlist_pop ---- *)
Definition st_pop (s : hstate) : res (hstate * option bytes) :=
  if (0 <? st_nhosts s)%Z then
    match length (st_ranges s) with
    | O => RFault EFNull
    | S k =>
      match nth_error (st_ranges s) k with
      | None => RFault EFNull
      | Some r =>
        let '(name, r') := hostrange_pop r in
        let s1 := dec_nhosts (set_ranges s (replace_nth (st_ranges s) k r')) in
        if hostrange_empty r' then ROk (delete_range s1 k, name)
        else ROk (set_iters s1 (map_iters (shift_iterator (st_ranges s1) (Z.of_nat k) (count_int r') 0)
                                          (st_iters s1)), name)
      end
    end
  else ROk (s, None).

(* ---- locating position n: the loop shared by hostlist_nth and hostlist_delete_nth ----
   returns the range index and the number of hosts before that range *)
Fixpoint locate (l : list hr) (i : nat) (n count : Z) : option (nat * hr * Z) :=
  match l with
  | [] => None
  | r :: rest =>
    let c := count_int r in
    if (n <=? c - 1 + count)%Z then Some (i, r, count) else locate rest (S i) n (count + c)%Z
  end.

(* ---- hostlist_nth: _hostrange_string (buffer sized by the name, fixes/C16-nth-long-name.diff) ---- *)
Definition st_nth (s : hstate) (n : Z) : res (option bytes) :=
  match locate (st_ranges s) 0 n 0 with
  | None => ROk None
  | Some (_, r, count) => ROk (Some (host_at r (to_ulong (n - count))))
  end.

(* ---- hostlist_delete_nth ---- *)
Definition st_delete_nth (s : hstate) (n : Z) : res (hstate * Z) :=
  if (n <? 0)%Z || (st_nhosts s <? n)%Z then RFault EFAssert
  else
    match locate (st_ranges s) 0 n 0 with
    | None => ROk (dec_nhosts s, 1%Z)
    | Some (i, r, count) => ROk (dec_nhosts (delete_in_range s i r (n - count) true), 1%Z)
    end.

(* ---- hostrange_hn_within: offset of the name in the range or -1, and the range's width
   afterwards (_width_equiv may overwrite hr->width) ---- *)
Fixpoint hn_within (fuel : nat) (r : hr) (hn : hname) : Z * nat :=
  if single r then ((if beq (hn_name hn) (pfx r) then 0 else -1)%Z, wid r)
  else
    match hn_sfx hn with
    | None => ((-1)%Z, wid r)
    | Some sfx =>
      let len_hn := length (hn_pfx hn) in
      let len_hr := length (pfx r) in
      if negb (is_prefix (hn_pfx hn) (pfx r)) then ((-1)%Z, wid r)
      else if (len_hn <? len_hr)%nat && (1 <? length sfx)%nat
              && is_digit (nth (len_hr - 1) (pfx r) 0)
              && (nth len_hn (pfx r) 0 =? nth 0 sfx 0)
      then match fuel with
           | O => ((-1)%Z, wid r)
           | S f => hn_within f r (hostname_with_suffix (hn_name hn) (S len_hn))
           end
      else if (len_hr =? len_hn)%nat && beq (hn_pfx hn) (pfx r)
              && (hn_num hn <=? hi r) && (lo r <=? hn_num hn)
      then match width_equiv (lo r) (wid r) (hn_num hn) (length sfx) with
           | None => ((-1)%Z, wid r)
           | Some (w, _) => (to_int (Z.of_N (usub (hn_num hn) (lo r))), w)
           end
      else ((-1)%Z, wid r)
    end.

(* ---- hostlist_find: position of the first match or -1, and the array (widths possibly adjusted) ---- *)
Fixpoint find_loop (l : list hr) (hn : hname) (count : Z) : list hr * Z :=
  match l with
  | [] => ([], (-1)%Z)
  | r :: rest =>
    let '(off, w) := hn_within (length (hn_name hn)) r hn in
    let r' := set_wid r w in
    if (0 <=? off)%Z then (r' :: rest, (count + off)%Z)
    else let '(rest', ret) := find_loop rest hn (to_int (count + Z.of_N (hr_count r))) in (r' :: rest', ret)
  end.
Definition find (l : list hr) (name : bytes) : list hr * Z := find_loop l (hostname_create name) 0.
Definition st_find (s : hstate) (name : bytes) : hstate * Z :=
  let '(l', ret) := find (st_ranges s) name in (set_ranges s l', ret).

(* ---- hostlist_delete_host ---- *)
Definition st_delete_host (s : hstate) (name : bytes) : res (hstate * Z) :=
  let '(s1, n) := st_find s name in
  if (0 <=? n)%Z then rbind (st_delete_nth s1 n) (fun '(s2, _) => ROk (s2, 1%Z))
  else ROk (s1, 0%Z).

(* ---- hostlist_delete: pop every name off a temporary list and delete every occurrence of it
   (`while (hostlist_delete_host(hl, hostname)) n++;`, fixes/C02-delete-all-occurrences.diff) ---- *)
Fixpoint delete_every (fuel : nat) (s : hstate) (name : bytes) (n : Z) : res (hstate * Z) :=
  match fuel with
  | O => RFault EFFuel
  | S f =>
    rbind (st_delete_host s name) (fun '(s', k) =>
      if (k =? 0)%Z then ROk (s', n) else delete_every f s' name (n + 1)%Z)
  end.
Fixpoint delete_loop (fuel : nat) (s tmp : hstate) (n : Z) : res (hstate * Z) :=
  match fuel with
  | O => RFault EFFuel
  | S f =>
    rbind (st_pop tmp) (fun '(tmp', name) =>
      match name with
      | None => ROk (s, n)
      | Some nm =>
        rbind (delete_every (S (Z.to_nat (st_nhosts s))) s nm n) (fun '(s', n') => delete_loop f s' tmp' n')
      end)
  end.
Definition st_delete (s : hstate) (expr : bytes) : res (hstate * Z) :=
  match create expr with
  | Ok t => delete_loop (S (Z.to_nat (nhosts t))) s (st_of_hl t) 0
  | Err _ => ROk (s, 0%Z)
  | Fault _ => RFault EFWritePast
  end.

(* ---- iterators: create / reset / destroy ---- *)
Definition st_iter_new (s : hstate) : hstate * nat :=
  (set_iters s (st_iters s ++ [Some (it_reset (st_ranges s))]), length (st_iters s)).

Definition get_iter (s : hstate) (h : nat) : res iter :=
  match nth_error (st_iters s) h with
  | Some (Some it) => ROk it
  | _ => RFault EFDeadIter
  end.
Fixpoint set_nth {A} (l : list A) (k : nat) (x : A) : list A :=
  match l, k with
  | [], _ => []
  | _ :: t, O => x :: t
  | a :: t, S k' => a :: set_nth t k' x
  end.
Definition put_iter (s : hstate) (h : nat) (it : option iter) : hstate :=
  set_iters s (set_nth (st_iters s) h it).

Definition st_iter_reset (s : hstate) (h : nat) : res hstate :=
  rbind (get_iter s h) (fun _ => ROk (put_iter s h (Some (it_reset (st_ranges s))))).
Definition st_iter_destroy (s : hstate) (h : nat) : res hstate :=
  rbind (get_iter s h) (fun _ => ROk (put_iter s h None)).

(* ---- _iterator_advance: the iterator afterwards and whether there is a next host ---- *)
Definition iterator_advance (l : list hr) (it : iter) : res (iter * bool) :=
  if (zlen l - 1 <? it_idx it)%Z then ROk (it, false)
  else
    match nth_z l (it_idx it) with
    | None => RFault EFNull
    | Some r =>
      let it1 := mkit (it_idx it) (it_depth it) true in
      let d1 := (it_depth it + 1)%Z in
      if (d1 <? 0)%Z || (Z.of_N (usub (hi r) (lo r)) <? d1)%Z then
        if (zlen l - 1 <? it_idx it + 1)%Z then ROk (it1, false)
        else ROk (mkit (it_idx it + 1) 0 (load l (it_idx it + 1)), true)
      else ROk (mkit (it_idx it) d1 true, true)
    end.

(* ---- hostlist_next ---- *)
Definition st_next (s : hstate) (h : nat) : res (hstate * option bytes) :=
  rbind (get_iter s h) (fun it =>
  rbind (iterator_advance (st_ranges s) it) (fun '(it', more) =>
    let s' := put_iter s h (Some it') in
    if more then
      match nth_z (st_ranges s) (it_idx it') with
      | None => RFault EFNull
      | Some r => ROk (s', Some (host_at r (to_ulong (it_depth it'))))
      end
    else ROk (s', None))).

(* ---- hostlist_remove: removes the host the iterator returned last ---- *)
Definition st_remove (s : hstate) (h : nat) : res (hstate * Z) :=
  rbind (get_iter s h) (fun it =>
    if negb (it_hr it) then RFault EFNull
    else match nth_z (st_ranges s) (it_idx it) with
         | None => RFault EFNull
         | Some r =>
           ROk (dec_nhosts (delete_in_range s (Z.to_nat (it_idx it)) r (it_depth it) false), 1%Z)
         end).

(* ---- hostrange_cmp / hostrange_join / hostlist_uniq ---- *)
Fixpoint bytes_cmp (a b : bytes) : Z :=
  match a, b with
  | [], [] => 0%Z
  | [], _ :: _ => (-1)%Z
  | _ :: _, [] => 1%Z
  | x :: a', y :: b' => if x <? y then (-1)%Z else if y <? x then 1%Z else bytes_cmp a' b'
  end.
Definition b2z (b : bool) : Z := if b then 1%Z else 0%Z.
Definition hostrange_prefix_cmp (a b : hr) : Z :=
  let c := bytes_cmp (pfx a) (pfx b) in
  if (c =? 0)%Z then (b2z (single b) - b2z (single a))%Z else c.
(* only the sign matters to qsort; the widths hostrange_width_combine overwrites are dealt with
   by the oracle relation below *)
Definition hostrange_cmp (a b : hr) : Z :=
  let c := hostrange_prefix_cmp a b in
  if (c =? 0)%Z then
    match width_equiv (lo a) (wid a) (lo b) (wid b) with
    | Some _ => to_int (Z.of_N (usub (lo a) (lo b)))
    | None => (Z.of_nat (wid a) - Z.of_nat (wid b))%Z
    end
  else c.

(* hostrange_join(h1, h2): number of duplicates or -1, and both ranges afterwards *)
Definition hostrange_join (a b : hr) : Z * hr * hr :=
  if (hostrange_prefix_cmp a b =? 0)%Z then
    match width_equiv (lo a) (wid a) (lo b) (wid b) with
    | None => ((-1)%Z, a, b)
    | Some (wa, wb) =>
      let a := set_wid a wa in let b := set_wid b wb in
      if single a && single b then (1%Z, a, b)
      else if hi a =? usub (lo b) 1 then (0%Z, set_hi a (hi b), b)
      else if lo b <=? hi a then
        if hi a <? hi b then (to_int (Z.of_N (wrap (usub (hi a) (lo b) + 1))), set_hi a (hi b), b)
        else (count_int b, a, b)
      else ((-1)%Z, a, b)
    end
  else ((-1)%Z, a, b).

(* the while loop of hostlist_uniq over the sorted array: `done' (reversed) is hr[0..i-2],
   cur is hr[i-1], rest is hr[i..] *)
Fixpoint join_loop (done : list hr) (cur : hr) (rest : list hr) (nh : Z) : list hr * Z :=
  match rest with
  | [] => (rev (cur :: done), nh)
  | b :: rest' =>
    let '(ndup, a', b') := hostrange_join cur b in
    if (0 <=? ndup)%Z then join_loop done a' rest' (nh - ndup)%Z
    else join_loop (a' :: done) b' rest' nh
  end.

(* qsort is an oracle: the caller supplies the array as it was found after the sort.  It must be
   a rearrangement of the range array in which widths may have been overwritten by
   _width_equiv, i.e. changed without changing any name of the range. *)
Definition hr_same (a b : hr) : bool :=
  beq (pfx a) (pfx b) && (lo a =? lo b) && (hi a =? hi b) && Bool.eqb (single a) (single b)
  && Nat.eqb (Nat.max (wid a) (ndigits (lo a))) (Nat.max (wid b) (ndigits (lo b))).
Fixpoint remove_same (x : hr) (l : list hr) : option (list hr) :=
  match l with
  | [] => None
  | y :: t => if hr_same x y then Some t
              else match remove_same x t with Some t' => Some (y :: t') | None => None end
  end.
Fixpoint rearranged (sorted cur : list hr) : bool :=
  match sorted with
  | [] => match cur with [] => true | _ => false end
  | x :: t => match remove_same x cur with Some cur' => rearranged t cur' | None => false end
  end.
Fixpoint sorted_by_cmp (l : list hr) : bool :=
  match l with
  | a :: ((b :: _) as t) => (hostrange_cmp a b <=? 0)%Z && sorted_by_cmp t
  | _ => true
  end.

Definition st_uniq (s : hstate) (sorted : list hr) : res hstate :=
  match st_ranges s with
  | [] | [_] => ROk s
  | _ =>
    if negb (rearranged sorted (st_ranges s)) then RFault EFOracle
    else match sorted with
         | [] => RFault EFOracle
         | a :: rest =>
           let '(l', nh) := join_loop [] a rest (st_nhosts s) in
           ROk (mkst l' nh (map_iters (fun _ => it_reset l') (st_iters s)))
         end
  end.

(* a deterministic stand-in for the oracle (insertion sort by hostrange_cmp), for users that have
   no implementation run at hand; any stable sort gives this array when the comparison is a
   total preorder on the ranges present *)
Fixpoint insert_sorted (x : hr) (l : list hr) : list hr :=
  match l with
  | [] => [x]
  | y :: t => if (hostrange_cmp x y <? 0)%Z then x :: l else y :: insert_sorted x t
  end.
Definition isort (l : list hr) : list hr := fold_right insert_sorted [] l.
Definition st_uniq_isort (s : hstate) : res hstate := st_uniq s (isort (st_ranges s)).

(* ---- op histories (the language of the correspondence runner and of the theorems) ---- *)
Inductive op :=
| OPush (expr : bytes) | OShift | OPop | OCount | ONth (n : Z) | OFind (name : bytes)
| ODeleteHost (name : bytes) | ODeleteNth (n : Z) | ODelete (expr : bytes) | OUniq (sorted : list hr)
| OIterNew | OIterNext (h : nat) | OIterRemove (h : nat) | OIterReset (h : nat) | OIterDestroy (h : nat).

Inductive obs := VName (n : option bytes) | VInt (z : Z) | VUnit.

Definition step (s : hstate) (o : op) : res (hstate * obs) :=
  match o with
  | OPush e => rbind (st_push s e) (fun '(s', z) => ROk (s', VInt z))
  | OShift => rbind (st_shift s) (fun '(s', n) => ROk (s', VName n))
  | OPop => rbind (st_pop s) (fun '(s', n) => ROk (s', VName n))
  | OCount => ROk (s, VInt (st_count s))
  | ONth n => rbind (st_nth s n) (fun v => ROk (s, VName v))
  | OFind nm => let '(s', z) := st_find s nm in ROk (s', VInt z)
  | ODeleteHost nm => rbind (st_delete_host s nm) (fun '(s', z) => ROk (s', VInt z))
  | ODeleteNth n => rbind (st_delete_nth s n) (fun '(s', z) => ROk (s', VInt z))
  | ODelete e => rbind (st_delete s e) (fun '(s', z) => ROk (s', VInt z))
  | OUniq sorted => rbind (st_uniq s sorted) (fun s' => ROk (s', VUnit))
  | OIterNew => let '(s', h) := st_iter_new s in ROk (s', VInt (Z.of_nat h))
  | OIterNext h => rbind (st_next s h) (fun '(s', n) => ROk (s', VName n))
  | OIterRemove h => rbind (st_remove s h) (fun '(s', z) => ROk (s', VInt z))
  | OIterReset h => rbind (st_iter_reset s h) (fun s' => ROk (s', VUnit))
  | OIterDestroy h => rbind (st_iter_destroy s h) (fun s' => ROk (s', VUnit))
  end.

Fixpoint run (s : hstate) (ops : list op) : res (hstate * list obs) :=
  match ops with
  | [] => ROk (s, [])
  | o :: rest =>
    rbind (step s o) (fun '(s', v) => rbind (run s' rest) (fun '(s'', vs) => ROk (s'', v :: vs)))
  end.

(* all names of the list in order, as a fresh iterator sees them *)
Definition st_names (s : hstate) : list bytes := iter_all (st_ranges s).
