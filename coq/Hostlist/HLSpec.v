(* S-side of C01: host expressions as syntax trees, their mathematical expansion
   (denote) and their concrete text (render).  Written independently of the code. *)
From PV Require Export Base.Decimal Generated.Params.
Local Open Scope N_scope.

(* a number as typed: value and number of characters typed (zero padded) *)
Record rtxt := mkrt { t_lo : N; t_w : nat; t_hi : option (N * nat) }.

Definition rt_hi (r : rtxt) : N := match t_hi r with None => t_lo r | Some (h, _) => h end.

Fixpoint count_up' (k : nat) (from : N) : list N :=
  match k with O => [] | S k' => from :: count_up' k' (from + 1) end.

(* the number strings one range stands for: every n in lo..hi, printed with lo's typed width *)
Definition rt_nums (r : rtxt) : list bytes :=
  map (fmt (t_w r)) (count_up' (N.to_nat (rt_hi r + 1 - t_lo r)) (t_lo r)).
Definition rs_nums (rs : list rtxt) : list bytes := flat_map rt_nums rs.

Inductive word :=
| WPlain (name : bytes)
| WBr (p : bytes) (rs : list rtxt) (sfx : bytes)
| WBr2 (p : bytes) (rs : list rtxt) (mid : bytes) (rs2 : list rtxt) (sfx : bytes).

Definition denote_word (w : word) : list bytes :=
  match w with
  | WPlain name => [name]
  | WBr p rs sfx => map (fun n => p ++ n ++ sfx) (rs_nums rs)
  | WBr2 p rs mid rs2 sfx =>
    flat_map (fun n => map (fun m => p ++ n ++ mid ++ m ++ sfx) (rs_nums rs2)) (rs_nums rs)
  end.

(* an expression: words, each followed by a separator string *)
Definition expr := list (word * bytes).
Definition denote (e : expr) : list bytes := flat_map (fun ws => denote_word (fst ws)) e.

(* ---- concrete syntax ---- *)
Definition rt_text (r : rtxt) : bytes :=
  fmt (t_w r) (t_lo r) ++ match t_hi r with None => [] | Some (h, wh) => 45 :: fmt wh h end.
Definition rs_text (rs : list rtxt) : bytes := join 44 (map rt_text rs).

Definition render_word (w : word) : bytes :=
  match w with
  | WPlain name => name
  | WBr p rs sfx => p ++ 91 :: rs_text rs ++ 93 :: sfx
  | WBr2 p rs mid rs2 sfx => p ++ 91 :: rs_text rs ++ 93 :: mid ++ 91 :: rs_text rs2 ++ 93 :: sfx
  end.
Definition render (e : expr) : bytes :=
  fold_right (fun ws acc => render_word (fst ws) ++ snd ws ++ acc) [] e.

(* ---- well-formedness: the quantifier of C01, plus the limits D01 the code really has ---- *)
Definition is_sepc (c : N) : bool := (c =? 9) || (c =? 44) || (c =? 32).
Definition plain_char (c : N) : bool := negb (is_sepc c) && negb (c =? 91) && negb (c =? 93).
Definition plain_text (t : bytes) : bool := forallb plain_char t.

Definition NUM_LIMIT : N := 1000000000000000. (* 10^15, D01 *)

Definition rt_wf (r : rtxt) : Prop :=
  (ndigits (t_lo r) <= t_w r)%nat /\ t_lo r <= rt_hi r /\ rt_hi r - t_lo r < MAX_RANGE /\
  rt_hi r < NUM_LIMIT /\
  match t_hi r with None => True | Some (h, wh) => (ndigits h <= wh)%nat end.

Definition rs_wf (rs : list rtxt) : Prop :=
  rs <> [] /\ (length rs <= N.to_nat MAX_RANGES)%nat /\ Forall rt_wf rs.

Definition first_pass_name (p n mid : bytes) (rs2 : list rtxt) (sfx : bytes) : bytes :=
  p ++ n ++ mid ++ 91 :: rs_text rs2 ++ 93 :: sfx.

Definition word_wf (w : word) : Prop :=
  match w with
  | WPlain name => name <> [] /\ plain_text name = true /\ (length name < N.to_nat CUR_TOK_SIZE - 1)%nat
  | WBr p rs sfx => plain_text p = true /\ plain_text sfx = true /\ rs_wf rs /\
                    Forall (fun n => (length n < N.to_nat SUFFIX_HOST_SIZE - 1)%nat /\
                                     (length n < N.to_nat CUR_TOK_SIZE - 1)%nat) (denote_word w)
  | WBr2 p rs mid rs2 sfx =>
    plain_text p = true /\ plain_text mid = true /\ plain_text sfx = true /\ rs_wf rs /\ rs_wf rs2 /\
    Forall (fun n => (length (first_pass_name p n mid rs2 sfx)
                        < N.to_nat SUFFIX_HOST_SIZE - 1)%nat) (rs_nums rs) /\
    Forall (fun n => (length n < N.to_nat SUFFIX_HOST_SIZE - 1)%nat) (denote_word w)
  end.

(* separators: non-empty strings over blank, tab and comma (the last may be empty) *)
Definition sep_wf (s : bytes) : Prop := s <> [] /\ forallb is_sepc s = true.
Fixpoint expr_wf (e : expr) : Prop :=
  match e with
  | [] => True
  | [(w, s)] => word_wf w /\ forallb is_sepc s = true
  | (w, s) :: rest => word_wf w /\ sep_wf s /\ expr_wf rest
  end.
