(* Core semantic lemmas about the hostlist model: width equivalence, tail
   coalescing is invisible, iteration enumerates exactly the expansion. *)
From PV Require Import Base.DecimalFacts Hostlist.HLDefs.
Local Open Scope N_scope.

(* ---------- _width_equiv ---------- *)
Theorem width_equiv_sound n wn m wm wn' wm' :
  width_equiv n wn m wm = Some (wn', wm') ->
  wn' = wm' /\ (forall x, n <= x -> fmt wn' x = fmt wn x) /\ (forall y, m <= y -> fmt wm' y = fmt wm y).
Proof.
  unfold width_equiv, zero_padded, fmt. intros H.
  destruct (Nat.eqb (wn - ndigits n) (wm - ndigits n)) eqn:E1;
  destruct (Nat.eqb (wm - ndigits m) (wn - ndigits m)) eqn:E2; cbn in H; inversion H; subst; clear H;
  try apply Nat.eqb_eq in E1; try apply Nat.eqb_eq in E2.
  - split; auto. split; auto. intros x Hx. pose proof (ndigits_mono _ _ Hx). f_equal. f_equal. lia.
  - split; auto. split; auto. intros x Hx. pose proof (ndigits_mono _ _ Hx). f_equal. f_equal. lia.
  - split; auto. split; auto. intros y Hy. pose proof (ndigits_mono _ _ Hy). f_equal. f_equal. lia.
Qed.

(* ---------- count_up ---------- *)
Lemma count_up_app a b from : count_up (a + b) from = count_up a from ++ count_up b (from + N.of_nat a).
Proof.
  revert from; induction a as [|a IH]; intros from; cbn [count_up Nat.add app].
  - f_equal. lia.
  - f_equal. rewrite IH. f_equal. f_equal. lia.
Qed.
Lemma count_up_length k from : length (count_up k from) = k.
Proof. revert from; induction k; intros; cbn; auto. Qed.
Lemma count_up_In k from x : In x (count_up k from) <-> from <= x < from + N.of_nat k.
Proof.
  revert from; induction k as [|k IH]; intros from; cbn [count_up In].
  - split; [tauto|lia].
  - rewrite IH. split; [intros [<-|H]; lia|]. intros H.
    destruct (N.eq_dec from x); [left; auto|right; lia].
Qed.
Lemma count_up_shift k from d : count_up k (from + d) = map (fun x => x + d) (count_up k from).
Proof. revert from; induction k as [|k IH]; intros from; cbn [count_up map]; auto.
  f_equal. rewrite <- IH. f_equal. lia. Qed.

(* ---------- well-formed ranges ---------- *)
Definition hr_ok (r : hr) : Prop :=
  if single r then lo r = 0 /\ hi r = 0 else lo r <= hi r /\ hi r < ULONG - 1.

Lemma ULONG_pos : 0 < ULONG. Proof. reflexivity. Qed.

Lemma usub_le a b : b <= a -> a < ULONG -> usub a b = a - b.
Proof. intros H1 H2. unfold usub. pose proof ULONG_pos.
  rewrite (N.mod_small b) by lia. replace (a + ULONG - b) with ((a - b) + 1 * ULONG) by lia.
  rewrite N.mod_add by lia. apply N.mod_small. lia. Qed.

Lemma usub_zero_one : usub 0 1 = ULONG - 1.
Proof. reflexivity. Qed.

Lemma hr_count_ok r : hr_ok r -> hr_count r = if single r then 1 else hi r + 1 - lo r.
Proof. unfold hr_ok, hr_count. destruct (single r); auto. intros [H1 H2].
  rewrite usub_le by lia. unfold wrap. rewrite N.mod_small by lia. lia. Qed.

(* ---------- push_range: coalescing never changes the names ---------- *)
Lemma range_hosts_merge t r wt wr :
  single t = false -> single r = false -> lo t <= hi t -> hi t + 1 = lo r -> lo r <= hi r ->
  width_equiv (lo t) (wid t) (lo r) (wid r) = Some (wt, wr) -> pfx t = pfx r ->
  range_hosts (mkhr (pfx t) (lo t) (hi r) wt false) = range_hosts t ++ range_hosts r.
Proof.
  intros St Sr Ht Hadj Hr Hw Hp. unfold range_hosts. cbn [single pfx lo hi wid]. rewrite St, Sr.
  apply width_equiv_sound in Hw as (-> & Ht' & Hr').
  replace (N.to_nat (hi r + 1 - lo t)) with (N.to_nat (hi t + 1 - lo t) + N.to_nat (hi r + 1 - lo r))%nat by lia.
  rewrite count_up_app, map_app. f_equal.
  - apply map_ext_in. intros x Hx. apply count_up_In in Hx. rewrite Ht' by lia. reflexivity.
  - replace (lo t + N.of_nat (N.to_nat (hi t + 1 - lo t))) with (lo r) by lia.
    rewrite Hp. apply map_ext_in. intros x Hx. apply count_up_In in Hx. rewrite Hr' by lia. reflexivity.
Qed.

Lemma prefix_cmp0_true a b : prefix_cmp0 a b = true -> pfx a = pfx b /\ single a = single b.
Proof. unfold prefix_cmp0. rewrite andb_true_iff. intros [H1 H2]. apply beq_eq in H1.
  apply Bool.eqb_prop in H2. auto. Qed.

Lemma push_range_spec l r :
  Forall hr_ok l -> hr_ok r ->
  expand (push_range l r) = expand l ++ range_hosts r /\ Forall hr_ok (push_range l r).
Proof.
  intros Hl Hr. induction l as [|t l IH].
  - cbn. rewrite app_nil_r. auto.
  - inversion Hl as [|? ? Ht Hl']; subst. destruct l as [|u l'].
    + cbn [push_range].
      destruct (prefix_cmp0 t r && (hi t =? usub (lo r) 1)) eqn:E.
      * apply andb_true_iff in E as [E1 E2]. apply prefix_cmp0_true in E1 as [Ep Es].
        apply N.eqb_eq in E2.
        destruct (width_equiv (lo t) (wid t) (lo r) (wid r)) as [[wt wr]|] eqn:Ew.
        2:{ split; [|auto]. unfold expand. cbn [flat_map]. rewrite !app_nil_r. reflexivity. }
        unfold hr_ok in Ht, Hr. destruct (single t) eqn:St.
        -- (* two singles never coalesce: hi t = 0 but lo r - 1 wraps *)
           rewrite <- Es in Hr. destruct Ht as [_ Ht], Hr as [Hr _]. rewrite Hr, usub_zero_one in E2.
           rewrite Ht in E2. discriminate.
        -- rewrite <- Es in Hr. destruct Ht as [Ht1 Ht2], Hr as [Hr1 Hr2].
           assert (Hlo : 1 <= lo r).
           { destruct (N.eq_dec (lo r) 0) as [Z|Z]; [|lia]. rewrite Z, usub_zero_one in E2. lia. }
           rewrite usub_le in E2 by lia.
           split.
           ++ unfold expand. cbn [flat_map]. rewrite !app_nil_r.
              eapply range_hosts_merge; eauto; try lia; congruence.
           ++ constructor; auto. unfold hr_ok. cbn [single lo hi]. lia.
      * split; [|auto]. unfold expand. cbn [flat_map]. rewrite !app_nil_r. reflexivity.
    + specialize (IH Hl'). destruct IH as [IH1 IH2].
      change (push_range (t :: u :: l') r) with (t :: push_range (u :: l') r).
      split.
      * unfold expand in *. cbn [flat_map]. rewrite IH1. cbn [flat_map]. rewrite app_assoc. reflexivity.
      * constructor; auto.
Qed.

Lemma push_range_expand l r :
  Forall hr_ok l -> hr_ok r -> expand (push_range l r) = expand l ++ range_hosts r.
Proof. intros. apply push_range_spec; auto. Qed.
Lemma push_range_ok l r : Forall hr_ok l -> hr_ok r -> Forall hr_ok (push_range l r).
Proof. intros. apply push_range_spec; auto. Qed.

(* ---------- iteration ---------- *)
Lemma range_hosts_host_at r :
  hr_ok r -> range_hosts r = map (host_at r) (count_up (N.to_nat (hr_count r)) 0).
Proof.
  intros H. rewrite hr_count_ok by auto. unfold range_hosts, host_at, hr_ok in *.
  destruct (single r).
  - cbn. reflexivity.
  - destruct H as [H1 H2]. replace (lo r) with (0 + lo r) at 2 by lia.
    rewrite count_up_shift, map_map. apply map_ext_in. intros x Hx. apply count_up_In in Hx.
    unfold wrap. rewrite N.mod_small by lia. f_equal. f_equal. lia.
Qed.

Definition names_from (l : list hr) (idx : nat) (d : Z) : list bytes :=
  match nth_error l idx with
  | None => []
  | Some r => map (host_at r) (count_up (N.to_nat (hr_count r) - Z.to_nat (d + 1)) (Z.to_N (d + 1)))
              ++ expand (skipn (S idx) l)
  end.

Lemma skipn_nth_error {A} (l : list A) n x : nth_error l n = Some x -> skipn n l = x :: skipn (S n) l.
Proof. revert n; induction l as [|a l IH]; intros [|n] H; cbn in *; try discriminate.
  - inversion H; auto. - auto. Qed.
Lemma skipn_nth_none {A} (l : list A) n : nth_error l n = None -> skipn n l = [].
Proof. intro H. apply nth_error_None in H. apply skipn_all2. auto. Qed.

Lemma total_count_cons r l : total_count (r :: l) = hr_count r + total_count l.
Proof.
  unfold total_count. cbn [fold_left].
  assert (G : forall l a, fold_left (fun a r => a + hr_count r) l a = a + fold_left (fun a r => a + hr_count r) l 0).
  { clear. induction l as [|x l IH]; intros a; cbn [fold_left]; [lia|]. rewrite IH, (IH (0 + hr_count x)). lia. }
  rewrite G. lia.
Qed.

Lemma iter_run_spec fuel l idx d :
  Forall hr_ok l -> (-1 <= d)%Z ->
  (match nth_error l idx with
   | None => True
   | Some r => (d + 1 <= Z.of_N (hr_count r))%Z /\
               (N.to_nat (hr_count r) - Z.to_nat (d + 1) + N.to_nat (total_count (skipn (S idx) l)) < fuel)%nat
   end) ->
  iter_run fuel l idx d = names_from l idx d.
Proof.
  revert idx d. induction fuel as [|f IH]; intros idx d Hok Hd Hm.
  - unfold names_from. destruct (nth_error l idx) as [r|] eqn:E; [destruct Hm as [_ Hm]; lia | reflexivity].
  - cbn [iter_run]. unfold iter_next, names_from.
    destruct (nth_error l idx) as [r|] eqn:Er; [|reflexivity].
    destruct Hm as [Hm1 Hm2].
    assert (Hr : hr_ok r). { eapply Forall_forall; [exact Hok|]. eapply nth_error_In; eauto. }
    pose proof (hr_count_ok r Hr) as Hc.
    assert (Hus : usub (hi r) (lo r) = hr_count r - 1 /\ 1 <= hr_count r).
    { unfold hr_ok in Hr. destruct (single r).
      - destruct Hr as [-> ->]. rewrite Hc. split; reflexivity.
      - destruct Hr. rewrite usub_le by lia. lia. }
    destruct Hus as [Hus Hc1]. rewrite Hus.
    destruct (Z.of_N (hr_count r - 1) <? d + 1)%Z eqn:Ecmp.
    + (* end of this range *)
      apply Z.ltb_lt in Ecmp. assert (Hd1 : (d + 1 = Z.of_N (hr_count r))%Z) by lia.
      replace (N.to_nat (hr_count r) - Z.to_nat (d + 1))%nat with O by lia. cbn [count_up map app].
      destruct (nth_error l (S idx)) as [r'|] eqn:Er'.
      * rewrite (skipn_nth_error _ _ _ Er'). unfold expand at 1. cbn [flat_map]. fold (expand (skipn (S (S idx)) l)).
        assert (Hr' : hr_ok r'). { eapply Forall_forall; [exact Hok|]. eapply nth_error_In; eauto. }
        rewrite (skipn_nth_error _ _ _ Er'), total_count_cons in Hm2.
        assert (Hc1' : 1 <= hr_count r').
        { rewrite hr_count_ok by auto. unfold hr_ok in Hr'. destruct (single r'); lia. }
        rewrite IH by first [assumption | lia | (rewrite Er'; split; lia)].
        unfold names_from. rewrite Er'. rewrite (range_hosts_host_at r' Hr').
        replace (N.to_nat (hr_count r')) with (S (N.to_nat (hr_count r') - 1)) at 2 by lia.
        cbn [count_up map app]. change (Z.to_nat (0 + 1)) with 1%nat. change (Z.to_N (0 + 1)) with 1.
        change (0 + 1) with 1. reflexivity.
      * rewrite (skipn_nth_none _ _ Er'). reflexivity.
    + apply Z.ltb_ge in Ecmp.
      rewrite IH by first [assumption | lia | (rewrite Er; split; lia)].
      unfold names_from. rewrite Er.
      replace (N.to_nat (hr_count r) - Z.to_nat (d + 1))%nat with (S (N.to_nat (hr_count r) - Z.to_nat (d + 1 + 1)))%nat by lia.
      cbn [count_up map app]. replace (Z.to_N (d + 1 + 1)) with (Z.to_N (d + 1) + 1) by lia. reflexivity.
Qed.

Theorem iter_all_expand l : Forall hr_ok l -> iter_all l = expand l.
Proof.
  intros Hok. unfold iter_all. rewrite iter_run_spec; auto; try lia.
  - unfold names_from. destruct l as [|r l']; [reflexivity|]. cbn [nth_error skipn].
    inversion Hok as [|? ? Hr Hl]; subst.
    unfold expand at 2. cbn [flat_map]. rewrite (range_hosts_host_at r Hr).
    replace (N.to_nat (hr_count r) - Z.to_nat (-1 + 1))%nat with (N.to_nat (hr_count r)) by lia.
    reflexivity.
  - destruct l as [|r l']; cbn [nth_error]; auto. cbn [skipn]. rewrite total_count_cons. lia.
Qed.
