(* C16 proofs, part 4: hostlist_uniq on lists whose ranges are "uniform" (all ranges of one
   prefix carry the same zero-padding width; names of different prefixes / kinds never coincide;
   numbers below 2^31): sorted by hostrange_cmp, the join loop leaves every distinct name exactly
   once and loses none, and the host count is recomputed correctly.  Outside that domain the code
   keeps duplicates (uniq_refuted in HLEditHistory.v). *)
From Coq Require Import ZifyBool ZifyNat ZifyN Sorting.Sorted FinFun.
From PV Require Import Base.DecimalFacts Hostlist.HLFacts Hostlist.HLSpec Hostlist.HLParseFacts Hostlist.HLLimits.
From PV Require Export Hostlist.HLEditFacts.
Local Open Scope nat_scope.

(* ---------- strcmp ---------- *)
Lemma bytes_cmp_refl a : bytes_cmp a a = 0%Z.
Proof. induction a as [|x a IH]; cbn [bytes_cmp]; auto. rewrite N.ltb_irrefl. exact IH. Qed.

Lemma bytes_cmp_eq a : forall b, bytes_cmp a b = 0%Z -> a = b.
Proof.
  induction a as [|x a IH]; intros [|y b] H; cbn [bytes_cmp] in H; try discriminate; auto.
  destruct (x <? y)%N eqn:E1; [discriminate|]. destruct (y <? x)%N eqn:E2; [discriminate|].
  f_equal; [lia|auto].
Qed.

Lemma bytes_cmp_range a : forall b, (bytes_cmp a b = -1 \/ bytes_cmp a b = 0 \/ bytes_cmp a b = 1)%Z.
Proof. induction a as [|x a IH]; intros [|y b]; cbn [bytes_cmp]; auto.
  destruct (x <? y)%N; auto. destruct (y <? x)%N; auto. Qed.

Lemma bytes_cmp_antisym a : forall b, bytes_cmp b a = (- bytes_cmp a b)%Z.
Proof. induction a as [|x a IH]; intros [|y b]; cbn [bytes_cmp]; auto.
  destruct (x <? y)%N eqn:E1, (y <? x)%N eqn:E2; try lia; auto. Qed.

Lemma bytes_cmp_trans a : forall b c, (bytes_cmp a b <= 0)%Z -> (bytes_cmp b c <= 0)%Z ->
  (bytes_cmp a c <= 0)%Z /\ ((bytes_cmp a b < 0 \/ bytes_cmp b c < 0)%Z -> (bytes_cmp a c < 0)%Z).
Proof.
  induction a as [|x a IH]; intros [|y b] [|z c]; cbn [bytes_cmp]; try lia.
  destruct (x <? y)%N eqn:E1, (y <? x)%N eqn:E2, (y <? z)%N eqn:E3, (z <? y)%N eqn:E4, (x <? z)%N eqn:E5, (z <? x)%N eqn:E6;
    try lia; intros H1 H2; try lia.
  apply IH; auto.
Qed.

(* ---------- hostrange_prefix_cmp: a total preorder whose equivalence is "same prefix, same kind" ---------- *)
Definition same_class (a b : hr) : Prop := pfx a = pfx b /\ single a = single b.
Definition pc (a b : hr) : Z := hostrange_prefix_cmp a b.

Lemma pc_zero a b : pc a b = 0%Z <-> same_class a b.
Proof.
  unfold pc, hostrange_prefix_cmp, same_class, b2z. split.
  - destruct (bytes_cmp (pfx a) (pfx b) =? 0)%Z eqn:E.
    + intros H. split; [apply bytes_cmp_eq; lia|]. destruct (single a), (single b); auto; lia.
    + intros H. lia.
  - intros [H1 H2]. rewrite H1, H2, bytes_cmp_refl. cbn. destruct (single b); reflexivity.
Qed.

Lemma pc_trans a b c : (pc a b <= 0)%Z -> (pc b c <= 0)%Z ->
  (pc a c <= 0)%Z /\ ((pc a b < 0 \/ pc b c < 0)%Z -> (pc a c < 0)%Z).
Proof.
  unfold pc, hostrange_prefix_cmp, b2z.
  pose proof (bytes_cmp_trans (pfx a) (pfx b) (pfx c)) as T.
  pose proof (bytes_cmp_range (pfx a) (pfx b)) as R1. pose proof (bytes_cmp_range (pfx b) (pfx c)) as R2. pose proof (bytes_cmp_range (pfx a) (pfx c)) as R3.
  destruct (bytes_cmp (pfx a) (pfx b) =? 0)%Z eqn:E1, (bytes_cmp (pfx b) (pfx c) =? 0)%Z eqn:E2, (bytes_cmp (pfx a) (pfx c) =? 0)%Z eqn:E3;
    destruct (single a), (single b), (single c); intros G1 G2; try lia;
    try (assert (pfx a = pfx b) by (apply bytes_cmp_eq; lia)); try (assert (pfx b = pfx c) by (apply bytes_cmp_eq; lia));
    try (assert (pfx a = pfx c) by (apply bytes_cmp_eq; lia)); subst;
    try (rewrite ?bytes_cmp_refl in *; lia); try (destruct T; lia).
Qed.

(* ---------- the sort key: class first, then lowest number ---------- *)
Definition kle (a b : hr) : Prop := (pc a b < 0)%Z \/ (pc a b = 0%Z /\ (lo a <= lo b)%N).

Lemma same_class_refl a : same_class a a. Proof. split; reflexivity. Qed.
Lemma same_class_sym a b : same_class a b -> same_class b a. Proof. intros [H1 H2]. split; auto. Qed.
Lemma same_class_trans a b c : same_class a b -> same_class b c -> same_class a c.
Proof. intros [H1 H2] [H3 H4]. split; congruence. Qed.

Lemma kle_trans a b c : kle a b -> kle b c -> kle a c.
Proof.
  unfold kle. intros H1 H2. destruct (pc_trans a b c ltac:(lia) ltac:(lia)) as [T1 T2].
  destruct H1 as [H1|[H1 L1]], H2 as [H2|[H2 L2]]; try (left; apply T2; lia).
  right. split; [|lia]. apply pc_zero. eapply same_class_trans; apply pc_zero; eauto.
Qed.

(* class of the middle element *)
Lemma kle_between a b c : kle a b -> kle b c -> same_class a c -> same_class a b /\ same_class b c.
Proof.
  unfold kle. intros H1 H2 H3. apply pc_zero in H3. destruct (pc_trans a b c ltac:(lia) ltac:(lia)) as [T1 T2].
  assert (pc a b = 0%Z) by lia. assert (pc b c = 0%Z) by lia. split; apply pc_zero; auto.
Qed.

(* ---------- the domain ---------- *)
Definition small (r : hr) : Prop := hr_ok2 r /\ (hi r < 2147483647)%N.
Definition uniform (l : list hr) : Prop := forall x y, In x l -> In y l -> same_class x y -> wid x = wid y.
Definition disjoint (a b : hr) : Prop := forall x, In x (range_hosts a) -> ~ In x (range_hosts b).
Definition class_disjoint (l : list hr) : Prop := forall x y, In x l -> In y l -> ~ same_class x y -> disjoint x y.

Lemma width_equiv_same n m w : width_equiv n w m w = Some (w, w).
Proof. unfold width_equiv. rewrite !Nat.eqb_refl. reflexivity. Qed.

Lemma set_wid_id r : set_wid r (wid r) = r. Proof. destruct r; reflexivity. Qed.

Lemma small_lo r : small r -> (lo r <= hi r)%N /\ (hi r < 2147483647)%N /\ (single r = true -> lo r = 0%N /\ hi r = 0%N).
Proof. intros [[Hok _] Hb]. unfold hr_ok in Hok. destruct (single r); [destruct Hok as [-> ->]; split; [lia|split; [lia|auto]]|split; [lia|split; [lia|discriminate]]]. Qed.

Lemma to_int_usub a b : (a < 2147483648)%N -> (b < 2147483648)%N ->
  to_int (Z.of_N (usub a b)) = (Z.of_N a - Z.of_N b)%Z.
Proof. intros Ha Hb. unfold usub, to_int. rewrite ULONG_val. lia. Qed.

Lemma cmp_kle a b : small a -> small b -> (same_class a b -> wid a = wid b) ->
  ((hostrange_cmp a b <= 0)%Z <-> kle a b).
Proof.
  intros Ha Hb Hw. unfold hostrange_cmp, kle. fold (pc a b).
  destruct (small_lo a Ha) as (La & Ba & _). destruct (small_lo b Hb) as (Lb & Bb & _).
  destruct (pc a b =? 0)%Z eqn:E.
  - assert (Hc : same_class a b) by (apply pc_zero; lia). rewrite (Hw Hc), width_equiv_same.
    rewrite to_int_usub by lia. lia.
  - lia.
Qed.

(* names of a numbered range *)
Lemma range_In r x : single r = false ->
  (In x (range_hosts r) <-> exists n, (lo r <= n <= hi r)%N /\ x = pfx r ++ fmt (wid r) n).
Proof.
  intros Hs. unfold range_hosts. rewrite Hs, in_map_iff. split.
  - intros (n & <- & Hn). apply count_up_In in Hn. exists n. split; [lia|reflexivity].
  - intros (n & Hn & ->). exists n. split; [reflexivity|]. apply count_up_In. lia.
Qed.

Lemma count_up_NoDup k : forall a, NoDup (count_up k a).
Proof. induction k as [|k IH]; intros a; cbn [count_up]; constructor; auto. intros H. apply count_up_In in H. lia. Qed.

Lemma range_NoDup r : NoDup (range_hosts r).
Proof.
  unfold range_hosts. destruct (single r); [repeat constructor; intros []|].
  apply FinFun.Injective_map_NoDup.
  - intros a b H. apply app_inv_head in H. eapply fmt_inj; eauto.
  - apply count_up_NoDup.
Qed.

Lemma disjoint_gap a b : same_class a b -> wid a = wid b -> single a = false -> (hi a < lo b)%N -> disjoint a b.
Proof.
  intros [Hp Hs] Hw Hsa Hgap x Ha Hb. rewrite Hsa in Hs. symmetry in Hs.
  apply (range_In a x Hsa) in Ha as (n & Hn & ->). apply (range_In b _ Hs) in Hb as (n' & Hn' & E).
  rewrite Hp, Hw in E. apply app_inv_head in E. apply fmt_inj in E. lia.
Qed.

(* ---------- hostrange_join on two neighbours of the sorted array ---------- *)
Lemma join_spec a b : small a -> small b -> (same_class a b -> wid a = wid b) -> kle a b ->
  exists nd a', hostrange_join a b = (nd, a', b) /\
  ((nd = (-1)%Z /\ a' = a /\ (same_class a b -> single a = false /\ (hi a + 1 < lo b)%N)) \/
   ((0 <= nd)%Z /\ same_class a b /\ pfx a' = pfx a /\ single a' = single a /\ lo a' = lo a /\ wid a' = wid a /\ small a' /\
    (forall x, In x (range_hosts a') <-> In x (range_hosts a) \/ In x (range_hosts b)) /\
    nd = (Z.of_nat (cnt a) + Z.of_nat (cnt b) - Z.of_nat (cnt a'))%Z)).
Proof.
  intros Ha Hb Hw Hk. unfold hostrange_join. fold (pc a b).
  destruct (small_lo a Ha) as (La & Ba & Sa). destruct (small_lo b Hb) as (Lb & Bb & Sb).
  destruct (pc a b =? 0)%Z eqn:E.
  2:{ eexists _, _. split; [reflexivity|]. left. split; [reflexivity|]. split; [reflexivity|].
      intros Hc. apply pc_zero in Hc. lia. }
  assert (Hc : same_class a b) by (apply pc_zero; lia). pose proof Hc as [Hp Hs].
  assert (Hlo : (lo a <= lo b)%N) by (destruct Hk as [Hk|[_ Hk]]; [lia|exact Hk]).
  assert (Hwe : width_equiv (lo a) (wid a) (lo b) (wid b) = Some (wid a, wid b)).
  { pose proof (Hw Hc) as Hww. rewrite Hww. apply width_equiv_same. }
  rewrite Hwe, !set_wid_id.
  destruct (single a) eqn:Sa1.
  - (* two equal single hosts *)
    rewrite <- Hs. cbn [andb]. eexists _, _. split; [reflexivity|]. right.
    split; [lia|]. split; [exact Hc|]. repeat (split; [first [reflexivity | assumption | (unfold set_hi; cbn [single pfx lo wid]; first [reflexivity|assumption])]|]).
    split.
    + intros x. unfold range_hosts. rewrite <- Hs, Sa1, Hp. cbn [In]. tauto.
    + assert (C1 : cnt a = 1) by (apply cnt_single; [apply ok2_ok; apply Ha|exact Sa1]).
      assert (C2 : cnt b = 1) by (apply cnt_single; [apply ok2_ok; apply Hb|congruence]). lia.
  - rewrite <- Hs. cbn [andb].
    assert (Ca : N.of_nat (cnt a) = (hi a + 1 - lo a)%N) by (apply cnt_range; [apply ok2_ok; apply Ha|exact Sa1]).
    assert (Cb : N.of_nat (cnt b) = (hi b + 1 - lo b)%N) by (apply cnt_range; [apply ok2_ok; apply Hb|congruence]).
    assert (Hmerge : (lo b <= hi a + 1)%N -> (hi a <= hi b)%N ->
              small (set_hi a (hi b)) /\
              (forall x, In x (range_hosts (set_hi a (hi b))) <-> In x (range_hosts a) \/ In x (range_hosts b)) /\
              N.of_nat (cnt (set_hi a (hi b))) = (hi b + 1 - lo a)%N).
    { intros Hadj Hhh. split; [|split].
      - pose proof ULONG_val as HU'. pose proof NUM_LIMIT_val as HN'.
        split; [split|]; unfold set_hi; cbn [hi lo single]; try lia.
        unfold hr_ok. cbn [single lo hi]. rewrite Sa1. lia.
      - intros x. rewrite (range_In (set_hi a (hi b))) by (unfold set_hi; cbn [single]; exact Sa1).
        rewrite (range_In a) by exact Sa1. rewrite (range_In b) by congruence. unfold set_hi. cbn [lo hi pfx wid]. rewrite <- Hp, <- (Hw Hc). split.
        + intros (n & Hn & ->). destruct (N.le_gt_cases n (hi a)); [left|right]; exists n; split; auto. all: lia.
        + intros [(n & Hn & ->)|(n & Hn & ->)]; exists n; split; auto. all: lia.
      - pose proof ULONG_val as HU'. pose proof (cnt_range (set_hi a (hi b))) as X.
        assert (Hok' : hr_ok (set_hi a (hi b))) by (unfold hr_ok, set_hi; cbn [single lo hi]; rewrite Sa1; lia).
        specialize (X Hok' Sa1). exact X. }
    pose proof ULONG_val as HU.
    assert (Hus : (1 <= lo b)%N -> usub (lo b) 1 = (lo b - 1)%N) by (intros; apply usub_le; lia).
    destruct (N.eqb_spec (hi a) (usub (lo b) 1)) as [E1|E1].
    + (* perfect join *)
      assert (H1 : (1 <= lo b)%N). { destruct (N.eq_dec (lo b) 0) as [Z0|]; [|lia]. rewrite Z0 in E1. change (usub 0 1) with (ULONG - 1)%N in E1. lia. }
      rewrite Hus in E1 by exact H1. destruct (Hmerge ltac:(lia) ltac:(lia)) as (M1 & M2 & M3).
      eexists _, _. split; [reflexivity|]. right. split; [lia|]. split; [exact Hc|].
      repeat (split; [first [reflexivity | assumption | (unfold set_hi; cbn [single pfx lo wid]; first [reflexivity|assumption])]|]). lia.
    + destruct (lo b <=? hi a)%N eqn:E2.
      * destruct (hi a <? hi b)%N eqn:E3.
        -- destruct (Hmerge ltac:(lia) ltac:(lia)) as (M1 & M2 & M3).
           eexists _, _. split; [reflexivity|]. right.
           assert (Hnd : to_int (Z.of_N (wrap (usub (hi a) (lo b) + 1))) = (Z.of_N (hi a) - Z.of_N (lo b) + 1)%Z).
           { rewrite usub_le by lia. unfold wrap. rewrite N.mod_small by lia. rewrite to_int_small; lia. }
           rewrite Hnd. split; [lia|]. split; [exact Hc|].
           repeat (split; [first [reflexivity | assumption | (unfold set_hi; cbn [single pfx lo wid]; first [reflexivity|assumption])]|]). lia.
        -- eexists _, _. split; [reflexivity|]. right.
           rewrite (count_int_cnt b) by (try (apply ok2_ok; apply Hb); rewrite INT_MAX_val; lia).
           split; [lia|]. split; [exact Hc|]. repeat (split; [first [reflexivity | assumption | (unfold set_hi; cbn [single pfx lo wid]; first [reflexivity|assumption])]|]).
           split; [|lia]. intros x. split; [auto|]. intros [H|H]; [exact H|].
           apply (range_In b) in H as (n & Hn & ->); [|congruence]. apply (range_In a); [exact Sa1|].
           exists n. split; [lia|]. rewrite Hp, (Hw Hc). reflexivity.
      * eexists _, _. split; [reflexivity|]. left. split; [reflexivity|]. split; [reflexivity|].
        intros _. split; [reflexivity|]. destruct (N.eq_dec (lo b) 0) as [Z0|]; [lia|]. rewrite Hus in E1 by lia. lia.
Qed.

(* ---------- list helpers ---------- *)
Lemma in_expand x l : In x (expand l) <-> exists r, In r l /\ In x (range_hosts r).
Proof. unfold expand. apply in_flat_map. Qed.

Lemma NoDup_app_iff {A} (a b : list A) : NoDup (a ++ b) <-> NoDup a /\ NoDup b /\ (forall x, In x a -> ~ In x b).
Proof.
  induction a as [|x a IH]; cbn [app].
  - split; [intros H; split; [constructor|split; [exact H|intros ? []]]|tauto].
  - split.
    + intros H. inversion H as [|? ? Hn Hd]; subst. apply IH in Hd as (H1 & H2 & H3). split; [constructor; auto; intros Hx; apply Hn; apply in_or_app; auto|].
      split; [exact H2|]. intros y [<-|Hy]; [intros Hb; apply Hn; apply in_or_app; auto|auto].
    + intros (H1 & H2 & H3). inversion H1 as [|? ? Hn Hd]; subst. constructor.
      * intros Hx. apply in_app_or in Hx as [Hx|Hx]; [contradiction|]. apply (H3 x); cbn; auto.
      * apply IH. split; [exact Hd|]. split; [exact H2|]. intros y Hy. apply H3. cbn. auto.
Qed.

Lemma SS_app_inv {A} (R : A -> A -> Prop) l1 l2 : StronglySorted R (l1 ++ l2) ->
  StronglySorted R l1 /\ StronglySorted R l2 /\ (forall x y, In x l1 -> In y l2 -> R x y).
Proof.
  induction l1 as [|a l1 IH]; cbn [app]; intros H.
  - split; [constructor|]. split; [exact H|]. intros ? ? [].
  - inversion H as [|? ? Hs Hf]; subst. destruct (IH Hs) as (H1 & H2 & H3). rewrite Forall_app in Hf. destruct Hf as [Hf1 Hf2].
    split; [constructor; auto|]. split; [exact H2|]. intros x y [<-|Hx] Hy; [rewrite Forall_forall in Hf2; auto|auto].
Qed.

Lemma SS_app {A} (R : A -> A -> Prop) l1 l2 : StronglySorted R l1 -> StronglySorted R l2 ->
  (forall x y, In x l1 -> In y l2 -> R x y) -> StronglySorted R (l1 ++ l2).
Proof.
  induction l1 as [|a l1 IH]; cbn [app]; intros H1 H2 H3; [exact H2|].
  inversion H1 as [|? ? Hs Hf]; subst. constructor.
  - apply IH; auto. intros x y Hx Hy. apply H3; cbn; auto.
  - rewrite Forall_app. split; [exact Hf|]. rewrite Forall_forall. intros y Hy. apply H3; cbn; auto.
Qed.

Lemma SS_cons_inv {A} (R : A -> A -> Prop) a l : StronglySorted R (a :: l) -> StronglySorted R l /\ (forall y, In y l -> R a y).
Proof. intros H. inversion H as [|? ? Hs Hf]; subst. split; [exact Hs|]. rewrite Forall_forall in Hf. exact Hf. Qed.

(* ---------- the join loop ---------- *)
Definition key_eq (a a' : hr) : Prop := pfx a' = pfx a /\ single a' = single a /\ lo a' = lo a /\ wid a' = wid a.

Lemma key_class a a' y : key_eq a a' -> (same_class a' y <-> same_class a y).
Proof. intros (Hp & Hs & _). unfold same_class. rewrite Hp, Hs. tauto. Qed.
Lemma key_class_r a a' y : key_eq a a' -> (same_class y a' <-> same_class y a).
Proof. intros (Hp & Hs & _). unfold same_class. rewrite Hp, Hs. tauto. Qed.

Lemma pc_key_l a a' y : key_eq a a' -> pc a' y = pc a y.
Proof. intros (Hp & Hs & _). unfold pc, hostrange_prefix_cmp. rewrite Hp, Hs. reflexivity. Qed.
Lemma pc_key_r a a' y : key_eq a a' -> pc y a' = pc y a.
Proof. intros (Hp & Hs & _). unfold pc, hostrange_prefix_cmp. rewrite Hp, Hs. reflexivity. Qed.
Lemma kle_key_l a a' y : key_eq a a' -> kle a y -> kle a' y.
Proof. intros K. unfold kle. rewrite (pc_key_l _ _ _ K). destruct K as (_ & _ & -> & _). auto. Qed.
Lemma kle_key_r a a' y : key_eq a a' -> kle y a -> kle y a'.
Proof. intros K. unfold kle. rewrite (pc_key_r _ _ _ K). destruct K as (_ & _ & -> & _). auto. Qed.

Lemma kle_same_lo a b : kle a b -> same_class a b -> (lo a <= lo b)%N.
Proof. intros [H|[_ H]] Hc; [apply pc_zero in Hc; lia|exact H]. Qed.

Lemma in_rev1 {A} (x : A) l : In x l -> In x (rev l). Proof. apply in_rev. Qed.
Lemma in_rev2 {A} (x : A) l : In x (rev l) -> In x l. Proof. apply in_rev. Qed.

Lemma classic_same_class a b : same_class a b \/ ~ same_class a b.
Proof.
  unfold same_class. destruct (list_eq_dec N.eq_dec (pfx a) (pfx b)) as [E|E]; [|right; tauto].
  destruct (Bool.bool_dec (single a) (single b)) as [E2|E2]; [left; auto|right; tauto].
Qed.

Lemma join_loop_ok : forall rest done cur nh,
  Forall small (rev done ++ cur :: rest) -> uniform (rev done ++ cur :: rest) ->
  class_disjoint (rev done ++ cur :: rest) -> StronglySorted kle (rev done ++ cur :: rest) ->
  (forall d, In d done -> same_class d cur -> single cur = false /\ (hi d + 1 < lo cur)%N) ->
  NoDup (expand (rev done ++ [cur])) ->
  exists l', join_loop done cur rest nh =
               (l', (nh - (Z.of_nat (length (expand (rev done ++ cur :: rest))) - Z.of_nat (length (expand l'))))%Z) /\
    Forall small l' /\ NoDup (expand l') /\
    (forall x, In x (expand l') <-> In x (expand (rev done ++ cur :: rest))) /\
    length (expand l') <= length (expand (rev done ++ cur :: rest)).
Proof.
  induction rest as [|b rest IH]; intros done cur nh Hsm Hun Hcd Hss HE HF.
  - cbn [join_loop rev]. exists (rev done ++ [cur]). split; [f_equal; lia|]. split; [exact Hsm|]. split; [exact HF|]. split; [tauto|lia].
  - cbn [join_loop].
    (* facts about cur and b *)
    assert (Hin_cur : In cur (rev done ++ cur :: b :: rest)) by (apply in_or_app; right; left; reflexivity).
    assert (Hin_b : In b (rev done ++ cur :: b :: rest)) by (apply in_or_app; right; right; left; reflexivity).
    rewrite Forall_forall in Hsm.
    pose proof (Hsm _ Hin_cur) as Hscur. pose proof (Hsm _ Hin_b) as Hsb.
    destruct (SS_app_inv _ _ _ Hss) as (Hss1 & Hss2 & Hss12).
    destruct (SS_cons_inv _ _ _ Hss2) as (Hss3 & Hcur_le).
    assert (Hk : kle cur b) by (apply Hcur_le; left; reflexivity).
    destruct (join_spec cur b Hscur Hsb (Hun _ _ Hin_cur Hin_b) Hk) as (nd & a' & Hj & Hcase). rewrite Hj.
    destruct Hcase as [(-> & -> & Hgap)|(Hnd & Hc & Kp & Ks & Kl & Kw & Hsa' & Hnames & Hndv)].
    + (* no join: cur is final, b becomes current *)
      change (0 <=? -1)%Z with false. cbn iota.
      assert (EL : rev (cur :: done) ++ b :: rest = rev done ++ cur :: b :: rest) by (cbn [rev]; rewrite <- app_assoc; reflexivity).
      specialize (IH (cur :: done) b nh). rewrite EL in IH. apply IH; clear IH.
      * rewrite Forall_forall. exact Hsm.
      * exact Hun.
      * exact Hcd.
      * exact Hss.
      * intros d [<-|Hd] Hdb.
        -- destruct (Hgap Hdb) as [G1 G2]. destruct Hdb as [_ Hs]. split; [congruence|exact G2].
        -- assert (Hkd : kle d cur) by (apply Hss12; [apply in_rev1; exact Hd|left; reflexivity]).
           destruct (kle_between d cur b Hkd Hk Hdb) as [Hdc Hcb].
           destruct (HE d Hd Hdc) as [G1 G2]. pose proof (kle_same_lo cur b Hk Hcb). destruct Hcb as [_ Hs]. split; [congruence|lia].
      * cbn [rev]. rewrite expand_app. apply NoDup_app_iff.
        split; [exact HF|]. split; [cbn [expand flat_map]; rewrite app_nil_r; apply range_NoDup|].
        intros x Hx Hxb. cbn [expand flat_map] in Hxb. rewrite app_nil_r in Hxb.
        apply in_expand in Hx as (d & Hd & Hxd).
        assert (Hd' : In d (rev done ++ cur :: b :: rest)) by (apply in_app_or in Hd as [Hd|[<-|[]]]; [apply in_or_app; auto|exact Hin_cur]).
        destruct (classic_same_class d b) as [Hdb|Hdb].
        -- assert (Hgap' : single d = false /\ (hi d + 1 < lo b)%N).
           { apply in_app_or in Hd as [Hd|[<-|[]]].
             - apply in_rev2 in Hd.
               assert (Hkd : kle d cur) by (apply Hss12; [apply in_rev1; exact Hd|left; reflexivity]).
               destruct (kle_between d cur b Hkd Hk Hdb) as [Hdc Hcb].
               destruct (HE d Hd Hdc) as [G1 G2]. pose proof (kle_same_lo cur b Hk Hcb). destruct Hdc as [_ Hs]. split; [congruence|lia].
             - apply Hgap. exact Hdb. }
           destruct Hgap' as [G1 G2]. apply (disjoint_gap d b Hdb (Hun _ _ Hd' Hin_b Hdb) G1 ltac:(lia) x Hxd Hxb).
        -- apply (Hcd d b Hd' Hin_b Hdb x Hxd Hxb).
    + (* b joined into cur *)
      assert ((0 <=? nd)%Z = true) as -> by lia. cbn iota.
      assert (K : key_eq cur a') by (repeat split; auto).
      (* membership in the new list *)
      assert (Hsub : forall y, In y (rev done ++ a' :: rest) -> y = a' \/ In y (rev done ++ cur :: b :: rest)).
      { intros y Hy. apply in_app_or in Hy as [Hy|[<-|Hy]]; [right; apply in_or_app; auto|left; reflexivity|right; apply in_or_app; cbn; tauto]. }
      specialize (IH done a' (nh - nd)%Z).
      destruct IH as (l' & Hres & Hsl & Hnd' & Hin_l & Hlen).
      * rewrite Forall_forall. intros y Hy. destruct (Hsub y Hy) as [->|Hy']; auto.
      * intros x y Hx Hy Hxy. destruct (Hsub x Hx) as [->|Hx'], (Hsub y Hy) as [->|Hy']; auto.
        -- rewrite Kw. apply (Hun cur y Hin_cur Hy'). apply (key_class _ _ _ K). exact Hxy.
        -- rewrite Kw. apply (Hun x cur Hx' Hin_cur). apply (key_class_r _ _ _ K). exact Hxy.
      * intros x y Hx Hy Hxy z Hzx Hzy. destruct (Hsub x Hx) as [->|Hx'], (Hsub y Hy) as [->|Hy'].
        -- apply Hxy. apply same_class_refl.
        -- assert (Hn1 : ~ same_class cur y) by (intros Hq; apply Hxy; apply (key_class _ _ _ K); exact Hq).
           assert (Hn2 : ~ same_class b y) by (intros Hq; apply Hn1; eapply same_class_trans; eauto).
           apply Hnames in Hzx as [Hz|Hz]; [apply (Hcd cur y Hin_cur Hy' Hn1 z Hz Hzy)|apply (Hcd b y Hin_b Hy' Hn2 z Hz Hzy)].
        -- assert (Hn1 : ~ same_class x cur) by (intros Hq; apply Hxy; apply (key_class_r _ _ _ K); exact Hq).
           assert (Hn2 : ~ same_class x b) by (intros Hq; apply Hn1; eapply same_class_trans; [exact Hq|apply same_class_sym; exact Hc]).
           apply Hnames in Hzy as [Hz|Hz]; [apply (Hcd x cur Hx' Hin_cur Hn1 z Hzx Hz)|apply (Hcd x b Hx' Hin_b Hn2 z Hzx Hz)].
        -- apply (Hcd x y Hx' Hy' Hxy z Hzx Hzy).
      * destruct (SS_cons_inv _ _ _ Hss3) as (Hss4 & Hb_le).
        apply SS_app; [exact Hss1| |].
        -- constructor; [exact Hss4|]. rewrite Forall_forall. intros y Hy. apply (kle_key_l _ _ _ K). apply Hcur_le. right. exact Hy.
        -- intros x y Hx [<-|Hy]; [apply (kle_key_r _ _ _ K); apply Hss12; [exact Hx|left; reflexivity]|apply Hss12; [exact Hx|right; right; exact Hy]].
      * intros d Hd Hda. apply (key_class_r _ _ _ K) in Hda. destruct (HE d Hd Hda) as [G1 G2]. rewrite Ks, Kl. auto.
      * rewrite expand_app in HF |- *. apply NoDup_app_iff in HF as (F1 & F2 & F3). apply NoDup_app_iff.
        split; [exact F1|]. split; [cbn [expand flat_map]; rewrite app_nil_r; apply range_NoDup|].
        intros x Hx Hxa. cbn [expand flat_map] in Hxa. rewrite app_nil_r in Hxa. apply Hnames in Hxa as [Hxc|Hxb].
        -- apply (F3 x Hx). cbn [expand flat_map]. rewrite app_nil_r. exact Hxc.
        -- apply in_expand in Hx as (d & Hd & Hxd). apply in_rev2 in Hd.
           assert (Hd' : In d (rev done ++ cur :: b :: rest)) by (apply in_or_app; left; apply in_rev1; exact Hd).
           destruct (classic_same_class d b) as [Hdb|Hdb].
           ++ assert (Hdc : same_class d cur) by (eapply same_class_trans; [exact Hdb|apply same_class_sym; exact Hc]).
              destruct (HE d Hd Hdc) as [G1 G2]. pose proof (kle_same_lo cur b Hk Hc).
              assert (Gd : single d = false) by (destruct Hdc as [_ Hs]; congruence).
              apply (disjoint_gap d b Hdb (Hun _ _ Hd' Hin_b Hdb) Gd ltac:(lia) x Hxd Hxb).
           ++ apply (Hcd d b Hd' Hin_b Hdb x Hxd Hxb).
      * (* assemble *)
        assert (Hlen2 : Z.of_nat (length (expand (rev done ++ cur :: b :: rest))) =
                        (Z.of_nat (length (expand (rev done ++ a' :: rest))) + nd)%Z).
        { rewrite !expand_app, !expand_cons, !app_length. fold (cnt cur) (cnt b) (cnt a'). lia. }
        exists l'. split; [rewrite Hres; f_equal; lia|]. split; [exact Hsl|]. split; [exact Hnd'|].
        split; [|lia]. intros x. rewrite Hin_l. rewrite !expand_app, !expand_cons, !in_app_iff. rewrite Hnames. tauto.
Qed.

(* ---------- what qsort guarantees: sorted neighbours, hence sorted pairs ---------- *)
Lemma sorted_kle l : Forall small l -> uniform l -> sorted_by_cmp l = true -> StronglySorted kle l.
Proof.
  intros Hsm Hun Hs. apply Sorted_StronglySorted; [intros x y z; apply kle_trans|].
  induction l as [|a l IH]; [constructor|].
  inversion Hsm as [|? ? Ha Hl]; subst.
  assert (Hun' : uniform l) by (intros x y Hx Hy; apply Hun; right; auto).
  destruct l as [|b l']; [repeat constructor|].
  cbn [sorted_by_cmp] in Hs. apply andb_true_iff in Hs as [H1 H2].
  constructor; [apply IH; auto|]. constructor.
  inversion Hl as [|? ? Hb _]; subst.
  apply (cmp_kle a b Ha Hb); [apply Hun; cbn; auto|lia].
Qed.

(* ---------- the oracle relation: a rearrangement that keeps every range's names ---------- *)
From Coq Require Import Permutation.

Lemma hr_same_hosts a b : hr_same a b = true -> range_hosts a = range_hosts b.
Proof.
  unfold hr_same. rewrite !andb_true_iff. intros ((((Hp & Hl) & Hh) & Hs) & Hw).
  apply beq_eq in Hp. apply N.eqb_eq in Hl. apply N.eqb_eq in Hh. apply Bool.eqb_prop in Hs. apply Nat.eqb_eq in Hw.
  unfold range_hosts. rewrite Hp, Hl, Hh, Hs. destruct (single b); [reflexivity|].
  apply map_ext_in. intros x Hx. apply count_up_In in Hx. f_equal. apply fmt_width_eq.
  rewrite <- Hl in Hw. pose proof (ndigits_mono (lo a) x ltac:(lia)). lia.
Qed.

Lemma remove_same_split x l l' : remove_same x l = Some l' ->
  exists y l1 l2, l = l1 ++ y :: l2 /\ l' = l1 ++ l2 /\ hr_same x y = true.
Proof.
  revert l'. induction l as [|y t IH]; intros l' H; cbn [remove_same] in H; [discriminate|].
  destruct (hr_same x y) eqn:E.
  - injection H as <-. exists y, [], t. auto.
  - destruct (remove_same x t) as [t'|] eqn:Et; [|discriminate]. injection H as <-.
    destruct (IH t' eq_refl) as (z & l1 & l2 & -> & -> & Hz). exists z, (y :: l1), l2. auto.
Qed.

Lemma rearranged_perm sorted : forall l, rearranged sorted l = true -> Permutation (expand sorted) (expand l).
Proof.
  induction sorted as [|x t IH]; intros l H; cbn [rearranged] in H.
  - destruct l; [constructor|discriminate].
  - destruct (remove_same x l) as [l'|] eqn:E; [|discriminate].
    destruct (remove_same_split _ _ _ E) as (y & l1 & l2 & -> & -> & Hxy).
    rewrite expand_cons, (hr_same_hosts _ _ Hxy), !expand_app, expand_cons.
    rewrite (IH _ H), expand_app. apply Permutation_app_swap_app.
Qed.

(* ---------- hostlist_uniq on a uniform list ---------- *)
Theorem uniq_uniform m sorted m' :
  st_inv m -> Forall small sorted -> uniform sorted -> class_disjoint sorted -> sorted_by_cmp sorted = true ->
  st_uniq m sorted = ROk m' ->
  st_inv m' /\ uniq_spec (st_names m) (st_names m') /\
  (length (st_ranges m) <= 1 \/ Forall (fun o => o = None \/ o = Some (it_reset (st_ranges m'))) (st_iters m')).
Proof.
  intros (Hok & Hnh & Hmax) Hsm Hun Hcd Hsrt H. unfold st_uniq in H.
  assert (Hnames : forall s, Forall hr_ok2 (st_ranges s) -> st_names s = expand (st_ranges s)).
  { intros s Hs. unfold st_names. apply iter_all_expand. apply ok2_all_ok; auto. }
  destruct (st_ranges m) as [|r0 [|r1 rs]] eqn:El.
  - injection H as <-. split; [split; [rewrite El; constructor|rewrite El; auto]|].
    rewrite Hnames by (rewrite El; constructor). rewrite El. split; [split; [constructor|tauto]|left; cbn; lia].
  - injection H as <-. split; [split; [rewrite El; exact Hok|rewrite El; auto]|].
    rewrite Hnames by (rewrite El; exact Hok). rewrite El. cbn [expand flat_map]. rewrite app_nil_r.
    split; [split; [apply range_NoDup|tauto]|left; cbn; lia].
  - rewrite <- El in *. destruct (rearranged sorted (st_ranges m)) eqn:Er; cbn [negb] in H; [|discriminate].
    destruct sorted as [|a rest]; [discriminate|].
    pose proof (rearranged_perm _ _ Er) as Hperm.
    pose proof (sorted_kle _ Hsm Hun Hsrt) as Hss.
    destruct (join_loop_ok rest [] a (st_nhosts m) Hsm Hun Hcd Hss ltac:(intros ? []) ltac:(cbn [rev app expand flat_map]; rewrite app_nil_r; apply range_NoDup))
      as (l' & Hj & Hsl & Hnd & Hin & Hlen).
    cbn [rev app] in *. rewrite Hj in H. injection H as <-.
    assert (Hok' : Forall hr_ok2 l') by (eapply Forall_impl; [|exact Hsl]; intros r [Hr _]; exact Hr).
    pose proof (Permutation_length Hperm) as Hpl.
    split; [split; [exact Hok'|cbn [st_nhosts st_ranges]; rewrite ?expand_cons in *; lia]|].
    rewrite (Hnames m Hok). rewrite Hnames by (cbn [st_ranges]; exact Hok'). cbn [st_ranges st_iters].
    split; [split; [exact Hnd|]|].
    + intros x. rewrite Hin. split; intros Hx; [eapply Permutation_in; [exact Hperm|exact Hx]|eapply Permutation_in; [apply Permutation_sym; exact Hperm|exact Hx]].
    + right. unfold map_iters. rewrite Forall_forall. intros o Ho. apply in_map_iff in Ho as ([it|] & <- & _); cbn; auto.
Qed.

(* the hypotheses hold for ordinary lists: two prefixes, overlapping and adjacent ranges, a repeated single host *)
Definition uniq_demo : list hr :=
  [mkhr [97]%N 1 5 1 false; mkhr [97]%N 3 8 1 false; mkhr [97]%N 9 9 1 false; mkhr [98]%N 2 2 1 false;
   mkhr [120]%N 0 0 0 true; mkhr [120]%N 0 0 0 true].

Lemma uniq_demo_ok : Forall small uniq_demo /\ uniform uniq_demo /\ class_disjoint uniq_demo /\ sorted_by_cmp uniq_demo = true.
Proof.
  split; [repeat constructor; vm_compute; intuition discriminate|].
  split; [|split; [|vm_compute; reflexivity]].
  - intros x y Hx Hy [Hp Hs]. unfold uniq_demo in Hx, Hy. cbn [In] in Hx, Hy.
    repeat (destruct Hx as [<-|Hx]); try contradiction; repeat (destruct Hy as [<-|Hy]); try contradiction;
      try reflexivity; cbn in Hp, Hs; discriminate.
  - intros x y Hx Hy Hn z Hzx Hzy. unfold uniq_demo in Hx, Hy. cbn [In] in Hx, Hy.
    repeat (destruct Hx as [<-|Hx]); try contradiction; repeat (destruct Hy as [<-|Hy]); try contradiction;
      try (apply Hn; split; reflexivity);
      vm_compute in Hzx, Hzy; intuition (subst; discriminate).
Qed.

Lemma uniq_demo_run : exists m', st_uniq (mkst uniq_demo 15 []) uniq_demo = ROk m' /\
  st_names m' = [[97; 49]; [97; 50]; [97; 51]; [97; 52]; [97; 53]; [97; 54]; [97; 55]; [97; 56]; [97; 57]; [98; 50]; [120]]%N /\ st_count m' = 11%Z.
Proof. eexists. split; [vm_compute; reflexivity|]. split; vm_compute; reflexivity. Qed.
