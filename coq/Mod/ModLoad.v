(* C17 model, part 2: what mod_load_modules does with a directory listing.
   mod.c: _mod_load_dynamic_modules / _mod_load_dynamic / _mod_register / _mod_delete,
          _cmp_f, _mod_initialize_modules_by_name, _mod_initialize, mod_process_opt;
   list.c: list_prepend, list_sort (insertion sort with the "compare with the previous
          node first" short cut); opt.c: opt_register.
   The listing is an input in ENUMERATION ORDER (readdir); theorems quantify over its
   permutations.  Definitions only (executable, extracted). *)
From PV Require Import Base.Bytes Mod.ModPerm.
Local Open Scope N_scope.

(* one row of a module's option table *)
Record optdesc := { o_letter : N; o_arg : bool; o_pers : N }.

(* what dlsym finds in a module file *)
Record moddesc := {
  m_type : bytes; m_name : bytes;
  m_prio : Z;                 (* pdsh_module_priority, a C int *)
  m_pers : N;                 (* personality mask: 1 = DSH, 2 = PCP *)
  m_opts : list optdesc;
  m_init_ok : bool            (* init() >= 0 *)
}.

(* a directory entry: id stands for the file name (unique within a directory) *)
Record file := { f_id : N; f_st : fstat; f_mod : option moddesc }.

(* struct module_components: the file it came from + the description *)
Definition lmod := (N * moddesc)%type.
Definition lm_prio (m : lmod) : Z := m_prio (snd m).
Definition lm_name (m : lmod) : bytes := m_name (snd m).
Definition lm_type (m : lmod) : bytes := m_type (snd m).

Definition pers_match (a b : N) : bool := negb (N.land a b =? 0).

Definition same_tn (a b : lmod) : bool := beq (lm_type a) (lm_type b) && beq (lm_name a) (lm_name b).

(* ---- _mod_register (personality filter first, then the duplicate rule) ---- *)
Definition register (pers : N) (L : list lmod) (m : lmod) : list lmod * bool :=
  if negb (pers_match (m_pers (snd m)) pers) then (L, false)
  else match find (same_tn m) L with
       | Some prev =>
           if (lm_prio m >? lm_prio prev)%Z
           then (m :: filter (fun x => negb (same_tn m x)) L, true)     (* _mod_delete + list_prepend *)
           else (L, false)
       | None => (m :: L, true)
       end.

(* the order of the two tests before the repair fixes/C17-register-personality-first.diff:
   the duplicate is deleted BEFORE the personality of the newcomer is looked at *)
Definition register_orig (pers : N) (L : list lmod) (m : lmod) : list lmod * bool :=
  match find (same_tn m) L with
  | Some prev =>
      if (lm_prio m >? lm_prio prev)%Z
      then let L' := filter (fun x => negb (same_tn m x)) L in
           if pers_match (m_pers (snd m)) pers then (m :: L', true) else (L', false)
      else (L, false)
  | None => if pers_match (m_pers (snd m)) pers then (m :: L, true) else (L, false)
  end.

(* ---- the readdir loop ---- *)
Record scan := { sc_list : list lmod; sc_count : nat; sc_opened : list N }.

Definition load_step (reg : N -> list lmod -> lmod -> list lmod * bool) (w : who) (pers : N) (s : scan) (f : file) : scan :=
  if negb (file_ok w (f_st f)) then s
  else let opened := sc_opened s ++ [f_id f] in                         (* dlopen *)
       match f_mod f with
       | None => {| sc_list := sc_list s; sc_count := sc_count s; sc_opened := opened |}
       | Some d =>
           let '(L, ok) := reg pers (sc_list s) (f_id f, d) in
           {| sc_list := L; sc_count := if ok then S (sc_count s) else sc_count s; sc_opened := opened |}
       end.

Definition scan_dir reg (w : who) (pers : N) (listing : list file) : scan :=
  fold_left (load_step reg w pers) listing {| sc_list := []; sc_count := O; sc_opened := [] |}.

(* ---- _cmp_f ---- *)
(* sign of strcmp on unsigned bytes *)
Fixpoint strcmp (a b : bytes) : Z :=
  match a, b with
  | [], [] => 0%Z
  | [], _ :: _ => (-1)%Z
  | _ :: _, [] => 1%Z
  | x :: a', y :: b' => if x =? y then strcmp a' b' else if x <? y then (-1)%Z else 1%Z
  end.

(* int subtraction as the machine does it (two's complement wrap) *)
Definition wrap32 (z : Z) : Z := ((z + 2147483648) mod 4294967296 - 2147483648)%Z.

Definition cmp_f (x y : lmod) : Z :=
  if (lm_prio x =? lm_prio y)%Z then strcmp (lm_name x) (lm_name y)
  else wrap32 (lm_prio y - lm_prio x).

(* ---- list_sort ---- *)
(* walk from the head while f(x, pos) >= 0, insert before the first pos with f(x, pos) < 0 *)
Fixpoint ins (x : lmod) (l : list lmod) : list lmod :=
  match l with
  | [] => [x]
  | y :: t => if (cmp_f x y <? 0)%Z then x :: y :: t else y :: ins x t
  end.

Definition sort_step (acc : list lmod) (x : lmod) : list lmod :=
  match acc with
  | [] => [x]
  | _ => if (cmp_f x (last acc x) <? 0)%Z then ins x acc else acc ++ [x]
  end.

Definition list_sort (l : list lmod) : list lmod := fold_left sort_step l [].

(* ---- opt_register + init ---- *)
Record lstate := {
  s_opts : bytes;                    (* pdsh_options *)
  s_active : list N;                 (* ids with initialized = 1 *)
  s_inits : list N;                  (* init() calls in order *)
  s_regs : list (N * N * bool);      (* (id, letter, takes argument) in registration order *)
  s_conf : list (N * N * bytes)      (* refused registrations: (id, letter in use, option string then) *)
}.

Definition my_opts (pers : N) (d : moddesc) : list optdesc :=
  filter (fun o => pers_match (o_pers o) pers) (m_opts d).

Definition first_conflict (pers : N) (opts : bytes) (d : moddesc) : option N :=
  option_map o_letter (find (fun o => mem (o_letter o) opts) (my_opts pers d)).

Definition opt_bytes (o : optdesc) : bytes := if o_arg o then [o_letter o; c_colon] else [o_letter o].

Definition add_active (i : N) (a : list N) : list N := if mem i a then a else a ++ [i].

Definition mod_initialize (pers : N) (st : lstate) (m : lmod) : lstate :=
  match first_conflict pers (s_opts st) (snd m) with
  | Some c => {| s_opts := s_opts st; s_active := s_active st; s_inits := s_inits st; s_regs := s_regs st;
                 s_conf := s_conf st ++ [(fst m, c, s_opts st)] |}
  | None =>
      let mine := my_opts pers (snd m) in
      {| s_opts := s_opts st ++ flat_map opt_bytes mine;
         s_active := if m_init_ok (snd m) then add_active (fst m) (s_active st) else s_active st;
         s_inits := s_inits st ++ [fst m];
         s_regs := s_regs st ++ map (fun o => (fst m, o_letter o, o_arg o)) mine;
         s_conf := s_conf st |}
  end.

Definition misc_type : bytes := [109; 105; 115; 99].   (* "misc" *)

Definition find_misc (L : list lmod) (name : bytes) : option lmod :=
  find (fun m => beq (lm_type m) misc_type && beq (lm_name m) name) L.

Definition init_by_name (pers : N) (L : list lmod) (st : lstate) (name : bytes) : lstate :=
  match find_misc L name with Some m => mod_initialize pers st m | None => st end.

Definition init_state (base : bytes) : lstate :=
  {| s_opts := base; s_active := []; s_inits := []; s_regs := []; s_conf := [] |}.

Definition init_forced (pers : N) (forced : list bytes) (L : list lmod) (base : bytes) : lstate :=
  fold_left (init_by_name pers L) forced (init_state base).

(* forced names first, then every module of the sorted list (again) *)
Definition init_all (pers : N) (forced : list bytes) (L : list lmod) (base : bytes) : lstate :=
  fold_left (mod_initialize pers) L (init_forced pers forced L base).

(* ---- mod_process_opt: first ACTIVE module of the list whose table has the letter ---- *)
Definition has_letter (c : N) (d : moddesc) : bool := existsb (fun o => o_letter o =? c) (m_opts d).

Definition dispatch (L : list lmod) (active : list N) (c : N) : option N :=
  option_map fst (find (fun m => mem (fst m) active && has_letter c (snd m)) L).

(* ---- the whole of mod_load_modules, as main() sees it ---- *)
Inductive status := Refused | NoModules | Loaded.

Record config := {
  c_who : who; c_pers : N;
  c_base : bytes;              (* GEN_ARGS ++ DSH_ARGS | PCP_ARGS *)
  c_forced : list bytes;       (* -M / PDSH_MISC_MODULES, split at commas *)
  c_chain : list dstat         (* module directory, parent, ..., "/" *)
}.

Record result := {
  r_status : status;
  r_opened : list N;           (* files handed to dlopen, in order *)
  r_modules : list lmod;       (* module_list after list_sort *)
  r_state : lstate
}.

Definition load_with reg (cfg : config) (listing : list file) : result :=
  if negb (path_permissions_ok (c_who cfg) (c_chain cfg))
  then {| r_status := Refused; r_opened := []; r_modules := []; r_state := init_state (c_base cfg) |}
  else let s := scan_dir reg (c_who cfg) (c_pers cfg) listing in
       match sc_count s with
       | O => {| r_status := NoModules; r_opened := sc_opened s; r_modules := []; r_state := init_state (c_base cfg) |}
       | _ => let L := list_sort (sc_list s) in
              {| r_status := Loaded; r_opened := sc_opened s; r_modules := L;
                 r_state := init_all (c_pers cfg) (c_forced cfg) L (c_base cfg) |}
       end.

Definition load := load_with register.
Definition load_orig := load_with register_orig.

Definition r_active (r : result) : list N := s_active (r_state r).
Definition r_inits (r : result) : list N := s_inits (r_state r).
Definition r_optstr (r : result) : bytes := s_opts (r_state r).
Definition r_regs (r : result) := s_regs (r_state r).
Definition r_dispatch (r : result) (c : N) : option N := dispatch (r_modules r) (r_active r) c.
