(* C17 proofs, part 2: option registration and initialisation (opt_register, _mod_initialize,
   the forced -M pass, mod_process_opt). *)
From Coq Require Import Permutation Sorted.
From PV Require Import Base.Bytes Mod.ModPerm Mod.ModLoad Mod.ModFacts.
Local Open Scope N_scope.

(* a run of _mod_initialize calls *)
Definition run (pers : N) (ms : list lmod) (st : lstate) : lstate := fold_left (mod_initialize pers) ms st.

(* subsequence *)
Inductive subseq {A : Type} : list A -> list A -> Prop :=
| sub_nil l : subseq [] l
| sub_skip x s l : subseq s l -> subseq s (x :: l)
| sub_take x s l : subseq s l -> subseq (x :: s) (x :: l).

Lemma subseq_in {A} (s l : list A) : subseq s l -> forall x, In x s -> In x l.
Proof. induction 1; intros y Hy; [destruct Hy|right; auto|destruct Hy as [<-|Hy]; [left|right]; auto]. Qed.

(* ------------------------------------------------------------------ what one call does *)
Lemma first_conflict_none pers opts d :
  first_conflict pers opts d = None <-> forall o, In o (my_opts pers d) -> ~ In (o_letter o) opts.
Proof.
  unfold first_conflict. destruct (find _ _) as [o|] eqn:E; cbn.
  - split; [discriminate|]. intro H. apply find_some in E as [Ho Hm]. apply mem_In in Hm. exfalso. eapply H; eauto.
  - split; auto. intros _ o Ho Hin. rewrite find_none_iff in E. specialize (E o Ho). apply mem_In in Hin. congruence.
Qed.

Lemma first_conflict_some pers opts d c :
  first_conflict pers opts d = Some c -> exists o, In o (my_opts pers d) /\ o_letter o = c /\ In c opts.
Proof.
  unfold first_conflict. destruct (find _ _) as [o|] eqn:E; cbn; [|discriminate].
  intro H. injection H as <-. apply find_some in E as [Ho Hm]. apply mem_In in Hm. eauto.
Qed.

Lemma in_add_active i x a : In i (add_active x a) <-> i = x \/ In i a.
Proof.
  unfold add_active. destruct (mem x a) eqn:E.
  - apply mem_In in E. split; [auto|intros [->|]; auto].
  - rewrite in_app_iff. cbn. intuition.
Qed.

Lemma in_opt_bytes o : In (o_letter o) (opt_bytes o).
Proof. unfold opt_bytes. destruct (o_arg o); left; auto. Qed.

(* the pieces of the state only ever grow at the end *)
Lemma init_step_grows pers st m :
  let st' := mod_initialize pers st m in
  (exists t, s_opts st' = s_opts st ++ t) /\
  (exists t, s_inits st' = s_inits st ++ t /\ (t = [] \/ t = [fst m])) /\
  (exists t, s_regs st' = s_regs st ++ t /\ forall x, In x t -> fst (fst x) = fst m) /\
  (forall i, In i (s_active st) -> In i (s_active st')) /\
  (forall i, In i (s_active st') -> In i (s_active st) \/ i = fst m).
Proof.
  cbn zeta. unfold mod_initialize. destruct (first_conflict pers (s_opts st) (snd m)); cbn.
  - split; [exists []; now rewrite app_nil_r|].
    split; [exists []; rewrite app_nil_r; auto|].
    split; [exists []; rewrite app_nil_r; split; auto; intros x []|].
    split; auto.
  - split; [eexists; reflexivity|].
    split; [exists [fst m]; auto|].
    split.
    + eexists; split; [reflexivity|]. intros x Hx. apply in_map_iff in Hx as (o & <- & _). reflexivity.
    + split.
      * intros i Hi. destruct (m_init_ok (snd m)); auto. apply in_add_active; auto.
      * intros i Hi. destruct (m_init_ok (snd m)); auto. apply in_add_active in Hi. tauto.
Qed.

Lemma run_inits pers ms : forall st, exists t, s_inits (run pers ms st) = s_inits st ++ t /\ subseq t (map fst ms).
Proof.
  induction ms as [|m ms IH]; intro st; cbn [run fold_left map].
  - exists []. rewrite app_nil_r. split; auto. constructor.
  - destruct (IH (mod_initialize pers st m)) as (t & Ht & Hs). fold (run pers ms (mod_initialize pers st m)).
    destruct (init_step_grows pers st m) as (_ & (u & Hu & Hcase) & _).
    exists (u ++ t). unfold run in *. rewrite Ht, Hu, <- app_assoc. split; auto.
    destruct Hcase as [->| ->]; cbn; [apply sub_skip|apply sub_take]; auto.
Qed.

Lemma run_active_mono pers ms : forall st i, In i (s_active st) -> In i (s_active (run pers ms st)).
Proof.
  induction ms as [|m ms IH]; intros st i H; cbn; auto.
  apply IH. apply (init_step_grows pers st m); auto.
Qed.

Lemma run_regs_mono pers ms : forall st x, In x (s_regs st) -> In x (s_regs (run pers ms st)).
Proof.
  induction ms as [|m ms IH]; intros st x H; cbn; auto.
  apply IH. destruct (init_step_grows pers st m) as (_ & _ & (t & Ht & _) & _). rewrite Ht. apply in_or_app; auto.
Qed.

Lemma run_inits_prefix pers ms st : exists t, s_inits (run pers ms st) = s_inits st ++ t.
Proof. destruct (run_inits pers ms st) as (t & H & _). eauto. Qed.

(* ------------------------------------------------------------------ the registration invariant *)
(* U: the modules that can be handed to _mod_initialize (the module list); ids identify them *)
Definition ids_unique (U : list lmod) : Prop := forall a b, In a U -> In b U -> fst a = fst b -> a = b.

Record init_inv (pers : N) (U : list lmod) (st : lstate) : Prop := {
  ii_opts : forall i c a, In (i, c, a) (s_regs st) -> In c (s_opts st);
  ii_owns : forall i, In i (s_inits st) -> exists m, In m U /\ fst m = i /\
            forall o, In o (my_opts pers (snd m)) -> In (i, o_letter o, o_arg o) (s_regs st);
  ii_regs : forall i c a, In (i, c, a) (s_regs st) -> In i (s_inits st);
  ii_owner : forall i j c a b, In (i, c, a) (s_regs st) -> In (j, c, b) (s_regs st) -> i = j;
  ii_active : forall i, In i (s_active st) -> In i (s_inits st)
}.

Lemma init_inv_start pers U base : init_inv pers U (init_state base).
Proof. split; cbn; intros; try tauto. Qed.

Lemma init_step_inv pers U st m : In m U -> init_inv pers U st -> init_inv pers U (mod_initialize pers st m).
Proof.
  intros HmU [Ho Hw Hr Hx Ha]. unfold mod_initialize.
  destruct (first_conflict pers (s_opts st) (snd m)) as [c|] eqn:E.
  - split; cbn; auto.
  - rewrite first_conflict_none in E.
    split; cbn.
    + intros i c a H. apply in_app_or in H as [H|H]; apply in_or_app; [left; eauto|right].
      apply in_map_iff in H as (o & Heq & Hin). injection Heq as _ <- _.
      apply in_flat_map. exists o. split; auto. apply in_opt_bytes.
    + intros i H. apply in_app_or in H as [H|[<-|[]]].
      * destruct (Hw i H) as (m' & Hm' & Hf & Hall). exists m'. repeat split; auto.
        intros o Hoin. apply in_or_app; left; auto.
      * exists m. repeat split; auto. intros o Hoin. apply in_or_app; right.
        apply in_map_iff. exists o. auto.
    + intros i c a H. apply in_app_or in H as [H|H]; apply in_or_app; [left; eauto|right].
      apply in_map_iff in H as (o & Heq & _). injection Heq as <- _ _. left; auto.
    + intros i j c a b H1 H2. apply in_app_or in H1 as [H1|H1]; apply in_app_or in H2 as [H2|H2].
      * eauto.
      * apply in_map_iff in H2 as (o & Heq & Hin). injection Heq as _ <- _. exfalso. eapply E; eauto.
      * apply in_map_iff in H1 as (o & Heq & Hin). injection Heq as _ <- _. exfalso. eapply E; eauto.
      * apply in_map_iff in H1 as (o1 & Heq1 & _). apply in_map_iff in H2 as (o2 & Heq2 & _).
        injection Heq1 as <- _ _. injection Heq2 as <- _ _. reflexivity.
    + intros i H. apply in_or_app. destruct (m_init_ok (snd m)); [|left; auto].
      apply in_add_active in H as [->|H]; [right; left|left]; auto.
Qed.

Lemma run_inv pers U ms : forall st, (forall m, In m ms -> In m U) -> init_inv pers U st -> init_inv pers U (run pers ms st).
Proof.
  induction ms as [|m ms IH]; intros st H I; cbn; auto.
  apply IH; [intros; apply H; right; auto|]. apply init_step_inv; auto. apply H; left; auto.
Qed.

(* ------------------------------------------------------------------ the forced pass is a run over modules of the list *)
Lemma find_misc_in L name m : find_misc L name = Some m -> In m L /\ lm_type m = misc_type /\ lm_name m = name.
Proof.
  unfold find_misc. intro H. apply find_some in H as [Hin Hb]. apply andb_true_iff in Hb as [H1 H2].
  apply beq_eq in H1, H2. auto.
Qed.

(* the modules the -M names resolve to, in the order given *)
Definition resolve (L : list lmod) (forced : list bytes) : list lmod :=
  flat_map (fun n => match find_misc L n with Some m => [m] | None => [] end) forced.

Lemma init_forced_run pers forced L : forall st,
  fold_left (init_by_name pers L) forced st = run pers (resolve L forced) st.
Proof.
  induction forced as [|n forced IH]; intro st; cbn [fold_left resolve flat_map]; [reflexivity|].
  rewrite IH. unfold run. rewrite fold_left_app. unfold init_by_name.
  destruct (find_misc L n); reflexivity.
Qed.

Lemma resolve_in L forced m : In m (resolve L forced) -> In m L /\ exists n, In n forced /\ find_misc L n = Some m.
Proof.
  unfold resolve. rewrite in_flat_map. intros (n & Hn & Hm).
  destruct (find_misc L n) as [m'|] eqn:E; [|destruct Hm]. destruct Hm as [<-|[]].
  split; [apply (find_misc_in _ _ _ E)|eauto].
Qed.

Theorem init_all_run pers forced L base :
  init_all pers forced L base = run pers (resolve L forced ++ L) (init_state base).
Proof.
  unfold init_all, init_forced. rewrite init_forced_run. unfold run. now rewrite fold_left_app.
Qed.

Theorem init_all_inv pers forced L base : init_inv pers L (init_all pers forced L base).
Proof.
  rewrite init_all_run. apply run_inv; [|apply init_inv_start].
  intros m H. apply in_app_or in H as [H|H]; auto. apply (resolve_in _ _ _ H).
Qed.

(* an option is only ever dispatched to an active module *)
Theorem dispatch_active L active c i : dispatch L active c = Some i -> In i active.
Proof.
  unfold dispatch. destruct (find (fun m => mem (fst m) active && has_letter c (snd m)) L) as [y|] eqn:E; [|discriminate]. cbn. intro H. injection H as <-.
  apply find_some in E as [_ Hb]. apply andb_true_iff in Hb as [Hb _]. apply mem_In in Hb. auto.
Qed.

(* ------------------------------------------------------------------ conflict: the whole module stays out *)
Theorem conflict_whole_module pers forced L base m o x a :
  ids_unique L -> In m L -> In o (my_opts pers (snd m)) ->
  In (x, o_letter o, a) (s_regs (init_all pers forced L base)) -> x <> fst m ->
  let st := init_all pers forced L base in
  ~ In (fst m) (s_inits st) /\ ~ In (fst m) (s_active st) /\
  (forall c b, ~ In (fst m, c, b) (s_regs st)) /\
  (forall c, dispatch L (s_active st) c <> Some (fst m)).
Proof.
  intros HU Hm Ho Hx Hne. cbn zeta. set (st := init_all pers forced L base).
  destruct (init_all_inv pers forced L base) as [Io Iw Ir Ix Ia]. fold st in Io, Iw, Ir, Ix, Ia, Hx.
  assert (Hni : ~ In (fst m) (s_inits st)).
  { intro Hi. destruct (Iw _ Hi) as (m' & Hm' & Hf & Hall).
    assert (m' = m) by (apply HU; auto). subst m'.
    apply Hne. eapply Ix; eauto. }
  assert (Hna : ~ In (fst m) (s_active st)) by (intro H; apply Hni, Ia, H).
  repeat split; auto.
  - intros c b H. apply Hni. eapply Ir; eauto.
  - intros c H. apply Hna. eapply dispatch_active; eauto.
Qed.

(* no two modules ever hold the same letter *)
Theorem one_owner_per_letter pers forced L base i j c a b :
  let st := init_all pers forced L base in
  In (i, c, a) (s_regs st) -> In (j, c, b) (s_regs st) -> i = j.
Proof. cbn zeta. apply (init_all_inv pers forced L base). Qed.

(* an inactive module whose init would succeed has left no trace at all *)
Theorem inactive_no_trace pers forced L base m :
  ids_unique L -> In m L -> m_init_ok (snd m) = true ->
  let st := init_all pers forced L base in
  ~ In (fst m) (s_active st) -> ~ In (fst m) (s_inits st) /\ forall c b, ~ In (fst m, c, b) (s_regs st).
Proof.
  intros HU Hm Hok. cbn zeta. rewrite init_all_run.
  assert (Hsub : forall y, In y (resolve L forced ++ L) -> In y L).
  { intros y H. apply in_app_or in H as [H|H]; auto. apply (resolve_in _ _ _ H). }
  revert Hsub. generalize (resolve L forced ++ L) as ms. intros ms Hsub Hna.
  assert (G : forall ms st, (forall y, In y ms -> In y L) -> init_inv pers L st ->
              (In (fst m) (s_inits st) -> In (fst m) (s_active st)) ->
              In (fst m) (s_inits (run pers ms st)) -> In (fst m) (s_active (run pers ms st))).
  { clear ms Hsub Hna. induction ms as [|y ms IH]; intros st Hs I H; cbn; auto.
    apply IH; [intros; apply Hs; right; auto|apply init_step_inv; auto; apply Hs; left; auto|].
    unfold mod_initialize. destruct (first_conflict pers (s_opts st) (snd y)); cbn; auto.
    intro Hi. apply in_app_or in Hi as [Hi|[Hy|[]]].
    - destruct (m_init_ok (snd y)); auto. apply in_add_active; auto.
    - assert (y = m) by (apply HU; auto; apply Hs; left; auto). subst y. rewrite Hok. apply in_add_active; auto. }
  assert (Hni : ~ In (fst m) (s_inits (run pers ms (init_state base)))).
  { intro Hi. apply Hna. apply G; auto using init_inv_start. }
  split; auto. intros c b H. apply Hni.
  eapply (ii_regs pers L); [apply run_inv; auto; apply init_inv_start|eauto].
Qed.

(* ------------------------------------------------------------------ the option string is the base plus what was registered *)
Definition reg_bytes (x : N * N * bool) : bytes := let '(_, c, a) := x in if a then [c; c_colon] else [c].

Lemma flat_map_app' {A B} (f : A -> list B) l1 l2 : flat_map f (l1 ++ l2) = flat_map f l1 ++ flat_map f l2.
Proof. induction l1; cbn; auto. rewrite IHl1, app_assoc. reflexivity. Qed.

Lemma run_opts pers ms : forall st base, s_opts st = base ++ flat_map reg_bytes (s_regs st) ->
  s_opts (run pers ms st) = base ++ flat_map reg_bytes (s_regs (run pers ms st)).
Proof.
  induction ms as [|m ms IH]; intros st base H; cbn; auto.
  apply IH. unfold mod_initialize. destruct (first_conflict pers (s_opts st) (snd m)); cbn; auto.
  rewrite H, flat_map_app', <- app_assoc. f_equal. f_equal.
  induction (my_opts pers (snd m)) as [|o l IHl]; cbn; auto. rewrite IHl.
  unfold opt_bytes. destruct (o_arg o); reflexivity.
Qed.

Theorem optstr_is_base_plus_regs pers forced L base :
  let st := init_all pers forced L base in s_opts st = base ++ flat_map reg_bytes (s_regs st).
Proof. cbn zeta. rewrite init_all_run. apply run_opts. cbn. now rewrite app_nil_r. Qed.

(* ------------------------------------------------------------------ -M names first *)
Theorem forced_then_sweep pers forced L base :
  exists A B, s_inits (init_all pers forced L base) = A ++ B /\
              subseq A (map fst (resolve L forced)) /\ subseq B (map fst L).
Proof.
  unfold init_all, init_forced. rewrite init_forced_run.
  destruct (run_inits pers (resolve L forced) (init_state base)) as (A & HA & SA).
  destruct (run_inits pers L (run pers (resolve L forced) (init_state base))) as (B & HB & SB).
  exists A, B. unfold run in *. rewrite HB, HA. cbn. auto.
Qed.

(* the first -M name that resolves and whose options are free gets them, is initialised before
   everything else and (if init succeeds) stays active - whatever the priorities of the others *)
Theorem forced_first pers name rest L base m :
  find_misc L name = Some m -> first_conflict pers base (snd m) = None ->
  let st := init_all pers (name :: rest) L base in
  hd_error (s_inits st) = Some (fst m) /\
  (m_init_ok (snd m) = true -> In (fst m) (s_active st)) /\
  (forall o, In o (my_opts pers (snd m)) -> In (fst m, o_letter o, o_arg o) (s_regs st)).
Proof.
  intros Hf Hc. cbn zeta. rewrite init_all_run. cbn [resolve flat_map]. rewrite Hf. cbn [app]. fold (resolve L rest).
  change (run pers (m :: resolve L rest ++ L) (init_state base))
    with (run pers (resolve L rest ++ L) (mod_initialize pers (init_state base) m)).
  set (st1 := mod_initialize pers (init_state base) m).
  assert (H1 : s_inits st1 = [fst m] /\ (m_init_ok (snd m) = true -> In (fst m) (s_active st1)) /\
               forall o, In o (my_opts pers (snd m)) -> In (fst m, o_letter o, o_arg o) (s_regs st1)).
  { unfold st1, mod_initialize. cbn [init_state s_opts]. rewrite Hc. cbn. split; [reflexivity|]. split.
    - intros ->. left; reflexivity.
    - intros o Ho. apply in_map_iff. exists o; auto. }
  destruct H1 as (Hi & Ha & Hr).
  destruct (run_inits_prefix pers (resolve L rest ++ L) st1) as (t & Ht).
  repeat split.
  - rewrite Ht, Hi. reflexivity.
  - intro Hok. apply run_active_mono; auto.
  - intros o Ho. apply run_regs_mono; auto.
Qed.
