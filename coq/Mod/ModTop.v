(* C17 proofs, part 3: the statements about load as a whole, and the witnesses. *)
From Coq Require Import Permutation Sorted.
From PV Require Import Base.Bytes Mod.ModPerm Mod.ModLoad Mod.ModFacts Mod.ModInitFacts.
Local Open Scope N_scope.

(* ------------------------------------------------------------------ the domain *)
(* D17: among the entries that can be registered (secure file, module symbols, fitting personality)
   the pair (priority, name) identifies the module, and priorities are far from INT_MIN/INT_MAX.
   It follows that two candidates of the same type and name have different priorities. *)
Definition D17 (cfg : config) (l : list file) : Prop :=
  key_unique (cands (c_who cfg) (c_pers cfg) l) /\ Forall prio_ok (cands (c_who cfg) (c_pers cfg) l).

(* same observable outcome; the order of the dlopen calls is the enumeration order itself *)
Definition same_result (r r' : result) : Prop :=
  r_status r = r_status r' /\ r_modules r = r_modules r' /\ r_state r = r_state r' /\
  Permutation (r_opened r) (r_opened r').

Lemma filter_perm {A} (f : A -> bool) l l' : Permutation l l' -> Permutation (filter f l) (filter f l').
Proof.
  induction 1; cbn; auto.
  - destruct (f x); auto.
  - destruct (f x), (f y); auto. apply perm_swap.
  - eapply perm_trans; eauto.
Qed.

Lemma reg_all_sub C m : In m (reg_all C) -> In m C.
Proof. apply (reg_all_inv C). Qed.

Lemma D17_perm cfg l l' : Permutation l l' -> D17 cfg l -> D17 cfg l'.
Proof.
  intros P [K F]. pose proof (cands_perm (c_who cfg) (c_pers cfg) _ _ P) as PC. split.
  - eapply key_unique_perm; eauto.
  - eapply Permutation_Forall; eauto.
Qed.

Theorem deterministic cfg l l' : Permutation l l' -> D17 cfg l -> same_result (load cfg l) (load cfg l').
Proof.
  intros P [K F]. unfold load, load_with.
  destruct (path_permissions_ok (c_who cfg) (c_chain cfg)); cbn [negb]; [|repeat split; auto].
  set (w := c_who cfg) in *. set (pers := c_pers cfg) in *.
  pose proof (cands_perm w pers _ _ P) as PC.
  pose proof (reg_all_perm _ _ PC K) as PR.
  assert (PO : Permutation (sc_opened (scan_dir register w pers l)) (sc_opened (scan_dir register w pers l'))).
  { rewrite !scan_dir_opened. apply Permutation_map, filter_perm, P. }
  pose proof (scan_dir_count w pers l) as C1. pose proof (scan_dir_count w pers l') as C2.
  destruct (sc_count (scan_dir register w pers l)) as [|n] eqn:E1;
    destruct (sc_count (scan_dir register w pers l')) as [|n'] eqn:E2.
  - repeat split; auto.
  - exfalso. assert (H : reg_all (cands w pers l) = []) by (apply C1; auto).
    rewrite H in PR. apply Permutation_nil in PR. apply C2 in PR. discriminate.
  - exfalso. assert (H : reg_all (cands w pers l') = []) by (apply C2; auto).
    rewrite H in PR. apply Permutation_sym, Permutation_nil in PR. apply C1 in PR. discriminate.
  - rewrite !scan_dir_list.
    assert (S : list_sort (reg_all (cands w pers l)) = list_sort (reg_all (cands w pers l'))).
    { apply list_sort_perm_eq; auto.
      - rewrite Forall_forall in *. intros m Hm. apply F, reg_all_sub, Hm.
      - intros a b Ha Hb. apply K; apply reg_all_sub; auto. }
    cbn [r_status r_modules r_state r_opened]. rewrite S. repeat split; auto.
Qed.

(* ------------------------------------------------------------------ which modules are listed, in which order *)
Lemma loaded_modules cfg l : r_status (load cfg l) = Loaded ->
  r_modules (load cfg l) = list_sort (reg_all (cands (c_who cfg) (c_pers cfg) l)) /\
  r_state (load cfg l) = init_all (c_pers cfg) (c_forced cfg) (r_modules (load cfg l)) (c_base cfg) /\
  path_permissions_ok (c_who cfg) (c_chain cfg) = true.
Proof.
  unfold load, load_with. destruct (path_permissions_ok (c_who cfg) (c_chain cfg)); cbn [negb]; [|discriminate].
  destruct (sc_count _); cbn; [discriminate|]. intros _. rewrite scan_dir_list. auto.
Qed.

Lemma in_modules cfg l m : r_status (load cfg l) = Loaded ->
  (In m (r_modules (load cfg l)) <-> In m (reg_all (cands (c_who cfg) (c_pers cfg) l))).
Proof.
  intro H. destruct (loaded_modules cfg l H) as (-> & _).
  split; apply Permutation_in; [|apply Permutation_sym]; apply list_sort_perm.
Qed.

(* listed = the best of its (type, name) among the candidates *)
Theorem listed_is_best cfg l m : r_status (load cfg l) = Loaded ->
  In m (r_modules (load cfg l)) -> best_of (cands (c_who cfg) (c_pers cfg) l) m.
Proof.
  intros H Hm. apply in_modules in Hm; auto.
  destruct (reg_all_inv (cands (c_who cfg) (c_pers cfg) l)) as [Hs Hd Ho Hn].
  split; auto. intros m' Hm' Htn.
  destruct (Hd m' Hm') as (x & Hx & Htx & Hle).
  assert (m = x) by (apply Ho; auto; apply same_tn_trans with m'; auto). subst x. auto.
Qed.

Theorem best_is_listed cfg l m : r_status (load cfg l) = Loaded -> D17 cfg l ->
  best_of (cands (c_who cfg) (c_pers cfg) l) m -> In m (r_modules (load cfg l)).
Proof. intros H [K _] B. apply in_modules; auto. apply reg_all_spec; auto. Qed.

(* of two candidates with the same type and name the one with the lower priority is not even listed *)
Theorem duplicate_priority cfg l a b :
  let C := cands (c_who cfg) (c_pers cfg) l in
  In a C -> In b C -> same_tn a b = true -> (lm_prio a < lm_prio b)%Z ->
  ~ In a (r_modules (load cfg l)).
Proof.
  cbn zeta. intros Ha Hb Htn Hlt Hin.
  assert (H : r_status (load cfg l) = Loaded).
  { unfold load, load_with in *. destruct (path_permissions_ok _ _); cbn [negb] in *; [|destruct Hin].
    destruct (sc_count _); cbn in *; [destruct Hin|reflexivity]. }
  destruct (listed_is_best cfg l a H Hin) as [_ Hmax]. specialize (Hmax b Hb Htn). lia.
Qed.

Theorem modules_sorted cfg l : D17 cfg l -> StronglySorted mod_le (r_modules (load cfg l)).
Proof.
  intros [K F]. unfold load, load_with.
  destruct (path_permissions_ok _ _); cbn [negb]; [|constructor].
  destruct (sc_count _) eqn:E; cbn; [constructor|]. rewrite scan_dir_list.
  apply list_sort_sorted. rewrite Forall_forall in *. intros m Hm. apply F, reg_all_sub, Hm.
Qed.

Lemma modules_ids_unique cfg l : NoDup (map f_id l) -> ids_unique (r_modules (load cfg l)).
Proof.
  intros ND a b Ha Hb Hab.
  assert (H : r_status (load cfg l) = Loaded).
  { unfold load, load_with in *. destruct (path_permissions_ok _ _); cbn [negb] in *; [|destruct Ha].
    destruct (sc_count _); cbn in *; [destruct Ha|reflexivity]. }
  apply in_modules, reg_all_sub, in_cands in Ha; auto. apply in_modules, reg_all_sub, in_cands in Hb; auto.
  destruct Ha as (f & Hf & Hfi & Hfm & _). destruct Hb as (g & Hg & Hgi & Hgm & _).
  assert (f = g).
  { assert (E : f_id f = f_id g) by congruence. clear - ND Hf Hg E.
    induction l as [|x l IH]; [destruct Hf|]. cbn in ND. inversion ND as [|? ? Hn ND']; subst.
    destruct Hf as [->|Hf], Hg as [->|Hg]; auto.
    - exfalso. apply Hn. rewrite E. apply in_map; auto.
    - exfalso. apply Hn. rewrite <- E. apply in_map; auto. }
  subst g. destruct a, b; cbn in *. congruence.
Qed.

(* ------------------------------------------------------------------ conflict, stated on load *)
Theorem load_conflict_whole_module cfg l m o x a :
  let r := load cfg l in
  NoDup (map f_id l) -> In m (r_modules r) -> In o (my_opts (c_pers cfg) (snd m)) ->
  In (x, o_letter o, a) (r_regs r) -> x <> fst m ->
  ~ In (fst m) (r_inits r) /\ ~ In (fst m) (r_active r) /\
  (forall c b, ~ In (fst m, c, b) (r_regs r)) /\ (forall c, r_dispatch r c <> Some (fst m)).
Proof.
  cbn zeta. intros ND Hm Ho Hx Hne.
  assert (H : r_status (load cfg l) = Loaded).
  { unfold load, load_with in *. destruct (path_permissions_ok _ _); cbn [negb] in *; [|destruct Hm].
    destruct (sc_count _); cbn in *; [destruct Hm|reflexivity]. }
  destruct (loaded_modules cfg l H) as (_ & Hst & _).
  unfold r_dispatch, r_inits, r_active, r_regs in *. rewrite Hst in *.
  exact (conflict_whole_module (c_pers cfg) (c_forced cfg) (r_modules (load cfg l)) (c_base cfg) m o x a
           (modules_ids_unique cfg l ND) Hm Ho Hx Hne).
Qed.

Theorem load_forced_first cfg l name rest m :
  let r := load cfg l in
  r_status r = Loaded -> c_forced cfg = name :: rest ->
  find_misc (r_modules r) name = Some m -> first_conflict (c_pers cfg) (c_base cfg) (snd m) = None ->
  hd_error (r_inits r) = Some (fst m) /\
  (m_init_ok (snd m) = true -> In (fst m) (r_active r)) /\
  (forall o, In o (my_opts (c_pers cfg) (snd m)) -> In (fst m, o_letter o, o_arg o) (r_regs r)).
Proof.
  cbn zeta. intros H Hf Hfind Hc. destruct (loaded_modules cfg l H) as (_ & Hst & _).
  unfold r_inits, r_active, r_regs. rewrite Hst, Hf.
  exact (forced_first (c_pers cfg) name rest (r_modules (load cfg l)) (c_base cfg) m Hfind Hc).
Qed.

Theorem load_forced_then_sweep cfg l :
  let r := load cfg l in
  exists A B, r_inits r = A ++ B /\
    subseq A (map fst (resolve (r_modules r) (c_forced cfg))) /\ subseq B (map fst (r_modules r)).
Proof.
  cbn zeta. destruct (r_status (load cfg l)) eqn:H.
  - exists [], []. unfold load, load_with, r_inits in *. destruct (path_permissions_ok _ _); cbn [negb] in *.
    + destruct (sc_count _); discriminate.
    + cbn. repeat split; constructor.
  - exists [], []. unfold load, load_with, r_inits in *. destruct (path_permissions_ok _ _); cbn [negb] in *; [|discriminate].
    destruct (sc_count _); [|discriminate]. cbn. repeat split; constructor.
  - destruct (loaded_modules cfg l H) as (_ & Hst & _). unfold r_inits. rewrite Hst. apply forced_then_sweep.
Qed.

(* ------------------------------------------------------------------ no insecure code *)
Definition trusted_owner (w : who) (o : N) : Prop := o = 0 \/ o = w_uid w \/ o = w_alt w.
Definition file_secure (w : who) (st : fstat) : Prop :=
  f_reg st = true /\ trusted_owner w (f_owner st) /\ world_writable (f_mode st) = false.
Definition dir_secure (w : who) (st : dstat) : Prop :=
  d_isdir st = true /\ trusted_owner w (d_owner st) /\ (world_writable (d_mode st) = true -> sticky (d_mode st) = true).

Lemma owner_ok_iff w o : owner_ok w o = true <-> trusted_owner w o.
Proof. unfold owner_ok, trusted_owner. rewrite !orb_true_iff, !N.eqb_eq. tauto. Qed.

Lemma file_ok_iff w st : file_ok w st = true <-> file_secure w st.
Proof.
  unfold file_ok, file_secure. rewrite !andb_true_iff, owner_ok_iff, negb_true_iff. tauto.
Qed.

Lemma dir_ok_iff w st : dir_ok w st = true <-> dir_secure w st.
Proof.
  unfold dir_ok, dir_permission_error, dir_secure.
  destruct (d_isdir st); cbn [negb]; [|split; [discriminate|intros [? _]; discriminate]].
  destruct (owner_ok w (d_owner st)) eqn:E; cbn [negb].
  - apply owner_ok_iff in E. destruct (world_writable (d_mode st)), (sticky (d_mode st)); cbn; split; intro H;
      try tauto; try discriminate; try (repeat split; auto; discriminate);
      try (destruct H as (_ & _ & H); specialize (H eq_refl); discriminate).
  - split; [discriminate|]. intros (_ & H & _). apply owner_ok_iff in H. congruence.
Qed.

Lemma load_opened cfg l : path_permissions_ok (c_who cfg) (c_chain cfg) = true ->
  r_opened (load cfg l) = map f_id (filter (fun f => file_ok (c_who cfg) (f_st f)) l).
Proof.
  intro E. unfold load, load_with. rewrite E. cbn [negb]. rewrite <- scan_dir_opened with (pers := c_pers cfg).
  destruct (sc_count (scan_dir register (c_who cfg) (c_pers cfg) l)); reflexivity.
Qed.

Theorem no_insecure_load cfg l i : In i (r_opened (load cfg l)) ->
  (exists f, In f l /\ f_id f = i /\ file_secure (c_who cfg) (f_st f)) /\
  Forall (dir_secure (c_who cfg)) (c_chain cfg).
Proof.
  destruct (path_permissions_ok (c_who cfg) (c_chain cfg)) eqn:E.
  - rewrite load_opened by auto. intro Ho.
    apply in_map_iff in Ho as (f & Hi & Hf). apply filter_In in Hf as [Hf Hok].
    split; [exists f; split; auto; split; auto; apply file_ok_iff; auto|].
    unfold path_permissions_ok in E. destruct (c_chain cfg); [discriminate|].
    rewrite forallb_forall in E. apply Forall_forall. intros d0 Hd. apply dir_ok_iff, E, Hd.
  - unfold load, load_with. rewrite E. cbn. intros [].
Qed.

(* everything that is listed or initialised came through dlopen, i.e. passed the tests above *)
Theorem listed_was_opened cfg l m : In m (r_modules (load cfg l)) -> In (fst m) (r_opened (load cfg l)).
Proof.
  intro Hm.
  assert (H : r_status (load cfg l) = Loaded).
  { unfold load, load_with in *. destruct (path_permissions_ok _ _); cbn [negb] in *; [|destruct Hm].
    destruct (sc_count _); cbn in *; [destruct Hm|reflexivity]. }
  apply in_modules, reg_all_sub, in_cands in Hm; auto. destruct Hm as (f & Hf & Hi & _ & Hok & _).
  destruct (loaded_modules cfg l H) as (_ & _ & E). rewrite load_opened by auto.
  rewrite <- Hi. apply in_map, filter_In. auto.
Qed.

Lemma run_inits_from pers ms : forall st i, In i (s_inits (run pers ms st)) -> In i (s_inits st) \/ In i (map fst ms).
Proof.
  intros st i H. destruct (run_inits pers ms st) as (t & Ht & Hs). rewrite Ht in H.
  apply in_app_or in H as [H|H]; auto. right. eapply subseq_in; eauto.
Qed.

Theorem init_was_opened cfg l i : In i (r_inits (load cfg l)) -> In i (r_opened (load cfg l)).
Proof.
  intro Hi. destruct (r_status (load cfg l)) eqn:H.
  - exfalso. unfold load, load_with, r_inits in *. destruct (path_permissions_ok _ _); cbn [negb] in *; [|destruct Hi].
    destruct (sc_count _); discriminate.
  - exfalso. unfold load, load_with, r_inits in *. destruct (path_permissions_ok _ _); cbn [negb] in *; [|destruct Hi].
    destruct (sc_count _); [destruct Hi|discriminate].
  - destruct (loaded_modules cfg l H) as (_ & Hst & _). unfold r_inits in Hi. rewrite Hst, init_all_run in Hi.
    apply run_inits_from in Hi as [[]|Hi]. apply in_map_iff in Hi as (m & <- & Hm).
    apply listed_was_opened. apply in_app_or in Hm as [Hm|Hm]; auto. apply (resolve_in _ _ _ Hm).
Qed.

Theorem refused_nothing cfg l : path_permissions_ok (c_who cfg) (c_chain cfg) = false ->
  r_status (load cfg l) = Refused /\ r_opened (load cfg l) = [] /\ r_modules (load cfg l) = [] /\ r_inits (load cfg l) = [].
Proof. intro H. unfold load, load_with, r_inits. rewrite H. cbn. auto. Qed.

(* ------------------------------------------------------------------ PDSH_MODULE_DIR *)
Theorem privileged_ignores_env {A} (w : who) (env : option A) builtin :
  w_uid w = 0 \/ w_uid w <> w_euid w -> module_dir w env builtin = builtin.
Proof.
  unfold module_dir. destruct env; auto. intros [->|H]; [reflexivity|].
  destruct (w_uid w =? 0); auto. apply N.eqb_neq in H. rewrite H. reflexivity.
Qed.

Theorem ordinary_user_env {A} (w : who) (d builtin : A) :
  w_uid w <> 0 -> w_uid w = w_euid w -> module_dir w (Some d) builtin = d.
Proof.
  unfold module_dir. intros H1 H2. apply N.eqb_neq in H1. apply N.eqb_eq in H2. rewrite H1, H2. reflexivity.
Qed.

(* ------------------------------------------------------------------ witnesses *)
Definition who_root : who := {| w_uid := 0; w_euid := 0; w_alt := 0 |}.
Definition okfile (i : N) (d : moddesc) : file := {| f_id := i; f_st := {| f_reg := true; f_owner := 0; f_mode := 420 |}; f_mod := Some d |}.
Definition mk (t n : bytes) (p : Z) (pers : N) (os : list optdesc) : moddesc :=
  {| m_type := t; m_name := n; m_prio := p; m_pers := pers; m_opts := os; m_init_ok := true |}.
Definition opt_ (c : N) : optdesc := {| o_letter := c; o_arg := false; o_pers := 3 |}.
Definition cfg0 (forced : list bytes) : config :=
  {| c_who := who_root; c_pers := 1; c_base := [104; 76; 78]; c_forced := forced;
     c_chain := [ {| d_isdir := true; d_owner := 0; d_mode := 493 |}; {| d_isdir := true; d_owner := 0; d_mode := 1023 |} ] |}.

Definition nameA : bytes := [97].    (* "a" *)
Definition nameB : bytes := [98].    (* "b" *)
Definition rcmd_type : bytes := [114; 99; 109; 100].

(* equal priority, same type and name: whichever file readdir returns first wins *)
Example order_dependent_equal_priority_duplicate :
  exists cfg l l', Permutation l l' /\ NoDup (map f_id l) /\ r_modules (load cfg l) <> r_modules (load cfg l').
Proof.
  exists (cfg0 []), [okfile 1 (mk misc_type nameA 100 3 [opt_ 88]); okfile 2 (mk misc_type nameA 100 3 [opt_ 89])],
         [okfile 2 (mk misc_type nameA 100 3 [opt_ 89]); okfile 1 (mk misc_type nameA 100 3 [opt_ 88])].
  split; [apply perm_swap|]. split; [repeat constructor; cbn; intuition discriminate|].
  vm_compute. discriminate.
Qed.

(* equal priority and name but different type: list order = reverse enumeration order, and with a shared
   option the set of active modules differs *)
Example order_dependent_equal_priority_name :
  exists cfg l l', Permutation l l' /\ NoDup (map f_id l) /\ r_active (load cfg l) <> r_active (load cfg l').
Proof.
  exists (cfg0 []), [okfile 1 (mk misc_type nameA 100 3 [opt_ 88]); okfile 2 (mk rcmd_type nameA 100 3 [opt_ 88])],
         [okfile 2 (mk rcmd_type nameA 100 3 [opt_ 88]); okfile 1 (mk misc_type nameA 100 3 [opt_ 88])].
  split; [apply perm_swap|]. split; [repeat constructor; cbn; intuition discriminate|].
  vm_compute. discriminate.
Qed.

(* priorities near INT_MAX / INT_MIN: y->priority - x->priority wraps, the comparison is not
   transitive any more and the insertion sort's result depends on the input order *)
Example order_dependent_priority_overflow :
  exists cfg l l', Permutation l l' /\ NoDup (map f_id l) /\ key_unique (cands (c_who cfg) (c_pers cfg) l) /\
                   r_modules (load cfg l) <> r_modules (load cfg l').
Proof.
  exists (cfg0 []), [okfile 1 (mk misc_type nameA 2147483647 3 []); okfile 2 (mk misc_type nameB 0 3 []); okfile 3 (mk misc_type [99] (-2147483648) 3 [])],
         [okfile 3 (mk misc_type [99] (-2147483648) 3 []); okfile 1 (mk misc_type nameA 2147483647 3 []); okfile 2 (mk misc_type nameB 0 3 [])].
  split; [apply Permutation_sym, (Permutation_cons_append [_; _])|].
  split; [repeat constructor; cbn; intuition discriminate|]. split.
  - intros a b Ha Hb. cbn in Ha, Hb.
    destruct Ha as [<-|[<-|[<-|[]]]], Hb as [<-|[<-|[<-|[]]]]; cbn; intros; try reflexivity; discriminate.
  - vm_compute. discriminate.
Qed.

(* the order of the tests before the repair: inside D17 a higher-priority module of the other
   personality first displaces its namesake and is then dropped itself - or not, depending on which
   file comes first *)
Example register_orig_order_dependent :
  exists cfg l l', Permutation l l' /\ NoDup (map f_id l) /\ D17 cfg l /\
                   r_modules (load_orig cfg l) <> r_modules (load_orig cfg l') /\
                   r_modules (load cfg l) = r_modules (load cfg l').
Proof.
  exists (cfg0 []), [okfile 1 (mk misc_type nameA 100 1 [opt_ 88]); okfile 2 (mk misc_type nameA 200 2 [opt_ 89]); okfile 3 (mk misc_type nameB 50 3 [])],
         [okfile 2 (mk misc_type nameA 200 2 [opt_ 89]); okfile 1 (mk misc_type nameA 100 1 [opt_ 88]); okfile 3 (mk misc_type nameB 50 3 [])].
  split; [apply perm_swap|]. split; [repeat constructor; cbn; intuition discriminate|]. split; [|split].
  - split.
    + intros a b Ha Hb. cbn in Ha, Hb.
      destruct Ha as [<-|[<-|[]]], Hb as [<-|[<-|[]]]; cbn; intros; try reflexivity; discriminate.
    + repeat constructor; cbn; lia.
  - vm_compute. discriminate.
  - vm_compute. reflexivity.
Qed.

(* non-vacuity: a directory inside D17 with a duplicate (type, name), an option conflict, a forced
   module and a module of the other personality; all the theorems' hypotheses are met by it *)
Definition demo_listing : list file :=
  [ okfile 1 (mk misc_type nameA 100 3 [opt_ 88; opt_ 89]);      (* misc/a 100: -X -Y *)
    okfile 2 (mk misc_type nameA 150 3 [opt_ 88]);                (* misc/a 150: -X  (displaces file 1) *)
    okfile 3 (mk misc_type nameB 100 3 [opt_ 88; opt_ 90]);       (* misc/b 100: -X -Z  (conflict on X unless forced) *)
    okfile 4 (mk rcmd_type nameB 120 2 [opt_ 88]);                (* PCP only: never registered by pdsh *)
    {| f_id := 5; f_st := {| f_reg := true; f_owner := 4321; f_mode := 420 |}; f_mod := Some (mk misc_type [99] 999 3 []) |} ].

Example demo_in_D17 : D17 (cfg0 [nameB]) demo_listing /\ NoDup (map f_id demo_listing).
Proof.
  split; [split|].
  - intros a b Ha Hb. cbn in Ha, Hb.
    destruct Ha as [<-|[<-|[<-|[]]]], Hb as [<-|[<-|[<-|[]]]]; cbn; intros; try reflexivity; discriminate.
  - repeat constructor; cbn; lia.
  - repeat constructor; cbn; intuition discriminate.
Qed.

(* forced b takes -X first; the better misc/a (file 2) then conflicts as a whole; file 1 lost to file 2;
   file 4 has the wrong personality; file 5 (owner 4321) was never opened *)
Example demo_result :
  let r := load (cfg0 [nameB]) demo_listing in
  r_status r = Loaded /\ map fst (r_modules r) = [2; 3] /\ r_active r = [3] /\ r_inits r = [3] /\
  r_opened r = [1; 2; 3; 4] /\ r_optstr r = [104; 76; 78; 88; 90] /\ r_dispatch r 88 = Some 3.
Proof. vm_compute. repeat split; reflexivity. Qed.

Example demo_result_unforced :
  let r := load (cfg0 []) demo_listing in
  map fst (r_modules r) = [2; 3] /\ r_active r = [2] /\ r_inits r = [2] /\ r_dispatch r 88 = Some 2 /\ r_dispatch r 90 = None.
Proof. vm_compute. repeat split; reflexivity. Qed.

(* ------------------------------------------------------------------ more facts lifted to load *)
Theorem load_optstr cfg l : r_optstr (load cfg l) = c_base cfg ++ flat_map reg_bytes (r_regs (load cfg l)).
Proof.
  unfold r_optstr, r_regs. destruct (r_status (load cfg l)) eqn:H.
  - unfold load, load_with in *. destruct (path_permissions_ok _ _); cbn [negb] in *.
    + destruct (sc_count _); discriminate.
    + cbn. now rewrite app_nil_r.
  - unfold load, load_with in *. destruct (path_permissions_ok _ _); cbn [negb] in *; [|discriminate].
    destruct (sc_count _); [|discriminate]. cbn. now rewrite app_nil_r.
  - destruct (loaded_modules cfg l H) as (_ & Hst & _). rewrite Hst.
    exact (optstr_is_base_plus_regs (c_pers cfg) (c_forced cfg) (r_modules (load cfg l)) (c_base cfg)).
Qed.

Theorem load_one_owner cfg l i j c a b :
  In (i, c, a) (r_regs (load cfg l)) -> In (j, c, b) (r_regs (load cfg l)) -> i = j.
Proof.
  unfold r_regs. destruct (r_status (load cfg l)) eqn:H.
  - unfold load, load_with in *. destruct (path_permissions_ok _ _); cbn [negb] in *.
    + destruct (sc_count _); discriminate.
    + cbn. intros [].
  - unfold load, load_with in *. destruct (path_permissions_ok _ _); cbn [negb] in *; [|discriminate].
    destruct (sc_count _); [|discriminate]. cbn. intros [].
  - destruct (loaded_modules cfg l H) as (_ & Hst & _). rewrite Hst.
    exact (one_owner_per_letter (c_pers cfg) (c_forced cfg) (r_modules (load cfg l)) (c_base cfg) i j c a b).
Qed.

Theorem load_dispatch_active cfg l c i : r_dispatch (load cfg l) c = Some i -> In i (r_active (load cfg l)).
Proof. apply dispatch_active. Qed.

Theorem load_inactive_no_trace cfg l m :
  let r := load cfg l in
  NoDup (map f_id l) -> In m (r_modules r) -> m_init_ok (snd m) = true -> ~ In (fst m) (r_active r) ->
  ~ In (fst m) (r_inits r) /\ (forall c b, ~ In (fst m, c, b) (r_regs r)) /\ (forall c, r_dispatch r c <> Some (fst m)).
Proof.
  cbn zeta. intros ND Hm Hok Hna.
  assert (H : r_status (load cfg l) = Loaded).
  { unfold load, load_with in *. destruct (path_permissions_ok _ _); cbn [negb] in *; [|destruct Hm].
    destruct (sc_count _); cbn in *; [destruct Hm|reflexivity]. }
  destruct (loaded_modules cfg l H) as (_ & Hst & _).
  assert (G := inactive_no_trace (c_pers cfg) (c_forced cfg) (r_modules (load cfg l)) (c_base cfg) m
                 (modules_ids_unique cfg l ND) Hm Hok).
  cbn zeta in G. unfold r_inits, r_regs, r_active in *. rewrite Hst in *. destruct (G Hna) as [G1 G2].
  repeat split; auto. intros c Hd. apply Hna. apply load_dispatch_active in Hd. unfold r_active in Hd. rewrite Hst in Hd. exact Hd.
Qed.

Theorem listed_iff_best cfg l m : r_status (load cfg l) = Loaded -> D17 cfg l ->
  (In m (r_modules (load cfg l)) <-> best_of (cands (c_who cfg) (c_pers cfg) l) m).
Proof. intros H D. split; [apply listed_is_best; auto|apply best_is_listed; auto]. Qed.

Theorem option_string cfg l :
  r_optstr (load cfg l) = c_base cfg ++ flat_map reg_bytes (r_regs (load cfg l)) /\
  forall i j c a b, In (i, c, a) (r_regs (load cfg l)) -> In (j, c, b) (r_regs (load cfg l)) -> i = j.
Proof. split; [apply load_optstr|apply load_one_owner]. Qed.

Theorem code_runs_only_from_opened cfg l :
  (forall m, In m (r_modules (load cfg l)) -> In (fst m) (r_opened (load cfg l))) /\
  (forall i, In i (r_inits (load cfg l)) -> In i (r_opened (load cfg l))) /\
  (path_permissions_ok (c_who cfg) (c_chain cfg) = false ->
   r_status (load cfg l) = Refused /\ r_opened (load cfg l) = [] /\ r_modules (load cfg l) = [] /\ r_inits (load cfg l) = []).
Proof. split; [apply listed_was_opened|]. split; [apply init_was_opened|apply refused_nothing]. Qed.

(* ------------------------------------------------------------------ warts of the code that the model carries (each one
   confirmed on the real program by the correspondence run; none contradicts the property text) *)
(* a -M module without options for this personality has its init() run twice: the second pass over the
   whole list does not skip modules that are already initialised, and an empty registration cannot conflict *)
Example wart_forced_optionless_init_twice :
  r_inits (load (cfg0 [nameA]) [okfile 1 (mk misc_type nameA 100 3 []); okfile 2 (mk misc_type nameB 100 3 [opt_ 88])]) = [1; 1; 2].
Proof. vm_compute. reflexivity. Qed.

(* a failing init() leaves the module's options registered: nobody serves -X, and the next module that
   offers -X is refused because of it *)
Example wart_failed_init_keeps_options :
  let bad := {| m_type := misc_type; m_name := nameA; m_prio := 100%Z; m_pers := 3; m_opts := [opt_ 88]; m_init_ok := false |} in
  let r := load (cfg0 []) [okfile 1 bad; okfile 2 (mk misc_type nameB 100 3 [opt_ 88])] in
  r_active r = [] /\ r_optstr r = [104; 76; 78; 88] /\ r_dispatch r 88 = None.
Proof. vm_compute. repeat split; reflexivity. Qed.

(* mod_process_opt does not look at an option's personality: -X registered by module 2 (for DSH) is
   handed to module 1, whose -X is a PCP-only option and was never registered *)
Example wart_cross_personality_dispatch :
  let r := load (cfg0 []) [okfile 1 (mk misc_type nameA 100 3 [{| o_letter := 88; o_arg := false; o_pers := 2 |}]);
                           okfile 2 (mk misc_type nameB 100 3 [{| o_letter := 88; o_arg := false; o_pers := 1 |}])] in
  r_regs r = [(2, 88, false)] /\ r_dispatch r 88 = Some 1.
Proof. vm_compute. repeat split; reflexivity. Qed.
