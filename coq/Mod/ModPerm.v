(* C17 model, part 1: who may have written the code pdsh is about to load.
   mod.c: _dir_permission_error, _path_permissions_ok, the per-file test of
   _mod_load_dynamic_modules; main.c: when PDSH_MODULE_DIR is honoured.
   Definitions only (executable, extracted). *)
From PV Require Import Base.Bytes.
Local Open Scope N_scope.

(* the three identities the tests look at: getuid(), geteuid(), st_uid of the pdsh binary *)
Record who := { w_uid : N; w_euid : N; w_alt : N }.

(* what stat() says about a directory on the path / about a directory entry *)
Record dstat := { d_isdir : bool; d_owner : N; d_mode : N }.
Record fstat := { f_reg : bool; f_owner : N; f_mode : N }.

(* S_IWOTH = 0002 (bit 1), S_ISVTX = 01000 (bit 9) *)
Definition world_writable (mode : N) : bool := N.testbit mode 1.
Definition sticky (mode : N) : bool := N.testbit mode 9.

(* (st_uid != 0) && (st_uid != getuid()) && (st_uid != alt)  negated *)
Definition owner_ok (w : who) (o : N) : bool := (o =? 0) || (o =? w_uid w) || (o =? w_alt w).

Inductive perm_error := DIR_OK | DIR_NOT_DIRECTORY | DIR_BAD_OWNER | DIR_WORLD_WRITABLE.

Definition dir_permission_error (w : who) (st : dstat) : perm_error :=
  if negb (d_isdir st) then DIR_NOT_DIRECTORY
  else if negb (owner_ok w (d_owner st)) then DIR_BAD_OWNER
  else if world_writable (d_mode st) && negb (sticky (d_mode st)) then DIR_WORLD_WRITABLE
  else DIR_OK.

Definition dir_ok (w : who) (st : dstat) : bool :=
  match dir_permission_error w st with DIR_OK => true | _ => false end.

(* chain = the module directory itself, its parent, ..., "/" (the do-while of
   _path_permissions_ok always looks at the directory itself: an empty chain stands
   for a failing stat and is refused) *)
Definition path_permissions_ok (w : who) (chain : list dstat) : bool :=
  match chain with [] => false | _ => forallb (dir_ok w) chain end.

(* the per-entry test before dlopen: regular file, acceptable owner, not world-writable *)
Definition file_ok (w : who) (st : fstat) : bool :=
  f_reg st && owner_ok w (f_owner st) && negb (world_writable (f_mode st)).

(* main.c: PDSH_MODULE_DIR is used only when set, uid != 0 and uid = euid *)
Definition module_dir {A : Type} (w : who) (env : option A) (builtin : A) : A :=
  match env with
  | None => builtin
  | Some d => if (w_uid w =? 0) || negb (w_uid w =? w_euid w) then builtin else d
  end.
