(* C17 proofs, part 1: registration (duplicate rule) and sorting are functions of the SET of
   candidate modules, not of the enumeration order. *)
From Coq Require Import Permutation Sorted.
From PV Require Import Base.Bytes Mod.ModPerm Mod.ModLoad.
Local Open Scope Z_scope.

(* ------------------------------------------------------------------ small list facts *)
Lemma find_none_iff {A} (f : A -> bool) l : find f l = None <-> forall x, In x l -> f x = false.
Proof.
  split; [apply find_none|]. induction l as [|a l IH]; cbn; intro H; auto.
  rewrite (H a) by auto. apply IH. intros; apply H; auto.
Qed.

Lemma fold_left_app_inv {A B} (f : A -> B -> A) l1 l2 a : fold_left f (l1 ++ l2) a = fold_left f l2 (fold_left f l1 a).
Proof. apply fold_left_app. Qed.

(* ------------------------------------------------------------------ same_tn is an equivalence *)
Lemma same_tn_iff a b : same_tn a b = true <-> lm_type a = lm_type b /\ lm_name a = lm_name b.
Proof. unfold same_tn. rewrite andb_true_iff, !beq_eq. tauto. Qed.
Lemma same_tn_refl a : same_tn a a = true.
Proof. apply same_tn_iff; auto. Qed.
Lemma same_tn_sym a b : same_tn a b = true -> same_tn b a = true.
Proof. rewrite !same_tn_iff. intuition congruence. Qed.
Lemma same_tn_trans a b c : same_tn a b = true -> same_tn b c = true -> same_tn a c = true.
Proof. rewrite !same_tn_iff. intuition congruence. Qed.

(* ------------------------------------------------------------------ candidates *)
(* a directory entry that passes the file test, has module symbols and fits the personality *)
Definition cand (w : who) (pers : N) (f : file) : option lmod :=
  if file_ok w (f_st f) then
    match f_mod f with
    | Some d => if pers_match (m_pers d) pers then Some (f_id f, d) else None
    | None => None
    end
  else None.

Definition cands (w : who) (pers : N) (l : list file) : list lmod :=
  flat_map (fun f => match cand w pers f with Some m => [m] | None => [] end) l.

Lemma in_cands w pers l m :
  In m (cands w pers l) <->
  exists f, In f l /\ f_id f = fst m /\ f_mod f = Some (snd m) /\ file_ok w (f_st f) = true /\ pers_match (m_pers (snd m)) pers = true.
Proof.
  unfold cands. rewrite in_flat_map. split.
  - intros (f & Hf & Hm). exists f. unfold cand in Hm.
    destruct (file_ok w (f_st f)) eqn:E1; [|destruct Hm].
    destruct (f_mod f) as [d|] eqn:E2; [|destruct Hm].
    destruct (pers_match (m_pers d) pers) eqn:E3; [|destruct Hm].
    destruct Hm as [<-|[]]. cbn. auto.
  - intros (f & Hf & Hi & Hm & Hok & Hp). exists f. split; auto. unfold cand. rewrite Hok, Hm, Hp.
    left. destruct m; cbn in *; congruence.
Qed.

Lemma cands_perm w pers l l' : Permutation l l' -> Permutation (cands w pers l) (cands w pers l').
Proof. intro H. unfold cands. apply Permutation_flat_map. exact H. Qed.

(* the duplicate rule alone (what register does once the personality fits) *)
Definition reg_step (L : list lmod) (m : lmod) : list lmod :=
  match find (same_tn m) L with
  | Some prev => if lm_prio m >? lm_prio prev then m :: filter (fun x => negb (same_tn m x)) L else L
  | None => m :: L
  end.
Definition reg_all (C : list lmod) : list lmod := fold_left reg_step C [].

(* what the readdir loop leaves behind *)
Definition scan_ok (s : scan) : Prop := sc_count s = O <-> sc_list s = [].

Lemma load_step_list w pers s f :
  sc_list (load_step register w pers s f) =
  match cand w pers f with Some m => reg_step (sc_list s) m | None => sc_list s end.
Proof.
  unfold load_step, cand. destruct (file_ok w (f_st f)); cbn [negb]; [|reflexivity].
  destruct (f_mod f) as [d|]; [|reflexivity].
  unfold register, reg_step. cbn [snd]. destruct (pers_match (m_pers d) pers); cbn [negb]; [|reflexivity].
  destruct (find (same_tn (f_id f, d)) (sc_list s)) as [prev|]; [|reflexivity].
  destruct (lm_prio (f_id f, d) >? lm_prio prev); reflexivity.
Qed.

Lemma load_step_ok w pers s f : scan_ok s -> scan_ok (load_step register w pers s f).
Proof.
  unfold scan_ok, load_step. intro H. destruct (file_ok w (f_st f)); cbn [negb]; [|exact H].
  destruct (f_mod f) as [d|]; [|exact H].
  unfold register. cbn [snd]. destruct (pers_match (m_pers d) pers); cbn [negb]; [|exact H].
  destruct (find (same_tn (f_id f, d)) (sc_list s)) as [prev|] eqn:E.
  - destruct (lm_prio (f_id f, d) >? lm_prio prev); cbn; [split; discriminate|exact H].
  - cbn. split; discriminate.
Qed.

Lemma load_step_opened w pers s f :
  sc_opened (load_step register w pers s f) = sc_opened s ++ (if file_ok w (f_st f) then [f_id f] else []).
Proof.
  unfold load_step. destruct (file_ok w (f_st f)); cbn [negb]; [|now rewrite app_nil_r].
  destruct (f_mod f) as [d|]; [|reflexivity].
  destruct (register pers (sc_list s) (f_id f, d)). reflexivity.
Qed.

Lemma scan_fold_list w pers l s :
  sc_list (fold_left (load_step register w pers) l s) = fold_left reg_step (cands w pers l) (sc_list s).
Proof.
  revert s; induction l as [|f l IH]; intro s; cbn [fold_left cands flat_map]; [reflexivity|].
  rewrite IH, load_step_list. fold (cands w pers l). rewrite fold_left_app.
  destruct (cand w pers f); reflexivity.
Qed.

Lemma scan_fold_ok w pers l s : scan_ok s -> scan_ok (fold_left (load_step register w pers) l s).
Proof. revert s; induction l as [|f l IH]; intros s H; cbn; auto. apply IH, load_step_ok, H. Qed.

Lemma scan_fold_opened w pers l s :
  sc_opened (fold_left (load_step register w pers) l s) =
  sc_opened s ++ map f_id (filter (fun f => file_ok w (f_st f)) l).
Proof.
  revert s; induction l as [|f l IH]; intro s; cbn [fold_left filter map]; [now rewrite app_nil_r|].
  rewrite IH, load_step_opened. destruct (file_ok w (f_st f)); cbn [map]; [now rewrite <- app_assoc|now rewrite app_nil_r].
Qed.

Lemma scan_dir_list w pers l : sc_list (scan_dir register w pers l) = reg_all (cands w pers l).
Proof. unfold scan_dir. rewrite scan_fold_list. reflexivity. Qed.
Lemma scan_dir_count w pers l : sc_count (scan_dir register w pers l) = O <-> reg_all (cands w pers l) = [].
Proof. rewrite <- scan_dir_list. apply scan_fold_ok. unfold scan_ok; cbn; tauto. Qed.
Lemma scan_dir_opened w pers l : sc_opened (scan_dir register w pers l) = map f_id (filter (fun f => file_ok w (f_st f)) l).
Proof. unfold scan_dir. rewrite scan_fold_opened. reflexivity. Qed.

(* ------------------------------------------------------------------ the duplicate rule keeps the best of each (type, name) *)
Record reg_inv (P L : list lmod) : Prop := {
  ri_sub : forall m, In m L -> In m P;
  ri_dom : forall p, In p P -> exists m, In m L /\ same_tn p m = true /\ lm_prio p <= lm_prio m;
  ri_one : forall a b, In a L -> In b L -> same_tn a b = true -> a = b;
  ri_nodup : NoDup L
}.

Lemma reg_step_inv P L m : reg_inv P L -> reg_inv (P ++ [m]) (reg_step L m).
Proof.
  intros [Hs Hd Ho Hn]. unfold reg_step.
  destruct (find (same_tn m) L) as [prev|] eqn:E.
  - apply find_some in E as [Hprev Htn].
    destruct (lm_prio m >? lm_prio prev) eqn:G.
    + apply Z.gtb_lt in G.
      split.
      * intros x [<-|Hx]; [apply in_or_app; right; left; auto|].
        apply filter_In in Hx as [Hx _]. apply in_or_app; left; auto.
      * intros p Hp. apply in_app_or in Hp as [Hp|[<-|[]]].
        -- destruct (Hd p Hp) as (x & Hx & Htx & Hle).
           destruct (same_tn m x) eqn:Emx.
           ++ exists m. split; [left; auto|]. split.
              ** apply same_tn_trans with x; auto. apply same_tn_sym; auto.
              ** assert (x = prev) by (apply Ho; auto; apply same_tn_trans with m; auto; apply same_tn_sym; auto).
                 subst x. lia.
           ++ exists x. split; [right; apply filter_In; split; auto; now rewrite Emx|]. auto.
        -- exists m. split; [left; auto|]. split; [apply same_tn_refl|lia].
      * intros a b [<-|Ha] [<-|Hb] Hab; auto.
        -- apply filter_In in Hb as [_ Hb]. rewrite Hab in Hb. discriminate.
        -- apply filter_In in Ha as [_ Ha]. rewrite (same_tn_sym _ _ Hab) in Ha. discriminate.
        -- apply filter_In in Ha as [Ha _]. apply filter_In in Hb as [Hb _]. auto.
      * constructor.
        -- intro Hin. apply filter_In in Hin as [_ Hin]. rewrite same_tn_refl in Hin. discriminate.
        -- apply NoDup_filter. auto.
    + assert (lm_prio m <= lm_prio prev) by (destruct (Z.gtb_spec (lm_prio m) (lm_prio prev)); [discriminate|lia]).
      split; auto.
      * intros x Hx. apply in_or_app; left; auto.
      * intros p Hp. apply in_app_or in Hp as [Hp|[<-|[]]]; auto.
        exists prev. auto.
  - rewrite find_none_iff in E.
    split.
    + intros x [<-|Hx]; apply in_or_app; [right; left; auto|left; auto].
    + intros p Hp. apply in_app_or in Hp as [Hp|[<-|[]]].
      * destruct (Hd p Hp) as (x & Hx & Htx & Hle). exists x. split; [right; auto|auto].
      * exists m. split; [left; auto|]. split; [apply same_tn_refl|lia].
    + intros a b [<-|Ha] [<-|Hb] Hab; auto.
      * rewrite (E _ Hb) in Hab. discriminate.
      * apply same_tn_sym in Hab. rewrite (E _ Ha) in Hab. discriminate.
    + constructor; auto. intro Hin. apply E in Hin. rewrite same_tn_refl in Hin. discriminate.
Qed.

Lemma reg_fold_inv C : forall P L, reg_inv P L -> reg_inv (P ++ C) (fold_left reg_step C L).
Proof.
  induction C as [|m C IH]; intros P L H; cbn [fold_left]; [now rewrite app_nil_r|].
  replace (P ++ m :: C) with ((P ++ [m]) ++ C) by (rewrite <- app_assoc; reflexivity).
  apply IH, reg_step_inv, H.
Qed.

Lemma reg_all_inv C : reg_inv C (reg_all C).
Proof.
  change C with ([] ++ C) at 1. apply reg_fold_inv.
  split; cbn; try tauto. constructor.
Qed.

(* D17, first half: among the candidates (priority, name) identifies the module *)
Definition key_unique (C : list lmod) : Prop :=
  forall a b, In a C -> In b C -> lm_prio a = lm_prio b -> lm_name a = lm_name b -> a = b.

Definition best_of (C : list lmod) (m : lmod) : Prop :=
  In m C /\ forall m', In m' C -> same_tn m m' = true -> lm_prio m' <= lm_prio m.

Theorem reg_all_spec C m : key_unique C -> (In m (reg_all C) <-> best_of C m).
Proof.
  intro K. destruct (reg_all_inv C) as [Hs Hd Ho Hn]. split.
  - intro Hm. split; auto. intros m' Hm' Htn.
    destruct (Hd m' Hm') as (x & Hx & Htx & Hle).
    assert (m = x) by (apply Ho; auto; apply same_tn_trans with m'; auto). subst x. auto.
  - intros [Hm Hmax]. destruct (Hd m Hm) as (x & Hx & Htx & Hle).
    assert (lm_prio x <= lm_prio m) by (apply Hmax; auto).
    assert (m = x); [|subst; auto].
    apply K; auto; [lia|]. apply same_tn_iff in Htx. tauto.
Qed.

Lemma key_unique_perm C C' : Permutation C C' -> key_unique C -> key_unique C'.
Proof.
  intros H K a b Ha Hb. apply K; eapply Permutation_in; try apply Permutation_sym; eauto.
Qed.

Lemma best_of_perm C C' m : Permutation C C' -> best_of C m -> best_of C' m.
Proof.
  intros H [Hm Hmax]. split; [eapply Permutation_in; eauto|].
  intros m' Hm'. apply Hmax. eapply Permutation_in; [apply Permutation_sym|]; eauto.
Qed.

Theorem reg_all_perm C C' : Permutation C C' -> key_unique C -> Permutation (reg_all C) (reg_all C').
Proof.
  intros H K. apply NoDup_Permutation; try apply reg_all_inv.
  intro m. rewrite !reg_all_spec by (auto; eapply key_unique_perm; eauto).
  split; apply best_of_perm; auto. apply Permutation_sym; auto.
Qed.

(* ------------------------------------------------------------------ strcmp is a total order on byte strings *)
Lemma strcmp_refl a : strcmp a a = 0.
Proof. induction a as [|x a IH]; cbn; auto. now rewrite N.eqb_refl. Qed.

Lemma strcmp_eq a : forall b, strcmp a b = 0 -> a = b.
Proof.
  induction a as [|x a IH]; intros [|y b]; cbn; try discriminate; auto.
  destruct (N.eqb_spec x y); [intro H; f_equal; auto|].
  destruct (x <? y)%N; discriminate.
Qed.

Lemma strcmp_antisym a : forall b, strcmp b a = - strcmp a b.
Proof.
  induction a as [|x a IH]; intros [|y b]; cbn; auto.
  destruct (N.eqb_spec x y) as [->|Hn].
  - rewrite N.eqb_refl. apply IH.
  - destruct (N.eqb_spec y x); [congruence|].
    destruct (N.ltb_spec x y), (N.ltb_spec y x); try reflexivity; lia.
Qed.

Lemma strcmp_range a : forall b, -1 <= strcmp a b <= 1.
Proof.
  induction a as [|x a IH]; intros [|y b]; cbn; try lia.
  destruct (x =? y)%N; auto. destruct (x <? y)%N; lia.
Qed.

Lemma strcmp_trans a : forall b c, strcmp a b <= 0 -> strcmp b c <= 0 -> strcmp a c <= 0.
Proof.
  induction a as [|x a IH]; intros [|y b] [|z c]; cbn; try lia.
  destruct (N.eqb_spec x y) as [->|Hxy].
  - destruct (N.eqb_spec y z) as [->|Hyz]; [apply IH|auto].
  - destruct (N.ltb_spec x y); [|lia]. intros _.
    destruct (N.eqb_spec y z) as [->|Hyz].
    + intros _. destruct (N.eqb_spec x z); [lia|]. destruct (N.ltb_spec x z); lia.
    + destruct (N.ltb_spec y z); [|lia]. intros _.
      destruct (N.eqb_spec x z); [lia|]. destruct (N.ltb_spec x z); lia.
Qed.

(* ------------------------------------------------------------------ _cmp_f on ordinary priorities *)
(* D17, second half: priorities whose differences fit an int *)
Definition prio_ok (m : lmod) : Prop := -1073741824 <= lm_prio m < 1073741824.

Lemma wrap32_small z : -2147483648 <= z < 2147483648 -> wrap32 z = z.
Proof. intro H. unfold wrap32. rewrite Z.mod_small by lia. lia. Qed.

(* the order the property speaks of: higher priority first, then by name *)
Definition mod_le (x y : lmod) : Prop :=
  lm_prio x > lm_prio y \/ (lm_prio x = lm_prio y /\ strcmp (lm_name x) (lm_name y) <= 0).

Lemma cmp_f_le x y : prio_ok x -> prio_ok y -> (cmp_f x y <= 0 <-> mod_le x y).
Proof.
  unfold prio_ok, cmp_f, mod_le. intros Hx Hy.
  destruct (Z.eqb_spec (lm_prio x) (lm_prio y)) as [E|E].
  - split; [intro; right; auto|intros [?|[_ ?]]; [lia|auto]].
  - rewrite wrap32_small by lia. split; [intro; left; lia|intros [?|[? _]]; lia].
Qed.

Lemma cmp_f_flip x y : prio_ok x -> prio_ok y -> 0 <= cmp_f x y -> cmp_f y x <= 0.
Proof.
  unfold prio_ok, cmp_f. intros Hx Hy.
  destruct (Z.eqb_spec (lm_prio x) (lm_prio y)) as [E|E].
  - rewrite E, Z.eqb_refl. rewrite (strcmp_antisym (lm_name x) (lm_name y)). lia.
  - destruct (Z.eqb_spec (lm_prio y) (lm_prio x)); [lia|]. rewrite !wrap32_small by lia. lia.
Qed.

Lemma mod_le_trans x y z : mod_le x y -> mod_le y z -> mod_le x z.
Proof.
  unfold mod_le. intros [H1|[E1 S1]] [H2|[E2 S2]]; try (left; lia).
  right. split; [lia|]. eapply strcmp_trans; eauto.
Qed.

Lemma mod_le_antisym x y : mod_le x y -> mod_le y x -> lm_prio x = lm_prio y /\ lm_name x = lm_name y.
Proof.
  unfold mod_le. intros [H1|[E1 S1]] [H2|[E2 S2]]; try lia.
  split; auto. apply strcmp_eq. rewrite (strcmp_antisym (lm_name x) (lm_name y)) in S2. lia.
Qed.

(* ------------------------------------------------------------------ list_sort sorts *)
Lemma ins_perm x l : Permutation (ins x l) (x :: l).
Proof.
  induction l as [|y t IH]; cbn [ins]; auto.
  destruct (cmp_f x y <? 0); auto.
  eapply perm_trans; [apply perm_skip, IH|apply perm_swap].
Qed.

Lemma sort_step_perm acc x : Permutation (sort_step acc x) (x :: acc).
Proof.
  unfold sort_step. destruct acc as [|a acc]; auto.
  destruct (cmp_f x (last (a :: acc) x) <? 0); [apply ins_perm|].
  apply Permutation_sym, Permutation_cons_append.
Qed.

Lemma sort_fold_perm l : forall acc, Permutation (fold_left sort_step l acc) (acc ++ l).
Proof.
  induction l as [|x l IH]; intro acc; cbn [fold_left]; [now rewrite app_nil_r|].
  eapply perm_trans; [apply IH|].
  eapply perm_trans; [apply Permutation_app_tail, sort_step_perm|].
  cbn. apply Permutation_middle.
Qed.

Theorem list_sort_perm l : Permutation (list_sort l) l.
Proof. unfold list_sort. apply (sort_fold_perm l []). Qed.

Lemma ins_sorted x l : prio_ok x -> Forall prio_ok l ->
  StronglySorted mod_le l -> StronglySorted mod_le (ins x l).
Proof.
  intros Hx Hl Hs. induction l as [|y t IH]; cbn [ins]; [repeat constructor|].
  inversion Hl as [|? ? Hy Ht]; subst. inversion Hs as [|? ? Hst Hyt]; subst.
  destruct (Z.ltb_spec (cmp_f x y) 0) as [Hlt|Hge].
  - assert (Hxy : mod_le x y) by (apply cmp_f_le; auto; lia).
    constructor; [constructor; auto|]. constructor; auto.
    eapply Forall_impl; [|exact Hyt]. intros z Hz. eapply mod_le_trans; eauto.
  - assert (Hyx : mod_le y x) by (apply cmp_f_le; auto; apply cmp_f_flip; auto).
    constructor; [apply IH; auto|].
    eapply Permutation_Forall; [apply Permutation_sym, ins_perm|]. constructor; auto.
Qed.

Lemma sorted_le_last l d : StronglySorted mod_le l -> forall y, In y l -> y = last l d \/ mod_le y (last l d).
Proof.
  induction l as [|a l IH]; intros Hs y Hy; [destruct Hy|].
  inversion Hs as [|? ? Hst Hal]; subst.
  destruct l as [|b l']; [destruct Hy as [<-|[]]; left; reflexivity|].
  change (last (a :: b :: l') d) with (last (b :: l') d).
  destruct Hy as [<-|Hy]; [|apply IH; auto].
  right. rewrite Forall_forall in Hal. apply Hal. clear. generalize b. induction l' as [|c l' IH]; intro b0; [left; reflexivity|].
  right. apply (IH c).
Qed.

Lemma sorted_snoc l x : StronglySorted mod_le l -> (forall y, In y l -> mod_le y x) -> StronglySorted mod_le (l ++ [x]).
Proof.
  induction l as [|a l IH]; intros Hs H; cbn; [repeat constructor|].
  inversion Hs as [|? ? Hst Hal]; subst.
  constructor; [apply IH; auto; intros; apply H; right; auto|].
  apply Forall_app; split; auto. constructor; auto. apply H; left; auto.
Qed.

Lemma sort_step_sorted acc x : prio_ok x -> Forall prio_ok acc ->
  StronglySorted mod_le acc -> StronglySorted mod_le (sort_step acc x).
Proof.
  intros Hx Ha Hs. unfold sort_step. destruct acc as [|a acc]; [repeat constructor|].
  set (p := last (a :: acc) x).
  assert (Hp : In p (a :: acc)).
  { unfold p. clear. generalize a. induction acc as [|b acc IH]; intro a0; [left; reflexivity|].
    right. apply (IH b). }
  assert (Hpo : prio_ok p) by (rewrite Forall_forall in Ha; auto).
  destruct (Z.ltb_spec (cmp_f x p) 0) as [Hlt|Hge]; [apply ins_sorted; auto|].
  assert (Hpx : mod_le p x) by (apply cmp_f_le; auto; apply cmp_f_flip; auto).
  apply sorted_snoc; auto. intros y Hy.
  destruct (sorted_le_last (a :: acc) x Hs y Hy) as [->|Hle]; auto.
  eapply mod_le_trans; eauto.
Qed.

Lemma sort_fold_sorted l : forall acc, Forall prio_ok acc -> Forall prio_ok l ->
  StronglySorted mod_le acc -> StronglySorted mod_le (fold_left sort_step l acc).
Proof.
  induction l as [|x l IH]; intros acc Ha Hl Hs; cbn [fold_left]; auto.
  inversion Hl; subst. apply IH; auto.
  - eapply Permutation_Forall; [apply Permutation_sym, sort_step_perm|]. constructor; auto.
  - apply sort_step_sorted; auto.
Qed.

Theorem list_sort_sorted l : Forall prio_ok l -> StronglySorted mod_le (list_sort l).
Proof. intro H. apply sort_fold_sorted; auto; constructor. Qed.

(* two sorted arrangements of the same modules coincide when (priority, name) is a key *)
Lemma sorted_unique l1 : forall l2, StronglySorted mod_le l1 -> StronglySorted mod_le l2 ->
  Permutation l1 l2 -> key_unique l1 -> l1 = l2.
Proof.
  induction l1 as [|a l1 IH]; intros l2 H1 H2 P K.
  - apply Permutation_nil in P. auto.
  - destruct l2 as [|b l2]; [apply Permutation_sym, Permutation_nil in P; discriminate|].
    inversion H1 as [|? ? S1 A1]; subst. inversion H2 as [|? ? S2 A2]; subst.
    rewrite Forall_forall in A1, A2.
    assert (a = b).
    { assert (Hb : In b (a :: l1)) by (eapply Permutation_in; [apply Permutation_sym; eauto|left; auto]).
      assert (Ha : In a (b :: l2)) by (eapply Permutation_in; [eauto|left; auto]).
      destruct Hb as [|Hb]; auto. destruct Ha as [|Ha]; auto.
      destruct (mod_le_antisym a b) as [E1 E2]; auto.
      apply K; auto; [left; auto|right; auto]. }
    subst b. f_equal. apply IH; auto.
    + eapply Permutation_cons_inv; eauto.
    + intros x y Hx Hy. apply K; right; auto.
Qed.

Theorem list_sort_perm_eq L L' : Permutation L L' -> Forall prio_ok L -> key_unique L -> list_sort L = list_sort L'.
Proof.
  intros P F K.
  assert (F' : Forall prio_ok L') by (eapply Permutation_Forall; eauto).
  apply sorted_unique; try apply list_sort_sorted; auto.
  - eapply perm_trans; [apply list_sort_perm|]. eapply perm_trans; [exact P|apply Permutation_sym, list_sort_perm].
  - eapply key_unique_perm; [apply Permutation_sym, list_sort_perm|auto].
Qed.
