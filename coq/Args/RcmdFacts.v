(* Proofs for C09: model (Args/Subst.v, Args/Rcmd.v) against spec (Args/RcmdSpec.v). *)
From PV Require Import Base.DecimalFacts Args.Subst Args.Rcmd Args.RcmdSpec
  Hostlist.HLSpec Hostlist.HLFacts Hostlist.HLParseFacts.
Local Open Scope N_scope.

(* ====================================================================== *)
(* 1. Argument substitution                                                *)
(* ====================================================================== *)

Definition nul_free (a : bytes) : Prop := ~ In 0 a.

Definition subst_e (e : pinfo) := subst (p_target e) (p_user e) (p_rank e).

Lemma fmt_loop_spec e : forall n a acc, (length a <= n)%nat -> nul_free a ->
  fmt_loop e (cstr a) (Some acc) = FOk (Some (acc ++ subst_e e a)).
Proof.
  unfold cstr, subst_e.
  induction n as [|n IH]; intros a acc Hl Hz.
  - destruct a; [|cbn in Hl; lia]. cbn. now rewrite app_nil_r.
  - destruct a as [|c r]; [cbn; now rewrite app_nil_r|].
    assert (Hc : c <> 0) by (intro; subst; apply Hz; left; auto).
    assert (Hr : nul_free r) by (intros H; apply Hz; right; auto).
    cbn [app fmt_loop subst]. destruct (c =? 0) eqn:E0; [apply N.eqb_eq in E0; contradiction|].
    cbn [length] in Hl.
    destruct (c =? 37) eqn:E37.
    + apply N.eqb_eq in E37; subst c.
      destruct r as [|d r2].
      * cbn. reflexivity.
      * assert (Hd : d <> 0) by (intro; subst; apply Hr; left; auto).
        assert (Hr2 : nul_free r2) by (intros H; apply Hr; right; auto).
        cbn [app]. destruct (d =? 0) eqn:Ed0; [apply N.eqb_eq in Ed0; contradiction|].
        cbn [length] in Hl.
        unfold fmt_switch, xstrcatchar, xstrcat. cbn [N.eqb Pos.eqb].
        destruct (d =? 104); [rewrite IH by (auto; lia); now rewrite <- app_assoc|].
        destruct (d =? 117); [rewrite IH by (auto; lia); now rewrite <- app_assoc|].
        destruct (d =? 110); [rewrite IH by (auto; lia); now rewrite <- app_assoc|].
        destruct (d =? 37); [rewrite IH by (auto; lia); now rewrite <- app_assoc|].
        rewrite Ed0. rewrite IH by (auto; lia). now rewrite <- !app_assoc.
    + unfold xstrcatchar, xstrcat. rewrite E0. rewrite IH by (auto; lia). now rewrite <- app_assoc.
Qed.

Theorem format_arg_subst e arg : nul_free arg -> format_arg e arg = FOk (Some (subst_e e arg)).
Proof. intros H. unfold format_arg. exact (fmt_loop_spec e (length arg) arg [] (le_n _) H). Qed.

Theorem exec_args_subst e argv : Forall nul_free argv -> exec_args e argv = FOk (map (subst_e e) argv).
Proof.
  unfold exec_args, exec_args_with. intros H.
  assert (E : format_all (format_arg e) argv = FOk (map (fun a => Some (subst_e e a)) argv)).
  { induction H as [|a r Ha Hr IH]; [reflexivity|]. cbn [format_all map].
    now rewrite format_arg_subst, IH by auto. }
  rewrite E. f_equal. clear. induction argv; cbn [map until_null]; congruence.
Qed.

Theorem subst_no_percent host user rank a : ~ In 37 a -> subst host user rank a = a.
Proof.
  induction a as [|c r IH]; intros H; [reflexivity|]. cbn [subst].
  destruct (c =? 37) eqn:E; [apply N.eqb_eq in E; subst; exfalso; apply H; left; auto|].
  f_equal. apply IH. intro; apply H; right; auto.
Qed.

(* the escapes themselves, anywhere in an argument *)
Theorem subst_escapes host user rank a b : ~ In 37 a ->
  subst host user rank (a ++ [37; 104] ++ b) = a ++ host ++ subst host user rank b /\
  subst host user rank (a ++ [37; 117] ++ b) = a ++ user ++ subst host user rank b /\
  subst host user rank (a ++ [37; 110] ++ b) = a ++ digits rank ++ subst host user rank b /\
  subst host user rank (a ++ [37; 37] ++ b) = a ++ 37 :: subst host user rank b.
Proof.
  induction a as [|c r IH]; intros H.
  - repeat split; reflexivity.
  - assert (E : c =? 37 = false) by (apply N.eqb_neq; intro; subst; apply H; left; auto).
    destruct IH as (H1 & H2 & H3 & H4); [intro; apply H; right; auto|].
    cbn [app subst] in *. rewrite E. now rewrite H1, H2, H3, H4.
Qed.

(* the code before the fix fails on a final lone '%' and on the empty argument *)
Theorem format_arg0_refuted e :
  (exists arg, nul_free arg /\ format_arg0 e arg = FFault) /\
  (exists arg, nul_free arg /\ format_arg0 e arg = FOk None) /\
  (exists argv, Forall nul_free argv /\ exec_args0 e argv = FOk [[97]] /\ map (subst_e e) argv = [[97]; []; [98]]).
Proof.
  split; [|split].
  - exists [37]. split; [intros [H|[]]; discriminate|reflexivity].
  - exists []. split; [intros []|reflexivity].
  - exists [[97]; []; [98]]. split; [|split; reflexivity].
    repeat constructor; intro H; cbn in H; intuition discriminate.
Qed.

(* the command text handed to the transport: the arguments joined by one blank *)
Lemma build_cmd_from acc rest :
  fold_left (fun cmd a => xstrcat (match cmd with None => None | Some _ => xstrcat cmd [32] end) a) rest (Some acc)
  = Some (acc ++ flat_map (fun a => 32 :: a) rest).
Proof.
  revert acc; induction rest as [|a r IH]; intros acc; cbn [fold_left flat_map].
  - now rewrite app_nil_r.
  - change (xstrcat (xstrcat (Some acc) [32]) a) with (Some ((acc ++ [32]) ++ a)). rewrite IH.
    f_equal. rewrite <- !app_assoc. reflexivity.
Qed.

Lemma join_cons c a r : join c (a :: r) = a ++ flat_map (fun x => c :: x) r.
Proof.
  revert a; induction r as [|b r IH]; intros a.
  - cbn. now rewrite app_nil_r.
  - change (join c (a :: b :: r)) with (a ++ c :: join c (b :: r)). rewrite IH. reflexivity.
Qed.

Theorem build_cmd_join a rest : build_cmd (a :: rest) = Some (join 32 (a :: rest)).
Proof. unfold build_cmd. cbn [fold_left]. change (xstrcat None a) with (Some a). rewrite build_cmd_from. now rewrite join_cons. Qed.

(* ====================================================================== *)
(* 2. The rsh request                                                      *)
(* ====================================================================== *)

Lemma digits_short p : p < 10000000 -> firstn (RSH_NUM_SIZE - 1) (digits p) = digits p.
Proof.
  intros H. apply firstn_all2. rewrite digits_length.
  change (RSH_NUM_SIZE - 1)%nat with 7%nat. apply ndigits_le_pow; [exact H|lia].
Qed.

Theorem xrcmd_wire_spec port luser ruser cmd :
  match port with Some p => p < 10000000 | None => True end ->
  xrcmd_wire port luser ruser cmd = wire_spec port luser ruser cmd.
Proof.
  intros H. unfold xrcmd_wire, xrcmd_writes, wire_spec. cbn [concat].
  destruct port as [p|]; [rewrite digits_short by exact H|]; rewrite app_nil_r, <- !app_assoc; reflexivity.
Qed.

Lemma digits_nul_free p : nul_free (digits p).
Proof.
  intros H. pose proof (digits_all_digit p) as Hd. rewrite forallb_forall in Hd.
  specialize (Hd 0 H). discriminate.
Qed.

(* the peer that cuts the request at the NULs gets back exactly the four fields *)
Theorem wire_fields port luser ruser cmd :
  nul_free luser -> nul_free ruser -> nul_free cmd ->
  split_all 0 (wire_spec port luser ruser cmd)
  = [match port with None => [] | Some p => digits p end; luser; ruser; cmd; []].
Proof.
  intros Hl Hr Hc. unfold wire_spec.
  assert (Hp : nul_free (match port with None => [] | Some p => digits p end))
    by (destruct port; [apply digits_nul_free|intros []]).
  rewrite split_all_app by exact Hp. f_equal.
  rewrite split_all_app by exact Hl. f_equal.
  rewrite split_all_app by exact Hr. f_equal.
  change [0] with (0 :: @nil N). rewrite split_all_app by exact Hc. reflexivity.
Qed.

(* ====================================================================== *)
(* 3. Splitting 'type:user@hosts'                                          *)
(* ====================================================================== *)

Lemma index_of_hit c a b : ~ In c a -> index_of c (a ++ c :: b) = Some (length a).
Proof.
  induction a as [|x a IH]; intros H; cbn [app index_of length].
  - now rewrite N.eqb_refl.
  - destruct (x =? c) eqn:E; [apply N.eqb_eq in E; subst; exfalso; apply H; left; auto|].
    rewrite IH; auto. intro; apply H; right; auto.
Qed.

Lemma index_of_none c s : ~ In c s -> index_of c s = None.
Proof.
  induction s as [|x s IH]; intros H; cbn [index_of]; auto.
  destruct (x =? c) eqn:E; [apply N.eqb_eq in E; subst; exfalso; apply H; left; auto|].
  rewrite IH; auto. intro; apply H; right; auto.
Qed.

Lemma nth_after {A} (a : list A) x b d : nth (length a) (a ++ x :: b) d = x.
Proof. rewrite app_nth2 by lia. now rewrite Nat.sub_diag. Qed.

Lemma nth_S_after {A} (a : list A) x b d : nth (S (length a)) (a ++ x :: b) d = nth 0 b d.
Proof. induction a; cbn [length app nth]; auto. Qed.

Lemma skipn_after {A} (a : list A) x b : skipn (S (length a)) (a ++ x :: b) = b.
Proof. induction a; cbn [length app skipn]; auto. Qed.

Lemma not_in_app {A} (x : A) a b : ~ In x a -> ~ In x b -> ~ In x (a ++ b).
Proof. intros Ha Hb H. apply in_app_or in H as [H|H]; auto. Qed.

(* what may appear in the three fields of a word of the documented form *)
Definition field_ok (f : bytes) : Prop := ~ In 58 f /\ ~ In 64 f.
Definition ofield_ok (f : option bytes) : Prop := match f with Some x => field_ok x | None => True end.
Definition sword_wf (w : sword) : Prop := ofield_ok (sw_type w) /\ ofield_ok (sw_user w) /\ field_ok (sw_hosts w).

Theorem classify_render w : sword_wf w ->
  classify (render_sword w) = Ok (mkword (sw_type w) (sw_user w) (sw_hosts w)).
Proof.
  destruct w as [[t|] [u|] h]; unfold sword_wf, render_sword, classify, c_colon, c_at;
    cbn [sw_type sw_user sw_hosts ofield_ok]; intros (Ht & Hu & [Hh1 Hh2]).
  - destruct Ht as [Ht1 Ht2], Hu as [Hu1 Hu2].
    rewrite <- !app_assoc. cbn [app].
    rewrite (index_of_hit 58 t) by exact Ht1.
    replace (t ++ 58 :: u ++ 64 :: h) with ((t ++ 58 :: u) ++ 64 :: h) by (rewrite <- app_assoc; reflexivity).
    rewrite (index_of_hit 64 (t ++ 58 :: u)).
    2:{ apply not_in_app; auto. intros [H|H]; [discriminate|auto]. }
    rewrite app_length. cbn [length].
    replace (length t + S (length u) <? length t)%nat with false by (symmetry; apply Nat.ltb_ge; lia).
    rewrite <- app_assoc. cbn [app].
    rewrite nth_S_after.
    assert (Hn : nth 0 (u ++ 64 :: h) 0 =? 58 = false).
    { destruct u as [|x u']; cbn; [reflexivity|]. apply N.eqb_neq. intro; subst. apply Hu1. left; auto. }
    rewrite Hn. rewrite skipn_after, firstn_app_length.
    replace (length t + S (length u) - S (length t))%nat with (length u) by lia.
    rewrite firstn_app_length.
    replace (S (length t + S (length u))) with (S (length (t ++ 58 :: u))) by (rewrite app_length; reflexivity).
    replace (t ++ 58 :: u ++ 64 :: h) with ((t ++ 58 :: u) ++ 64 :: h) by (rewrite <- app_assoc; reflexivity).
    now rewrite skipn_after.
  - destruct Ht as [Ht1 Ht2]. cbn [app].
    rewrite <- app_assoc. cbn [app].
    rewrite (index_of_hit 58 t) by exact Ht1.
    rewrite (index_of_none 64) by (apply not_in_app; auto; intros [H|H]; [discriminate|auto]).
    rewrite nth_S_after.
    assert (Hn : nth 0 h 0 =? 58 = false).
    { destruct h as [|x h']; cbn; [reflexivity|]. apply N.eqb_neq. intro; subst. apply Hh1. left; auto. }
    rewrite Hn. now rewrite skipn_after, firstn_app_length.
  - destruct Hu as [Hu1 Hu2]. cbn [app]. rewrite <- app_assoc. cbn [app].
    rewrite (index_of_none 58) by (apply not_in_app; auto; intros [H|H]; [discriminate|auto]).
    rewrite (index_of_hit 64 u) by exact Hu2.
    rewrite skipn_after, Nat.sub_0_r. change (skipn 0 (u ++ 64 :: h)) with (u ++ 64 :: h).
    now rewrite firstn_app_length.
  - cbn [app]. rewrite (index_of_none 58), (index_of_none 64) by auto. reflexivity.
Qed.

(* ====================================================================== *)
(* 4. The registry: first registration wins                                *)
(* ====================================================================== *)

Lemma beq_sym a b : beq a b = beq b a.
Proof.
  destruct (beq a b) eqn:E1, (beq b a) eqn:E2; auto.
  - apply beq_eq in E1. subst. now rewrite beq_refl in E2.
  - apply beq_eq in E2. subst. now rewrite beq_refl in E1.
Qed.

Lemma memb_In x l : memb x l = true <-> In x l.
Proof.
  unfold memb. rewrite existsb_exists. split.
  - intros (y & Hy & E). apply beq_eq in E. now subst.
  - intros H. exists x. split; auto. apply beq_refl.
Qed.

Lemma same_name_In x l : existsb (same_name x) l = true <-> In x l.
Proof.
  rewrite existsb_exists. unfold same_name. split.
  - intros (y & Hy & E). destruct (list_eq_dec N.eq_dec x y); [now subst|discriminate].
  - intros H. exists x. split; auto. destruct (list_eq_dec N.eq_dec x x); congruence.
Qed.

Lemma reg_find_app r r' h :
  reg_find (r ++ r') h = match reg_find r h with Some e => Some e | None => reg_find r' h end.
Proof. unfold reg_find. induction r as [|e r IH]; cbn [app find]; auto. destruct (beq (fst e) h); auto. Qed.

Lemma reg_add_find r h v x :
  reg_find (reg_add r h v) x =
  match reg_find r x with Some e => Some e | None => if beq h x then Some (h, v) else None end.
Proof.
  unfold reg_add. destruct (reg_find r h) eqn:Eh.
  - destruct (reg_find r x) eqn:Ex; auto.
    destruct (beq h x) eqn:E; auto. apply beq_eq in E. subst. congruence.
  - rewrite reg_find_app. destruct (reg_find r x); auto.
Qed.

Lemma register_names_find ns : forall r v x,
  reg_find (register_names r ns v) x =
  match reg_find r x with Some e => Some e | None => if memb x ns then Some (x, v) else None end.
Proof.
  unfold register_names.
  induction ns as [|h ns IH]; intros r v x; cbn [fold_left].
  - destruct (reg_find r x); reflexivity.
  - rewrite IH, reg_add_find. destruct (reg_find r x); auto.
    unfold memb. cbn [existsb]. fold (memb x ns). rewrite (beq_sym x h).
    destruct (beq h x) eqn:E; cbn [orb]; auto. apply beq_eq in E. now subst.
Qed.

(* meaning of a textual word under an expansion function *)
Definition aword_of (sem : bytes -> list bytes) (w : sword) : aword :=
  mkaw (sw_type w) (sw_user w) (sem (sw_hosts w)).

(* what the theorems ask of a word: documented form; if it carries a type or a user, the type
   is a loaded module and the registry's name list has the same members as the expansion *)
Definition word_ok (namesf : bytes -> outcome (list bytes)) (sem : bytes -> list bytes) (loaded : list bytes)
  (w : sword) : Prop :=
  sword_wf w /\
  (sw_has_spec w = true ->
   (forall t, sw_type w = Some t -> memb t loaded = true) /\
   exists ns, namesf (sw_hosts w) = Ok ns /\ forall x, In x ns <-> In x (sem (sw_hosts w))).

Lemma names_target_of sem w x :
  names_target x (aword_of sem w) = sw_has_spec w && existsb (same_name x) (sem (sw_hosts w)).
Proof. reflexivity. Qed.

Lemma process_words_find namesf sem loaded ws :
  Forall (word_ok namesf sem loaded) ws -> forall r,
  exists r', process_words namesf loaded r (map render_sword ws) = Ok r' /\
    forall x, reg_find r' x =
      match reg_find r x with
      | Some e => Some e
      | None => match find (names_target x) (map (aword_of sem) ws) with
                | Some w => Some (x, (a_type w, a_user w))
                | None => None
                end
      end.
Proof.
  induction 1 as [|w ws [Hwf Hw] _ IH]; intros r.
  - exists r. split; [reflexivity|]. intros x. cbn [map find]. destruct (reg_find r x); reflexivity.
  - cbn [map process_words]. unfold process_word. rewrite classify_render by exact Hwf. cbn [bind].
    change (has_spec (mkword (sw_type w) (sw_user w) (sw_hosts w))) with (sw_has_spec w).
    cbn [w_type w_user w_hosts].
    destruct (sw_has_spec w) eqn:Es.
    + destruct (Hw eq_refl) as (Hl & ns & Hns & Hmem).
      replace (match sw_type w with Some t => negb (memb t loaded) | None => false end) with false.
      2:{ destruct (sw_type w) as [t|]; auto. now rewrite (Hl t eq_refl). }
      rewrite Hns. cbn [bind].
      destruct (IH (register_names r ns (sw_type w, sw_user w))) as (r' & Hr' & Hf).
      exists r'. split; [exact Hr'|]. intros x. rewrite Hf, register_names_find.
      destruct (reg_find r x); auto.
      cbn [find]. rewrite names_target_of, Es. cbn [andb a_type a_user aword_of].
      destruct (memb x ns) eqn:Em.
      * apply memb_In, Hmem, same_name_In in Em. now rewrite Em.
      * replace (existsb (same_name x) (sem (sw_hosts w))) with false; auto.
        symmetry. apply Bool.not_true_is_false. intro H. apply same_name_In, Hmem, memb_In in H. congruence.
    + destruct (IH r) as (r' & Hr' & Hf). exists r'. split; [exact Hr'|]. intros x. rewrite Hf.
      destruct (reg_find r x); auto.
      cbn [find]. rewrite names_target_of, Es. reflexivity.
Qed.

(* transport and user used for ANY host name after ANY list of words = the specification *)
Theorem connect_after_words namesf sem loaded ws :
  Forall (word_ok namesf sem loaded) ws ->
  exists r, process_words namesf loaded [] (map render_sword ws) = Ok r /\
    forall dt du x, connect_info r dt du x = spec_assign (map (aword_of sem) ws) dt du x.
Proof.
  intros H. destruct (process_words_find namesf sem loaded ws H []) as (r & Hr & Hf).
  exists r. split; [exact Hr|]. intros dt du x. unfold connect_info, spec_assign. rewrite Hf.
  cbn [reg_find find]. destruct (find (names_target x) (map (aword_of sem) ws)); reflexivity.
Qed.

Lemma find_app {A} (f : A -> bool) a b : find f (a ++ b) = match find f a with Some x => Some x | None => find f b end.
Proof. induction a as [|x a IH]; cbn [app find]; auto. destruct (f x); auto. Qed.

Lemma find_none_all {A} (f : A -> bool) l : (forall x, In x l -> f x = false) -> find f l = None.
Proof. induction l as [|x l IH]; intros H; cbn [find]; auto. rewrite (H x) by (left; auto). apply IH. intros; apply H; right; auto. Qed.

(* the first word that names a host decides, whatever follows it *)
Theorem first_wins_spec ws1 w ws2 dt du x :
  (forall w', In w' ws1 -> names_target x w' = false) -> names_target x w = true ->
  spec_assign (ws1 ++ w :: ws2) dt du x =
  (match a_type w with Some t => t | None => dt end, match a_user w with Some u => u | None => du end).
Proof. intros H1 H2. unfold spec_assign. rewrite find_app, find_none_all by exact H1. cbn [find]. now rewrite H2. Qed.

Theorem defaults_spec ws dt du x : (forall w, In w ws -> names_target x w = false) -> spec_assign ws dt du x = (dt, du).
Proof. intros H. unfold spec_assign. now rewrite find_none_all. Qed.

Theorem first_wins namesf sem loaded ws1 w ws2 x :
  Forall (word_ok namesf sem loaded) (ws1 ++ w :: ws2) ->
  (forall w', In w' ws1 -> names_target x (aword_of sem w') = false) ->
  names_target x (aword_of sem w) = true ->
  exists r, process_words namesf loaded [] (map render_sword (ws1 ++ w :: ws2)) = Ok r /\
    forall dt du, connect_info r dt du x =
      (match sw_type w with Some t => t | None => dt end, match sw_user w with Some u => u | None => du end).
Proof.
  intros Hok H1 H2. destruct (connect_after_words _ _ _ _ Hok) as (r & Hr & Hc).
  exists r. split; [exact Hr|]. intros dt du. rewrite Hc, map_app. cbn [map].
  rewrite first_wins_spec; auto. intros w' Hw'. apply in_map_iff in Hw' as (w0 & <- & Hw0). auto.
Qed.

Theorem defaults_when_unnamed namesf sem loaded ws x :
  Forall (word_ok namesf sem loaded) ws ->
  (forall w, In w ws -> names_target x (aword_of sem w) = false) ->
  exists r, process_words namesf loaded [] (map render_sword ws) = Ok r /\
    forall dt du, connect_info r dt du x = (dt, du).
Proof.
  intros Hok H1. destruct (connect_after_words _ _ _ _ Hok) as (r & Hr & Hc).
  exists r. split; [exact Hr|]. intros dt du. rewrite Hc. apply defaults_spec.
  intros w' Hw'. apply in_map_iff in Hw' as (w0 & <- & Hw0). auto.
Qed.

(* ---- default transport and user ---- *)
Lemma find_split {A} (f : A -> bool) l t : find f l = Some t ->
  exists a b, l = a ++ t :: b /\ f t = true /\ forall x, In x a -> f x = false.
Proof.
  induction l as [|y l IH]; cbn [find]; [discriminate|]. destruct (f y) eqn:E.
  - intros [= ->]. exists [], l. repeat split; auto. intros x [].
  - intros H. destruct (IH H) as (a & b & -> & Ht & Ha). exists (y :: a), b. repeat split; auto.
    intros x [<-|Hx]; auto.
Qed.

Theorem default_type_spec rank_list loaded st t : default_type rank_list loaded st = Ok t ->
  memb t loaded = true /\
  spec_dtype (s_optR st) (s_envR st) rank_list (fun x => In x loaded) t.
Proof.
  unfold default_type, spec_dtype, default_module.
  destruct (s_optR st) as [r|].
  { destruct (memb r loaded) eqn:E; [|discriminate]. intros [= <-]. auto. }
  destruct (s_envR st) as [r|].
  { destruct (memb r loaded) eqn:E; [|discriminate]. intros [= <-]. auto. }
  destruct (find (fun n => memb n loaded) rank_list) as [n|] eqn:Ef; [|discriminate].
  destruct (memb n loaded) eqn:E; [|discriminate]. intros [= <-]. split; auto.
  destruct (find_split _ _ _ Ef) as (a & b & Hl & Hn & Ha). exists a, b. split; auto. split.
  - now apply memb_In.
  - intros x Hx Hin. apply memb_In in Hin. rewrite (Ha x Hx) in Hin. discriminate.
Qed.

Theorem default_user_spec st : default_user st = spec_duser (s_optl st) (s_login st).
Proof. reflexivity. Qed.

(* ---- rank ---- *)
Lemma number_from_nth l : forall i k,
  nth_error (number_from i l) k = match nth_error l k with Some h => Some (h, i + N.of_nat k) | None => None end.
Proof.
  induction l as [|h l IH]; intros i k; destruct k; cbn [number_from nth_error]; auto.
  - now rewrite N.add_0_r.
  - rewrite IH. destruct (nth_error l k); auto. do 2 f_equal. lia.
Qed.

Theorem rank_is_position targets k : nth_error (number_from 0 targets) k = spec_rank targets k.
Proof. rewrite number_from_nth. reflexivity. Qed.

(* ---- one whole run over textual words ---- *)
Definition assigned (ws : list aword) (dt du : bytes) (targets : list bytes) : list (bytes * bytes * bytes * N) :=
  map (fun hn => let '(m, u) := spec_assign ws dt du (fst hn) in (fst hn, m, u, snd hn)) (number_from 0 targets).

Theorem assign_with_spec namesf sem rank_list loaded st ws targets dt :
  Forall (word_ok namesf sem loaded) ws -> default_type rank_list loaded st = Ok dt ->
  assign_with namesf rank_list loaded st (map render_sword ws) targets
  = Ok (assigned (map (aword_of sem) ws) dt (default_user st) targets).
Proof.
  intros Hok Hd. unfold assign_with. destruct (connect_after_words _ _ _ _ Hok) as (r & Hr & Hc).
  rewrite Hr, Hd. cbn [bind]. f_equal. unfold assigned. apply map_ext. intros hn. now rewrite Hc.
Qed.

(* ====================================================================== *)
(* 5. Words whose host part is a host expression (C01's syntax trees)      *)
(* ====================================================================== *)

(* the expansion of a host expression as the hostlist model computes it (= denote, by C01) *)
Definition sem_targets (hosts : bytes) : list bytes :=
  match targets hosts with Ok l => l | _ => [] end.

Lemma sem_targets_render e : expr_wf e -> sem_targets (render e) = denote e.
Proof. intros H. unfold sem_targets. now rewrite C01_expansion. Qed.

(* the names the registry is keyed by: the full two-pass expansion, last name first *)
Lemma reg_names_render e : expr_wf e -> reg_names (render e) = Ok (rev (denote e)).
Proof.
  intros He. unfold reg_names, create.
  destruct (create_loop_render e (S (length (render e))) hl_empty He hl_empty_ok) as (h1 & Hc & Hok1 & Hx1).
  { pose proof (render_length e He). lia. }
  rewrite Hc. cbn [bind]. f_equal. unfold pop_all. f_equal.
  change (expand (ranges hl_empty)) with (@nil bytes) in Hx1. cbn [app] in Hx1.
  rewrite (shift_all_expand (ranges h1)) by exact Hok1. rewrite Hx1.
  destruct (expr_pass2 e He) as (outs & Hn & Eo).
  destruct (reexpand_ext _ _ Hn hl_empty hl_empty_ok) as [Hok2 Hx2].
  change (expand (ranges hl_empty)) with (@nil bytes) in Hx2. cbn [app] in Hx2.
  unfold reexpand. rewrite shift_all_expand by exact Hok2. rewrite Hx2. exact Eo.
Qed.

(* before the fix: the names of the first bracket pass only *)
Lemma reg_names0_render e : expr_wf e -> reg_names0 (render e) = Ok (rev (pass1s e)).
Proof.
  intros He. unfold reg_names0, create.
  destruct (create_loop_render e (S (length (render e))) hl_empty He hl_empty_ok) as (h1 & Hc & Hok1 & Hx1).
  { pose proof (render_length e He). lia. }
  rewrite Hc. cbn [bind]. f_equal. unfold pop_all. f_equal.
  change (expand (ranges hl_empty)) with (@nil bytes) in Hx1. cbn [app] in Hx1.
  rewrite (shift_all_expand (ranges h1)) by exact Hok1. exact Hx1.
Qed.

Definition one_bracket (e : expr) : Prop :=
  Forall (fun ws => match fst ws with WBr2 _ _ _ _ _ => False | _ => True end) e.

Lemma pass1s_one_bracket e : one_bracket e -> pass1s e = denote e.
Proof.
  unfold pass1s, denote. induction 1 as [|[w s] e Hw _ IH]; cbn [flat_map fst]; auto.
  rewrite IH. f_equal. destruct w; cbn in Hw; [reflexivity|reflexivity|contradiction].
Qed.

(* a -w word: optional transport, optional user, host expression *)
Definition eword := (option bytes * option bytes * expr)%type.
Definition eword_sword (w : eword) : sword := mksw (fst (fst w)) (snd (fst w)) (render (snd w)).
Definition eword_text (w : eword) : bytes := render_sword (eword_sword w).
Definition eword_mean (w : eword) : aword := mkaw (fst (fst w)) (snd (fst w)) (denote (snd w)).

(* the words C09 quantifies over: type and user free of ':' and '@', a well-formed host expression
   (C01's domain) whose text is free of ':' and '@', a type that names a loaded module *)
Definition eword_ok (loaded : list bytes) (w : eword) : Prop :=
  ofield_ok (fst (fst w)) /\ ofield_ok (snd (fst w)) /\ field_ok (render (snd w)) /\ expr_wf (snd w) /\
  (forall t, fst (fst w) = Some t -> In t loaded).

Lemma eword_word_ok loaded w : eword_ok loaded w -> word_ok reg_names sem_targets loaded (eword_sword w).
Proof.
  destruct w as [[t u] e]. unfold eword_ok, word_ok, sword_wf, eword_sword. cbn [fst snd sw_type sw_user sw_hosts].
  intros (Ht & Hu & Hh & He & Hl). split; [auto|]. intros _. split.
  - intros x Hx. apply memb_In. auto.
  - exists (rev (denote e)). split; [apply reg_names_render; auto|].
    intros x. rewrite sem_targets_render by auto. symmetry. apply in_rev.
Qed.

Lemma eword_mean_of loaded ws : Forall (eword_ok loaded) ws ->
  map (aword_of sem_targets) (map eword_sword ws) = map eword_mean ws.
Proof.
  induction 1 as [|[[t u] e] ws (_ & _ & _ & He & _) _ IH]; cbn [map]; auto. rewrite IH. f_equal.
  unfold aword_of, eword_mean, eword_sword. cbn [fst snd sw_type sw_user sw_hosts] in *.
  now rewrite sem_targets_render.
Qed.

(* THE assignment theorem: for every list of such words, every settings, every target list *)
Theorem assign_exprs rank_list loaded st (ws : list eword) targets dt :
  Forall (eword_ok loaded) ws -> default_type rank_list loaded st = Ok dt ->
  assign rank_list loaded st (map eword_text ws) targets
  = Ok (assigned (map eword_mean ws) dt (default_user st) targets).
Proof.
  intros Hok Hd. unfold assign, eword_text. rewrite <- map_map.
  rewrite (assign_with_spec reg_names sem_targets rank_list loaded st (map eword_sword ws) targets dt).
  - now rewrite (eword_mean_of loaded).
  - apply Forall_map. revert Hok. apply Forall_impl. apply eword_word_ok.
  - exact Hd.
Qed.

(* the code before the fix: right for words with at most one bracket pair ... *)
Lemma eword_word_ok0 loaded w : eword_ok loaded w -> one_bracket (snd w) ->
  word_ok reg_names0 sem_targets loaded (eword_sword w).
Proof.
  destruct w as [[t u] e]. unfold eword_ok, word_ok, sword_wf, eword_sword. cbn [fst snd sw_type sw_user sw_hosts].
  intros (Ht & Hu & Hh & He & Hl) H1. split; [auto|]. intros _. split.
  - intros x Hx. apply memb_In. auto.
  - exists (rev (pass1s e)). split; [apply reg_names0_render; auto|].
    intros x. rewrite sem_targets_render, pass1s_one_bracket by auto. symmetry. apply in_rev.
Qed.

Theorem assign0_partial rank_list loaded st (ws : list eword) targets dt :
  Forall (eword_ok loaded) ws -> Forall (fun w => one_bracket (snd w)) ws ->
  default_type rank_list loaded st = Ok dt ->
  assign0 rank_list loaded st (map eword_text ws) targets
  = Ok (assigned (map eword_mean ws) dt (default_user st) targets).
Proof.
  intros Hok H1 Hd. unfold assign0, eword_text. rewrite <- map_map.
  rewrite (assign_with_spec reg_names0 sem_targets rank_list loaded st (map eword_sword ws) targets dt).
  - now rewrite (eword_mean_of loaded).
  - apply Forall_map. rewrite Forall_forall in *. intros w Hw. apply eword_word_ok0; auto.
  - exact Hd.
Qed.

(* ... and wrong for two pairs: 'bob@foo[1-2]-[0-1]' leaves foo1-0 with the default user *)
Definition w2_foo : bytes := [102;111;111].
Definition w2_expr : expr :=
  [(WBr2 w2_foo [mkrt 1 1 (Some (2, 1%nat))] [45] [mkrt 0 1 (Some (1, 1%nat))] [], [])].
Definition w2_word : eword := (None, Some [98;111;98], w2_expr).
Definition w2_st : rsettings := mkrs None None None [114;111;111;116].
Definition w2_exec : bytes := [101;120;101;99].

Ltac c09_wf :=
  repeat match goal with
  | |- _ /\ _ => split
  | |- Forall _ _ => cbv [denote_word rs_nums rt_nums flat_map map]; constructor
  | |- sep_wf _ => unfold sep_wf
  | |- rs_wf _ => unfold rs_wf
  | |- rt_wf _ => unfold rt_wf; cbn [t_lo t_w t_hi rt_hi]
  | |- True => exact I
  | |- _ <> [] => discriminate
  | |- @eq bool _ _ => vm_compute; reflexivity
  | |- (_ < _)%nat => apply Nat.ltb_lt; vm_compute; reflexivity
  | |- (_ <= _)%nat => apply Nat.leb_le; vm_compute; reflexivity
  | |- (_ < _)%N => apply N.ltb_lt; vm_compute; reflexivity
  | |- (_ <= _)%N => apply N.leb_le; vm_compute; reflexivity
  end.

Lemma w2_expr_wf : expr_wf w2_expr.
Proof. unfold w2_expr. cbn [expr_wf word_wf]. c09_wf. Qed.

Lemma w2_ok : eword_ok [w2_exec] w2_word.
Proof.
  unfold eword_ok, w2_word. cbn [fst snd ofield_ok]. split; [exact I|]. split.
  { split; intros H; cbn in H; intuition discriminate. }
  split. { split; intros H; vm_compute in H; intuition discriminate. }
  split; [exact w2_expr_wf|intros t H; discriminate].
Qed.

Theorem assign0_refuted :
  exists loaded ws targets st dt, Forall (eword_ok loaded) ws /\ default_type [w2_exec] loaded st = Ok dt /\
    assign0 [w2_exec] loaded st (map eword_text ws) targets
    <> Ok (assigned (map eword_mean ws) dt (default_user st) targets).
Proof.
  exists [w2_exec], [w2_word], [w2_foo ++ [49;45;48]], w2_st, w2_exec.
  split; [constructor; [exact w2_ok|constructor]|]. split; [reflexivity|].
  vm_compute. intros H. discriminate H.
Qed.
