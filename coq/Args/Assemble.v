(* Model of how opt.c assembles the target list (opt->wcoll) from the -w arguments, '^file' words,
   standard input ('-') and the WCOLL environment variable:
     opt_args (case 'w'), wcoll_args_process, list_split (split.c), wcoll_arg_process, hostlist_assign,
     and the WCOLL fallback at the end of opt_args.
   The result is the list of host EXPRESSIONS handed to hostlist_push, in order, before the filters
   (-x, '-word', '/regex/') of property C02 are applied.  Expansion of an expression is the business of
   Hostlist/HLDefs.v (C01); here an expression is opaque. *)
From PV Require Export Args.WcollFile.
Local Open Scope N_scope.

(* ---- split.c: list_split(sep, s): tokens between separators, separators inside [] ignored,
        empty tokens dropped; the bracket level is a C int that may go negative ---- *)
Definition emit_tok (cur : bytes) : list bytes := match cur with [] => [] | _ => [rev cur] end.
Definition bump (level : Z) (b : N) : Z :=
  if b =? 91 then (level + 1)%Z else if b =? 93 then (level - 1)%Z else level.
Fixpoint split_go (sep : N) (s : bytes) (level : Z) (cur : bytes) : list bytes :=
  match s with
  | [] => emit_tok cur
  | b :: r =>
    if (b =? sep) && (level =? 0)%Z then emit_tok cur ++ split_go sep r 0%Z []
    else split_go sep r (bump level b) (b :: cur)
  end.
Definition list_split (sep : N) (s : bytes) : list bytes := split_go sep s 0%Z [].

(* ---- wcoll_arg_process: what one word asks for ---- *)
Inductive word_class :=
| WcFile (excluded : bool) (path : bytes)      (* [-]^path *)
| WcRegex                                      (* [-]/re/   : a filter (C02); regcomp is not modelled *)
| WcExcluded                                   (* -hosts    : an exclusion (C02) *)
| WcTyped                                      (* [rcmd_type:][user@]hosts : C09; registration is not modelled *)
| WcHosts (e : bytes).                         (* a host expression *)

Definition classify_word (w : bytes) : word_class :=
  let ex := is_prefix [45] w in                                   (* a leading '-' *)
  let p := drop_while is_space (if ex then skipn 1 w else w) in   (* leading white space skipped *)
  if is_prefix [94] p then WcFile ex (skipn 1 p)
  else if is_prefix [47] p then WcRegex
  else if ex then WcExcluded
  else if mem 58 p || mem 64 p then WcTyped
  else WcHosts p.

(* opt->wcoll (None = NULL), what is left of standard input, warnings so far *)
Record astate := mkast { as_list : option (list bytes); as_stdin : bytes; as_warn : nat }.

(* AOk: expressions pushed, in order.  AError: errx().  AFault / ADiverges: as in WcollFile.
   AOutOfScope: a word whose treatment belongs to another property's model *)
Inductive wres := WOk (st : astate) | WError | WFault | WDiverges | WOutOfScope.
Inductive ares := AOk (exprs : list bytes) (warnings : nat) | AError | AFault | ADiverges | AOutOfScope.

(* read_wcoll(path, NULL): "-" is standard input, which is then at end of file *)
Definition read_source (fs : fsys) (stdin : bytes) (path : bytes) : rres * bytes :=
  if beq path [45] then (read_stream fs stdin, []) else (read_wcoll fs path, stdin).

Definition add_exprs (l : option (list bytes)) (es : list bytes) : option (list bytes) :=
  match l with None => Some es | Some l0 => Some (l0 ++ es) end.

Definition word_step (fs : fsys) (st : astate) (w : bytes) : wres :=
  match classify_word w with
  | WcFile ex path =>
    let '(r, stdin') := read_source fs (as_stdin st) path in
    match r with
    | ROk es _ wn =>
      WOk (mkast (if ex then as_list st else add_exprs (as_list st) es) stdin' (as_warn st + wn))
    | RFatal => WError
    | RFault => WFault
    | RDiverges => WDiverges
    end
  | WcExcluded => WOk st
  | WcHosts e => WOk (mkast (add_exprs (as_list st) [e]) (as_stdin st) (as_warn st))
  | WcRegex | WcTyped => WOutOfScope
  end.

Fixpoint run_words (fs : fsys) (st : astate) (ws : list bytes) : wres :=
  match ws with
  | [] => WOk st
  | w :: r => match word_step fs st w with WOk st1 => run_words fs st1 r | e => e end
  end.

(* opt_args, case 'w': "-" stands for "^-"; every argument is split at its top-level commas *)
Definition arg_words (a : bytes) : list bytes := list_split 44 (if beq a [45] then [94; 45] else a).

Record aworld := mkaw { aw_fs : fsys; aw_stdin : bytes; aw_wcoll : option bytes (* getenv("WCOLL") *) }.

(* the -w arguments in command-line order; no module supplies a list (mod_read_wcoll) *)
Definition assemble (W : aworld) (args : list bytes) : ares :=
  match run_words (aw_fs W) (mkast None (aw_stdin W) 0) (flat_map arg_words args) with
  | WOk st =>
    match as_list st with
    | Some es => AOk es (as_warn st)
    | None =>
      match aw_wcoll W with
      | None => AOk [] (as_warn st)                   (* opt_verify: "no remote hosts specified" *)
      | Some v =>
        match fst (read_source (aw_fs W) (as_stdin st) v) with
        | ROk es _ wn => AOk es (as_warn st + wn)
        | RFatal => AError
        | RFault => AFault
        | RDiverges => ADiverges
        end
      end
    end
  | WError => AError
  | WFault => AFault
  | WDiverges => ADiverges
  | WOutOfScope => AOutOfScope
  end.
