(* Executable model of how every target gets its transport, remote user and rank (property C09):
     src/pdsh/opt.c   get_host_rcmd_type, wcoll_arg_process (the non-excluded, non-file, non-regex branch),
                      opt_args: "Load default module for all hosts"
     src/pdsh/rcmd.c  rcmd_get_default_module, rcmd_module_register, rcmd_register_default_rcmd,
                      rcmd_register_defaults, hostlist_register_rcmd (first registration wins),
                      rcmd_create, rcmd_connect
     src/pdsh/dsh.c   dsh(): the loop calling _thd_init (&t[i], opt, pcp_infiles, i)
   Host expressions are expanded by the hostlist model (Hostlist/HLDefs.v).  Definitions only. *)
From PV Require Export Hostlist.HLDefs.
Local Open Scope N_scope.

Definition memb (x : bytes) (l : list bytes) : bool := existsb (beq x) l.

(* ---- get_host_rcmd_type: split "rcmd_type:user@hosts" ----
   p = strchr (hosts, ':'); q = strchr (hosts, '@');
   p && q && p > q           -> errx
   p && *(p+1) != ':'        -> type = text before p, the rest starts after p
   q                         -> user = text from there up to q, hosts = text after q *)
Record word := mkword { w_type : option bytes; w_user : option bytes; w_hosts : bytes }.

Definition classify (s : bytes) : outcome word :=
  let p := index_of c_colon s in
  let q := index_of c_at s in
  if match p, q with Some i, Some j => (j <? i)%nat | _, _ => false end then Err EINVAL
  else
    let '(ty, start) :=
      match p with
      | Some i => if nth (S i) s 0 =? c_colon then (None, O) else (Some (firstn i s), S i)
      | None => (None, O)
      end in
    match q with
    | Some j => Ok (mkword ty (Some (firstn (j - start) (skipn start s))) (skipn (S j) s))
    | None => Ok (mkword ty None (skipn start s))
    end.

Definition has_spec (w : word) : bool :=
  match w_type w, w_user w with None, None => false | _, _ => true end.

(* ---- host_info_list: host -> (module, user); list_find_first / list_append ---- *)
Definition hinfo := (option bytes * option bytes)%type.
Definition reg := list (bytes * hinfo).

Definition reg_find (r : reg) (h : bytes) : option (bytes * hinfo) := find (fun e => beq (fst e) h) r.
(* "Do not override previously installed host info. First registered rcmd type for a host wins." *)
Definition reg_add (r : reg) (h : bytes) (v : hinfo) : reg :=
  match reg_find r h with Some _ => r | None => r ++ [(h, v)] end.
Definition register_names (r : reg) (names : list bytes) (v : hinfo) : reg :=
  fold_left (fun r h => reg_add r h v) names r.

(* names handed out by repeated hostlist_pop: last name first *)
Definition pop_all (l : list hr) : list bytes := rev (shift_all l).

(* hostlist_register_rcmd's list.  Current code (after fix C09-register-two-brackets):
   hostlist_create, then shift + push every name again as opt.c:wcoll_expand does, then pop *)
Definition reg_names (hosts : bytes) : outcome (list bytes) :=
  bind (create hosts) (fun h => Ok (pop_all (ranges (reexpand (shift_all (ranges h)))))).
(* the code before the fix: hostlist_create, then pop (names of the first bracket pass only) *)
Definition reg_names0 (hosts : bytes) : outcome (list bytes) :=
  bind (create hosts) (fun h => Ok (pop_all (ranges h))).

(* wcoll_arg_process on one plain word (the registry part; the word's hosts also go to wcoll) *)
Definition process_word (namesf : bytes -> outcome (list bytes)) (loaded : list bytes) (r : reg) (s : bytes)
  : outcome reg :=
  bind (classify s) (fun w =>
    if has_spec w then
      (* rcmd_module_register: the named module must be loaded *)
      if match w_type w with Some t => negb (memb t loaded) | None => false end then Err EINVAL
      else bind (namesf (w_hosts w)) (fun ns => Ok (register_names r ns (w_type w, w_user w)))
    else Ok r).

Fixpoint process_words (namesf : bytes -> outcome (list bytes)) (loaded : list bytes) (r : reg) (ws : list bytes)
  : outcome reg :=
  match ws with
  | [] => Ok r
  | s :: rest => bind (process_word namesf loaded r s) (fun r' => process_words namesf loaded r' rest)
  end.

(* ---- defaults ---- *)
(* rcmd_get_default_module: first name of rcmd_rank[] for which a module is loaded *)
Definition default_module (rank_list loaded : list bytes) : option bytes :=
  find (fun n => memb n loaded) rank_list.

Record rsettings := mkrs {
  s_optR : option bytes;   (* last -R on the command line *)
  s_envR : option bytes;   (* PDSH_RCMD_TYPE *)
  s_optl : option bytes;   (* last -l *)
  s_login : bytes }.       (* getpwuid (getuid ())->pw_name *)

(* opt->rcmd_name after opt_env and opt_args, then rcmd_register_default_rcmd *)
Definition default_type (rank_list loaded : list bytes) (st : rsettings) : outcome bytes :=
  match (match s_optR st with Some r => Some r | None =>
         match s_envR st with Some r => Some r | None => default_module rank_list loaded end end) with
  | Some name => if memb name loaded then Ok name else Err EINVAL
  | None => Err EINVAL       (* "No rcmd module": nothing can be contacted *)
  end.
Definition default_user (st : rsettings) : bytes :=
  match s_optl st with Some u => u | None => s_login st end.

(* ---- rcmd_create + rcmd_connect: module and remote user used for one target ---- *)
Definition connect_info (r : reg) (dtype duser : bytes) (host : bytes) : bytes * bytes :=
  match reg_find r host with
  | Some (_, (ty, us)) => (match ty with Some t => t | None => dtype end,
                           match us with Some u => u | None => duser end)
  | None => (dtype, duser)
  end.

(* ---- dsh(): i = 0; while ((t[i].host = hostlist_next (itr))) { _thd_init (.., i); i++; } ---- *)
Fixpoint number_from (i : N) (l : list bytes) : list (bytes * N) :=
  match l with [] => [] | h :: r => (h, i) :: number_from (i + 1) r end.

(* one run: per target, in order: host, module, remote user, rank *)
Definition assign_with (namesf : bytes -> outcome (list bytes)) (rank_list loaded : list bytes) (st : rsettings)
  (ws : list bytes) (targets : list bytes) : outcome (list (bytes * bytes * bytes * N)) :=
  bind (process_words namesf loaded [] ws) (fun r =>
  bind (default_type rank_list loaded st) (fun dt =>
    Ok (map (fun hn => let '(m, u) := connect_info r dt (default_user st) (fst hn) in (fst hn, m, u, snd hn))
            (number_from 0 targets)))).
Definition assign := assign_with reg_names.
Definition assign0 := assign_with reg_names0.
