(* Model of src/pdsh/wcoll.c (read_wcoll and its helpers) over an abstract file system:
   which host expressions are pushed, in which order, for a file named on the command line. *)
From PV Require Export Base.Bytes Generated.Params.
Local Open Scope N_scope.

Definition fsys := list (bytes * bytes).       (* readable files: path -> contents *)
Fixpoint lookup_raw (fs : fsys) (p : bytes) : option bytes :=
  match fs with [] => None | (q, c) :: r => if beq p q then Some c else lookup_raw r p end.
(* the file system ignores leading "./" components; the code's path STRINGS keep them *)
Fixpoint norm_f (fuel : nat) (p : bytes) : bytes :=
  match fuel with
  | O => p
  | S f => match p with 46 :: 47 :: r => norm_f f r | _ => p end
  end.
Definition lookup (fs : fsys) (p : bytes) : option bytes := lookup_raw fs (norm_f (length p) p).

(* getline(3): pieces ending with their newline; a last piece without one if non-empty *)
Fixpoint lines_acc (s cur : bytes) : list bytes :=
  match s with
  | [] => match cur with [] => [] | _ => [rev cur] end
  | b :: r => if b =? 10 then rev (10 :: cur) :: lines_acc r [] else lines_acc r (b :: cur)
  end.
Definition file_lines (s : bytes) : list bytes := lines_acc s [].

(* xstrcln(line, NULL): strip "\n\t " at both ends *)
Definition is_sp (b : N) : bool := (b =? 10) || (b =? 9) || (b =? 32).
Definition strip (s : bytes) : bytes := rev (drop_while is_sp (rev (drop_while is_sp s))).

Definition is_blank (b : N) : bool := (b =? 32) || (b =? 9).
Definition is_tok_sep (b : N) : bool := (b =? 10) || (b =? 13) || (b =? 9) || (b =? 32).
Definition kw_include : bytes := [35;105;110;99;108;117;100;101]. (* "#include" *)

(* include_file(line): None = not an include line; Some None = malformed (warning, ignored);
   Some (Some name) *)
Definition include_file (line : bytes) : option (option bytes) :=
  if is_prefix kw_include line then
    let p := drop_while is_blank (skipn 8 line) in
    let p1 := drop_while is_tok_sep p in                                  (* strtok skips leading separators *)
    let tok := take_while (fun b => negb (is_tok_sep b)) p1 in
    let rest := drop_while is_tok_sep (drop_while (fun b => negb (is_tok_sep b)) p1) in
    match tok, rest with
    | [], _ => Some None
    | _, [] => Some (Some tok)
    | _, _ => Some None
    end
  else None.

(* dirname(3) for the paths used here *)
Fixpoint strip_trailing_slashes (r : bytes) : bytes := (* on the reversed string *)
  match r with 47 :: t => strip_trailing_slashes t | _ => r end.
Definition dirname (p : bytes) : bytes :=
  let r := strip_trailing_slashes (rev p) in
  match r with
  | [] => match p with [] => [46] | _ => [47] end
  | _ => let after := drop_while (fun b => negb (b =? 47)) r in    (* reversed: drop the last component *)
         match after with
         | [] => [46]
         | _ => match strip_trailing_slashes after with [] => [47] | d => rev d end
         end
  end.
Definition basename (p : bytes) : bytes :=
  rev (take_while (fun b => negb (b =? 47)) (strip_trailing_slashes (rev p))).

(* wcoll_ctx_resolve_path: absolute, ./ and ../ names are taken as they are, others are
   looked up in the directory of the file named on the command line *)
Definition resolve (fs : fsys) (dir name : bytes) : option bytes :=
  match name with
  | 47 :: _ => Some name
  | 46 :: 47 :: _ => Some name
  | 46 :: 46 :: 47 :: _ => Some name
  | _ => let p := dir ++ 47 :: name in match lookup fs p with Some _ => Some p | None => None end
  end.

Inductive rres := ROk (exprs : list bytes) (cache : list bytes) (warnings : nat) | RFatal.

(* one line of a file, after include handling: the expression pushed, if any *)
Definition line_expr (line : bytes) : option bytes :=
  let l := match index_of 35 line with Some k => firstn k line | None => line end in
  match strip l with [] => None | e => Some e end.

Section Read.
Variable fs : fsys.
Variable dir : bytes.

Fixpoint read_lines (fuel : nat) (ls0 : list bytes) (cache0 : list bytes) {struct fuel} : rres :=
  let nested := match fuel with O => fun _ _ => RFatal | S f => read_lines f end in
  (fix go (ls : list bytes) (cache : list bytes) {struct ls} : rres :=
  match ls with
  | [] => ROk [] cache 0
  | line :: rest =>
    let here :=
      match line with
      | 35 :: _ =>
        match include_file line with
        | Some (Some name) =>
            match resolve fs dir name with
            | None => RFatal
            | Some path =>
              if existsb (beq path) cache then ROk [] cache 1
              else match lookup fs path with
                   | None => RFatal
                   | Some content => nested (file_lines content) (path :: cache)
                   end
            end
        | Some None => ROk [] cache 1
        | None => ROk [] cache 0
        end
      | _ => ROk (match line_expr line with Some e => [e] | None => [] end) cache 0
      end in
    match here with
    | RFatal => RFatal
    | ROk es c1 w1 =>
      match go rest c1 with
      | RFatal => RFatal
      | ROk es2 c2 w2 => ROk (es ++ es2) c2 (w1 + w2)
      end
    end
  end) ls0 cache0.
End Read.

(* read_wcoll(file, NULL) (after the fix: the file itself is remembered, so an include cycle
   through it is detected) *)
Definition read_wcoll (fs : fsys) (file : bytes) : rres :=
  match lookup fs file with
  | None => RFatal
  | Some content =>
    let dir := dirname file in
    read_lines fs dir (S (length fs)) (file_lines content) [dir ++ 47 :: basename file]
  end.
