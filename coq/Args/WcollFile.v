(* Model of src/pdsh/wcoll.c (read_wcoll and its helpers) over an abstract file system:
   which host expressions are pushed, in which order, for a file named on the command line
   (or for a stream: standard input).

   The file system is a finite map from path STRINGS to contents.  Two spellings of one file
   (a/b and a/./b) are two keys with the same contents: the code identifies files by the
   string it built, and so does the model. *)
From PV Require Export Base.Bytes Generated.Params.
Local Open Scope N_scope.

Definition fsys := list (bytes * bytes).       (* readable files: path -> contents *)
Fixpoint lookup (fs : fsys) (p : bytes) : option bytes :=
  match fs with [] => None | (q, c) :: r => if beq p q then Some c else lookup r p end.

(* list reversal in linear time (List.rev is quadratic once extracted; lines may be long) *)
Definition frev (l : bytes) : bytes := rev_append l [].

(* getline(3): pieces ending with their newline; a last piece without one if non-empty *)
Fixpoint lines_acc (s cur : bytes) : list bytes :=
  match s with
  | [] => match cur with [] => [] | _ => [frev cur] end
  | b :: r => if b =? 10 then frev (10 :: cur) :: lines_acc r [] else lines_acc r (b :: cur)
  end.
Definition file_lines (s : bytes) : list bytes := lines_acc s [].

(* what the str* functions see of a getline buffer: the bytes before the first NUL *)
Definition cstr (s : bytes) : bytes := take_while (fun b => negb (b =? 0)) s.

(* xstrcln(line, NULL): strip "\n\t " at both ends *)
Definition is_sp (b : N) : bool := (b =? 10) || (b =? 9) || (b =? 32).
Definition strip (s : bytes) : bytes := frev (drop_while is_sp (frev (drop_while is_sp s))).

Definition is_blank (b : N) : bool := (b =? 32) || (b =? 9).
Definition is_tok_sep (b : N) : bool := (b =? 10) || (b =? 13) || (b =? 9) || (b =? 32).
Definition kw_include : bytes := [35;105;110;99;108;117;100;101]. (* "#include" *)

(* include_file(line): None = not an include line; Some None = malformed (warning, ignored);
   Some (Some name) *)
Definition include_file (line : bytes) : option (option bytes) :=
  if is_prefix kw_include line then
    let p := drop_while is_blank (skipn 8 line) in
    let p1 := drop_while is_tok_sep p in                                  (* strtok skips leading separators *)
    let tok := take_while (fun b => negb (is_tok_sep b)) p1 in
    let rest := drop_while is_tok_sep (drop_while (fun b => negb (is_tok_sep b)) p1) in
    match tok, rest with
    | [], _ => Some None
    | _, [] => Some (Some tok)
    | _, _ => Some None
    end
  else None.

(* dirname(3) for the paths used here *)
Fixpoint strip_trailing_slashes (r : bytes) : bytes := (* on the reversed string *)
  match r with 47 :: t => strip_trailing_slashes t | _ => r end.
Definition dirname (p : bytes) : bytes :=
  let r := strip_trailing_slashes (rev p) in
  match r with
  | [] => match p with [] => [46] | _ => [47] end
  | _ => let after := drop_while (fun b => negb (b =? 47)) r in    (* reversed: drop the last component *)
         match after with
         | [] => [46]
         | _ => match strip_trailing_slashes after with [] => [47] | d => rev d end
         end
  end.
(* xbasename: what follows the last '/' *)
Definition basename (p : bytes) : bytes := rev (take_while (fun b => negb (b =? 47)) (rev p)).

(* wcoll_ctx_resolve_path: absolute, ./ and ../ names are taken as they are (strncpy into the
   WCOLL_PATHBUF-byte buffer: a name that fills it is left without terminator), others are looked
   up in the directory of the file named on the command line (snprintf, must fit, access R_OK) *)
Definition as_is (name : bytes) : bool :=
  is_prefix [47] name || is_prefix [46;47] name || is_prefix [46;46;47] name.
Inductive rpath := PathOk (p : bytes) | PathNone | PathFault.
Definition resolve (fs : fsys) (dir name : bytes) : rpath :=
  if as_is name then
    if N.of_nat (length name) <? WCOLL_PATHBUF - 1 then PathOk name else PathFault
  else
    let p := dir ++ 47 :: name in
    if WCOLL_PATHBUF <=? N.of_nat (length p) then PathNone
    else match lookup fs p with Some _ => PathOk p | None => PathNone end.

(* ROk: expressions pushed in order, include cache (newest first), number of warnings.
   RFatal: errx() (unreadable).  RFault: the unterminated path buffer was used.
   RDiverges: the model's recursion fuel ran out (excluded by WcollFacts.read_wcoll_terminates). *)
Inductive rres := ROk (exprs : list bytes) (cache : list bytes) (warnings : nat) | RFatal | RFault | RDiverges.

(* one line of a file, after include handling: the expression pushed, if any *)
Definition line_expr (line : bytes) : option bytes :=
  let l := match index_of 35 line with Some k => firstn k line | None => line end in
  match strip l with [] => None | e => Some e end.

Section Read.
Variable fs : fsys.
Variable dir : bytes.

(* wcoll_ctx_read_line up to the recursive call: what one getline buffer asks for *)
Inductive line_act := LExpr (e : option bytes) | LWarn | LInclude (path : bytes) | LFatal | LFault.
Definition line_action (buf : bytes) : line_act :=
  let line := cstr buf in
  if is_prefix [35] line then                       (* the first '#' is the first byte *)
    match include_file line with
    | Some (Some name) =>
        match resolve fs dir name with
        | PathNone => LFatal
        | PathFault => LFault
        | PathOk path => LInclude path
        end
    | Some None => LWarn
    | None => LExpr None
    end
  else LExpr (line_expr line).

(* the effect of one line given what a nested read would give *)
Definition line_result (nested : list bytes -> list bytes -> rres) (cache : list bytes) (buf : bytes) : rres :=
  match line_action buf with
  | LExpr (Some e) => ROk [e] cache 0
  | LExpr None => ROk [] cache 0
  | LWarn => ROk [] cache 1                                  (* "Ignoring invalid line" *)
  | LFatal => RFatal
  | LFault => RFault
  | LInclude path =>
      if existsb (beq path) cache then ROk [] cache 1        (* "included multiple times" *)
      else match lookup fs path with
           | None => RFatal
           | Some content => nested (file_lines content) (path :: cache)
           end
  end.
(* r, then the rest of the lines with the cache r left *)
Definition then_result (r : rres) (k : list bytes -> rres) : rres :=
  match r with
  | ROk es c1 w1 => match k c1 with ROk es2 c2 w2 => ROk (es ++ es2) c2 (w1 + w2) | r' => r' end
  | r' => r'
  end.

Fixpoint read_lines (fuel : nat) (ls0 : list bytes) (cache0 : list bytes) {struct fuel} : rres :=
  let nested := match fuel with O => fun _ _ => RDiverges | S f => read_lines f end in
  (fix go (ls : list bytes) (cache : list bytes) {struct ls} : rres :=
  match ls with
  | [] => ROk [] cache 0
  | line :: rest => then_result (line_result nested cache line) (go rest)
  end) ls0 cache0.
End Read.

(* enough fuel for every include graph: each nested read enters a new readable path in the cache *)
Definition read_fuel (fs : fsys) : nat := S (length fs).

(* read_wcoll(file, NULL): the file itself is remembered under the name an #include would find it *)
Definition read_wcoll (fs : fsys) (file : bytes) : rres :=
  match lookup fs file with
  | None => RFatal
  | Some content =>
    let dir := dirname file in
    read_lines fs dir (read_fuel fs) (file_lines content) [dir ++ 47 :: basename file]
  end.

(* read_wcoll("-", NULL) / read_wcoll(NULL, stdin): search directory ".", nothing remembered *)
Definition read_stream (fs : fsys) (content : bytes) : rres :=
  read_lines fs [46] (read_fuel fs) (file_lines content) [].
