(* Specification S of property C02, independent of how pdsh computes it:
   the final target list is the target sequence, filtered.  Nothing here mentions ranges,
   iterators, buffers or the order of the command line. *)
From PV Require Export Base.Bytes.
From Coq Require Export Permutation.
Local Open Scope N_scope.

Section Spec.
Variable matches : bytes -> bytes -> bool.   (* does the regular expression match the host name *)

(* whole-name membership *)
Definition memb (h : bytes) (l : list bytes) : bool := existsb (beq h) l.

(* a host survives iff no exclusion names it, every keep-regex matches it and no drop-regex does *)
Definition survives (excl keep drop : list bytes) (h : bytes) : bool :=
  negb (memb h excl) && forallb (fun p => matches p h) keep && negb (existsb (fun p => matches p h) drop).

Definition final (targets excl keep drop : list bytes) : list bytes :=
  filter (survives excl keep drop) targets.
End Spec.

(* order is kept: the result is a subsequence of the targets *)
Inductive subseq {A} : list A -> list A -> Prop :=
| sub_nil : subseq [] []
| sub_take x a b : subseq a b -> subseq (x :: a) (x :: b)
| sub_skip x a b : subseq a b -> subseq a (x :: b).

(* number of occurrences of a name *)
Definition occ (h : bytes) (l : list bytes) : nat := length (filter (beq h) l).
