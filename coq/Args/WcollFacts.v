(* Proofs for property C10: the model of wcoll.c / opt.c (Args/WcollFile.v, Args/Assemble.v) meets the
   specification Args/WcollSpec.v, for every file system, every line length and every include graph. *)
From PV Require Import Args.WcollSpec.
Local Open Scope N_scope.

(* ------------------------------------------------------------------------------------------------ *)
(* generic list facts                                                                                 *)
(* ------------------------------------------------------------------------------------------------ *)
Lemma lookup_In fs p c : lookup fs p = Some c -> In (p, c) fs.
Proof.
  induction fs as [|[q d] r IH]; cbn [lookup]; [discriminate|].
  destruct (beq p q) eqn:E.
  - intro H; inversion H; subst. apply beq_eq in E; subst. left; reflexivity.
  - intro H; right; auto.
Qed.

Lemma existsb_beq_In p l : existsb (beq p) l = true <-> In p l.
Proof.
  rewrite existsb_exists. split.
  - intros (x & Hx & E). apply beq_eq in E; subst; auto.
  - intro H. exists p; split; auto. apply beq_refl.
Qed.
Lemma existsb_beq_nIn p l : existsb (beq p) l = false <-> ~ In p l.
Proof.
  split; intro H.
  - intro Hin. apply existsb_beq_In in Hin. congruence.
  - destruct (existsb (beq p) l) eqn:E; auto. apply existsb_beq_In in E. contradiction.
Qed.

Lemma take_while_forallb p s : forallb p (take_while p s) = true.
Proof. induction s as [|x r IH]; cbn; auto. destruct (p x) eqn:E; cbn; auto. rewrite E; auto. Qed.
Lemma drop_while_head p s x r : drop_while p s = x :: r -> p x = false.
Proof.
  induction s as [|y t IH]; cbn; [discriminate|]. destruct (p y) eqn:E; auto.
  intro H; inversion H; subst; auto.
Qed.
Lemma drop_while_sub (p q : N -> bool) s :
  (forall x, p x = true -> q x = true) -> drop_while q (drop_while p s) = drop_while q s.
Proof.
  intro H. induction s as [|x r IH]; cbn; auto.
  destruct (p x) eqn:E.
  - rewrite (H _ E). auto.
  - cbn. reflexivity.
Qed.
Lemma drop_while_app_all p a b : forallb p a = true -> drop_while p (a ++ b) = drop_while p b.
Proof. induction a as [|x a IH]; cbn; auto. intro H. apply andb_true_iff in H as [H1 H2]. rewrite H1; auto. Qed.
Lemma take_while_app_all p a b : forallb p a = true -> take_while p (a ++ b) = a ++ take_while p b.
Proof. induction a as [|x a IH]; cbn; auto. intro H. apply andb_true_iff in H as [H1 H2]. rewrite H1, IH; auto. Qed.
Lemma drop_while_nil_forallb p s : drop_while p s = [] -> forallb p s = true.
Proof. induction s as [|x r IH]; cbn; auto. destruct (p x); [auto|discriminate]. Qed.
Lemma forallb_drop_while p s : forallb p s = true -> drop_while p s = [].
Proof. apply drop_while_all. Qed.
Lemma forallb_ext_in (p q : N -> bool) s : (forall x, In x s -> p x = q x) -> forallb p s = forallb q s.
Proof. induction s as [|x r IH]; cbn; auto. intro H. rewrite (H x) by (left; auto). rewrite IH; auto. Qed.
Lemma drop_while_ext_in (p q : N -> bool) s : (forall x, In x s -> p x = q x) -> drop_while p s = drop_while q s.
Proof. induction s as [|x r IH]; cbn; auto. intro H. rewrite (H x) by (left; auto). destruct (q x); auto. Qed.

Lemma index_split c s :
  split_at c s = match index_of c s with Some k => (firstn k s, Some (skipn (S k) s)) | None => (s, None) end.
Proof.
  induction s as [|x r IH]; cbn [split_at index_of]; auto.
  destruct (x =? c); [reflexivity|]. rewrite IH. destruct (index_of c r); reflexivity.
Qed.
Lemma index_of_none c s : index_of c s = None <-> ~ In c s.
Proof.
  induction s as [|x r IH]; cbn [index_of]; [tauto|].
  destruct (x =? c) eqn:E.
  - apply N.eqb_eq in E; subst. split; [discriminate|]. intro H; exfalso; apply H; left; auto.
  - apply N.eqb_neq in E. destruct (index_of c r) eqn:F.
    + split; [discriminate|]. intro H. exfalso. assert (~ In c r) by (intro; apply H; right; auto).
      apply IH in H0. discriminate.
    + split; auto. intros _ [H|H]; [congruence|]. apply IH in H; auto.
Qed.
Lemma index_of_firstn_app c s t k : index_of c s = Some k -> firstn k (s ++ t) = firstn k s.
Proof.
  revert k; induction s as [|x r IH]; cbn [index_of]; [discriminate|]. intro k.
  destruct (x =? c); [intro H; inversion H; reflexivity|].
  destruct (index_of c r) eqn:F; [|discriminate]. intro H; inversion H; subst. cbn. f_equal. auto.
Qed.
Lemma index_of_app_l c s t k : index_of c s = Some k -> index_of c (s ++ t) = Some k.
Proof.
  revert k; induction s as [|x r IH]; cbn [index_of app]; [discriminate|]. intro k.
  destruct (x =? c); auto. destruct (index_of c r) eqn:F; [|discriminate].
  intro H; inversion H; subst. rewrite (IH n); auto.
Qed.
Lemma index_of_app_r c s x : ~ In c s -> x <> c -> index_of c (s ++ [x]) = None.
Proof.
  intros H1 H2. apply index_of_none. intro H. apply in_app_or in H as [H|[H|[]]]; auto.
Qed.

(* ------------------------------------------------------------------------------------------------ *)
(* getline buffers and text lines                                                                     *)
(* ------------------------------------------------------------------------------------------------ *)
(* a getline buffer and the line it holds *)
Definition bufline (buf l : bytes) : Prop := (buf = l ++ [10] \/ buf = l) /\ ~ In 10 l.

Definition prefix_first (a : bytes) (ps : list bytes) : list bytes :=
  match ps with p :: r => (a ++ p) :: r | [] => [a] end.
Definition drop_last_empty (ps : list bytes) : list bytes :=
  match last ps [1] with [] => removelast ps | _ => ps end.

Lemma drop_last_empty_cons x ps : ps <> [] -> drop_last_empty (x :: ps) = x :: drop_last_empty ps.
Proof.
  intro H. unfold drop_last_empty. destruct ps as [|y r]; [congruence|].
  change (last (x :: y :: r) [1]) with (last (y :: r) [1]).
  destruct (last (y :: r) [1]); [|reflexivity].
  change (removelast (x :: y :: r)) with (x :: removelast (y :: r)). reflexivity.
Qed.

Lemma frev_rev l : frev l = rev l.
Proof. unfold frev. symmetry. apply rev_alt. Qed.

Lemma lines_acc_spec s : forall cur, ~ In 10 cur ->
  Forall2 bufline (lines_acc s cur) (drop_last_empty (prefix_first (rev cur) (split_all 10 s))).
Proof.
  induction s as [|b r IH]; intros cur Hc.
  - cbn [lines_acc split_all prefix_first]. rewrite ?frev_rev, app_nil_r.
    destruct cur as [|x cur'].
    + cbn. constructor.
    + unfold drop_last_empty. cbn [last]. destruct (rev (x :: cur')) eqn:E.
      * apply (f_equal (@length _)) in E. rewrite rev_length in E. discriminate.
      * rewrite <- E. constructor; [|constructor]. split; [right; reflexivity|].
        rewrite <- in_rev. exact Hc.
  - cbn [lines_acc split_all]. rewrite ?frev_rev. destruct (b =? 10) eqn:E.
    + apply N.eqb_eq in E; subst b. cbn [prefix_first]. rewrite app_nil_r.
      rewrite drop_last_empty_cons by apply split_all_nonempty.
      constructor.
      * split; [left; reflexivity| rewrite <- in_rev; exact Hc].
      * specialize (IH [] (fun H => H)). cbn [rev] in IH.
        destruct (split_all 10 r) as [|p ps] eqn:F; [exfalso; eapply split_all_nonempty; eauto|].
        cbn [prefix_first app] in IH. exact IH.
    + apply N.eqb_neq in E.
      assert (Hc' : ~ In 10 (b :: cur)) by (intros [H|H]; [congruence|auto]).
      specialize (IH (b :: cur) Hc').
      destruct (split_all 10 r) as [|p ps] eqn:F; [exfalso; eapply split_all_nonempty; eauto|].
      cbn [prefix_first rev] in *. rewrite <- app_assoc in IH. exact IH.
Qed.

Lemma file_lines_text_lines c : Forall2 bufline (file_lines c) (text_lines c).
Proof.
  unfold file_lines, text_lines. pose proof (lines_acc_spec c [] (fun H => H)) as H.
  cbn [rev] in H. destruct (split_all 10 c) as [|p ps] eqn:F; [exfalso; eapply split_all_nonempty; eauto|].
  cbn [prefix_first app] in H. exact H.
Qed.

(* ------------------------------------------------------------------------------------------------ *)
(* one line: the code's tokenizer against the directive of the specification                          *)
(* ------------------------------------------------------------------------------------------------ *)
Definition nonsep (b : N) : bool := negb (dsep b).

Lemma is_tok_sep_dsep b : is_tok_sep b = dsep b.
Proof. unfold is_tok_sep, dsep. destruct (b =? 10), (b =? 13), (b =? 9), (b =? 32); reflexivity. Qed.
Lemma blank_dsep b : is_blank b = true -> dsep b = true.
Proof. unfold is_blank, dsep. destruct (b =? 32), (b =? 9); cbn; auto; discriminate. Qed.

Definition tokenize (x : bytes) : option bytes :=
  let p1 := drop_while dsep x in
  let tok := take_while nonsep p1 in
  let rest := drop_while dsep (drop_while nonsep p1) in
  match tok, rest with [], _ => None | _, [] => Some tok | _, _ => None end.

Lemma include_file_eq line :
  include_file line = if is_prefix kw line then Some (tokenize (skipn 8 line)) else None.
Proof.
  unfold include_file, tokenize. change kw_include with kw. destruct (is_prefix kw line); [|reflexivity].
  assert (E1 : forall s, drop_while is_tok_sep s = drop_while dsep s)
    by (intro s; apply drop_while_ext_in; intros; apply is_tok_sep_dsep).
  assert (E2 : forall s, drop_while (fun b => negb (is_tok_sep b)) s = drop_while nonsep s)
    by (intro s; apply drop_while_ext_in; intros; unfold nonsep; rewrite is_tok_sep_dsep; reflexivity).
  assert (E3 : forall s, take_while (fun b => negb (is_tok_sep b)) s = take_while nonsep s).
  { intro s. induction s as [|x r IH]; cbn; auto. unfold nonsep at 1. rewrite is_tok_sep_dsep.
    destruct (negb (dsep x)); congruence. }
  rewrite !E1, E2, E3.
  rewrite (drop_while_sub is_blank dsep) by apply blank_dsep.
  destruct (take_while nonsep (drop_while dsep (skipn 8 line))); [reflexivity|].
  destruct (drop_while dsep (drop_while nonsep (drop_while dsep (skipn 8 line)))); reflexivity.
Qed.

Lemma tokenize_sound x g : tokenize x = Some g ->
  exists pre post, x = pre ++ g ++ post /\ forallb dsep pre = true /\ forallb dsep post = true /\
                   g <> [] /\ forallb nonsep g = true.
Proof.
  unfold tokenize. set (p1 := drop_while dsep x).
  destruct (take_while nonsep p1) as [|t ts] eqn:Et; [discriminate|].
  destruct (drop_while dsep (drop_while nonsep p1)) eqn:Er; [|discriminate].
  intro H; inversion H; subst g. exists (take_while dsep x), (drop_while nonsep p1).
  rewrite <- Et. repeat split.
  - rewrite (take_drop_while nonsep p1). unfold p1. symmetry. apply take_drop_while.
  - apply take_while_forallb.
  - apply drop_while_nil_forallb; auto.
  - rewrite Et; discriminate.
  - apply take_while_forallb.
Qed.

Lemma tokenize_complete pre g post :
  forallb dsep pre = true -> forallb dsep post = true -> g <> [] -> forallb nonsep g = true ->
  tokenize (pre ++ g ++ post) = Some g.
Proof.
  intros Hpre Hpost Hg Hn. unfold tokenize.
  destruct g as [|y g']; [congruence|].
  assert (Hy : dsep y = false).
  { cbn in Hn. apply andb_true_iff in Hn as [Hn _]. unfold nonsep in Hn. destruct (dsep y); auto; discriminate. }
  assert (E1 : drop_while dsep (pre ++ (y :: g') ++ post) = (y :: g') ++ post).
  { change ((y :: g') ++ post) with (y :: (g' ++ post)). apply drop_while_app_stop; auto. }
  rewrite E1.
  assert (E2 : take_while nonsep ((y :: g') ++ post) = y :: g' /\ drop_while nonsep ((y :: g') ++ post) = post).
  { destruct post as [|z post'].
    - rewrite app_nil_r. split; [apply take_while_all|apply drop_while_all]; auto.
    - assert (Hz : nonsep z = false).
      { cbn in Hpost. apply andb_true_iff in Hpost as [Hz _]. unfold nonsep. rewrite Hz. reflexivity. }
      split; [apply take_while_app_stop|apply drop_while_app_stop]; auto. }
  destruct E2 as [E2 E3]. rewrite E2, E3. rewrite (drop_while_all dsep post Hpost). reflexivity.
Qed.

Lemma directive_unique l g1 g2 : directive l g1 -> directive l g2 -> g1 = g2.
Proof.
  intros (pre1 & post1 & E1 & A1 & B1 & C1 & D1) (pre2 & post2 & E2 & A2 & B2 & C2 & D2).
  assert (H1 := tokenize_complete pre1 g1 post1 A1 B1 C1 D1).
  assert (H2 := tokenize_complete pre2 g2 post2 A2 B2 C2 D2).
  rewrite E1 in E2. apply app_inv_head in E2. rewrite E2 in H1. congruence.
Qed.

Lemma directive_prefix l g : directive l g -> is_prefix kw l = true.
Proof. intros (pre & post & E & _). subst. apply is_prefix_app. Qed.

Lemma include_file_directive line g : include_file line = Some (Some g) <-> directive line g.
Proof.
  rewrite include_file_eq. split.
  - destruct (is_prefix kw line) eqn:E; [|discriminate]. intro H. inversion H as [H1].
    apply is_prefix_spec in E as (r & ->).
    change (tokenize r = Some g) in H1.
    apply tokenize_sound in H1 as (pre & post & -> & A & B & C & D). exists pre, post. auto.
  - intros (pre & post & -> & A & B & C & D). rewrite is_prefix_app.
    assert (Es : skipn 8 (kw ++ pre ++ g ++ post) = pre ++ g ++ post) by reflexivity. rewrite Es.
    rewrite tokenize_complete; auto.
Qed.

Lemma directive_nl l g : directive l g -> directive (l ++ [10]) g.
Proof.
  intros (pre & post & -> & A & B & C & D). exists pre, (post ++ [10]). repeat split; auto.
  - rewrite <- !app_assoc. reflexivity.
  - rewrite forallb_app, B. reflexivity.
Qed.

Lemma directive_chomp l g : directive (l ++ [10]) g -> directive l g.
Proof.
  intros (pre & post & E & A & B & C & D).
  destruct post as [|p0 ps].
  - rewrite app_nil_r in E. destruct (exists_last C) as (g' & z & ->).
    rewrite !app_assoc in E. apply app_inj_tail in E as [_ <-].
    rewrite forallb_app in D. apply andb_true_iff in D as [_ D]. cbn in D. discriminate.
  - assert (Hne : p0 :: ps <> []) by discriminate.
    destruct (exists_last Hne) as (post' & z & Ep). rewrite Ep in *.
    rewrite !app_assoc in E. apply app_inj_tail in E as [E <-].
    exists pre, post'. rewrite forallb_app in B. apply andb_true_iff in B as [B _].
    repeat split; auto. rewrite E, <- !app_assoc. reflexivity.
Qed.

(* ---- xstrcln against trim ---- *)
Lemma In_drop_while p s x : In x (drop_while p s) -> In x s.
Proof. induction s as [|y r IH]; cbn; auto. destruct (p y); auto. Qed.
Lemma In_firstn {A} (x : A) k s : In x (firstn k s) -> In x s.
Proof. revert s; induction k; intros [|y r]; cbn; try tauto. intros [H|H]; auto. Qed.
Lemma drop_while_app_ne p a b : drop_while p a <> [] -> drop_while p (a ++ b) = drop_while p a ++ b.
Proof. induction a as [|x a IH]; cbn; [congruence|]. destruct (p x); auto. Qed.

Lemma sp_blank x : x <> 10 -> is_sp x = blank x.
Proof. intro H. unfold is_sp, blank. apply N.eqb_neq in H. rewrite H. cbn. apply orb_comm. Qed.

Lemma strip_trim l : ~ In 10 l -> strip l = trim l.
Proof.
  intro H. unfold strip, trim. rewrite !frev_rev.
  assert (E1 : drop_while is_sp l = drop_while blank l).
  { apply drop_while_ext_in. intros x Hx. apply sp_blank. intro; subst; auto. }
  rewrite E1. f_equal. apply drop_while_ext_in. intros x Hx. apply sp_blank. intro; subst.
  apply in_rev in Hx. apply In_drop_while in Hx. auto.
Qed.

Lemma strip_nl l : strip (l ++ [10]) = strip l.
Proof.
  unfold strip. rewrite !frev_rev. destruct (drop_while is_sp l) eqn:E.
  - apply drop_while_nil_forallb in E. rewrite drop_while_app_all by auto. reflexivity.
  - rewrite drop_while_app_ne by (rewrite E; discriminate). rewrite E.
    rewrite rev_app_distr. cbn [rev app]. reflexivity.
Qed.

Lemma cstr_id s : ~ In 0 s -> cstr s = s.
Proof.
  intro H. unfold cstr. apply take_while_all. apply forallb_forall. intros x Hx.
  destruct (x =? 0) eqn:E; auto. apply N.eqb_eq in E; subst. contradiction.
Qed.

Lemma cut_comment buf l : bufline buf l ->
  strip (match index_of 35 buf with Some k => firstn k buf | None => buf end) = entry l.
Proof.
  intros [[->| ->] Hnl]; unfold entry; rewrite index_split.
  - destruct (index_of 35 l) as [k|] eqn:E.
    + rewrite (index_of_app_l _ _ _ _ E), (index_of_firstn_app _ _ _ _ E). cbn [fst].
      apply strip_trim. intro H. apply In_firstn in H. auto.
    + apply index_of_none in E. rewrite index_of_app_r by (auto; discriminate). cbn [fst].
      rewrite strip_nl. apply strip_trim; auto.
  - destruct (index_of 35 l) as [k|] eqn:E; cbn [fst]; apply strip_trim; auto.
    intro H. apply In_firstn in H. auto.
Qed.

(* ------------------------------------------------------------------------------------------------ *)
(* unfolding the reader                                                                               *)
(* ------------------------------------------------------------------------------------------------ *)
Definition nested_of (fs : fsys) (dir : bytes) (fuel : nat) : list bytes -> list bytes -> rres :=
  match fuel with O => fun _ _ => RDiverges | S f => read_lines fs dir f end.
Lemma read_lines_nil fs dir fuel cache : read_lines fs dir fuel [] cache = ROk [] cache 0.
Proof. destruct fuel; reflexivity. Qed.
Lemma read_lines_cons fs dir fuel b bs cache :
  read_lines fs dir fuel (b :: bs) cache =
  then_result (line_result fs dir (nested_of fs dir fuel) cache b) (read_lines fs dir fuel bs).
Proof. destruct fuel; reflexivity. Qed.

Lemma line_okb_spec l : line_okb l = true ->
  ~ In 0 l /\ (is_prefix kw l = true -> (length l < 4095)%nat).
Proof.
  unfold line_okb. intro H. apply andb_true_iff in H as [H1 H2]. split.
  - intro Hin. apply mem_In in Hin. rewrite Hin in H1. discriminate.
  - intro Hp. rewrite Hp in H2. cbn in H2. apply N.ltb_lt in H2. lia.
Qed.

Lemma hash_prefix s : is_prefix [35] s = true <-> hd 0 s = 35.
Proof.
  destruct s as [|x r]; cbn [is_prefix hd]; [split; [discriminate|intro H; discriminate]|].
  rewrite andb_true_r. rewrite N.eqb_eq. split; intro; subst; auto.
Qed.
Lemma kw_prefix_hash l : is_prefix kw l = true -> hd 0 l = 35.
Proof. intro H. apply is_prefix_spec in H as (r & ->). reflexivity. Qed.

Lemma kw_prefix_chomp l : is_prefix kw (l ++ [10]) = is_prefix kw l.
Proof.
  destruct (is_prefix kw l) eqn:E.
  - apply is_prefix_spec in E as (r & ->). rewrite <- app_assoc. apply is_prefix_app.
  - destruct (is_prefix kw (l ++ [10])) eqn:F; auto.
    apply is_prefix_spec in F as (r & F).
    destruct r as [|r0 rs].
    + rewrite app_nil_r in F. change kw with ([35;105;110;99;108;117;100] ++ [101]) in F.
      apply app_inj_tail in F as [_ F]. discriminate.
    + assert (Hne : r0 :: rs <> []) by discriminate.
      destruct (exists_last Hne) as (r' & z & Er). rewrite Er in F.
      rewrite app_assoc in F. apply app_inj_tail in F as [F _]. subst l.
      rewrite is_prefix_app in E. discriminate.
Qed.

Section Sound.
Variable fs : fsys.
Variable dir : bytes.
Hypothesis HD : D10 fs = true.

Definition readable (p : bytes) : Prop := lookup fs p <> None.

Lemma D10_lookup p c : lookup fs p = Some c -> (length p < 4096)%nat /\ text_okb c = true.
Proof.
  intro H. apply lookup_In in H. unfold D10 in HD. rewrite forallb_forall in HD.
  specialize (HD _ H). cbn [fst snd] in HD. apply andb_true_iff in HD as [H1 H2].
  apply N.ltb_lt in H1. split; [lia|auto].
Qed.

Lemma line_action_sound buf l : bufline buf l -> line_okb l = true ->
  match line_action fs dir buf with
  | LExpr eo => line_kind l (Gives (match eo with Some e => [e] | None => [] end) 0)
  | LWarn => line_kind l (Gives [] 1)
  | LInclude path => exists g, line_kind l (Includes g) /\ path = locate dir g /\ (as_is g = false -> readable path)
  | LFatal => exists g, line_kind l (Includes g) /\ as_is g = false /\ lookup fs (locate dir g) = None
  | LFault => False
  end.
Proof.
  intros Hb Hok. apply line_okb_spec in Hok as [Hnul Hshort].
  assert (Hnul' : ~ In 0 buf).
  { destruct Hb as [[->| ->] _]; auto. intro H. apply in_app_or in H as [H|[H|[]]]; [auto|discriminate]. }
  unfold line_action. rewrite (cstr_id _ Hnul').
  assert (Ehash : is_prefix [35] buf = is_prefix [35] l).
  { destruct Hb as [[->| ->] _]; auto. destruct l; reflexivity. }
  assert (Ekw : is_prefix kw buf = is_prefix kw l).
  { destruct Hb as [[->| ->] _]; auto. apply kw_prefix_chomp. }
  assert (Edir : forall g, directive buf g <-> directive l g).
  { intro g. destruct Hb as [[->| ->] _]; [|tauto]. split; [apply directive_chomp|apply directive_nl]. }
  rewrite Ehash. destruct (is_prefix [35] l) eqn:Eh.
  - apply hash_prefix in Eh.
    destruct (include_file buf) as [[g|]|] eqn:Ei.
    + apply include_file_directive in Ei. apply Edir in Ei.
      assert (Hlen : (length g < 4095)%nat).
      { specialize (Hshort (directive_prefix _ _ Ei)).
        destruct Ei as (pre & post & -> & _). rewrite !app_length in Hshort. lia. }
      unfold resolve. change (as_is g) with (taken_as_is g).
      destruct (taken_as_is g) eqn:Ea.
      * assert (E : N.of_nat (length g) <? WCOLL_PATHBUF - 1 = true)
          by (apply N.ltb_lt; unfold WCOLL_PATHBUF; lia).
        rewrite E. exists g. split; [constructor; auto|]. split.
        -- unfold locate. rewrite Ea. reflexivity.
        -- unfold as_is. unfold taken_as_is in Ea. congruence.
      * assert (El : locate dir g = dir ++ 47 :: g) by (unfold locate; rewrite Ea; reflexivity).
        destruct (WCOLL_PATHBUF <=? N.of_nat (length (dir ++ 47 :: g))) eqn:Elen.
        -- exists g. split; [constructor; auto|]. split; [exact Ea|].
           rewrite El. destruct (lookup fs (dir ++ 47 :: g)) eqn:F; auto.
           apply D10_lookup in F as [F _]. apply N.leb_le in Elen. unfold WCOLL_PATHBUF in Elen. lia.
        -- destruct (lookup fs (dir ++ 47 :: g)) eqn:F.
           ++ exists g. split; [constructor; auto|]. split; auto.
              intros _. unfold readable. rewrite <- El, El, F. discriminate.
           ++ exists g. split; [constructor; auto|]. split; [exact Ea|]. rewrite El. exact F.
    + rewrite include_file_eq in Ei. destruct (is_prefix kw buf) eqn:Ek; [|discriminate].
      apply K_malformed; [congruence|]. intros g Hg. apply Edir in Hg.
      apply include_file_directive in Hg. rewrite include_file_eq, Ek in Hg. congruence.
    + rewrite include_file_eq in Ei. destruct (is_prefix kw buf) eqn:Ek; [discriminate|].
      apply K_comment; [auto|congruence].
  - assert (Hh : hd 0 l <> 35) by (intro H; apply hash_prefix in H; congruence).
    unfold line_expr. cbv zeta.
    match goal with |- context [strip ?t] => replace (strip t) with (entry l) by (symmetry; exact (cut_comment _ _ Hb)) end.
    pose proof (K_entry l Hh) as K. destruct (entry l); exact K.
Qed.

(* what a result of the reader must be, for the lines ls read with the files in cache seen *)
Definition meets (ls : list bytes) (cache : list bytes) (r : rres) : Prop :=
  match r with
  | ROk es c w => reads fs dir ls cache (Some (es, c, w)) /\ Forall readable c
  | RFatal => reads fs dir ls cache None
  | RFault => False
  | RDiverges => True
  end.
Definition sound_reader (rd : list bytes -> list bytes -> rres) : Prop :=
  forall bufs ls cache, Forall2 bufline bufs ls -> forallb line_okb ls = true -> Forall readable cache ->
                        meets ls cache (rd bufs cache).

Lemma then_gives l ls cache es0 w0 k :
  line_kind l (Gives es0 w0) -> Forall readable cache -> meets ls cache (k cache) ->
  meets (l :: ls) cache (then_result (ROk es0 cache w0) k).
Proof.
  intros K Hc H. cbn [then_result]. destruct (k cache) as [es2 c2 w2| | |]; cbn [meets] in *; auto.
  - destruct H as [H1 H2]. split; auto.
    exact (Rd_line fs dir l ls cache es0 w0 _ K H1).
  - exact (Rd_line fs dir l ls cache es0 w0 _ K H).
Qed.

Lemma lines_sound fuel : sound_reader (nested_of fs dir fuel) -> sound_reader (read_lines fs dir fuel).
Proof.
  intros Hn bufs ls cache HF. revert cache. induction HF as [|buf l bufs ls Hb HF IH]; intros cache Hok Hc.
  - rewrite read_lines_nil. cbn. split; [constructor|auto].
  - rewrite read_lines_cons. cbn [forallb] in Hok. apply andb_true_iff in Hok as [Hok1 Hok2].
    pose proof (line_action_sound buf l Hb Hok1) as Ha. unfold line_result.
    destruct (line_action fs dir buf) as [[e|]| |path| |] eqn:Ea.
    + apply then_gives; auto.
    + apply then_gives; auto.
    + apply then_gives; auto.
    + destruct Ha as (g & K & -> & Hr).
      destruct (existsb (beq (locate dir g)) cache) eqn:Ec.
      * apply existsb_beq_In in Ec. cbn [then_result]. specialize (IH cache Hok2 Hc).
        destruct (read_lines fs dir fuel bufs cache) as [es2 c2 w2| | |]; cbn [meets] in *; auto.
        -- destruct IH as [H1 H2]. split; auto. exact (Rd_again fs dir l g ls cache _ K Ec H1).
        -- exact (Rd_again fs dir l g ls cache _ K Ec IH).
      * apply existsb_beq_nIn in Ec.
        destruct (lookup fs (locate dir g)) as [content|] eqn:El.
        -- destruct (D10_lookup _ _ El) as [_ Ht].
           assert (Hc' : Forall readable (locate dir g :: cache)).
           { constructor; auto. unfold readable. rewrite El. discriminate. }
           pose proof (Hn (file_lines content) (text_lines content) (locate dir g :: cache)
                          (file_lines_text_lines content) Ht Hc') as H1.
           destruct (nested_of fs dir fuel (file_lines content) (locate dir g :: cache)) as [es1 c1 w1| | |];
             cbn [then_result meets] in *; auto.
           ++ destruct H1 as [H1 Hc1]. specialize (IH c1 Hok2 Hc1).
              destruct (read_lines fs dir fuel bufs c1) as [es2 c2 w2| | |]; cbn [meets] in *; auto.
              ** destruct IH as [H2 H3]. split; auto.
                 exact (Rd_include fs dir l g ls cache content es1 c1 w1 _ K Ec El H1 H2).
              ** exact (Rd_include fs dir l g ls cache content es1 c1 w1 _ K Ec El H1 IH).
           ++ exact (Rd_include_error fs dir l g ls cache content K Ec El H1).
        -- cbn [then_result meets]. exact (Rd_unreadable fs dir l g ls cache K Ec El).
    + destruct Ha as (g & K & Ha & El). cbn [then_result meets].
      apply (Rd_unreadable fs dir l g ls cache K); auto.
      intro Hin. rewrite Forall_forall in Hc. apply Hc in Hin. apply Hin. exact El.
    + destruct Ha.
Qed.

Lemma read_lines_sound fuel : sound_reader (read_lines fs dir fuel).
Proof.
  induction fuel as [|f IH]; apply lines_sound.
  - intros bufs ls cache _ _ _. exact I.
  - exact IH.
Qed.
End Sound.

(* ------------------------------------------------------------------------------------------------ *)
(* the fuel never runs out: every nested read enters a new readable path in the cache                 *)
(* ------------------------------------------------------------------------------------------------ *)
Lemma filter_len_le {A} (f g : A -> bool) l :
  (forall x, g x = true -> f x = true) -> (length (filter g l) <= length (filter f l))%nat.
Proof.
  intro H. induction l as [|x r IH]; cbn; auto.
  destruct (g x) eqn:E.
  - rewrite (H _ E). cbn. lia.
  - destruct (f x); cbn; lia.
Qed.
Lemma filter_len_lt {A} (f g : A -> bool) l p :
  (forall x, g x = true -> f x = true) -> In p l -> f p = true -> g p = false ->
  (length (filter g l) < length (filter f l))%nat.
Proof.
  intros H Hin Hf Hg. induction l as [|x r IH]; [destruct Hin|].
  cbn. destruct Hin as [->|Hin].
  - rewrite Hf, Hg. cbn. pose proof (filter_len_le f g r H). lia.
  - specialize (IH Hin). destruct (g x) eqn:E.
    + rewrite (H _ E). cbn. lia.
    + destruct (f x); cbn; lia.
Qed.
Lemma filter_len_all {A} (f : A -> bool) l : (length (filter f l) <= length l)%nat.
Proof. induction l as [|x r IH]; cbn; auto. destruct (f x); cbn; lia. Qed.

Section Term.
Variable fs : fsys.
Variable dir : bytes.

(* readable paths not yet in the cache *)
Definition avail (cache : list bytes) : nat :=
  length (filter (fun p => negb (existsb (beq p) cache)) (map fst fs)).

Lemma avail_bound cache : (avail cache <= length fs)%nat.
Proof. unfold avail. etransitivity; [apply filter_len_all|]. rewrite map_length. auto. Qed.

Lemma avail_mono c1 c2 : incl c1 c2 -> (avail c2 <= avail c1)%nat.
Proof.
  intro H. apply filter_len_le. intros x Hx.
  destruct (existsb (beq x) c1) eqn:E; auto.
  apply existsb_beq_In in E. apply H in E. apply existsb_beq_In in E. rewrite E in Hx. discriminate.
Qed.

Lemma avail_cons p c cache : lookup fs p = Some c -> ~ In p cache -> (avail (p :: cache) < avail cache)%nat.
Proof.
  intros Hl Hn. apply (filter_len_lt _ _ _ p).
  - intros x Hx. cbn [existsb] in Hx. destruct (existsb (beq x) cache); auto.
    rewrite orb_true_r in Hx. discriminate.
  - apply lookup_In in Hl. apply (in_map fst) in Hl. exact Hl.
  - apply existsb_beq_nIn in Hn. rewrite Hn. reflexivity.
  - cbn [existsb]. rewrite beq_refl. reflexivity.
Qed.

(* the cache only grows *)
Definition grows (rd : list bytes -> list bytes -> rres) : Prop :=
  forall bufs cache es c w, rd bufs cache = ROk es c w -> incl cache c.

Lemma then_result_ok r k es c w :
  then_result r k = ROk es c w ->
  exists es1 c1 w1 es2 w2, r = ROk es1 c1 w1 /\ k c1 = ROk es2 c w2 /\ es = es1 ++ es2 /\ w = (w1 + w2)%nat.
Proof.
  unfold then_result. destruct r as [es1 c1 w1| | |]; try discriminate.
  destruct (k c1) as [es2 c2 w2| | |] eqn:E; try discriminate.
  intro H; inversion H; subst. exists es1, c1, w1, es2, w2. auto.
Qed.

Lemma line_result_grows nested cache b es c w :
  grows nested -> line_result fs dir nested cache b = ROk es c w -> incl cache c.
Proof.
  intros Hn. unfold line_result.
  destruct (line_action fs dir b) as [[e|]| |path| |]; try discriminate;
    try (intro H; inversion H; subst; apply incl_refl).
  destruct (existsb (beq path) cache); [intro H; inversion H; subst; apply incl_refl|].
  destruct (lookup fs path); [|discriminate].
  intro H. apply Hn in H. intros x Hx. apply H. right; auto.
Qed.

Lemma lines_grow fuel : grows (nested_of fs dir fuel) -> grows (read_lines fs dir fuel).
Proof.
  intros Hn bufs. induction bufs as [|b bs IH]; intros cache es c w.
  - rewrite read_lines_nil. intro H; inversion H; subst. apply incl_refl.
  - rewrite read_lines_cons. intro H.
    apply then_result_ok in H as (es1 & c1 & w1 & es2 & w2 & H1 & H2 & _ & _).
    apply (line_result_grows _ _ _ _ _ _ Hn) in H1. apply IH in H2.
    intros x Hx. auto.
Qed.
Lemma read_lines_grows fuel : grows (read_lines fs dir fuel).
Proof.
  induction fuel as [|f IH]; apply lines_grow; auto.
  intros bufs cache es c w H. discriminate.
Qed.
Lemma nested_grows fuel : grows (nested_of fs dir fuel).
Proof. destruct fuel; [intros bufs cache es c w H; discriminate|apply read_lines_grows]. Qed.

Lemma then_result_diverges r k :
  then_result r k = RDiverges -> r = RDiverges \/ exists es c w, r = ROk es c w /\ k c = RDiverges.
Proof.
  unfold then_result. destruct r as [es1 c1 w1| | |]; try discriminate; auto.
  destruct (k c1) eqn:E; try discriminate. intros _. right. exists es1, c1, w1. auto.
Qed.

Lemma term_lines fuel :
  (forall bufs cache, (avail cache < fuel)%nat -> nested_of fs dir fuel bufs cache <> RDiverges) ->
  forall bufs cache, (avail cache <= fuel)%nat -> read_lines fs dir fuel bufs cache <> RDiverges.
Proof.
  intros Hn bufs. induction bufs as [|b bs IH]; intros cache Hav.
  - rewrite read_lines_nil. discriminate.
  - rewrite read_lines_cons. intro H. apply then_result_diverges in H as [H|(es & c & w & H1 & H2)].
    + unfold line_result in H.
      destruct (line_action fs dir b) as [[e|]| |path| |]; try discriminate.
      destruct (existsb (beq path) cache) eqn:Ec; [discriminate|].
      destruct (lookup fs path) eqn:El; [|discriminate].
      apply existsb_beq_nIn in Ec. pose proof (avail_cons _ _ _ El Ec).
      apply Hn in H; auto. lia.
    + apply (line_result_grows _ _ _ _ _ _ (nested_grows fuel)) in H1.
      apply avail_mono in H1. apply IH in H2; auto. lia.
Qed.

Lemma read_lines_terminates : forall fuel bufs cache,
  (avail cache <= fuel)%nat -> read_lines fs dir fuel bufs cache <> RDiverges.
Proof.
  induction fuel as [|f IH]; apply term_lines.
  - intros bufs cache H. lia.
  - intros bufs cache H. cbn [nested_of]. apply IH. lia.
Qed.
End Term.

Lemma read_wcoll_terminates fs file : read_wcoll fs file <> RDiverges.
Proof.
  unfold read_wcoll. destruct (lookup fs file); [|discriminate].
  apply read_lines_terminates. unfold read_fuel. pose proof (avail_bound fs [dirname file ++ 47 :: basename file]). lia.
Qed.
Lemma read_stream_terminates fs content : read_stream fs content <> RDiverges.
Proof.
  unfold read_stream. apply read_lines_terminates. unfold read_fuel. pose proof (avail_bound fs []). lia.
Qed.

(* more fuel changes nothing once the reader has terminated *)
Lemma line_result_stable fs dir n1 n2 cache b :
  (forall bufs c, n1 bufs c <> RDiverges -> n2 bufs c = n1 bufs c) ->
  line_result fs dir n1 cache b <> RDiverges -> line_result fs dir n2 cache b = line_result fs dir n1 cache b.
Proof.
  intros Hn. unfold line_result.
  destruct (line_action fs dir b) as [[e|]| |path| |]; auto.
  destruct (existsb (beq path) cache); auto. destruct (lookup fs path); auto.
Qed.
Lemma stable_lines fs dir f f' :
  (forall bufs c, nested_of fs dir f bufs c <> RDiverges -> nested_of fs dir f' bufs c = nested_of fs dir f bufs c) ->
  forall bufs cache, read_lines fs dir f bufs cache <> RDiverges ->
                     read_lines fs dir f' bufs cache = read_lines fs dir f bufs cache.
Proof.
  intros Hn bufs. induction bufs as [|b bs IH]; intros cache H.
  - rewrite !read_lines_nil. reflexivity.
  - rewrite read_lines_cons in H. rewrite !read_lines_cons.
    assert (H1 : line_result fs dir (nested_of fs dir f) cache b <> RDiverges).
    { intro E. rewrite E in H. apply H. reflexivity. }
    rewrite (line_result_stable _ _ _ _ _ _ Hn H1).
    destruct (line_result fs dir (nested_of fs dir f) cache b) as [es c w| | |] eqn:E; cbn [then_result] in *; auto.
    rewrite IH; [reflexivity|]. intro E2. rewrite E2 in H. apply H. reflexivity.
Qed.
Lemma fuel_stable fs dir : forall f f' bufs cache, (f <= f')%nat ->
  read_lines fs dir f bufs cache <> RDiverges -> read_lines fs dir f' bufs cache = read_lines fs dir f bufs cache.
Proof.
  induction f as [|f IH]; intros f' bufs cache Hle; apply stable_lines.
  - intros b c H. exfalso. apply H. reflexivity.
  - intros b c H. destruct f' as [|f'']; [lia|]. cbn [nested_of] in *. apply IH; auto. lia.
Qed.

(* ------------------------------------------------------------------------------------------------ *)
(* the specification is deterministic                                                                 *)
(* ------------------------------------------------------------------------------------------------ *)
Lemma line_kind_fun l k1 k2 : line_kind l k1 -> line_kind l k2 -> k1 = k2.
Proof.
  intros H1 H2. destruct H1 as [H1|H1 H1'|H1 H1'|g1 H1]; destruct H2 as [H2|H2 H2'|H2 H2'|g2 H2]; auto;
    try congruence.
  - apply kw_prefix_hash in H2. congruence.
  - apply directive_prefix, kw_prefix_hash in H2. congruence.
  - apply directive_prefix in H2. congruence.
  - apply kw_prefix_hash in H1. congruence.
  - exfalso. eapply H1'; eauto.
  - apply directive_prefix, kw_prefix_hash in H1. congruence.
  - apply directive_prefix in H1. congruence.
  - exfalso. eapply H2'; eauto.
  - f_equal. eapply directive_unique; eauto.
Qed.

Ltac same_kinds :=
  repeat match goal with
  | H1 : line_kind ?l ?k1, H2 : line_kind ?l ?k2 |- _ =>
      let E := fresh "E" in
      assert (E := line_kind_fun _ _ _ H1 H2); first [discriminate E | inversion E; subst; clear H2 E]
  end.
Ltac same_files :=
  repeat match goal with
  | H1 : lookup ?fs ?p = Some ?c1, H2 : lookup ?fs ?p = Some ?c2 |- _ =>
      rewrite H1 in H2; inversion H2; subst; clear H2
  | H1 : lookup ?fs ?p = Some _, H2 : lookup ?fs ?p = None |- _ => rewrite H1 in H2; discriminate H2
  end.

Lemma reads_fun fs dir ls seen o1 :
  reads fs dir ls seen o1 -> forall o2, reads fs dir ls seen o2 -> o1 = o2.
Proof.
  induction 1; intros o2 Hsnd; inversion Hsnd; subst; same_kinds; try contradiction; same_files; auto.
  - f_equal. auto.
  - f_equal. auto.
  - match goal with IH : forall o, reads _ _ (text_lines _) _ o -> None = o, H : reads _ _ (text_lines _) _ (Some _) |- _ =>
      apply IH in H; discriminate H end.
  - match goal with IH : forall o, reads _ _ (text_lines _) _ o -> Some _ = o, H : reads _ _ (text_lines _) _ None |- _ =>
      apply IH in H; discriminate H end.
  - match goal with IH : forall o, reads _ _ (text_lines _) _ o -> Some _ = o, H : reads _ _ (text_lines _) _ (Some _) |- _ =>
      apply IH in H; inversion H; subst end.
    f_equal. auto.
Qed.

(* ------------------------------------------------------------------------------------------------ *)
(* model = specification                                                                              *)
(* ------------------------------------------------------------------------------------------------ *)
Definition embed (o : outcome) : rres :=
  match o with Some (es, seen, w) => ROk es seen w | None => RFatal end.

Lemma read_lines_complete fs dir fuel bufs ls cache o :
  D10 fs = true -> Forall2 bufline bufs ls -> forallb line_okb ls = true -> Forall (readable fs) cache ->
  (avail fs cache <= fuel)%nat ->
  reads fs dir ls cache o -> read_lines fs dir fuel bufs cache = embed o.
Proof.
  intros HD HF Hok Hc Hav Hr.
  pose proof (read_lines_sound fs dir HD fuel bufs ls cache HF Hok Hc) as Hs.
  pose proof (read_lines_terminates fs dir fuel bufs cache Hav) as Ht.
  destruct (read_lines fs dir fuel bufs cache) as [es c w| | |]; cbn [meets] in Hs.
  - destruct Hs as [Hs _]. rewrite (reads_fun _ _ _ _ _ Hr _ Hs). reflexivity.
  - rewrite (reads_fun _ _ _ _ _ Hr _ Hs). reflexivity.
  - destruct Hs.
  - congruence.
Qed.

(* every line list has an outcome under the specification, and the reader computes it *)
Lemma read_lines_spec fs dir fuel bufs ls cache :
  D10 fs = true -> Forall2 bufline bufs ls -> forallb line_okb ls = true -> Forall (readable fs) cache ->
  (avail fs cache <= fuel)%nat ->
  exists o, read_lines fs dir fuel bufs cache = embed o /\ reads fs dir ls cache o.
Proof.
  intros HD HF Hok Hc Hav.
  pose proof (read_lines_sound fs dir HD fuel bufs ls cache HF Hok Hc) as Hs.
  pose proof (read_lines_terminates fs dir fuel bufs cache Hav) as Ht.
  destruct (read_lines fs dir fuel bufs cache) as [es c w| | |]; cbn [meets] in Hs.
  - exists (Some (es, c, w)). split; [reflexivity|tauto].
  - exists None. split; [reflexivity|auto].
  - destruct Hs.
  - congruence.
Qed.

(* ------------------------------------------------------------------------------------------------ *)
(* files named on the command line, standard input                                                    *)
(* ------------------------------------------------------------------------------------------------ *)
(* the name an #include in the file would give the file itself *)
Definition self_of (file : bytes) : bytes := dirname file ++ [47] ++ basename file.
(* path resolution: a readable file is also readable as dirname/basename *)
Definition knows_self (fs : fsys) (file : bytes) : Prop :=
  lookup fs file <> None -> lookup fs (self_of file) <> None.

Theorem read_wcoll_spec fs file :
  D10 fs = true -> knows_self fs file ->
  exists o, read_wcoll fs file = embed o /\ file_hosts fs (dirname file) (self_of file) file o.
Proof.
  intros HD Hself. unfold read_wcoll, file_hosts.
  destruct (lookup fs file) as [c|] eqn:El.
  - destruct (D10_lookup fs HD _ _ El) as [_ Ht].
    apply read_lines_spec; auto.
    + apply file_lines_text_lines.
    + constructor; [|constructor]. apply Hself. congruence.
    + etransitivity; [apply avail_bound|]. unfold read_fuel. lia.
  - exists None. split; reflexivity.
Qed.

Theorem read_stream_spec fs content :
  D10 fs = true -> text_okb content = true ->
  exists o, read_stream fs content = embed o /\ stream_hosts fs content o.
Proof.
  intros HD Ht. unfold read_stream, stream_hosts. apply read_lines_spec; auto.
  - apply file_lines_text_lines.
  - unfold read_fuel. pose proof (avail_bound fs []). lia.
Qed.

Lemma file_hosts_fun fs dir self file o1 o2 :
  file_hosts fs dir self file o1 -> file_hosts fs dir self file o2 -> o1 = o2.
Proof.
  unfold file_hosts. destruct (lookup fs file); [|congruence].
  intros H1 H2. eapply reads_fun; eauto.
Qed.

(* ------------------------------------------------------------------------------------------------ *)
(* whole lines                                                                                        *)
(* ------------------------------------------------------------------------------------------------ *)
(* l is a whole line of the text c: it stands between two newlines (or the ends of the text) *)
Definition ends_ok (post : bytes) : Prop := post = [] \/ exists post', post = 10 :: post'.
Definition whole_line (l c : bytes) : Prop :=
  ~ In 10 l /\ exists pre post, c = pre ++ l ++ post /\ (pre = [] \/ exists pre', pre = pre' ++ [10]) /\ ends_ok post.

Lemma split_all_head c : forall p ps, split_all 10 c = p :: ps ->
  ~ In 10 p /\ exists post, c = p ++ post /\ ends_ok post.
Proof.
  induction c as [|x r IH]; intros p ps; cbn [split_all].
  - intro H; inversion H; subst. split; [intros []|]. exists []. split; auto. left; auto.
  - destruct (x =? 10) eqn:E.
    + apply N.eqb_eq in E; subst. intro H; inversion H; subst. split; [intros []|].
      exists (10 :: r). split; auto. right; eauto.
    + apply N.eqb_neq in E. destruct (split_all 10 r) as [|p' ps'] eqn:F; intro H; inversion H; subst.
      * exfalso. eapply split_all_nonempty; eauto.
      * destruct (IH _ _ eq_refl) as (H1 & post & -> & H2). split.
        -- intros [H3|H3]; [congruence|auto].
        -- exists post. split; auto.
Qed.

Lemma split_all_tail c : forall p ps l, split_all 10 c = p :: ps -> In l ps ->
  ~ In 10 l /\ exists pre post, c = pre ++ [10] ++ l ++ post /\ ends_ok post.
Proof.
  induction c as [|x r IH]; intros p ps l; cbn [split_all].
  - intro H; inversion H; subst. intros [].
  - destruct (x =? 10) eqn:E.
    + apply N.eqb_eq in E; subst. intro H; inversion H; subst. intro Hin.
      destruct (split_all 10 r) as [|p' ps'] eqn:F; [destruct Hin|].
      destruct Hin as [<-|Hin].
      * destruct (split_all_head r _ _ F) as (H1 & post & -> & H2). split; auto.
        exists [], post. split; auto.
      * destruct (IH _ _ _ eq_refl Hin) as (H1 & pre & post & -> & H2). split; auto.
        exists (10 :: pre), post. split; auto.
    + destruct (split_all 10 r) as [|p' ps'] eqn:F; intro H; inversion H; subst.
      * intros [].
      * intro Hin. destruct (IH _ _ _ eq_refl Hin) as (H1 & pre & post & -> & H2). split; auto.
        exists (x :: pre), post. split; auto.
Qed.

Lemma In_removelast {A} (x : A) l : In x (removelast l) -> In x l.
Proof.
  induction l as [|y r IH]; cbn; auto. destruct r as [|z r']; [intros []|].
  intros [H|H]; auto.
Qed.

Lemma text_lines_whole c l : In l (text_lines c) -> whole_line l c.
Proof.
  intro H. assert (Hin : In l (split_all 10 c)).
  { unfold text_lines in H. destruct (last (split_all 10 c) [1]); auto. apply In_removelast; auto. }
  destruct (split_all 10 c) as [|p ps] eqn:F; [destruct Hin|].
  destruct Hin as [<-|Hin].
  - destruct (split_all_head c _ _ F) as (H1 & post & -> & H2). split; auto.
    exists [], post. split; auto.
  - destruct (split_all_tail c _ _ _ F Hin) as (H1 & pre & post & -> & H2). split; auto.
    exists (pre ++ [10]), post. rewrite <- !app_assoc. split; auto. split; auto. right; eauto.
Qed.

(* every expression is the entry of one whole line of one file (or of the text being read) *)
Lemma and_then_some es0 w0 o es s w :
  and_then es0 w0 o = Some (es, s, w) -> exists es2 w2, o = Some (es2, s, w2) /\ es = es0 ++ es2 /\ w = (w0 + w2)%nat.
Proof.
  destruct o as [[[es2 s2] w2]|]; cbn; [|discriminate]. intro H; inversion H; subst. eauto.
Qed.

Lemma gives_entry l es w e : line_kind l (Gives es w) -> In e es -> e = entry l /\ e <> [].
Proof.
  intro K. inversion K; subst; try (intros []).
  destruct (entry l) eqn:E; [intros []|]. intros [<-|[]]. split; [reflexivity|discriminate].
Qed.

Lemma reads_entries fs dir ls seen o : reads fs dir ls seen o ->
  forall es s w e, o = Some (es, s, w) -> In e es ->
    exists l, e = entry l /\ e <> [] /\
              (In l ls \/ exists p c, lookup fs p = Some c /\ In l (text_lines c)).
Proof.
  induction 1; intros es' s' w' e Ho Hin.
  - inversion Ho; subst. destruct Hin.
  - apply and_then_some in Ho as (es2 & w2 & -> & -> & _). apply in_app_or in Hin as [Hin|Hin].
    + destruct (gives_entry _ _ _ _ H Hin) as [-> Hne]. exists l. split; auto. split; auto. left; left; auto.
    + destruct (IHreads _ _ _ _ eq_refl Hin) as (l0 & A & B & [C|C]); exists l0; split; auto; split; auto.
      left; right; auto.
  - apply and_then_some in Ho as (es2 & w2 & -> & -> & _). cbn [app] in Hin.
    destruct (IHreads _ _ _ _ eq_refl Hin) as (l0 & A & B & [C|C]); exists l0; split; auto; split; auto.
    left; right; auto.
  - discriminate.
  - discriminate.
  - apply and_then_some in Ho as (es2 & w2 & -> & -> & _). apply in_app_or in Hin as [Hin|Hin].
    + destruct (IHreads1 _ _ _ _ eq_refl Hin) as (l0 & A & B & [C|C]); exists l0; split; auto; split; auto.
      right. eauto.
    + destruct (IHreads2 _ _ _ _ eq_refl Hin) as (l0 & A & B & [C|C]); exists l0; split; auto; split; auto.
      left; right; auto.
Qed.

(* the files seen: never one twice, and only added to *)
Lemma reads_seen fs dir ls seen o : reads fs dir ls seen o ->
  forall es s w, o = Some (es, s, w) -> NoDup seen -> NoDup s /\ exists new, s = new ++ seen.
Proof.
  induction 1; intros es' s' w' Ho Hnd.
  - inversion Ho; subst. split; auto. exists []; auto.
  - apply and_then_some in Ho as (es2 & w2 & -> & _). eauto.
  - apply and_then_some in Ho as (es2 & w2 & -> & _). eauto.
  - discriminate.
  - discriminate.
  - apply and_then_some in Ho as (es2 & w2 & -> & _).
    destruct (IHreads1 _ _ _ eq_refl) as (N1 & new1 & ->); [constructor; auto|].
    destruct (IHreads2 _ _ _ eq_refl N1) as (N2 & new2 & ->). split; auto.
    exists (new2 ++ new1 ++ [locate dir g]). rewrite <- !app_assoc. reflexivity.
Qed.

(* ------------------------------------------------------------------------------------------------ *)
(* lines are handled in order: reading a ++ b is reading a, then b with the cache a left              *)
(* ------------------------------------------------------------------------------------------------ *)
Lemma then_result_assoc r k1 k2 :
  then_result (then_result r k1) k2 = then_result r (fun c => then_result (k1 c) k2).
Proof.
  destruct r as [es c w| | |]; cbn [then_result]; auto.
  destruct (k1 c) as [es1 c1 w1| | |]; cbn [then_result]; auto.
  destruct (k2 c1) as [es2 c2 w2| | |]; cbn [then_result]; auto.
  rewrite app_assoc, Nat.add_assoc. reflexivity.
Qed.
Lemma then_result_ext r k1 k2 : (forall c, k1 c = k2 c) -> then_result r k1 = then_result r k2.
Proof. intro H. destruct r; cbn [then_result]; auto. rewrite H. reflexivity. Qed.
Lemma read_lines_app fs dir fuel a b cache :
  read_lines fs dir fuel (a ++ b) cache = then_result (read_lines fs dir fuel a cache) (read_lines fs dir fuel b).
Proof.
  revert cache. induction a as [|x a IH]; intro cache.
  - rewrite read_lines_nil. cbn [app then_result].
    destruct (read_lines fs dir fuel b cache) as [es c w| | |]; auto.
  - cbn [app]. rewrite !read_lines_cons, then_result_assoc. apply then_result_ext. exact IH.
Qed.

(* ------------------------------------------------------------------------------------------------ *)
(* the command line                                                                                   *)
(* ------------------------------------------------------------------------------------------------ *)
Definition nonempty (p : bytes) : bool := match p with [] => false | _ => true end.

Lemma pieces_nonempty s d : pieces s d <> [].
Proof.
  revert d; induction s as [|b r IH]; intro d; cbn [pieces]; [discriminate|].
  destruct ((b =? 44) && (d =? 0)%Z); [discriminate|].
  destruct (pieces r _); discriminate.
Qed.

Lemma split_go_pieces s : forall level cur,
  split_go 44 s level cur = filter nonempty (prefix_first (rev cur) (pieces s level)).
Proof.
  induction s as [|b r IH]; intros level cur.
  - cbn [split_go pieces prefix_first filter]. rewrite app_nil_r. unfold emit_tok.
    destruct cur as [|x c]; [reflexivity|].
    destruct (rev (x :: c)) eqn:E; [|reflexivity].
    apply (f_equal (@length _)) in E. rewrite rev_length in E. discriminate.
  - cbn [split_go pieces]. destruct ((b =? 44) && (level =? 0)%Z).
    + rewrite IH. cbn [rev app prefix_first filter]. rewrite app_nil_r.
      destruct (pieces r 0) as [|p ps] eqn:F; [exfalso; eapply pieces_nonempty; eauto|].
      cbn [prefix_first app]. unfold emit_tok.
      destruct cur as [|x c]; [reflexivity|].
      destruct (rev (x :: c)) eqn:E; [|reflexivity].
      apply (f_equal (@length _)) in E. rewrite rev_length in E. discriminate.
    + rewrite IH. unfold bump.
      destruct (pieces r (if b =? 91 then (level + 1)%Z else if b =? 93 then (level - 1)%Z else level)) as [|p ps] eqn:F;
        [exfalso; eapply pieces_nonempty; eauto|].
      cbn [prefix_first rev]. rewrite <- app_assoc. reflexivity.
Qed.

Lemma arg_words_spec a : arg_words a = words_of a.
Proof.
  unfold arg_words, words_of, list_split. rewrite split_go_pieces. cbn [rev].
  destruct (pieces (if beq a [45] then [94; 45] else a) 0) as [|p ps] eqn:F; [exfalso; eapply pieces_nonempty; eauto|].
  reflexivity.
Qed.

Lemma existsb_or (f g : N -> bool) s : existsb (fun b => f b || g b) s = existsb f s || existsb g s.
Proof.
  induction s as [|x r IH]; cbn; auto. rewrite IH.
  destruct (f x), (g x), (existsb f r), (existsb g r); reflexivity.
Qed.
Lemma mem_existsb c s : mem c s = existsb (fun b => b =? c) s.
Proof. unfold mem. induction s as [|x r IH]; cbn; auto. rewrite IH, N.eqb_sym. reflexivity. Qed.

(* the code's reading of a word against the specification's *)
Definition source_of_class (k : word_class) : source :=
  match k with
  | WcFile ex path => if beq path [45] then (if ex then SExclStdin else SStdin)
                      else (if ex then SExclFile path else SFile path)
  | WcRegex | WcTyped => SOther
  | WcExcluded => SNothing
  | WcHosts e => SHosts e
  end.
Lemma classify_source w : source_of w = source_of_class (classify_word w).
Proof.
  unfold source_of, classify_word.
  destruct (is_prefix [45] w);
    set (p := drop_while is_space _);
    (destruct (is_prefix [94] p); [cbn [source_of_class]; destruct (beq (skipn 1 p) [45]); reflexivity|]);
    (destruct (is_prefix [47] p); [reflexivity|]); [reflexivity|].
  rewrite existsb_or, <- !mem_existsb. destruct (mem 58 p || mem 64 p); reflexivity.
Qed.

Lemma source_of_caret v : source_of (94 :: v) = if beq v [45] then SStdin else SFile v.
Proof. reflexivity. Qed.
Lemma classify_caret v : classify_word (94 :: v) = WcFile false v.
Proof. reflexivity. Qed.

Lemma add_exprs_app l a b : add_exprs (add_exprs l a) b = add_exprs l (a ++ b).
Proof. destruct l; cbn; [rewrite app_assoc|]; reflexivity. Qed.

Lemma text_okb_nil : text_okb [] = true.
Proof. reflexivity. Qed.

Section Cmd.
Variable fs : fsys.
Hypothesis HD : D10 fs = true.
Hypothesis Hself : forall p, knows_self fs p.

Notation contributes' := (contributes fs dirname self_of).
Notation assembled' := (assembled fs dirname self_of).

(* reading a source: a file, or standard input (which is then used up) *)
Lemma read_source_spec stdin path : text_okb stdin = true ->
  let '(r, stdin') := read_source fs stdin path in
  text_okb stdin' = true /\
  exists o, r = embed o /\
            (if beq path [45] then stream_hosts fs stdin o /\ stdin' = []
             else file_hosts fs (dirname path) (self_of path) path o /\ stdin' = stdin).
Proof.
  intro Ht. unfold read_source. destruct (beq path [45]).
  - split; [reflexivity|]. destruct (read_stream_spec fs stdin HD Ht) as (o & E & S). eauto.
  - split; [exact Ht|]. destruct (read_wcoll_spec fs path HD (Hself path)) as (o & E & S). eauto.
Qed.

Definition step_meets (st : astate) (w : bytes) (r : wres) : Prop :=
  match r with
  | WOk st' =>
      text_okb (as_stdin st') = true /\
      exists es wn, contributes' (as_stdin st) w (Some (es, wn)) (as_stdin st') /\
                    as_warn st' = (as_warn st + wn)%nat /\
                    as_list st' = (if names_targets w then add_exprs (as_list st) es else as_list st) /\
                    (names_targets w = false -> es = [])
  | WError => exists s', contributes' (as_stdin st) w None s'
  | WFault | WDiverges => False
  | WOutOfScope => source_of w = SOther
  end.

Lemma word_step_spec st w : text_okb (as_stdin st) = true -> step_meets st w (word_step fs st w).
Proof.
  intro Ht. unfold word_step, step_meets, names_targets.
  pose proof (classify_source w) as Ec.
  destruct (classify_word w) as [ex path| | | |e] eqn:Ek; cbn [source_of_class] in Ec.
  - pose proof (read_source_spec (as_stdin st) path Ht) as Hr.
    destruct (read_source fs (as_stdin st) path) as [r stdin'].
    destruct Hr as (Ht' & o & -> & Hr).
    destruct (beq path [45]) eqn:Ep.
    + destruct Hr as [Hs ->]. destruct o as [[[es seen] wn]|]; cbn [embed].
      * cbn [as_stdin as_warn as_list]. split; [reflexivity|].
        destruct ex; rewrite Ec.
        -- exists [], wn. split; [|auto]. exact (C_exstdin fs dirname self_of _ _ _ Ec Hs).
        -- exists es, wn. split; [|split; [auto|split; [auto|discriminate]]].
           exact (C_stdin fs dirname self_of _ _ _ Ec Hs).
      * exists []. destruct ex.
        -- exact (C_exstdin fs dirname self_of _ _ _ Ec Hs).
        -- exact (C_stdin fs dirname self_of _ _ _ Ec Hs).
    + destruct Hr as [Hs ->]. destruct o as [[[es seen] wn]|]; cbn [embed].
      * cbn [as_stdin as_warn as_list]. split; [exact Ht|].
        destruct ex; rewrite Ec.
        -- exists [], wn. split; [|auto]. exact (C_exfile fs dirname self_of _ _ _ _ Ec Hs).
        -- exists es, wn. split; [|split; [auto|split; [auto|discriminate]]].
           exact (C_file fs dirname self_of _ _ _ _ Ec Hs).
      * exists (as_stdin st). destruct ex.
        -- exact (C_exfile fs dirname self_of _ _ _ _ Ec Hs).
        -- exact (C_file fs dirname self_of _ _ _ _ Ec Hs).
  - exact Ec.
  - split; [exact Ht|]. rewrite Ec. exists [], 0%nat. split; [|auto].
    exact (C_nothing fs dirname self_of _ _ Ec).
  - exact Ec.
  - cbn [as_stdin as_warn as_list]. split; [exact Ht|]. rewrite Ec. exists [e], 0%nat.
    split; [|split; [auto|split; [auto|discriminate]]].
    exact (C_hosts fs dirname self_of _ _ _ Ec).
Qed.

Definition run_meets (st : astate) (ws : list bytes) (r : wres) : Prop :=
  match r with
  | WOk st' =>
      text_okb (as_stdin st') = true /\
      exists es wn, assembled' (as_stdin st) ws (Some (es, wn)) (as_stdin st') /\
                    as_warn st' = (as_warn st + wn)%nat /\
                    as_list st' = (if existsb names_targets ws then add_exprs (as_list st) es else as_list st) /\
                    (existsb names_targets ws = false -> es = [])
  | WError => exists s', assembled' (as_stdin st) ws None s'
  | WFault | WDiverges => False
  | WOutOfScope => exists w, In w ws /\ source_of w = SOther
  end.

Lemma run_words_spec ws : forall st, text_okb (as_stdin st) = true -> run_meets st ws (run_words fs st ws).
Proof.
  induction ws as [|w ws IH]; intros st Ht.
  - cbn. split; auto. exists [], 0%nat. split; [constructor|]. split; [lia|auto].
  - cbn [run_words]. pose proof (word_step_spec st w Ht) as Hs.
    destruct (word_step fs st w) as [st1| | | |]; cbn [step_meets] in Hs; cbn [run_meets].
    + destruct Hs as (Ht1 & es1 & wn1 & C1 & W1 & L1 & N1).
      specialize (IH st1 Ht1). destruct (run_words fs st1 ws) as [st2| | | |]; cbn [run_meets] in *.
      * destruct IH as (Ht2 & es2 & wn2 & A2 & W2 & L2 & N2). split; auto.
        exists (es1 ++ es2), (wn1 + wn2)%nat. split.
        { exact (As_cons fs dirname self_of _ w ws (es1, wn1) _ (Some (es2, wn2)) _ C1 A2). }
        split; [lia|]. cbn [existsb]. rewrite L2, L1.
        destruct (names_targets w) eqn:Ew, (existsb names_targets ws) eqn:Ews; cbn [orb].
        -- split; [apply add_exprs_app|discriminate].
        -- rewrite (N2 eq_refl), app_nil_r. split; [reflexivity|discriminate].
        -- rewrite (N1 eq_refl). split; [reflexivity|discriminate].
        -- rewrite (N1 eq_refl), (N2 eq_refl). split; auto.
      * destruct IH as (s' & A2). exists s'.
        exact (As_cons fs dirname self_of _ w ws (es1, wn1) _ None _ C1 A2).
      * destruct IH.
      * destruct IH.
      * destruct IH as (w' & Hin & Ho). exists w'. split; [right; auto|auto].
    + destruct Hs as (s' & C1). exists s'. exact (As_error fs dirname self_of _ w ws _ C1).
    + destruct Hs.
    + destruct Hs.
    + exists w. split; [left; auto|auto].
Qed.

Theorem assemble_spec stdin wcoll args : text_okb stdin = true ->
  match assemble (mkaw fs stdin wcoll) args with
  | AOk es w => target_list fs dirname self_of stdin wcoll args (Some (es, w))
  | AError => target_list fs dirname self_of stdin wcoll args None
  | AFault | ADiverges => False
  | AOutOfScope => exists w, In w (flat_map words_of args) /\ source_of w = SOther
  end.
Proof.
  intro Ht. unfold assemble. cbn [aw_fs aw_stdin aw_wcoll].
  assert (Ew : flat_map arg_words args = flat_map words_of args).
  { induction args as [|a r IH]; cbn; [reflexivity|]. rewrite arg_words_spec, IH. reflexivity. }
  rewrite Ew. set (ws := flat_map words_of args).
  pose proof (run_words_spec ws (mkast None stdin 0) Ht) as Hr. cbn [as_stdin as_warn as_list] in Hr.
  destruct (run_words fs (mkast None stdin 0) ws) as [st| | | |]; cbn [run_meets] in Hr; auto.
  - destruct Hr as (Ht1 & es & wn & A & W & L & N). cbn [Nat.add] in W.
    destruct (existsb names_targets ws) eqn:Ews.
    + rewrite L. cbn [add_exprs]. rewrite W. exact (T_given fs dirname self_of _ _ _ _ _ Ews A).
    + rewrite L. rewrite (N eq_refl) in A. destruct wcoll as [v|].
      * pose proof (read_source_spec (as_stdin st) v Ht1) as Hs.
        destruct (read_source fs (as_stdin st) v) as [r stdin'] eqn:Er. cbn [fst].
        destruct Hs as (_ & o & -> & Hs).
        assert (C : contributes' (as_stdin st) (94 :: v) (given o) stdin').
        { destruct (beq v [45]) eqn:Ev; destruct Hs as [Hs ->].
          - apply C_stdin; auto. rewrite source_of_caret, Ev. reflexivity.
          - apply (C_file fs dirname self_of _ _ v); auto. rewrite source_of_caret, Ev. reflexivity. }
        pose proof (T_wcoll fs dirname self_of stdin (Some v) args ([], wn) _ v _ _ Ews eq_refl A C) as T.
        destruct o as [[[es' seen] wn']|]; cbn [embed given join fst snd app] in *; rewrite W; exact T.
      * rewrite W. exact (T_none fs dirname self_of _ _ _ _ _ Ews eq_refl A).
  - destruct Hr as (s' & A). exact (T_error fs dirname self_of _ _ _ _ A).
Qed.
End Cmd.

(* the command-line specification is deterministic *)
Lemma contributes_fun fs d s stdin w r1 s1 r2 s2 :
  contributes fs d s stdin w r1 s1 -> contributes fs d s stdin w r2 s2 -> r1 = r2 /\ s1 = s2.
Proof.
  intros H1 H2. inversion H1; subst; inversion H2; subst; try congruence;
    repeat match goal with
    | A : source_of ?w = _, B : source_of ?w = _ |- _ => rewrite A in B; inversion B; subst; clear B
    end; auto.
  - match goal with A : file_hosts _ _ _ _ ?o1, B : file_hosts _ _ _ _ ?o2 |- _ =>
      rewrite (file_hosts_fun _ _ _ _ _ _ A B) end. auto.
  - match goal with A : stream_hosts _ _ ?o1, B : stream_hosts _ _ ?o2 |- _ =>
      rewrite (reads_fun _ _ _ _ _ A _ B) end. auto.
  - match goal with A : file_hosts _ _ _ _ ?o1, B : file_hosts _ _ _ _ ?o2 |- _ =>
      rewrite (file_hosts_fun _ _ _ _ _ _ A B) end. auto.
  - match goal with A : stream_hosts _ _ ?o1, B : stream_hosts _ _ ?o2 |- _ =>
      rewrite (reads_fun _ _ _ _ _ A _ B) end. auto.
Qed.

Lemma assembled_fun fs d s stdin ws r1 s1 :
  assembled fs d s stdin ws r1 s1 -> forall r2 s2, assembled fs d s stdin ws r2 s2 -> r1 = r2 /\ s1 = s2.
Proof.
  induction 1; intros r2 s2 Hsnd; inversion Hsnd; subst; auto.
  - match goal with A : contributes _ _ _ _ _ (Some _) _, B : contributes _ _ _ _ _ (Some _) _ |- _ =>
      destruct (contributes_fun _ _ _ _ _ _ _ _ _ A B) as [E1 E2]; inversion E1; subst end.
    match goal with B : assembled _ _ _ _ _ _ _ |- _ => apply IHassembled in B as [-> ->] end. auto.
  - match goal with A : contributes _ _ _ _ _ (Some _) _, B : contributes _ _ _ _ _ None _ |- _ =>
      destruct (contributes_fun _ _ _ _ _ _ _ _ _ A B) as [E1 E2]; discriminate E1 end.
  - match goal with A : contributes _ _ _ _ _ None _, B : contributes _ _ _ _ _ (Some _) _ |- _ =>
      destruct (contributes_fun _ _ _ _ _ _ _ _ _ A B) as [E1 E2]; discriminate E1 end.
  - match goal with A : contributes _ _ _ _ _ None _, B : contributes _ _ _ _ _ None _ |- _ =>
      destruct (contributes_fun _ _ _ _ _ _ _ _ _ A B) as [E1 E2]; subst end. auto.
Qed.

Lemma target_list_fun fs d s stdin wcoll args r1 r2 :
  target_list fs d s stdin wcoll args r1 -> target_list fs d s stdin wcoll args r2 -> r1 = r2.
Proof.
  intros H1 H2. inversion H1; subst; inversion H2; subst; try congruence;
    repeat match goal with
    | A : assembled _ _ _ ?x ?ws _ _, B : assembled _ _ _ ?x ?ws _ _ |- _ =>
        let E1 := fresh "E" in let E2 := fresh "E" in
        destruct (assembled_fun _ _ _ _ _ _ _ A _ _ B) as [E1 E2];
        first [discriminate E1 | inversion E1; subst; clear B]
    end; auto; try congruence.
  repeat match goal with A : Some ?x = Some ?y |- _ => first [constr_eq x y; clear A | inversion A; subst] end.
  match goal with A : contributes _ _ _ _ _ _ _, B : contributes _ _ _ _ _ _ _ |- _ =>
    destruct (contributes_fun _ _ _ _ _ _ _ _ _ A B) as [-> _] end. reflexivity.
Qed.

(* ------------------------------------------------------------------------------------------------ *)
(* facts about the model that need no domain hypothesis                                               *)
(* ------------------------------------------------------------------------------------------------ *)
(* order: the words are handled from left to right, each appending to what the earlier ones gave *)
Lemma run_words_app fs st a b :
  run_words fs st (a ++ b) = match run_words fs st a with WOk st1 => run_words fs st1 b | e => e end.
Proof.
  revert st. induction a as [|w a IH]; intro st; cbn [app run_words]; [reflexivity|].
  destruct (word_step fs st w); auto.
Qed.

Definition extends (l l' : option (list bytes)) : Prop :=
  match l with None => True | Some a => exists es, l' = Some (a ++ es) end.
Lemma extends_refl l : extends l l.
Proof. destruct l; cbn; auto. exists []. rewrite app_nil_r. reflexivity. Qed.
Lemma extends_trans a b c : extends a b -> extends b c -> extends a c.
Proof.
  destruct a as [x|]; cbn; auto. intros (e1 & ->). cbn. intros (e2 & ->). exists (e1 ++ e2).
  rewrite app_assoc. reflexivity.
Qed.
Lemma extends_add l es : extends l (add_exprs l es).
Proof. destruct l; cbn; eauto. Qed.

Lemma word_step_extends fs st w st' : word_step fs st w = WOk st' -> extends (as_list st) (as_list st').
Proof.
  unfold word_step. destruct (classify_word w) as [ex path| | | |e]; try discriminate.
  - destruct (read_source fs (as_stdin st) path) as [r s']. destruct r; try discriminate.
    intro H; inversion H; subst; cbn [as_list]. destruct ex; [apply extends_refl|apply extends_add].
  - intro H; inversion H; subst. apply extends_refl.
  - intro H; inversion H; subst; cbn [as_list]. apply extends_add.
Qed.
Lemma run_words_extends fs ws : forall st st', run_words fs st ws = WOk st' -> extends (as_list st) (as_list st').
Proof.
  induction ws as [|w ws IH]; intros st st'; cbn [run_words].
  - intro H; inversion H; subst. apply extends_refl.
  - destruct (word_step fs st w) as [st1| | | |] eqn:E; try discriminate.
    intro H. eapply extends_trans; [eapply word_step_extends; eauto|eauto].
Qed.

(* WCOLL is consulted exactly when no word named a target *)
Lemma names_targets_class w :
  names_targets w = match classify_word w with WcFile ex _ => negb ex | WcHosts _ => true | _ => false end.
Proof.
  unfold names_targets. rewrite classify_source.
  destruct (classify_word w) as [ex path| | | |e]; cbn [source_of_class]; auto.
  destruct (beq path [45]), ex; reflexivity.
Qed.

Lemma word_step_list_none fs st w st' : word_step fs st w = WOk st' ->
  (as_list st' = None <-> as_list st = None /\ names_targets w = false).
Proof.
  rewrite names_targets_class. unfold word_step.
  destruct (classify_word w) as [ex path| | | |e]; try discriminate.
  - destruct (read_source fs (as_stdin st) path) as [r s']. destruct r; try discriminate.
    intro H; inversion H; subst; cbn [as_list]. destruct ex; cbn [negb].
    + tauto.
    + destruct (as_list st); cbn; split; try discriminate; intros [_ ?]; discriminate.
  - intro H; inversion H; subst. tauto.
  - intro H; inversion H; subst; cbn [as_list].
    destruct (as_list st); cbn; split; try discriminate; intros [_ ?]; discriminate.
Qed.
Lemma run_words_list_none fs ws : forall st st', run_words fs st ws = WOk st' ->
  (as_list st' = None <-> as_list st = None /\ existsb names_targets ws = false).
Proof.
  induction ws as [|w ws IH]; intros st st'; cbn [run_words existsb].
  - intro H; inversion H; subst. tauto.
  - destruct (word_step fs st w) as [st1| | | |] eqn:E; try discriminate.
    intro H. rewrite (IH _ _ H), (word_step_list_none _ _ _ _ E), orb_false_iff. tauto.
Qed.

Lemma wcoll_ignored fs stdin wc args :
  existsb names_targets (flat_map arg_words args) = true ->
  assemble (mkaw fs stdin wc) args = assemble (mkaw fs stdin None) args.
Proof.
  intro H. unfold assemble. cbn [aw_fs aw_stdin aw_wcoll].
  destruct (run_words fs (mkast None stdin 0) (flat_map arg_words args)) as [st| | | |] eqn:E; auto.
  destruct (as_list st) eqn:El; auto.
  apply (run_words_list_none _ _ _ _ E) in El as [_ El]. congruence.
Qed.

Lemma wcoll_used fs stdin v args st :
  existsb names_targets (flat_map arg_words args) = false ->
  run_words fs (mkast None stdin 0) (flat_map arg_words args) = WOk st ->
  assemble (mkaw fs stdin (Some v)) args =
  match fst (read_source fs (as_stdin st) v) with
  | ROk es _ wn => AOk es (as_warn st + wn)
  | RFatal => AError | RFault => AFault | RDiverges => ADiverges
  end.
Proof.
  intros H E. unfold assemble. cbn [aw_fs aw_stdin aw_wcoll]. rewrite E.
  assert (El : as_list st = None) by (apply (run_words_list_none _ _ _ _ E); auto).
  rewrite El. reflexivity.
Qed.

(* unreadable is an error *)
Lemma unreadable_file fs file : lookup fs file = None -> read_wcoll fs file = RFatal.
Proof. intro H. unfold read_wcoll. rewrite H. reflexivity. Qed.

Lemma unreadable_include fs dir fuel b bs cache p :
  line_action fs dir b = LInclude p -> ~ In p cache -> lookup fs p = None ->
  read_lines fs dir fuel (b :: bs) cache = RFatal.
Proof.
  intros Ha Hn Hl. rewrite read_lines_cons. unfold line_result. rewrite Ha.
  apply existsb_beq_nIn in Hn. rewrite Hn, Hl. reflexivity.
Qed.
Lemma unresolved_include fs dir fuel b bs cache :
  line_action fs dir b = LFatal -> read_lines fs dir fuel (b :: bs) cache = RFatal.
Proof. intros Ha. rewrite read_lines_cons. unfold line_result. rewrite Ha. reflexivity. Qed.

Lemma unreadable_word fs st w ex p :
  classify_word w = WcFile ex p -> beq p [45] = false -> lookup fs p = None -> word_step fs st w = WError.
Proof.
  intros Hc Hp Hl. unfold word_step, read_source. rewrite Hc, Hp, (unreadable_file _ _ Hl). reflexivity.
Qed.

Lemma unreadable_source fs stdin wc args a w b st1 ex p :
  flat_map arg_words args = a ++ w :: b -> run_words fs (mkast None stdin 0) a = WOk st1 ->
  classify_word w = WcFile ex p -> beq p [45] = false -> lookup fs p = None ->
  assemble (mkaw fs stdin wc) args = AError.
Proof.
  intros Ew Ea Hc Hp Hl. unfold assemble. cbn [aw_fs aw_stdin aw_wcoll].
  rewrite Ew, run_words_app, Ea. cbn [run_words]. rewrite (unreadable_word _ _ _ _ _ Hc Hp Hl). reflexivity.
Qed.
Lemma unreadable_wcoll fs stdin v args st :
  run_words fs (mkast None stdin 0) (flat_map arg_words args) = WOk st -> as_list st = None ->
  beq v [45] = false -> lookup fs v = None ->
  assemble (mkaw fs stdin (Some v)) args = AError.
Proof.
  intros E El Hv Hl. unfold assemble. cbn [aw_fs aw_stdin aw_wcoll]. rewrite E, El.
  unfold read_source. rewrite Hv. cbn [fst]. rewrite (unreadable_file _ _ Hl). reflexivity.
Qed.

(* a file reached a second time is skipped with a warning, and nothing is ever opened twice *)
Lemma second_visit fs dir fuel b bs cache p :
  line_action fs dir b = LInclude p -> In p cache ->
  read_lines fs dir fuel (b :: bs) cache = then_result (ROk [] cache 1) (read_lines fs dir fuel bs).
Proof.
  intros Ha Hin. rewrite read_lines_cons. unfold line_result. rewrite Ha.
  apply existsb_beq_In in Hin. rewrite Hin. reflexivity.
Qed.

Definition keeps_nodup (rd : list bytes -> list bytes -> rres) : Prop :=
  forall bufs cache es c w, rd bufs cache = ROk es c w -> NoDup cache -> NoDup c.
Lemma lines_nodup fs dir fuel : keeps_nodup (nested_of fs dir fuel) -> keeps_nodup (read_lines fs dir fuel).
Proof.
  intros Hn bufs. induction bufs as [|b bs IH]; intros cache es c w.
  - rewrite read_lines_nil. intro H; inversion H; subst; auto.
  - rewrite read_lines_cons. intro H.
    apply then_result_ok in H as (es1 & c1 & w1 & es2 & w2 & H1 & H2 & _ & _). intro Hnd.
    assert (Hc1 : NoDup c1).
    { unfold line_result in H1.
      destruct (line_action fs dir b) as [[e|]| |path| |]; try discriminate;
        try (inversion H1; subst; exact Hnd).
      destruct (existsb (beq path) cache) eqn:Ec; [inversion H1; subst; exact Hnd|].
      destruct (lookup fs path); [|discriminate].
      apply (Hn _ _ _ _ _ H1). constructor; auto. apply existsb_beq_nIn; auto. }
    eapply IH; eauto.
Qed.
Lemma read_lines_nodup fs dir fuel : keeps_nodup (read_lines fs dir fuel).
Proof.
  induction fuel as [|f IH]; apply lines_nodup; auto.
  intros bufs cache es c w H. discriminate.
Qed.
Lemma read_wcoll_nodup fs file es cache w : read_wcoll fs file = ROk es cache w -> NoDup cache.
Proof.
  unfold read_wcoll. destruct (lookup fs file); [|discriminate].
  intro H. apply (read_lines_nodup _ _ _ _ _ _ _ _ H). constructor; [intros []|constructor].
Qed.

(* ------------------------------------------------------------------------------------------------ *)
(* no name is split or truncated: what reaches the host-list parser is a -w word, or the entry of one  *)
(* whole line of one readable file or of standard input                                               *)
(* ------------------------------------------------------------------------------------------------ *)
Theorem read_wcoll_whole_lines fs file es cache w :
  D10 fs = true -> knows_self fs file -> read_wcoll fs file = ROk es cache w ->
  forall e, In e es -> exists p c l, lookup fs p = Some c /\ whole_line l c /\ e = entry l /\ e <> [].
Proof.
  intros HD Hs Hr e Hin. destruct (read_wcoll_spec fs file HD Hs) as (o & E & S).
  rewrite Hr in E. destruct o as [[[es' s'] w']|]; cbn [embed] in E; [|discriminate]. inversion E; subst.
  unfold file_hosts in S. destruct (lookup fs file) as [c0|] eqn:El; [|discriminate].
  destruct (reads_entries _ _ _ _ _ S _ _ _ _ eq_refl Hin) as (l & A & B & [C|(p & c & C1 & C2)]).
  - exists file, c0, l. split; auto. split; auto. apply text_lines_whole; auto.
  - exists p, c, l. split; auto. split; auto. apply text_lines_whole; auto.
Qed.

Definition from_line (fs : fsys) (stdin : bytes) (e : bytes) : Prop :=
  exists l, e = entry l /\ e <> [] /\
            (In l (text_lines stdin) \/ exists p c, lookup fs p = Some c /\ In l (text_lines c)).

Lemma file_hosts_entries fs d s stdin p es seen w e :
  file_hosts fs d s p (Some (es, seen, w)) -> In e es -> from_line fs stdin e.
Proof.
  unfold file_hosts. destruct (lookup fs p) as [c0|] eqn:El; [|discriminate]. intros S Hin.
  destruct (reads_entries _ _ _ _ _ S _ _ _ _ eq_refl Hin) as (l & A & B & [C|C]); exists l; split; auto; split; auto.
  right. eauto.
Qed.

Lemma contributes_entries fs d s stdin w es wn s' e :
  contributes fs d s stdin w (Some (es, wn)) s' -> In e es ->
  source_of w = SHosts e \/ from_line fs stdin e.
Proof.
  intros H Hin. inversion H; subst.
  - destruct Hin as [<-|[]]. left; auto.
  - destruct Hin.
  - right. destruct o as [[[es' seen] w']|]; cbn [given] in *; [|discriminate].
    match goal with A : Some _ = Some _ |- _ => inversion A; subst end. eapply file_hosts_entries; eauto.
  - right. destruct o as [[[es' seen] w']|]; cbn [given] in *; [|discriminate].
    match goal with A : Some _ = Some _ |- _ => inversion A; subst end.
    match goal with S : stream_hosts _ _ _ |- _ =>
      destruct (reads_entries _ _ _ _ _ S _ _ _ _ eq_refl Hin) as (l & A & B & C) end.
    exists l. auto.
  - destruct o as [[[es' seen] w']|]; cbn [given] in *; [|discriminate].
    match goal with A : Some _ = Some _ |- _ => inversion A; subst end. destruct Hin.
  - destruct o as [[[es' seen] w']|]; cbn [given] in *; [|discriminate].
    match goal with A : Some _ = Some _ |- _ => inversion A; subst end. destruct Hin.
Qed.

Lemma contributes_stdin fs d s stdin w r s' : contributes fs d s stdin w r s' -> s' = stdin \/ s' = [].
Proof. intro H; inversion H; subst; auto. Qed.

Lemma from_line_stdin fs stdin s' e : s' = stdin \/ s' = [] -> from_line fs s' e -> from_line fs stdin e.
Proof.
  intros [->| ->]; auto. intros (l & A & B & [C|C]); [destruct C|]. exists l. auto.
Qed.

Lemma join_some a r es w : join a r = Some (es, w) -> exists es2 w2, r = Some (es2, w2) /\ es = fst a ++ es2.
Proof. destruct r as [[es2 w2]|]; cbn; [|discriminate]. intro H; inversion H; subst. eauto. Qed.

Lemma assembled_entries fs d s stdin ws r s' : assembled fs d s stdin ws r s' ->
  forall es wn e, r = Some (es, wn) -> In e es ->
    (exists w, In w ws /\ source_of w = SHosts e) \/ from_line fs stdin e.
Proof.
  induction 1; intros es wn e Hr Hin.
  - inversion Hr; subst. destruct Hin.
  - apply join_some in Hr as (es2 & w2 & -> & ->). destruct a as [es1 w1]. cbn [fst] in Hin.
    apply in_app_or in Hin as [Hin|Hin].
    + destruct (contributes_entries _ _ _ _ _ _ _ _ _ H Hin) as [A|A]; [left; exists w; split; [left|]; auto|right; auto].
    + destruct (IHassembled _ _ _ eq_refl Hin) as [(w' & A & B)|A].
      * left. exists w'. split; [right|]; auto.
      * right. eapply from_line_stdin; [eapply contributes_stdin; eauto|auto].
  - discriminate.
Qed.

Lemma assembled_stdin fs d s stdin ws r s' : assembled fs d s stdin ws r s' -> s' = stdin \/ s' = [].
Proof.
  induction 1; auto.
  - apply contributes_stdin in H. destruct H as [->| ->]; auto.
    destruct IHassembled as [->| ->]; auto.
  - eapply contributes_stdin; eauto.
Qed.

Lemma target_list_entries fs d s stdin wcoll args es wn e :
  target_list fs d s stdin wcoll args (Some (es, wn)) -> In e es ->
  (exists w, In w (flat_map words_of args) /\ source_of w = SHosts e) \/ from_line fs stdin e.
Proof.
  intros H Hin. inversion H; subst.
  - eapply assembled_entries; eauto.
  - eapply assembled_entries; eauto.
  - match goal with A : join _ _ = Some _ |- _ => apply join_some in A as (es2 & w2 & -> & ->) end.
    destruct a as [es1 w1]. cbn [fst] in Hin. apply in_app_or in Hin as [Hin|Hin].
    + eapply assembled_entries; eauto.
    + right. match goal with C : contributes _ _ _ _ (94 :: _) _ _ |- _ =>
        destruct (contributes_entries _ _ _ _ _ _ _ _ _ C Hin) as [A|A] end.
      * rewrite source_of_caret in A. destruct (beq v [45]); discriminate.
      * eapply from_line_stdin; [eapply assembled_stdin; eauto|auto].
Qed.

Theorem assemble_whole_lines fs stdin wcoll args es wn :
  D10 fs = true -> (forall p, knows_self fs p) -> text_okb stdin = true ->
  assemble (mkaw fs stdin wcoll) args = AOk es wn ->
  forall e, In e es ->
    (exists w, In w (flat_map words_of args) /\ source_of w = SHosts e) \/
    (exists l c, e = entry l /\ e <> [] /\ whole_line l c /\ (c = stdin \/ exists p, lookup fs p = Some c)).
Proof.
  intros HD Hs Ht Ha e Hin. pose proof (assemble_spec fs HD Hs stdin wcoll args Ht) as S. rewrite Ha in S.
  destruct (target_list_entries _ _ _ _ _ _ _ _ _ S Hin) as [A|(l & A & B & [C|(p & c & C1 & C2)])]; auto; right.
  - exists l, stdin. split; auto. split; auto. split; [apply text_lines_whole; auto|auto].
  - exists l, c. split; auto. split; auto. split; [apply text_lines_whole; auto|eauto].
Qed.

(* the command-line model never runs out of fuel either *)
Lemma read_source_terminates fs stdin path : fst (read_source fs stdin path) <> RDiverges.
Proof.
  unfold read_source. destruct (beq path [45]); cbn [fst];
    [apply read_stream_terminates|apply read_wcoll_terminates].
Qed.
Lemma word_step_terminates fs st w : word_step fs st w <> WDiverges.
Proof.
  unfold word_step. destruct (classify_word w); try discriminate.
  pose proof (read_source_terminates fs (as_stdin st) path) as H.
  destruct (read_source fs (as_stdin st) path) as [r s']. cbn [fst] in H.
  destruct r; try discriminate. congruence.
Qed.
Lemma run_words_terminates fs ws : forall st, run_words fs st ws <> WDiverges.
Proof.
  induction ws as [|w ws IH]; intro st; cbn [run_words]; [discriminate|].
  pose proof (word_step_terminates fs st w). destruct (word_step fs st w); try discriminate; auto.
Qed.
Lemma assemble_terminates W args : assemble W args <> ADiverges.
Proof.
  unfold assemble. pose proof (run_words_terminates (aw_fs W) (flat_map arg_words args) (mkast None (aw_stdin W) 0)) as H.
  destruct (run_words (aw_fs W) (mkast None (aw_stdin W) 0) (flat_map arg_words args)) as [st| | | |]; try discriminate; [|congruence].
  destruct (as_list st); [discriminate|]. destruct (aw_wcoll W) as [v|]; [|discriminate].
  pose proof (read_source_terminates (aw_fs W) (as_stdin st) v).
  destruct (fst (read_source (aw_fs W) (as_stdin st) v)); try discriminate. congruence.
Qed.

(* ------------------------------------------------------------------------------------------------ *)
(* dirname(3) / xbasename on paths of the usual shapes                                                *)
(* ------------------------------------------------------------------------------------------------ *)
Lemma sts_cons x t : x <> 47 -> strip_trailing_slashes (x :: t) = x :: t.
Proof.
  intro H. destruct x as [|p]; [reflexivity|].
  do 6 (destruct p as [p|p|]; try reflexivity). congruence.
Qed.
Lemma sts_slash t : strip_trailing_slashes (47 :: t) = strip_trailing_slashes t.
Proof. reflexivity. Qed.

Lemma drop_nonslash_app a t : ~ In 47 a -> drop_while (fun b => negb (b =? 47)) (a ++ 47 :: t) = 47 :: t.
Proof.
  intro H. apply drop_while_app_stop; [|reflexivity].
  apply forallb_forall. intros x Hx. destruct (x =? 47) eqn:E; auto. apply N.eqb_eq in E; subst; contradiction.
Qed.
Lemma take_nonslash_app a t : ~ In 47 a -> take_while (fun b => negb (b =? 47)) (a ++ 47 :: t) = a.
Proof.
  intro H. apply take_while_app_stop; [|reflexivity].
  apply forallb_forall. intros x Hx. destruct (x =? 47) eqn:E; auto. apply N.eqb_eq in E; subst; contradiction.
Qed.

(* dir/base: base without slash and not empty, dir not empty and not ending with a slash *)
Lemma dirname_basename_split d b x y d' b' :
  d = d' ++ [x] -> x <> 47 -> b = b' ++ [y] -> ~ In 47 b ->
  dirname (d ++ [47] ++ b) = d /\ basename (d ++ [47] ++ b) = b /\ self_of (d ++ [47] ++ b) = d ++ [47] ++ b.
Proof.
  intros Ed Hx Eb Hb.
  assert (Hy : y <> 47) by (intro; subst; apply Hb; apply in_or_app; right; left; auto).
  assert (Hrb : ~ In 47 (rev b)) by (rewrite <- in_rev; auto).
  assert (Er : rev (d ++ [47] ++ b) = rev b ++ 47 :: rev d).
  { rewrite !rev_app_distr. cbn [rev app]. rewrite <- app_assoc. reflexivity. }
  assert (Erb : rev b = y :: rev b') by (subst b; rewrite rev_app_distr; reflexivity).
  assert (Erd : rev d = x :: rev d') by (subst d; rewrite rev_app_distr; reflexivity).
  assert (S1 : strip_trailing_slashes (rev b ++ 47 :: rev d) = rev b ++ 47 :: rev d).
  { rewrite Erb. cbn [app]. apply sts_cons; auto. }
  assert (S2 : strip_trailing_slashes (rev d) = rev d) by (rewrite Erd; apply sts_cons; auto).
  assert (D : dirname (d ++ [47] ++ b) = d).
  { unfold dirname. rewrite Er, S1.
    destruct (rev b ++ 47 :: rev d) as [|z zs] eqn:F; [rewrite Erb in F; discriminate|]. rewrite <- F.
    rewrite drop_nonslash_app by auto. cbv beta iota. rewrite sts_slash, S2.
    destruct (rev d) as [|z' zs'] eqn:G; [rewrite Erd in G; discriminate|]. rewrite <- G.
    apply rev_involutive. }
  assert (B : basename (d ++ [47] ++ b) = b).
  { unfold basename. rewrite Er, take_nonslash_app by auto. apply rev_involutive. }
  split; auto. split; auto. unfold self_of. rewrite D, B. reflexivity.
Qed.

(* a bare name: the directory is "." *)
Lemma dirname_basename_bare b b' y : b = b' ++ [y] -> ~ In 47 b ->
  dirname b = [46] /\ basename b = b /\ self_of b = [46;47] ++ b.
Proof.
  intros Eb Hb.
  assert (Hy : y <> 47) by (intro; subst; apply Hb; apply in_or_app; right; left; auto).
  assert (Hrb : forallb (fun c => negb (c =? 47)) (rev b) = true).
  { apply forallb_forall. intros c Hc. apply in_rev in Hc. destruct (c =? 47) eqn:E; auto.
    apply N.eqb_eq in E; subst; contradiction. }
  assert (Erb : rev b = y :: rev b') by (subst b; rewrite rev_app_distr; reflexivity).
  assert (S1 : strip_trailing_slashes (rev b) = rev b) by (rewrite Erb; apply sts_cons; auto).
  assert (D : dirname b = [46]).
  { unfold dirname. rewrite S1.
    destruct (rev b) as [|z zs] eqn:F; [discriminate|]. rewrite <- F.
    rewrite drop_while_all by (rewrite F; auto). reflexivity. }
  assert (B : basename b = b).
  { unfold basename. rewrite take_while_all by auto. apply rev_involutive. }
  split; auto. split; auto. unfold self_of. rewrite D, B. reflexivity.
Qed.
