From PV Require Import Args.WcollSpec.
