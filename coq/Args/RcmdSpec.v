(* S-side of C09, written independently of the code: who is contacted how, and what text arrives. *)
From PV Require Export Base.Decimal.
Local Open Scope N_scope.

(* ---- the text an exec argument turns into: %h %u %n %% replaced, every other byte copied
        (an unknown %x keeps both bytes, a final lone % is kept) ---- *)
Fixpoint subst (host user : bytes) (rank : N) (a : bytes) : bytes :=
  match a with
  | [] => []
  | c :: r =>
    if c =? 37 then
      match r with
      | [] => [37]
      | d :: r2 =>
        if d =? 104 then host ++ subst host user rank r2
        else if d =? 117 then user ++ subst host user rank r2
        else if d =? 110 then digits rank ++ subst host user rank r2
        else if d =? 37 then 37 :: subst host user rank r2
        else 37 :: d :: subst host user rank r2
      end
    else c :: subst host user rank r
  end.

(* ---- the rsh request: stderr port (empty when none), local user, remote user, command,
        each followed by one NUL ---- *)
Definition wire_spec (port : option N) (luser ruser cmd : bytes) : bytes :=
  (match port with None => [] | Some p => digits p end) ++ 0 :: luser ++ 0 :: ruser ++ 0 :: cmd ++ [0].

(* ---- a -w word as the user means it ---- *)
Record sword := mksw { sw_type : option bytes; sw_user : option bytes; sw_hosts : bytes }.

(* its text: [type:][user@]hosts *)
Definition render_sword (w : sword) : bytes :=
  (match sw_type w with Some t => t ++ [58] | None => [] end) ++
  (match sw_user w with Some u => u ++ [64] | None => [] end) ++ sw_hosts w.

Definition sw_has_spec (w : sword) : bool :=
  match sw_type w, sw_user w with None, None => false | _, _ => true end.

(* what a word means: optional transport, optional user, and the host names it stands for
   (the mathematical expansion of its host expression, see C01) *)
Record aword := mkaw { a_type : option bytes; a_user : option bytes; a_names : list bytes }.
Definition a_has_spec (w : aword) : bool :=
  match a_type w, a_user w with None, None => false | _, _ => true end.
Definition same_name (x y : bytes) : bool := if list_eq_dec N.eq_dec x y then true else false.
Definition names_target (target : bytes) (w : aword) : bool :=
  a_has_spec w && existsb (same_name target) (a_names w).

(* transport and user of one target: those of the first word carrying a type or a user whose
   expansion contains the target; what that word leaves open, and everything when there is no
   such word, comes from the defaults *)
Definition spec_assign (ws : list aword) (dtype duser : bytes) (target : bytes) : bytes * bytes :=
  match find (names_target target) ws with
  | Some w => (match a_type w with Some t => t | None => dtype end,
               match a_user w with Some u => u | None => duser end)
  | None => (dtype, duser)
  end.

(* defaults: command line, else environment, else the first loaded transport of the preference list;
   -l, else the invoking user *)
Definition spec_dtype (optR envR : option bytes) (rank_list : list bytes) (loaded : bytes -> Prop) (t : bytes) : Prop :=
  match optR with Some r => t = r | None =>
  match envR with Some r => t = r | None =>
    exists a b, rank_list = a ++ t :: b /\ loaded t /\ forall x, In x a -> ~ loaded x end end.
Definition spec_duser (optl : option bytes) (login : bytes) : bytes :=
  match optl with Some u => u | None => login end.

(* rank = zero-based position in the final target list *)
Definition spec_rank (targets : list bytes) (k : nat) : option (bytes * N) :=
  match nth_error targets k with Some h => Some (h, N.of_nat k) | None => None end.
