From PV Require Import Args.Settings.
Local Open Scope Z_scope.

(* whatever pdsh runs with was validated *)
Theorem effective_valid w e os s : effective w e os = Run s ->
  1 <= fanout s /\ 0 <= ctimeout s /\ 0 <= utimeout s /\ known_rcmd w (rcmd s) = true.
Proof.
  unfold effective. destruct (apply_env w e (defaults w)) as [s1|]; [|discriminate].
  destruct (apply_opts w s1 os) as [s2|]; [|discriminate].
  unfold verify. destruct (known_rcmd w (rcmd s2) && (1 <=? fanout s2) && (0 <=? ctimeout s2) && (0 <=? utimeout s2)) eqn:E; [|discriminate].
  intro H; inversion H; subst. repeat (apply andb_true_iff in E as [E ?]). repeat split; auto; lia.
Qed.

