From PV Require Import Args.Settings.
Local Open Scope Z_scope.

(* whatever pdsh runs with was validated *)
Theorem effective_valid w e os s : effective w e os = Run s ->
  1 <= fanout s /\ 0 <= ctimeout s /\ 0 <= utimeout s /\ known_rcmd w (rcmd s) = true.
Proof.
  unfold effective. destruct (apply_env w e (defaults w)) as [s1|]; [|discriminate].
  destruct (apply_opts w s1 os) as [s2|]; [|discriminate].
  unfold verify. destruct (known_rcmd w (rcmd s2) && (1 <=? fanout s2) && (0 <=? ctimeout s2) && (0 <=? utimeout s2)) eqn:E; [|discriminate].
  intro H; inversion H; subst. repeat (apply andb_true_iff in E as [E ?]). repeat split; auto; lia.
Qed.

(* ---- string_to_int ---- *)
Lemma digits_value_nonneg ds : 0 <= digits_value ds.
Proof. unfold digits_value. lia. Qed.

Theorem string_to_int_range s v : string_to_int s = Some v -> 0 <= v <= INT_MAX.
Proof.
  unfold string_to_int.
  match goal with |- context [let '(a, b) := ?p in _] => destruct p as [neg s2] end.
  destruct (take_while is_digit s2) as [|d ds]; [discriminate|].
  destruct (drop_while is_digit s2); [|discriminate].
  pose proof (digits_value_nonneg (d :: ds)) as Hnn.
  destruct neg.
  - destruct (digits_value (d :: ds) =? 0); [|discriminate].
    intro H; inversion H; subst. unfold INT_MAX. lia.
  - destruct (digits_value (d :: ds) <=? INT_MAX) eqn:E; [|discriminate].
    intro H; inversion H; subst. apply Z.leb_le in E. lia.
Qed.

(* ---- decomposition of [effective] ---- *)
Lemma verify_inv w s2 s : verify w s2 = Run s -> s = s2.
Proof.
  unfold verify.
  destruct (known_rcmd w (rcmd s2) && (1 <=? fanout s2) && (0 <=? ctimeout s2) && (0 <=? utimeout s2));
    [|discriminate].
  intro H; inversion H; reflexivity.
Qed.

Lemma effective_inv w e os s : effective w e os = Run s ->
  exists s1, apply_env w e (defaults w) = Run s1 /\ apply_opts w s1 os = Run s.
Proof.
  unfold effective. destruct (apply_env w e (defaults w)) as [s1|]; [|discriminate].
  destruct (apply_opts w s1 os) as [s2|] eqn:E; [|discriminate].
  intro H. apply verify_inv in H. subst. exists s1. split; auto.
Qed.

(* ---- the environment step ---- *)
Lemma apply_env_inv w e s0 s1 : apply_env w e s0 = Run s1 ->
  match e_fanout e with Some v => string_to_int v = Some (fanout s1) | None => fanout s1 = fanout s0 end /\
  match e_ctimeout e with Some v => string_to_int v = Some (ctimeout s1) | None => ctimeout s1 = ctimeout s0 end /\
  match e_utimeout e with Some v => string_to_int v = Some (utimeout s1) | None => utimeout s1 = utimeout s0 end /\
  ruser s1 = ruser s0 /\
  rcmd s1 = match e_rcmd e with Some v => v | None => rcmd s0 end /\
  misc s1 = match e_misc e with Some v => Some v | None => misc s0 end /\
  rpath s1 = match e_rpath e with Some v => if is_pcp w then v else rpath s0 | None => rpath s0 end.
Proof.
  unfold apply_env. intro H.
  destruct (match e_fanout e with None => Some (fanout s0) | Some v => string_to_int v end) as [f|] eqn:Ef;
    [|discriminate].
  destruct (match e_ctimeout e with None => Some (ctimeout s0) | Some v => string_to_int v end) as [ct|] eqn:Ect;
    [|discriminate].
  destruct (match e_utimeout e with None => Some (utimeout s0) | Some v => string_to_int v end) as [ut|] eqn:Eut;
    [|discriminate].
  cbn [bindo] in H. inversion H; subst; clear H. cbn [fanout ctimeout utimeout ruser rcmd misc rpath].
  repeat split.
  - destruct (e_fanout e); congruence.
  - destruct (e_ctimeout e); congruence.
  - destruct (e_utimeout e); congruence.
Qed.

Lemma apply_env_refused_fanout w e s0 v : e_fanout e = Some v -> string_to_int v = None -> apply_env w e s0 = Refused.
Proof. intros He Hv. unfold apply_env. rewrite He, Hv. reflexivity. Qed.

Lemma apply_env_bad w e s0 v :
  (e_fanout e = Some v \/ e_ctimeout e = Some v \/ e_utimeout e = Some v) -> string_to_int v = None ->
  apply_env w e s0 = Refused.
Proof.
  intros He Hv. destruct (apply_env w e s0) as [s1|] eqn:E; [|reflexivity]. exfalso.
  apply apply_env_inv in E. destruct E as (Hf & Hc & Hu & _).
  destruct He as [He|[He|He]]; rewrite He in *; congruence.
Qed.

(* ---- one option ---- *)
Lemma apply_opts_cons w s0 o r s : apply_opts w s0 (o :: r) = Run s ->
  exists s', apply_opt w s0 o = Run s' /\ apply_opts w s' r = Run s.
Proof.
  cbn [apply_opts]. destruct (apply_opt w s0 o) as [s'|]; [|discriminate]. eauto.
Qed.

(* a field [fld] that is set (according to [R]) by the options that [sel] selects and left
   alone by all others is determined by the last selected option *)
Lemma apply_opts_field {A B} (w : world) (fld : settings -> A) (sel : optv -> option B) (R : B -> A -> Prop) :
  (forall s0 o s', apply_opt w s0 o = Run s' ->
     match sel o with Some v => R v (fld s') | None => fld s' = fld s0 end) ->
  forall os s0 s, apply_opts w s0 os = Run s ->
     match last_opt sel os with Some v => R v (fld s) | None => fld s = fld s0 end.
Proof.
  intros Hstep. induction os as [|o r IH]; intros s0 s H.
  - cbn in H. inversion H; subst. reflexivity.
  - apply apply_opts_cons in H as (s' & H1 & H2).
    apply IH in H2. apply Hstep in H1. cbn [last_opt].
    destruct (last_opt sel r) as [v|]; [exact H2|].
    destruct (sel o) as [v|]; [|congruence].
    rewrite H2. exact H1.
Qed.

Ltac step_tac :=
  intros s0_ o_ s_ H; destruct o_; cbn [apply_opt] in H;
  repeat match type of H with
         | bindo ?x _ = _ => let E := fresh "E" in destruct x eqn:E; cbn [bindo] in H
         | (if ?c then _ else _) = _ => destruct c
         end;
  try discriminate; inversion H; subst;
  cbn [sel_f sel_t sel_u sel_l sel_R sel_M sel_e fanout ctimeout utimeout ruser rcmd misc rpath];
  auto.

Lemma opts_fanout w os s0 s : apply_opts w s0 os = Run s ->
  match last_opt sel_f os with Some v => string_to_int v = Some (fanout s) | None => fanout s = fanout s0 end.
Proof.
  revert os s0 s. apply (apply_opts_field w fanout sel_f (fun v f => string_to_int v = Some f)). step_tac.
Qed.

Lemma opts_ctimeout w os s0 s : apply_opts w s0 os = Run s ->
  match last_opt sel_t os with Some v => ctimeout s = atoi v | None => ctimeout s = ctimeout s0 end.
Proof.
  revert os s0 s. apply (apply_opts_field w ctimeout sel_t (fun v c => c = atoi v)). step_tac.
Qed.

Lemma opts_utimeout w os s0 s : apply_opts w s0 os = Run s ->
  match last_opt sel_u os with Some v => utimeout s = atoi v | None => utimeout s = utimeout s0 end.
Proof.
  revert os s0 s. apply (apply_opts_field w utimeout sel_u (fun v c => c = atoi v)). step_tac.
Qed.

Lemma opts_ruser w os s0 s : apply_opts w s0 os = Run s ->
  match last_opt sel_l os with Some v => ruser s = v | None => ruser s = ruser s0 end.
Proof.
  revert os s0 s. apply (apply_opts_field w ruser sel_l (fun v c => c = v)). step_tac.
Qed.

Lemma opts_rcmd w os s0 s : apply_opts w s0 os = Run s ->
  match last_opt sel_R os with Some v => rcmd s = v | None => rcmd s = rcmd s0 end.
Proof.
  revert os s0 s. apply (apply_opts_field w rcmd sel_R (fun v c => c = v)). step_tac.
Qed.

Lemma opts_misc w os s0 s : apply_opts w s0 os = Run s ->
  match last_opt sel_M os with Some v => misc s = Some v | None => misc s = misc s0 end.
Proof.
  revert os s0 s. apply (apply_opts_field w misc sel_M (fun v c => c = Some v)). step_tac.
Qed.

Lemma opts_rpath w os s0 s : apply_opts w s0 os = Run s ->
  match last_opt sel_e os with Some v => rpath s = v | None => rpath s = rpath s0 end.
Proof.
  revert os s0 s. apply (apply_opts_field w rpath sel_e (fun v c => c = v)). step_tac.
Qed.

(* no option of a run was refused *)
Lemma opts_all_accepted w os : forall s0 s, apply_opts w s0 os = Run s ->
  forall o, In o os -> exists s1 s2, apply_opt w s1 o = Run s2.
Proof.
  induction os as [|o r IH]; intros s0 s H o' Hin; [contradiction|].
  apply apply_opts_cons in H as (s' & H1 & H2). destruct Hin as [->|Hin]; eauto.
Qed.

Lemma opts_user_length w os s0 s v : apply_opts w s0 os = Run s -> In (Ol v) os -> (length v <= name_max w)%nat.
Proof.
  intros H Hin. destruct (opts_all_accepted w os s0 s H _ Hin) as (s1 & s2 & E).
  cbn [apply_opt] in E. destruct (name_max w <? length v)%nat eqn:L; [discriminate|].
  apply Nat.ltb_ge in L. exact L.
Qed.

Lemma opts_fanout_ok w os s0 s v : apply_opts w s0 os = Run s -> In (Of v) os -> string_to_int v <> None.
Proof.
  intros H Hin. destruct (opts_all_accepted w os s0 s H _ Hin) as (s1 & s2 & E).
  cbn [apply_opt] in E. destruct (string_to_int v); [discriminate|discriminate].
Qed.

Lemma opts_rpath_pcp w os s0 s v : apply_opts w s0 os = Run s -> In (Oe v) os -> is_pcp w = true.
Proof.
  intros H Hin. destruct (opts_all_accepted w os s0 s H _ Hin) as (s1 & s2 & E).
  cbn [apply_opt] in E. destruct (is_pcp w); [reflexivity|discriminate].
Qed.

(* ---- precedence ---- *)
Theorem precedence_fanout : forall w e os s, effective w e os = Run s ->
  match last_opt sel_f os with
  | Some v => string_to_int v = Some (fanout s)
  | None => match e_fanout e with Some v => string_to_int v = Some (fanout s) | None => fanout s = Z.of_N DFLT_FANOUT end
  end.
Proof.
  intros w e os s H. apply effective_inv in H as (s1 & He & Ho).
  apply apply_env_inv in He as (Hf & _). apply opts_fanout in Ho.
  destruct (last_opt sel_f os) as [v|]; [exact Ho|].
  rewrite Ho. exact Hf.
Qed.

Theorem precedence_timeouts : forall w e os s, effective w e os = Run s ->
  match last_opt sel_t os with
  | Some v => ctimeout s = atoi v
  | None => match e_ctimeout e with Some v => string_to_int v = Some (ctimeout s) | None => ctimeout s = Z.of_N CONNECT_TIMEOUT end
  end /\
  match last_opt sel_u os with
  | Some v => utimeout s = atoi v
  | None => match e_utimeout e with Some v => string_to_int v = Some (utimeout s) | None => utimeout s = 0 end
  end.
Proof.
  intros w e os s H. apply effective_inv in H as (s1 & He & Ho).
  apply apply_env_inv in He as (_ & Hc & Hu & _).
  pose proof (opts_ctimeout _ _ _ _ Ho) as Oc. pose proof (opts_utimeout _ _ _ _ Ho) as Ou_.
  split.
  - destruct (last_opt sel_t os) as [v|]; [exact Oc|]. rewrite Oc. exact Hc.
  - destruct (last_opt sel_u os) as [v|]; [exact Ou_|]. rewrite Ou_. exact Hu.
Qed.

Theorem precedence_strings : forall w e os s, effective w e os = Run s ->
  ruser s = pick (last_opt sel_l os) None (login w) /\
  rcmd s = pick (last_opt sel_R os) (e_rcmd e) (dflt_rcmd w) /\
  misc s = match last_opt sel_M os with Some v => Some v | None => e_misc e end /\
  rpath s = pick (last_opt sel_e os) (if is_pcp w then e_rpath e else None) (self_path w).
Proof.
  intros w e os s H. apply effective_inv in H as (s1 & He & Ho).
  apply apply_env_inv in He as (_ & _ & _ & Hl & HR & HM & Hp).
  cbn [defaults ruser rcmd misc rpath] in Hl, HR, HM, Hp.
  pose proof (opts_ruser _ _ _ _ Ho) as Ol_. pose proof (opts_rcmd _ _ _ _ Ho) as OR_.
  pose proof (opts_misc _ _ _ _ Ho) as OM_. pose proof (opts_rpath _ _ _ _ Ho) as Oe_.
  unfold pick. repeat split.
  - destruct (last_opt sel_l os); congruence.
  - destruct (last_opt sel_R os); [exact OR_|]. rewrite OR_, HR. reflexivity.
  - destruct (last_opt sel_M os); [exact OM_|]. rewrite OM_, HM. destruct (e_misc e); reflexivity.
  - destruct (last_opt sel_e os); [exact Oe_|]. rewrite Oe_, Hp.
    destruct (e_rpath e), (is_pcp w); reflexivity.
Qed.

(* ---- refusals ---- *)
Theorem bad_fanout_refused : forall w e os v, last_opt sel_f os = Some v ->
  (string_to_int v = None \/ string_to_int v = Some 0) -> effective w e os = Refused.
Proof.
  intros w e os v Hl Hv. destruct (effective w e os) as [s|] eqn:E; [|reflexivity]. exfalso.
  pose proof (effective_valid _ _ _ _ E) as (Hf & _).
  pose proof (precedence_fanout _ _ _ _ E) as P. rewrite Hl in P.
  destruct Hv as [Hv|Hv]; rewrite Hv in P; [discriminate|]. inversion P. lia.
Qed.

Theorem bad_env_refused : forall w e os,
  (exists v, (e_fanout e = Some v \/ e_ctimeout e = Some v \/ e_utimeout e = Some v) /\ string_to_int v = None) ->
  effective w e os = Refused.
Proof.
  intros w e os (v & He & Hv). unfold effective.
  rewrite (apply_env_bad w e (defaults w) v He Hv). reflexivity.
Qed.

Theorem zero_env_fanout_refused : forall w e os,
  e_fanout e = Some [48%N] -> last_opt sel_f os = None -> effective w e os = Refused.
Proof.
  intros w e os He Hl. destruct (effective w e os) as [s|] eqn:E; [|reflexivity]. exfalso.
  pose proof (effective_valid _ _ _ _ E) as (Hf & _).
  pose proof (precedence_fanout _ _ _ _ E) as P. rewrite Hl, He in P.
  assert (Z0 : string_to_int [48%N] = Some 0) by (vm_compute; reflexivity).
  rewrite Z0 in P. inversion P. lia.
Qed.

Theorem negative_timeout_refused : forall w e os v,
  (last_opt sel_t os = Some v \/ last_opt sel_u os = Some v) -> atoi v < 0 -> effective w e os = Refused.
Proof.
  intros w e os v Hl Hv. destruct (effective w e os) as [s|] eqn:E; [|reflexivity]. exfalso.
  pose proof (effective_valid _ _ _ _ E) as (_ & Hc & Hu & _).
  pose proof (precedence_timeouts _ _ _ _ E) as (Pc & Pu).
  destruct Hl as [Hl|Hl]; [rewrite Hl in Pc|rewrite Hl in Pu]; lia.
Qed.

Theorem long_user_refused : forall w e os v,
  In (Ol v) os -> (name_max w < length v)%nat -> effective w e os = Refused.
Proof.
  intros w e os v Hin Hlen. destruct (effective w e os) as [s|] eqn:E; [|reflexivity]. exfalso.
  apply effective_inv in E as (s1 & _ & Ho).
  pose proof (opts_user_length _ _ _ _ _ Ho Hin). lia.
Qed.

Theorem unknown_transport_refused : forall w e os s, effective w e os = Run s ->
  known_rcmd w (pick (last_opt sel_R os) (e_rcmd e) (dflt_rcmd w)) = true.
Proof.
  intros w e os s E.
  pose proof (effective_valid _ _ _ _ E) as (_ & _ & _ & Hk).
  pose proof (precedence_strings _ _ _ _ E) as (_ & HR & _).
  rewrite <- HR. exact Hk.
Qed.
