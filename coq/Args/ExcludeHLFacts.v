(* Facts about the editing functions of the hostlist model (Hostlist/HLEdit.v) that property C02
   needs: hostlist_find is sound for every list and complete on D02, hostlist_delete_nth removes
   exactly one position, hostlist_pop takes the last name, and one iterator with
   hostlist_next / hostlist_remove walks the list like a cursor in a plain list of names. *)
From Coq Require Import ZifyBool ZifyNat ZifyN FinFun.
From PV Require Import Base.DecimalFacts Hostlist.HLFacts Hostlist.HLParseFacts Hostlist.HLLimits.
From PV Require Export Hostlist.HLEdit.
Local Open Scope N_scope.

(* ====================================================================== *)
(* 0. plain lists                                                          *)
(* ====================================================================== *)

Definition remove_at {A} (k : nat) (l : list A) : list A := firstn k l ++ skipn (S k) l.

Lemma remove_at_app_l {A} k (a b : list A) : (k < length a)%nat -> remove_at k (a ++ b) = remove_at k a ++ b.
Proof.
  intros H. unfold remove_at. rewrite firstn_app, skipn_app.
  replace (k - length a)%nat with 0%nat by lia. replace (S k - length a)%nat with 0%nat by lia.
  cbn [firstn skipn]. rewrite app_nil_r, app_assoc. reflexivity.
Qed.

Lemma remove_at_app_r {A} k (a b : list A) : remove_at (length a + k) (a ++ b) = a ++ remove_at k b.
Proof.
  unfold remove_at. rewrite firstn_app, skipn_app.
  rewrite firstn_all2 by lia. rewrite skipn_all2 by lia.
  replace (length a + k - length a)%nat with k by lia.
  replace (S (length a + k) - length a)%nat with (S k) by lia.
  cbn [app]. rewrite app_assoc. reflexivity.
Qed.

Lemma remove_at_length {A} k (l : list A) : (k < length l)%nat -> length (remove_at k l) = (length l - 1)%nat.
Proof. intros H. unfold remove_at. rewrite app_length, firstn_length, skipn_length. lia. Qed.

Lemma nth_error_app_l {A} (a b : list A) k : (k < length a)%nat -> nth_error (a ++ b) k = nth_error a k.
Proof. intros. apply nth_error_app1; auto. Qed.

Lemma nth_error_app_r {A} (a b : list A) k : nth_error (a ++ b) (length a + k) = nth_error b k.
Proof. rewrite nth_error_app2 by lia. f_equal. lia. Qed.

Lemma count_up_nth k from j : (j < k)%nat -> nth_error (count_up k from) j = Some (from + N.of_nat j).
Proof.
  revert from j. induction k as [|k IH]; intros from j H; [lia|].
  destruct j as [|j]; cbn [count_up nth_error].
  - f_equal. lia.
  - rewrite IH by lia. f_equal. lia.
Qed.

Lemma count_up_S k from : count_up (S k) from = count_up k from ++ [from + N.of_nat k].
Proof.
  replace (S k) with (k + 1)%nat by lia. rewrite count_up_app. reflexivity.
Qed.

Lemma expand_cons r l : expand (r :: l) = range_hosts r ++ expand l.
Proof. reflexivity. Qed.
Lemma expand_app a b : expand (a ++ b) = expand a ++ expand b.
Proof. unfold expand. apply flat_map_app. Qed.

(* the names of a numeric range *)
Definition nnames (p : bytes) (w : nat) (a : N) (k : nat) : list bytes :=
  map (fun n => p ++ fmt w n) (count_up k a).

Lemma range_hosts_nnames r : single r = false ->
  range_hosts r = nnames (pfx r) (wid r) (lo r) (N.to_nat (hi r + 1 - lo r)).
Proof. intros H. unfold range_hosts, nnames. rewrite H. reflexivity. Qed.

Lemma nnames_app p w a k1 k2 : nnames p w a (k1 + k2) = nnames p w a k1 ++ nnames p w (a + N.of_nat k1) k2.
Proof. unfold nnames. rewrite count_up_app, map_app. reflexivity. Qed.

Lemma nnames_length p w a k : length (nnames p w a k) = k.
Proof. unfold nnames. rewrite map_length, count_up_length. reflexivity. Qed.

Lemma nnames_nth p w a k j : (j < k)%nat -> nth_error (nnames p w a k) j = Some (p ++ fmt w (a + N.of_nat j)).
Proof. intros H. unfold nnames. rewrite nth_error_map, count_up_nth by lia. reflexivity. Qed.

Lemma nnames_In p w a k x : In x (nnames p w a k) <-> exists n, a <= n < a + N.of_nat k /\ x = p ++ fmt w n.
Proof.
  unfold nnames. rewrite in_map_iff. split.
  - intros (n & <- & Hn). apply count_up_In in Hn. eauto.
  - intros (n & Hn & ->). exists n. split; auto. apply count_up_In. exact Hn.
Qed.

Lemma nnames_width p w w' a k : (forall x, a <= x -> fmt w' x = fmt w x) -> nnames p w' a k = nnames p w a k.
Proof.
  intros H. unfold nnames. apply map_ext_in. intros x Hx. apply count_up_In in Hx. rewrite H by lia. reflexivity.
Qed.

(* the element removed from the front / the back / the middle *)
Lemma nnames_remove_at p w a k j : (j < k)%nat ->
  remove_at j (nnames p w a k) = nnames p w a j ++ nnames p w (a + N.of_nat j + 1) (k - j - 1).
Proof.
  intros H. replace k with (j + (1 + (k - j - 1)))%nat at 1 by lia.
  rewrite !nnames_app.
  pose proof (remove_at_app_r 0 (nnames p w a j)
               (nnames p w (a + N.of_nat j) 1 ++ nnames p w (a + N.of_nat j + N.of_nat 1) (k - j - 1))) as E.
  rewrite nnames_length, Nat.add_0_r in E. rewrite E. reflexivity.
Qed.

(* ====================================================================== *)
(* 1. hostname_create                                                      *)
(* ====================================================================== *)

(* what hostlist_find knows about the name it looks for *)
Definition hn_wf (hn : hname) : Prop :=
  match hn_sfx hn with
  | Some sfx => hn_name hn = hn_pfx hn ++ sfx /\ sfx <> [] /\ forallb is_digit sfx = true
                /\ hn_num hn = value sfx /\ hn_num hn <= MAX_HOST_SUFFIX
  | None => True
  end.

Lemma hostname_with_suffix_name name k : hn_name (hostname_with_suffix name k) = name.
Proof.
  unfold hostname_with_suffix. destruct (skipn k name) as [|c s']; [reflexivity|].
  destruct (strtoul (c :: s')) as [[[num rest] o]|]; [|reflexivity].
  destruct rest; [|reflexivity]. destruct (num <=? MAX_HOST_SUFFIX); reflexivity.
Qed.

Lemma hostname_with_suffix_wf name k :
  forallb is_digit (skipn k name) = true -> hn_wf (hostname_with_suffix name k).
Proof.
  intros Hd. unfold hostname_with_suffix, hn_wf.
  destruct (skipn k name) as [|c s'] eqn:E; [exact I|].
  rewrite strtoul_digits by (auto; discriminate).
  pose proof MAX_HOST_SUFFIX_small as HM.
  destruct (ULONG <=? value (c :: s')) eqn:Eo.
  - assert ((ULONG - 1 <=? MAX_HOST_SUFFIX) = false) as -> by lia. exact I.
  - destruct (value (c :: s') <=? MAX_HOST_SUFFIX) eqn:El; [|exact I].
    cbn [hn_sfx hn_name hn_pfx hn_num]. repeat split; auto; try discriminate; try lia.
    rewrite <- E. symmetry. apply firstn_skipn.
Qed.

Lemma split_suffix_app name : fst (split_suffix name) ++ snd (split_suffix name) = name.
Proof.
  unfold split_suffix. cbn [fst snd]. rewrite <- rev_app_distr, take_drop_while. apply rev_involutive.
Qed.

Lemma take_while_all_p p s : forallb p (take_while p s) = true.
Proof. induction s as [|c s IH]; cbn [take_while]; auto. destruct (p c) eqn:E; cbn [forallb]; auto. rewrite E; auto. Qed.

Lemma forallb_rev {A} (p : A -> bool) l : forallb p (rev l) = forallb p l.
Proof. induction l as [|x l IH]; cbn [rev forallb]; auto. rewrite forallb_app, IH. cbn [forallb]. destruct (p x), (forallb p l); reflexivity. Qed.

Lemma split_suffix_digits name : forallb is_digit (snd (split_suffix name)) = true.
Proof. unfold split_suffix. cbn [snd]. rewrite forallb_rev. apply take_while_all_p. Qed.

Lemma skipn_app_len {A} (a b : list A) : skipn (length a) (a ++ b) = b.
Proof. rewrite skipn_app, skipn_all, Nat.sub_diag. reflexivity. Qed.

Lemma skipn_app_len_S {A} (a b : list A) c : skipn (S (length a)) (a ++ c :: b) = b.
Proof. induction a as [|x a IH]; [reflexivity|]. cbn [length app]. rewrite <- IH at 2. reflexivity. Qed.

Lemma hostname_create_wf name : hn_wf (hostname_create name) /\ hn_name (hostname_create name) = name.
Proof.
  unfold hostname_create. split; [|apply hostname_with_suffix_name].
  apply hostname_with_suffix_wf.
  rewrite <- (split_suffix_app name) at 2. rewrite skipn_app_len. apply split_suffix_digits.
Qed.

(* ====================================================================== *)
(* 2. hostrange_hn_within is sound                                         *)
(* ====================================================================== *)

Definition I31 : N := 2147483647.

Lemma set_wid_id r : set_wid r (wid r) = r.
Proof. destruct r; reflexivity. Qed.

Lemma to_int_small z : (0 <= z <= 2147483647)%Z -> to_int z = z.
Proof. intros H. unfold to_int. rewrite Z.mod_small by lia. lia. Qed.

Lemma range_hosts_set_wid r w :
  (forall x, lo r <= x -> fmt w x = fmt (wid r) x) -> range_hosts (set_wid r w) = range_hosts r.
Proof.
  intros H. unfold range_hosts, set_wid. cbn [single pfx lo hi wid]. destruct (single r); [reflexivity|].
  apply map_ext_in. intros x Hx. apply count_up_In in Hx. rewrite H by lia. reflexivity.
Qed.

Lemma hn_within_sound fuel : forall r hn off w,
  hr_ok r -> hr_count r <= I31 -> hn_wf hn -> hn_within fuel r hn = (off, w) ->
  (forall x, lo r <= x -> fmt w x = fmt (wid r) x) /\
  ((0 <= off)%Z -> nth_error (range_hosts r) (Z.to_nat off) = Some (hn_name hn)).
Proof.
  induction fuel as [|fuel IH]; intros r hn off w Hok Hc Hwf H.
  all: cbn [hn_within] in H.
  all: destruct (single r) eqn:Es;
    [ injection H as <- <-; split; auto;
      destruct (beq (hn_name hn) (pfx r)) eqn:Eb; [|lia];
      apply beq_eq in Eb; intros _; unfold range_hosts; rewrite Es; cbn; congruence | ].
  all: destruct (hn_sfx hn) as [sfx|] eqn:Esfx; [|injection H as <- <-; split; auto; lia].
  all: destruct (negb (is_prefix (hn_pfx hn) (pfx r))); [injection H as <- <-; split; auto; lia|].
  all: match type of H with (if ?c then _ else _) = _ => destruct c eqn:Epeel end.
  - injection H as <- <-; split; auto; lia.
  - (* final comparison, fuel 0 *)
    match type of H with (if ?c then _ else _) = _ => destruct c eqn:Ecmp end;
      [|injection H as <- <-; split; auto; lia].
    destruct (width_equiv (lo r) (wid r) (hn_num hn) (length sfx)) as [[w1 w2]|] eqn:Ew;
      [|injection H as <- <-; split; auto; lia].
    injection H as <- <-.
    apply width_equiv_sound in Ew as (<- & Hl & Hn).
    split; [exact Hl|]. intros _.
    unfold hn_wf in Hwf. rewrite Esfx in Hwf. destruct Hwf as (Hname & Hne & Hdig & Hnum & _).
    apply andb_true_iff in Ecmp as [Ecmp Hlo]. apply andb_true_iff in Ecmp as [Ecmp Hhi].
    apply andb_true_iff in Ecmp as [_ Hp]. apply beq_eq in Hp.
    unfold hr_ok in Hok. rewrite Es in Hok.
    assert (Hcnt : hr_count r = hi r + 1 - lo r) by (rewrite hr_count_ok; [rewrite Es; reflexivity|unfold hr_ok; rewrite Es; exact Hok]).
    rewrite usub_le by lia. rewrite to_int_small by (unfold I31 in Hc; lia).
    rewrite range_hosts_nnames by auto. rewrite nnames_nth by lia.
    rewrite Hname, Hp. f_equal. f_equal.
    replace (lo r + N.of_nat (Z.to_nat (Z.of_N (hn_num hn - lo r)))) with (hn_num hn) by lia.
    rewrite <- Hl by lia. rewrite Hn by lia. rewrite Hnum. apply fmt_value; auto.
  - (* peel one digit *)
    unfold hn_wf in Hwf. rewrite Esfx in Hwf. destruct Hwf as (Hname & Hne & Hdig & Hnum & _).
    pose proof (hostname_with_suffix_name (hn_name hn) (S (length (hn_pfx hn)))) as En.
    apply IH in H; auto.
    + rewrite En in H. exact H.
    + apply hostname_with_suffix_wf. rewrite Hname at 1.
      destruct sfx as [|c s']; [congruence|]. rewrite skipn_app_len_S. cbn [forallb] in Hdig.
      apply andb_true_iff in Hdig. tauto.
  - match type of H with (if ?c then _ else _) = _ => destruct c eqn:Ecmp end;
      [|injection H as <- <-; split; auto; lia].
    destruct (width_equiv (lo r) (wid r) (hn_num hn) (length sfx)) as [[w1 w2]|] eqn:Ew;
      [|injection H as <- <-; split; auto; lia].
    injection H as <- <-.
    apply width_equiv_sound in Ew as (<- & Hl & Hn).
    split; [exact Hl|]. intros _.
    unfold hn_wf in Hwf. rewrite Esfx in Hwf. destruct Hwf as (Hname & Hne & Hdig & Hnum & _).
    apply andb_true_iff in Ecmp as [Ecmp Hlo]. apply andb_true_iff in Ecmp as [Ecmp Hhi].
    apply andb_true_iff in Ecmp as [_ Hp]. apply beq_eq in Hp.
    unfold hr_ok in Hok. rewrite Es in Hok.
    assert (Hcnt : hr_count r = hi r + 1 - lo r) by (rewrite hr_count_ok; [rewrite Es; reflexivity|unfold hr_ok; rewrite Es; exact Hok]).
    rewrite usub_le by lia. rewrite to_int_small by (unfold I31 in Hc; lia).
    rewrite range_hosts_nnames by auto. rewrite nnames_nth by lia.
    rewrite Hname, Hp. f_equal. f_equal.
    replace (lo r + N.of_nat (Z.to_nat (Z.of_N (hn_num hn - lo r)))) with (hn_num hn) by lia.
    rewrite <- Hl by lia. rewrite Hn by lia. rewrite Hnum. apply fmt_value; auto.
Qed.

(* ====================================================================== *)
(* 3. hostlist_find is sound; it may only rewrite widths harmlessly        *)
(* ====================================================================== *)

(* r' is r with a width that prints every number of the range identically *)
Definition req (r r' : hr) : Prop :=
  pfx r' = pfx r /\ lo r' = lo r /\ hi r' = hi r /\ single r' = single r /\
  (forall x, lo r <= x -> fmt (wid r') x = fmt (wid r) x).

Lemma req_refl r : req r r.
Proof. repeat split; auto. Qed.

Lemma req_set_wid r w : (forall x, lo r <= x -> fmt w x = fmt (wid r) x) -> req r (set_wid r w).
Proof. intros H. repeat split; auto. Qed.

Lemma req_range_hosts r r' : req r r' -> range_hosts r' = range_hosts r.
Proof.
  intros (Hp & Hl & Hh & Hs & Hw). unfold range_hosts. rewrite Hp, Hl, Hh, Hs.
  destruct (single r); [reflexivity|].
  apply map_ext_in. intros x Hx. apply count_up_In in Hx. rewrite Hw by lia. reflexivity.
Qed.

Lemma req_ok r r' : req r r' -> hr_ok r -> hr_ok r'.
Proof. intros (Hp & Hl & Hh & Hs & Hw). unfold hr_ok. rewrite Hl, Hh, Hs. auto. Qed.

Lemma req_count r r' : req r r' -> hr_count r' = hr_count r.
Proof. intros (Hp & Hl & Hh & Hs & Hw). unfold hr_count. rewrite Hl, Hh, Hs. reflexivity. Qed.

Lemma leq_refl l : Forall2 req l l.
Proof. induction l; constructor; auto using req_refl. Qed.

Lemma leq_expand l l' : Forall2 req l l' -> expand l' = expand l.
Proof. induction 1 as [|r r' l l' Hr _ IH]; [reflexivity|]. rewrite !expand_cons, IH, (req_range_hosts _ _ Hr). reflexivity. Qed.

Lemma leq_ok l l' : Forall2 req l l' -> Forall hr_ok l -> Forall hr_ok l'.
Proof. induction 1 as [|r r' l l' Hr _ IH]; intros H; [constructor|]. inversion H; subst. constructor; eauto using req_ok. Qed.

Lemma range_len_count r : hr_ok r -> hr_count r = N.of_nat (length (range_hosts r)).
Proof. intros H. symmetry. apply range_hosts_length; auto. Qed.

Lemma find_loop_spec hn : hn_wf hn -> forall l count l' ret,
  Forall hr_ok l -> (0 <= count)%Z -> (count + Z.of_nat (length (expand l)) <= 2147483647)%Z ->
  find_loop l hn count = (l', ret) ->
  Forall2 req l l' /\
  ((ret = -1)%Z \/ exists k, ret = (count + Z.of_nat k)%Z /\ nth_error (expand l) k = Some (hn_name hn)).
Proof.
  intros Hwf. induction l as [|r rest IH]; intros count l' ret Hok Hc Hb H; cbn [find_loop] in H.
  - injection H as <- <-. split; [constructor|left; reflexivity].
  - inversion Hok as [|? ? Hr Hrest]; subst. rewrite expand_cons, app_length in Hb.
    pose proof (range_len_count r Hr) as Hcnt.
    destruct (hn_within (length (hn_name hn)) r hn) as [off w] eqn:Ew.
    apply hn_within_sound in Ew as [Hw Hoff]; auto; [|unfold I31; lia].
    destruct (0 <=? off)%Z eqn:Eo.
    + injection H as <- <-. split; [constructor; [apply req_set_wid; auto|apply leq_refl]|].
      right. exists (Z.to_nat off). split; [lia|]. specialize (Hoff ltac:(lia)).
      rewrite expand_cons, nth_error_app_l; auto. apply nth_error_Some. congruence.
    + rewrite to_int_small in H by lia.
      destruct (find_loop rest hn (count + Z.of_N (hr_count r))) as [rest' ret'] eqn:Er.
      injection H as <- <-. apply IH in Er as [Hl Hret]; auto; try lia.
      split; [constructor; [apply req_set_wid; auto|exact Hl]|].
      destruct Hret as [->|(k & -> & Hk)]; [left; reflexivity|right].
      exists (length (range_hosts r) + k)%nat. split; [lia|]. rewrite expand_cons, nth_error_app_r. exact Hk.
Qed.

Theorem find_sound l name l' ret :
  Forall hr_ok l -> (Z.of_nat (length (expand l)) <= 2147483647)%Z -> find l name = (l', ret) ->
  Forall2 req l l' /\
  ((ret = -1)%Z \/ exists k, ret = Z.of_nat k /\ nth_error (expand l) k = Some name).
Proof.
  intros Hok Hb H. unfold find in H. destruct (hostname_create_wf name) as [Hwf Hn].
  apply (find_loop_spec _ Hwf) in H as [Hl Hr]; auto; try lia. split; auto.
  rewrite Hn in Hr. destruct Hr as [Hr|(k & Hr & Hk)]; [left; exact Hr|right].
  exists k. split; [lia|exact Hk].
Qed.

(* ====================================================================== *)
(* 4. hostlist_find is complete on D02                                     *)
(* ====================================================================== *)

(* the digits a range prefix ends in (f1[2-3]: "1") *)
Definition digit_tail (p : bytes) : bytes := snd (split_suffix p).

(* D02: glued to the digits its prefix ends in, every number of the range still is a number for
   hostname_create (MAX_HOST_SUFFIX); single hosts are compared as whole names *)
Definition D02r (r : hr) : Prop :=
  single r = true \/
  forall n, lo r <= n <= hi r -> value (digit_tail (pfx r) ++ fmt (wid r) n) <= MAX_HOST_SUFFIX.

Lemma req_D02 r r' : req r r' -> D02r r -> D02r r'.
Proof.
  intros (Hp & Hl & Hh & Hs & Hw) [H|H]; [left; congruence|right].
  intros n Hn. rewrite Hp, Hw by lia. apply H. lia.
Qed.

Lemma width_equiv_self a w n : a <= n -> exists v, width_equiv a w n (Nat.max w (ndigits n)) = Some (v, v).
Proof.
  intros H. pose proof (ndigits_mono _ _ H) as Hm. unfold width_equiv, zero_padded.
  destruct (Nat.eqb (w - ndigits a) (Nat.max w (ndigits n) - ndigits a)) eqn:E1;
  destruct (Nat.eqb (Nat.max w (ndigits n) - ndigits n) (w - ndigits n)) eqn:E2; cbn [negb andb]; eauto.
  exfalso. apply Nat.eqb_neq in E2. lia.
Qed.

Lemma fold_dval_mono ds : forall a b, a <= b -> fold_left dval ds a <= fold_left dval ds b.
Proof. induction ds as [|d ds IH]; intros a b H; cbn [fold_left]; auto. apply IH. unfold dval. lia. Qed.

Lemma value_tail_le a b : value b <= value (a ++ b).
Proof. rewrite value_app. unfold value at 1. apply fold_dval_mono. lia. Qed.

Lemma take_while_app_all p a b : forallb p a = true -> take_while p (a ++ b) = a ++ take_while p b.
Proof. induction a as [|x a IH]; intros H; [reflexivity|]. cbn [forallb] in H. apply andb_true_iff in H as [Hx Ha].
  cbn [app take_while]. rewrite Hx, IH; auto. Qed.

Lemma drop_while_app_all p a b : forallb p a = true -> drop_while p (a ++ b) = drop_while p b.
Proof. induction a as [|x a IH]; intros H; [reflexivity|]. cbn [forallb] in H. apply andb_true_iff in H as [Hx Ha].
  cbn [app drop_while]. rewrite Hx, IH; auto. Qed.

Lemma take_while_drop_while p s : take_while p (drop_while p s) = [].
Proof. induction s as [|x s IH]; [reflexivity|]. cbn [drop_while]. destruct (p x) eqn:E; auto. cbn [take_while]. rewrite E. reflexivity. Qed.

Lemma drop_while_idem p s : drop_while p (drop_while p s) = drop_while p s.
Proof. induction s as [|x s IH]; [reflexivity|]. cbn [drop_while]. destruct (p x) eqn:E; auto. cbn [drop_while]. rewrite E. reflexivity. Qed.

(* appending digits to a prefix: the split moves to where the prefix's own digits begin *)
Lemma split_suffix_app_digits p f : forallb is_digit f = true ->
  split_suffix (p ++ f) = (fst (split_suffix p), snd (split_suffix p) ++ f).
Proof.
  intros Hf. unfold split_suffix. cbn [fst snd]. rewrite rev_app_distr.
  rewrite take_while_app_all, drop_while_app_all by (rewrite forallb_rev; auto).
  rewrite rev_app_distr, rev_involutive. reflexivity.
Qed.

Lemma last_nth {A} (a : list A) x d : nth (length (a ++ [x]) - 1) (a ++ [x]) d = x.
Proof. rewrite app_length. cbn [length]. replace (length a + 1 - 1)%nat with (length a) by lia. apply nth_middle. Qed.

Lemma is_prefix_app_l p s : is_prefix p (p ++ s) = true.
Proof. apply is_prefix_app. Qed.

(* the recursion of hostrange_hn_within walks through the digits of the range prefix *)
Lemma hn_within_peel r n P0 F : forall D2 D1 fuel,
  single r = false -> lo r <= n <= hi r -> hi r < ULONG - 1 -> hi r + 1 - lo r <= I31 ->
  pfx r = P0 ++ D1 ++ D2 -> forallb is_digit D2 = true -> F = fmt (wid r) n ->
  value (D2 ++ F) <= MAX_HOST_SUFFIX -> (length D2 <= fuel)%nat ->
  exists off w, hn_within fuel r (mkhn (pfx r ++ F) (P0 ++ D1) (value (D2 ++ F)) (Some (D2 ++ F))) = (off, w)
                /\ (0 <= off)%Z.
Proof.
  induction D2 as [|d D2 IH]; intros D1 fuel Hs Hn Hhi Hc Hp Hd HF Hv Hfuel.
  - rewrite app_nil_r in Hp. cbn [app] in *.
    assert (E : hn_within fuel r (mkhn (pfx r ++ F) (P0 ++ D1) (value F) (Some F)) =
                match width_equiv (lo r) (wid r) (value F) (length F) with
                | None => ((-1)%Z, wid r)
                | Some (w, _) => (to_int (Z.of_N (usub (value F) (lo r))), w)
                end).
    { destruct fuel; cbn [hn_within hn_sfx hn_pfx hn_num hn_name]; rewrite Hs, <- Hp, beq_refl, Nat.eqb_refl, Nat.ltb_irrefl;
      replace (is_prefix (pfx r) (pfx r)) with true by (symmetry; rewrite <- (app_nil_r (pfx r)) at 2; apply is_prefix_app);
      cbn [negb andb]; subst F; rewrite value_fmt;
      assert ((n <=? hi r) = true) as -> by lia; assert ((lo r <=? n) = true) as -> by lia; reflexivity. }
    subst F. rewrite value_fmt, fmt_length in E.
    destruct (width_equiv_self (lo r) (wid r) n) as [v Hwe]; [lia|]. rewrite Hwe in E.
    rewrite value_fmt. eexists _, _. split; [exact E|].
    rewrite usub_le by lia. rewrite to_int_small; unfold I31 in Hc; lia.
  - destruct fuel as [|fuel]; [cbn [length] in Hfuel; lia|].
    assert (HFne : F <> []) by (subst F; apply fmt_nonempty).
    cbn [forallb] in Hd. apply andb_true_iff in Hd as [Hd1 Hd2].
    assert (Hlast : is_digit (nth (length (pfx r) - 1) (pfx r) 0) = true).
    { destruct (exists_last (l := d :: D2)) as (D' & z & Ez); [discriminate|].
      assert (Hz : is_digit z = true).
      { assert (Hall : forallb is_digit (d :: D2) = true) by (cbn [forallb]; rewrite Hd1, Hd2; reflexivity).
        rewrite Ez, forallb_app in Hall. cbn [forallb] in Hall. apply andb_true_iff in Hall as [_ Hall].
        apply andb_true_iff in Hall. tauto. }
      rewrite Hp, Ez, !app_assoc. rewrite last_nth. exact Hz. }
    cbn [hn_within hn_sfx hn_pfx hn_num hn_name]. rewrite Hs.
    assert (is_prefix (P0 ++ D1) (pfx r) = true) as ->
      by (rewrite Hp, app_assoc; apply is_prefix_app).
    cbn [negb].
    assert ((length (P0 ++ D1) <? length (pfx r))%nat = true) as ->
      by (apply Nat.ltb_lt; rewrite Hp, !app_length; cbn [length]; lia).
    assert ((1 <? length ((d :: D2) ++ F))%nat = true) as ->
      by (apply Nat.ltb_lt; rewrite app_length; cbn [length]; destruct F; [congruence|cbn [length]; lia]).
    rewrite Hlast.
    assert ((nth (length (P0 ++ D1)) (pfx r) 0 =? nth 0 ((d :: D2) ++ F) 0) = true) as ->.
    { rewrite Hp, app_assoc, nth_middle. cbn [app nth]. apply N.eqb_refl. }
    cbn [andb].
    (* the name re-split one digit further *)
    assert (Ename : pfx r ++ F = (P0 ++ D1) ++ d :: (D2 ++ F)).
    { rewrite Hp, <- !app_assoc. reflexivity. }
    assert (Hv' : value (D2 ++ F) <= MAX_HOST_SUFFIX).
    { pose proof (value_tail_le [d] (D2 ++ F)) as Hle. cbn [app] in Hle, Hv. lia. }
    assert (Ehn : hostname_with_suffix (pfx r ++ F) (S (length (P0 ++ D1))) =
                  mkhn (pfx r ++ F) (P0 ++ (D1 ++ [d])) (value (D2 ++ F)) (Some (D2 ++ F))).
    { assert (Esk : skipn (S (length (P0 ++ D1))) (pfx r ++ F) = D2 ++ F)
        by (rewrite Ename; apply skipn_app_len_S).
      assert (Efn : firstn (S (length (P0 ++ D1))) (pfx r ++ F) = P0 ++ D1 ++ [d]).
      { rewrite Ename.
        replace (S (length (P0 ++ D1))) with (length ((P0 ++ D1) ++ [d])) by (rewrite app_length; cbn [length]; lia).
        replace ((P0 ++ D1) ++ d :: D2 ++ F) with (((P0 ++ D1) ++ [d]) ++ D2 ++ F) by (rewrite <- !app_assoc; reflexivity).
        rewrite firstn_app, Nat.sub_diag, firstn_all. cbn [firstn]. rewrite app_nil_r, <- !app_assoc. reflexivity. }
      unfold hostname_with_suffix. rewrite Esk, Efn.
      destruct (D2 ++ F) as [|c s'] eqn:Es'; [destruct D2; cbn [app] in Es'; congruence|].
      assert (Hds : forallb is_digit (c :: s') = true).
      { rewrite <- Es', forallb_app, Hd2. subst F. rewrite fmt_all_digit. reflexivity. }
      assert (Hcne : c :: s' <> []) by (intro Hx; discriminate Hx).
      rewrite (strtoul_digits _ Hcne Hds).
      pose proof MAX_HOST_SUFFIX_small.
      assert ((ULONG <=? value (c :: s')) = false) as -> by lia.
      assert ((value (c :: s') <=? MAX_HOST_SUFFIX) = true) as -> by lia.
      reflexivity. }
    rewrite Ehn. apply IH; auto.
    + rewrite Hp, <- !app_assoc. reflexivity.
    + cbn [length] in Hfuel. lia.
Qed.

Lemma hn_within_complete r name :
  hr_ok r -> hr_count r <= I31 -> D02r r -> In name (range_hosts r) ->
  exists off w, hn_within (length name) r (hostname_create name) = (off, w) /\ (0 <= off)%Z.
Proof.
  intros Hok Hc HD Hin. destruct (single r) eqn:Es.
  - unfold range_hosts in Hin. rewrite Es in Hin. destruct Hin as [<-|[]].
    exists 0%Z, (wid r). split; [|lia].
    destruct (length (pfx r)); cbn [hn_within]; rewrite Es; destruct (hostname_create_wf (pfx r)) as [_ ->];
      rewrite beq_refl; reflexivity.
  - destruct HD as [HD|HD]; [congruence|].
    rewrite range_hosts_nnames in Hin by auto. apply nnames_In in Hin as (n & Hn & ->).
    pose proof Hok as Hok'. unfold hr_ok in Hok'. rewrite Es in Hok'. destruct Hok' as [Hlh Hhi].
    rewrite hr_count_ok in Hc by auto. rewrite Es in Hc.
    assert (Hn' : lo r <= n <= hi r) by lia.
    set (F := fmt (wid r) n). set (P0 := fst (split_suffix (pfx r))). set (D := digit_tail (pfx r)).
    assert (HP : pfx r = P0 ++ D) by (symmetry; apply split_suffix_app).
    assert (HDd : forallb is_digit D = true) by apply split_suffix_digits.
    assert (Hv : value (D ++ F) <= MAX_HOST_SUFFIX) by (apply HD; auto).
    assert (Ecr : hostname_create (pfx r ++ F) = mkhn (pfx r ++ F) (P0 ++ []) (value (D ++ F)) (Some (D ++ F))).
    { unfold hostname_create. rewrite split_suffix_app_digits by apply fmt_all_digit. cbn [fst].
      fold P0. fold D. fold F. unfold hostname_with_suffix.
      assert (Esk : skipn (length P0) (pfx r ++ F) = D ++ F) by (rewrite HP, <- app_assoc; apply skipn_app_len).
      assert (Efn : firstn (length P0) (pfx r ++ F) = P0 ++ []).
      { rewrite HP, <- app_assoc, firstn_app, Nat.sub_diag, firstn_all. cbn [firstn]. reflexivity. }
      rewrite Esk, Efn.
      destruct (D ++ F) as [|c s'] eqn:Es'; [destruct D; cbn [app] in Es'; [exfalso; revert Es'; apply fmt_nonempty|congruence]|].
      assert (Hds : forallb is_digit (c :: s') = true).
      { rewrite <- Es', forallb_app, HDd. unfold F. rewrite fmt_all_digit. reflexivity. }
      assert (Hcne : c :: s' <> []) by (intro Hx; discriminate Hx).
      rewrite (strtoul_digits _ Hcne Hds).
      pose proof MAX_HOST_SUFFIX_small.
      assert ((ULONG <=? value (c :: s')) = false) as -> by lia.
      assert ((value (c :: s') <=? MAX_HOST_SUFFIX) = true) as -> by lia.
      reflexivity. }
    rewrite Ecr. apply (hn_within_peel r n P0 F D [] (length (pfx r ++ F))); auto.
    + rewrite app_length, HP, app_length. lia.
Qed.

Lemma count_up_NoDup k a : NoDup (count_up k a).
Proof.
  revert a. induction k as [|k IH]; intros a; cbn [count_up]; constructor; auto.
  intros H. apply count_up_In in H. lia.
Qed.

Lemma range_hosts_NoDup r : NoDup (range_hosts r).
Proof.
  unfold range_hosts. destruct (single r); [repeat constructor; intros []|].
  apply FinFun.Injective_map_NoDup; [|apply count_up_NoDup].
  intros a b H. apply app_inv_head in H. eapply fmt_inj; eauto.
Qed.

Lemma nth_error_firstn_lt {A} (l : list A) : forall k j, (j < k)%nat -> nth_error (firstn k l) j = nth_error l j.
Proof.
  induction l as [|x l IH]; intros k j H; [rewrite firstn_nil; reflexivity|].
  destruct k as [|k]; [lia|]. destruct j as [|j]; cbn [firstn nth_error]; auto. apply IH. lia.
Qed.

Lemma NoDup_firstn_nth {A} (l : list A) k x : NoDup l -> nth_error l k = Some x -> ~ In x (firstn k l).
Proof.
  intros Hnd Hk Hin. apply In_nth_error in Hin as (j & Hj).
  assert (Hjk : (j < k)%nat).
  { assert (j < length (firstn k l))%nat by (apply nth_error_Some; congruence).
    rewrite firstn_length in H. lia. }
  rewrite nth_error_firstn_lt in Hj by auto.
  rewrite NoDup_nth_error in Hnd. specialize (Hnd j k). rewrite Hj, Hk in Hnd.
  assert (j < length l)%nat by (apply nth_error_Some; congruence).
  specialize (Hnd H eq_refl). lia.
Qed.

(* first occurrence: found, at a position holding the name, with no occurrence before it *)
Lemma find_loop_complete hn name : hn = hostname_create name -> forall l count l' ret,
  Forall hr_ok l -> Forall D02r l -> (0 <= count)%Z -> (count + Z.of_nat (length (expand l)) <= 2147483647)%Z ->
  find_loop l hn count = (l', ret) -> In name (expand l) ->
  exists k, ret = (count + Z.of_nat k)%Z /\ nth_error (expand l) k = Some name /\ ~ In name (firstn k (expand l)).
Proof.
  intros Ehn. destruct (hostname_create_wf name) as [Hwf Hnm]. rewrite <- Ehn in Hwf, Hnm.
  induction l as [|r rest IH]; intros count l' ret Hok HD Hc Hb H Hin; [destruct Hin|].
  cbn [find_loop] in H. inversion Hok as [|? ? Hr Hrest]; subst. inversion HD as [|? ? HDr HDrest]; subst.
  rewrite expand_cons in *. rewrite app_length in Hb.
  pose proof (range_len_count r Hr) as Hcnt. rewrite Hnm in H.
  destruct (hn_within (length name) r (hostname_create name)) as [off w] eqn:Ew.
  pose proof Ew as Ew2. apply hn_within_sound in Ew2 as [Hw Hoff]; auto; [|unfold I31; lia].
  rewrite Hnm in Hoff.
  destruct (0 <=? off)%Z eqn:Eo.
  - injection H as <- <-. exists (Z.to_nat off). specialize (Hoff ltac:(lia)).
    assert (Hlt : (Z.to_nat off < length (range_hosts r))%nat) by (apply nth_error_Some; congruence).
    split; [lia|]. split; [rewrite nth_error_app_l; auto|].
    rewrite firstn_app. replace (Z.to_nat off - length (range_hosts r))%nat with 0%nat by lia.
    cbn [firstn]. rewrite app_nil_r. apply NoDup_firstn_nth; auto using range_hosts_NoDup.
  - assert (Hnot : ~ In name (range_hosts r)).
    { intros Hir. destruct (hn_within_complete r name Hr) as (off' & w' & E' & Hpos); auto; [unfold I31; lia|].
      rewrite Ew in E'. injection E' as -> ->. lia. }
    apply in_app_or in Hin as [Hin|Hin]; [contradiction|].
    rewrite to_int_small in H by lia.
    destruct (find_loop rest (hostname_create name) (count + Z.of_N (hr_count r))) as [rest' ret'] eqn:Er.
    injection H as <- <-. apply IH in Er as (k & -> & Hk & Hfirst); auto; try lia.
    exists (length (range_hosts r) + k)%nat. split; [lia|]. split; [rewrite nth_error_app_r; exact Hk|].
    rewrite firstn_app. replace (length (range_hosts r) + k - length (range_hosts r))%nat with k by lia.
    rewrite firstn_all2 by lia. intros Hx. apply in_app_or in Hx as [Hx|Hx]; contradiction.
Qed.

Theorem find_complete l name l' ret :
  Forall hr_ok l -> Forall D02r l -> (Z.of_nat (length (expand l)) <= 2147483647)%Z ->
  find l name = (l', ret) -> In name (expand l) ->
  exists k, ret = Z.of_nat k /\ nth_error (expand l) k = Some name /\ ~ In name (firstn k (expand l)).
Proof.
  intros Hok HD Hb H Hin. unfold find in H.
  eapply find_loop_complete in H as (k & Hr & Hk); eauto; try lia.
Qed.

(* ====================================================================== *)
(* 5. removing one host from a range: the range array afterwards           *)
(* ====================================================================== *)

(* what hostlist_delete_nth / hostlist_remove leave of the array when the host at offset off of
   range i goes: the range disappears, shrinks at either end, or is split in two *)
Definition edit_ranges (l : list hr) (i : nat) (r : hr) (off : N) : list hr :=
  if single r || (lo r =? hi r) then firstn i l ++ skipn (S i) l
  else if off =? 0 then firstn i l ++ set_lo r (lo r + 1) :: skipn (S i) l
  else if off =? hi r - lo r then firstn i l ++ set_hi r (hi r - 1) :: skipn (S i) l
  else firstn i l ++ set_hi r (lo r + off - 1) :: set_lo r (lo r + off + 1) :: skipn (S i) l.

Lemma split_nth {A} (l : list A) i x : nth_error l i = Some x -> l = firstn i l ++ x :: skipn (S i) l.
Proof. intros H. rewrite <- (firstn_skipn i l) at 1. f_equal. apply skipn_nth_error; auto. Qed.

Lemma replace_nth_eq l i r r' : nth_error l i = Some r -> replace_nth l i r' = firstn i l ++ r' :: skipn (S i) l.
Proof. intros H. unfold replace_nth. rewrite (skipn_nth_error _ _ _ H). reflexivity. Qed.

Lemma firstn_app_len {A} (a b : list A) : firstn (length a) (a ++ b) = a.
Proof. rewrite firstn_app, Nat.sub_diag, firstn_all. cbn [firstn]. apply app_nil_r. Qed.

Lemma firstn_len_le' {A} i (l : list A) x : nth_error l i = Some x -> length (firstn i l) = i.
Proof. intros H. apply firstn_length_le. assert (i < length l)%nat by (apply nth_error_Some; congruence). lia. Qed.

Lemma del_at0 {A} (a b : list A) y :
  firstn (length a) (a ++ y :: b) ++ skipn (S (length a)) (a ++ y :: b) = a ++ b.
Proof. rewrite firstn_app_len, skipn_app_len_S. reflexivity. Qed.

Lemma del_at {A} (l : list A) i x y : nth_error l i = Some x ->
  firstn i (firstn i l ++ y :: skipn (S i) l) ++ skipn (S i) (firstn i l ++ y :: skipn (S i) l)
  = firstn i l ++ skipn (S i) l.
Proof.
  intros H. pose proof (firstn_len_le' _ _ _ H) as Hl.
  generalize dependent (firstn i l). intros a <-. apply del_at0.
Qed.

Lemma ins_at0 {A} (a b : list A) y z :
  firstn (S (length a)) (a ++ y :: b) ++ z :: skipn (S (length a)) (a ++ y :: b) = a ++ y :: z :: b.
Proof.
  rewrite skipn_app_len_S.
  replace (a ++ y :: b) with ((a ++ [y]) ++ b) by (rewrite <- app_assoc; reflexivity).
  replace (S (length a)) with (length (a ++ [y])) by (rewrite app_length; cbn [length]; lia).
  rewrite firstn_app_len, <- app_assoc. reflexivity.
Qed.

Lemma ins_at {A} (l : list A) i x y z : nth_error l i = Some x ->
  firstn (S i) (firstn i l ++ y :: skipn (S i) l) ++ z :: skipn (S i) (firstn i l ++ y :: skipn (S i) l)
  = firstn i l ++ y :: z :: skipn (S i) l.
Proof.
  intros H. pose proof (firstn_len_le' _ _ _ H) as Hl.
  generalize dependent (firstn i l). intros a <-. apply ins_at0.
Qed.

Lemma to_ulong_small z : (0 <= z <= 2147483647)%Z -> to_ulong z = Z.to_N z.
Proof. intros H. unfold to_ulong. rewrite Z.mod_small; auto. change (Z.of_N ULONG) with 18446744073709551616%Z. lia. Qed.

Lemma wrap_small x : x < ULONG -> wrap x = x.
Proof. intros H. apply N.mod_small; auto. Qed.

Lemma ULONG_val : ULONG = 18446744073709551616. Proof. reflexivity. Qed.

Lemma delete_in_range_ranges s i r off sd :
  nth_error (st_ranges s) i = Some r -> hr_ok r -> hr_count r <= I31 -> (0 <= off)%Z -> Z.to_N off < hr_count r ->
  st_ranges (delete_in_range s i r off sd) = edit_ranges (st_ranges s) i r (Z.to_N off) /\
  st_nhosts (delete_in_range s i r off sd) = st_nhosts s.
Proof.
  intros Hn Hok Hc Ho1 Ho2. pose proof ULONG_val as HU. unfold I31 in Hc.
  rewrite (hr_count_ok r Hok) in *. unfold hr_ok in Hok.
  unfold delete_in_range, edit_ranges. destruct (single r) eqn:Es.
  - destruct Hok as [Hl Hh]. cbn [orb]. destruct sd; cbn [andb].
    + unfold delete_range. cbn [st_ranges st_nhosts]. auto.
    + assert (off = 0%Z) as -> by lia. rewrite Hl. cbn [to_ulong].
      change (wrap (0 + to_ulong 0)) with 0. unfold hostrange_delete_host. rewrite Hl. cbn [N.eqb].
      unfold hostrange_empty, set_lo. cbn [hi lo]. rewrite Hh. cbn [N.ltb N.compare orb].
      unfold delete_range, set_ranges. cbn [st_ranges st_nhosts st_iters].
      rewrite (replace_nth_eq _ _ _ _ Hn). rewrite (del_at _ _ _ _ Hn). auto.
  - destruct Hok as [Hl Hh]. cbn [orb andb]. rewrite Bool.andb_false_r.
    rewrite to_ulong_small by lia. rewrite wrap_small by lia.
    unfold hostrange_delete_host.
    destruct (lo r =? hi r) eqn:Elh.
    + (* one host *)
      assert (Z.to_N off = 0) by lia. replace (lo r + Z.to_N off) with (lo r) by lia. rewrite N.eqb_refl.
      unfold hostrange_empty, set_lo. cbn [hi lo]. rewrite wrap_small by lia.
      assert ((hi r <? lo r + 1) = true) as -> by lia. cbn [orb].
      unfold delete_range, set_ranges. cbn [st_ranges st_nhosts st_iters].
      rewrite (replace_nth_eq _ _ _ _ Hn).
      rewrite (del_at _ _ _ _ Hn). auto.
    + destruct (Z.to_N off =? 0) eqn:E0.
      * replace (lo r + Z.to_N off) with (lo r) by lia. rewrite N.eqb_refl.
        unfold hostrange_empty, set_lo. cbn [hi lo]. rewrite wrap_small by lia.
        assert ((hi r <? lo r + 1) = false) as -> by lia.
        assert ((hi r =? ULONG - 1) = false) as -> by lia. cbn [orb].
        unfold set_iters, set_ranges. cbn [st_ranges st_nhosts st_iters].
        rewrite (replace_nth_eq _ _ _ _ Hn). auto.
      * assert ((lo r + Z.to_N off =? lo r) = false) as -> by lia.
        destruct (Z.to_N off =? hi r - lo r) eqn:Eh.
        -- assert ((lo r + Z.to_N off =? hi r) = true) as -> by lia.
           unfold hostrange_empty, set_hi. cbn [hi lo]. rewrite usub_le by lia.
           assert ((hi r - 1 <? lo r) = false) as -> by lia.
           assert ((hi r - 1 =? ULONG - 1) = false) as -> by lia. cbn [orb].
           unfold set_iters, set_ranges. cbn [st_ranges st_nhosts st_iters].
           rewrite (replace_nth_eq _ _ _ _ Hn). auto.
        -- assert ((lo r + Z.to_N off =? hi r) = false) as -> by lia.
           unfold hostrange_copy. rewrite Es. rewrite usub_le by lia. rewrite wrap_small by lia.
           unfold insert_range, set_ranges, set_iters. cbn [st_ranges st_nhosts st_iters].
           rewrite (replace_nth_eq _ _ _ _ Hn).
           set (r1 := set_hi r (lo r + Z.to_N off - 1)). set (r2 := set_lo r (lo r + Z.to_N off + 1)).
           assert (Hlen : length (firstn i (st_ranges s)) = i) by (eapply firstn_len_le'; eauto).
           assert ((length (firstn i (st_ranges s) ++ r1 :: skipn (S i) (st_ranges s)) <? S i)%nat = false) as ->
             by (apply Nat.ltb_ge; rewrite app_length; cbn [length]; lia).
           cbn [st_ranges st_nhosts st_iters]. split; auto.
           replace (hostrange_copy r2) with r2 by (unfold hostrange_copy, r2, set_lo; cbn [single]; rewrite Es; reflexivity).
           apply (ins_at _ _ _ _ _ Hn).
Qed.

Lemma remove_at_0 {A} (x : A) l : remove_at 0 (x :: l) = l.
Proof. reflexivity. Qed.

Lemma edit_ranges_expand l i r off :
  nth_error l i = Some r -> hr_ok r -> off < hr_count r ->
  expand (edit_ranges l i r off) = remove_at (length (expand (firstn i l)) + N.to_nat off) (expand l).
Proof.
  intros Hn Hok Ho.
  assert (El : expand l = expand (firstn i l) ++ range_hosts r ++ expand (skipn (S i) l)).
  { rewrite (split_nth l i r Hn) at 1. rewrite expand_app, expand_cons. reflexivity. }
  rewrite El. rewrite remove_at_app_r. rewrite (hr_count_ok r Hok) in Ho. unfold hr_ok in Hok.
  unfold edit_ranges. destruct (single r) eqn:Es; cbn [orb].
  - assert (off = 0) as -> by lia. rewrite expand_app. f_equal.
    unfold range_hosts. rewrite Es. reflexivity.
  - destruct Hok as [Hl Hh]. rewrite (range_hosts_nnames r Es).
    rewrite remove_at_app_l by (rewrite nnames_length; lia).
    rewrite nnames_remove_at by lia.
    destruct (lo r =? hi r) eqn:Elh.
    + rewrite expand_app. f_equal. assert (off = 0) as -> by lia.
      replace (N.to_nat (hi r + 1 - lo r) - N.to_nat 0 - 1)%nat with 0%nat by lia. reflexivity.
    + destruct (off =? 0) eqn:E0; [|destruct (off =? hi r - lo r) eqn:Eh].
      * assert (off = 0) as -> by lia. rewrite expand_app, expand_cons. f_equal. cbn [N.to_nat nnames count_up map app].
        f_equal. rewrite range_hosts_nnames by (cbn [set_lo single]; auto). cbn [set_lo pfx wid lo hi]. f_equal; lia.
      * rewrite expand_app, expand_cons. f_equal.
        replace (N.to_nat (hi r + 1 - lo r) - N.to_nat off - 1)%nat with 0%nat by lia.
        cbn [nnames count_up map]. rewrite app_nil_r. f_equal.
        rewrite range_hosts_nnames by (cbn [set_hi single]; auto). cbn [set_hi pfx wid lo hi]. f_equal; lia.
      * rewrite expand_app, !expand_cons. f_equal. rewrite <- app_assoc. f_equal.
        -- rewrite range_hosts_nnames by (cbn [set_hi single]; auto). cbn [set_hi pfx wid lo hi]. f_equal; lia.
        -- f_equal. rewrite range_hosts_nnames by (cbn [set_lo single]; auto). cbn [set_lo pfx wid lo hi]. f_equal; lia.
Qed.

(* a part of a numeric range *)
Definition subrange (r r' : hr) : Prop :=
  pfx r' = pfx r /\ wid r' = wid r /\ single r' = false /\ single r = false /\
  lo r <= lo r' /\ lo r' <= hi r' /\ hi r' <= hi r.

Lemma In_firstn' {A} (x : A) k l : In x (firstn k l) -> In x l.
Proof. intros H. rewrite <- (firstn_skipn k l). apply in_or_app. auto. Qed.
Lemma In_skipn' {A} (x : A) k l : In x (skipn k l) -> In x l.
Proof. intros H. rewrite <- (firstn_skipn k l). apply in_or_app. auto. Qed.

Lemma edit_ranges_Forall (P : hr -> Prop) l i r off :
  (forall r', subrange r r' -> P r') -> Forall P l ->
  nth_error l i = Some r -> hr_ok r -> off < hr_count r -> Forall P (edit_ranges l i r off).
Proof.
  intros Hsub HP Hn Hok Ho. rewrite (hr_count_ok r Hok) in Ho. unfold hr_ok in Hok.
  rewrite Forall_forall in HP.
  assert (H1 : Forall P (firstn i l)) by (apply Forall_forall; intros x Hx; apply HP; eapply In_firstn'; eauto).
  assert (H2 : Forall P (skipn (S i) l)) by (apply Forall_forall; intros x Hx; apply HP; eapply In_skipn'; eauto).
  unfold edit_ranges. destruct (single r) eqn:Es; cbn [orb]; [apply Forall_app; auto|].
  destruct Hok as [Hl Hh].
  destruct (lo r =? hi r) eqn:Elh; [apply Forall_app; auto|].
  destruct (off =? 0) eqn:E0; [|destruct (off =? hi r - lo r) eqn:Eh].
  all: apply Forall_app; split; auto; repeat constructor; auto.
  all: apply Hsub; unfold subrange, set_lo, set_hi; cbn [pfx wid single lo hi]; repeat split; auto; lia.
Qed.

Lemma subrange_ok r r' : hr_ok r -> subrange r r' -> hr_ok r'.
Proof. unfold hr_ok, subrange. intros H (Hp & Hw & Hs' & Hs & H1 & H2 & H3). rewrite Hs in H. rewrite Hs'. lia. Qed.

Lemma subrange_ok2 r r' : hr_ok2 r -> subrange r r' -> hr_ok2 r'.
Proof. intros [H1 H2] Hs. split; [eapply subrange_ok; eauto|]. destruct Hs as (_ & _ & _ & _ & _ & _ & H). lia. Qed.

Lemma subrange_D02 r r' : D02r r -> subrange r r' -> D02r r'.
Proof.
  intros [H|H] (Hp & Hw & Hs' & Hs & H1 & H2 & H3); [congruence|right].
  intros n Hn. rewrite Hp, Hw. apply H. lia.
Qed.

(* ====================================================================== *)
(* 6. hostlist_delete_nth, hostlist_delete_host                            *)
(* ====================================================================== *)

(* the representation invariant: well-formed ranges, the cached count is the number of names and
   fits an int *)
Definition st_ok (s : hstate) : Prop :=
  Forall hr_ok (st_ranges s) /\ st_nhosts s = Z.of_nat (length (expand (st_ranges s))) /\
  (st_nhosts s <= 2147483647)%Z.

Definition sub_closed (P : hr -> Prop) : Prop := forall r r', P r -> subrange r r' -> P r'.
Definition req_closed (P : hr -> Prop) : Prop := forall r r', P r -> req r r' -> P r'.

(* no live iterator *)
Definition dead (its : list (option iter)) : Prop := Forall (fun o => o = None) its.

Lemma map_iters_dead f its : dead its -> map_iters f its = its.
Proof. induction 1 as [|o its Ho _ IH]; [reflexivity|]. subst o. cbn [map_iters map option_map]. f_equal. exact IH. Qed.

Lemma count_int_len r : hr_ok r -> (Z.of_nat (length (range_hosts r)) <= 2147483647)%Z ->
  count_int r = Z.of_nat (length (range_hosts r)).
Proof. intros H Hb. unfold count_int. rewrite (range_len_count r H). rewrite to_int_small; lia. Qed.

Lemma locate_spec : forall l i n count,
  Forall hr_ok l -> (0 <= count)%Z -> (count + Z.of_nat (length (expand l)) <= 2147483647)%Z ->
  (count <= n < count + Z.of_nat (length (expand l)))%Z ->
  exists j r, locate l i n count = Some ((i + j)%nat, r, (count + Z.of_nat (length (expand (firstn j l))))%Z)
     /\ nth_error l j = Some r
     /\ (0 <= n - count - Z.of_nat (length (expand (firstn j l))) < Z.of_nat (length (range_hosts r)))%Z.
Proof.
  induction l as [|r rest IH]; intros i n count Hok Hc Hb Hn; [cbn [expand flat_map length] in Hn; lia|].
  inversion Hok as [|? ? Hr Hrest]; subst. rewrite expand_cons, app_length in Hb, Hn.
  cbn [locate]. rewrite count_int_len by (auto; lia).
  destruct (n <=? Z.of_nat (length (range_hosts r)) - 1 + count)%Z eqn:E.
  - exists 0%nat, r. rewrite Nat.add_0_r. cbn [firstn expand flat_map length nth_error].
    rewrite Z.add_0_r. split; auto. split; auto. lia.
  - destruct (IH (S i) n (count + Z.of_nat (length (range_hosts r)))%Z) as (j & r' & Hl & Hj & Hrange); auto; try lia.
    exists (S j), r'. rewrite Hl. cbn [firstn nth_error]. rewrite expand_cons, app_length.
    split; [f_equal; f_equal; [f_equal; lia|lia]|]. split; auto. lia.
Qed.

Lemma map_iters_dead' f its : dead its -> dead (map_iters f its).
Proof. intros H. rewrite map_iters_dead; auto. Qed.

Lemma delete_in_range_dead s i r off sd : dead (st_iters s) -> dead (st_iters (delete_in_range s i r off sd)).
Proof.
  intros H. unfold delete_in_range.
  destruct (sd && single r); [unfold delete_range; cbn [st_iters]; apply map_iters_dead'; auto|].
  destruct (hostrange_delete_host r (wrap (lo r + to_ulong off))) as [r' [new|]].
  - unfold set_iters, insert_range, set_ranges. cbn [st_ranges st_iters st_nhosts].
    match goal with |- context [if ?c then _ else _] => destruct c end; cbn [st_ranges st_iters st_nhosts];
      repeat apply map_iters_dead'; auto.
  - destruct (hostrange_empty r').
    + unfold delete_range, set_ranges. cbn [st_iters]. apply map_iters_dead'; auto.
    + unfold set_iters, set_ranges. cbn [st_iters]. apply map_iters_dead'; auto.
Qed.

Lemma st_delete_nth_spec s n :
  st_ok s -> (0 <= n < st_nhosts s)%Z ->
  exists s', st_delete_nth s n = ROk (s', 1%Z) /\
    expand (st_ranges s') = remove_at (Z.to_nat n) (expand (st_ranges s)) /\ st_ok s' /\
    (forall P, sub_closed P -> Forall P (st_ranges s) -> Forall P (st_ranges s')) /\
    (dead (st_iters s) -> dead (st_iters s')).
Proof.
  intros (Hok & Hcnt & Hb) Hn. unfold st_delete_nth.
  assert (((n <? 0) || (st_nhosts s <? n))%Z = false) as -> by lia.
  destruct (locate_spec (st_ranges s) 0 n 0 Hok) as (j & r & Hl & Hj & Hoff); try lia.
  rewrite Hl. cbn [Nat.add]. rewrite Z.add_0_l, Z.sub_0_r in *.
  set (before := length (expand (firstn j (st_ranges s)))) in *.
  assert (Hr : hr_ok r) by (rewrite Forall_forall in Hok; apply Hok; eapply nth_error_In; eauto).
  assert (Hrl : (Z.of_nat (length (range_hosts r)) <= 2147483647)%Z).
  { rewrite (split_nth _ _ _ Hj), expand_app, expand_cons, !app_length in Hcnt. lia. }
  pose proof (range_len_count r Hr) as Hrc.
  destruct (delete_in_range_ranges s j r (n - Z.of_nat before) true) as [Er En]; auto; try lia; [unfold I31; lia|].
  eexists. split; [reflexivity|].
  assert (Hex : expand (st_ranges (dec_nhosts (delete_in_range s j r (n - Z.of_nat before) true))) =
                remove_at (Z.to_nat n) (expand (st_ranges s))).
  { cbn [dec_nhosts st_ranges]. rewrite Er, edit_ranges_expand by (auto; lia). f_equal. fold before. lia. }
  split; [exact Hex|]. split; [|split].
  - unfold st_ok. rewrite Hex. cbn [dec_nhosts st_ranges st_nhosts]. rewrite Er, En.
    split; [apply edit_ranges_Forall; auto; [intros; eapply subrange_ok; eauto|lia]|].
    rewrite remove_at_length by lia. split; lia.
  - intros P HP HPl. cbn [dec_nhosts st_ranges]. rewrite Er. apply edit_ranges_Forall; auto; [|lia].
    intros r' Hs. eapply HP; eauto. rewrite Forall_forall in HPl. apply HPl. eapply nth_error_In; eauto.
  - intros Hd. cbn [dec_nhosts st_iters]. apply delete_in_range_dead; auto.
Qed.

Lemma leq_Forall (P : hr -> Prop) l l' : req_closed P -> Forall2 req l l' -> Forall P l -> Forall P l'.
Proof. intros HP. induction 1 as [|r r' l l' Hr _ IH]; intros H; [constructor|]. inversion H; subst. constructor; eauto. Qed.

Lemma D02_req_closed : req_closed D02r.
Proof. intros r r' H Hr. eapply req_D02; eauto. Qed.
Lemma D02_sub_closed : sub_closed D02r.
Proof. intros r r' H Hr. eapply subrange_D02; eauto. Qed.
Lemma ok2_sub_closed : sub_closed hr_ok2.
Proof. intros r r' H Hr. eapply subrange_ok2; eauto. Qed.
Lemma ok2_req_closed : req_closed hr_ok2.
Proof. intros r r' [H1 H2] Hr. split; [eapply req_ok; eauto|]. destruct Hr as (_ & _ & -> & _). exact H2. Qed.

(* hostlist_delete_host: nothing happens (and on D02 the name is not in the list), or one position
   holding the name goes (on D02: its first occurrence) *)
Lemma st_delete_host_spec s name : st_ok s ->
  exists s' k, st_delete_host s name = ROk (s', k) /\ st_ok s' /\
    (forall P, sub_closed P -> req_closed P -> Forall P (st_ranges s) -> Forall P (st_ranges s')) /\
    (dead (st_iters s) -> dead (st_iters s')) /\
    ((k = 0%Z /\ expand (st_ranges s') = expand (st_ranges s) /\
      (Forall D02r (st_ranges s) -> ~ In name (expand (st_ranges s))))
     \/ (k = 1%Z /\ exists j, nth_error (expand (st_ranges s)) j = Some name /\
           expand (st_ranges s') = remove_at j (expand (st_ranges s)) /\
           (Forall D02r (st_ranges s) -> ~ In name (firstn j (expand (st_ranges s)))))).
Proof.
  intros (Hok & Hcnt & Hb). unfold st_delete_host, st_find.
  destruct (find (st_ranges s) name) as [l' ret] eqn:Ef.
  pose proof Ef as Ef2. apply find_sound in Ef2 as [Hleq Hret]; auto; [|lia].
  pose proof (leq_expand _ _ Hleq) as Hex. pose proof (leq_ok _ _ Hleq Hok) as Hok'.
  assert (Hs1 : st_ok (set_ranges s l')).
  { unfold st_ok, set_ranges. cbn [st_ranges st_nhosts]. rewrite Hex. auto. }
  destruct Hret as [->|(j & -> & Hj)].
  - cbn [Z.leb Z.compare]. exists (set_ranges s l'), 0%Z. split; [reflexivity|]. split; auto.
    split; [intros P _ HP HPl; cbn [set_ranges st_ranges]; eapply leq_Forall; eauto|].
    split; [auto|]. left. split; auto. cbn [set_ranges st_ranges]. split; auto.
    intros HD Hin. destruct (find_complete _ _ _ _ Hok HD ltac:(lia) Ef Hin) as (k & Hk & _). lia.
  - assert ((0 <=? Z.of_nat j)%Z = true) as -> by lia.
    assert (Hjl : (j < length (expand (st_ranges s)))%nat) by (apply nth_error_Some; congruence).
    destruct (st_delete_nth_spec (set_ranges s l') (Z.of_nat j) Hs1) as (s2 & E2 & Hex2 & Hok2 & HP2 & Hd2);
      [cbn [set_ranges st_nhosts]; lia|].
    rewrite E2. cbn [rbind]. exists s2, 1%Z. split; [reflexivity|]. split; auto.
    split; [intros P HPs HPr HPl; apply HP2; auto; cbn [set_ranges st_ranges]; eapply leq_Forall; eauto|].
    split; [intros Hd; apply Hd2; exact Hd|]. right. split; auto. exists j.
    cbn [set_ranges st_ranges] in Hex2. rewrite Hex, Nat2Z.id in Hex2. split; auto. split; auto.
    intros HD. destruct (In_dec (list_eq_dec N.eq_dec) name (expand (st_ranges s))) as [Hin|Hin].
    + destruct (find_complete _ _ _ _ Hok HD ltac:(lia) Ef Hin) as (k & Hk & _ & Hfirst).
      assert (k = j) by lia. subst k. exact Hfirst.
    + intros Hx. apply Hin. eapply In_firstn'; eauto.
Qed.

(* ====================================================================== *)
(* 7. hostlist_pop on a list without live iterators                        *)
(* ====================================================================== *)

Definition tmp_ok (s : hstate) : Prop :=
  Forall hr_ok2 (st_ranges s) /\ st_nhosts s = Z.of_nat (length (expand (st_ranges s))).

Lemma shift_name_full r n : hr_ok2 r -> n <= hi r -> shift_name r n = pfx r ++ fmt (wid r) n.
Proof.
  intros [Hok Hlim] Hn. unfold shift_name. apply firstn_all2. rewrite app_length, fmt_length.
  assert (Hnd : (ndigits n <= 15)%nat).
  { apply ndigits_le_pow; [|lia]. rewrite <- NUM_LIMIT_pow. lia. }
  lia.
Qed.

Lemma last_split {A} (l : list A) : l <> [] -> exists r, nth_error l (length l - 1) = Some r /\ l = firstn (length l - 1) l ++ [r].
Proof.
  intros H. destruct (exists_last H) as (a & r & ->). exists r.
  rewrite app_length. cbn [length]. replace (length a + 1 - 1)%nat with (length a) by lia.
  rewrite nth_error_app2, Nat.sub_diag by lia. split; [reflexivity|]. rewrite firstn_app_len. reflexivity.
Qed.

Lemma st_pop_spec s : tmp_ok s ->
  (st_nhosts s = 0%Z /\ st_pop s = ROk (s, None)) \/
  exists s' name, st_pop s = ROk (s', Some name) /\ tmp_ok s' /\
    expand (st_ranges s) = expand (st_ranges s') ++ [name] /\ st_nhosts s' = (st_nhosts s - 1)%Z /\
    (dead (st_iters s) -> dead (st_iters s')).
Proof.
  intros (Hok & Hcnt). unfold st_pop. destruct (0 <? st_nhosts s)%Z eqn:E0; [right|left; split; auto; lia].
  assert (Hne : st_ranges s <> []) by (intros Hx; rewrite Hx in Hcnt; cbn in Hcnt; lia).
  destruct (last_split _ Hne) as (r & Hr & Hl).
  destruct (length (st_ranges s)) as [|k] eqn:Elen; [destruct (st_ranges s); [congruence|discriminate]|].
  replace (S k - 1)%nat with k in * by lia. rewrite Hr.
  assert (Hr2 : hr_ok2 r) by (rewrite Forall_forall in Hok; apply Hok; eapply nth_error_In; eauto).
  pose proof Hr2 as [Hrok Hlim]. pose proof NUM_LIMIT_ULONG as HNL. pose proof ULONG_val as HU.
  assert (Hfk : Forall hr_ok2 (firstn k (st_ranges s))).
  { apply Forall_forall. intros x Hx. rewrite Forall_forall in Hok. apply Hok. eapply In_firstn'; eauto. }
  assert (Hex : expand (st_ranges s) = expand (firstn k (st_ranges s)) ++ range_hosts r).
  { rewrite Hl at 1. rewrite expand_app. cbn [expand flat_map]. rewrite app_nil_r. reflexivity. }
  assert (Hdel : firstn k (replace_nth (st_ranges s) k r) ++ skipn (S k) (replace_nth (st_ranges s) k r) = firstn k (st_ranges s)).
  { rewrite (replace_nth_eq _ _ _ _ Hr), (del_at _ _ _ _ Hr). rewrite skipn_all2 by lia. apply app_nil_r. }
  unfold hostrange_pop. unfold hr_ok in Hrok. destruct (single r) eqn:Es.
  - destruct Hrok as [Hlo Hhi]. unfold hostrange_empty, set_lo. cbn [hi lo]. rewrite Hlo, Hhi.
    change (0 <? wrap (0 + 1)) with true. cbn [orb].
    eexists _, _. split; [reflexivity|]. unfold delete_range, dec_nhosts, set_ranges. cbn [st_ranges st_nhosts st_iters].
    assert (Hd : forall y, firstn k (replace_nth (st_ranges s) k y) ++ skipn (S k) (replace_nth (st_ranges s) k y) = firstn k (st_ranges s)).
    { intros y. rewrite (replace_nth_eq _ _ _ _ Hr), (del_at _ _ _ _ Hr). rewrite skipn_all2 by lia. apply app_nil_r. }
    rewrite Hd. unfold tmp_ok. cbn [st_ranges st_nhosts st_iters]. split; [split; auto|].
    + rewrite Hex, app_length in Hcnt. unfold range_hosts in Hcnt. rewrite Es in Hcnt. cbn [length] in Hcnt. lia.
    + split; [rewrite Hex; unfold range_hosts; rewrite Es; reflexivity|]. split; auto. apply map_iters_dead'.
  - destruct Hrok as [Hlo Hhi].
    assert (Hc : hr_count r = hi r + 1 - lo r) by (rewrite hr_count_ok; [rewrite Es; reflexivity|unfold hr_ok; rewrite Es; auto]).
    assert ((0 <? hr_count r) = true) as -> by lia.
    rewrite shift_name_full by (auto; lia).
    assert (Hrh : range_hosts r = nnames (pfx r) (wid r) (lo r) (N.to_nat (hi r - lo r)) ++ [pfx r ++ fmt (wid r) (hi r)]).
    { rewrite range_hosts_nnames by auto. replace (N.to_nat (hi r + 1 - lo r)) with (N.to_nat (hi r - lo r) + 1)%nat by lia.
      rewrite nnames_app. cbn [nnames count_up map]. repeat f_equal. lia. }
    unfold hostrange_empty, set_hi. cbn [hi lo].
    destruct (lo r =? hi r) eqn:Elh.
    + assert (((usub (hi r) 1 <? lo r) || (usub (hi r) 1 =? ULONG - 1)) = true) as ->.
      { destruct (hi r =? 0) eqn:Ez.
        - assert (hi r = 0) as -> by lia. rewrite usub_zero_one. rewrite N.eqb_refl. apply orb_true_r.
        - rewrite usub_le by lia. apply orb_true_iff. left. lia. }
      eexists _, _. split; [reflexivity|]. unfold delete_range, dec_nhosts, set_ranges. cbn [st_ranges st_nhosts st_iters].
      assert (Hd : forall y, firstn k (replace_nth (st_ranges s) k y) ++ skipn (S k) (replace_nth (st_ranges s) k y) = firstn k (st_ranges s)).
      { intros y. rewrite (replace_nth_eq _ _ _ _ Hr), (del_at _ _ _ _ Hr). rewrite skipn_all2 by lia. apply app_nil_r. }
      rewrite Hd. replace (N.to_nat (hi r - lo r)) with 0%nat in Hrh by lia. cbn [nnames count_up map app] in Hrh.
      unfold tmp_ok. cbn [st_ranges st_nhosts st_iters]. split; [split; auto|].
      * rewrite Hex, app_length, Hrh in Hcnt. cbn [length] in Hcnt. lia.
      * split; [rewrite Hex, Hrh; reflexivity|]. split; auto. apply map_iters_dead'.
    + rewrite usub_le by lia.
      assert (((hi r - 1 <? lo r) || (hi r - 1 =? ULONG - 1)) = false) as -> by lia.
      eexists _, _. split; [reflexivity|]. unfold dec_nhosts, set_iters, set_ranges. cbn [st_ranges st_nhosts st_iters].
      rewrite (replace_nth_eq _ _ _ _ Hr). rewrite skipn_all2 by lia.
      set (r' := {| pfx := pfx r; lo := lo r; hi := hi r - 1; wid := wid r; single := single r |}).
      assert (Hr' : range_hosts r' = nnames (pfx r) (wid r) (lo r) (N.to_nat (hi r - lo r))).
      { rewrite range_hosts_nnames by (unfold r'; cbn [single]; auto). unfold r'. cbn [pfx wid lo hi]. f_equal. lia. }
      unfold tmp_ok. cbn [st_ranges st_nhosts st_iters]. split; [split|].
      * apply Forall_app. split; auto. repeat constructor; unfold hr_ok, r'; cbn [single lo hi]; try rewrite Es; lia.
      * rewrite expand_app. cbn [expand flat_map]. rewrite app_nil_r, app_length, Hr'.
        rewrite Hex, app_length, Hrh, app_length in Hcnt. cbn [length] in Hcnt. lia.
      * split; [rewrite Hex, Hrh, expand_app; cbn [expand flat_map]; rewrite app_nil_r, Hr', app_assoc; reflexivity|].
        split; auto. apply map_iters_dead'.
Qed.

(* ====================================================================== *)
(* 8. what removing a host does to the iterators                           *)
(* ====================================================================== *)

Definition edit_iter (l : list hr) (i : nat) (r : hr) (off : Z) (it : iter) : iter :=
  let l' := edit_ranges l i r (Z.to_N off) in
  let zi := Z.of_nat i in
  if single r || (lo r =? hi r) then
    let enddepth := match i with
                    | O => (-1)%Z
                    | S p => match nth_error l' p with
                             | Some r0 => to_int (Z.of_N (hr_count r0) - 1)
                             | None => (-1)%Z
                             end
                    end in
    shift_iterator l' zi 0 1 (if (it_idx it =? zi)%Z then mkit (it_idx it) enddepth (it_hr it) else it)
  else if (Z.to_N off =? 0) || (Z.to_N off =? hi r - lo r) then shift_iterator l' zi off 0 it
  else split_iterator l' zi off
         (if (Z.of_nat (S i) <=? it_idx it)%Z then mkit (it_idx it + 1) (it_depth it) (load l' (it_idx it + 1)) else it).

Lemma map_iters_ext f g its : (forall it, f it = g it) -> map_iters f its = map_iters g its.
Proof. intros H. unfold map_iters. apply map_ext. intros [it|]; cbn [option_map]; [rewrite H|]; reflexivity. Qed.

Lemma map_iters_comp f g its : map_iters f (map_iters g its) = map_iters (fun it => f (g it)) its.
Proof. unfold map_iters. rewrite map_map. apply map_ext. intros [it|]; reflexivity. Qed.

Lemma delete_in_range_iters s i r off sd :
  nth_error (st_ranges s) i = Some r -> hr_ok r -> hr_count r <= I31 -> (0 <= off)%Z -> Z.to_N off < hr_count r ->
  st_iters (delete_in_range s i r off sd) = map_iters (edit_iter (st_ranges s) i r off) (st_iters s).
Proof.
  intros Hn Hok Hc Ho1 Ho2. pose proof ULONG_val as HU. unfold I31 in Hc.
  rewrite (hr_count_ok r Hok) in *. unfold hr_ok in Hok.
  unfold delete_in_range, edit_iter, edit_ranges. destruct (single r) eqn:Es.
  - destruct Hok as [Hl Hh]. cbn [orb]. destruct sd; cbn [andb].
    + unfold delete_range. cbn [st_ranges st_nhosts st_iters]. reflexivity.
    + assert (off = 0%Z) as -> by lia. rewrite Hl. cbn [to_ulong].
      change (wrap (0 + to_ulong 0)) with 0. unfold hostrange_delete_host. rewrite Hl. cbn [N.eqb].
      unfold hostrange_empty, set_lo. cbn [hi lo]. rewrite Hh. cbn [N.ltb N.compare orb].
      unfold delete_range, set_ranges. cbn [st_ranges st_nhosts st_iters].
      rewrite (replace_nth_eq _ _ _ _ Hn). rewrite (del_at _ _ _ _ Hn). reflexivity.
  - destruct Hok as [Hl Hh]. cbn [orb andb]. rewrite Bool.andb_false_r.
    rewrite to_ulong_small by lia. rewrite wrap_small by lia.
    unfold hostrange_delete_host.
    destruct (lo r =? hi r) eqn:Elh.
    + assert (Z.to_N off = 0) by lia. replace (lo r + Z.to_N off) with (lo r) by lia. rewrite N.eqb_refl.
      unfold hostrange_empty, set_lo. cbn [hi lo]. rewrite wrap_small by lia.
      assert ((hi r <? lo r + 1) = true) as -> by lia. cbn [orb].
      unfold delete_range, set_ranges. cbn [st_ranges st_nhosts st_iters].
      rewrite (replace_nth_eq _ _ _ _ Hn).
      rewrite (del_at _ _ _ _ Hn). reflexivity.
    + destruct (Z.to_N off =? 0) eqn:E0.
      * replace (lo r + Z.to_N off) with (lo r) by lia. rewrite N.eqb_refl.
        unfold hostrange_empty, set_lo. cbn [hi lo]. rewrite wrap_small by lia.
        assert ((hi r <? lo r + 1) = false) as -> by lia.
        assert ((hi r =? ULONG - 1) = false) as -> by lia. cbn [orb].
        unfold set_iters, set_ranges. cbn [st_ranges st_nhosts st_iters].
        rewrite (replace_nth_eq _ _ _ _ Hn). reflexivity.
      * assert ((lo r + Z.to_N off =? lo r) = false) as -> by lia.
        destruct (Z.to_N off =? hi r - lo r) eqn:Eh.
        -- assert ((lo r + Z.to_N off =? hi r) = true) as -> by lia.
           unfold hostrange_empty, set_hi. cbn [hi lo]. rewrite usub_le by lia.
           assert ((hi r - 1 <? lo r) = false) as -> by lia.
           assert ((hi r - 1 =? ULONG - 1) = false) as -> by lia. cbn [orb].
           unfold set_iters, set_ranges. cbn [st_ranges st_nhosts st_iters].
           rewrite (replace_nth_eq _ _ _ _ Hn). reflexivity.
        -- assert ((lo r + Z.to_N off =? hi r) = false) as -> by lia.
           unfold hostrange_copy. rewrite Es. rewrite usub_le by lia. rewrite wrap_small by lia.
           unfold insert_range, set_ranges, set_iters. cbn [st_ranges st_nhosts st_iters].
           rewrite (replace_nth_eq _ _ _ _ Hn).
           set (r1 := set_hi r (lo r + Z.to_N off - 1)). set (r2 := set_lo r (lo r + Z.to_N off + 1)).
           assert (Hlen : length (firstn i (st_ranges s)) = i) by (eapply firstn_len_le'; eauto).
           assert ((length (firstn i (st_ranges s) ++ r1 :: skipn (S i) (st_ranges s)) <? S i)%nat = false) as ->
             by (apply Nat.ltb_ge; rewrite app_length; cbn [length]; lia).
           cbn [st_ranges st_nhosts st_iters orb].
           replace (hostrange_copy r2) with r2 by (unfold hostrange_copy, r2, set_lo; cbn [single]; rewrite Es; reflexivity).
           rewrite (ins_at _ _ _ _ _ Hn). rewrite map_iters_comp. reflexivity.
Qed.

(* ====================================================================== *)
(* 9. one iterator as a cursor in the list of names                        *)
(* ====================================================================== *)

Definition before (l : list hr) (i : nat) : nat := length (expand (firstn i l)).

(* hostlist_next has just returned the name at position c *)
Definition it_on (l : list hr) (it : iter) (c : nat) : Prop :=
  exists i r, it_idx it = Z.of_nat i /\ nth_error l i = Some r /\
    (0 <= it_depth it < Z.of_nat (length (range_hosts r)))%Z /\
    Z.of_nat c = (Z.of_nat (before l i) + it_depth it)%Z /\ it_hr it = true.

(* the iterator has gone past c names *)
Definition it_at (l : list hr) (it : iter) (c : nat) : Prop :=
  (l = [] /\ it_idx it = 0%Z /\ it_depth it = (-1)%Z /\ c = 0%nat) \/
  (exists i r, it_idx it = Z.of_nat i /\ nth_error l i = Some r /\
     (-1 <= it_depth it < Z.of_nat (length (range_hosts r)))%Z /\
     Z.of_nat c = (Z.of_nat (before l i) + it_depth it + 1)%Z).

Lemma before_app_len a x b : before (a ++ x :: b) (length a) = length (expand a).
Proof. unfold before. rewrite firstn_app_len. reflexivity. Qed.

Lemma before_app_S a x b : before (a ++ x :: b) (S (length a)) = (length (expand a) + length (range_hosts x))%nat.
Proof.
  unfold before. replace (a ++ x :: b) with ((a ++ [x]) ++ b) by (rewrite <- app_assoc; reflexivity).
  replace (S (length a)) with (length (a ++ [x])) by (rewrite app_length; cbn [length]; lia).
  rewrite firstn_app_len, expand_app, app_length. cbn [expand flat_map]. rewrite app_nil_r. reflexivity.
Qed.

Lemma before_app_lt a b p : (p <= length a)%nat -> before (a ++ b) p = before a p.
Proof. intros H. unfold before. rewrite firstn_app. replace (p - length a)%nat with 0%nat by lia. cbn [firstn]. rewrite app_nil_r. reflexivity. Qed.

Lemma nth_error_mid {A} (a b : list A) x : nth_error (a ++ x :: b) (length a) = Some x.
Proof. rewrite nth_error_app2, Nat.sub_diag by lia. reflexivity. Qed.

Lemma range_nonempty r : hr_ok r -> (0 < length (range_hosts r))%nat.
Proof. intros H. pose proof (range_len_count r H). rewrite (hr_count_ok r H) in H0. unfold hr_ok in H. destruct (single r); lia. Qed.

Lemma edit_iter_at a r b it off c :
  Forall hr_ok (a ++ r :: b) -> (Z.of_nat (length (expand (a ++ r :: b))) <= 2147483647)%Z ->
  it_idx it = Z.of_nat (length a) -> it_depth it = off ->
  (0 <= off < Z.of_nat (length (range_hosts r)))%Z -> Z.of_nat c = (Z.of_nat (length (expand a)) + off)%Z ->
  it_at (edit_ranges (a ++ r :: b) (length a) r (Z.to_N off)) (edit_iter (a ++ r :: b) (length a) r off it) c.
Proof.
  intros Hok Hb Hidx Hdep Hoff Hc.
  assert (Hr : hr_ok r) by (rewrite Forall_forall in Hok; apply Hok; apply in_or_app; right; left; reflexivity).
  assert (Ha : Forall hr_ok a) by (apply Forall_app in Hok; tauto).
  pose proof (range_len_count r Hr) as Hcnt. rewrite (hr_count_ok r Hr) in Hcnt. pose proof Hr as Hr'. unfold hr_ok in Hr'.
  unfold edit_iter, edit_ranges. rewrite firstn_app_len, skipn_app_len_S.
  destruct (single r || (lo r =? hi r)) eqn:Ew.
  - (* the whole range goes *)
    assert (Hone : length (range_hosts r) = 1%nat) by (destruct (single r); cbn [orb] in Ew; lia).
    assert (Hz : off = 0%Z) by lia. rewrite Hz in *. rewrite Hidx, Z.eqb_refl. unfold shift_iterator. cbn [Z.eqb it_idx it_depth it_hr].
    rewrite Z.leb_refl. destruct a as [|x a'] using rev_ind.
    + cbn [length Z.of_nat]. change (0 <=? 0 - 1)%Z with false. cbn iota. cbn [app]. unfold it_reset.
      destruct b as [|r0 b']; [left; cbn; repeat split; auto; cbn in Hc; lia|right].
      assert (Hr0 : hr_ok r0) by (rewrite Forall_forall in Hok; apply Hok; right; left; reflexivity).
      pose proof (range_nonempty r0 Hr0).
      exists 0%nat, r0. cbn [it_idx it_depth nth_error]. cbn in Hc. unfold before. cbn [firstn expand flat_map length].
      repeat split; auto; try lia.
    + clear IHa'. rewrite app_length. cbn [length]. replace (length a' + 1)%nat with (S (length a')) by lia.
      assert ((0 <=? Z.of_nat (S (length a')) - 1)%Z = true) as -> by lia.
      right. exists (length a'), x. cbn [it_idx it_depth].
      assert (Hx : hr_ok x) by (rewrite Forall_forall in Ha; apply Ha; apply in_or_app; right; left; reflexivity).
      pose proof (range_len_count x Hx) as Hxc. pose proof (range_nonempty x Hx) as Hxp.
      assert (Hnx : nth_error ((a' ++ [x]) ++ b) (length a') = Some x) by (rewrite <- app_assoc; apply nth_error_mid).
      rewrite Hnx. split; [lia|]. split; auto.
      assert (Hxb : (Z.of_nat (length (range_hosts x)) <= 2147483647)%Z).
      { rewrite !expand_app, !app_length in Hb. cbn [expand flat_map] in Hb. rewrite app_length in Hb. lia. }
      rewrite to_int_small by lia. split; [lia|].
      rewrite <- app_assoc. cbn [app]. rewrite before_app_len.
      rewrite expand_app, app_length in Hc. cbn [expand flat_map] in Hc. rewrite app_nil_r in Hc. lia.
  - apply orb_false_iff in Ew as [Es Elh]. rewrite Es in *. destruct Hr' as [Hlo Hhi].
    destruct ((Z.to_N off =? 0) || (Z.to_N off =? hi r - lo r)) eqn:Eends.
    + unfold shift_iterator. cbn [Z.eqb]. rewrite Hidx, Z.eqb_refl, Hdep, Z.leb_refl. cbn [andb].
      right. destruct (Z.to_N off =? 0) eqn:E0.
      * exists (length a), (set_lo r (lo r + 1)). cbn [it_idx it_depth]. rewrite nth_error_mid.
        assert (Hz : off = 0%Z) by lia. rewrite Hz in *. cbn [Z.ltb Z.compare Z.sub Z.add Z.opp Z.pos_sub].
        split; auto. split; auto. rewrite before_app_len.
        rewrite range_hosts_nnames by (cbn [set_lo single]; auto). rewrite nnames_length. cbn [set_lo lo hi]. split; lia.
      * cbn [orb] in Eends. rewrite Eends. exists (length a), (set_hi r (hi r - 1)). cbn [it_idx it_depth]. rewrite nth_error_mid.
        assert ((-1 <? off)%Z = true) as -> by lia.
        split; auto. split; auto. rewrite before_app_len.
        rewrite range_hosts_nnames by (cbn [set_hi single]; auto). rewrite nnames_length. cbn [set_hi lo hi]. split; lia.
    + apply orb_false_iff in Eends as [E0 Eh]. rewrite E0, Eh.
      assert ((Z.of_nat (S (length a)) <=? it_idx it)%Z = false) as -> by lia.
      unfold split_iterator. rewrite Hidx, Z.eqb_refl, Hdep, Z.leb_refl. cbn [andb].
      right. exists (S (length a)), (set_lo r (lo r + Z.to_N off + 1)). cbn [it_idx it_depth].
      split; [lia|]. split.
      * replace (a ++ set_hi r (lo r + Z.to_N off - 1) :: set_lo r (lo r + Z.to_N off + 1) :: b)
          with ((a ++ [set_hi r (lo r + Z.to_N off - 1)]) ++ set_lo r (lo r + Z.to_N off + 1) :: b) by (rewrite <- app_assoc; reflexivity).
        replace (S (length a)) with (length (a ++ [set_hi r (lo r + Z.to_N off - 1)])) by (rewrite app_length; cbn [length]; lia).
        apply nth_error_mid.
      * rewrite before_app_S.
        rewrite !range_hosts_nnames by (cbn [set_lo set_hi single]; auto). rewrite !nnames_length. cbn [set_lo set_hi lo hi]. split; lia.
Qed.

(* exactly one live iterator, at handle h *)
Definition solo (its : list (option iter)) (h : nat) (it : iter) : Prop :=
  exists a b, its = a ++ Some it :: b /\ dead a /\ dead b /\ length a = h.

Lemma solo_get s h it : solo (st_iters s) h it -> get_iter s h = ROk it.
Proof. intros (a & b & E & _ & _ & <-). unfold get_iter. rewrite E, nth_error_mid. reflexivity. Qed.

Lemma set_nth_mid {A} (a b : list A) x y : set_nth (a ++ x :: b) (length a) y = a ++ y :: b.
Proof. induction a as [|z a IH]; [reflexivity|]. cbn [app length set_nth]. rewrite IH. reflexivity. Qed.

Lemma solo_put s h it it' : solo (st_iters s) h it -> solo (st_iters (put_iter s h (Some it'))) h it'.
Proof.
  intros (a & b & E & Ha & Hb & <-). unfold put_iter, set_iters. cbn [st_iters]. rewrite E, set_nth_mid.
  exists a, b. auto.
Qed.

Lemma solo_destroy s h it : solo (st_iters s) h it -> dead (st_iters (put_iter s h None)).
Proof.
  intros (a & b & E & Ha & Hb & <-). unfold put_iter, set_iters. cbn [st_iters]. rewrite E, set_nth_mid.
  apply Forall_app. split; auto.
Qed.

Lemma map_iters_solo f its h it : solo its h it -> solo (map_iters f its) h (f it).
Proof.
  intros (a & b & -> & Ha & Hb & <-). exists a, b. unfold map_iters. rewrite map_app. cbn [map option_map].
  fold (map_iters f a). fold (map_iters f b). rewrite !map_iters_dead by auto. auto.
Qed.

Lemma st_iter_new_solo s : dead (st_iters s) ->
  solo (st_iters (fst (st_iter_new s))) (snd (st_iter_new s)) (it_reset (st_ranges s)) /\
  st_ranges (fst (st_iter_new s)) = st_ranges s /\ st_nhosts (fst (st_iter_new s)) = st_nhosts s.
Proof.
  intros H. unfold st_iter_new. cbn [fst snd set_iters st_iters st_ranges st_nhosts]. split; auto.
  exists (st_iters s), []. repeat split; auto. constructor.
Qed.

Lemma it_reset_at l : Forall hr_ok l -> it_at l (it_reset l) 0.
Proof.
  intros H. destruct l as [|r l']; [left; repeat split; auto|right].
  exists 0%nat, r. cbn [it_reset it_idx it_depth nth_error]. inversion H; subst.
  pose proof (range_nonempty r ltac:(auto)). unfold before. cbn [firstn expand flat_map length]. repeat split; auto; lia.
Qed.

Lemma usub_count r : hr_ok r -> Z.of_N (usub (hi r) (lo r)) = (Z.of_nat (length (range_hosts r)) - 1)%Z.
Proof.
  intros H. pose proof (range_len_count r H) as Hc. rewrite (hr_count_ok r H) in Hc. unfold hr_ok in H.
  destruct (single r).
  - destruct H as [-> ->]. change (usub 0 0) with 0. lia.
  - rewrite usub_le by lia. lia.
Qed.

Lemma host_at_nth r d : hr_ok r -> (d < length (range_hosts r))%nat ->
  nth_error (range_hosts r) d = Some (host_at r (N.of_nat d)).
Proof.
  intros H Hd. pose proof (range_len_count r H) as Hc.
  rewrite (range_hosts_host_at r H) at 1. rewrite nth_error_map, count_up_nth by lia. reflexivity.
Qed.

Lemma expand_nth l i r d : nth_error l i = Some r -> (d < length (range_hosts r))%nat ->
  nth_error (expand l) (before l i + d) = nth_error (range_hosts r) d.
Proof.
  intros Hn Hd. unfold before. rewrite (split_nth l i r Hn) at 1. rewrite expand_app, expand_cons.
  rewrite nth_error_app_r, nth_error_app_l; auto.
Qed.

Lemma firstn_S_nth {A} (l : list A) : forall i r, nth_error l i = Some r -> firstn (S i) l = firstn i l ++ [r].
Proof.
  induction l as [|x l IH]; intros [|i] r H; cbn [nth_error] in H; try discriminate.
  - injection H as ->. reflexivity.
  - cbn [firstn app]. f_equal. apply IH. exact H.
Qed.

Lemma before_S l i r : nth_error l i = Some r -> before l (S i) = (before l i + length (range_hosts r))%nat.
Proof.
  intros Hn. unfold before. rewrite (firstn_S_nth _ _ _ Hn), expand_app, app_length.
  cbn [expand flat_map]. rewrite app_nil_r. reflexivity.
Qed.

Lemma before_le_total l i : (before l i <= length (expand l))%nat.
Proof. unfold before. rewrite <- (firstn_skipn i l) at 2. rewrite expand_app, app_length. lia. Qed.

Lemma before_all l i : (length l <= i)%nat -> before l i = length (expand l).
Proof. intros H. unfold before. rewrite firstn_all2 by lia. reflexivity. Qed.

Lemma it_at_le l it c : it_at l it c -> (c <= length (expand l))%nat.
Proof.
  intros [(-> & _ & _ & ->)|(i & r & Hi & Hn & Hd & Hc)]; [cbn; lia|].
  pose proof (before_S l i r Hn). pose proof (before_le_total l (S i)). lia.
Qed.

Lemma nth_z_nat l i : nth_z l (Z.of_nat i) = nth_error l i.
Proof. unfold nth_z. assert ((Z.of_nat i <? 0)%Z = false) as -> by lia. rewrite Nat2Z.id. reflexivity. Qed.

(* hostlist_next *)
Lemma st_next_spec s h it c :
  st_ok s -> solo (st_iters s) h it -> it_at (st_ranges s) it c ->
  (c < length (expand (st_ranges s)) ->
     exists it' x, st_next s h = ROk (put_iter s h (Some it'), Some x) /\
       nth_error (expand (st_ranges s)) c = Some x /\ it_on (st_ranges s) it' c)%nat /\
  (c = length (expand (st_ranges s)) ->
     exists it', st_next s h = ROk (put_iter s h (Some it'), None) /\ it_at (st_ranges s) it' c).
Proof.
  intros (Hok & Hcnt & Hb) Hsolo Hat. unfold st_next. rewrite (solo_get _ _ _ Hsolo). cbn [rbind].
  unfold iterator_advance, zlen.
  destruct Hat as [(El & Hi & Hd & ->)|(i & r & Hi & Hn & Hd & Hc)].
  - rewrite El, Hi. cbn [length Z.of_nat Z.sub Z.ltb Z.compare Z.opp]. cbn [rbind].
    split; [cbn; lia|]. intros _. exists it. split; auto. left. auto.
  - assert (Hil : (i < length (st_ranges s))%nat) by (apply nth_error_Some; congruence).
    rewrite Hi. assert ((Z.of_nat (length (st_ranges s)) - 1 <? Z.of_nat i)%Z = false) as -> by lia.
    rewrite nth_z_nat, Hn.
    assert (Hr : hr_ok r) by (rewrite Forall_forall in Hok; apply Hok; eapply nth_error_In; eauto).
    rewrite (usub_count r Hr). pose proof (before_S _ _ _ Hn) as HbS. pose proof (before_le_total (st_ranges s) (S i)) as Hble.
    assert ((it_depth it + 1 <? 0)%Z = false) as -> by lia. cbn [orb].
    destruct (Z.of_nat (length (range_hosts r)) - 1 <? it_depth it + 1)%Z eqn:Eend.
    + (* the range is exhausted *)
      destruct (Z.of_nat (length (st_ranges s)) - 1 <? Z.of_nat i + 1)%Z eqn:Elast.
      * cbn [rbind]. assert (Hall : before (st_ranges s) (S i) = length (expand (st_ranges s))) by (apply before_all; lia).
        split; [lia|]. intros _. eexists. split; [reflexivity|]. right. exists i, r. cbn [it_idx it_depth]. auto.
      * cbn [rbind it_idx it_depth]. replace (Z.of_nat i + 1)%Z with (Z.of_nat (S i)) by lia. rewrite nth_z_nat.
        destruct (nth_error (st_ranges s) (S i)) as [r'|] eqn:En'; [|apply nth_error_None in En'; lia].
        assert (Hr' : hr_ok r') by (rewrite Forall_forall in Hok; apply Hok; eapply nth_error_In; eauto).
        pose proof (range_nonempty r' Hr') as Hp'. pose proof (before_S _ _ _ En') as HbS'.
        pose proof (before_le_total (st_ranges s) (S (S i))) as Hble'.
        split; [|lia]. intros _. eexists _, _. split; [reflexivity|].
        assert (Ec : c = (before (st_ranges s) (S i) + 0)%nat) by lia.
        split.
        -- rewrite Ec, (expand_nth _ _ _ _ En') by lia. apply host_at_nth; auto.
        -- exists (S i), r'. cbn [it_idx it_depth it_hr]. repeat split; auto; try lia.
           unfold load, zlen. assert (S i < length (st_ranges s))%nat by (apply nth_error_Some; congruence). lia.
    + cbn [rbind it_idx it_depth]. rewrite nth_z_nat, Hn.
      pose proof (before_le_total (st_ranges s) (S i)).
      split; [|lia]. intros _. eexists _, _. split; [reflexivity|].
      assert (Ec : c = (before (st_ranges s) i + Z.to_nat (it_depth it + 1))%nat) by lia.
      split.
      * rewrite Ec, (expand_nth _ _ _ _ Hn) by lia. rewrite to_ulong_small by lia.
        rewrite host_at_nth by (auto; lia). f_equal. f_equal. lia.
      * exists i, r. cbn [it_idx it_depth it_hr]. repeat split; auto; lia.
Qed.

(* hostlist_remove, called after hostlist_next returned position c *)
Lemma st_remove_spec s h it c :
  st_ok s -> solo (st_iters s) h it -> it_on (st_ranges s) it c ->
  exists s' it', st_remove s h = ROk (s', 1%Z) /\ st_ok s' /\
    expand (st_ranges s') = remove_at c (expand (st_ranges s)) /\
    solo (st_iters s') h it' /\ it_at (st_ranges s') it' c /\
    (forall P, sub_closed P -> Forall P (st_ranges s) -> Forall P (st_ranges s')).
Proof.
  intros (Hok & Hcnt & Hb) Hsolo (i & r & Hi & Hn & Hd & Hc & Hhr).
  unfold st_remove. rewrite (solo_get _ _ _ Hsolo). cbn [rbind]. rewrite Hhr. cbn [negb].
  rewrite Hi, nth_z_nat, Hn, Nat2Z.id.
  assert (Hr : hr_ok r) by (rewrite Forall_forall in Hok; apply Hok; eapply nth_error_In; eauto).
  pose proof (range_len_count r Hr) as Hrc.
  pose proof (before_S _ _ _ Hn) as HbS. pose proof (before_le_total (st_ranges s) (S i)) as Hble.
  assert (Hrl : (Z.of_nat (length (range_hosts r)) <= 2147483647)%Z) by lia.
  destruct (delete_in_range_ranges s i r (it_depth it) false) as [Er En]; auto; try lia; [unfold I31; lia|].
  pose proof (delete_in_range_iters s i r (it_depth it) false Hn Hr ltac:(unfold I31; lia) ltac:(lia) ltac:(lia)) as Ei.
  eexists _, _. split; [reflexivity|].
  assert (Hex : expand (st_ranges (dec_nhosts (delete_in_range s i r (it_depth it) false))) =
                remove_at c (expand (st_ranges s))).
  { cbn [dec_nhosts st_ranges]. rewrite Er, edit_ranges_expand by (auto; lia). f_equal. fold (before (st_ranges s) i). lia. }
  split; [|split; [exact Hex|]].
  - unfold st_ok. rewrite Hex. cbn [dec_nhosts st_ranges st_nhosts]. rewrite Er, En.
    split; [apply edit_ranges_Forall; auto; [intros; eapply subrange_ok; eauto|lia]|].
    rewrite remove_at_length by lia. split; lia.
  - cbn [dec_nhosts st_ranges st_iters]. rewrite Er, Ei. split; [apply map_iters_solo; exact Hsolo|]. split.
    + pose proof (edit_iter_at (firstn i (st_ranges s)) r (skipn (S i) (st_ranges s)) it (it_depth it) c) as H.
      rewrite <- (split_nth _ _ _ Hn) in H. rewrite (firstn_len_le' _ _ _ Hn) in H.
      apply H; auto; try lia; fold (before (st_ranges s) i); lia.
    + intros P HP HPl. apply edit_ranges_Forall; auto; [|lia].
      intros r' Hs. eapply HP; eauto. rewrite Forall_forall in HPl. apply HPl. eapply nth_error_In; eauto.
Qed.

Lemma st_iter_destroy_spec s h it : solo (st_iters s) h it ->
  st_iter_destroy s h = ROk (put_iter s h None) /\ dead (st_iters (put_iter s h None)).
Proof.
  intros H. unfold st_iter_destroy. rewrite (solo_get _ _ _ H). cbn [rbind]. split; auto. eapply solo_destroy; eauto.
Qed.
