(* Model of how pdsh computes its run-time settings (opt.c: opt_default, opt_env,
   opt_args_early/-M, opt_args, copy_username, opt_verify, rcmd_register_default_rcmd) for
   the settings of property C18, and the specification they must obey. *)
From PV Require Export Base.Bytes Generated.Params.
Local Open Scope Z_scope.

(* ---- string_to_int (after the fix: strict) and atoi ---- *)
Definition INT_MAX : Z := 2147483647.
Definition digits_value (ds : bytes) : Z := Z.of_N (fold_left (fun acc d => 10 * acc + (d - 48))%N ds 0%N).

(* strtoul + the checks of string_to_int: Some n, or None = "Invalid ..." *)
Definition string_to_int (s : bytes) : option Z :=
  let s1 := drop_while is_space s in
  let '(neg, s2) := match s1 with 43%N :: r => (false, r) | 45%N :: r => (true, r) | _ => (false, s1) end in
  let ds := take_while is_digit s2 in
  let rest := drop_while is_digit s2 in
  match ds, rest with
  | [], _ => None                       (* no digits: nothing converted *)
  | _, _ :: _ => None                   (* trailing garbage *)
  | _, [] => let v := digits_value ds in
             if neg then (if v =? 0 then Some 0 else None)
             else if v <=? INT_MAX then Some v else None
  end.

(* atoi as used for -t/-u (lenient; exact while the value fits an int) *)
Definition atoi (s : bytes) : Z :=
  let s1 := drop_while is_space s in
  let '(neg, s2) := match s1 with 43%N :: r => (false, r) | 45%N :: r => (true, r) | _ => (false, s1) end in
  let v := digits_value (take_while is_digit s2) in
  if neg then - v else v.

(* ---- inputs ---- *)
Inductive optv :=
| Of (v : bytes) | Ot (v : bytes) | Ou (v : bytes) | Ol (v : bytes) | OR (v : bytes) | OM (v : bytes) | Oe (v : bytes).

Record env := mkenv {
  e_fanout : option bytes; e_ctimeout : option bytes; e_utimeout : option bytes;
  e_rcmd : option bytes; e_misc : option bytes; e_rpath : option bytes }.

Record settings := mkset {
  fanout : Z; ctimeout : Z; utimeout : Z; ruser : bytes; rcmd : bytes; misc : option bytes; rpath : bytes }.

Inductive result := Run (s : settings) | Refused.

(* what the environment of the machine provides *)
Record world := mkworld {
  login : bytes;            (* getpwuid(getuid())->pw_name *)
  name_max : nat;           (* sysconf(_SC_LOGIN_NAME_MAX) *)
  dflt_rcmd : bytes;        (* rcmd_get_default_module () *)
  known_rcmd : bytes -> bool;  (* an rcmd module of that name is loaded *)
  self_path : bytes;        (* _find_path(argv0) *)
  is_pcp : bool }.

Definition bindo {A} (o : option A) (f : A -> result) : result := match o with Some a => f a | None => Refused end.

(* opt_env *)
Definition apply_env (w : world) (e : env) (s : settings) : result :=
  bindo (match e_fanout e with None => Some (fanout s) | Some v => string_to_int v end) (fun f =>
  bindo (match e_ctimeout e with None => Some (ctimeout s) | Some v => string_to_int v end) (fun ct =>
  bindo (match e_utimeout e with None => Some (utimeout s) | Some v => string_to_int v end) (fun ut =>
  Run (mkset f ct ut (ruser s)
         (match e_rcmd e with Some v => v | None => rcmd s end)
         (match e_misc e with Some v => Some v | None => misc s end)
         (match e_rpath e with Some v => if is_pcp w then v else rpath s | None => rpath s end))))).

(* one command-line option (opt_args; -M is taken by opt_args_early: same effect) *)
Definition apply_opt (w : world) (s : settings) (o : optv) : result :=
  match o with
  | Of v => bindo (string_to_int v) (fun f => Run (mkset f (ctimeout s) (utimeout s) (ruser s) (rcmd s) (misc s) (rpath s)))
  | Ot v => Run (mkset (fanout s) (atoi v) (utimeout s) (ruser s) (rcmd s) (misc s) (rpath s))
  | Ou v => Run (mkset (fanout s) (ctimeout s) (atoi v) (ruser s) (rcmd s) (misc s) (rpath s))
  | Ol v => if (name_max w <? length v)%nat then Refused
            else Run (mkset (fanout s) (ctimeout s) (utimeout s) v (rcmd s) (misc s) (rpath s))
  | OR v => Run (mkset (fanout s) (ctimeout s) (utimeout s) (ruser s) v (misc s) (rpath s))
  | OM v => Run (mkset (fanout s) (ctimeout s) (utimeout s) (ruser s) (rcmd s) (Some v) (rpath s))
  | Oe v => if is_pcp w then Run (mkset (fanout s) (ctimeout s) (utimeout s) (ruser s) (rcmd s) (misc s) v) else Refused
  end.

Fixpoint apply_opts (w : world) (s : settings) (os : list optv) : result :=
  match os with
  | [] => Run s
  | o :: r => match apply_opt w s o with Run s' => apply_opts w s' r | Refused => Refused end
  end.

(* opt_verify + rcmd_register_default_rcmd, restricted to these settings *)
Definition verify (w : world) (s : settings) : result :=
  if known_rcmd w (rcmd s) && (1 <=? fanout s) && (0 <=? ctimeout s) && (0 <=? utimeout s) then Run s else Refused.

Definition defaults (w : world) : settings :=
  mkset (Z.of_N DFLT_FANOUT) (Z.of_N CONNECT_TIMEOUT) 0 (login w) (dflt_rcmd w) None (self_path w).

Definition effective (w : world) (e : env) (os : list optv) : result :=
  match apply_env w e (defaults w) with
  | Refused => Refused
  | Run s1 => match apply_opts w s1 os with Refused => Refused | Run s2 => verify w s2 end
  end.

(* ---- S: command line > environment > default, per setting ---- *)
Fixpoint last_opt {A} (sel : optv -> option A) (os : list optv) : option A :=
  match os with
  | [] => None
  | o :: r => match last_opt sel r with Some v => Some v | None => sel o end
  end.
Definition pick {A} (cmd env_ : option A) (dflt : A) : A :=
  match cmd with Some v => v | None => match env_ with Some v => v | None => dflt end end.

Definition sel_f o := match o with Of v => Some v | _ => None end.
Definition sel_t o := match o with Ot v => Some v | _ => None end.
Definition sel_u o := match o with Ou v => Some v | _ => None end.
Definition sel_l o := match o with Ol v => Some v | _ => None end.
Definition sel_R o := match o with OR v => Some v | _ => None end.
Definition sel_M o := match o with OM v => Some v | _ => None end.
Definition sel_e o := match o with Oe v => Some v | _ => None end.
