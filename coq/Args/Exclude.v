(* Executable model of how pdsh filters its target list (property C02):
     src/pdsh/opt.c   opt_args (case 'w', case 'x', the block after the getopt loop),
                      wcoll_append_excluded, wcoll_args_process, wcoll_arg_process,
                      get_host_rcmd_type, hostlist_assign, list_push_hostlist,
                      wcoll_expand, wcoll_apply_excluded, wcoll_apply_regex,
                      hostlist_filter_regex, regex_info_create
     src/common/split.c   list_split / _next_tok
     src/common/hostlist.c   hostlist_delete (on top of HLEdit's hostlist_delete_host,
                      hostlist_pop), iterators and hostlist_remove through HLEdit.

   The code modelled is the code WITH the three repairs fixes/C02-*.diff:
     - exclusion-file-hang      list_push_hostlist pushes the hosts of an exclusion file one by one;
     - delete-all-occurrences   hostlist_delete calls hostlist_delete_host until nothing is found;
     - filter-after-expand      wcoll_expand runs before the filters, and wcoll_apply_excluded
                                expands each exclusion argument in the same two passes.
   The record `variant' selects, per repair, the code as it was before it; `fixed' is what is
   proved correct, `original' and the single-switch variants carry the ..._refuted witnesses.

   libc's regcomp/regexec are not modelled: `compiles' and `matches' are section variables
   (the extracted functions take them as arguments; the runner is given the bits the real
   regexec returned).  Reading a ^file into a list of host expressions is property C10's
   model (Args/WcollFile.v); here a file is the list of expressions read_wcoll pushes.
   Definitions only: this file must keep running when a proof breaks. *)
From PV Require Export Hostlist.HLEdit Hostlist.HLPrint.
Local Open Scope N_scope.

(* ---- outcomes of the option pipeline ---- *)
Inductive xout (A : Type) : Type :=
| XOk (a : A)
| XErrx                 (* errx(): message and exit 1 *)
| XNoTargets            (* no -w word produced a list: modules / WCOLL / "no remote hosts" (C10, C18) *)
| XFault (f : efault)   (* out of contract: the C would have undefined behaviour *)
| XDiverges.            (* a loop of the C makes no progress *)
Arguments XOk {A} a. Arguments XErrx {A}. Arguments XNoTargets {A}.
Arguments XFault {A} f. Arguments XDiverges {A}.

Definition xbind {A B} (x : xout A) (f : A -> xout B) : xout B :=
  match x with
  | XOk a => f a | XErrx => XErrx | XNoTargets => XNoTargets | XFault e => XFault e | XDiverges => XDiverges
  end.
Definition of_res {A} (r : res A) : xout A := match r with ROk a => XOk a | RFault f => XFault f end.

Fixpoint xfold {A B} (f : A -> B -> xout A) (l : list B) (a : A) : xout A :=
  match l with
  | [] => XOk a
  | b :: r => xbind (f a b) (xfold f r)
  end.

(* ---- variants of the code ---- *)
Inductive push_variant :=
| PushOld     (* while (ranged_string(hl, n-1, s) < 0 && (n*=2 < 0x7fffff)) : n *= 1 *)
| PushParen   (* the same loop with (n*=2) < 0x7fffff *)
| PushNames.  (* fixes/C02-exclusion-file-hang.diff: one list entry per host *)
Record variant := mkvar { v_del_all : bool; v_expand_first : bool; v_push : push_variant }.
Definition fixed : variant := mkvar true true PushNames.
Definition original : variant := mkvar false false PushOld.

(* ---- split.c: list_split(",", s) ----
   tokens between top-level commas; commas inside [] do not split (the level is an int that may
   go negative and starts at 0 for every token); empty tokens are dropped *)
Definition emit_tok (cur : bytes) : list bytes := match cur with [] => [] | _ => [rev cur] end.
Definition bump (level : Z) (b : N) : Z :=
  if b =? 91 then (level + 1)%Z else if b =? 93 then (level - 1)%Z else level.
Fixpoint split_go (s : bytes) (level : Z) (cur : bytes) : list bytes :=
  match s with
  | [] => emit_tok cur
  | b :: r =>
    if (b =? 44) && (level =? 0)%Z then emit_tok cur ++ split_go r 0%Z []
    else split_go r (bump level b) (b :: cur)
  end.
Definition list_split (s : bytes) : list bytes := split_go s 0%Z [].

(* ---- wcoll_arg_process: what one word is ---- *)
Inductive wclass :=
| WFile (ex : bool) (path : bytes)    (* [-]^path *)
| WRegex (ex : bool) (pat : bytes)    (* [-]/pat[/] *)
| WExcl (e : bytes)                   (* -hosts *)
| WHosts (e : bytes)                  (* [rcmd_type:][user@]hosts, already stripped *)
| WBadSpec.                           (* '@' before ':' : errx *)

(* p[len-1] == '/' ? p[len-1] = 0 *)
Definition strip_slash (p : bytes) : bytes := match rev p with 47 :: r => rev r | _ => p end.

(* get_host_rcmd_type: the host part of [rcmd_type:][user@]hosts; None = errx.
   (which rcmd module / user the hosts get is property C09) *)
Definition host_part (w : bytes) : option bytes :=
  let '(a, pc) := split_at 58 w in
  let '(b, qa) := split_at 64 w in
  match qa with
  | Some after_at =>
    match pc with
    | Some _ => if (length b <? length a)%nat then None else Some after_at
    | None => Some after_at
    end
  | None =>
    match pc with
    | Some (c :: r) => if c =? 58 then Some w else Some (c :: r)
    | Some [] => Some []
    | None => Some w
    end
  end.

Definition classify (w : bytes) : wclass :=
  let '(ex, p0) := match w with 45 :: r => (true, r) | _ => (false, w) end in
  let p := drop_while is_space p0 in
  match p with
  | 94 :: path => WFile ex path
  | 47 :: pat => WRegex ex (strip_slash pat)
  | _ => if ex then WExcl p
         else match host_part p with Some h => WHosts h | None => WBadSpec end
  end.

(* ---- what the getopt loop accumulates ----
   opt->wcoll (None = NULL), exclude_list and regex_list (list_push = at the head) *)
Record acc := mkacc { a_wcoll : option hl; a_excl : list bytes; a_regex : list (bool * bytes) }.
Definition acc0 : acc := mkacc None [] [].

(* a hostlist built by pushing expressions one after the other (read_wcoll; wcoll_expand) *)
Definition push_all (h : hl) (es : list bytes) : hl := fold_left (fun h e => fst (push h e)) es h.
Definition wcoll_or_new (w : option hl) : hl := match w with Some h => h | None => hl_empty end.

Fixpoint lookup (files : list (bytes * list bytes)) (path : bytes) : option (list bytes) :=
  match files with
  | [] => None
  | (p, es) :: r => if beq p path then Some es else lookup r path
  end.

(* ---- list_push_hostlist, as it was: the list printed in ranged form into a buffer that is
   meant to grow.  n is the allocation, the printer is given n - 1 bytes. ---- *)
Definition PUSH_BUF0 : N := 4096.
Definition PUSH_CAP : N := 8388607. (* 0x7fffff *)
Inductive retry_res := RFit (s : bytes) (doublings : nat) | RTrunc (s : bytes) (doublings : nat) | RSpin | RPrintFault.

Definition print_into (l : list hr) (n : N) : option (bytes * bool) :=
  match ranged_string l (repeat 0 (N.to_nat (n - 1))) with
  | Ok (buf, Some _) => match cstring buf with Some s => Some (s, true) | None => None end
  | Ok (buf, None) => match cstring buf with Some s => Some (s, false) | None => None end
  | _ => None
  end.

Fixpoint retry_loop (paren : bool) (fuel : nat) (l : list hr) (n : N) (k : nat) : retry_res :=
  match fuel with
  | O => RSpin
  | S f =>
    match print_into l n with
    | None => RPrintFault
    | Some (s, true) => RFit s k
    | Some (s, false) =>
      if paren then
        let n' := n * 2 in
        if n' <? PUSH_CAP then retry_loop paren f l n' (S k) else RTrunc s k
      else
        (* n *= (2 < 0x7fffff) *)
        let n' := n * (if 2 <? PUSH_CAP then 1 else 0) in
        if n' =? 0 then RTrunc s k
        else if n' =? n then RSpin   (* same size, same failure, for ever *)
        else retry_loop paren f l n' (S k)
    end
  end.

Definition push_hostlist (pv : push_variant) (excl : list bytes) (h : hl) : xout (list bytes) :=
  match pv with
  | PushNames => XOk (rev (iter_all (ranges h)) ++ excl)
  | PushOld | PushParen =>
    match retry_loop (match pv with PushParen => true | _ => false end) 13 (ranges h) PUSH_BUF0 0 with
    | RFit s _ | RTrunc s _ => XOk (s :: excl)
    | RSpin => XDiverges
    | RPrintFault => XFault EFWritePast
    end
  end.

Section WithRegex.
Variable compiles : bytes -> bool.            (* regcomp(pat, REG_EXTENDED | REG_NOSUB) == 0 *)
Variable matches : bytes -> bytes -> bool.    (* regexec(pat, host) == 0 *)

(* ---- wcoll_arg_process ---- *)
Definition word_step (V : variant) (files : list (bytes * list bytes)) (a : acc) (w : bytes) : xout acc :=
  match classify w with
  | WFile ex path =>
    match lookup files path with
    | None => XErrx
    | Some es =>
      let h := push_all hl_empty es in
      if ex then xbind (push_hostlist (v_push V) (a_excl a) h) (fun x => XOk (mkacc (a_wcoll a) x (a_regex a)))
      else XOk (mkacc (Some (push_list (wcoll_or_new (a_wcoll a)) h)) (a_excl a) (a_regex a))
    end
  | WRegex ex pat =>
    if compiles pat then XOk (mkacc (a_wcoll a) (a_excl a) ((ex, pat) :: a_regex a)) else XErrx
  | WExcl e => XOk (mkacc (a_wcoll a) (e :: a_excl a) (a_regex a))
  | WHosts e => XOk (mkacc (Some (fst (push (wcoll_or_new (a_wcoll a)) e))) (a_excl a) (a_regex a))
  | WBadSpec => XErrx
  end.

(* the -w and -x options in command-line order *)
Inductive item := IW (arg : bytes) | IX (arg : bytes).

(* case 'w': wcoll_args_process; case 'x': wcoll_append_excluded *)
Definition item_words (it : item) : list bytes :=
  match it with
  | IW arg => list_split (if beq arg [45] then [94; 45] else arg)
  | IX arg => flat_map (fun s => list_split (45 :: s)) (list_split arg)
  end.

Definition gather (V : variant) (files : list (bytes * list bytes)) (items : list item) : xout acc :=
  xfold (word_step V files) (flat_map item_words items) acc0.

(* ---- hostlist_delete(hl, hosts) ---- *)
(* while (hostlist_delete_host(hl, hostname)) n++; *)
Fixpoint xdelete_every (fuel : nat) (s : hstate) (name : bytes) (n : Z) : xout (hstate * Z) :=
  match fuel with
  | O => XDiverges
  | S f =>
    xbind (of_res (st_delete_host s name)) (fun '(s', k) =>
      if (k =? 0)%Z then XOk (s', n) else xdelete_every f s' name (n + 1)%Z)
  end.

Definition delete_name (all : bool) (s : hstate) (name : bytes) : xout (hstate * Z) :=
  if all then xdelete_every (S (Z.to_nat (st_nhosts s))) s name 0
  else of_res (st_delete_host s name).

Fixpoint xdelete_loop (all : bool) (fuel : nat) (s tmp : hstate) (n : Z) : xout (hstate * Z) :=
  match fuel with
  | O => XDiverges
  | S f =>
    xbind (of_res (st_pop tmp)) (fun '(tmp', name) =>
      match name with
      | None => XOk (s, n)
      | Some nm => xbind (delete_name all s nm) (fun '(s', k) => xdelete_loop all f s' tmp' (n + k)%Z)
      end)
  end.

Definition xdelete (all : bool) (s : hstate) (expr : bytes) : xout (hstate * Z) :=
  match create expr with
  | Ok t => xdelete_loop all (S (Z.to_nat (nhosts t))) s (st_of_hl t) 0
  | Err _ => XOk (s, 0%Z)
  | Fault _ => XFault EFWritePast
  end.

(* ---- wcoll_apply_excluded: one exclusion argument ---- *)
Definition exclude_arg (V : variant) (s : hstate) (arg : bytes) : xout hstate :=
  if v_expand_first V then
    match create arg with
    | Ok t => xfold (fun s nm => xbind (xdelete (v_del_all V) s nm) (fun '(s', _) => XOk s'))
                    (shift_all (ranges t)) s
    | Err _ => XErrx        (* an exclusion that cannot be read is refused, not skipped *)
    | Fault _ => XFault EFWritePast
    end
  else xbind (xdelete (v_del_all V) s arg) (fun '(s', _) => XOk s').

Definition apply_excluded (V : variant) (s : hstate) (excl : list bytes) : xout hstate :=
  xfold (exclude_arg V) excl s.

(* ---- hostlist_filter_regex ---- *)
Definition keeps (re : bool * bytes) (host : bytes) : bool :=
  if fst re then negb (matches (snd re) host) else matches (snd re) host.

Fixpoint filter_loop (fuel : nat) (s : hstate) (h : nat) (keep : bytes -> bool) : xout hstate :=
  match fuel with
  | O => XDiverges
  | S f =>
    xbind (of_res (st_next s h)) (fun '(s1, name) =>
      match name with
      | None => XOk s1
      | Some nm =>
        if keep nm then filter_loop f s1 h keep
        else xbind (of_res (st_remove s1 h)) (fun '(s2, _) => filter_loop f s2 h keep)
      end)
  end.

Definition filter_by (s : hstate) (keep : bytes -> bool) : xout hstate :=
  let '(s0, h) := st_iter_new s in
  xbind (filter_loop (S (S (Z.to_nat (st_nhosts s)))) s0 h keep) (fun s1 => of_res (st_iter_destroy s1 h)).

Definition apply_regex (s : hstate) (res : list (bool * bytes)) : xout hstate :=
  xfold (fun s re => filter_by s (keeps re)) res s.

(* ---- wcoll_expand ---- *)
Definition wcoll_expand (h : hl) : hl := push_all hl_empty (shift_all (ranges h)).

(* ---- the end of opt_args: the hosts pdsh will contact, in order ---- *)
Definition finish (V : variant) (a : acc) : xout (list bytes) :=
  match a_wcoll a with
  | None => XNoTargets
  | Some w =>
    let w1 := if v_expand_first V then wcoll_expand w else w in
    if (INT_MAX <? nhosts w1)%Z then XFault EFIntOverflow
    else
      xbind (apply_excluded V (st_of_hl w1) (a_excl a)) (fun s1 =>
      xbind (apply_regex s1 (a_regex a)) (fun s2 =>
        let w2 := if v_expand_first V then hl_of_st s2 else wcoll_expand (hl_of_st s2) in
        XOk (iter_all (ranges w2))))
  end.

Definition run (V : variant) (files : list (bytes * list bytes)) (items : list item) : xout (list bytes) :=
  xbind (gather V files items) (finish V).

(* ---- the domain of the proved statement, as an executable test (ExcludeFacts.domain_check_sound) ----
   D02: glued to the digits its range prefix ends in, the largest number of the range is still a
        number for hostname_create (MAX_HOST_SUFFIX);
   D01: every number in an exclusion argument is below 10^15 (hostlist_pop's name buffer). *)
Definition d02b (r : hr) : bool :=
  single r || (value (snd (split_suffix (pfx r)) ++ fmt (wid r) (hi r)) <=? MAX_HOST_SUFFIX).
Definition NUM15 : N := 1000000000000000.
Definition hr_ok2b (r : hr) : bool := hi r <? NUM15.
Definition name_domb (nm : bytes) : bool :=
  match create nm with Ok t => forallb hr_ok2b (ranges t) | _ => true end.
Definition arg_domb (arg : bytes) : bool :=
  match create arg with
  | Ok t => forallb hr_ok2b (ranges t) && forallb name_domb (expand (ranges t))
  | _ => false
  end.
Definition domain_check (files : list (bytes * list bytes)) (items : list item) : bool :=
  match gather fixed files items with
  | XOk a =>
    match a_wcoll a with
    | Some w => (nhosts (wcoll_expand w) <=? INT_MAX)%Z && forallb d02b (ranges (wcoll_expand w))
                && forallb arg_domb (a_excl a)
    | None => true
    end
  | _ => true
  end.

End WithRegex.
