(* Executable model of how the command reaches the transport (property C09):
     src/common/pipecmd.c  pipecmd_format_arg, cmd_args_create     (exec: %h %u %n %%)
     src/pdsh/opt.c        opt_args, "DSH: build command"          (the command text)
     src/modules/xrcmd.c   xrcmd, the writes of the rsh handshake
   A C string is modelled as its bytes followed by the terminating NUL and NOTHING after it:
   a read beyond the terminator is the explicit outcome [FFault].  Definitions only. *)
From PV Require Export Base.Decimal.
Local Open Scope N_scope.

Inductive fres (A : Type) : Type := FOk (a : A) | FFault.
Arguments FOk {A} a. Arguments FFault {A}.

(* struct pipe_info_struct: target host, user name, rank *)
Record pinfo := mkpi { p_target : bytes; p_user : bytes; p_rank : N }.

(* the memory a 'const char *' points to *)
Definition cstr (a : bytes) : list N := a ++ [0].

(* xstrcat / xstrcatchar on a string that may still be NULL (None); appending the NUL
   character leaves the C string as it is (but allocates it) *)
Definition xstrcat (str : option bytes) (s : bytes) : option bytes :=
  Some (match str with None => s | Some t => t ++ s end).
Definition xstrcatchar (str : option bytes) (c : N) : option bytes :=
  if c =? 0 then xstrcat str [] else xstrcat str [c].

(* the switch on the character after the percent sign, in pipecmd_format_arg *)
Definition fmt_switch (e : pinfo) (d : N) (str : option bytes) : option bytes :=
  if d =? 104 then xstrcat str (p_target e)                 (* 'h' *)
  else if d =? 117 then xstrcat str (p_user e)              (* 'u' *)
  else if d =? 110 then xstrcat str (digits (p_rank e))     (* 'n': snprintf "%d" *)
  else if d =? 37 then xstrcatchar str 37                   (* '%' *)
  else xstrcatchar (xstrcatchar str 37) d.                  (* default: keep both *)

(* the while loop, [m] = memory from p on.  Current code (after fix C09-format-arg):
     if ( *p == '%' && *(p + 1) != '\0') { p++; switch ( *p) ... } else xstrcatchar ( *p); p++; *)
Fixpoint fmt_loop (e : pinfo) (m : list N) (str : option bytes) : fres (option bytes) :=
  match m with
  | [] => FFault
  | c :: m1 =>
    if c =? 0 then FOk str
    else if c =? 37 then
      match m1 with
      | [] => FFault
      | d :: m2 => if d =? 0 then fmt_loop e m1 (xstrcatchar str c)
                   else fmt_loop e m2 (fmt_switch e d str)
      end
    else fmt_loop e m1 (xstrcatchar str c)
  end.

(* str starts as Strdup ("") *)
Definition format_arg (e : pinfo) (arg : bytes) : fres (option bytes) := fmt_loop e (cstr arg) (Some []).

(* the code before the fix: 'if ( *p == '%') { p++; switch ...} ...; p++' with str = NULL *)
Fixpoint fmt_loop0 (e : pinfo) (m : list N) (str : option bytes) : fres (option bytes) :=
  match m with
  | [] => FFault
  | c :: m1 =>
    if c =? 0 then FOk str
    else if c =? 37 then
      match m1 with
      | [] => FFault
      | d :: m2 => fmt_loop0 e m2 (fmt_switch e d str)
      end
    else fmt_loop0 e m1 (xstrcatchar str c)
  end.
Definition format_arg0 (e : pinfo) (arg : bytes) : fres (option bytes) := fmt_loop0 e (cstr arg) None.

(* cmd_args_create: args[i] = format (argv[i-1]); execvp reads args up to the first NULL *)
Fixpoint format_all (f : bytes -> fres (option bytes)) (argv : list bytes) : fres (list (option bytes)) :=
  match argv with
  | [] => FOk []
  | a :: r => match f a with
              | FFault => FFault
              | FOk x => match format_all f r with FFault => FFault | FOk xs => FOk (x :: xs) end
              end
  end.
Fixpoint until_null (l : list (option bytes)) : list bytes :=
  match l with Some a :: r => a :: until_null r | _ => [] end.
(* argv[1..] as the executed program sees it *)
Definition exec_args_with (f : bytes -> fres (option bytes)) (argv : list bytes) : fres (list bytes) :=
  match format_all f argv with FFault => FFault | FOk l => FOk (until_null l) end.
Definition exec_args (e : pinfo) := exec_args_with (format_arg e).
Definition exec_args0 (e : pinfo) := exec_args_with (format_arg0 e).

(* opt_args: for (; optind < argc; optind++) { if (cmd != NULL) xstrcat (" "); xstrcat (argv[optind]); } *)
Definition build_cmd (args : list bytes) : option bytes :=
  fold_left (fun cmd a => xstrcat (match cmd with None => None | Some _ => xstrcat cmd [32] end) a) args None.

(* xrcmd: the write(2) calls on the connected socket, in order.  port = None when no stderr
   channel is requested (fd2p == NULL): write (s, "", 1); otherwise snprintf (num, 8, "%d", lport) *)
Definition RSH_NUM_SIZE : nat := 8.
Definition xrcmd_writes (port : option N) (locuser remuser cmd : bytes) : list bytes :=
  [ match port with None => [0] | Some p => firstn (RSH_NUM_SIZE - 1) (digits p) ++ [0] end;
    locuser ++ [0]; remuser ++ [0]; cmd ++ [0] ].
Definition xrcmd_wire (port : option N) (locuser remuser cmd : bytes) : bytes :=
  concat (xrcmd_writes port locuser remuser cmd).
