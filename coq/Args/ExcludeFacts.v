(* Proofs for property C02: the filtering pipeline of opt.c (Args/Exclude.v, the repaired code,
   variant `fixed') computes the specification (Args/ExcludeSpec.v). *)
From Coq Require Import ZifyBool ZifyNat ZifyN.
From PV Require Import Base.DecimalFacts Hostlist.HLSpec Hostlist.HLFacts Hostlist.HLParseFacts Hostlist.HLLimits.
From PV Require Export Args.ExcludeHLFacts Args.ExcludeSpec Args.Exclude.
Local Open Scope N_scope.

(* ====================================================================== *)
(* 0. plain lists                                                          *)
(* ====================================================================== *)

Definition differs (name h : bytes) : bool := negb (beq h name).

Lemma filter_notin name l : ~ In name l -> filter (differs name) l = l.
Proof.
  induction l as [|x l IH]; intros H; [reflexivity|]. cbn [filter]. unfold differs at 1.
  destruct (beq x name) eqn:E; [apply beq_eq in E; subst; exfalso; apply H; left; reflexivity|].
  cbn [negb]. f_equal. apply IH. intros Hx. apply H. right. exact Hx.
Qed.

Lemma filter_remove_at name : forall l j, nth_error l j = Some name ->
  filter (differs name) (remove_at j l) = filter (differs name) l.
Proof.
  induction l as [|x l IH]; intros [|j] H; cbn [nth_error] in H; try discriminate.
  - injection H as ->. rewrite remove_at_0. cbn [filter]. unfold differs at 2. rewrite beq_refl. reflexivity.
  - change (remove_at (S j) (x :: l)) with (x :: remove_at j l). cbn [filter]. rewrite IH by auto. reflexivity.
Qed.

Lemma filter_filter {A} (p q : A -> bool) l : filter p (filter q l) = filter (fun x => q x && p x) l.
Proof. induction l as [|x l IH]; [reflexivity|]. cbn [filter]. destruct (q x); cbn [filter andb]; rewrite IH; reflexivity. Qed.

Lemma filter_ext' {A} (p q : A -> bool) l : (forall x, p x = q x) -> filter p l = filter q l.
Proof. intros H. apply filter_ext. exact H. Qed.

Lemma filter_true {A} (l : list A) : filter (fun _ => true) l = l.
Proof. induction l as [|x l IH]; [reflexivity|]. cbn [filter]. rewrite IH. reflexivity. Qed.

Lemma memb_app h a b : memb h (a ++ b) = memb h a || memb h b.
Proof. unfold memb. apply existsb_app. Qed.

Lemma memb_In h l : memb h l = true <-> In h l.
Proof.
  unfold memb. rewrite existsb_exists. split.
  - intros (x & Hx & E). apply beq_eq in E. subst. exact Hx.
  - intros H. exists h. split; auto. apply beq_refl.
Qed.

Lemma memb_ext h a b : (forall x, In x a <-> In x b) -> memb h a = memb h b.
Proof.
  intros H. destruct (memb h a) eqn:Ea, (memb h b) eqn:Eb; auto.
  - apply memb_In, H, memb_In in Ea. congruence.
  - apply memb_In, H, memb_In in Eb. congruence.
Qed.

Lemma firstn_remove_at {A} c (l : list A) : firstn c (remove_at c l) = firstn c l.
Proof.
  unfold remove_at. destruct (Nat.le_gt_cases (length l) c) as [H|H].
  - rewrite (firstn_all2 l) by lia. rewrite skipn_all2 by lia. rewrite app_nil_r. apply firstn_all2. lia.
  - rewrite firstn_app, firstn_firstn, Nat.min_id, firstn_length_le by lia. rewrite Nat.sub_diag. cbn [firstn]. apply app_nil_r.
Qed.

Lemma skipn_remove_at {A} c (l : list A) : skipn c (remove_at c l) = skipn (S c) l.
Proof.
  unfold remove_at. destruct (Nat.le_gt_cases (length l) c) as [H|H].
  - rewrite (firstn_all2 l) by lia. rewrite (skipn_all2 l) by lia. rewrite app_nil_r. apply skipn_all2. lia.
  - rewrite skipn_app, firstn_length_le by lia. rewrite Nat.sub_diag. cbn [skipn].
    rewrite skipn_all2 by (rewrite firstn_length; lia). reflexivity.
Qed.

(* ====================================================================== *)
(* 1. hostlist_delete (repaired): every occurrence of every name goes      *)
(* ====================================================================== *)

(* the state of the target list between two filter steps *)
Definition wc_ok (s : hstate) : Prop := st_ok s /\ Forall D02r (st_ranges s) /\ dead (st_iters s).
Definition names (s : hstate) : list bytes := expand (st_ranges s).

Lemma delete_every_spec name : forall fuel s n,
  wc_ok s -> (Z.to_nat (st_nhosts s) < fuel)%nat ->
  exists s' n', xdelete_every fuel s name n = XOk (s', n') /\ wc_ok s' /\
    names s' = filter (differs name) (names s).
Proof.
  induction fuel as [|fuel IH]; intros s n (Hok & HD & Hdead) Hf; [lia|].
  cbn [xdelete_every].
  destruct (st_delete_host_spec s name Hok) as (s1 & k & E & Hok1 & HP & Hd1 & Hcase).
  rewrite E. cbn [of_res xbind].
  assert (HD1 : Forall D02r (st_ranges s1)) by (apply HP; auto using D02_sub_closed, D02_req_closed).
  destruct Hcase as [(-> & Hex & Hnot)|(-> & j & Hj & Hex & _)].
  - cbn [Z.eqb]. eexists _, _. split; [reflexivity|]. split; [split; [exact Hok1|split; auto]|].
    unfold names. rewrite Hex, filter_notin; auto.
  - cbn [Z.eqb]. destruct (IH s1 (n + 1)%Z) as (s' & n' & E' & Hok' & Hn').
    + split; [exact Hok1|split; auto].
    + destruct Hok as (_ & Hc & _). destruct Hok1 as (_ & Hc1 & _). rewrite Hc1, Hex.
      assert (j < length (expand (st_ranges s)))%nat by (apply nth_error_Some; congruence).
      rewrite remove_at_length by lia. lia.
    + exists s', n'. split; auto. split; auto. rewrite Hn'. unfold names. rewrite Hex. apply filter_remove_at; auto.
Qed.

Lemma delete_name_spec s name : wc_ok s ->
  exists s' k, delete_name true s name = XOk (s', k) /\ wc_ok s' /\ names s' = filter (differs name) (names s).
Proof. intros H. unfold delete_name. apply delete_every_spec; auto. Qed.

Lemma xdelete_loop_spec : forall fuel s tmp n,
  wc_ok s -> tmp_ok tmp -> dead (st_iters tmp) -> (Z.to_nat (st_nhosts tmp) < fuel)%nat ->
  exists s' n', xdelete_loop true fuel s tmp n = XOk (s', n') /\ wc_ok s' /\
    names s' = filter (fun h => negb (memb h (names tmp))) (names s).
Proof.
  induction fuel as [|fuel IH]; intros s tmp n Hs Ht Hdt Hf; [lia|].
  cbn [xdelete_loop].
  destruct (st_pop_spec tmp Ht) as [(Hz & E)|(tmp' & name & E & Ht' & Hex & Hn' & Hd')]; rewrite E; cbn [of_res xbind].
  - eexists _, _. split; [reflexivity|]. split; auto.
    destruct Ht as (_ & Hc). rewrite Hz in Hc. unfold names at 2.
    destruct (expand (st_ranges tmp)); [|cbn [length] in Hc; lia]. cbn [memb existsb negb]. symmetry. apply filter_true.
  - destruct (delete_name_spec s name Hs) as (s1 & k & E1 & Hs1 & Hn1). rewrite E1. cbn [xbind].
    assert (Hpos : (0 < st_nhosts tmp)%Z).
    { destruct Ht as (_ & Hc). rewrite Hc, Hex, app_length. cbn [length]. lia. }
    destruct (IH s1 tmp' (n + k)%Z Hs1 Ht' (Hd' Hdt)) as (s' & n'' & E' & Hs' & Hnm); [lia|].
    exists s', n''. split; auto. split; auto. rewrite Hnm, Hn1, filter_filter. apply filter_ext'.
    intros h. unfold names. rewrite Hex, memb_app. cbn [memb existsb]. unfold differs.
    rewrite orb_false_r, negb_orb, andb_comm. reflexivity.
Qed.

(* the names a name stands for (it may contain a second pair of brackets) *)
Definition pass2 (nm : bytes) : list bytes := match create nm with Ok t => expand (ranges t) | _ => [] end.
Definition name_dom (nm : bytes) : Prop := match create nm with Ok t => Forall hr_ok2 (ranges t) | _ => True end.

Lemma xdelete_spec s nm : wc_ok s -> name_dom nm ->
  exists s' k, xdelete true s nm = XOk (s', k) /\ wc_ok s' /\
    names s' = filter (fun h => negb (memb h (pass2 nm))) (names s).
Proof.
  intros Hs Hdom. unfold xdelete, pass2, name_dom in *. destruct (create nm) as [t|e|f] eqn:Ec.
  - destruct (create_size_bound _ _ Ec) as (_ & _ & Hlen).
    destruct (create_loop_inv _ _ _ _ Ec hl_empty_inv) as [(_ & _ & Hpos) _].
    apply (xdelete_loop_spec _ s (st_of_hl t) 0); [exact Hs| | |].
    + split; [exact Hdom|]. unfold st_of_hl. cbn [st_ranges st_nhosts]. lia.
    + constructor.
    + unfold st_of_hl. cbn [st_nhosts]. lia.
  - eexists _, _. split; [reflexivity|]. split; auto. cbn [memb existsb negb]. symmetry. apply filter_true.
  - exfalso. eapply create_no_fault; eauto.
Qed.

(* the names an exclusion argument stands for: two passes, like the targets *)
Definition names2 (arg : bytes) : list bytes :=
  match create arg with Ok t => flat_map pass2 (expand (ranges t)) | _ => [] end.
Definition arg_dom (arg : bytes) : Prop :=
  match create arg with
  | Ok t => Forall hr_ok2 (ranges t) /\ Forall name_dom (expand (ranges t))
  | _ => False
  end.

Lemma xfold_delete_spec : forall nms s, wc_ok s -> Forall name_dom nms ->
  exists s', xfold (fun s nm => xbind (xdelete true s nm) (fun '(s', _) => XOk s')) nms s = XOk s' /\ wc_ok s' /\
    names s' = filter (fun h => negb (memb h (flat_map pass2 nms))) (names s).
Proof.
  induction nms as [|nm nms IH]; intros s Hs Hd; cbn [xfold].
  - exists s. split; auto. split; auto. cbn [flat_map memb existsb negb]. symmetry. apply filter_true.
  - inversion Hd as [|? ? Hnm Hrest]; subst.
    destruct (xdelete_spec s nm Hs Hnm) as (s1 & k & E & Hs1 & Hn1). rewrite E. cbn [xbind].
    destruct (IH s1 Hs1 Hrest) as (s' & E' & Hs' & Hn'). exists s'. split; auto. split; auto.
    rewrite Hn', Hn1, filter_filter. apply filter_ext'. intros h. cbn [flat_map]. rewrite memb_app, negb_orb. reflexivity.
Qed.

Lemma exclude_arg_spec s arg : wc_ok s -> arg_dom arg ->
  exists s', exclude_arg fixed s arg = XOk s' /\ wc_ok s' /\
    names s' = filter (fun h => negb (memb h (names2 arg))) (names s).
Proof.
  intros Hs Hdom. unfold exclude_arg, names2, arg_dom in *. cbn [fixed v_expand_first v_del_all].
  destruct (create arg) as [t|e|f] eqn:Ec.
  - destruct Hdom as [H2 Hn]. rewrite shift_all_expand by auto. apply xfold_delete_spec; auto.
  - destruct Hdom.
  - exfalso. eapply create_no_fault; eauto.
Qed.

(* an exclusion argument the parser cannot read makes the run end with an error: it is never skipped *)
Lemma exclude_arg_refused s arg e : create arg = Err e -> exclude_arg fixed s arg = XErrx.
Proof. intros E. unfold exclude_arg. cbn [fixed v_expand_first]. rewrite E. reflexivity. Qed.

Lemma apply_excluded_spec : forall excl s, wc_ok s -> Forall arg_dom excl ->
  exists s', apply_excluded fixed s excl = XOk s' /\ wc_ok s' /\
    names s' = filter (fun h => negb (memb h (flat_map names2 excl))) (names s).
Proof.
  unfold apply_excluded. induction excl as [|arg excl IH]; intros s Hs Hd; cbn [xfold].
  - exists s. split; auto. split; auto. cbn [flat_map memb existsb negb]. symmetry. apply filter_true.
  - inversion Hd as [|? ? Ha Hrest]; subst.
    destruct (exclude_arg_spec s arg Hs Ha) as (s1 & E & Hs1 & Hn1). rewrite E. cbn [xbind].
    destruct (IH s1 Hs1 Hrest) as (s' & E' & Hs' & Hn'). exists s'. split; auto. split; auto.
    rewrite Hn', Hn1, filter_filter. apply filter_ext'. intros h. cbn [flat_map]. rewrite memb_app, negb_orb. reflexivity.
Qed.

(* ====================================================================== *)
(* 2. hostlist_filter_regex: removal while iterating                       *)
(* ====================================================================== *)

Lemma it_on_at l it c : it_on l it c -> it_at l it (S c).
Proof. intros (i & r & Hi & Hn & Hd & Hc & _). right. exists i, r. repeat split; auto; lia. Qed.

Lemma put_iter_ok s h x : st_ok s -> st_ok (put_iter s h x).
Proof. intros H. exact H. Qed.

Lemma filter_loop_spec keep : forall fuel s h it c,
  st_ok s -> Forall D02r (st_ranges s) -> solo (st_iters s) h it -> it_at (st_ranges s) it c ->
  (length (names s) - c < fuel)%nat ->
  exists s' it', filter_loop fuel s h keep = XOk s' /\ st_ok s' /\ Forall D02r (st_ranges s') /\
    solo (st_iters s') h it' /\
    names s' = firstn c (names s) ++ filter keep (skipn c (names s)).
Proof.
  induction fuel as [|fuel IH]; intros s h it c Hok HD Hsolo Hat Hf; [lia|].
  cbn [filter_loop]. pose proof (it_at_le _ _ _ Hat) as Hle. unfold names in *.
  destruct (st_next_spec s h it c Hok Hsolo Hat) as [Hlt Heq].
  destruct (Nat.eq_dec c (length (expand (st_ranges s)))) as [Ec|Ec].
  - destruct (Heq Ec) as (it' & E & Hat'). rewrite E. cbn [of_res xbind].
    eexists _, it'. split; [reflexivity|]. split; [exact Hok|]. split; [exact HD|]. split; [eapply solo_put; eauto|].
    cbn [put_iter set_iters st_ranges]. rewrite Ec, firstn_all, skipn_all. cbn [filter]. rewrite app_nil_r. reflexivity.
  - destruct (Hlt ltac:(lia)) as (it' & x & E & Hx & Hon). rewrite E. cbn [of_res xbind].
    assert (Hsolo' : solo (st_iters (put_iter s h (Some it'))) h it') by (eapply solo_put; eauto).
    assert (Hsk : skipn c (expand (st_ranges s)) = x :: skipn (S c) (expand (st_ranges s))) by (apply skipn_nth_error; auto).
    destruct (keep x) eqn:Ek.
    + destruct (IH (put_iter s h (Some it')) h it' (S c)) as (s' & it'' & E' & Hok' & HD' & Hs' & Hn'); auto.
      * apply it_on_at; exact Hon.
      * cbn [put_iter set_iters st_ranges]. lia.
      * exists s', it''. split; auto. split; auto. split; auto. split; auto.
        rewrite Hn'. cbn [put_iter set_iters st_ranges]. rewrite Hsk. cbn [filter]. rewrite Ek.
        rewrite (firstn_S_nth _ _ _ Hx), <- app_assoc. reflexivity.
    + destruct (st_remove_spec (put_iter s h (Some it')) h it' c Hok Hsolo' Hon) as (s2 & it2 & E2 & Hok2 & Hex2 & Hsolo2 & Hat2 & HP2).
      rewrite E2. cbn [of_res xbind]. cbn [put_iter set_iters st_ranges] in Hex2, HP2.
      destruct (IH s2 h it2 c) as (s' & it'' & E' & Hok' & HD' & Hs' & Hn'); auto.
      * apply HP2; auto using D02_sub_closed.
      * rewrite Hex2, remove_at_length by lia. lia.
      * exists s', it''. split; auto. split; auto. split; auto. split; auto.
        rewrite Hn', Hex2, firstn_remove_at, skipn_remove_at, Hsk. cbn [filter]. rewrite Ek. reflexivity.
Qed.

Lemma filter_by_spec s keep : wc_ok s ->
  exists s', filter_by s keep = XOk s' /\ wc_ok s' /\ names s' = filter keep (names s).
Proof.
  intros (Hok & HD & Hdead). unfold filter_by.
  destruct (st_iter_new s) as [s0 h] eqn:En.
  pose proof (st_iter_new_solo s Hdead) as (Hsolo & Hr & Hn). rewrite En in Hsolo, Hr, Hn. cbn [fst snd] in *.
  assert (Hok0 : st_ok s0) by (unfold st_ok; rewrite Hr, Hn; exact Hok).
  destruct (filter_loop_spec keep (S (S (Z.to_nat (st_nhosts s)))) s0 h (it_reset (st_ranges s)) 0) as (s1 & it1 & E & Hok1 & HD1 & Hs1 & Hn1); auto.
  - rewrite Hr; auto.
  - rewrite Hr. apply it_reset_at. destruct Hok; auto.
  - unfold names. rewrite Hr. destruct Hok as (_ & Hc & _). lia.
  - rewrite E. cbn [xbind]. destruct (st_iter_destroy_spec s1 h it1 Hs1) as [Ed Hdd]. rewrite Ed. cbn [of_res].
    eexists. split; [reflexivity|]. split; [split; [exact Hok1|split; [exact HD1|exact Hdd]]|].
    unfold names in *. cbn [put_iter set_iters st_ranges]. rewrite Hn1, Hr. reflexivity.
Qed.

Section Regex.
Variable matches : bytes -> bytes -> bool.

Lemma apply_regex_spec : forall res s, wc_ok s ->
  exists s', apply_regex matches s res = XOk s' /\ wc_ok s' /\
    names s' = filter (fun h => forallb (fun re => keeps matches re h) res) (names s).
Proof.
  unfold apply_regex. induction res as [|re res IH]; intros s Hs; cbn [xfold].
  - exists s. split; auto. split; auto. cbn [forallb]. symmetry. apply filter_true.
  - destruct (filter_by_spec s (keeps matches re) Hs) as (s1 & E & Hs1 & Hn1). rewrite E. cbn [xbind].
    destruct (IH s1 Hs1) as (s' & E' & Hs' & Hn'). exists s'. split; auto. split; auto.
    rewrite Hn', Hn1, filter_filter. apply filter_ext'. intros h. reflexivity.
Qed.
End Regex.

(* ====================================================================== *)
(* 3. the end of opt_args                                                  *)
(* ====================================================================== *)

Lemma push_list_inv h l : hl_inv h -> Forall hr_ok l -> hl_inv (fold_left hl_push_range l h).
Proof.
  revert h. induction l as [|r l IH]; intros h Hh Hl; cbn [fold_left]; auto.
  inversion Hl; subst. apply IH; auto. apply hl_push_range_inv; auto.
Qed.

Lemma push_inv h e : hl_inv h -> hl_inv (fst (push h e)).
Proof.
  intros Hh. unfold push. destruct (create e) as [t|x|f] eqn:Ec; cbn [fst]; auto.
  unfold push_list. apply push_list_inv; auto. apply (create_size_bound _ _ Ec).
Qed.

Lemma push_all_inv es : forall h, hl_inv h -> hl_inv (push_all h es).
Proof. unfold push_all. induction es as [|e es IH]; intros h Hh; cbn [fold_left]; auto. apply IH. apply push_inv; auto. Qed.

Lemma wcoll_expand_inv w : hl_inv (wcoll_expand w).
Proof. unfold wcoll_expand. apply push_all_inv. apply hl_empty_inv. Qed.

Section Final.
Variable compiles : bytes -> bool.
Variable matches : bytes -> bytes -> bool.

Definition keep_pats (res : list (bool * bytes)) : list bytes := map snd (filter (fun re => negb (fst re)) res).
Definition drop_pats (res : list (bool * bytes)) : list bytes := map snd (filter (fun re => fst re) res).

Lemma keeps_split res h :
  forallb (fun re => keeps matches re h) res =
  forallb (fun p => matches p h) (keep_pats res) && negb (existsb (fun p => matches p h) (drop_pats res)).
Proof.
  unfold keep_pats, drop_pats. induction res as [|[ex pat] res IH]; [reflexivity|].
  cbn [forallb filter fst snd]. rewrite IH. unfold keeps. cbn [fst snd].
  destruct ex; cbn [negb map forallb existsb fst snd]; destruct (matches pat h); cbn [negb andb orb]; auto.
  - rewrite andb_false_r. reflexivity.
Qed.

(* domain of the proved statement: the expanded target list is within D02 and every exclusion
   argument within D01 *)
Definition in_domain (w : hl) (excl : list bytes) : Prop :=
  Forall D02r (ranges (wcoll_expand w)) /\ Forall arg_dom excl.

Theorem finish_spec a w :
  a_wcoll a = Some w -> (nhosts (wcoll_expand w) <= INT_MAX)%Z -> in_domain w (a_excl a) ->
  finish matches fixed a =
  XOk (final matches (expand (ranges (wcoll_expand w))) (flat_map names2 (a_excl a))
             (keep_pats (a_regex a)) (drop_pats (a_regex a))).
Proof.
  intros Hw Hmax [HD Hdom]. unfold finish. rewrite Hw. cbn [fixed v_expand_first].
  assert ((INT_MAX <? nhosts (wcoll_expand w))%Z = false) as -> by lia.
  destruct (wcoll_expand_inv w) as (Hok & Hlen & Hpos).
  assert (Hs0 : wc_ok (st_of_hl (wcoll_expand w))).
  { split; [|split; [exact HD|constructor]]. unfold st_ok, st_of_hl. cbn [st_ranges st_nhosts].
    split; auto. unfold INT_MAX in Hmax. split; lia. }
  destruct (apply_excluded_spec (a_excl a) _ Hs0 Hdom) as (s1 & E1 & Hs1 & Hn1). rewrite E1. cbn [xbind].
  destruct (apply_regex_spec matches (a_regex a) s1 Hs1) as (s2 & E2 & Hs2 & Hn2). rewrite E2. cbn [xbind].
  f_equal. unfold hl_of_st. cbn [ranges]. rewrite iter_all_expand by (destruct Hs2 as ((H & _) & _); exact H).
  fold (names s2). rewrite Hn2, Hn1, filter_filter. unfold final, names, st_of_hl. cbn [st_ranges].
  apply filter_ext'. intros h. unfold survives. rewrite keeps_split, andb_assoc. reflexivity.
Qed.

End Final.

(* ====================================================================== *)
(* 4. the getopt loop: three independent accumulations                     *)
(* ====================================================================== *)

Section Gather.
Variable compiles : bytes -> bool.
Variable matches : bytes -> bytes -> bool.
Variable files : list (bytes * list bytes).

(* a word that makes pdsh stop with an error, wherever it stands *)
Definition word_bad (w : bytes) : bool :=
  match classify w with
  | WFile _ path => match lookup files path with None => true | Some _ => false end
  | WRegex _ pat => negb (compiles pat)
  | WBadSpec => true
  | _ => false
  end.

(* a word that adds targets *)
Definition is_target (w : bytes) : bool :=
  match classify w with WFile false _ | WHosts _ => true | _ => false end.

Definition tgt_step (wc : option hl) (w : bytes) : option hl :=
  match classify w with
  | WFile false path =>
    match lookup files path with
    | Some es => Some (push_list (wcoll_or_new wc) (push_all hl_empty es))
    | None => wc
    end
  | WHosts e => Some (fst (push (wcoll_or_new wc) e))
  | _ => wc
  end.

(* the exclusion strings / the regular expressions a word contributes *)
Definition excl_of (w : bytes) : list bytes :=
  match classify w with
  | WFile true path => match lookup files path with Some es => iter_all (ranges (push_all hl_empty es)) | None => [] end
  | WExcl e => [e]
  | _ => []
  end.
Definition regex_of (w : bytes) : list (bool * bytes) :=
  match classify w with WRegex ex pat => [(ex, pat)] | _ => [] end.

Definition excl_step (x : list bytes) (w : bytes) : list bytes := rev (excl_of w) ++ x.
Definition regex_step (r : list (bool * bytes)) (w : bytes) : list (bool * bytes) := regex_of w ++ r.

Lemma word_step_decomp a w :
  word_step compiles fixed files a w =
  if word_bad w then XErrx
  else XOk (mkacc (tgt_step (a_wcoll a) w) (excl_step (a_excl a) w) (regex_step (a_regex a) w)).
Proof.
  unfold word_step, word_bad, tgt_step, excl_step, regex_step, excl_of, regex_of.
  destruct (classify w) as [ex path|ex pat|e|e|] eqn:Ec.
  - destruct (lookup files path) as [es|]; [|reflexivity].
    destruct ex; cbn [fixed v_push push_hostlist xbind rev app]; reflexivity.
  - destruct (compiles pat); cbn [negb]; reflexivity.
  - reflexivity.
  - reflexivity.
  - reflexivity.
Qed.

Lemma gather_decomp : forall ws a,
  xfold (word_step compiles fixed files) ws a =
  if existsb word_bad ws then XErrx
  else XOk (mkacc (fold_left tgt_step ws (a_wcoll a)) (fold_left excl_step ws (a_excl a))
                  (fold_left regex_step ws (a_regex a))).
Proof.
  induction ws as [|w ws IH]; intros a; cbn [xfold existsb fold_left]; [destruct a; reflexivity|].
  rewrite word_step_decomp. destruct (word_bad w); cbn [orb xbind]; [reflexivity|].
  rewrite IH. cbn [a_wcoll a_excl a_regex]. reflexivity.
Qed.

Lemma tgt_step_skip wc w : is_target w = false -> tgt_step wc w = wc.
Proof. unfold is_target, tgt_step. destruct (classify w) as [[|] path|ex pat|e|e|]; auto; discriminate. Qed.

Lemma fold_tgt_filter : forall ws wc, fold_left tgt_step ws wc = fold_left tgt_step (filter is_target ws) wc.
Proof.
  induction ws as [|w ws IH]; intros wc; [reflexivity|]. cbn [fold_left filter].
  destruct (is_target w) eqn:E; [cbn [fold_left]; apply IH|]. rewrite tgt_step_skip by auto. apply IH.
Qed.

Lemma fold_excl_In : forall ws x y, In y (fold_left excl_step ws x) <-> In y x \/ exists w, In w ws /\ In y (excl_of w).
Proof.
  induction ws as [|w ws IH]; intros x y; cbn [fold_left].
  - split; [auto|intros [H|(w & [] & _)]; auto].
  - rewrite IH. unfold excl_step. rewrite in_app_iff, <- in_rev. split.
    + intros [[H|H]|(w' & Hw & H)]; [right; exists w; split; [left; auto|auto]|auto|right; exists w'; split; [right; auto|auto]].
    + intros [H|(w' & [<-|Hw] & H)]; [auto|auto|right; exists w'; auto].
Qed.

Lemma fold_regex_In : forall ws x y, In y (fold_left regex_step ws x) <-> In y x \/ exists w, In w ws /\ In y (regex_of w).
Proof.
  induction ws as [|w ws IH]; intros x y; cbn [fold_left].
  - split; [auto|intros [H|(w & [] & _)]; auto].
  - rewrite IH. unfold regex_step. rewrite in_app_iff. split.
    + intros [[H|H]|(w' & Hw & H)]; [right; exists w; split; [left; auto|auto]|auto|right; exists w'; split; [right; auto|auto]].
    + intros [H|(w' & [<-|Hw] & H)]; [auto|auto|right; exists w'; auto].
Qed.

Lemma existsb_perm {A} (f : A -> bool) l l' : Permutation l l' -> existsb f l = existsb f l'.
Proof.
  intros H. destruct (existsb f l) eqn:E, (existsb f l') eqn:E'; auto.
  - apply existsb_exists in E as (x & Hx & Hf). assert (existsb f l' = true) by (apply existsb_exists; exists x; split; auto; eapply Permutation_in; eauto). congruence.
  - apply existsb_exists in E' as (x & Hx & Hf). assert (existsb f l = true) by (apply existsb_exists; exists x; split; auto; eapply Permutation_in; [apply Permutation_sym|]; eauto). congruence.
Qed.

Lemma forallb_same {A} (f : A -> bool) l l' : (forall x, In x l <-> In x l') -> forallb f l = forallb f l'.
Proof.
  intros H. destruct (forallb f l) eqn:E, (forallb f l') eqn:E'; auto.
  - rewrite forallb_forall in E. assert (forallb f l' = true) by (apply forallb_forall; intros x Hx; apply E, H, Hx). congruence.
  - rewrite forallb_forall in E'. assert (forallb f l = true) by (apply forallb_forall; intros x Hx; apply E', H, Hx). congruence.
Qed.

Lemma existsb_same {A} (f : A -> bool) l l' : (forall x, In x l <-> In x l') -> existsb f l = existsb f l'.
Proof.
  intros H. destruct (existsb f l) eqn:E, (existsb f l') eqn:E'; auto.
  - apply existsb_exists in E as (x & Hx & Hf). assert (existsb f l' = true) by (apply existsb_exists; exists x; split; auto; apply H; auto). congruence.
  - apply existsb_exists in E' as (x & Hx & Hf). assert (existsb f l = true) by (apply existsb_exists; exists x; split; auto; apply H; auto). congruence.
Qed.

Lemma final_same targets e1 e2 k1 k2 d1 d2 :
  (forall x, In x e1 <-> In x e2) -> (forall x, In x k1 <-> In x k2) -> (forall x, In x d1 <-> In x d2) ->
  final matches targets e1 k1 d1 = final matches targets e2 k2 d2.
Proof.
  intros He Hk Hd. unfold final. apply filter_ext'. intros h. unfold survives.
  rewrite (memb_ext h e1 e2 He), (forallb_same _ k1 k2 Hk), (existsb_same _ d1 d2 Hd). reflexivity.
Qed.

Lemma keep_pats_In res p : In p (keep_pats res) <-> In (false, p) res.
Proof.
  unfold keep_pats. rewrite in_map_iff. split.
  - intros ([ex q] & <- & H). apply filter_In in H as [H E]. cbn [fst snd] in *. destruct ex; [discriminate|auto].
  - intros H. exists (false, p). split; auto. apply filter_In. auto.
Qed.

Lemma drop_pats_In res p : In p (drop_pats res) <-> In (true, p) res.
Proof.
  unfold drop_pats. rewrite in_map_iff. split.
  - intros ([ex q] & <- & H). apply filter_In in H as [H E]. cbn [fst snd] in *. destruct ex; [auto|discriminate].
  - intros H. exists (true, p). split; auto. apply filter_In. auto.
Qed.

Definition words (items : list item) : list bytes := flat_map item_words items.

(* the statement that is proved about whole command lines *)
Definition run_domain (items : list item) : Prop :=
  match gather compiles fixed files items with
  | XOk a => match a_wcoll a with
             | Some w => (nhosts (wcoll_expand w) <= INT_MAX)%Z /\ in_domain w (a_excl a)
             | None => True
             end
  | _ => True
  end.

Theorem run_spec items a w :
  gather compiles fixed files items = XOk a -> a_wcoll a = Some w ->
  (nhosts (wcoll_expand w) <= INT_MAX)%Z -> in_domain w (a_excl a) ->
  run compiles matches fixed files items =
  XOk (final matches (expand (ranges (wcoll_expand w))) (flat_map names2 (a_excl a))
             (keep_pats (a_regex a)) (drop_pats (a_regex a))).
Proof. intros Hg Hw Hm Hd. unfold run. rewrite Hg. cbn [xbind]. apply finish_spec; auto. Qed.

Theorem order_independent items items' :
  Permutation (words items) (words items') ->
  filter is_target (words items) = filter is_target (words items') ->
  run_domain items ->
  run compiles matches fixed files items = run compiles matches fixed files items'.
Proof.
  intros Hperm Htgt Hdom. unfold run_domain in Hdom. unfold run, gather in *. fold (words items) in *. fold (words items').
  rewrite !gather_decomp in *. rewrite <- (existsb_perm _ _ _ Hperm).
  destruct (existsb word_bad (words items)); [reflexivity|]. cbn [xbind acc0 a_wcoll a_excl a_regex] in *.
  assert (Ew : fold_left tgt_step (words items') None = fold_left tgt_step (words items) None)
    by (rewrite (fold_tgt_filter (words items')), <- Htgt, <- fold_tgt_filter; reflexivity).
  pose proof (Permutation_sym Hperm) as Hperm'.
  assert (Hx : forall y, In y (fold_left excl_step (words items) []) <-> In y (fold_left excl_step (words items') [])).
  { intros y. rewrite !fold_excl_In. split; (intros [[]|(w & Hw & H)]; right; exists w; split; auto);
      [apply (Permutation_in _ Hperm)|apply (Permutation_in _ Hperm')]; auto. }
  assert (Hr : forall y, In y (fold_left regex_step (words items) []) <-> In y (fold_left regex_step (words items') [])).
  { intros y. rewrite !fold_regex_In. split; (intros [[]|(w & Hw & H)]; right; exists w; split; auto);
      [apply (Permutation_in _ Hperm)|apply (Permutation_in _ Hperm')]; auto. }
  destruct (fold_left tgt_step (words items) None) as [w|] eqn:Ewc.
  2:{ unfold finish. cbn [a_wcoll]. rewrite Ew. reflexivity. }
  destruct Hdom as [Hmax [HD Harg]].
  rewrite (finish_spec matches _ w); auto; [|split; auto].
  rewrite (finish_spec matches _ w); cbn [a_wcoll a_excl a_regex]; auto.
  - f_equal. apply final_same.
    + intros x. rewrite !in_flat_map. split; intros (e & He & Hin); exists e; split; auto; apply Hx; auto.
    + intros p. rewrite !keep_pats_In. apply Hr.
    + intros p. rewrite !drop_pats_In. apply Hr.
  - split; auto. cbn [a_excl]. apply Forall_forall. intros e He. rewrite Forall_forall in Harg. apply Harg, Hx, He.
Qed.

End Gather.

(* ====================================================================== *)
(* 5. what "filter" means for the survivors                                *)
(* ====================================================================== *)

Lemma filter_subseq {A} (p : A -> bool) l : subseq (filter p l) l.
Proof. induction l as [|x l IH]; [constructor|]. cbn [filter]. destruct (p x); constructor; auto. Qed.

Lemma occ_filter_keep (p : bytes -> bool) h l : p h = true -> occ h (filter p l) = occ h l.
Proof.
  intros Hp. unfold occ. induction l as [|x l IH]; [reflexivity|]. cbn [filter].
  destruct (p x) eqn:Ex; cbn [filter]; destruct (beq h x) eqn:Eb; cbn [length]; auto.
  apply beq_eq in Eb. subst. congruence.
Qed.

Lemma filter_drop_all {A} (p : A -> bool) h l : p h = false -> ~ In h (filter p l).
Proof. intros Hp H. apply filter_In in H as [_ H]. congruence. Qed.

(* ====================================================================== *)
(* 6. list_push_hostlist as it was: the retry loop                         *)
(* ====================================================================== *)

(* with the parentheses the loop ends after at most 11 doublings - with the whole string or with
   a truncated one *)
Lemma retry_paren_terminates l :
  match retry_loop true 13 l PUSH_BUF0 0 with
  | RSpin => False
  | RFit _ k | RTrunc _ k => (k <= 11)%nat
  | RPrintFault => True
  end.
Proof.
  unfold PUSH_BUF0.
  do 13 (cbn [retry_loop];
         match goal with
         | |- context [print_into l ?n] => destruct (print_into l n) as [[? [|]]|]; try exact I; try lia
         end;
         try match goal with
         | |- context [?a * 2 <? PUSH_CAP] =>
           let v := eval vm_compute in (a * 2 <? PUSH_CAP) in change (a * 2 <? PUSH_CAP) with v; cbn iota
         end; try lia).
Qed.

(* as written (n *= (2 < 0x7fffff)) it never ends once the first attempt fails *)
Lemma retry_old_spins l s fuel : print_into l PUSH_BUF0 = Some (s, false) ->
  retry_loop false (S fuel) l PUSH_BUF0 0 = RSpin.
Proof. intros H. cbn [retry_loop]. rewrite H. reflexivity. Qed.

Lemma push_names_total excl h : exists x, push_hostlist PushNames excl h = XOk x.
Proof. eexists. reflexivity. Qed.

(* ====================================================================== *)
(* 7. the executable domain test is sound                                  *)
(* ====================================================================== *)

Lemma fold_dval_pow F : forall acc, fold_left dval F acc = acc * 10 ^ N.of_nat (length F) + value F.
Proof.
  induction F as [|d F IH] using rev_ind; intros acc.
  - cbn [fold_left length]. change (value []) with 0. change (10 ^ N.of_nat 0) with 1. lia.
  - unfold value. rewrite !fold_left_app. cbn [fold_left]. rewrite IH. fold (value F).
    rewrite app_length. cbn [length]. replace (N.of_nat (length F + 1)) with (N.succ (N.of_nat (length F))) by lia.
    rewrite N.pow_succ_r'. unfold dval. change (fold_left (fun acc0 d0 => 10 * acc0 + (d0 - 48)) F 0) with (value F). lia.
Qed.

Lemma d02b_sound r : hr_ok r -> d02b r = true -> D02r r.
Proof.
  intros Hok H. unfold d02b in H. unfold D02r. destruct (single r) eqn:Es; [left; reflexivity|right].
  cbn [orb] in H. intros n Hn. unfold digit_tail.
  set (D := snd (split_suffix (pfx r))) in *.
  rewrite value_app, fold_dval_pow, value_fmt, fmt_length in *.
  assert (Hl : (Nat.max (wid r) (ndigits n) <= Nat.max (wid r) (ndigits (hi r)))%nat).
  { pose proof (ndigits_mono n (hi r) ltac:(lia)). lia. }
  assert (Hp : 10 ^ N.of_nat (Nat.max (wid r) (ndigits n)) <= 10 ^ N.of_nat (Nat.max (wid r) (ndigits (hi r)))).
  { apply N.pow_le_mono_r; lia. }
  nia.
Qed.

Lemma NUM15_eq : NUM15 = NUM_LIMIT. Proof. reflexivity. Qed.
Lemma hr_ok2b_sound l : Forall hr_ok l -> forallb hr_ok2b l = true -> Forall hr_ok2 l.
Proof.
  intros Hok H. rewrite forallb_forall in H. rewrite Forall_forall in *. intros r Hr. split; auto.
  specialize (H r Hr). unfold hr_ok2b in H. rewrite NUM15_eq in H. apply N.ltb_lt in H. exact H.
Qed.

Lemma name_domb_sound nm : name_domb nm = true -> name_dom nm.
Proof.
  unfold name_domb, name_dom. destruct (create nm) as [t|e|f] eqn:Ec; auto. intros H.
  apply hr_ok2b_sound; auto. apply (create_size_bound _ _ Ec).
Qed.

Lemma arg_domb_sound arg : arg_domb arg = true -> arg_dom arg.
Proof.
  unfold arg_domb, arg_dom. destruct (create arg) as [t|e|f] eqn:Ec; try discriminate. intros H.
  apply andb_true_iff in H as [H1 H2]. split.
  - apply hr_ok2b_sound; auto. apply (create_size_bound _ _ Ec).
  - rewrite forallb_forall in H2. apply Forall_forall. intros nm Hnm. apply name_domb_sound. auto.
Qed.

Lemma domain_check_sound compiles files items :
  domain_check compiles files items = true -> run_domain compiles files items.
Proof.
  unfold domain_check, run_domain. destruct (gather compiles fixed files items) as [a| | | |]; auto.
  destruct (a_wcoll a) as [w|]; auto. intros H.
  apply andb_true_iff in H as [H H3]. apply andb_true_iff in H as [H1 H2].
  split; [lia|]. split.
  - destruct (wcoll_expand_inv w) as (Hok & _). rewrite forallb_forall in H2. rewrite Forall_forall in *.
    intros r Hr. apply d02b_sound; auto.
  - rewrite forallb_forall in H3. apply Forall_forall. intros e He. apply arg_domb_sound; auto.
Qed.

(* no command line in the domain makes the repaired pipeline loop: it ends with the specified list,
   with an error message, or with "no targets" *)
Lemma run_total compiles matches files items :
  run_domain compiles files items ->
  run compiles matches fixed files items <> XDiverges /\
  (forall f, run compiles matches fixed files items <> XFault f).
Proof.
  intros Hdom. unfold run_domain in Hdom. unfold run.
  destruct (gather compiles fixed files items) as [a| | | |] eqn:Eg.
  - cbn [xbind]. destruct (a_wcoll a) as [w|] eqn:Ew.
    + destruct Hdom as [Hm Hd]. rewrite (finish_spec matches a w); auto. split; [discriminate|intros f; discriminate].
    + unfold finish. rewrite Ew. split; [discriminate|intros f; discriminate].
  - cbn [xbind]. split; [discriminate|intros f; discriminate].
  - cbn [xbind]. split; [discriminate|intros f; discriminate].
  - exfalso. unfold gather in Eg. rewrite gather_decomp in Eg. destruct (existsb _ _); discriminate.
  - exfalso. unfold gather in Eg. rewrite gather_decomp in Eg. destruct (existsb _ _); discriminate.
Qed.

(* ====================================================================== *)
(* 8. the statements of Props/Properties_C02.v                             *)
(* ====================================================================== *)

Lemma find_sound_nth l name l' k :
  Forall hr_ok l -> (Z.of_nat (length (expand l)) <= 2147483647)%Z -> HLEdit.find l name = (l', k) ->
  expand l' = expand l /\ ((0 <= k)%Z -> nth_error (expand l) (Z.to_nat k) = Some name).
Proof.
  intros Hok Hb H. destruct (find_sound _ _ _ _ Hok Hb H) as [Hl Hr]. split; [apply leq_expand; auto|].
  intros Hk. destruct Hr as [->|(j & -> & Hj)]; [lia|]. rewrite Nat2Z.id. exact Hj.
Qed.

Lemma survivors_spec matches targets excl keep drop :
  let r := final matches targets excl keep drop in
  subseq r targets /\
  (forall h, survives matches excl keep drop h = true -> occ h r = occ h targets) /\
  (forall h, survives matches excl keep drop h = false -> ~ In h r).
Proof.
  cbv zeta. unfold final. split; [apply filter_subseq|]. split.
  - intros h H. apply occ_filter_keep; auto.
  - intros h H. apply filter_drop_all; auto.
Qed.

Lemma excluded_never_survives matches excl keep drop h : In h excl -> survives matches excl keep drop h = false.
Proof. intros H. unfold survives. apply memb_In in H. rewrite H. reflexivity. Qed.
