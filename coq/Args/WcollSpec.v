From PV Require Import Args.Assemble.
