(* S for property C10: what the target list must be, stated without reference to how wcoll.c / opt.c
   compute it: no buffers, no fuel, no state machine.  Relations over plain text.

   Files.  The hosts of a file are the host expressions of its lines, in order.  A line is what stands
   between two newlines.  An ordinary line gives the text before its first '#', without surrounding
   blanks, unless that is empty.  A line that starts with '#' gives nothing, except the directive
   '#include NAME' (first column, exactly one name), which stands for the hosts of the file NAME, looked up
   in the directory of the file named on the command line unless NAME starts with / ./ or ../ .
   A file that was already read for this command-line file (the file itself included) is skipped with a
   warning.  A file that cannot be read is an error.

   Command line.  The target list is the concatenation, in command-line order, of what the words of the -w
   arguments give: '^F' the hosts of file F, '^-' (or the argument '-') the hosts of standard input, a word
   starting with '-' nothing (it excludes), any other word itself.  If no word named a target, the file
   named by WCOLL gives the list. *)
From PV Require Export Args.Assemble.
Local Open Scope N_scope.

(* ---------- text ---------- *)
(* the lines of a text: the pieces between newlines; a final newline ends the last line *)
Definition text_lines (c : bytes) : list bytes :=
  let ps := split_all 10 c in
  match last ps [1] with [] => removelast ps | _ => ps end.

Definition blank (b : N) : bool := (b =? 32) || (b =? 9).
Definition trim (s : bytes) : bytes := rev (drop_while blank (rev (drop_while blank s))).
(* the host expression of an ordinary line *)
Definition entry (l : bytes) : bytes := trim (fst (split_at 35 l)).

(* what separates the name of a directive from the keyword and from the end of the line *)
Definition dsep (b : N) : bool := (b =? 32) || (b =? 9) || (b =? 13) || (b =? 10).
Definition kw : bytes := [35;105;110;99;108;117;100;101]. (* "#include" *)
(* l is the directive '#include g' *)
Definition directive (l g : bytes) : Prop :=
  exists pre post, l = kw ++ pre ++ g ++ post /\ forallb dsep pre = true /\ forallb dsep post = true /\
                   g <> [] /\ forallb (fun b => negb (dsep b)) g = true.

(* what a line stands for *)
Inductive lkind := Gives (es : list bytes) (warnings : nat) | Includes (g : bytes).
Inductive line_kind (l : bytes) : lkind -> Prop :=
| K_entry : hd 0 l <> 35 -> line_kind l (Gives (match entry l with [] => [] | e => [e] end) 0)
| K_comment : hd 0 l = 35 -> is_prefix kw l = false -> line_kind l (Gives [] 0)
| K_malformed : is_prefix kw l = true -> (forall g, ~ directive l g) -> line_kind l (Gives [] 1)
| K_directive g : directive l g -> line_kind l (Includes g).

(* where an included name is looked up *)
Definition taken_as_is (g : bytes) : bool :=
  is_prefix [47] g || is_prefix [46;47] g || is_prefix [46;46;47] g.
Definition locate (dir g : bytes) : bytes := if taken_as_is g then g else dir ++ [47] ++ g.

(* outcome: Some (expressions, files seen, warnings), or None = error *)
Definition outcome := option (list bytes * list bytes * nat).
Definition and_then (es : list bytes) (w : nat) (o : outcome) : outcome :=
  match o with Some (es2, seen, w2) => Some (es ++ es2, seen, (w + w2)%nat) | None => None end.

Section FileSpec.
Variable fs : fsys.
Variable dir : bytes.

(* reads ls seen o: the lines ls, read when the files in [seen] have been read already, give o *)
Inductive reads : list bytes -> list bytes -> outcome -> Prop :=
| Rd_nil seen : reads [] seen (Some ([], seen, 0%nat))
| Rd_line l ls seen es w o :
    line_kind l (Gives es w) -> reads ls seen o -> reads (l :: ls) seen (and_then es w o)
| Rd_again l g ls seen o :
    line_kind l (Includes g) -> In (locate dir g) seen ->
    reads ls seen o -> reads (l :: ls) seen (and_then [] 1 o)
| Rd_unreadable l g ls seen :
    line_kind l (Includes g) -> ~ In (locate dir g) seen -> lookup fs (locate dir g) = None ->
    reads (l :: ls) seen None
| Rd_include_error l g ls seen c :
    line_kind l (Includes g) -> ~ In (locate dir g) seen -> lookup fs (locate dir g) = Some c ->
    reads (text_lines c) (locate dir g :: seen) None ->
    reads (l :: ls) seen None
| Rd_include l g ls seen c es1 seen1 w1 o :
    line_kind l (Includes g) -> ~ In (locate dir g) seen -> lookup fs (locate dir g) = Some c ->
    reads (text_lines c) (locate dir g :: seen) (Some (es1, seen1, w1)) ->
    reads ls seen1 o ->
    reads (l :: ls) seen (and_then es1 w1 o).
End FileSpec.

(* the directory part of a path and its last component, as relations on text *)
Definition no_slash (s : bytes) : Prop := ~ In 47 s.
Definition all_slash (s : bytes) : Prop := forall b, In b s -> b = 47.

(* the hosts of the file named [file] on the command line: the file itself counts as seen, under the name
   an #include in it would give it *)
Definition file_hosts (fs : fsys) (dir self : bytes) (file : bytes) (o : outcome) : Prop :=
  match lookup fs file with
  | None => o = None
  | Some c => reads fs dir (text_lines c) [self] o
  end.
(* the hosts of standard input: names are looked up in the current directory *)
Definition stream_hosts (fs : fsys) (content : bytes) (o : outcome) : Prop :=
  reads fs [46] (text_lines content) [] o.

(* ---------- command line ---------- *)
(* the words of a -w argument: the non-empty pieces between the commas that are not inside brackets *)
Fixpoint pieces (s : bytes) (depth : Z) : list bytes :=
  match s with
  | [] => [[]]
  | b :: r =>
    if (b =? 44) && (depth =? 0)%Z then [] :: pieces r 0%Z
    else match pieces r (if b =? 91 then (depth + 1)%Z else if b =? 93 then (depth - 1)%Z else depth) with
         | p :: ps => (b :: p) :: ps
         | [] => [[b]]
         end
  end.
Definition words_of (arg : bytes) : list bytes :=
  filter (fun p => match p with [] => false | _ => true end) (pieces (if beq arg [45] then [94;45] else arg) 0%Z).

(* what a word is *)
Inductive source :=
| SFile (path : bytes)            (* ^path *)
| SStdin                          (* ^-    *)
| SExclFile (path : bytes)        (* -^path : excluded, but read *)
| SExclStdin                      (* -^-   *)
| SNothing                        (* -hosts: an exclusion *)
| SHosts (e : bytes)              (* a host expression *)
| SOther.                         (* a filter or an rcmd_type:user@hosts word: not C10's *)
Definition source_of (w : bytes) : source :=
  let excluded := is_prefix [45] w in
  let body := drop_while is_space (if excluded then skipn 1 w else w) in
  if is_prefix [94] body then
    let path := skipn 1 body in
    if beq path [45] then (if excluded then SExclStdin else SStdin)
    else (if excluded then SExclFile path else SFile path)
  else if is_prefix [47] body then SOther
  else if excluded then SNothing
  else if existsb (fun b => (b =? 58) || (b =? 64)) body then SOther
  else SHosts body.
Definition names_targets (w : bytes) : bool :=
  match source_of w with SFile _ | SStdin | SHosts _ => true | _ => false end.

Section CmdSpec.
Variable fs : fsys.
(* for every file that can be named: its directory and its own name as an include would spell it
   (dirname and basename of POSIX; supplied by the theorems) *)
Variable dir_of self_of : bytes -> bytes.

Definition given (o : outcome) : option (list bytes * nat) :=
  match o with Some (es, _, w) => Some (es, w) | None => None end.

(* contributes stdin w r stdin': the word w, standard input holding stdin, gives r and leaves stdin' *)
Inductive contributes (stdin : bytes) (w : bytes) : option (list bytes * nat) -> bytes -> Prop :=
| C_hosts e : source_of w = SHosts e -> contributes stdin w (Some ([e], 0%nat)) stdin
| C_nothing : source_of w = SNothing -> contributes stdin w (Some ([], 0%nat)) stdin
| C_file p o : source_of w = SFile p -> file_hosts fs (dir_of p) (self_of p) p o -> contributes stdin w (given o) stdin
| C_stdin o : source_of w = SStdin -> stream_hosts fs stdin o -> contributes stdin w (given o) []
| C_exfile p o : source_of w = SExclFile p -> file_hosts fs (dir_of p) (self_of p) p o ->
                 contributes stdin w (match given o with Some (_, wn) => Some ([], wn) | None => None end) stdin
| C_exstdin o : source_of w = SExclStdin -> stream_hosts fs stdin o ->
                contributes stdin w (match given o with Some (_, wn) => Some ([], wn) | None => None end) [].

Definition join (a : list bytes * nat) (r : option (list bytes * nat)) : option (list bytes * nat) :=
  match r with Some (es2, w2) => Some (fst a ++ es2, (snd a + w2)%nat) | None => None end.

(* the words in order: concatenation; the first error is the result *)
Inductive assembled : bytes -> list bytes -> option (list bytes * nat) -> bytes -> Prop :=
| As_nil stdin : assembled stdin [] (Some ([], 0%nat)) stdin
| As_cons stdin w ws a stdin1 r stdin2 :
    contributes stdin w (Some a) stdin1 -> assembled stdin1 ws r stdin2 ->
    assembled stdin (w :: ws) (join a r) stdin2
| As_error stdin w ws stdin1 :
    contributes stdin w None stdin1 -> assembled stdin (w :: ws) None stdin1.

(* the target list of a command line with the -w arguments args *)
Inductive target_list (stdin : bytes) (wcoll : option bytes) (args : list bytes) : option (list bytes * nat) -> Prop :=
| T_given r stdin1 :
    existsb names_targets (flat_map words_of args) = true ->
    assembled stdin (flat_map words_of args) r stdin1 -> target_list stdin wcoll args r
| T_error stdin1 :
    assembled stdin (flat_map words_of args) None stdin1 -> target_list stdin wcoll args None
| T_none a stdin1 :
    existsb names_targets (flat_map words_of args) = false -> wcoll = None ->
    assembled stdin (flat_map words_of args) (Some a) stdin1 -> target_list stdin wcoll args (Some a)
| T_wcoll a stdin1 v r stdin2 :
    existsb names_targets (flat_map words_of args) = false -> wcoll = Some v ->
    assembled stdin (flat_map words_of args) (Some a) stdin1 ->
    contributes stdin1 (94 :: v) r stdin2 ->
    target_list stdin wcoll args (join a r).
End CmdSpec.

(* ---------- domain of the theorems ---------- *)
(* text files (no NUL byte); a line that starts with "#include" is shorter than the 4096-byte path buffer
   of wcoll.c less its terminator (host lines may have any length); paths of readable files are shorter
   than PATH_MAX = 4096 *)
Definition line_okb (l : bytes) : bool :=
  negb (mem 0 l) && (negb (is_prefix kw l) || (N.of_nat (length l) <? 4095)).
Definition text_okb (c : bytes) : bool := forallb line_okb (text_lines c).
Definition D10 (fs : fsys) : bool :=
  forallb (fun pc => (N.of_nat (length (fst pc)) <? 4096) && text_okb (snd pc)) fs.
