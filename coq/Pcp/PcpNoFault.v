(* C12_no_fault: for every byte stream the receiver model neither faults (no store outside the
   line buffer or the block buffer, no load of a byte that was never stored, no scanner running
   off the buffer) nor runs out of fuel. *)
From PV Require Import Pcp.FsModel Pcp.PcpSink Pcp.FsFacts Pcp.PcpSinkFacts.
Local Open Scope N_scope.

Definition okres (n : nat) (res : world * ret) : Prop :=
  snd res = RetEnd /\ (length (w_in (fst res)) <= n)%nat.

Lemma okres_mono n m res : (n <= m)%nat -> okres n res -> okres m res.
Proof. intros H [A B]. split; auto. lia. Qed.

Lemma enter_ok cfg targ w k n :
  (length (w_in w) <= n)%nat ->
  (forall isd w1, (length (w_in w1) <= n)%nat -> okres n (k isd w1)) ->
  okres n (enter cfg targ w k).
Proof.
  intros Hn Hk. unfold enter.
  destruct (c_ydir cfg).
  - pose proof (do_stat_in cfg (c_dest cfg) w) as X.
    destruct (do_stat cfg (c_dest cfg) w) as [r w1]. cbn [snd] in X.
    destruct (negb match r with Some KDir => true | _ => false end).
    + split; cbn; auto. rewrite X. lia.
    + pose proof (do_stat_in cfg targ (say Ack w1)) as Y.
      destruct (do_stat cfg targ (say Ack w1)) as [r2 w2]. cbn [snd] in Y.
      apply Hk. rewrite Y. cbn. rewrite X. lia.
  - cbn [negb].
    pose proof (do_stat_in cfg targ (say Ack w)) as Y.
    destruct (do_stat cfg targ (say Ack w)) as [r2 w2]. cbn [snd] in Y.
    apply Hk. rewrite Y. cbn. lia.
Qed.

Lemma handle_dir_ok cfg np mode ex se tv nested cont w n :
  (length (w_in w) <= n)%nat ->
  (forall w1, (length (w_in w1) <= n)%nat -> okres n (nested w1)) ->
  (forall s w1, (length (w_in w1) <= n)%nat -> okres n (cont s w1)) ->
  okres n (handle_dir cfg np mode ex se tv nested cont w).
Proof.
  intros Hn Hnest Hcont. unfold handle_dir.
  assert (Hgo : forall go w1, (length (w_in w1) <= n)%nat ->
     okres n (if negb go then cont se (say (Err EBad) w1)
              else match nested w1 with
                   | (w2, RetEnd) => if se then let '(ok, w3) := do_utimes cfg np tv w2 in
                                                cont false (if ok then w3 else say (Err EUtimes) w3)
                                     else cont se w2
                   | other => other
                   end)).
  { intros go w1 H1. destruct go; cbn [negb].
    - specialize (Hnest w1 H1). destruct (nested w1) as [w2 r2]. destruct Hnest as [A B]. cbn [fst snd] in *. subst r2.
      destruct se.
      + pose proof (do_utimes_in cfg np tv w2) as X. destruct (do_utimes cfg np tv w2) as [ok w3]. cbn [snd] in X.
        apply Hcont. destruct ok; cbn; rewrite X; lia.
      + apply Hcont. auto.
    - apply Hcont. cbn. auto. }
  destruct ex as [[|]|].
  - apply Hgo. auto.
  - apply Hgo. destruct (c_preserve cfg); auto. rewrite do_chmod_in. auto.
  - pose proof (do_mkdir_in cfg np mode w) as X. destruct (do_mkdir cfg np mode w) as [go w1]. cbn [snd] in X.
    apply Hgo. destruct (go && c_preserve cfg && c_dirmode cfg); [rewrite do_chmod_in|]; rewrite X; lia.
Qed.

Lemma handle_file_ok cfg np mode size se tv cont w n :
  (length (w_in w) <= n)%nat ->
  (forall s w1, (length (w_in w1) <= n)%nat -> okres n (cont s w1)) ->
  okres n (handle_file cfg np mode size se tv cont w).
Proof.
  intros Hn Hcont. unfold handle_file.
  pose proof (do_open_in cfg np mode w) as X. destruct (do_open cfg np mode w) as [[[p ex]|] w1]; cbn [snd] in X.
  2:{ apply Hcont. cbn. rewrite X. lia. }
  set (w2 := say Ack (if ex && c_preserve cfg then snd (on_fd OChmod p (fs_fchmod (w_fs w1) p mode) w1) else w1)).
  assert (H2 : w_in w2 = w_in w1).
  { unfold w2. cbn. destruct (ex && c_preserve cfg); auto. apply on_fd_in. }
  assert (Hw2 : (length (w_in w2) <= n)%nat) by (rewrite H2, X; lia).
  pose proof (blk_cnt_ok cfg) as [Hd Hp].
  pose proof (data_loop_ok (S (length (w_in w2))) (blk_cnt cfg) p size 0%Z [] 0 0 w2 ltac:(lia) Hd Hp) as HD.
  destruct (data_loop (S (length (w_in w2))) (blk_cnt cfg) p size 0 [] 0 0 w2) as [| |w3|w3];
    try (exfalso; apply HD; intros; split; [apply N.divide_0_r|auto]).
  - split; cbn; auto. assert (length (w_in w3) <= length (w_in w2))%nat by (apply HD; intros; split; [apply N.divide_0_r|auto]). lia.
  - assert (H3 : (length (w_in w3) <= length (w_in w2))%nat) by (apply HD; intros; split; [apply N.divide_0_r|auto]).
    pose proof (on_fd_in OTrunc p (fs_truncate (w_fs w3) p size) w3) as Y.
    destruct (on_fd OTrunc p (fs_truncate (w_fs w3) p size) w3) as [tok w4]. cbn [snd] in Y.
    set (w5 := if tok then w4 else say (Err ETrunc) w4).
    assert (H5 : w_in w5 = w_in w3) by (unfold w5; destruct tok; cbn; auto).
    destruct (w_in w5) as [|r inp] eqn:E5.
    + split; cbn; auto. rewrite E5. cbn. lia.
    + assert (Hi : (length inp <= n)%nat) by (rewrite <- H5 in H3; cbn [length] in H3; lia).
      destruct (negb (r =? 0)).
      * split; cbn; auto.
      * destruct (se && tok).
        -- pose proof (do_utimes_in cfg np tv (set_in w5 inp)) as Z.
           destruct (do_utimes cfg np tv (set_in w5 inp)) as [ok w6]. cbn [snd] in Z.
           apply Hcont. destruct ok; cbn; rewrite Z; cbn; auto.
        -- apply Hcont. destruct tok; cbn; auto.
Qed.

Lemma loop_ok : forall fuel cfg targ isd st w,
  (length (w_in w) < fuel)%nat -> okres (length (w_in w)) (loop fuel cfg targ isd st w).
Proof.
  induction fuel as [|f IH]; intros cfg targ isd st w Hf; [lia|].
  cbn [loop].
  pose proof (read_line_ok (l_buf st) (w_in w)) as Hrl.
  destruct (read_line (l_buf st) (w_in w)) as [| |inp| |buf cp ch inp] eqn:Erl.
  - contradiction.
  - split; auto.
  - split; cbn; auto; lia.
  - split; cbn; auto; lia.
  - destruct Hrl as (Hl & Hb & H2 & Hlen).
    destruct (buf_set_ok buf cp 0 Hb Hl) as (buf1 & E1 & Hl1 & _ & Hin1 & Hne1). rewrite E1.
    destruct buf1 as [|b0 rest1]; [congruence|].
    assert (Hb2 : exists buf2, (if ch =? c_nl then buf_set (b0 :: rest1) (cp - 1) 0 else Some (b0 :: rest1)) = Some buf2 /\ In 0 buf2).
    { destruct (ch =? c_nl); [|eauto].
      destruct (buf_set_ok (b0 :: rest1) (cp - 1) 0) as (b2 & E2 & _ & _ & Hin2 & _); [lia|lia|eauto]. }
    destruct Hb2 as (buf2 & -> & Hin2).
    set (w1 := logi (Line (line_of buf2)) (set_in w inp)).
    assert (Hw1 : w_in w1 = inp) by reflexivity.
    assert (Hrec : forall targ' isd' st' w2, (length (w_in w2) <= length inp)%nat ->
                     okres (length inp) (loop f cfg targ' isd' st' w2)).
    { intros. eapply okres_mono; [|apply IH]; lia. }
    assert (Hfin : forall res, okres (length inp) res -> okres (length (w_in w)) res).
    { intros res. apply okres_mono. lia. }
    apply Hfin.
    destruct (b0 =? 1); [apply Hrec; rewrite Hw1; lia|].
    destruct (b0 =? 2); [split; cbn; auto|].
    destruct (b0 =? c_E); [split; cbn; auto|].
    pose proof (parse_ctl_ok buf2 Hin2) as Hp.
    destruct (parse_ctl buf2) as [|why|[tv|isdir mode size nm]]; [congruence| | |].
    + split; cbn; auto.
    + apply Hrec. cbn. lia.
    + destruct (c_check cfg && negb (name_ok nm)); [apply Hrec; cbn; lia|].
      match goal with |- context [do_stat cfg ?np w1] =>
        pose proof (do_stat_in cfg np w1) as X; destruct (do_stat cfg np w1) as [ex w2]; cbn [snd] in X end.
      destruct isdir.
      * apply handle_dir_ok.
        -- rewrite X, Hw1. lia.
        -- intros w3 H3. apply enter_ok; auto.
        -- intros. apply Hrec. auto.
      * apply handle_file_ok.
        -- rewrite X, Hw1. lia.
        -- intros. apply Hrec. auto.
Qed.

Theorem sink_no_fault cfg fs stream :
  snd (sink cfg fs stream) = RetEnd.
Proof.
  unfold sink.
  assert (H : okres (length stream) (enter cfg (c_dest cfg) (w0 fs stream)
              (fun isd w => loop (S (length stream)) cfg (c_dest cfg) isd st0 w))).
  { apply enter_ok; [cbn; lia|]. intros isd w1 H1.
    eapply okres_mono; [|apply loop_ok]; lia. }
  apply H.
Qed.
