(* S for C12: the specification side, written without looking at how _sink works.

   Paths are canonical component lists (what the file-system model resolves a string to):
   [under d p] = p is d itself or lies beneath it.  A canonical path never contains "..", "."
   or an empty component, nor a '/', so "beneath" has its plain meaning.

   A control record, as the rcp protocol defines it (and as leniently as the C scanners take it):
     T<digits> <digits> <digits> <digits>
     C<4 octal digits> <digits> <name>      D<4 octal digits> <digits> <name>
     E...   \001<message>   \002<message>
   [acceptable] additionally asks that the name of a C/D record cannot lead out of the target:
   no '/' in it and not "..". *)
From PV Require Import Pcp.FsModel.
Local Open Scope N_scope.

Definition under (d p : path) : Prop := exists s, p = d ++ s.

Lemma under_refl d : under d d.
Proof. exists []. now rewrite app_nil_r. Qed.

Lemma under_app d p s : under d p -> under d (p ++ s).
Proof. intros [x ->]. exists (x ++ s). now rewrite app_assoc. Qed.

Lemma under_trans a b c : under a b -> under b c -> under a c.
Proof. intros [x ->] [y ->]. exists (x ++ y). now rewrite app_assoc. Qed.

Definition is_octal (c : N) : bool := (48 <=? c) && (c <=? 55).

(* <digits> followed by the separator sep: what is left after the separator *)
Definition after_number (sep : N) (l : bytes) : option bytes :=
  match drop_while is_digit l with
  | c :: r => if c =? sep then Some r else None
  | [] => None
  end.

Definition valid_times (l : bytes) : bool :=
  match after_number c_sp l with
  | Some l1 => match after_number c_sp l1 with
               | Some l2 => match after_number c_sp l2 with
                            | Some l3 => match drop_while is_digit l3 with [] => true | _ => false end
                            | None => false
                            end
               | None => false
               end
  | None => false
  end.

(* the name of a C/D record, None when the record is not well formed *)
Definition record_name (l : bytes) : option bytes :=
  match l with
  | m1 :: m2 :: m3 :: m4 :: sp :: r =>
    if is_octal m1 && is_octal m2 && is_octal m3 && is_octal m4 && (sp =? c_sp)
    then after_number c_sp r else None
  | _ => None
  end.

Definition safe_name (nm : bytes) : bool := negb (mem c_slash nm) && negb (beq nm dotdot).

(* l = a control line without its newline, as a C string (no NUL inside) *)
Definition acceptable (l : bytes) : bool :=
  match l with
  | [] => false
  | c :: r =>
    if (c =? 1) || (c =? 2) || (c =? 69) then true
    else if c =? 84 then valid_times r
    else if (c =? 67) || (c =? 68) then match record_name r with Some nm => safe_name nm | None => false end
    else false
  end.
