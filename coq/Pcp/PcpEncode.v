(* The sender, seen as a function of the tree: what it writes when every answer is an
   acknowledgement (encode), how many answers it waits for (n_acks), and the proof that the
   walk over the flattened list with its leave-directory sentinels is that recursive encoding. *)
From PV Require Import Pcp.FsModel Pcp.PcpSink Pcp.PcpClient Pcp.FsFacts Pcp.FsAlgebra Pcp.PcpSinkFacts.
Local Open Scope N_scope.

Fixpoint encode (pres : bool) (nm : bytes) (n : node) : bytes :=
  (if pres then T_rec (node_mtime n) else []) ++
  match n with
  | File m _ d => C_rec m (N.of_nat (length d)) nm ++ d ++ [0]
  | Dir m _ ents =>
    D_rec m nm ++
    (fix go (l : list (name * node)) : bytes :=
       match l with [] => [] | (k, v) :: r => encode pres k v ++ go r end) ents ++ E_rec
  end.

Definition encode_list (pres : bool) (l : list (name * node)) : bytes :=
  (fix go (l : list (name * node)) : bytes :=
     match l with [] => [] | (k, v) :: r => encode pres k v ++ go r end) l.

Fixpoint n_acks (pres : bool) (n : node) : nat :=
  ((if pres then 1 else 0) +
   match n with
   | File _ _ _ => 2
   | Dir _ _ ents => 1 + (fix go (l : list (name * node)) : nat :=
                            match l with [] => O | (_, v) :: r => n_acks pres v + go r end) ents + 1
   end)%nat.

Definition n_acks_list (pres : bool) (l : list (name * node)) : nat :=
  (fix go (l : list (name * node)) : nat := match l with [] => O | (_, v) :: r => (n_acks pres v + go r)%nat end) l.

Lemma encode_dir pres nm m t ents :
  encode pres nm (Dir m t ents) =
  (if pres then T_rec (node_mtime (Dir m t ents)) else []) ++ D_rec m nm ++ encode_list pres ents ++ E_rec.
Proof. reflexivity. Qed.

Lemma encode_list_cons pres k v r : encode_list pres ((k, v) :: r) = encode pres k v ++ encode_list pres r.
Proof. reflexivity. Qed.

Lemma n_acks_dir pres m t ents :
  n_acks pres (Dir m t ents) = ((if pres then 1 else 0) + (1 + n_acks_list pres ents + 1))%nat.
Proof. reflexivity. Qed.

Lemma n_acks_list_cons pres k v r : n_acks_list pres ((k, v) :: r) = (n_acks pres v + n_acks_list pres r)%nat.
Proof. reflexivity. Qed.

(* the BUFSIZ-byte pieces put together are the file *)
Lemma send_blocks_id : forall fuel d, (length d < fuel)%nat -> send_blocks fuel d = d.
Proof.
  induction fuel as [|f IH]; intros d H; [lia|]. cbn [send_blocks].
  destruct d as [|x d']; [reflexivity|].
  rewrite IH.
  - apply firstn_skipn.
  - rewrite skipn_length. pose proof bufsiz_pos. cbn [length] in *. lia.
Qed.

Lemma send_data_id d : send_data d = d.
Proof. apply send_blocks_id. lia. Qed.

(* ---- node induction ---- *)
Lemma node_ind2 (Q : node -> Prop) :
  (forall m t d, Q (File m t d)) ->
  (forall m t ents, Forall (fun kv => Q (snd kv)) ents -> Q (Dir m t ents)) ->
  forall n, Q n.
Proof.
  intros HF HD. fix IH 1. intros [m t d|m t ents]; [apply HF|]. apply HD.
  induction ents as [|[k v] r IHr]; constructor; [apply IH|exact IHr].
Qed.

(* ---- the walk over the flattened list ---- *)
Fixpoint rexpand_list (prefix : path) (l : list (name * node)) : list pfile :=
  match l with
  | [] => []
  | (k, v) :: r => PF (prefix ++ [k]) false (is_dir_node v) :: rexpand (prefix ++ [k]) v ++ rexpand_list prefix r
  end.

Lemma rexpand_dir prefix m t ents :
  rexpand prefix (Dir m t ents) = rexpand_list prefix ents ++ [PF [sentinel] false false].
Proof.
  cbn [rexpand]. f_equal. induction ents as [|[k v] r IH]; [reflexivity|]. cbn [rexpand_list]. now rewrite IH.
Qed.

Definition names_distinct (l : list (name * node)) : Prop := NoDup (map fst l).

(* a well-formed source tree: sibling names distinct *)
Fixpoint wf_names (n : node) : Prop :=
  match n with
  | File _ _ _ => True
  | Dir _ _ ents => names_distinct ents /\
                    (fix all (l : list (name * node)) : Prop := match l with [] => True | (_, v) :: r => wf_names v /\ all r end) ents
  end.

Fixpoint wf_names_list (l : list (name * node)) : Prop :=
  match l with [] => True | (_, v) :: r => wf_names v /\ wf_names_list r end.

Lemma wf_names_dir m t ents : wf_names (Dir m t ents) <-> names_distinct ents /\ wf_names_list ents.
Proof.
  cbn [wf_names]. split; intros [A B]; split; auto; clear A; induction ents as [|[k v] r IH]; cbn in *; tauto.
Qed.

Lemma assoc_in_distinct k v l : names_distinct l -> In (k, v) l -> assoc k l = Some v.
Proof.
  unfold names_distinct. induction l as [|[k' v'] r IH]; intros Hd Hin; [destruct Hin|].
  cbn [map fst] in Hd. inversion Hd; subst. cbn [assoc].
  destruct Hin as [E|Hin].
  - inversion E; subst. now rewrite beq_refl.
  - destruct (beq k k') eqn:Eb.
    + apply beq_eq in Eb. subst. exfalso. apply H1. change k' with (fst (k', v)). now apply in_map.
    + auto.
Qed.

Lemma is_sentinel_long p c1 c2 u d : is_sentinel (PF (p ++ [c1; c2]) u d) = false.
Proof. unfold is_sentinel. cbn [pf_name]. destruct p as [|x [|y p']]; reflexivity. Qed.

Lemma is_sentinel_app2 p c1 c2 u d : is_sentinel (PF ((p ++ [c1]) ++ [c2]) u d) = false.
Proof. rewrite <- app_assoc. apply is_sentinel_long. Qed.

Lemma is_sentinel_E : is_sentinel (PF [sentinel] false false) = true.
Proof. reflexivity. Qed.

Lemma repeat_app {A} (x : A) a b : repeat x (a + b) = repeat x a ++ repeat x b.
Proof. induction a; cbn; [reflexivity|now f_equal]. Qed.

Section Walk.
Variable c : ccfg.

(* reverse copy: ".host" behind the names the user gave *)
Definition suffix_of (u : bool) : bytes :=
  match cc_suffix c with Some h => if u then c_dot :: h else [] | None => [] end.

Lemma sent_name_eq p k u d : sent_name c (PF (p ++ [k]) u d) = k ++ suffix_of u.
Proof. unfold sent_name, suffix_of. cbn [pf_name pf_user]. now rewrite last_last. Qed.

Lemma suffix_of_false : suffix_of false = [].
Proof. unfold suffix_of. destruct (cc_suffix c); reflexivity. Qed.

(* one entry of the list, not the sentinel, whose node is n: its records, then the rest *)
Lemma client_entry f rest n rs nm :
  is_sentinel f = false -> lookup (cc_fs c) (cc_cwd c ++ pf_name f) = Some n -> sent_name c f = nm ->
  client_files c None (f :: rest) (repeat Ack (if cc_preserve c then 1 else 0) ++ rs) =
  (if cc_preserve c then T_rec (node_mtime n) else []) ++
  match n with
  | Dir m _ _ => D_rec m nm ++ expect rs (client_files c None rest)
                                 (if cc_skip c && pf_dir f then client_files c (Some O) rest else client_files c None rest)
  | File m _ d => C_rec m (N.of_nat (length d)) nm ++
                  expect rs (fun rs => send_data d ++ [0] ++ expect rs (client_files c None rest) (client_files c None rest))
                         (if cc_skip c && pf_dir f then client_files c (Some O) rest else client_files c None rest)
  end.
Proof.
  intros Hs Hl Hn. cbn [client_files]. rewrite Hs, Hl, Hn.
  destruct (cc_preserve c); cbn [repeat app expect]; reflexivity.
Qed.

Lemma not_sentinel prefix k u d : (prefix <> [] \/ beq k sentinel = false) -> is_sentinel (PF (prefix ++ [k]) u d) = false.
Proof.
  intros [H|H]; unfold is_sentinel; cbn [pf_name].
  - destruct prefix as [|x p']; [congruence|]. destruct p'; reflexivity.
  - destruct prefix as [|x p']; [exact H|]. destruct p'; reflexivity.
Qed.

Lemma walk_node : forall n prefix k u rest rs,
  wf_names n ->
  lookup (cc_fs c) (cc_cwd c ++ prefix ++ [k]) = Some n ->
  (prefix <> [] \/ beq k sentinel = false) ->
  client_files c None (PF (prefix ++ [k]) u (is_dir_node n) :: rexpand (prefix ++ [k]) n ++ rest)
               (repeat Ack (n_acks (cc_preserve c) n) ++ rs) =
  encode (cc_preserve c) (k ++ suffix_of u) n ++ client_files c None rest rs.
Proof.
  induction n as [m t d|m t ents IHn] using node_ind2; intros prefix k u rest rs Hwf Hl Hne.
  - (* file *)
    cbn [rexpand app n_acks].
    replace ((if cc_preserve c then 1 else 0) + 2)%nat with ((if cc_preserve c then 1 else 0) + (1 + 1))%nat by lia.
    rewrite repeat_app, <- app_assoc.
    rewrite (client_entry (PF (prefix ++ [k]) u (is_dir_node (File m t d))) rest (File m t d) (repeat Ack (1 + 1) ++ rs) (k ++ suffix_of u));
      [|apply not_sentinel; exact Hne|exact Hl|apply sent_name_eq].
    cbn [repeat app expect encode Nat.add]. rewrite send_data_id. rewrite <- !app_assoc. reflexivity.
  - (* directory *)
    rewrite rexpand_dir, n_acks_dir, encode_dir.
    rewrite repeat_app, <- !app_assoc.
    rewrite (client_entry (PF (prefix ++ [k]) u (is_dir_node (Dir m t ents))) _ (Dir m t ents) _ (k ++ suffix_of u));
      [|apply not_sentinel; exact Hne|exact Hl|apply sent_name_eq].
    replace (1 + n_acks_list (cc_preserve c) ents + 1)%nat with (1 + (n_acks_list (cc_preserve c) ents + 1))%nat by lia.
    rewrite (repeat_app Ack 1). cbn [repeat app expect]. rewrite <- ?app_assoc. f_equal. f_equal.
    destruct (proj1 (wf_names_dir _ _ _) Hwf) as [Hdist Hwfl].
    (* the entries *)
    assert (Hents : forall l done, ents = done ++ l -> wf_names_list l ->
              client_files c None (rexpand_list (prefix ++ [k]) l ++ [PF [sentinel] false false] ++ rest)
                           (repeat Ack (n_acks_list (cc_preserve c) l + 1) ++ rs) =
              encode_list (cc_preserve c) l ++ E_rec ++ client_files c None rest rs).
    { induction l as [|[k2 v2] r IHl]; intros done Hsplit Hw.
      - cbn [rexpand_list app n_acks_list repeat encode_list Nat.add]. cbn [client_files].
        rewrite is_sentinel_E. cbn [expect]. reflexivity.
      - cbn [rexpand_list]. rewrite n_acks_list_cons, encode_list_cons.
        rewrite <- app_comm_cons.
        rewrite <- Nat.add_assoc, repeat_app, <- !app_assoc.
        cbn [wf_names_list] in Hw. destruct Hw as [Hw1 Hw2].
        assert (Hin : In (k2, v2) ents) by (rewrite Hsplit; apply in_or_app; right; left; reflexivity).
        rewrite Forall_forall in IHn.
        pose proof (IHn (k2, v2) Hin (prefix ++ [k]) k2 false) as IHv. cbn [snd] in IHv.
        rewrite suffix_of_false, app_nil_r in IHv.
        rewrite <- !app_assoc in IHv.
        rewrite IHv.
        + f_equal. apply (IHl (done ++ [(k2, v2)])); [rewrite <- app_assoc; exact Hsplit|exact Hw2].
        + exact Hw1.
        + replace (cc_cwd c ++ prefix ++ [k] ++ [k2]) with ((cc_cwd c ++ prefix ++ [k]) ++ [k2]) by (now rewrite <- !app_assoc).
          rewrite lookup_app, Hl. cbn [lookup].
          rewrite (assoc_in_distinct _ _ _ Hdist Hin). reflexivity.
        + left. destruct prefix; discriminate. }
    apply (Hents ents []); auto.
Qed.

End Walk.

(* ---- the whole list: sources given by the user as paths pre ++ [k] ---- *)
Definition src := (path * name * node)%type.
Definition src_path (s : src) : path := let '(pre, k, _) := s in pre ++ [k].
Definition src_entry (s : src) : name * node := let '(_, k, n) := s in (k, n).
(* the entry as the receiver is told to name it *)
Definition sent_entry (c : ccfg) (s : src) : name * node := let '(_, k, n) := s in (k ++ suffix_of c true, n).

Fixpoint top_files (l : list src) : list pfile :=
  match l with
  | [] => []
  | (pre, k, n) :: r => PF (pre ++ [k]) true (is_dir_node n) :: rexpand (pre ++ [k]) n ++ top_files r
  end.

Lemma expand_dirs_spec cfs cwd (l : list src) :
  (forall pre k n, In (pre, k, n) l -> lookup cfs (cwd ++ pre ++ [k]) = Some n) ->
  expand_dirs cfs cwd (map src_path l) = Some (top_files l).
Proof.
  induction l as [|[[pre k] n] r IH]; intro H; [reflexivity|].
  cbn [map src_path expand_dirs top_files].
  rewrite (H pre k n) by (left; reflexivity).
  rewrite IH by (intros; apply H; right; assumption). reflexivity.
Qed.

Section WalkAll.
Variable c : ccfg.

Lemma walk_all : forall (l : list src) rs,
  (forall pre k n, In (pre, k, n) l ->
     wf_names n /\ lookup (cc_fs c) (cc_cwd c ++ pre ++ [k]) = Some n /\ (pre <> [] \/ beq k sentinel = false)) ->
  client_files c None (top_files l) (repeat Ack (n_acks_list (cc_preserve c) (map (sent_entry c) l)) ++ rs) =
  encode_list (cc_preserve c) (map (sent_entry c) l).
Proof.
  induction l as [|[[pre k] n] r IH]; intros rs H.
  - reflexivity.
  - cbn [top_files map sent_entry]. rewrite n_acks_list_cons, encode_list_cons, repeat_app, <- app_assoc.
    destruct (H pre k n (or_introl eq_refl)) as (Hw & Hl & Hs).
    rewrite (walk_node c n pre k true _ _ Hw Hl Hs). f_equal.
    apply IH. intros. apply H. right. assumption.
Qed.

Theorem client_all_acks (l : list src) rs :
  (forall pre k n, In (pre, k, n) l ->
     wf_names n /\ lookup (cc_fs c) (cc_cwd c ++ pre ++ [k]) = Some n /\ (pre <> [] \/ beq k sentinel = false)) ->
  client c (top_files l) (repeat Ack (1 + n_acks_list (cc_preserve c) (map (sent_entry c) l)) ++ rs) =
  encode_list (cc_preserve c) (map (sent_entry c) l).
Proof.
  intro H. unfold client. cbn [repeat Nat.add app expect]. apply walk_all. exact H.
Qed.

End WalkAll.
