(* Forward lemmas: what the receiver's line reader and scanners make of the records the sender
   writes, and what the data loop leaves in the file (C11_blocks). *)
From PV Require Import Pcp.FsModel Pcp.PcpSink Pcp.PcpClient Pcp.FsFacts Pcp.FsAlgebra Pcp.PcpSinkFacts Pcp.PcpClientFacts.
From PV Require Import Base.Decimal Base.DecimalFacts.
Local Open Scope N_scope.

(* ---- the line buffer after a line has been stored over older contents ---- *)
Definition overlay (new old : list N) : list N := new ++ skipn (length new) old.

Lemma overlay_cons x a old : overlay (x :: a) old = x :: overlay a (tl old).
Proof. unfold overlay. cbn [length app]. f_equal. f_equal. destruct old; [now rewrite !skipn_nil|reflexivity]. Qed.

Lemma list_set_overlay : forall a old v, list_set (overlay a old) (length a) v = Some (overlay (a ++ [v]) old).
Proof.
  induction a as [|x a IH]; intros old v.
  - cbn. unfold overlay. cbn. f_equal. f_equal. destruct old; reflexivity.
  - rewrite overlay_cons. cbn [length list_set]. rewrite IH. cbn [option_map app]. now rewrite overlay_cons.
Qed.

Lemma list_set_middle : forall a x r v, list_set (a ++ x :: r) (length a) v = Some (a ++ v :: r).
Proof.
  induction a as [|y a IH]; intros x r v; [reflexivity|].
  cbn [app length list_set]. now rewrite IH.
Qed.

Lemma nlen_nat s : N.to_nat (nlen s) = length s.
Proof. unfold nlen. lia. Qed.

Lemma buf_set_overlay a old v : nlen a < BUFSIZ -> buf_set (overlay a old) (nlen a) v = Some (overlay (a ++ [v]) old).
Proof.
  intro H. unfold buf_set. destruct (BUFSIZ <=? nlen a) eqn:E; [apply N.leb_le in E; lia|].
  rewrite nlen_nat. apply list_set_overlay.
Qed.

Lemma read_rest_line : forall l pre old rest,
  ~ In c_nl l -> nlen pre + nlen l + 1 < LINEMAX ->
  read_rest (l ++ c_nl :: rest) (overlay pre old) (nlen pre) =
  RL_Line (overlay (pre ++ l ++ [c_nl]) old) (nlen pre + nlen l + 1) c_nl rest.
Proof.
  pose proof linemax_lt as HL.
  induction l as [|x l IH]; intros pre old rest Hnl Hlen.
  - cbn [app read_rest]. rewrite buf_set_overlay by (unfold nlen in *; cbn in *; lia).
    replace ((nlen pre + 1 <? LINEMAX) && negb (c_nl =? c_nl)) with false by (rewrite N.eqb_refl, andb_false_r; reflexivity).
    f_equal. unfold nlen. cbn. lia.
  - cbn [app read_rest]. rewrite buf_set_overlay by (unfold nlen in *; cbn [length] in *; lia).
    assert (Hx : x <> c_nl) by (intro; subst; apply Hnl; left; reflexivity).
    replace ((nlen pre + 1 <? LINEMAX) && negb (x =? c_nl)) with true.
    2:{ symmetry. apply andb_true_iff. split; [apply N.ltb_lt; unfold nlen in *; cbn [length] in *; lia|].
        apply negb_true_iff. now apply N.eqb_neq. }
    replace (nlen pre + 1) with (nlen (pre ++ [x])) by (unfold nlen; rewrite app_length; cbn; lia).
    rewrite IH.
    + rewrite <- !app_assoc. cbn [app]. f_equal. unfold nlen. rewrite app_length. cbn [length]. lia.
    + intro Hin. apply Hnl. right. exact Hin.
    + unfold nlen in *. rewrite app_length. cbn [length] in *. lia.
Qed.

(* a control line as the sender writes it: first byte not a newline, no newline inside *)
Lemma read_line_line c l old rest :
  c <> c_nl -> ~ In c_nl l -> nlen l + 2 < LINEMAX ->
  read_line old (c :: l ++ c_nl :: rest) =
  RL_Line (overlay (c :: l ++ [c_nl]) old) (nlen l + 2) c_nl rest.
Proof.
  intros Hc Hl Hlen. unfold read_line.
  pose proof linemax_lt. pose proof bufsiz_gt2.
  replace (buf_set old 0 c) with (Some (overlay [c] old)).
  2:{ symmetry. apply (buf_set_overlay [] old c). unfold nlen. cbn. lia. }
  replace (c =? c_nl) with false by (symmetry; now apply N.eqb_neq).
  change 1 with (nlen [c]). rewrite read_rest_line by (auto; unfold nlen in *; cbn [length] in *; lia).
  f_equal. unfold nlen. cbn [length]. lia.
Qed.

(* ---- numbers ---- *)
Lemma wrap64_small z : (0 <= z < 9223372036854775808)%Z -> wrap64 z = z.
Proof. intro H. unfold wrap64. rewrite Z.mod_small by lia. lia. Qed.

Lemma fold_dval_ge : forall ds x, x <= fold_left dval ds x.
Proof.
  induction ds as [|d ds IH]; intro x; cbn [fold_left]; [lia|].
  eapply N.le_trans; [|apply IH]. unfold dval. lia.
Qed.

Lemma getnum_fold : forall ds acc c r,
  forallb is_digit ds = true -> is_digit c = false ->
  fold_left dval ds acc < 9223372036854775808 ->
  getnum (ds ++ c :: r) (Z.of_N acc) = POk (Z.of_N (fold_left dval ds acc), c :: r).
Proof.
  induction ds as [|d ds IH]; intros acc c r Hd Hc Hb.
  - cbn [app getnum fold_left]. now rewrite Hc.
  - cbn [forallb] in Hd. apply andb_true_iff in Hd as [Hd1 Hd2].
    cbn [app getnum fold_left] in *. rewrite Hd1.
    pose proof (fold_dval_ge ds (dval acc d)) as Hge.
    replace (wrap64 (Z.of_N acc * 10 + Z.of_N (d - 48))) with (Z.of_N (dval acc d)).
    + apply IH; auto.
    + rewrite wrap64_small; unfold dval in *; lia.
Qed.

Lemma getnum_digits n c r : n < 9223372036854775808 -> is_digit c = false ->
  getnum (digits n ++ c :: r) 0%Z = POk (Z.of_N n, c :: r).
Proof.
  intros Hn Hc. change 0%Z with (Z.of_N 0).
  rewrite getnum_fold; auto using digits_all_digit.
  - now rewrite <- (value_digits n) at 2.
  - fold (value (digits n)). now rewrite value_digits.
Qed.

Lemma getnum_zero c r : is_digit c = false -> getnum (48 :: c :: r) 0%Z = POk (0%Z, c :: r).
Proof. intro H. cbn [getnum]. change (is_digit 48) with true. cbv iota. cbn [getnum]. rewrite H. reflexivity. Qed.

Lemma zdigits_nonneg t : (0 <= t)%Z -> zdigits t = digits (Z.to_N t).
Proof. destruct t; cbn; try lia; intros _; reflexivity. Qed.

Lemma cstr_of_app nm junk : ~ In 0 nm -> cstr_of (nm ++ 0 :: junk) = Some nm.
Proof.
  induction nm as [|c nm IH]; intro H; [reflexivity|].
  cbn [app cstr_of]. destruct (c =? 0) eqn:E; [apply N.eqb_eq in E; subst; exfalso; apply H; left; reflexivity|].
  rewrite IH; [reflexivity|]. intro Hin. apply H. right. exact Hin.
Qed.

(* ---- the records ---- *)
Lemma parse_T t junk : (0 <= t < 9223372036854775808)%Z ->
  parse_ctl ([84] ++ zdigits t ++ [32;48;32] ++ zdigits t ++ [32;48] ++ 0 :: junk) = POk (CTimes (mkt t 0 t 0)).
Proof.
  intros Ht. rewrite zdigits_nonneg by lia. unfold parse_ctl. cbn [app]. cbn [N.eqb c_T Pos.eqb].
  assert (Hn : Z.to_N t < 9223372036854775808) by lia.
  assert (H0 : 0 < 9223372036854775808) by reflexivity.
  rewrite (getnum_digits (Z.to_N t) 32 _ Hn eq_refl). cbn [pbind expectc N.eqb c_sp Pos.eqb].
  rewrite (getnum_zero 32 _ eq_refl). cbn [pbind expectc N.eqb c_sp Pos.eqb].
  rewrite (getnum_digits (Z.to_N t) 32 _ Hn eq_refl). cbn [pbind expectc N.eqb c_sp Pos.eqb].
  rewrite (getnum_zero 0 _ eq_refl). cbn [pbind expectc N.eqb].
  rewrite Z2N.id by lia. reflexivity.
Qed.

Lemma parse_CD (isdir : bool) m size nm junk :
  size < 9223372036854775808 -> ~ In 0 nm ->
  parse_ctl ([if isdir then c_D else c_C] ++ oct4 (N.land m 4095) ++ [32] ++ digits size ++ [32] ++ nm ++ 0 :: junk) =
  POk (CFile isdir (N.land m 4095) (Z.of_N size) nm).
Proof.
  intros Hs Hn. unfold parse_ctl. cbn [app].
  assert (Hm : N.land m 4095 < 4096).
  { change 4095 with (N.ones 12). rewrite N.land_ones. apply N.mod_lt. discriminate. }
  replace ((if isdir then c_D else c_C) =? c_T) with false by (destruct isdir; reflexivity).
  replace (negb ((if isdir then c_D else c_C) =? c_C) && negb ((if isdir then c_D else c_C) =? c_D)) with false by (destruct isdir; reflexivity).
  rewrite getmode_oct4 by exact Hm. cbn [pbind expectc N.eqb c_sp Pos.eqb].
  rewrite (getnum_digits size 32 _ Hs eq_refl). cbn [pbind expectc N.eqb c_sp Pos.eqb].
  rewrite cstr_of_app by exact Hn. destruct isdir; reflexivity.
Qed.

(* ---- C11_blocks: the data loop and the truncation leave exactly the bytes sent ---- *)
Definition same_but (fs0 fs : node) (p : path) : Prop := forall X, set_at fs p X = set_at fs0 p X.

Lemma same_but_refl fs p : same_but fs fs p.
Proof. intro X. reflexivity. Qed.

Lemma same_but_step fs0 fs fs' p Y : same_but fs0 fs p -> set_at fs p Y = Some fs' -> same_but fs0 fs' p.
Proof. intros H Hs X. rewrite (set_at_twice _ _ _ X _ Hs). apply H. Qed.

(* the log grew by file-system calls only *)
Definition quiet (w w' : world) : Prop :=
  exists delta, w_log w' = delta ++ w_log w /\ Forall (fun it => match it with Touch _ _ _ => True | _ => False end) delta.

Lemma quiet_refl w : quiet w w.
Proof. exists []. split; [reflexivity|constructor]. Qed.
Lemma quiet_trans a b c : quiet a b -> quiet b c -> quiet a c.
Proof.
  intros (d1 & E1 & F1) (d2 & E2 & F2). exists (d2 ++ d1). split; [rewrite E2, E1; now rewrite app_assoc|apply Forall_app; auto].
Qed.
Lemma quiet_set_in w i : quiet w (set_in w i).
Proof. exists []. split; [reflexivity|constructor]. Qed.

Lemma skipn_skipn' {A} : forall a b (l : list A), skipn a (skipn b l) = skipn (b + a) l.
Proof.
  intros a b. revert a. induction b as [|b IH]; intros a l; [reflexivity|].
  destruct l; [now rewrite !skipn_nil|]. cbn [skipn Nat.add]. apply IH.
Qed.

Lemma overwrite_overlay old a b : overwrite (overlay a old) (length a) b = overlay (a ++ b) old.
Proof.
  unfold overwrite, overlay. rewrite firstn_app, firstn_all, Nat.sub_diag. cbn [firstn]. rewrite app_nil_r.
  rewrite app_length at 1. replace (length a - (length a + length (skipn (length a) old)))%nat with 0%nat by lia.
  cbn [repeat app]. rewrite skipn_app, skipn_all2 by lia. cbn [app].
  replace (length a + length b - length a)%nat with (length b) by lia.
  rewrite skipn_skipn', app_length, <- app_assoc. reflexivity.
Qed.

Lemma write_step w p m t c off data :
  lookup (w_fs w) p = Some (File m t c) ->
  exists fs', set_at (w_fs w) p (File m None (overwrite c (N.to_nat off) data)) = Some fs' /\
              snd (on_fd OWrite p (fs_write (w_fs w) p off data) w) = logi (Touch OWrite p true) (set_fs w fs').
Proof.
  intro H. destruct (set_at_exists p (w_fs w) _ (File m None (overwrite c (N.to_nat off) data)) H) as [fs' E].
  exists fs'. split; [exact E|]. unfold on_fd, fs_write, apply_op. rewrite H, E. reflexivity.
Qed.

Lemma take_n_app n dr rest : (N.to_nat n <= length dr)%nat ->
  take_n n (dr ++ rest) = Some (firstn (N.to_nat n) dr, skipn (N.to_nat n) dr ++ rest).
Proof.
  intro H. unfold take_n. rewrite app_length.
  destruct (length dr + length rest <? N.to_nat n)%nat eqn:E; [apply Nat.ltb_lt in E; lia|].
  rewrite firstn_app, skipn_app. replace (N.to_nat n - length dr)%nat with 0%nat by lia.
  cbn [firstn skipn]. now rewrite app_nil_r.
Qed.

Lemma data_loop_exact : forall fuel cnt p size i pend count off w dr rest m t old written,
  (length dr < fuel)%nat -> (BUFSIZ | cnt) -> 0 < cnt ->
  w_in w = dr ++ rest ->
  ((i < size)%Z -> Z.of_nat (length dr) = (size - i)%Z /\ (BUFSIZ | count) /\ count < cnt) ->
  ((size <= i)%Z -> dr = []) ->
  count = nlen pend -> off = nlen written ->
  lookup (w_fs w) p = Some (File m t (overlay written old)) ->
  exists w' t', data_loop fuel cnt p size i pend count off w = DDone w' /\
    w_in w' = rest /\ lookup (w_fs w') p = Some (File m t' (overlay (written ++ pend ++ dr) old)) /\
    same_but (w_fs w) (w_fs w') p /\ quiet w w'.
Proof.
  induction fuel as [|f IH]; intros cnt p size i pend count off w dr rest m t old written Hf Hd Hpos Hin Hlt Hge Hc Ho Hl; [lia|].
  cbn [data_loop]. pose proof bufsiz_pos as HB.
  destruct (i <? size)%Z eqn:Ei.
  2:{ apply Z.ltb_ge in Ei. rewrite (Hge Ei) in *. cbn [app] in Hin. rewrite app_nil_r.
      destruct (count =? 0) eqn:E0.
      - apply N.eqb_eq in E0. assert (pend = []) as -> by (destruct pend; [reflexivity|unfold nlen in Hc; cbn in Hc; lia]).
        rewrite app_nil_r. exists w, t. repeat split; auto using same_but_refl, quiet_refl.
      - destruct (write_step w p m t _ off pend Hl) as (fs' & Es & ->).
        eexists _, None. split; [reflexivity|]. cbn [w_in w_fs logi set_fs].
        repeat split; auto.
        + rewrite (lookup_set_at _ _ _ _ Es). subst off. rewrite nlen_nat, overwrite_overlay. reflexivity.
        + eapply same_but_step; [apply same_but_refl|exact Es].
        + exists [Touch OWrite p true]. split; [reflexivity|repeat constructor]. }
  apply Z.ltb_lt in Ei. destruct (Hlt Ei) as (Hsz & Hdc & Hcl).
  set (amt := if (size - i <? Z.of_N BUFSIZ)%Z then Z.to_N (size - i) else BUFSIZ).
  assert (Hamt : 1 <= amt <= BUFSIZ /\ (N.to_nat amt <= length dr)%nat /\
                 ((Z.of_N BUFSIZ <= size - i)%Z -> amt = BUFSIZ) /\ ((size - i < Z.of_N BUFSIZ)%Z -> N.to_nat amt = length dr)).
  { unfold amt. destruct (size - i <? Z.of_N BUFSIZ)%Z eqn:E; [apply Z.ltb_lt in E|apply Z.ltb_ge in E]; repeat split; lia. }
  destruct Hamt as (Ha1 & Ha2 & Ha3 & Ha4).
  assert (Hfit : count + BUFSIZ <= cnt).
  { destruct Hd as [k ->]. destruct Hdc as [j Hj]. rewrite Hj in *.
    assert (j < k) by (apply (N.mul_lt_mono_pos_r BUFSIZ); lia).
    assert ((j + 1) * BUFSIZ <= k * BUFSIZ) by (apply N.mul_le_mono_r; lia). lia. }
  destruct (cnt <? count + amt) eqn:Ec; [apply N.ltb_lt in Ec; lia|].
  rewrite Hin, take_n_app by exact Ha2.
  set (chunk := firstn (N.to_nat amt) dr). set (dr' := skipn (N.to_nat amt) dr).
  assert (Hdr : dr = chunk ++ dr') by (symmetry; apply firstn_skipn).
  assert (Hchunk : length chunk = N.to_nat amt) by (unfold chunk; rewrite firstn_length; lia).
  assert (Hdr' : length dr' = (length dr - N.to_nat amt)%nat) by (unfold dr'; apply skipn_length).
  assert (Hnext1 : ((i + Z.of_N BUFSIZ < size)%Z -> Z.of_nat (length dr') = (size - (i + Z.of_N BUFSIZ))%Z /\ amt = BUFSIZ)).
  { intro Hn. assert (amt = BUFSIZ) by (apply Ha3; lia). split; [|assumption]. lia. }
  assert (Hnext2 : ((size <= i + Z.of_N BUFSIZ)%Z -> dr' = [])).
  { intro Hn. apply length_zero_iff_nil. destruct (Z.ltb_spec (size - i) (Z.of_N BUFSIZ)).
    - rewrite Hdr', Ha4 by assumption. lia.
    - rewrite Hdr', (Ha3 H). lia. }
  destruct (count + amt =? cnt) eqn:Ee.
  - apply N.eqb_eq in Ee.
    destruct (write_step (set_in w (dr' ++ rest)) p m t _ off (pend ++ chunk) Hl) as (fs' & Es & ->).
    cbn [w_fs set_in] in Es.
    edestruct (IH cnt p size (i + Z.of_N BUFSIZ)%Z [] 0 (off + (count + amt))
                  (logi (Touch OWrite p true) (set_fs (set_in w (dr' ++ rest)) fs')) dr' rest m None old (written ++ pend ++ chunk))
      as (w' & t' & E & A & B & C & D); try reflexivity; auto.
    + lia.
    + intro Hn. destruct (Hnext1 Hn) as [X Y]. repeat split; [exact X|apply N.divide_0_r|lia].
    + subst off count. unfold nlen. rewrite !app_length. lia.
    + cbn [w_fs logi set_fs]. rewrite (lookup_set_at _ _ _ _ Es). subst off. rewrite nlen_nat, overwrite_overlay, app_assoc. reflexivity.
    + exists w', t'. split; [exact E|]. split; [exact A|]. split.
      { rewrite B. rewrite Hdr. cbn [app]. rewrite <- !app_assoc. reflexivity. }
      split.
      { intro X. rewrite (C X). cbn [w_fs logi set_fs]. apply (set_at_twice _ _ _ X _ Es). }
      { eapply quiet_trans; [|exact D]. exists [Touch OWrite p true]. split; [reflexivity|repeat constructor]. }
  - apply N.eqb_neq in Ee.
    edestruct (IH cnt p size (i + Z.of_N BUFSIZ)%Z (pend ++ chunk) (count + amt) off (set_in w (dr' ++ rest)) dr' rest m t old written)
      as (w' & t' & E & A & B & C & D); try reflexivity; auto.
    + lia.
    + intro Hn. destruct (Hnext1 Hn) as [X Y]. rewrite Y in *. repeat split; [exact X| |lia].
      apply N.divide_add_r; auto. apply N.divide_refl.
    + subst count. unfold nlen. rewrite app_length. lia.
    + exists w', t'. split; [exact E|]. split; [exact A|]. split.
      { rewrite B, Hdr. rewrite <- !app_assoc. reflexivity. }
      split; [exact C|]. eapply quiet_trans; [apply quiet_set_in|exact D].
Qed.
