(* Concrete copies through both models: non-vacuity of C11_roundtrip, the refused-directory defect
   and its repair, the set-group-id directory defect and its repair. *)
From PV Require Import Pcp.FsModel Pcp.PcpSink Pcp.PcpClient Pcp.FsFacts Pcp.FsForward Pcp.PcpEncode Pcp.PcpRound Pcp.PcpCopyFacts.
Local Open Scope N_scope.

Definition n_tree : bytes := [116;114;101;101].
Definition n_sub : bytes := [115;117;98].
Definition n_b : bytes := [98].
Definition n_z : bytes := [122].
Definition n_h : bytes := [104].

(* ./tree = { sub/ { b }, z }   and a target directory ./h *)
Definition src_tree : node :=
  Dir 1517 (Some 1000000000%Z)                                     (* 02755 *)
      [(n_sub, Dir 493 (Some 1000000001%Z) [(n_b, File 420 (Some 1000000002%Z) [66])]);
       (n_z, File 384 (Some 1000000003%Z) [90; 90])].

Definition fs_plain : node := Dir 493 None [(n_tree, src_tree); (n_h, Dir 493 None [])].
(* the same, but h already holds tree/sub as a regular file *)
Definition fs_blocked : node :=
  Dir 493 None [(n_tree, src_tree);
                (n_h, Dir 493 None [(n_tree, Dir 493 None [(n_sub, File 420 None [120])])])].

Definition run (dirmode skip pres : bool) (fs : node) : option (world * ret) :=
  run_copy true dirmode skip pres false 18 4096 [] [[n_tree]] None [n_h] dot fs.

Definition at_ (r : option (world * ret)) (p : path) : option node :=
  match r with Some (w, _) => lookup (w_fs w) p | None => None end.

(* a plain copy with -p: tree, modes (including the set-group-id bit) and times arrive *)
Lemma plain_copy :
  at_ (run true true true fs_plain) [n_h; n_tree] =
  Some (Dir 1517 (Some 1000000000%Z)
            [(n_sub, Dir 493 (Some 1000000001%Z) [(n_b, File 420 (Some 1000000002%Z) [66])]);
             (n_z, File 384 (Some 1000000003%Z) [90; 90])]).
Proof. vm_compute. reflexivity. Qed.

(* the code before fixes/C11-preserve-dir-mode.diff: the set-group-id bit of the new directory is lost *)
Lemma dirmode_lost :
  exists m t e, at_ (run false true true fs_plain) [n_h; n_tree] = Some (Dir m t e) /\ m = 493 /\ m <> 1517.
Proof. eexists _, _, _. split; [vm_compute; reflexivity|]. split; [reflexivity|discriminate]. Qed.

(* a refused directory (tree/sub is a regular file on the target), with the repair: z still arrives
   where it belongs, nothing of sub/ is sent, nothing lands outside tree/ *)
Lemma refused_isolated :
  at_ (run true true false fs_blocked) [n_h; n_tree; n_z] = Some (File 384 None [90; 90]) /\
  at_ (run true true false fs_blocked) [n_h; n_tree; n_sub] = Some (File 420 None [120]) /\
  at_ (run true true false fs_blocked) [n_h; n_tree; n_b] = None /\
  at_ (run true true false fs_blocked) [n_h; n_z] = None /\
  at_ (run true true false fs_blocked) [n_h; n_b] = None.
Proof. vm_compute. repeat split; reflexivity. Qed.

(* the code before fixes/C11-refused-directory.diff: b lands in tree/, and z one level too high *)
Lemma refused_not_isolated :
  at_ (run true false false fs_blocked) [n_h; n_tree; n_b] = Some (File 420 None [66]) /\
  at_ (run true false false fs_blocked) [n_h; n_z] = Some (File 384 None [90; 90]) /\
  at_ (run true false false fs_blocked) [n_h; n_tree; n_z] = None.
Proof. vm_compute. repeat split; reflexivity. Qed.

(* ---- the hypotheses of C11_roundtrip hold for this copy ---- *)
Definition ex_cfg : config := mkcfg [n_h] dot true true 18 4096 true true.
Definition ex_cc : ccfg := mkcc fs_plain [] true None true.
Definition ex_l : list src := [([], n_tree, src_tree)].

Ltac good := unfold good_name, n_tree, n_sub, n_b, n_z, dot, dotdot, c_slash, c_nl, NAME_MAX;
  repeat split; try discriminate; try (cbn; intuition discriminate); try (cbn; lia).

Lemma ex_entries : map (sent_entry ex_cc) ex_l = [(n_tree, src_tree)].
Proof. reflexivity. Qed.

Lemma ex_hyps :
  cc_preserve ex_cc = c_preserve ex_cfg /\
  (forall pre k n, In (pre, k, n) ex_l ->
     lookup (cc_fs ex_cc) (cc_cwd ex_cc ++ pre ++ [k]) = Some n /\ (pre <> [] \/ beq k sentinel = false)) /\
  wf_src_list ex_cfg (map (sent_entry ex_cc) ex_l) /\ names_distinct (map (sent_entry ex_cc) ex_l) /\
  fits_list (length (c_dest ex_cfg)) (map (sent_entry ex_cc) ex_l) /\
  (forall k v, In (k, v) (map (sent_entry ex_cc) ex_l) -> assoc k [] = None) /\
  resolve fs_plain (c_cwd ex_cfg) (c_dest ex_cfg) = ROk [n_h] true /\
  lookup fs_plain [n_h] = Some (Dir 493 None []) /\
  (c_preserve ex_cfg = true -> c_dirmode ex_cfg = true).
Proof.
  rewrite ex_entries.
  split; [reflexivity|]. split.
  { intros pre k n H. cbn in H. destruct H as [H|[]]. inversion H; subst. split; [reflexivity|right; reflexivity]. }
  split.
  { cbn [wf_src_list]. split; [good|]. split; [|exact I]. unfold src_tree.
    apply wf_src_dir. split; [intros _; cbn; unfold TMAX; lia|]. split.
    - unfold names_distinct. cbn. repeat constructor; cbn; intuition discriminate.
    - cbn [wf_src_list]. split; [good|]. split.
      + apply wf_src_dir. split; [intros _; cbn; unfold TMAX; lia|]. split.
        * unfold names_distinct. cbn. repeat constructor; cbn; intuition.
        * cbn [wf_src_list]. split; [good|]. split; [|exact I]. cbn. split; [intros _; unfold TMAX; lia|reflexivity].
      + split; [good|]. split; [|exact I]. cbn. split; [intros _; unfold TMAX; lia|reflexivity]. }
  split; [unfold names_distinct; cbn; repeat constructor; cbn; intuition|].
  split; [cbn; unfold PATH_MAX; repeat split; lia|].
  split; [reflexivity|]. split; [vm_compute; reflexivity|]. split; reflexivity.
Qed.

(* a reverse copy (rpdcp): the remote sender runs in ./h and appends ".h" to the name given by the user *)
Definition fs_rev : node := Dir 493 None [(n_h, Dir 493 None [(n_z, File 416 (Some 1000000003%Z) [90; 90])]); ([111], Dir 493 None [])].
Lemma reverse_copy :
  match run_copy true true true true true 18 4096 [n_h] [[n_z]] (Some n_h) [] [111] fs_rev with
  | Some (w, _) => lookup (w_fs w) [[111]; n_z ++ [46] ++ n_h]
  | None => None
  end = Some (File 416 (Some 1000000003%Z) [90; 90]).
Proof. vm_compute. reflexivity. Qed.
