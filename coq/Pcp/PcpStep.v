(* One turn of the receiver's loop on a control line as the sender writes it. *)
From PV Require Import Pcp.FsModel Pcp.PcpSink Pcp.FsFacts Pcp.FsAlgebra Pcp.PcpSinkFacts Pcp.PcpRecords.
Local Open Scope N_scope.

(* the part of the loop body behind the line reader; rec = the loop with the remaining fuel *)
Definition dispatch (rec : bytes -> bool -> lstate -> world -> world * ret)
  (cfg : config) (targ : bytes) (targisdir : bool) (st : lstate) (b0 : N) (buf1 buf2 : list N) (w : world) : world * ret :=
  if b0 =? 1 then rec targ targisdir (with_buf st buf1) w
  else if b0 =? 2 then (w, RetEnd)
  else if b0 =? c_E then (say Ack w, RetEnd)
  else
    match parse_ctl buf2 with
    | PFault => (w, RetFault)
    | PScrew why => (say (Err (EScrewup why)) w, RetEnd)
    | POk (CTimes tv) => rec targ targisdir (mkl buf2 true tv (l_cursize st)) (say Ack w)
    | POk (CFile isdir mode size nm) =>
      if c_check cfg && negb (name_ok nm)
      then rec targ targisdir (mkl buf2 (l_setimes st) (l_tv st) (l_cursize st)) (say (Err EName) w)
      else
        let cursize := new_cursize targisdir (l_cursize st) targ nm in
        let np := target_path targisdir cursize targ nm in
        let cont := fun se w' => rec targ targisdir (mkl buf2 se (l_tv st) cursize) w' in
        let '(ex, w) := do_stat cfg np w in
        if isdir
        then handle_dir cfg np mode ex (l_setimes st) (l_tv st)
                        (fun w' => enter cfg np w' (fun isd w'' => rec np isd st0 w'')) cont w
        else handle_file cfg np mode size (l_setimes st) (l_tv st) cont w
    end.

Lemma loop_unfold f cfg targ isd st w :
  loop (S f) cfg targ isd st w =
  match read_line (l_buf st) (w_in w) with
  | RL_Fault => (w, RetFault)
  | RL_Eof => (logi Starved w, RetEnd)
  | RL_Newline inp => (say (Err (EScrewup 1)) (set_in w inp), RetEnd)
  | RL_Lost => (say (Err (EScrewup 2)) (logi Starved (set_in w [])), RetEnd)
  | RL_Line buf cp ch inp =>
    match buf_set buf cp 0 with
    | None => (w, RetFault)
    | Some buf1 =>
      match buf1 with
      | [] => (w, RetFault)
      | b0 :: _ =>
        match (if ch =? c_nl then buf_set buf1 (cp - 1) 0 else Some buf1) with
        | None => (w, RetFault)
        | Some buf2 => dispatch (loop f cfg) cfg targ isd st b0 buf1 buf2 (logi (Line (line_of buf2)) (set_in w inp))
        end
      end
    end
  end.
Proof. reflexivity. Qed.

(* a control line c :: l followed by a newline: the buffer afterwards holds the line as a C string *)
Lemma loop_on_line f cfg targ isd st w c l rest :
  c <> c_nl -> ~ In c_nl l -> ~ In 0 (c :: l) -> nlen l + 2 < LINEMAX ->
  w_in w = c :: l ++ c_nl :: rest ->
  exists junk1 junk2,
  loop (S f) cfg targ isd st w =
  dispatch (loop f cfg) cfg targ isd st c (c :: l ++ c_nl :: 0 :: junk1) (c :: l ++ 0 :: junk2)
           (logi (Line (c :: l)) (set_in w rest)).
Proof.
  intros Hc Hl H0 Hlen Hin. rewrite loop_unfold, Hin, read_line_line by assumption.
  pose proof linemax_lt as HL.
  set (old := l_buf st).
  replace (nlen l + 2) with (nlen (c :: l ++ [c_nl])) by (unfold nlen; cbn [length]; rewrite app_length; cbn [length]; lia).
  rewrite buf_set_overlay by (unfold nlen in *; cbn [length]; rewrite app_length; cbn [length]; lia).
  set (buf1 := overlay ((c :: l ++ [c_nl]) ++ [0]) old).
  assert (Hb1 : buf1 = (c :: l) ++ c_nl :: 0 :: skipn (length ((c :: l ++ [c_nl]) ++ [0])) old).
  { unfold buf1, overlay. cbn [app]. rewrite <- !app_assoc. reflexivity. }
  rewrite N.eqb_refl.
  assert (Hcp : nlen (c :: l ++ [c_nl]) - 1 = nlen (c :: l)).
  { unfold nlen. cbn [length]. rewrite app_length. cbn [length]. lia. }
  rewrite Hcp.
  assert (Hset : buf_set buf1 (nlen (c :: l)) 0 = Some ((c :: l) ++ 0 :: 0 :: skipn (length ((c :: l ++ [c_nl]) ++ [0])) old)).
  { unfold buf_set. destruct (BUFSIZ <=? nlen (c :: l)) eqn:E; [apply N.leb_le in E; unfold nlen in *; cbn [length] in *; lia|].
    rewrite nlen_nat, Hb1. apply list_set_middle. }
  rewrite Hb1 in *. cbn [app] in *. rewrite Hset.
  exists (skipn (length ((c :: l ++ [c_nl]) ++ [0])) old), (0 :: skipn (length ((c :: l ++ [c_nl]) ++ [0])) old).
  assert (Hline : forall junk, line_of (c :: l ++ 0 :: junk) = c :: l).
  { intro junk. unfold line_of. change (c :: l ++ 0 :: junk) with ((c :: l) ++ 0 :: junk). now rewrite cstr_of_app. }
  rewrite Hline. reflexivity.
Qed.
