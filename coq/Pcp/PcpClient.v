(* Model of the sending side of a copy: src/pdsh/pcp_client.c.

   pcp_expand_dirs / _rexpand_dir: the sources are walked once into a flat list of file names;
   after the entries of every directory comes the leave-directory sentinel EXIT_SUBDIR_FILENAME.
   pcp_client / _pcp_sendfile / pcp_sendfile: for every entry of the list, in order: the sentinel is
   sent as "E\n"; a file or directory is stat'ed and sent as [T record] D-or-C record [data, NUL],
   each step waiting for the one-byte answer of the receiver; an error answer (\001...) makes
   pcp_sendfile give up on THAT entry, and the loop goes on with the next entry whatever it was
   (defect 20: also with the children of a directory the receiver has just refused).
   [c_skip] = the repair of fixes/C11-refused-directory.diff: the children of a refused directory
   and its sentinel are skipped; false gives the code before the fix.

   File names are component lists relative to the client's working directory (the C joins them with
   '/' in a MAXPATHLEN buffer: domain predicate, joined names shorter than that); xbasename = last
   component.  A source file literally named like the sentinel is taken for the sentinel, as in the C.
   The client side tree is an FsModel.node; directory enumeration order = the order of its entries.
   atime is not modelled: the T record carries mtime in both places. *)
From PV Require Export Pcp.FsModel Pcp.PcpSink.
From PV Require Import Base.Decimal.
Local Open Scope N_scope.

Definition sentinel : bytes := [97;33;98;64;99;35;100;36].       (* "a!b@c#d$" *)

Record pfile := PF { pf_name : path; pf_user : bool; pf_dir : bool }.

Definition is_sentinel (f : pfile) : bool :=
  match pf_name f with [c] => beq c sentinel | _ => false end.

Definition is_dir_node (n : node) : bool := match n with Dir _ _ _ => true | _ => false end.

(* _rexpand_dir(list, name): the entries of directory `prefix`, depth first, then the sentinel *)
Fixpoint rexpand (prefix : path) (n : node) : list pfile :=
  match n with
  | File _ _ _ => []
  | Dir _ _ ents =>
    (fix go (l : list (name * node)) : list pfile :=
       match l with
       | [] => []
       | (k, v) :: r => PF (prefix ++ [k]) false (is_dir_node v) :: rexpand (prefix ++ [k]) v ++ go r
       end) ents ++ [PF [sentinel] false false]
  end.

(* pcp_expand_dirs(infiles) over the client's tree; a name that does not exist ends pdcp (errx) *)
Fixpoint expand_dirs (cfs : node) (cwd : path) (names : list path) : option (list pfile) :=
  match names with
  | [] => Some []
  | p :: r =>
    match lookup cfs (cwd ++ p), expand_dirs cfs cwd r with
    | Some n, Some rest => Some (PF p true (is_dir_node n) :: rexpand p n ++ rest)
    | _, _ => None
    end
  end.

(* ---- records ---- *)
Definition oct4 (m : N) : bytes :=
  [48 + (m / 512) mod 8; 48 + (m / 64) mod 8; 48 + (m / 8) mod 8; 48 + m mod 8].

Definition zdigits (z : Z) : bytes :=
  match z with
  | Z0 => [48]
  | Zpos p => digits (Npos p)
  | Zneg p => c_dash :: digits (Npos p)
  end.

Definition node_mtime (n : node) : Z :=
  match n with File _ (Some t) _ | Dir _ (Some t) _ => t | _ => 0%Z end.

(* "T%ld %ld %ld %ld\n" (st_mtime, 0, st_atime, 0) *)
Definition T_rec (t : Z) : bytes := [84] ++ zdigits t ++ [32;48;32] ++ zdigits t ++ [32;48;10].
(* "D%04o %d %s\n" (mode & 07777, 0, name) *)
Definition D_rec (m : N) (nm : bytes) : bytes := [68] ++ oct4 (N.land m 4095) ++ [32;48;32] ++ nm ++ [10].
(* "C%04o %lld %s\n" (mode & 07777, size, name) *)
Definition C_rec (m : N) (size : N) (nm : bytes) : bytes :=
  [67] ++ oct4 (N.land m 4095) ++ [32] ++ digits size ++ [32] ++ nm ++ [10].
Definition E_rec : bytes := [69; 10].

(* ---- the conversation ---- *)
Record ccfg := mkcc {
  cc_fs : node;               (* the client's tree *)
  cc_cwd : path;              (* its working directory *)
  cc_preserve : bool;         (* -p *)
  cc_suffix : option bytes;   (* reverse copy (pdcp -Z host): ".host" is appended to the names given by the user *)
  cc_skip : bool }.           (* the children of a refused directory are skipped (the fix) *)

(* pcp_response: no answer yet / EOF = stop here; 0 = go on; \001... = failed *)
Definition expect (rs : list reply) (ok fail : list reply -> bytes) : bytes :=
  match rs with
  | [] => []
  | Ack :: r => ok r
  | Err _ :: r => fail r
  end.

Definition sent_name (c : ccfg) (f : pfile) : bytes :=
  last (pf_name f) [] ++ (match cc_suffix c with Some h => if pf_user f then c_dot :: h else [] | None => [] end).

(* _pcp_send_file_data: BUFSIZ-byte reads of the file, each written out completely *)
Fixpoint send_blocks (fuel : nat) (d : bytes) : bytes :=
  match fuel with
  | O => []
  | S f => match d with
           | [] => []
           | _ => firstn (N.to_nat BUFSIZ) d ++ send_blocks f (skipn (N.to_nat BUFSIZ) d)
           end
  end.
Definition send_data (d : bytes) : bytes := send_blocks (S (length d)) d.

(* skip = Some depth: the entries up to and including the sentinel that closes the directory just
   refused are passed over without sending anything *)
Fixpoint client_files (c : ccfg) (skip : option nat) (files : list pfile) (rs : list reply) {struct files} : bytes :=
  match files with
  | [] => []
  | f :: rest =>
    match skip with
    | Some depth =>
      if is_sentinel f then client_files c (match depth with O => None | S d => Some d end) rest rs
      else client_files c (Some (if pf_dir f then S depth else depth)) rest rs
    | None =>
      let next := client_files c None rest in
      if is_sentinel f then E_rec ++ expect rs next (fun _ => [])     (* errx: the client exits *)
      else
        match lookup (cc_fs c) (cc_cwd c ++ pf_name f) with
        | None => if cc_skip c && pf_dir f then client_files c (Some O) rest rs else next rs   (* stat failed: reported *)
        | Some n =>
          let failed := if cc_skip c && pf_dir f then client_files c (Some O) rest else next in
          let body := fun rs =>
            match n with
            | Dir m _ _ => D_rec m (sent_name c f) ++ expect rs next failed
            | File m _ d => C_rec m (N.of_nat (length d)) (sent_name c f) ++
                            expect rs (fun rs => send_data d ++ [0] ++ expect rs next next) failed
            end in
          if cc_preserve c then T_rec (node_mtime n) ++ expect rs body failed else body rs
        end
    end
  end.

(* pcp_client: wait for the receiver's first answer, then the list *)
Definition client (c : ccfg) (files : list pfile) (rs : list reply) : bytes :=
  expect rs (client_files c None files) (fun _ => []).

(* ---- both ends together ---- *)
(* The two processes are deterministic and talk over a pipe pair: the conversation is the least
   stream s with  s = client (what the receiver has answered by the time it has read s and waits).
   It is reached by iteration from the empty stream; every round the client gets at least one more
   answer, and it waits for at most n_answers of them. *)
Definition n_answers (files : list pfile) : nat := 2 + 3 * length files.

Fixpoint exchange (fuel : nat) (cfg : config) (fs : node) (c : ccfg) (files : list pfile) (s : bytes) : bytes :=
  match fuel with
  | O => s
  | S f => let s' := client c files (seen_replies (fst (sink cfg fs s))) in
           if beq s' s then s else exchange f cfg fs c files s'
  end.

(* what the copy leaves behind on the receiving side.  The stream the client sends when every answer is
   an acknowledgement is tried first (one run of the receiver); it is the conversation iff the client,
   given the receiver's actual answers to it, sends exactly that. *)
Definition copy (cfg : config) (fs : node) (c : ccfg) (files : list pfile) : world * ret :=
  let s1 := client c files (repeat Ack (n_answers files)) in
  let r1 := sink cfg fs s1 in
  if beq (client c files (seen_replies (fst r1))) s1 then r1
  else sink cfg fs (exchange (n_answers files) cfg fs c files []).

(* pdcp (dsh.c): the file list is expanded once; "-y" is passed to the remote `pdcp -z` iff the list has
   more than one entry.  rpdcp: the remote `pdcp -Z names host` expands and sends, the local thread
   receives into the output directory without -y.  One tree serves as the file system of both ends. *)
Definition run_copy (check dirmode skip pres reverse : bool) (umask blk : N) (ccwd : path) (names : list path)
  (suffix : option bytes) (scwd : path) (dest : bytes) (fs : node) : option (world * ret) :=
  match expand_dirs fs ccwd names with
  | None => None
  | Some files =>
    let c := mkcc fs ccwd pres suffix skip in
    let cfg := mkcfg scwd dest (if reverse then false else (1 <? length files)%nat) pres umask blk check dirmode in
    Some (copy cfg fs c files)
  end.
