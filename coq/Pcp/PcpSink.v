(* Model of the receiving side of a copy: src/pdsh/pcp_server.c, _sink() and pcp_server(),
   as `pdcp -z DEST` (main.c _pcp_remote_server) and the rpdcp threads (dsh.c _pcp_server) run it.

   Input: the byte stream on infd, the destination string, the -y (target is directory) and
   -p (preserve) flags, the process umask, st_blksize of the destination file system, the
   tree.  Output: the tree, the rest of the input, and a transcript (newest first) of the
   control lines read, the replies written to outfd and the file-system calls made, each
   with the canonical path it resolved to.

   Transcribed from the C, warts included:
   * the control line is read byte by byte into buf[BUFSIZ] (index-level: a store outside the
     buffer, or a load from a byte that was never stored, is the outcome RetFault);
   * the scanners walk the buffer itself (a scanner that runs off the stored part is a Fault);
   * getnum and the size scanner accumulate in a signed 64-bit integer (wrap64: what the
     compiled code does on overflow; the C standard leaves it undefined);
   * a directory record recurses (nested _sink) and the parent goes on with the rest of the
     stream whatever ended the nested call;
   * data arrives in BUFSIZ pieces, is collected in the shared block buffer of
     roundup(st_blksize, BUFSIZ) bytes and written when that is full; the file is cut to size.
   [c_check] = the name check added by fixes/C12-name-escape.diff; false gives the code
   before the fix (kept for C12_confined_refuted_without_check).
   Not modelled: malloc failure, write(2)/fstat(2) failure on the opened file, int overflow
   of `need` and of the T-record counter (`setimes++`), `i + amt` overflow of off_t (needs a
   stream of 2^63 bytes). *)
From PV Require Export Pcp.FsModel.
From PV Require Import Generated.Params.
Local Open Scope N_scope.

Definition BUFSIZ : N := Params.PCP_LINEBUF.
Definition LINEMAX : N := Params.PCP_LINEBUF - Params.PCP_LINE_SLACK.   (* &buf[BUFSIZ - 1] *)
Definition NAME_SLACK : N := Params.PCP_NAME_SLACK.

(* ---- transcript ---- *)
Inductive op := OStat | OMkdir | OChmod | OOpen | OWrite | OTrunc | OUtimes.
Inductive errk :=
| EVerifydir | EScrewup (why : N) | EName | EBad | EData | ETrunc | EResp | EUtimes.
Inductive reply := Ack | Err (k : errk).
Inductive item :=
| Touch (o : op) (p : path) (ok : bool)     (* a call that resolved to canonical path p; ok = it succeeded *)
| Reply (r : reply)
| Line (l : bytes)                          (* a control line as the parser sees it (C string) *)
| Starved.                                  (* a read() found the input exhausted *)

Record world := mkw { w_fs : node; w_in : bytes; w_log : list item }.

Record config := mkcfg {
  c_cwd : path;          (* working directory of the process (canonical, exists) *)
  c_dest : bytes;        (* svr->outfile *)
  c_ydir : bool;         (* -y: svr->target_is_dir *)
  c_preserve : bool;     (* -p *)
  c_umask : N;           (* process umask *)
  c_blksize : N;         (* st_blksize reported for files of the destination *)
  c_check : bool;        (* the received name is checked (fixes/C12-name-escape.diff) *)
  c_dirmode : bool }.    (* under -p a directory just created is chmod'ed (fixes/C11-preserve-dir-mode.diff) *)

Inductive ret := RetEnd | RetFault | RetFuel.

Definition set_in (w : world) (i : bytes) : world := mkw (w_fs w) i (w_log w).
Definition set_fs (w : world) (f : node) : world := mkw f (w_in w) (w_log w).
Definition logi (it : item) (w : world) : world := mkw (w_fs w) (w_in w) (it :: w_log w).
Definition say (r : reply) (w : world) : world := logi (Reply r) w.

Definition touch (o : op) (p : option path) (ok : bool) (w : world) : world :=
  match p with Some q => logi (Touch o q ok) w | None => w end.

Definition rpath (root : node) (cwd : path) (s : bytes) : option path :=
  match resolve root cwd s with ROk p _ => Some p | RErr => None end.

(* ---- the calls, with logging ---- *)
Definition do_stat (cfg : config) (s : bytes) (w : world) : option kind * world :=
  let r := fs_stat (w_fs w) (c_cwd cfg) s in
  (option_map snd r,
   touch OStat (rpath (w_fs w) (c_cwd cfg) s) (match r with Some _ => true | None => false end) w).

Definition apply_op (o : op) (r : opres) (w : world) : bool * world :=
  match r with
  | (p, Some fs') => (true, touch o p true (set_fs w fs'))
  | (p, None) => (false, touch o p false w)
  end.

Definition eff_umask (cfg : config) : N := if c_preserve cfg then 0 else c_umask cfg.

Definition do_mkdir (cfg : config) (s : bytes) (mode : N) (w : world) : bool * world :=
  apply_op OMkdir (fs_mkdir (w_fs w) (c_cwd cfg) s mode (eff_umask cfg)) w.
Definition do_chmod (cfg : config) (s : bytes) (mode : N) (w : world) : bool * world :=
  apply_op OChmod (fs_chmod (w_fs w) (c_cwd cfg) s mode) w.

Record times := mkt { t_msec : Z; t_musec : Z; t_asec : Z; t_ausec : Z }.

Definition do_utimes (cfg : config) (s : bytes) (tv : times) (w : world) : bool * world :=
  apply_op OUtimes (fs_utimes (w_fs w) (c_cwd cfg) s (t_msec tv) (t_musec tv) (t_ausec tv)) w.

Definition do_open (cfg : config) (s : bytes) (mode : N) (w : world) : option (path * bool) * world :=
  match fs_open (w_fs w) (c_cwd cfg) s mode (eff_umask cfg) with
  | (Some p, Some (fs', existed)) => (Some (p, existed), touch OOpen (Some p) true (set_fs w fs'))
  | (p, _) => (None, touch OOpen p false w)
  end.

Definition on_fd (o : op) (p : path) (r : option node) (w : world) : bool * world :=
  apply_op o (Some p, r) w.

(* ---- the control-line buffer, index level ---- *)
(* buf = the bytes stored so far (malloc'ed memory is uninitialised beyond them) *)
(* store v at index k of the stored bytes: inside them, or right behind them *)
Fixpoint list_set (l : list N) (k : nat) (v : N) : option (list N) :=
  match k with
  | O => Some (v :: tl l)
  | S k' => match l with
            | [] => None
            | x :: r => option_map (cons x) (list_set r k' v)
            end
  end.

Definition buf_set (buf : list N) (i : N) (v : N) : option (list N) :=
  if BUFSIZ <=? i then None else list_set buf (N.to_nat i) v.

Inductive rline :=
| RL_Fault
| RL_Eof                                               (* first read() <= 0 *)
| RL_Newline (inp : bytes)                             (* "unexpected <newline>" *)
| RL_Lost                                              (* "lost connection" inside a line *)
| RL_Line (buf : list N) (cp : N) (ch : N) (inp : bytes).

(* do { read ch; *cp++ = ch; } while (cp < &buf[BUFSIZ - 1] && ch != '\n'); *)
Fixpoint read_rest (inp : bytes) (buf : list N) (cp : N) : rline :=
  match inp with
  | [] => RL_Lost
  | ch :: inp' =>
    match buf_set buf cp ch with
    | None => RL_Fault
    | Some buf' =>
      let cp' := cp + 1 in
      if (cp' <? LINEMAX) && negb (ch =? c_nl) then read_rest inp' buf' cp'
      else RL_Line buf' cp' ch inp'
    end
  end.

Definition read_line (buf : list N) (inp : bytes) : rline :=
  match inp with
  | [] => RL_Eof
  | c :: inp' =>
    match buf_set buf 0 c with
    | None => RL_Fault
    | Some buf' => if c =? c_nl then RL_Newline inp' else read_rest inp' buf' 1
    end
  end.

(* ---- scanners over the buffer from cp on ---- *)
Inductive pr (A : Type) := PFault | PScrew (why : N) | POk (a : A).
Arguments PFault {A}. Arguments PScrew {A}. Arguments POk {A}.

Definition pbind {A B} (x : pr A) (f : A -> pr B) : pr B :=
  match x with PFault => PFault | PScrew y => PScrew y | POk a => f a end.
Notation "x <- e ;; k" := (pbind e (fun x => k)) (at level 61, e at next level, right associativity).
Notation "' p <- e ;; k" := (pbind e (fun p => k)) (at level 61, p pattern, e at next level, right associativity).

Definition wrap64 (z : Z) : Z := ((z + 9223372036854775808) mod 18446744073709551616 - 9223372036854775808)%Z.

(* #define getnum(t) (t) = 0; while (isdigit( *cp)) (t) = (t) * 10 + ( *cp++ - '0'); *)
Fixpoint getnum (l : list N) (acc : Z) : pr (Z * list N) :=
  match l with
  | [] => PFault
  | c :: r => if is_digit c then getnum r (wrap64 (acc * 10 + Z.of_N (c - 48))) else POk (acc, l)
  end.

(* if ( *cp++ != c) SCREWUP(why) *)
Definition expectc (c why : N) (l : list N) : pr (list N) :=
  match l with
  | [] => PFault
  | x :: r => if x =? c then POk r else PScrew why
  end.

(* for (++cp; cp < buf + 5; cp++) { if ( *cp < '0' || *cp > '7') SCREWUP; mode = (mode << 3) | ( *cp - '0'); } *)
Fixpoint getmode (k : nat) (l : list N) (acc : N) : pr (N * list N) :=
  match k with
  | O => POk (acc, l)
  | S k' => match l with
            | [] => PFault
            | c :: r => if (c <? 48) || (55 <? c) then PScrew 9
                        else getmode k' r (N.lor (N.shiftl acc 3) (c - 48))
            end
  end.

(* the C string at cp: None when no NUL is stored from cp on *)
Fixpoint cstr_of (l : list N) : option bytes :=
  match l with
  | [] => None
  | c :: r => if c =? 0 then Some [] else option_map (cons c) (cstr_of r)
  end.

Inductive ctl :=
| CTimes (tv : times)
| CFile (isdir : bool) (mode : N) (size : Z) (nm : bytes).

Definition c_T : N := 84.  Definition c_C : N := 67.  Definition c_D : N := 68.  Definition c_E : N := 69.

Definition parse_ctl (buf : list N) : pr ctl :=
  match buf with
  | [] => PFault
  | b0 :: r =>
    if b0 =? c_T then
      '(ms, l) <- getnum r 0%Z ;;
      l <- expectc c_sp 3 l ;;
      '(mu, l) <- getnum l 0%Z ;;
      l <- expectc c_sp 4 l ;;
      '(as_, l) <- getnum l 0%Z ;;
      l <- expectc c_sp 5 l ;;
      '(au, l) <- getnum l 0%Z ;;
      _ <- expectc 0 6 l ;;
      POk (CTimes (mkt ms mu as_ au))
    else if negb (b0 =? c_C) && negb (b0 =? c_D) then PScrew 7
    else
      '(mode, l) <- getmode 4 r 0 ;;
      l <- expectc c_sp 10 l ;;
      '(size, l) <- getnum l 0%Z ;;
      l <- expectc c_sp 11 l ;;
      match cstr_of l with
      | None => PFault
      | Some nm => POk (CFile (b0 =? c_D) mode size nm)
      end
  end.

(* the check of the fix: strchr(cp, '/') != NULL || strcmp(cp, "..") == 0 is refused *)
Definition name_ok (nm : bytes) : bool := negb (mem c_slash nm) && negb (beq nm dotdot).

(* snprintf(namebuf, cursize, "%s%s%s", targ, *targ ? "/" : "", cp) *)
Definition snprintf_trunc (size : N) (s : bytes) : bytes := firstn (N.to_nat size - 1) s.
Definition join_name (targ nm : bytes) : bytes :=
  targ ++ (match targ with [] => [] | _ => [c_slash] end) ++ nm.

Definition nlen (s : bytes) : N := N.of_nat (length s).

Record lstate := mkl { l_buf : list N; l_setimes : bool; l_tv : times; l_cursize : N }.

Definition st0 : lstate := mkl [] false (mkt 0 0 0 0) 0.

(* ---- the data loop ---- *)
Definition roundup (x y : N) : N := ((x + (y - 1)) / y) * y.
Definition blk_cnt (cfg : config) : N :=
  let s := roundup (c_blksize cfg) BUFSIZ in if s =? 0 then BUFSIZ else s.

Definition take_n (n : N) (l : bytes) : option (bytes * bytes) :=
  let k := N.to_nat n in
  if (length l <? k)%nat then None else Some (firstn k l, skipn k l).

Inductive dres := DFault | DFuel | DEof (w : world) | DDone (w : world).

Fixpoint data_loop (fuel : nat) (cnt : N) (p : path) (size i : Z) (pend : bytes) (count off : N) (w : world) : dres :=
  match fuel with
  | O => DFuel
  | S f =>
    if (i <? size)%Z then
      let amt := if (size - i <? Z.of_N BUFSIZ)%Z then Z.to_N (size - i) else BUFSIZ in
      if cnt <? count + amt then DFault                      (* read() past the end of bp->buf *)
      else
      match take_n amt (w_in w) with
      | None => DEof (set_in w [])
      | Some (chunk, rest) =>
        let w := set_in w rest in
        let pend := pend ++ chunk in
        let count := count + amt in
        if count =? cnt
        then data_loop f cnt p size (i + Z.of_N BUFSIZ)%Z [] 0 (off + count)
                       (snd (on_fd OWrite p (fs_write (w_fs w) p off pend) w))
        else data_loop f cnt p size (i + Z.of_N BUFSIZ)%Z pend count off w
      end
    else DDone (if count =? 0 then w else snd (on_fd OWrite p (fs_write (w_fs w) p off pend) w))
  end.

(* ---- _sink ---- *)
(* the part of _sink before its loop; k = the loop *)
Definition enter (cfg : config) (targ : bytes) (w : world) (k : bool -> world -> world * ret) : world * ret :=
  let '(okdir, w) :=
    if c_ydir cfg
    then let '(r, w') := do_stat cfg (c_dest cfg) w in
         (match r with Some KDir => true | _ => false end, w')
    else (true, w) in
  if negb okdir then (say (Err EVerifydir) w, RetEnd)
  else
    let w := say Ack w in
    let '(r, w) := do_stat cfg targ w in
    k (match r with Some KDir => true | _ => false end) w.

Definition with_buf (st : lstate) (b : list N) : lstate := mkl b (l_setimes st) (l_tv st) (l_cursize st).

Definition line_of (buf : list N) : bytes := match cstr_of buf with Some l => l | None => [] end.

(* need = strlen(targ) + strlen(cp) + 250; if (need > cursize) { namebuf = malloc(need); cursize = need; } *)
Definition new_cursize (targisdir : bool) (cursize : N) (targ nm : bytes) : N :=
  let need := nlen targ + nlen nm + NAME_SLACK in
  if targisdir && (cursize <? need) then need else cursize.

(* np: namebuf after the snprintf, or targ itself when the target is not a directory *)
Definition target_path (targisdir : bool) (cursize : N) (targ nm : bytes) : bytes :=
  if targisdir then snprintf_trunc cursize (join_name targ nm) else targ.

(* a D record whose name passed: np was stat'ed (ex).  nested = the recursive _sink(svr, np, bufp);
   cont = the rest of the while loop, given the new value of setimes *)
Definition handle_dir (cfg : config) (np : bytes) (mode : N) (ex : option kind) (setimes : bool) (tv : times)
  (nested : world -> world * ret) (cont : bool -> world -> world * ret) (w : world) : world * ret :=
  let '(go, w) :=
    match ex with
    | Some KFile => (false, w)                                                    (* errno = ENOTDIR; goto bad *)
    | Some KDir => (true, if c_preserve cfg then snd (do_chmod cfg np mode w) else w)
    | None => let '(ok, w) := do_mkdir cfg np mode w in
              (ok, if ok && c_preserve cfg && c_dirmode cfg then snd (do_chmod cfg np mode w) else w)
    end in
  if negb go then cont setimes (say (Err EBad) w)
  else
    match nested w with
    | (w, RetEnd) =>
      if setimes
      then let '(ok, w) := do_utimes cfg np tv w in
           cont false (if ok then w else say (Err EUtimes) w)
      else cont setimes w
    | other => other
    end.

(* a C record whose name passed *)
Definition handle_file (cfg : config) (np : bytes) (mode : N) (size : Z) (setimes : bool) (tv : times)
  (cont : bool -> world -> world * ret) (w : world) : world * ret :=
  match do_open cfg np mode w with
  | (None, w) => cont setimes (say (Err EBad) w)
  | (Some (p, existed), w) =>
    let w := if existed && c_preserve cfg then snd (on_fd OChmod p (fs_fchmod (w_fs w) p mode) w) else w in
    let w := say Ack w in
    match data_loop (S (length (w_in w))) (blk_cnt cfg) p size 0%Z [] 0 0 w with
    | DFault => (w, RetFault)
    | DFuel => (w, RetFuel)
    | DEof w => (say (Err EData) (logi Starved w), RetEnd)
    | DDone w =>
      let '(tok, w) := on_fd OTrunc p (fs_truncate (w_fs w) p size) w in
      let w := if tok then w else say (Err ETrunc) w in
      match w_in w with                                                           (* _response *)
      | [] => (say (Err EResp) (logi Starved w), RetEnd)
      | r :: inp =>
        let w := set_in w inp in
        if negb (r =? 0) then (say (Err EResp) w, RetEnd)
        else if setimes && tok
        then let '(ok, w) := do_utimes cfg np tv w in
             cont false (if ok then say Ack w else say (Err EUtimes) w)
        else cont setimes (if tok then say Ack w else w)
      end
    end
  end.

Fixpoint loop (fuel : nat) (cfg : config) (targ : bytes) (targisdir : bool) (st : lstate) (w : world)
  {struct fuel} : world * ret :=
  match fuel with
  | O => (w, RetFuel)
  | S f =>
    match read_line (l_buf st) (w_in w) with
    | RL_Fault => (w, RetFault)
    | RL_Eof => (logi Starved w, RetEnd)
    | RL_Newline inp => (say (Err (EScrewup 1)) (set_in w inp), RetEnd)
    | RL_Lost => (say (Err (EScrewup 2)) (logi Starved (set_in w [])), RetEnd)
    | RL_Line buf cp ch inp =>
      match buf_set buf cp 0 with                                     (* *cp = 0 *)
      | None => (w, RetFault)
      | Some buf1 =>
        match buf1 with
        | [] => (w, RetFault)
        | b0 :: _ =>
          match (if ch =? c_nl then buf_set buf1 (cp - 1) 0 else Some buf1) with   (* *--cp = 0 *)
          | None => (w, RetFault)
          | Some buf2 =>
            let w := logi (Line (line_of buf2)) (set_in w inp) in
            if b0 =? 1 then loop f cfg targ targisdir (with_buf st buf1) w
            else if b0 =? 2 then (w, RetEnd)
            else if b0 =? c_E then (say Ack w, RetEnd)
            else
              match parse_ctl buf2 with
              | PFault => (w, RetFault)
              | PScrew why => (say (Err (EScrewup why)) w, RetEnd)
              | POk (CTimes tv) => loop f cfg targ targisdir (mkl buf2 true tv (l_cursize st)) (say Ack w)
              | POk (CFile isdir mode size nm) =>
                if c_check cfg && negb (name_ok nm)
                then loop f cfg targ targisdir (mkl buf2 (l_setimes st) (l_tv st) (l_cursize st)) (say (Err EName) w)
                else
                  let cursize := new_cursize targisdir (l_cursize st) targ nm in
                  let np := target_path targisdir cursize targ nm in
                  let cont := fun se w' => loop f cfg targ targisdir (mkl buf2 se (l_tv st) cursize) w' in
                  let '(ex, w) := do_stat cfg np w in
                  if isdir
                  then handle_dir cfg np mode ex (l_setimes st) (l_tv st)
                                  (fun w' => enter cfg np w' (fun isd w'' => loop f cfg np isd st0 w'')) cont w
                  else handle_file cfg np mode size (l_setimes st) (l_tv st) cont w
              end
          end
        end
      end
    end
  end.

Definition w0 (fs : node) (stream : bytes) : world := mkw fs stream [].

(* pcp_server(): _sink(svr, svr->outfile, &buffer) *)
Definition sink (cfg : config) (fs : node) (stream : bytes) : world * ret :=
  enter cfg (c_dest cfg) (w0 fs stream)
        (fun isd w => loop (S (length stream)) cfg (c_dest cfg) isd st0 w).

(* projections used by the statements *)
Definition touched (w : world) : list path :=
  fold_right (fun it acc => match it with Touch _ p _ => p :: acc | _ => acc end) [] (w_log w).
Definition replies (w : world) : list reply :=
  fold_right (fun it acc => match it with Reply r => r :: acc | _ => acc end) [] (rev (w_log w)).

(* the replies written before the receiver first found its input exhausted: what a peer that has sent
   exactly this much can have seen *)
Fixpoint replies_until_starved (chron : list item) : list reply :=
  match chron with
  | [] => []
  | Starved :: _ => []
  | Reply r :: rest => r :: replies_until_starved rest
  | _ :: rest => replies_until_starved rest
  end.
Definition seen_replies (w : world) : list reply := replies_until_starved (rev (w_log w)).
