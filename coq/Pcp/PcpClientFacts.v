(* Facts about the sender model and about what the receiver makes of its records. *)
From PV Require Import Pcp.FsModel Pcp.PcpSink Pcp.PcpClient Pcp.PcpSinkFacts.
From PV Require Import Base.Decimal Base.DecimalFacts.
Local Open Scope N_scope.

(* "%04o" of a mode and the receiver's mode scanner are inverse on all 4096 modes (finite sweep) *)
Definition mode_rt (m : N) : bool :=
  match getmode 4 (oct4 m) 0 with POk (m', []) => m' =? m | _ => false end.

Fixpoint upto (n : nat) : list N := match n with O => [] | S k => N.of_nat k :: upto k end.

Lemma upto_in n m : m < N.of_nat n -> In m (upto n).
Proof.
  induction n as [|k IH]; intro H; [lia|]. cbn [upto].
  destruct (N.eq_dec m (N.of_nat k)); [left; auto|right; apply IH; lia].
Qed.

Lemma mode_rt_all : forallb mode_rt (upto 4096) = true.
Proof. vm_compute. reflexivity. Qed.

Lemma getmode_app : forall k ds r acc, length ds = k ->
  getmode k (ds ++ r) acc = match getmode k ds acc with POk (m, l) => POk (m, l ++ r) | PFault => PFault | PScrew w => PScrew w end.
Proof.
  induction k as [|k IH]; intros ds r acc Hl.
  - destruct ds; [reflexivity|discriminate].
  - destruct ds as [|c ds]; [discriminate|]. cbn [app getmode].
    destruct ((c <? 48) || (55 <? c)); [reflexivity|]. apply IH. cbn in Hl. lia.
Qed.

Lemma getmode_oct4 m r : m < 4096 -> getmode 4 (oct4 m ++ r) 0 = POk (m, r).
Proof.
  intro H. rewrite getmode_app by reflexivity.
  pose proof mode_rt_all as A. rewrite forallb_forall in A.
  specialize (A m (upto_in 4096 m H)). unfold mode_rt in A.
  destruct (getmode 4 (oct4 m) 0) as [| |[m' l]]; try discriminate.
  destruct l; [|discriminate]. apply N.eqb_eq in A. subst. reflexivity.
Qed.
