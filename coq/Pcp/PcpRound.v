(* C11_roundtrip: the receiver, fed what the sender writes for a tree, leaves a faithful copy of the
   tree in the target directory and answers every step with an acknowledgement. *)
From PV Require Import Pcp.FsModel Pcp.PcpSink Pcp.PcpClient Pcp.FsFacts Pcp.FsAlgebra Pcp.FsForward
  Pcp.PcpSinkFacts Pcp.PcpClientFacts Pcp.PcpRecords Pcp.PcpStep Pcp.PcpEncode Pcp.PcpConfined.
From PV Require Import Base.Decimal Base.DecimalFacts.
Local Open Scope N_scope.

(* ---- the transcript grew by acknowledgements and file-system calls only ---- *)
Definition clean_item (it : item) : Prop :=
  match it with Reply (Err _) => False | Starved => False | _ => True end.

Fixpoint count_acks (l : list item) : nat :=
  match l with [] => O | Reply Ack :: r => S (count_acks r) | _ :: r => count_acks r end.

Definition acked (w w' : world) (k : nat) : Prop :=
  exists delta, w_log w' = delta ++ w_log w /\ Forall clean_item delta /\ count_acks delta = k.

Lemma count_acks_app a b : count_acks (a ++ b) = (count_acks a + count_acks b)%nat.
Proof. induction a as [|[o p ok|[|k]|l|] a IH]; cbn [app count_acks]; auto. now rewrite IH. Qed.

Lemma acked_refl w : acked w w 0.
Proof. exists []. repeat split; constructor. Qed.

Lemma acked_trans a b c k1 k2 : acked a b k1 -> acked b c k2 -> acked a c (k1 + k2).
Proof.
  intros (d1 & E1 & F1 & C1) (d2 & E2 & F2 & C2). exists (d2 ++ d1). repeat split.
  - rewrite E2, E1. now rewrite app_assoc.
  - apply Forall_app; auto.
  - rewrite count_acks_app. lia.
Qed.

Lemma acked_log w w' it k : clean_item it -> acked w w' k -> acked w (logi it w') (k + count_acks [it]).
Proof.
  intros Hc (d & E & F & C). exists (it :: d). repeat split.
  - cbn. now rewrite E.
  - constructor; auto.
  - change (it :: d) with ([it] ++ d). rewrite count_acks_app. lia.
Qed.

Lemma acked_ack w w' k : acked w w' k -> acked w (say Ack w') (S k).
Proof. intro H. replace (S k) with (k + count_acks [Reply Ack])%nat by (cbn; lia). apply acked_log; [exact I|exact H]. Qed.

Lemma acked_quiet_item w w' it k : (match it with Touch _ _ _ | Line _ => True | _ => False end) -> acked w w' k -> acked w (logi it w') k.
Proof.
  intros Hq H. replace k with (k + count_acks [it])%nat by (destruct it; try contradiction; cbn; lia).
  apply acked_log; auto. destruct it; try contradiction; exact I.
Qed.

Lemma acked_set_in w w' i k : acked w w' k -> acked w (set_in w' i) k.
Proof. auto. Qed.
Lemma acked_set_fs w w' f k : acked w w' k -> acked w (set_fs w' f) k.
Proof. auto. Qed.
Lemma acked_touch w w' o p ok k : acked w w' k -> acked w (touch o p ok w') k.
Proof. intro H. destruct p as [q|]; [|exact H]. unfold touch. apply acked_quiet_item; [exact I|exact H]. Qed.

Lemma quiet_acked w w' : quiet w w' -> acked w w' 0.
Proof.
  intros (d & E & F). exists d. repeat split; auto.
  - eapply Forall_impl; [|exact F]. intros [ | | |]; cbn; tauto.
  - clear E. induction d as [|it d IH]; [reflexivity|]. inversion F; subst. destruct it; try contradiction. cbn. auto.
Qed.

(* the replies of a run whose transcript is clean *)
Lemma replies_clean : forall d, Forall clean_item d ->
  fold_right (fun it acc => match it with Reply r => r :: acc | _ => acc end) [] d = repeat Ack (count_acks d).
Proof.
  induction d as [|it d IH]; intro H; [reflexivity|]. inversion H; subst.
  destruct it as [o p ok|[|k]|l|]; cbn [fold_right count_acks repeat]; try contradiction; rewrite ?IH; auto.
Qed.

Lemma count_acks_rev d : count_acks (rev d) = count_acks d.
Proof. induction d as [|it d IH]; [reflexivity|]. cbn [rev]. rewrite count_acks_app, IH. change (it :: d) with ([it] ++ d). rewrite count_acks_app. lia. Qed.

Lemma acked_replies w fs inp k : acked (mkw fs inp []) w k -> replies w = repeat Ack k.
Proof.
  intros (d & E & F & C). unfold replies. cbn in E. rewrite app_nil_r in E. rewrite E.
  rewrite replies_clean by (apply Forall_rev; exact F). now rewrite count_acks_rev, C.
Qed.

Lemma resize_self d : resize d (length d) = d.
Proof. unfold resize. rewrite firstn_all, Nat.sub_diag. cbn. apply app_nil_r. Qed.

Section Round.
Variable cfg : config.
Notation cwd := (c_cwd cfg).
Notation pres := (c_preserve cfg).
Notation um := (eff_umask cfg).

(* ---- single calls ---- *)
Lemma rpath_ok fs s p t : resolve fs cwd s = ROk p t -> rpath fs cwd s = Some p.
Proof. intro H. unfold rpath. now rewrite H. Qed.

Lemma do_stat_fresh s w p t :
  resolve (w_fs w) cwd s = ROk p t -> lookup (w_fs w) p = None ->
  do_stat cfg s w = (None, logi (Touch OStat p false) w).
Proof. intros Hr Hl. unfold do_stat. rewrite (fs_stat_fresh _ _ _ _ _ Hr Hl), (rpath_ok _ _ _ _ Hr). reflexivity. Qed.

Lemma do_stat_dir s w p t m mt e :
  resolve (w_fs w) cwd s = ROk p t -> lookup (w_fs w) p = Some (Dir m mt e) ->
  do_stat cfg s w = (Some KDir, logi (Touch OStat p true) w).
Proof. intros Hr Hl. unfold do_stat. rewrite (fs_stat_dir _ _ _ _ _ _ _ _ Hr Hl), (rpath_ok _ _ _ _ Hr). reflexivity. Qed.

Lemma do_mkdir_fresh s w q c t mode pm pt pe :
  resolve (w_fs w) cwd s = ROk (q ++ [c]) t -> lookup (w_fs w) q = Some (Dir pm pt pe) -> assoc c pe = None ->
  exists fs', set_at (w_fs w) (q ++ [c]) (Dir (mkdir_mode mode um pm) None []) = Some fs' /\
              do_mkdir cfg s mode w = (true, logi (Touch OMkdir (q ++ [c]) true) (set_fs w fs')).
Proof.
  intros Hr Hq Ha. destruct (fs_mkdir_fresh _ _ _ _ _ _ mode um _ _ _ Hr Hq Ha) as (fs' & E & Hs).
  exists fs'. split; [exact Hs|]. unfold do_mkdir. rewrite E. reflexivity.
Qed.

Lemma do_chmod_dir s w p t m mt e mode :
  resolve (w_fs w) cwd s = ROk p t -> lookup (w_fs w) p = Some (Dir m mt e) ->
  exists fs', set_at (w_fs w) p (Dir mode mt e) = Some fs' /\
              do_chmod cfg s mode w = (true, logi (Touch OChmod p true) (set_fs w fs')).
Proof.
  intros Hr Hl. destruct (fs_chmod_dir _ _ _ _ _ _ _ _ mode Hr Hl) as (fs' & E & Hs).
  exists fs'. split; [exact Hs|]. unfold do_chmod. rewrite E. reflexivity.
Qed.

Lemma do_utimes_node s w p t n ms :
  resolve (w_fs w) cwd s = ROk p t -> lookup (w_fs w) p = Some n -> (t = true -> is_dir (w_fs w) p = true) ->
  exists fs', set_at (w_fs w) p (set_mtime n (Some ms)) = Some fs' /\
              do_utimes cfg s (mkt ms 0 ms 0) w = (true, logi (Touch OUtimes p true) (set_fs w fs')).
Proof.
  intros Hr Hl Ht. destruct (fs_utimes_node _ _ _ _ _ _ ms Hr Hl Ht) as (fs' & E & Hs).
  exists fs'. split; [exact Hs|]. unfold do_utimes. cbn [t_msec t_musec t_ausec]. rewrite E. reflexivity.
Qed.

Lemma do_open_fresh s w q c mode pm pt pe :
  resolve (w_fs w) cwd s = ROk (q ++ [c]) false -> lookup (w_fs w) q = Some (Dir pm pt pe) -> assoc c pe = None ->
  exists fs', set_at (w_fs w) (q ++ [c]) (File (create_mode mode um) None []) = Some fs' /\
              do_open cfg s mode w = (Some (q ++ [c], false), logi (Touch OOpen (q ++ [c]) true) (set_fs w fs')).
Proof.
  intros Hr Hq Ha. destruct (fs_open_fresh _ _ _ _ _ mode um _ _ _ Hr Hq Ha) as (fs' & E & Hs).
  exists fs'. split; [exact Hs|]. unfold do_open. rewrite E. reflexivity.
Qed.

(* ---- a C record for a new entry of directory q ---- *)
Lemma handle_file_new np mode se ms cont w q c pm pt pe d rest :
  resolve (w_fs w) cwd np = ROk (q ++ [c]) false -> lookup (w_fs w) q = Some (Dir pm pt pe) -> assoc c pe = None ->
  w_in w = d ++ 0 :: rest ->
  exists w' fs',
    handle_file cfg np mode (Z.of_nat (length d)) se (mkt ms 0 ms 0) cont w = cont false w' /\
    w_in w' = rest /\ w_fs w' = fs' /\
    set_at (w_fs w) (q ++ [c]) (File (create_mode mode um) (if se then Some ms else None) d) = Some fs' /\
    acked w w' 2.
Proof.
  intros Hr Hq Ha Hin.
  destruct (do_open_fresh np w q c mode pm pt pe Hr Hq Ha) as (fs1 & Hs1 & Eo).
  unfold handle_file. rewrite Eo. cbn [andb].
  set (w1 := say Ack (logi (Touch OOpen (q ++ [c]) true) (set_fs w fs1))).
  assert (Hl1 : lookup (w_fs w1) (q ++ [c]) = Some (File (create_mode mode um) None (overlay [] []))) by (cbn; apply (lookup_set_at _ _ _ _ Hs1)).
  pose proof (blk_cnt_ok cfg) as [Hdv Hpos].
  destruct (data_loop_exact (S (length (w_in w1))) (blk_cnt cfg) (q ++ [c]) (Z.of_nat (length d)) 0%Z [] 0 0 w1 d (0 :: rest)
              (create_mode mode um) None [] []) as (w2 & t2 & Ed & Hin2 & Hl2 & Hsb & Hq2); auto.
  - cbn. rewrite Hin, app_length. lia.
  - intro Hlt. repeat split; [lia|apply N.divide_0_r|exact Hpos].
  - intro Hge. apply length_zero_iff_nil. lia.
  - rewrite Ed. cbn [app] in Hl2.
    replace (overlay d []) with d in Hl2 by (unfold overlay; now rewrite skipn_nil, app_nil_r).
    destruct (fs_truncate_file (w_fs w2) (q ++ [c]) _ _ _ (Z.of_nat (length d)) Hl2 ltac:(lia)) as (fs3 & Et & Hs3).
    unfold on_fd at 1. unfold apply_op. rewrite Et. cbn [touch].
    rewrite Nat2Z.id in Hs3.
    rewrite resize_self in Hs3.
    set (w3 := logi (Touch OTrunc (q ++ [c]) true) (set_fs w2 fs3)).
    assert (Hin3 : w_in w3 = 0 :: rest) by (cbn; exact Hin2).
    rewrite Hin3. cbn [N.eqb negb andb].
    (* everything written so far collapses into one update of the new entry *)
    assert (Hfs3 : set_at (w_fs w) (q ++ [c]) (File (create_mode mode um) None d) = Some fs3).
    { rewrite <- Hs3. rewrite (Hsb _). cbn [w_fs w1 say logi set_fs]. symmetry. apply (set_at_twice _ _ _ _ _ Hs1). }
    assert (Hack3 : acked w (set_in w3 rest) 1).
    { apply acked_set_in. unfold w3. apply acked_quiet_item; [exact I|]. apply acked_set_fs.
      replace 1%nat with (1 + 0)%nat by lia. eapply acked_trans; [|apply quiet_acked; exact Hq2].
      unfold w1. apply acked_ack. apply acked_quiet_item; [exact I|]. apply acked_set_fs. apply acked_refl. }
    destruct se.
    + (* times were announced: utimes, then the acknowledgement *)
      assert (Hr3 : resolve (w_fs (set_in w3 rest)) cwd np = ROk (q ++ [c]) false).
      { cbn [w_fs set_in w3 logi set_fs]. eapply resolve_ext; [|exact Hr].
        eapply set_at_ext; [exact Hfs3|]. rewrite lookup_app, Hq. cbn [lookup]. now rewrite Ha. }
      destruct (do_utimes_node np (set_in w3 rest) (q ++ [c]) false (File (create_mode mode um) None d) ms Hr3) as (fs4 & Hs4 & Eu).
      { cbn. apply (lookup_set_at _ _ _ _ Hs3). }
      { discriminate. }
      rewrite Eu. cbn [set_mtime] in Hs4.
      eexists _, fs4. split; [reflexivity|].
      cbn [w_in w_fs say logi set_fs set_in]. repeat split; auto.
      * rewrite <- Hs4. cbn [w_fs set_in w3 logi set_fs]. symmetry. apply (set_at_twice _ _ _ _ _ Hfs3).
      * apply acked_ack. apply acked_quiet_item; [exact I|]. apply acked_set_fs. exact Hack3.
    + eexists _, fs3. split; [reflexivity|].
      cbn [w_in w_fs say logi set_fs set_in]. repeat split; auto.
      apply acked_ack. exact Hack3.
Qed.

(* ---- what the copy of a tree looks like when it is created from scratch ---- *)
Definition dmode (m pm : N) : N :=
  if pres && c_dirmode cfg then N.land m 4095 else mkdir_mode (N.land m 4095) um pm.

Fixpoint copy_of (pm : N) (n : node) : node :=
  match n with
  | File m _ d => File (create_mode (N.land m 4095) um) (if pres then Some (node_mtime n) else None) d
  | Dir m _ ents =>
    Dir (dmode m pm) (if pres then Some (node_mtime n) else None)
        ((fix go (l : list (name * node)) : list (name * node) :=
            match l with [] => [] | (k, v) :: r => (k, copy_of (dmode m pm) v) :: go r end) ents)
  end.

Definition copy_list (pm : N) (l : list (name * node)) : list (name * node) :=
  (fix go (l : list (name * node)) : list (name * node) :=
     match l with [] => [] | (k, v) :: r => (k, copy_of pm v) :: go r end) l.

Lemma copy_of_dir pm m t ents :
  copy_of pm (Dir m t ents) = Dir (dmode m pm) (if pres then Some (node_mtime (Dir m t ents)) else None) (copy_list (dmode m pm) ents).
Proof. reflexivity. Qed.

Lemma copy_list_cons pm k v r : copy_list pm ((k, v) :: r) = (k, copy_of pm v) :: copy_list pm r.
Proof. reflexivity. Qed.

(* ---- the sources the theorem speaks about ---- *)
Definition TMAX : Z := 9223372036854775808.

Fixpoint wf_src (n : node) : Prop :=
  (pres = true -> (0 <= node_mtime n < TMAX)%Z) /\
  match n with
  | File _ _ d => N.of_nat (length d) < 9223372036854775808
  | Dir _ _ ents =>
    names_distinct ents /\
    (fix all (l : list (name * node)) : Prop :=
       match l with [] => True | (k, v) :: r => good_name k /\ wf_src v /\ all r end) ents
  end.

Fixpoint wf_src_list (l : list (name * node)) : Prop :=
  match l with [] => True | (k, v) :: r => good_name k /\ wf_src v /\ wf_src_list r end.

Lemma wf_src_dir m t ents :
  wf_src (Dir m t ents) <->
  (pres = true -> (0 <= node_mtime (Dir m t ents) < TMAX)%Z) /\ names_distinct ents /\ wf_src_list ents.
Proof.
  split.
  - intros (A & B & C). split; [exact A|]. split; [exact B|]. clear A B.
    induction ents as [|[k v] r IH]; [exact I|]. destruct C as (C1 & C2 & C3). cbn [wf_src_list]. auto.
  - intros (A & B & C). cbn [wf_src]. split; [exact A|]. split; [exact B|]. clear A B.
    induction ents as [|[k v] r IH]; [exact I|]. cbn [wf_src_list] in C. destruct C as (C1 & C2 & C3). split; [exact C1|]. split; [exact C2|]. apply IH; exact C3.
Qed.

(* every path name the receiver builds below a string of length `used` stays under PATH_MAX *)
Fixpoint fits (used : nat) (n : node) : Prop :=
  match n with
  | File _ _ _ => True
  | Dir _ _ ents =>
    (fix all (l : list (name * node)) : Prop :=
       match l with
       | [] => True
       | (k, v) :: r => (used + 1 + length k < PATH_MAX)%nat /\ fits (used + 1 + length k) v /\ all r
       end) ents
  end.

Fixpoint fits_list (used : nat) (l : list (name * node)) : Prop :=
  match l with
  | [] => True
  | (k, v) :: r => (used + 1 + length k < PATH_MAX)%nat /\ fits (used + 1 + length k) v /\ fits_list used r
  end.

Lemma fits_dir used m t ents : fits used (Dir m t ents) <-> fits_list used ents.
Proof.
  cbn [fits]. induction ents as [|[k v] r IH]; [tauto|].
  cbn [fits_list]. split; intros (A & B & C); repeat split; auto; apply IH; exact C.
Qed.

(* -y: the destination given on the command line is (still) a directory *)
Definition ydir_ok (fs : node) : Prop :=
  c_ydir cfg = true -> exists p t m mt e, resolve fs cwd (c_dest cfg) = ROk p t /\ lookup fs p = Some (Dir m mt e).

Lemma ydir_ok_ext a b : ext a b -> ydir_ok a -> ydir_ok b.
Proof.
  intros He H Hy. destruct (H Hy) as (p & t & m & mt & e & Hr & Hl).
  assert (Hd : is_dir b p = true) by (apply He; unfold is_dir; now rewrite Hl).
  apply is_dir_lookup in Hd. destruct Hd as (m' & mt' & e' & Hl').
  exists p, t, m', mt', e'. split; [eapply resolve_ext; eauto|exact Hl'].
Qed.

Lemma set_at_ext_new fs p X fs' : set_at fs p X = Some fs' -> lookup fs p = None -> ext fs fs'.
Proof. intros Hs Hl. eapply set_at_ext; [exact Hs|]. now rewrite Hl. Qed.

(* ---- entering a directory that exists ---- *)
Lemma enter_dir np w k p t m mt e :
  ydir_ok (w_fs w) -> resolve (w_fs w) cwd np = ROk p t -> lookup (w_fs w) p = Some (Dir m mt e) ->
  exists w1, enter cfg np w k = k true w1 /\ w_in w1 = w_in w /\ w_fs w1 = w_fs w /\ acked w w1 1.
Proof.
  intros Hy Hr Hl. unfold enter.
  destruct (c_ydir cfg) eqn:Ey.
  - destruct (Hy Ey) as (pd & td & md & mtd & ed & Hrd & Hld).
    rewrite (do_stat_dir _ _ _ _ _ _ _ Hrd Hld). cbn [negb].
    set (w0 := say Ack (logi (Touch OStat pd true) w)).
    rewrite (do_stat_dir np w0 p t m mt e) by (cbn; assumption).
    eexists. split; [reflexivity|]. cbn. repeat split; auto.
    apply acked_quiet_item; [exact I|]. apply acked_ack. apply acked_quiet_item; [exact I|]. apply acked_refl.
  - cbn [negb]. set (w0 := say Ack w).
    rewrite (do_stat_dir np w0 p t m mt e) by (cbn; assumption).
    eexists. split; [reflexivity|]. cbn. repeat split; auto.
    apply acked_quiet_item; [exact I|]. apply acked_ack. apply acked_refl.
Qed.

(* ---- lines ---- *)
Lemma line_fits : 400 < LINEMAX.
Proof. reflexivity. Qed.

Lemma ndigits_bound n : n < 9223372036854775808 -> (length (digits n) <= 19)%nat.
Proof.
  intro H. rewrite digits_length. apply ndigits_le_pow; [|lia].
  eapply N.lt_le_trans; [exact H|]. apply N.leb_le. vm_compute. reflexivity.
Qed.

Lemma digits_no c n : is_digit c = false -> ~ In c (digits n).
Proof.
  intros Hc Hin. pose proof (digits_all_digit n) as A. rewrite forallb_forall in A.
  rewrite (A _ Hin) in Hc. discriminate.
Qed.

Lemma oct4_no c m : is_digit c = false -> ~ In c (oct4 m).
Proof.
  intros Hc Hin. unfold oct4 in Hin. cbn [In] in Hin.
  assert (forall x, x < 8 -> is_digit (48 + x) = true) as Hd by (intros x Hx; unfold is_digit; apply andb_true_iff; split; apply N.leb_le; lia).
  destruct Hin as [E|[E|[E|[E|[]]]]]; subst c;
    rewrite Hd in Hc; try discriminate; apply N.mod_lt; discriminate.
Qed.

End Round.
