(* C11_roundtrip: the receiver, fed what the sender writes for a tree, leaves a faithful copy of the
   tree in the target directory and answers every step with an acknowledgement. *)
From PV Require Import Pcp.FsModel Pcp.PcpSink Pcp.PcpClient Pcp.FsFacts Pcp.FsAlgebra Pcp.FsForward
  Pcp.PcpSinkFacts Pcp.PcpClientFacts Pcp.PcpRecords Pcp.PcpStep Pcp.PcpEncode Pcp.PcpConfined.
From PV Require Import Base.Decimal Base.DecimalFacts.
Local Open Scope N_scope.

(* ---- the transcript grew by acknowledgements and file-system calls only ---- *)
Definition clean_item (it : item) : Prop :=
  match it with Reply (Err _) => False | Starved => False | _ => True end.

Fixpoint count_acks (l : list item) : nat :=
  match l with [] => O | Reply Ack :: r => S (count_acks r) | _ :: r => count_acks r end.

Definition acked (w w' : world) (k : nat) : Prop :=
  exists delta, w_log w' = delta ++ w_log w /\ Forall clean_item delta /\ count_acks delta = k.

Lemma count_acks_app a b : count_acks (a ++ b) = (count_acks a + count_acks b)%nat.
Proof. induction a as [|[o p ok|[|k]|l|] a IH]; cbn [app count_acks]; auto. now rewrite IH. Qed.

Lemma acked_eq w w' k k' : acked w w' k -> k = k' -> acked w w' k'.
Proof. intros H <-. exact H. Qed.

Lemma acked_refl w : acked w w 0.
Proof. exists []. repeat split; constructor. Qed.

Lemma acked_trans a b c k1 k2 : acked a b k1 -> acked b c k2 -> acked a c (k1 + k2).
Proof.
  intros (d1 & E1 & F1 & C1) (d2 & E2 & F2 & C2). exists (d2 ++ d1). repeat split.
  - rewrite E2, E1. now rewrite app_assoc.
  - apply Forall_app; auto.
  - rewrite count_acks_app. lia.
Qed.

Lemma acked_log w w' it k : clean_item it -> acked w w' k -> acked w (logi it w') (k + count_acks [it]).
Proof.
  intros Hc (d & E & F & C). exists (it :: d). repeat split.
  - cbn. now rewrite E.
  - constructor; auto.
  - change (it :: d) with ([it] ++ d). rewrite count_acks_app. lia.
Qed.

Lemma acked_ack w w' k : acked w w' k -> acked w (say Ack w') (S k).
Proof. intro H. replace (S k) with (k + count_acks [Reply Ack])%nat by (cbn; lia). apply acked_log; [exact I|exact H]. Qed.

Lemma acked_quiet_item w w' it k : (match it with Touch _ _ _ | Line _ => True | _ => False end) -> acked w w' k -> acked w (logi it w') k.
Proof.
  intros Hq H. replace k with (k + count_acks [it])%nat by (destruct it; try contradiction; cbn; lia).
  apply acked_log; auto. destruct it; try contradiction; exact I.
Qed.

Lemma acked_set_in w w' i k : acked w w' k -> acked w (set_in w' i) k.
Proof. auto. Qed.
Lemma acked_set_fs w w' f k : acked w w' k -> acked w (set_fs w' f) k.
Proof. auto. Qed.
Lemma acked_touch w w' o p ok k : acked w w' k -> acked w (touch o p ok w') k.
Proof. intro H. destruct p as [q|]; [|exact H]. unfold touch. apply acked_quiet_item; [exact I|exact H]. Qed.

Lemma quiet_acked w w' : quiet w w' -> acked w w' 0.
Proof.
  intros (d & E & F). exists d. repeat split; auto.
  - eapply Forall_impl; [|exact F]. intros [ | | |]; cbn; tauto.
  - clear E. induction d as [|it d IH]; [reflexivity|]. inversion F; subst. destruct it; try contradiction. cbn. auto.
Qed.

(* the replies of a run whose transcript is clean *)
Lemma replies_clean : forall d, Forall clean_item d ->
  fold_right (fun it acc => match it with Reply r => r :: acc | _ => acc end) [] d = repeat Ack (count_acks d).
Proof.
  induction d as [|it d IH]; intro H; [reflexivity|]. inversion H; subst.
  destruct it as [o p ok|[|k]|l|]; cbn [fold_right count_acks repeat]; try contradiction; rewrite ?IH; auto.
Qed.

Lemma count_acks_rev d : count_acks (rev d) = count_acks d.
Proof. induction d as [|it d IH]; [reflexivity|]. cbn [rev]. rewrite count_acks_app, IH. change (it :: d) with ([it] ++ d). rewrite count_acks_app. lia. Qed.

Lemma acked_replies w fs inp k : acked (mkw fs inp []) w k -> replies w = repeat Ack k.
Proof.
  intros (d & E & F & C). unfold replies. cbn in E. rewrite app_nil_r in E. rewrite E.
  rewrite replies_clean by (apply Forall_rev; exact F). now rewrite count_acks_rev, C.
Qed.

Lemma resize_self d : resize d (length d) = d.
Proof. unfold resize. rewrite firstn_all, Nat.sub_diag. cbn. apply app_nil_r. Qed.

Section Round.
Variable cfg : config.
Notation cwd := (c_cwd cfg).
Notation pres := (c_preserve cfg).
Notation um := (eff_umask cfg).

(* ---- single calls ---- *)
Lemma rpath_ok fs s p t : resolve fs cwd s = ROk p t -> rpath fs cwd s = Some p.
Proof. intro H. unfold rpath. now rewrite H. Qed.

Lemma do_stat_fresh s w p t :
  resolve (w_fs w) cwd s = ROk p t -> lookup (w_fs w) p = None ->
  do_stat cfg s w = (None, logi (Touch OStat p false) w).
Proof. intros Hr Hl. unfold do_stat. rewrite (fs_stat_fresh _ _ _ _ _ Hr Hl), (rpath_ok _ _ _ _ Hr). reflexivity. Qed.

Lemma do_stat_dir s w p t m mt e :
  resolve (w_fs w) cwd s = ROk p t -> lookup (w_fs w) p = Some (Dir m mt e) ->
  do_stat cfg s w = (Some KDir, logi (Touch OStat p true) w).
Proof. intros Hr Hl. unfold do_stat. rewrite (fs_stat_dir _ _ _ _ _ _ _ _ Hr Hl), (rpath_ok _ _ _ _ Hr). reflexivity. Qed.

Lemma do_mkdir_fresh s w q c t mode pm pt pe :
  resolve (w_fs w) cwd s = ROk (q ++ [c]) t -> lookup (w_fs w) q = Some (Dir pm pt pe) -> assoc c pe = None ->
  exists fs', set_at (w_fs w) (q ++ [c]) (Dir (mkdir_mode mode um pm) None []) = Some fs' /\
              do_mkdir cfg s mode w = (true, logi (Touch OMkdir (q ++ [c]) true) (set_fs w fs')).
Proof.
  intros Hr Hq Ha. destruct (fs_mkdir_fresh _ _ _ _ _ _ mode um _ _ _ Hr Hq Ha) as (fs' & E & Hs).
  exists fs'. split; [exact Hs|]. unfold do_mkdir. rewrite E. reflexivity.
Qed.

Lemma do_chmod_dir s w p t m mt e mode :
  resolve (w_fs w) cwd s = ROk p t -> lookup (w_fs w) p = Some (Dir m mt e) ->
  exists fs', set_at (w_fs w) p (Dir mode mt e) = Some fs' /\
              do_chmod cfg s mode w = (true, logi (Touch OChmod p true) (set_fs w fs')).
Proof.
  intros Hr Hl. destruct (fs_chmod_dir _ _ _ _ _ _ _ _ mode Hr Hl) as (fs' & E & Hs).
  exists fs'. split; [exact Hs|]. unfold do_chmod. rewrite E. reflexivity.
Qed.

Lemma do_utimes_node s w p t n ms :
  resolve (w_fs w) cwd s = ROk p t -> lookup (w_fs w) p = Some n -> (t = true -> is_dir (w_fs w) p = true) ->
  exists fs', set_at (w_fs w) p (set_mtime n (Some ms)) = Some fs' /\
              do_utimes cfg s (mkt ms 0 ms 0) w = (true, logi (Touch OUtimes p true) (set_fs w fs')).
Proof.
  intros Hr Hl Ht. destruct (fs_utimes_node _ _ _ _ _ _ ms Hr Hl Ht) as (fs' & E & Hs).
  exists fs'. split; [exact Hs|]. unfold do_utimes. cbn [t_msec t_musec t_ausec]. rewrite E. reflexivity.
Qed.

Lemma do_open_fresh s w q c mode pm pt pe :
  resolve (w_fs w) cwd s = ROk (q ++ [c]) false -> lookup (w_fs w) q = Some (Dir pm pt pe) -> assoc c pe = None ->
  exists fs', set_at (w_fs w) (q ++ [c]) (File (create_mode mode um) None []) = Some fs' /\
              do_open cfg s mode w = (Some (q ++ [c], false), logi (Touch OOpen (q ++ [c]) true) (set_fs w fs')).
Proof.
  intros Hr Hq Ha. destruct (fs_open_fresh _ _ _ _ _ mode um _ _ _ Hr Hq Ha) as (fs' & E & Hs).
  exists fs'. split; [exact Hs|]. unfold do_open. rewrite E. reflexivity.
Qed.

(* ---- a C record for a new entry of directory q ---- *)
Lemma handle_file_new np mode se ms cont w q c pm pt pe d rest :
  resolve (w_fs w) cwd np = ROk (q ++ [c]) false -> lookup (w_fs w) q = Some (Dir pm pt pe) -> assoc c pe = None ->
  w_in w = d ++ 0 :: rest ->
  exists w' fs',
    handle_file cfg np mode (Z.of_nat (length d)) se (mkt ms 0 ms 0) cont w = cont false w' /\
    w_in w' = rest /\ w_fs w' = fs' /\
    set_at (w_fs w) (q ++ [c]) (File (create_mode mode um) (if se then Some ms else None) d) = Some fs' /\
    acked w w' 2.
Proof.
  intros Hr Hq Ha Hin.
  destruct (do_open_fresh np w q c mode pm pt pe Hr Hq Ha) as (fs1 & Hs1 & Eo).
  unfold handle_file. rewrite Eo. cbn [andb].
  set (w1 := say Ack (logi (Touch OOpen (q ++ [c]) true) (set_fs w fs1))).
  assert (Hl1 : lookup (w_fs w1) (q ++ [c]) = Some (File (create_mode mode um) None (overlay [] []))) by (cbn; apply (lookup_set_at _ _ _ _ Hs1)).
  pose proof (blk_cnt_ok cfg) as [Hdv Hpos].
  destruct (data_loop_exact (S (length (w_in w1))) (blk_cnt cfg) (q ++ [c]) (Z.of_nat (length d)) 0%Z [] 0 0 w1 d (0 :: rest)
              (create_mode mode um) None [] []) as (w2 & t2 & Ed & Hin2 & Hl2 & Hsb & Hq2); auto.
  - cbn. rewrite Hin, app_length. lia.
  - intro Hlt. repeat split; [lia|apply N.divide_0_r|exact Hpos].
  - intro Hge. apply length_zero_iff_nil. lia.
  - rewrite Ed. cbn [app] in Hl2.
    replace (overlay d []) with d in Hl2 by (unfold overlay; now rewrite skipn_nil, app_nil_r).
    destruct (fs_truncate_file (w_fs w2) (q ++ [c]) _ _ _ (Z.of_nat (length d)) Hl2 ltac:(lia)) as (fs3 & Et & Hs3).
    unfold on_fd at 1. unfold apply_op. rewrite Et. cbn [touch].
    rewrite Nat2Z.id in Hs3.
    rewrite resize_self in Hs3.
    set (w3 := logi (Touch OTrunc (q ++ [c]) true) (set_fs w2 fs3)).
    assert (Hin3 : w_in w3 = 0 :: rest) by (cbn; exact Hin2).
    rewrite Hin3. cbn [N.eqb negb andb].
    (* everything written so far collapses into one update of the new entry *)
    assert (Hfs3 : set_at (w_fs w) (q ++ [c]) (File (create_mode mode um) None d) = Some fs3).
    { rewrite <- Hs3. rewrite (Hsb _). cbn [w_fs w1 say logi set_fs]. symmetry. apply (set_at_twice _ _ _ _ _ Hs1). }
    assert (Hack3 : acked w (set_in w3 rest) 1).
    { apply acked_set_in. unfold w3. apply acked_quiet_item; [exact I|]. apply acked_set_fs.
      replace 1%nat with (1 + 0)%nat by lia. eapply acked_trans; [|apply quiet_acked; exact Hq2].
      unfold w1. apply acked_ack. apply acked_quiet_item; [exact I|]. apply acked_set_fs. apply acked_refl. }
    destruct se.
    + (* times were announced: utimes, then the acknowledgement *)
      assert (Hr3 : resolve (w_fs (set_in w3 rest)) cwd np = ROk (q ++ [c]) false).
      { cbn [w_fs set_in w3 logi set_fs]. eapply resolve_ext; [|exact Hr].
        eapply set_at_ext; [exact Hfs3|]. rewrite lookup_app, Hq. cbn [lookup]. now rewrite Ha. }
      destruct (do_utimes_node np (set_in w3 rest) (q ++ [c]) false (File (create_mode mode um) None d) ms Hr3) as (fs4 & Hs4 & Eu).
      { cbn. apply (lookup_set_at _ _ _ _ Hs3). }
      { discriminate. }
      rewrite Eu. cbn [set_mtime] in Hs4.
      eexists _, fs4. split; [reflexivity|].
      cbn [w_in w_fs say logi set_fs set_in]. repeat split; auto.
      * rewrite <- Hs4. cbn [w_fs set_in w3 logi set_fs]. symmetry. apply (set_at_twice _ _ _ _ _ Hfs3).
      * apply acked_ack. apply acked_quiet_item; [exact I|]. apply acked_set_fs. exact Hack3.
    + eexists _, fs3. split; [reflexivity|].
      cbn [w_in w_fs say logi set_fs set_in]. repeat split; auto.
      apply acked_ack. exact Hack3.
Qed.

(* ---- what the copy of a tree looks like when it is created from scratch ---- *)
Definition dmode (m pm : N) : N :=
  if pres && c_dirmode cfg then N.land m 4095 else mkdir_mode (N.land m 4095) um pm.

Fixpoint copy_of (pm : N) (n : node) : node :=
  match n with
  | File m _ d => File (create_mode (N.land m 4095) um) (if pres then Some (node_mtime n) else None) d
  | Dir m _ ents =>
    Dir (dmode m pm) (if pres then Some (node_mtime n) else None)
        ((fix go (l : list (name * node)) : list (name * node) :=
            match l with [] => [] | (k, v) :: r => (k, copy_of (dmode m pm) v) :: go r end) ents)
  end.

Definition copy_list (pm : N) (l : list (name * node)) : list (name * node) :=
  (fix go (l : list (name * node)) : list (name * node) :=
     match l with [] => [] | (k, v) :: r => (k, copy_of pm v) :: go r end) l.

Lemma copy_of_dir pm m t ents :
  copy_of pm (Dir m t ents) = Dir (dmode m pm) (if pres then Some (node_mtime (Dir m t ents)) else None) (copy_list (dmode m pm) ents).
Proof. reflexivity. Qed.

Lemma copy_list_cons pm k v r : copy_list pm ((k, v) :: r) = (k, copy_of pm v) :: copy_list pm r.
Proof. reflexivity. Qed.

(* ---- the sources the theorem speaks about ---- *)
Definition TMAX : Z := 9223372036854775808.

Fixpoint wf_src (n : node) : Prop :=
  (pres = true -> (0 <= node_mtime n < TMAX)%Z) /\
  match n with
  | File _ _ d => N.of_nat (length d) < 9223372036854775808
  | Dir _ _ ents =>
    names_distinct ents /\
    (fix all (l : list (name * node)) : Prop :=
       match l with [] => True | (k, v) :: r => good_name k /\ wf_src v /\ all r end) ents
  end.

Fixpoint wf_src_list (l : list (name * node)) : Prop :=
  match l with [] => True | (k, v) :: r => good_name k /\ wf_src v /\ wf_src_list r end.

Lemma wf_src_dir m t ents :
  wf_src (Dir m t ents) <->
  (pres = true -> (0 <= node_mtime (Dir m t ents) < TMAX)%Z) /\ names_distinct ents /\ wf_src_list ents.
Proof.
  split.
  - intros (A & B & C). split; [exact A|]. split; [exact B|]. clear A B.
    induction ents as [|[k v] r IH]; [exact I|]. destruct C as (C1 & C2 & C3). cbn [wf_src_list]. auto.
  - intros (A & B & C). cbn [wf_src]. split; [exact A|]. split; [exact B|]. clear A B.
    induction ents as [|[k v] r IH]; [exact I|]. cbn [wf_src_list] in C. destruct C as (C1 & C2 & C3). split; [exact C1|]. split; [exact C2|]. apply IH; exact C3.
Qed.

(* every path name the receiver builds below a string of length `used` stays under PATH_MAX *)
Fixpoint fits (used : nat) (n : node) : Prop :=
  match n with
  | File _ _ _ => True
  | Dir _ _ ents =>
    (fix all (l : list (name * node)) : Prop :=
       match l with
       | [] => True
       | (k, v) :: r => (used + 1 + length k < PATH_MAX)%nat /\ fits (used + 1 + length k) v /\ all r
       end) ents
  end.

Fixpoint fits_list (used : nat) (l : list (name * node)) : Prop :=
  match l with
  | [] => True
  | (k, v) :: r => (used + 1 + length k < PATH_MAX)%nat /\ fits (used + 1 + length k) v /\ fits_list used r
  end.

Lemma fits_dir used m t ents : fits used (Dir m t ents) <-> fits_list used ents.
Proof.
  cbn [fits]. induction ents as [|[k v] r IH]; [tauto|].
  cbn [fits_list]. split; intros (A & B & C); repeat split; auto; apply IH; exact C.
Qed.

(* -y: the destination given on the command line is (still) a directory *)
Definition ydir_ok (fs : node) : Prop :=
  c_ydir cfg = true -> exists p t m mt e, resolve fs cwd (c_dest cfg) = ROk p t /\ lookup fs p = Some (Dir m mt e).

Lemma ydir_ok_ext a b : ext a b -> ydir_ok a -> ydir_ok b.
Proof.
  intros He H Hy. destruct (H Hy) as (p & t & m & mt & e & Hr & Hl).
  assert (Hd : is_dir b p = true) by (apply He; unfold is_dir; now rewrite Hl).
  apply is_dir_lookup in Hd. destruct Hd as (m' & mt' & e' & Hl').
  exists p, t, m', mt', e'. split; [eapply resolve_ext; eauto|exact Hl'].
Qed.

Lemma set_at_ext_new fs p X fs' : set_at fs p X = Some fs' -> lookup fs p = None -> ext fs fs'.
Proof. intros Hs Hl. eapply set_at_ext; [exact Hs|]. now rewrite Hl. Qed.

(* ---- entering a directory that exists ---- *)
Lemma enter_dir np w k p t m mt e :
  ydir_ok (w_fs w) -> resolve (w_fs w) cwd np = ROk p t -> lookup (w_fs w) p = Some (Dir m mt e) ->
  exists w1, enter cfg np w k = k true w1 /\ w_in w1 = w_in w /\ w_fs w1 = w_fs w /\ acked w w1 1.
Proof.
  intros Hy Hr Hl. unfold enter.
  destruct (c_ydir cfg) eqn:Ey.
  - destruct (Hy Ey) as (pd & td & md & mtd & ed & Hrd & Hld).
    rewrite (do_stat_dir _ _ _ _ _ _ _ Hrd Hld). cbn [negb].
    set (w0 := say Ack (logi (Touch OStat pd true) w)).
    rewrite (do_stat_dir np w0 p t m mt e) by (cbn; assumption).
    eexists. split; [reflexivity|]. cbn. repeat split; auto.
    apply acked_quiet_item; [exact I|]. apply acked_ack. apply acked_quiet_item; [exact I|]. apply acked_refl.
  - cbn [negb]. set (w0 := say Ack w).
    rewrite (do_stat_dir np w0 p t m mt e) by (cbn; assumption).
    eexists. split; [reflexivity|]. cbn. repeat split; auto.
    apply acked_quiet_item; [exact I|]. apply acked_ack. apply acked_refl.
Qed.

(* ---- lines ---- *)
Lemma line_fits : 400 < LINEMAX.
Proof. reflexivity. Qed.

Lemma ndigits_bound n : n < 9223372036854775808 -> (length (digits n) <= 19)%nat.
Proof.
  intro H. rewrite digits_length. apply ndigits_le_pow; [|lia].
  eapply N.lt_le_trans; [exact H|]. apply N.leb_le. vm_compute. reflexivity.
Qed.

Lemma digits_no c n : is_digit c = false -> ~ In c (digits n).
Proof.
  intros Hc Hin. pose proof (digits_all_digit n) as A. rewrite forallb_forall in A.
  rewrite (A _ Hin) in Hc. discriminate.
Qed.

Lemma oct4_no c m : is_digit c = false -> ~ In c (oct4 m).
Proof.
  intros Hc Hin. unfold oct4 in Hin. cbn [In] in Hin.
  assert (forall x, x < 8 -> is_digit (48 + x) = true) as Hd by (intros x Hx; unfold is_digit; apply andb_true_iff; split; apply N.leb_le; lia).
  destruct Hin as [E|[E|[E|[E|[]]]]]; subst c;
    rewrite Hd in Hc; try discriminate; apply N.mod_lt; discriminate.
Qed.


Lemma good_name_ok nm : good_name nm -> name_ok nm = true.
Proof.
  intros (_ & Hs & _ & _ & _ & Hdd & _). unfold name_ok. apply andb_true_iff. split; apply negb_true_iff.
  - destruct (mem c_slash nm) eqn:E; [apply mem_In in E; contradiction|reflexivity].
  - now apply beq_neq.
Qed.

Definition tv_ok (st : lstate) : Prop := exists ms, l_tv st = mkt ms 0 ms 0.

(* ---- a T record ---- *)
Lemma loop_T f targ isd st w t rest :
  (0 <= t < TMAX)%Z -> w_in w = T_rec t ++ rest ->
  exists buf2 w1,
    loop (S f) cfg targ isd st w = loop f cfg targ isd (mkl buf2 true (mkt t 0 t 0) (l_cursize st)) w1 /\
    w_in w1 = rest /\ w_fs w1 = w_fs w /\ acked w w1 1.
Proof.
  intros Ht Hin. unfold TMAX in Ht.
  set (l := zdigits t ++ [32;48;32] ++ zdigits t ++ [32;48]).
  assert (Hrec : T_rec t ++ rest = 84 :: l ++ c_nl :: rest).
  { unfold T_rec, l. rewrite <- !app_assoc. reflexivity. }
  rewrite Hrec in Hin.
  assert (Hz : zdigits t = digits (Z.to_N t)) by (apply zdigits_nonneg; lia).
  assert (Hlen : (length (zdigits t) <= 19)%nat) by (rewrite Hz; apply ndigits_bound; lia).
  assert (Hno : forall c, is_digit c = false -> c <> 32 -> ~ In c l).
  { intros c Hc H32 Hi. unfold l in Hi. rewrite Hz in Hi.
    repeat (apply in_app_or in Hi; destruct Hi as [Hi|Hi]); try (eapply digits_no; eauto; fail);
      cbn [In] in Hi; intuition (subst; try discriminate; try congruence). }
  destruct (loop_on_line f cfg targ isd st w 84 l rest) as (j1 & j2 & E); auto.
  - discriminate.
  - apply Hno; [reflexivity|discriminate].
  - intros [H|H]; [discriminate|]. revert H. apply Hno; [reflexivity|discriminate].
  - pose proof line_fits. unfold nlen, l. rewrite !app_length. cbn [length]. lia.
  - rewrite E. unfold dispatch.
    change (84 =? 1) with false. change (84 =? 2) with false. change (84 =? c_E) with false. cbv iota.
    replace (84 :: l ++ 0 :: j2) with ([84] ++ zdigits t ++ [32;48;32] ++ zdigits t ++ [32;48] ++ 0 :: j2)
      by (unfold l; rewrite <- !app_assoc; reflexivity).
    rewrite parse_T by lia.
    eexists _, _. split; [reflexivity|]. cbn. repeat split; auto.
    apply acked_ack. apply acked_quiet_item; [exact I|]. apply acked_set_in. apply acked_refl.
Qed.

Lemma join_name_eq targ nm : targ <> [] -> join_name targ nm = targ ++ c_slash :: nm.
Proof. intro H. unfold join_name. destruct targ; [congruence|reflexivity]. Qed.

(* the line of a C or D record *)
Lemma cd_line (isdir : bool) m size nm :
  good_name nm -> size < 9223372036854775808 ->
  let l := oct4 (N.land m 4095) ++ [32] ++ digits size ++ [32] ++ nm in
  ~ In c_nl l /\ ~ In 0 l /\ nlen l + 2 < LINEMAX.
Proof.
  intros (_ & _ & Hnl & H0 & _ & _ & Hlen) Hs l. pose proof line_fits. pose proof (ndigits_bound _ Hs).
  repeat split.
  - unfold l. intro Hi. repeat (apply in_app_or in Hi; destruct Hi as [Hi|Hi]); auto;
      try (eapply oct4_no; [|exact Hi]; reflexivity); try (eapply digits_no; [|exact Hi]; reflexivity);
      cbn [In] in Hi; intuition discriminate.
  - unfold l. intro Hi. repeat (apply in_app_or in Hi; destruct Hi as [Hi|Hi]); auto;
      try (eapply oct4_no; [|exact Hi]; reflexivity); try (eapply digits_no; [|exact Hi]; reflexivity);
      cbn [In] in Hi; intuition discriminate.
  - unfold nlen, l. rewrite !app_length. unfold oct4. cbn [length]. unfold NAME_MAX in Hlen. lia.
Qed.

(* ---- a C record for a new entry ---- *)
Lemma loop_C f targ st w m d nm rest q t pm pt pe :
  good_name nm -> N.of_nat (length d) < 9223372036854775808 ->
  w_in w = C_rec m (N.of_nat (length d)) nm ++ d ++ 0 :: rest ->
  resolve (w_fs w) cwd targ = ROk q t -> lookup (w_fs w) q = Some (Dir pm pt pe) -> assoc nm pe = None ->
  (length targ + 1 + length nm < PATH_MAX)%nat ->
  tv_ok st ->
  exists st' w' fs',
    loop (S f) cfg targ true st w = loop f cfg targ true st' w' /\
    l_setimes st' = false /\ tv_ok st' /\
    w_in w' = rest /\ w_fs w' = fs' /\
    set_at (w_fs w) (q ++ [nm])
           (File (create_mode (N.land m 4095) um) (if l_setimes st then Some (t_msec (l_tv st)) else None) d) = Some fs' /\
    acked w w' 2.
Proof.
  intros Hg Hsz Hin Hr Hq Ha Hpm [ms Htv].
  pose proof (resolve_not_nil _ _ _ _ _ Hr) as Htn.
  destruct (cd_line false m _ nm Hg Hsz) as (L1 & L2 & L3). cbv zeta in *.
  set (l := oct4 (N.land m 4095) ++ [32] ++ digits (N.of_nat (length d)) ++ [32] ++ nm) in *.
  assert (Hrec : C_rec m (N.of_nat (length d)) nm ++ d ++ 0 :: rest = 67 :: l ++ c_nl :: d ++ 0 :: rest).
  { unfold C_rec, l. rewrite <- !app_assoc. reflexivity. }
  rewrite Hrec in Hin.
  destruct (loop_on_line f cfg targ true st w 67 l (d ++ 0 :: rest)) as (j1 & j2 & E); auto.
  - discriminate.
  - intros [H|H]; [discriminate|auto].
  - rewrite E. unfold dispatch.
    change (67 =? 1) with false. change (67 =? 2) with false. change (67 =? c_E) with false. cbv iota.
    replace (67 :: l ++ 0 :: j2) with ([if false then c_D else c_C] ++ oct4 (N.land m 4095) ++ [32] ++ digits (N.of_nat (length d)) ++ [32] ++ nm ++ 0 :: j2)
      by (unfold l; rewrite <- !app_assoc; reflexivity).
    destruct Hg as (G1 & G2 & G3 & G4 & G5 & G6 & G7).
    pose proof (parse_CD false m _ nm j2 Hsz G4) as Hp. cbv iota in Hp. rewrite Hp. clear Hp.
    rewrite (good_name_ok nm) by (repeat split; assumption). rewrite andb_false_r.
    rewrite (snprintf_fits cfg), join_name_eq by exact Htn.
    set (w1 := logi (Line (67 :: l)) (set_in w (d ++ 0 :: rest))).
    assert (Hr1 : resolve (w_fs w1) cwd (targ ++ c_slash :: nm) = ROk (q ++ [nm]) false).
    { cbn. eapply resolve_entry; eauto.
      - apply is_dir_lookup. eauto.
      - repeat split; assumption.
      - rewrite app_length. cbn [length]. lia. }
    assert (Hfresh : lookup (w_fs w1) (q ++ [nm]) = None) by (cbn; rewrite lookup_app, Hq; cbn [lookup]; now rewrite Ha).
    rewrite (do_stat_fresh _ _ _ _ Hr1 Hfresh).
    set (w2 := logi (Touch OStat (q ++ [nm]) false) w1).
    rewrite Htv. rewrite N2Z.inj_abs_N || idtac.
    replace (Z.of_N (N.of_nat (length d))) with (Z.of_nat (length d)) by lia.
    match goal with |- context [handle_file cfg ?np ?mode ?size ?se ?tv ?cont ?ww] =>
      destruct (handle_file_new np mode se ms cont ww q nm pm pt pe d rest) as (w' & fs' & Eh & Hin' & Hfs' & Hset & Hack); auto end.
    rewrite Eh. eexists _, w', fs'. split; [reflexivity|]. cbn [l_setimes l_tv].
    split; [reflexivity|]. split; [exists ms; reflexivity|]. split; [exact Hin'|]. split; [exact Hfs'|].
    split; [exact Hset|].
    replace 2%nat with (0 + 2)%nat by lia. eapply acked_trans; [|exact Hack].
    unfold w2, w1. apply acked_quiet_item; [exact I|]. apply acked_quiet_item; [exact I|]. apply acked_set_in. apply acked_refl.
Qed.


(* ---- one source tree, as the entry nm of the directory the loop is in ---- *)
Definition node_ok (n : node) : Prop :=
  forall f targ q t st w nm rest pm pt pe,
  wf_src n -> good_name nm -> (length targ + 1 + length nm < PATH_MAX)%nat -> fits (length targ + 1 + length nm) n ->
  w_in w = encode pres nm n ++ rest -> (length (w_in w) <= f)%nat ->
  resolve (w_fs w) cwd targ = ROk q t -> lookup (w_fs w) q = Some (Dir pm pt pe) -> assoc nm pe = None ->
  ydir_ok (w_fs w) -> l_setimes st = false -> tv_ok st ->
  exists f' st' w' fs',
    loop (S f) cfg targ true st w = loop (S f') cfg targ true st' w' /\
    (length rest <= f')%nat /\ l_setimes st' = false /\ tv_ok st' /\
    w_in w' = rest /\ w_fs w' = fs' /\
    set_at (w_fs w) (q ++ [nm]) (copy_of pm n) = Some fs' /\
    acked w w' (n_acks pres n).

Lemma assoc_app_none k l1 l2 : assoc k l1 = None -> assoc k l2 = None -> assoc k (l1 ++ l2) = None.
Proof.
  induction l1 as [|[k' v'] r IH]; cbn [app assoc]; auto.
  destruct (beq k k'); [discriminate|auto].
Qed.

Lemma in_names_neq k (l : list (name * node)) k2 v2 : ~ In k (map fst l) -> In (k2, v2) l -> beq k2 k = false.
Proof.
  intros Hn Hin. apply beq_neq. intro E. subst. apply Hn. change k with (fst (k, v2)). now apply in_map.
Qed.

(* a list of source trees, one after the other, into the same directory *)
Lemma loop_list_gen : forall l, Forall (fun kv => node_ok (snd kv)) l ->
  forall f targ q t st w rest pm pt pe,
  wf_src_list l -> names_distinct l -> fits_list (length targ) l ->
  (forall k v, In (k, v) l -> assoc k pe = None) ->
  w_in w = encode_list pres l ++ rest -> (length (w_in w) <= f)%nat ->
  resolve (w_fs w) cwd targ = ROk q t -> lookup (w_fs w) q = Some (Dir pm pt pe) ->
  ydir_ok (w_fs w) -> l_setimes st = false -> tv_ok st ->
  exists f' st' w' fs',
    loop (S f) cfg targ true st w = loop (S f') cfg targ true st' w' /\
    (length rest <= f')%nat /\ l_setimes st' = false /\ tv_ok st' /\
    w_in w' = rest /\ w_fs w' = fs' /\
    set_at (w_fs w) q (Dir pm (match l with [] => pt | _ => None end) (pe ++ copy_list pm l)) = Some fs' /\
    ext (w_fs w) fs' /\
    acked w w' (n_acks_list pres l).
Proof.
  induction l as [|[k v] r IH]; intros Hall f targ q t st w rest pm pt pe Hwf Hd Hfit Hfresh Hin Hlen Hr Hq Hy Hse Htv.
  - cbn [encode_list app] in Hin. exists f, st, w, (w_fs w). repeat split; auto.
    + rewrite Hin in Hlen. exact Hlen.
    + cbn [copy_list]. rewrite app_nil_r.
      destruct (set_at_exists q (w_fs w) _ (Dir pm pt pe) Hq) as [fs' Hs].
      assert (fs' = w_fs w); [|congruence].
      (* storing the node that is already there changes nothing *)
      clear -Hq Hs. revert Hq Hs. generalize (w_fs w). intro root. revert root fs'.
      induction q as [|c q IHq]; intros root fs' Hq Hs.
      * cbn in *. congruence.
      * cbn [lookup] in Hq. destruct root as [|m0 t0 e0]; [discriminate|].
        destruct (assoc c e0) as [ch|] eqn:Ea; [|discriminate].
        assert (Hput : forall x, assoc c e0 = Some x -> assoc_put c x e0 = e0).
        { clear. intros x. induction e0 as [|[k' v'] r IH]; cbn [assoc assoc_put]; [discriminate|].
          destruct (beq c k') eqn:E; [apply beq_eq in E; subst; intro H; inversion H; reflexivity|].
          intro H. now rewrite IH. }
        destruct q as [|c2 q2].
        -- cbn in Hq. inversion Hq; subst ch. cbn [set_at] in Hs. rewrite Ea in Hs. inversion Hs. now rewrite Hput.
        -- rewrite set_at_cons2, Ea in Hs. destruct (set_at ch (c2 :: q2) (Dir pm pt pe)) as [ch'|] eqn:E2; [|discriminate].
           inversion Hs. rewrite (IHq ch ch' Hq E2). now rewrite Hput.
    + apply ext_refl.
    + apply acked_refl.
  - inversion Hall as [|? ? Hv Hall']; subst. cbn [snd] in Hv.
    cbn [wf_src_list] in Hwf. destruct Hwf as (Hg & Hwv & Hwr).
    cbn [fits_list] in Hfit. destruct Hfit as (Hf1 & Hf2 & Hf3).
    unfold names_distinct in Hd. cbn [map fst] in Hd. inversion Hd as [|? ? Hnotin Hd']; subst.
    rewrite encode_list_cons, <- app_assoc in Hin.
    destruct (Hv f targ q t st w k (encode_list pres r ++ rest) pm pt pe) as (f1 & st1 & w1 & fs1 & E1 & L1 & S1 & T1 & I1 & F1 & X1 & A1); auto.
    { apply (Hfresh k v). left. reflexivity. }
    assert (Hk : assoc k pe = None) by (apply (Hfresh k v); left; reflexivity).
    assert (Hext1 : ext (w_fs w) fs1).
    { eapply set_at_ext_new; [exact X1|]. rewrite lookup_app, Hq. cbn [lookup]. now rewrite Hk. }
    assert (Hq1 : lookup (w_fs w1) q = Some (Dir pm None (pe ++ [(k, copy_of pm v)]))).
    { rewrite F1. rewrite (set_at_new_entry _ _ _ _ _ _ _ Hq Hk) in X1. apply (lookup_set_at _ _ _ _ X1). }
    destruct (IH Hall' f1 targ q t st1 w1 rest pm None (pe ++ [(k, copy_of pm v)])) as (f2 & st2 & w2 & fs2 & E2 & L2 & S2 & T2 & I2 & F2 & X2 & Ex2 & A2); auto.
    { intros k2 v2 Hin2. apply assoc_app_none; [apply (Hfresh k2 v2); right; exact Hin2|].
      cbn [assoc]. rewrite (in_names_neq k r k2 v2 Hnotin Hin2). reflexivity. }
    { rewrite I1. exact L1. }
    { rewrite F1. eapply resolve_ext; eauto. }
    { rewrite F1. eapply ydir_ok_ext; eauto. }
    exists f2, st2, w2, fs2. split; [rewrite E1; exact E2|]. repeat split; auto.
    + rewrite copy_list_cons.
      rewrite (set_at_new_entry _ _ _ _ _ _ _ Hq Hk) in X1.
      rewrite F1 in X2. rewrite (set_at_twice _ _ _ _ _ X1) in X2.
      replace (pe ++ (k, copy_of pm v) :: copy_list pm r) with ((pe ++ [(k, copy_of pm v)]) ++ copy_list pm r) by (now rewrite <- app_assoc).
      destruct r; exact X2.
    + eapply ext_trans; [exact Hext1|]. rewrite F1 in Ex2. exact Ex2.
    + rewrite n_acks_list_cons. eapply acked_trans; eauto.
Qed.


Lemma T_rec_len t : (1 <= length (T_rec t))%nat.
Proof. unfold T_rec. cbn [app length]. lia. Qed.
Lemma C_rec_len m sz nm : (1 <= length (C_rec m sz nm))%nat.
Proof. unfold C_rec. cbn [app length]. lia. Qed.
Lemma D_rec_len m nm : (1 <= length (D_rec m nm))%nat.
Proof. unfold D_rec. cbn [app length]. lia. Qed.

(* the optional T record in front of a C or D record *)
Lemma loop_optT f targ st w ms body :
  (pres = true -> (0 <= ms < TMAX)%Z) ->
  w_in w = (if pres then T_rec ms else []) ++ body -> (length (w_in w) <= f)%nat ->
  l_setimes st = false -> tv_ok st ->
  exists f0 st0 w0,
    loop (S f) cfg targ true st w = loop (S f0) cfg targ true st0 w0 /\
    w_in w0 = body /\ (length body <= f0)%nat /\ w_fs w0 = w_fs w /\
    acked w w0 (if pres then 1 else 0) /\
    l_setimes st0 = pres /\ (pres = true -> l_tv st0 = mkt ms 0 ms 0) /\ tv_ok st0.
Proof.
  intros Hms Hin Hlen Hse Htv. destruct pres eqn:Ep.
  - destruct (loop_T f targ true st w ms body (Hms eq_refl) Hin) as (b2 & w1 & E1 & I1 & F1 & A1).
    pose proof (T_rec_len ms). rewrite Hin, app_length in Hlen.
    destruct f as [|f0]; [lia|].
    eexists f0, _, w1. split; [exact E1|]. cbn [l_setimes l_tv]. repeat split; auto; try lia.
    exists ms. reflexivity.
  - cbn [app] in Hin. exists f, st, w. rewrite Hin in Hlen. repeat split; auto.
    + apply acked_refl.
    + discriminate.
Qed.

Theorem node_ok_all : forall n, node_ok n.
Proof.
  induction n as [m mt d|m mt ents IHn] using node_ind2; unfold node_ok;
    intros f targ q t st w nm rest pm pt pe Hwf Hg Hpm Hfit Hin Hlen Hr Hq Ha Hy Hse Htv.
  - (* a regular file *)
    cbn [wf_src] in Hwf. destruct Hwf as [Hmt Hsz].
    cbn [encode] in Hin. rewrite <- !app_assoc in Hin.
    destruct (loop_optT f targ st w (node_mtime (File m mt d)) _ Hmt Hin Hlen Hse Htv)
      as (f0 & st0 & w0 & E0 & I0 & L0 & F0 & A0 & S0 & V0 & T0).
    cbn [app] in I0.
    destruct (loop_C f0 targ st0 w0 m d nm rest q t pm pt pe) as (st' & w' & fs' & E1 & S1 & T1 & I1 & F1 & X1 & A1); auto;
      try (rewrite F0; assumption).
    pose proof (C_rec_len m (N.of_nat (length d)) nm). rewrite !app_length in L0. cbn [length] in L0.
    destruct f0 as [|f']; [lia|].
    exists f', st', w', fs'. split; [rewrite E0; exact E1|]. repeat split; auto; try lia.
    + rewrite <- F0. cbn [copy_of]. rewrite S0 in X1.
      destruct pres eqn:Ep; [rewrite (V0 eq_refl) in X1; exact X1|exact X1].
    + cbn [n_acks]. replace (if pres then 1 else 0)%nat with (if pres then 1 else 0)%nat by reflexivity.
      eapply acked_trans; eauto.
  - (* a directory *)
    destruct (proj1 (wf_src_dir _ _ _) Hwf) as (Hmt & Hdist & Hwl).
    apply fits_dir in Hfit.
    rewrite encode_dir in Hin. rewrite <- !app_assoc in Hin.
    destruct (loop_optT f targ st w (node_mtime (Dir m mt ents)) _ Hmt Hin Hlen Hse Htv)
      as (f0 & st0 & w0 & E0 & I0 & L0 & F0 & A0 & S0 & V0 & T0).
    destruct T0 as [ms0 Htv0].
    pose proof (resolve_not_nil _ _ _ _ _ Hr) as Htn.
    (* the D line *)
    destruct (cd_line true m 0 nm Hg ltac:(reflexivity)) as (L1 & L2 & L3). cbv zeta in *.
    set (l := oct4 (N.land m 4095) ++ [32] ++ digits 0 ++ [32] ++ nm) in *.
    assert (Hrec : D_rec m nm ++ encode_list pres ents ++ E_rec ++ rest = 68 :: l ++ c_nl :: encode_list pres ents ++ E_rec ++ rest).
    { unfold D_rec, l. rewrite <- !app_assoc. reflexivity. }
    rewrite Hrec in I0.
    destruct (loop_on_line f0 cfg targ true st0 w0 68 l (encode_list pres ents ++ E_rec ++ rest)) as (j1 & j2 & ED); auto.
    { discriminate. }
    { intros [H|H]; [discriminate|auto]. }
    unfold dispatch in ED.
    change (68 =? 1) with false in ED. change (68 =? 2) with false in ED. change (68 =? c_E) with false in ED. cbv iota in ED.
    replace (68 :: l ++ 0 :: j2) with ([c_D] ++ oct4 (N.land m 4095) ++ [32] ++ digits 0 ++ [32] ++ nm ++ 0 :: j2) in ED
      by (unfold l; rewrite <- !app_assoc; reflexivity).
    destruct Hg as (G1 & G2 & G3 & G4 & G5 & G6 & G7).
    pose proof (parse_CD true m 0 nm j2 ltac:(reflexivity) G4) as Hp. cbv iota in Hp. rewrite Hp in ED. clear Hp.
    rewrite (good_name_ok nm) in ED by (repeat split; assumption). rewrite andb_false_r in ED.
    rewrite (snprintf_fits cfg), join_name_eq in ED by exact Htn.
    set (np := targ ++ c_slash :: nm) in *.
    set (p := q ++ [nm]) in *.
    set (w1 := logi (Line (68 :: l)) (set_in w0 (encode_list pres ents ++ E_rec ++ rest))) in *.
    assert (Hq0 : lookup (w_fs w0) q = Some (Dir pm pt pe)) by (rewrite F0; exact Hq).
    assert (Hr1 : resolve (w_fs w1) cwd np = ROk p false).
    { cbn. rewrite F0. eapply resolve_entry; eauto.
      - apply is_dir_lookup. eauto.
      - repeat split; assumption.
      - unfold np. rewrite app_length. cbn [length]. lia. }
    assert (Hfresh : lookup (w_fs w1) p = None) by (cbn; unfold p; rewrite lookup_app, Hq0; cbn [lookup]; now rewrite Ha).
    rewrite (do_stat_fresh _ _ _ _ Hr1 Hfresh) in ED.
    set (w2 := logi (Touch OStat p false) w1) in *.
    unfold handle_dir in ED.
    (* mkdir, and the chmod of the fix *)
    destruct (do_mkdir_fresh np w2 q nm false (N.land m 4095) pm pt pe) as (fs3 & Hs3 & Em); auto.
    rewrite Em in ED. cbv iota beta in ED. cbn [andb] in ED. change (q ++ [nm]) with p in ED.
    set (w3 := logi (Touch OMkdir p true) (set_fs w2 fs3)) in *.
    assert (Hext3 : ext (w_fs w) fs3).
    { rewrite <- F0. change (w_fs w0) with (w_fs w2). eapply set_at_ext_new; [exact Hs3|exact Hfresh]. }
    assert (Hr3 : resolve (w_fs w3) cwd np = ROk p false).
    { cbn. eapply resolve_ext; [|exact Hr1]. cbn. rewrite F0. exact Hext3. }
    assert (Hw4 : exists w4 fs4, (if pres && c_dirmode cfg then snd (do_chmod cfg np (N.land m 4095) w3) else w3) = w4 /\
                   w_in w4 = w_in w3 /\ w_fs w4 = fs4 /\
                   set_at (w_fs w2) p (Dir (dmode m pm) None []) = Some fs4 /\ acked w3 w4 0).
    { unfold dmode. destruct (pres && c_dirmode cfg) eqn:Edm.
      - destruct (do_chmod_dir np w3 p false (mkdir_mode (N.land m 4095) um pm) None [] (N.land m 4095) Hr3) as (fs4 & Hs4 & Ec).
        { cbn. apply (lookup_set_at _ _ _ _ Hs3). }
        rewrite Ec. cbn [snd]. eexists _, fs4. split; [reflexivity|]. cbn. repeat split; auto.
        + rewrite <- Hs4. symmetry. apply (set_at_twice _ _ _ _ _ Hs3).
        + apply acked_quiet_item; [exact I|]. apply acked_set_fs. apply acked_refl.
      - exists w3, fs3. repeat split; auto. apply acked_refl. }
    destruct Hw4 as (w4 & fs4 & Ew4 & I4 & F4 & X4 & A4). rewrite Ew4 in ED. cbn [negb] in ED.
    assert (Hext4 : ext (w_fs w) fs4).
    { rewrite <- F0. change (w_fs w0) with (w_fs w2). eapply set_at_ext_new; [exact X4|exact Hfresh]. }
    assert (Hl4 : lookup (w_fs w4) p = Some (Dir (dmode m pm) None [])) by (rewrite F4; apply (lookup_set_at _ _ _ _ X4)).
    assert (Hr4 : resolve (w_fs w4) cwd np = ROk p false).
    { rewrite F4. eapply resolve_ext; [|exact Hr1]. cbn. rewrite F0. exact Hext4. }
    assert (Hy4 : ydir_ok (w_fs w4)) by (rewrite F4; eapply ydir_ok_ext; eauto).
    (* the nested _sink: its first answer, the entries, the E record *)
    destruct (enter_dir np w4 (fun isd w'' => loop f0 cfg np isd PcpSink.st0 w'') p false _ _ _ Hy4 Hr4 Hl4) as (w5 & E5 & I5 & F5 & A5).
    rewrite E5 in ED.
    assert (Hin5 : w_in w5 = encode_list pres ents ++ E_rec ++ rest) by (rewrite I5, I4; reflexivity).
    assert (Hlen5 : (length (w_in w5) < f0)%nat).
    { rewrite Hin5. pose proof (D_rec_len m nm). rewrite app_length in L0. lia. }
    destruct f0 as [|f1]; [lia|].
    assert (Hf1 : (length rest <= f1)%nat) by (rewrite Hin5, !app_length in Hlen5; lia).
    destruct (loop_list_gen ents IHn f1 np p false PcpSink.st0 w5 (E_rec ++ rest) (dmode m pm) None []) as
      (f2 & st2 & w6 & fs6 & E6 & L6 & S6 & T6 & I6 & F6 & X6 & Ex6 & A6); auto.
    { unfold np. rewrite app_length. cbn [length]. replace (length targ + S (length nm))%nat with (length targ + 1 + length nm)%nat by lia. exact Hfit. }
    { lia. }
    { rewrite F5. exact Hr4. }
    { rewrite F5. exact Hl4. }
    { rewrite F5. exact Hy4. }
    { exists 0%Z. reflexivity. }
    rewrite E6 in ED.
    (* the E record ends the nested call *)
    destruct (loop_on_line f2 cfg np true st2 w6 c_E [] rest) as (k1 & k2 & EE); auto.
    { discriminate. }
    { intros [H|[]]. discriminate. }
    { pose proof line_fits. unfold nlen. cbn. lia. }
    unfold dispatch in EE. change (c_E =? 1) with false in EE. change (c_E =? 2) with false in EE.
    rewrite N.eqb_refl in EE. cbv iota in EE.
    rewrite EE in ED.
    set (w7 := say Ack (logi (Line [c_E]) (set_in w6 rest))) in *.
    (* back in the parent: times, then on with the loop *)
    assert (Hfs7' : set_at (w_fs w) p (Dir (dmode m pm) None (copy_list (dmode m pm) ents)) = Some fs6).
    { rewrite F5, F4 in X6. rewrite (set_at_twice _ _ _ _ _ X4) in X6. change (w_fs w2) with (w_fs w0) in X6.
      rewrite F0 in X6. cbn [app] in X6. destruct ents; exact X6. }
    assert (Hack7 : acked w w7 ((if pres then 1 else 0) + (1 + n_acks_list pres ents + 1))).
    { eapply acked_trans; [exact A0|].
      replace (1 + n_acks_list pres ents + 1)%nat with (0 + (0 + (1 + (n_acks_list pres ents + 1))))%nat by lia.
      eapply acked_trans; [|eapply acked_trans; [exact A4|eapply acked_trans; [exact A5|]]].
      - unfold w3, w2, w1. apply acked_quiet_item; [exact I|]. apply acked_set_fs. apply acked_quiet_item; [exact I|].
        apply acked_quiet_item; [exact I|]. apply acked_set_in. apply acked_refl.
      - eapply acked_trans; [exact A6|]. unfold w7. apply acked_ack. apply acked_quiet_item; [exact I|]. apply acked_set_in. apply acked_refl. }
    assert (Hfuel : (length rest <= f2 - 1)%nat /\ (1 <= f2)%nat).
    { unfold E_rec in L6. cbn [app length] in L6. lia. }
    destruct f2 as [|f3]; [lia|].
    rewrite S0 in ED.
    destruct pres eqn:Ep.
    + (* -p: utimes on the directory *)
      rewrite (V0 eq_refl) in ED.
      assert (Hext6 : ext (w_fs w) fs6).
      { eapply set_at_ext_new; [exact Hfs7'|]. rewrite <- F0. exact Hfresh. }
      assert (Hr7 : resolve (w_fs w7) cwd np = ROk p false).
      { cbn. rewrite F6. eapply resolve_ext; [exact Hext6|]. rewrite <- F0. exact Hr1. }
      destruct (do_utimes_node np w7 p false (Dir (dmode m pm) None (copy_list (dmode m pm) ents)) (node_mtime (Dir m mt ents)) Hr7)
        as (fs8 & Hs8 & Eu).
      { cbn. rewrite F6. apply (lookup_set_at _ _ _ _ Hfs7'). }
      { discriminate. }
      cbv iota beta in ED. rewrite Eu in ED. cbv iota beta in ED.
      eexists f1, _, _, fs8. split; [rewrite E0; exact ED|]. cbn [l_setimes l_tv w_in w_fs say logi set_fs set_in].
      split; [lia|]. split; [reflexivity|]. split; [exists (node_mtime (Dir m mt ents)); reflexivity|].
      split; [reflexivity|]. split; [reflexivity|]. split.
      * rewrite copy_of_dir. rewrite Ep. rewrite <- Hs8. cbn [set_mtime w_fs w7 say logi set_in]. rewrite F6.
        symmetry. apply (set_at_twice _ _ _ _ _ Hfs7').
      * rewrite n_acks_dir. eapply acked_eq; [eapply acked_trans; [exact Hack7|]|apply Nat.add_0_r].
        apply acked_quiet_item; [exact I|]. apply acked_set_fs. apply acked_refl.
    + cbv iota beta in ED.
      eexists f1, _, w7, fs6. split; [rewrite E0; exact ED|]. cbn [l_setimes l_tv].
      split; [lia|]. split; [reflexivity|]. split; [exists ms0; exact Htv0|].
      split; [reflexivity|]. split; [exact F6|]. split.
      * rewrite copy_of_dir. rewrite Ep. exact Hfs7'.
      * rewrite n_acks_dir. exact Hack7.
Qed.


Lemma replies_starved w : replies (logi Starved w) = replies w.
Proof.
  unfold replies. cbn [w_log logi rev]. rewrite fold_right_app. reflexivity.
Qed.

(* ---- the whole receiver on what the sender writes for a list of sources ---- *)
Theorem sink_encode fs srcs dp t dm dt de :
  resolve fs cwd (c_dest cfg) = ROk dp t -> lookup fs dp = Some (Dir dm dt de) ->
  wf_src_list srcs -> names_distinct srcs -> fits_list (length (c_dest cfg)) srcs ->
  (forall k v, In (k, v) srcs -> assoc k de = None) ->
  exists w' fs',
    sink cfg fs (encode_list pres srcs) = (w', RetEnd) /\
    w_fs w' = fs' /\
    set_at fs dp (Dir dm (match srcs with [] => dt | _ => None end) (de ++ copy_list dm srcs)) = Some fs' /\
    replies w' = repeat Ack (1 + n_acks_list pres srcs) /\
    seen_replies w' = repeat Ack (1 + n_acks_list pres srcs) /\
    w_in w' = [].
Proof.
  intros Hr Hl Hwf Hd Hfit Hfresh. unfold sink.
  set (stream := encode_list pres srcs).
  assert (Hy : ydir_ok (w_fs (w0 fs stream))).
  { intros _. exists dp, t, dm, dt, de. split; assumption. }
  destruct (enter_dir (c_dest cfg) (w0 fs stream)
              (fun isd w => loop (S (length stream)) cfg (c_dest cfg) isd st0 w) dp t dm dt de Hy Hr Hl) as (w1 & E1 & I1 & F1 & A1).
  rewrite E1.
  destruct (loop_list_gen srcs (proj2 (Forall_forall _ _) (fun kv _ => node_ok_all (snd kv)))
              (length stream) (c_dest cfg) dp t st0 w1 [] dm dt de) as
    (f2 & st2 & w2 & fs2 & E2 & L2 & S2 & T2 & I2 & F2 & X2 & Ex2 & A2); auto.
  - rewrite I1. cbn. now rewrite app_nil_r.
  - rewrite I1. cbn. lia.
  - rewrite F1. exact Hr.
  - rewrite F1. exact Hl.
  - rewrite F1. exact Hy.
  - exists 0%Z. reflexivity.
  - rewrite E2, loop_unfold, I2. cbn [read_line].
    eexists _, fs2. split; [reflexivity|]. cbn [w_fs logi w_in].
    assert (Hack : acked (w0 fs stream) w2 (1 + n_acks_list pres srcs)) by (eapply acked_trans; eauto).
    split; [exact F2|]. split; [rewrite F1 in X2; exact X2|].
    split; [rewrite replies_starved; eapply acked_replies; exact Hack|].
    split; [|exact I2].
    (* what the peer has seen: the transcript up to the Starved mark is the whole clean transcript *)
    destruct Hack as (dl & E & F & C). cbn in E. rewrite app_nil_r in E.
    unfold seen_replies. cbn [w_log logi rev]. rewrite E.
    assert (Hgen : forall d, Forall clean_item d -> replies_until_starved (d ++ [Starved]) = repeat Ack (count_acks d)).
    { induction d as [|it d IH]; intro Hc; [reflexivity|]. inversion Hc; subst.
      destruct it as [o p ok|[|k]|ln|]; cbn [app replies_until_starved count_acks repeat]; try contradiction; rewrite ?IH; auto. }
    rewrite Hgen by (apply Forall_rev; exact F). now rewrite count_acks_rev, C.
Qed.

(* ---- S: the copy is faithful ---- *)
Fixpoint faithful (src cp : node) : Prop :=
  match src, cp with
  | File m _ d, File m' t' d' =>
    d' = d /\ (pres = true -> m' = N.land m 4095 /\ t' = Some (node_mtime src))
  | Dir m _ ents, Dir m' t' ents' =>
    (pres = true -> m' = N.land m 4095 /\ t' = Some (node_mtime src)) /\
    (fix all2 (a b : list (name * node)) : Prop :=
       match a, b with
       | [], [] => True
       | (k, v) :: ra, (k', v') :: rb => k' = k /\ faithful v v' /\ all2 ra rb
       | _, _ => False
       end) ents ents'
  | _, _ => False
  end.

Fixpoint faithful_list (a b : list (name * node)) : Prop :=
  match a, b with
  | [], [] => True
  | (k, v) :: ra, (k', v') :: rb => k' = k /\ faithful v v' /\ faithful_list ra rb
  | _, _ => False
  end.

Lemma create_mode_p m : pres = true -> create_mode (N.land m 4095) um = N.land m 4095.
Proof.
  intro Hp. unfold create_mode, eff_umask. rewrite Hp. cbn [N.land N.lxor].
  rewrite <- N.land_assoc. reflexivity.
Qed.

Lemma copy_faithful : (pres = true -> c_dirmode cfg = true) -> forall n pm, faithful n (copy_of pm n).
Proof.
  intro Hdm. induction n as [m mt d|m mt ents IHn] using node_ind2; intro pm.
  - cbn [copy_of faithful]. split; [reflexivity|]. intro Hp. rewrite Hp. split; [apply create_mode_p; exact Hp|reflexivity].
  - rewrite copy_of_dir. cbn [faithful]. split.
    + intro Hp. rewrite Hp. unfold dmode. rewrite Hp, (Hdm Hp). split; reflexivity.
    + generalize (dmode m pm). intro dm. induction ents as [|[k v] r IHr]; [exact I|].
      inversion IHn; subst. cbn [copy_list]. split; [reflexivity|]. split; [apply H1|]. apply IHr. exact H2.
Qed.

Lemma copy_list_faithful : (pres = true -> c_dirmode cfg = true) -> forall l pm, faithful_list l (copy_list pm l).
Proof.
  intros Hdm l pm. induction l as [|[k v] r IH]; [exact I|].
  cbn [copy_list faithful_list]. split; [reflexivity|]. split; [apply copy_faithful; exact Hdm|exact IH].
Qed.

End Round.
