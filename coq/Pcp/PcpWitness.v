(* Concrete runs of the receiver model: the escape that the name check closes, and
   non-vacuity examples for the C12 theorems. *)
From PV Require Import Pcp.FsModel Pcp.PcpSink Pcp.FsFacts Pcp.PcpSpec Pcp.PcpAnswer.
Local Open Scope N_scope.

Definition s_d : bytes := [100].                         (* "d" *)
Definition s_dest : bytes := [100;101;115;116].          (* "dest" *)
Definition s_evil : bytes := [101;118;105;108].          (* "evil" *)

(* /d/dest (empty directory); the receiver runs in /d with destination "dest" *)
Definition wit_fs : node := Dir 493 None [(s_d, Dir 493 None [(s_dest, Dir 493 None [])])].
Definition wit_cfg (check : bool) : config := mkcfg [s_d] s_dest false false 18 4096 check true.

(* "C0644 5 ../evil\nhello\0" *)
Definition wit_stream : bytes :=
  [67;48;54;52;52;32;53;32;46;46;47;101;118;105;108;10;104;101;108;108;111;0].

Lemma wit_dest : resolve wit_fs [s_d] s_dest = ROk [s_d; s_dest] false.
Proof. vm_compute. reflexivity. Qed.

Lemma wit_escape : In [s_d; s_evil] (touched (fst (sink (wit_cfg false) wit_fs wit_stream))).
Proof. vm_compute. tauto. Qed.

Lemma wit_not_under : ~ under [s_d; s_dest] [s_d; s_evil].
Proof. intros [s H]. cbn in H. discriminate. Qed.

(* the file really is created outside *)
Lemma wit_created :
  lookup (w_fs (fst (sink (wit_cfg false) wit_fs wit_stream))) [s_d; s_evil] = Some (File 420 None [104;101;108;108;111]).
Proof. vm_compute. reflexivity. Qed.

(* with the check the same stream is refused with an error record and nothing is created *)
Lemma wit_checked :
  replies (fst (sink (wit_cfg true) wit_fs wit_stream)) = [Ack; Err EName; Err (EScrewup 2)] /\
  w_fs (fst (sink (wit_cfg true) wit_fs wit_stream)) = wit_fs.
Proof. vm_compute. split; reflexivity. Qed.

(* a well-formed session: T, D, C inside, E, then a file; all under the destination *)
Definition ok_stream : bytes :=
  [84;53;32;48;32;54;32;48;10] ++                      (* "T5 0 6 0\n" *)
  [68;48;55;53;53;32;48;32;120;10] ++                  (* "D0755 0 x\n" *)
  [67;48;54;48;48;32;50;32;121;10;104;105;0] ++        (* "C0600 2 y\nhi\0" *)
  [69;10] ++                                           (* "E\n" *)
  [67;48;54;52;52;32;48;32;122;10;0].                  (* "C0644 0 z\n\0" *)

Lemma ok_run :
  let r := sink (wit_cfg true) wit_fs ok_stream in
  snd r = RetEnd /\
  replies (fst r) = [Ack; Ack; Ack; Ack; Ack; Ack; Ack; Ack] /\
  lookup (w_fs (fst r)) [s_d; s_dest; [120]; [121]] = Some (File 384 None [104;105]) /\
  lookup (w_fs (fst r)) [s_d; s_dest; [122]] = Some (File 420 None []) /\
  In [s_d; s_dest; [120]; [121]] (touched (fst r)).
Proof. vm_compute. repeat split; try reflexivity. tauto. Qed.

(* a malformed record in the middle of a session is answered by an error record *)
Definition bad_stream : bytes :=
  [67;48;54;52;52;32;48;32;122;10;0] ++                (* "C0644 0 z\n\0" *)
  [67;48;54;57;52;32;48;32;122;10].                    (* "C0694 0 z\n": 9 is not octal *)

Lemma bad_run :
  rev (w_log (fst (sink (wit_cfg true) wit_fs bad_stream))) =
  [Reply Ack; Touch OStat [s_d; s_dest] true;
   Line [67;48;54;52;52;32;48;32;122]; Touch OStat [s_d; s_dest; [122]] false;
   Touch OOpen [s_d; s_dest; [122]] true; Reply Ack; Touch OTrunc [s_d; s_dest; [122]] true; Reply Ack;
   Line [67;48;54;57;52;32;48;32;122]; Reply (Err (EScrewup 9))] /\
  acceptable [67;48;54;57;52;32;48;32;122] = false /\
  acceptable [67;48;54;52;52;32;48;32;122] = true.
Proof. vm_compute. repeat split; reflexivity. Qed.

(* ---- packaged for Props/Properties_C12.v (which only states and `exact`s) ---- *)
Lemma wit_cwd_canon : canon [s_d].
Proof. constructor; [|constructor]. unfold canon_comp. repeat split; try discriminate. cbn. intros [H|[]]. discriminate. Qed.

Lemma c12_refuted :
  exists cfg fs stream dp t p,
    c_check cfg = false /\ canon (c_cwd cfg) /\
    resolve fs (c_cwd cfg) (c_dest cfg) = ROk dp t /\
    In p (touched (fst (sink cfg fs stream))) /\ ~ under dp p /\
    lookup fs p = None /\ lookup (w_fs (fst (sink cfg fs stream))) p <> None.
Proof.
  exists (wit_cfg false), wit_fs, wit_stream, [s_d; s_dest], false, [s_d; s_evil].
  split; [reflexivity|]. split; [exact wit_cwd_canon|].
  split; [exact wit_dest|]. split; [exact wit_escape|]. split; [exact wit_not_under|].
  split; [vm_compute; reflexivity|]. rewrite wit_created. discriminate.
Qed.

Lemma bad_run_split :
  exists a b, rev (w_log (fst (sink (wit_cfg true) wit_fs bad_stream))) =
              a ++ Line [67;48;54;57;52;32;48;32;122] :: Reply (Err (EScrewup 9)) :: b /\
              acceptable [67;48;54;57;52;32;48;32;122] = false.
Proof.
  destruct bad_run as (A & B & _). rewrite A.
  eexists [_; _; _; _; _; _; _; _], []. split; [reflexivity|exact B].
Qed.

Lemma c12_nonvacuous :
  (let r := sink (wit_cfg true) wit_fs ok_stream in
   c_check (wit_cfg true) = true /\ canon (c_cwd (wit_cfg true)) /\
   resolve wit_fs (c_cwd (wit_cfg true)) (c_dest (wit_cfg true)) = ROk [s_d; s_dest] false /\
   snd r = RetEnd /\
   replies (fst r) = [Ack; Ack; Ack; Ack; Ack; Ack; Ack; Ack] /\
   lookup (w_fs (fst r)) [s_d; s_dest; [120]; [121]] = Some (File 384 None [104;105]) /\
   In [s_d; s_dest; [120]; [121]] (touched (fst r))) /\
  (replies (fst (sink (wit_cfg true) wit_fs wit_stream)) = [Ack; Err EName; Err (EScrewup 2)] /\
   w_fs (fst (sink (wit_cfg true) wit_fs wit_stream)) = wit_fs) /\
  (exists a b, rev (w_log (fst (sink (wit_cfg true) wit_fs bad_stream))) =
               a ++ Line [67;48;54;57;52;32;48;32;122] :: Reply (Err (EScrewup 9)) :: b /\
               acceptable [67;48;54;57;52;32;48;32;122] = false).
Proof.
  split; [|split; [exact wit_checked|exact bad_run_split]].
  destruct ok_run as (A & B & C & _ & E).
  split; [reflexivity|]. split; [exact wit_cwd_canon|]. split; [exact wit_dest|].
  split; [exact A|]. split; [exact B|]. split; [exact C|exact E].
Qed.
